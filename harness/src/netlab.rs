// netlab: a scripted loopback DNS server (UDP + TCP on the same port) and a driver that runs a
// history of queries on one client object (std / tokio / async-std / smol) against it, recording
// everything the client put on the wire, every result and every duration.
use crate::canon::*;
use crate::guard::GuardBuf;
use rsdns::clients::{ClientConfig, EDns, ProtocolStrategy, Recursion};
use rsdns::records::{Class, Type};
use std::io::{Read, Write};
use std::net::{SocketAddr, TcpListener, UdpSocket};
use std::sync::atomic::{AtomicBool, AtomicUsize, Ordering};
use std::sync::{Arc, Mutex};
use std::time::{Duration, Instant};

#[derive(Clone, Debug)]
struct QuerySpec {
    kind: String, // raw | rr<TY>
    name: String,
    qtype: u16,
    qclass: u16,
    drop_ms: Option<u64>,
    udp: Vec<Vec<(u64, String)>>, // per attempt: (delay, what)
    tcp: (u64, String),           // (accept delay, mode)
}

struct Shared {
    start: Instant,
    cur: AtomicUsize,
    stop: AtomicBool,
    specs: Vec<QuerySpec>,
    attempts: Mutex<Vec<usize>>,
    seen: Mutex<Vec<Option<Vec<u8>>>>, // last query datagram seen per query index (for late replies)
    udp_log: Mutex<Vec<(usize, u128, Vec<u8>)>>,
    tcp_log: Mutex<Vec<(usize, u128, Vec<u8>)>>,
}

fn question_end(q: &[u8]) -> Option<usize> {
    let mut p = 12;
    loop {
        let l = *q.get(p)? as usize;
        if l == 0 {
            return if p + 5 <= q.len() { Some(p + 5) } else { None };
        }
        if l >= 64 {
            return None;
        }
        p += 1 + l;
    }
}

// the genuine response to query datagram q (UDP form, no length prefix)
fn response(q: &[u8], tc: bool, tcp: bool, pad: usize) -> Vec<u8> {
    let qe = match question_end(q) {
        Some(e) => e,
        None => return q.to_vec(),
    };
    let mut r = Vec::new();
    r.extend_from_slice(&q[0..2]);
    r.extend_from_slice(&[0x81 | if tc { 0x02 } else { 0 }, 0x80]);
    r.extend_from_slice(&[0, 1, 0, 1, 0, 0, 0, 0]);
    r.extend_from_slice(&q[12..qe]);
    let qtype = u16::from_be_bytes([q[qe - 4], q[qe - 3]]);
    r.extend_from_slice(&[0xc0, 0x0c]);
    match qtype {
        28 => {
            r.extend_from_slice(&[0, 28, q[qe - 2], q[qe - 1], 0, 0, 0x0e, 0x10, 0, 16]);
            r.extend_from_slice(&[if tcp { 0x20 } else { 0x10 }; 16]);
        }
        16 => {
            r.extend_from_slice(&[0, 16, q[qe - 2], q[qe - 1], 0, 0, 0x0e, 0x10, 0, 4, 3]);
            r.extend_from_slice(if tcp { b"tcp" } else { b"udp" });
        }
        _ => {
            r.extend_from_slice(&[0, 1, q[qe - 2], q[qe - 1], 0, 0, 0x0e, 0x10, 0, 4]);
            r.extend_from_slice(if tcp { &[5, 6, 7, 8] } else { &[1, 2, 3, 4] });
        }
    }
    for i in 0..pad {
        r.push((i % 251) as u8);
    }
    r
}

fn junk(kind: &str, q: &[u8]) -> Vec<u8> {
    if let Some(k) = kind.strip_prefix("tc") {
        let mut j = junk(k, q);
        if j.len() > 2 {
            j[2] |= 0x02;
        }
        return j;
    }
    let r = response(q, false, false, 0);
    let qe = question_end(q).unwrap_or(r.len().min(17));
    let mut j = r.clone();
    match kind {
        "empty" => return Vec::new(),
        "short" => return r[..5.min(r.len())].to_vec(),
        "hdr11" => return r[..11.min(r.len())].to_vec(),
        "rand" => return (0..40u32).map(|i| (i.wrapping_mul(2654435761) >> 13) as u8).collect(),
        "wrongid" => {
            j[1] = j[1].wrapping_add(1);
        }
        "swapid" => {
            j.swap(0, 1);
            if j[0] == j[1] {
                j[0] = j[0].wrapping_add(1);
            }
        }
        "name1" => {
            // change one letter of the first label to another letter
            if j.len() > 13 && j[12] > 0 {
                j[13] = if j[13] == b'z' || j[13] == b'Z' { b'y' } else { j[13].wrapping_add(1) };
                if !(j[13] as char).is_ascii_alphanumeric() {
                    j[13] = b'q';
                }
            }
        }
        "case" => {
            for b in j[12..qe - 4].iter_mut() {
                if b.is_ascii_alphabetic() {
                    *b ^= 0x20;
                }
            }
        }
        "wtype" => {
            j[qe - 3] = j[qe - 3].wrapping_add(1);
        }
        "wclass" => {
            j[qe - 1] ^= 2;
        }
        "qd0" => {
            j[5] = 0;
        }
        "qd2" => {
            j[5] = 2;
            let q2 = r[12..qe].to_vec();
            let tail = j.split_off(qe);
            j.extend_from_slice(&q2);
            j.extend_from_slice(&tail);
        }
        "truncq" => return r[..(12 + (qe - 12) / 2).max(13).min(r.len())].to_vec(),
        "hdronly" => return r[..12].to_vec(),
        "selfptr" => {
            let mut k = r[..12].to_vec();
            k.extend_from_slice(&[0xc0, 0x0c]);
            k.extend_from_slice(&r[qe - 4..qe]);
            return k;
        }
        "query" => {
            // the query itself echoed back (QR=0) — same id and question: the filter does not look at QR
            return q.to_vec();
        }
        _ => {}
    }
    j
}

fn udp_server(sock: UdpSocket, sh: Arc<Shared>) {
    sock.set_read_timeout(Some(Duration::from_millis(10))).unwrap();
    let mut buf = vec![0u8; 70000];
    while !sh.stop.load(Ordering::SeqCst) {
        let (n, from) = match sock.recv_from(&mut buf) {
            Ok(x) => x,
            Err(_) => continue,
        };
        let q = buf[..n].to_vec();
        let cur = sh.cur.load(Ordering::SeqCst);
        let t = sh.start.elapsed().as_millis();
        sh.udp_log.lock().unwrap().push((cur, t, q.clone()));
        if cur >= sh.specs.len() {
            continue;
        }
        sh.seen.lock().unwrap()[cur] = Some(q.clone());
        let attempt = {
            let mut a = sh.attempts.lock().unwrap();
            a[cur] += 1;
            a[cur] - 1
        };
        let items = match sh.specs[cur].udp.get(attempt) {
            Some(i) => i.clone(),
            None => continue,
        };
        for (delay, what) in items {
            let payload: Option<Vec<u8>> = if what == "resp" {
                Some(response(&q, false, false, 0))
            } else if what == "resp2" {
                // two answer records (a longer message)
                let mut r = response(&q, false, false, 0);
                let qe = question_end(&q).unwrap_or(12);
                let rec = r[qe..].to_vec();
                r.extend_from_slice(&rec);
                r[7] = 2;
                Some(r)
            } else if what == "resplie" {
                // announces two answers, carries one
                let mut r = response(&q, false, false, 0);
                r[7] = 2;
                Some(r)
            } else if what == "resptc" {
                Some(response(&q, true, false, 0))
            } else if let Some(n) = what.strip_prefix("big") {
                Some(response(&q, false, false, n.parse().unwrap_or(0)))
            } else if let Some(k) = what.strip_prefix("late") {
                let k: usize = k.parse().unwrap_or(0);
                sh.seen.lock().unwrap().get(k).cloned().flatten().map(|p| response(&p, false, false, 0))
            } else if let Some(k) = what.strip_prefix('J') {
                Some(junk(k, &q))
            } else if let Some(h) = what.strip_prefix('X') {
                // bytes chosen by the checker; the first two are XORed with the id of the query
                let mut p = unhex(h);
                for i in 0..p.len().min(2).min(q.len()) {
                    p[i] ^= q[i];
                }
                Some(p)
            } else {
                None
            };
            if let Some(p) = payload {
                let s2 = sock.try_clone().unwrap();
                std::thread::spawn(move || {
                    if delay > 0 {
                        std::thread::sleep(Duration::from_millis(delay));
                    }
                    let _ = s2.send_to(&p, from);
                });
            }
        }
    }
}

fn tcp_server(l: TcpListener, sh: Arc<Shared>) {
    l.set_nonblocking(true).unwrap();
    while !sh.stop.load(Ordering::SeqCst) {
        let (mut s, _) = match l.accept() {
            Ok(x) => x,
            Err(_) => {
                std::thread::sleep(Duration::from_millis(2));
                continue;
            }
        };
        let sh2 = sh.clone();
        std::thread::spawn(move || {
            let cur = sh2.cur.load(Ordering::SeqCst);
            let t = sh2.start.elapsed().as_millis();
            let _ = s.set_nonblocking(false);
            let _ = s.set_nodelay(true);
            let _ = s.set_read_timeout(Some(Duration::from_millis(1500)));
            let (adelay, mode) = sh2.specs.get(cur).map(|q| q.tcp.clone()).unwrap_or((0, "full".into()));
            if adelay > 0 {
                std::thread::sleep(Duration::from_millis(adelay));
            }
            // read the length-prefixed query
            let mut got = Vec::new();
            let mut lenb = [0u8; 2];
            if s.read_exact(&mut lenb).is_ok() {
                got.extend_from_slice(&lenb);
                let n = u16::from_be_bytes(lenb) as usize;
                let mut body = vec![0u8; n];
                if s.read_exact(&mut body).is_ok() {
                    got.extend_from_slice(&body);
                }
            }
            sh2.tcp_log.lock().unwrap().push((cur, t, got.clone()));
            if got.len() < 14 {
                return;
            }
            let q = &got[2..];
            let parts: Vec<&str> = mode.split(':').collect();
            let mut resp = response(q, false, true, 0);
            let mut announce = resp.len();
            let mut gap = 0u64;
            let mut cuts: Vec<usize> = Vec::new();
            let mut close_after: Option<usize> = None;
            let mut hold = false;
            match parts[0] {
                "full" => {}
                "split" => {
                    gap = parts.get(1).and_then(|x| x.parse().ok()).unwrap_or(5);
                    cuts = parts.get(2).map(|x| x.split('.').filter_map(|c| c.parse().ok()).collect()).unwrap_or_default();
                }
                "short" => close_after = parts.get(1).and_then(|x| x.parse().ok()),
                "over" => {
                    announce = parts.get(1).and_then(|x| x.parse().ok()).unwrap_or(4096);
                    resp.resize(announce, 0xAB);
                }
                "pad" => {
                    let n: usize = parts.get(1).and_then(|x| x.parse().ok()).unwrap_or(0);
                    resp = response(q, false, true, n);
                    announce = resp.len();
                }
                "stall" => {
                    close_after = parts.get(1).and_then(|x| x.parse().ok());
                    hold = true;
                }
                "drip" => {
                    gap = parts.get(1).and_then(|x| x.parse().ok()).unwrap_or(100);
                    cuts = (1..resp.len() + 2).collect();
                }
                "trail" => {}
                "zero" => {
                    announce = 0;
                    resp.clear();
                }
                _ => {}
            }
            let mut wire = (announce as u16).to_be_bytes().to_vec();
            wire.extend_from_slice(&resp);
            if parts[0] == "raw" {
                // the whole stream chosen by the checker, segment by segment
                gap = parts.get(1).and_then(|x| x.parse().ok()).unwrap_or(5);
                wire.clear();
                for seg in parts.get(2).map(|x| x.split('.').collect::<Vec<_>>()).unwrap_or_default() {
                    wire.extend_from_slice(&unhex(seg));
                    cuts.push(wire.len());
                }
                hold = parts.get(3) == Some(&"hold");
            }
            if parts[0] == "trail" {
                let n: usize = parts.get(1).and_then(|x| x.parse().ok()).unwrap_or(7);
                wire.extend((0..n).map(|i| 0xF0 | (i as u8 & 0xF)));
            }
            if let Some(n) = close_after {
                wire.truncate(n.min(wire.len()));
            }
            let mut pos = 0;
            cuts.push(wire.len());
            for c in cuts {
                let c = c.min(wire.len());
                if c <= pos {
                    continue;
                }
                if s.write_all(&wire[pos..c]).is_err() {
                    return;
                }
                let _ = s.flush();
                pos = c;
                if gap > 0 && pos < wire.len() {
                    std::thread::sleep(Duration::from_millis(gap));
                }
                if sh2.stop.load(Ordering::SeqCst) {
                    return;
                }
            }
            if hold {
                let t0 = Instant::now();
                while !sh2.stop.load(Ordering::SeqCst) && t0.elapsed() < Duration::from_secs(20) {
                    std::thread::sleep(Duration::from_millis(20));
                }
            }
        });
    }
}

fn parse_specs(s: &str) -> Vec<QuerySpec> {
    s.split('|')
        .filter(|x| !x.is_empty())
        .map(|q| {
            let f: Vec<&str> = q.split(';').collect();
            let udp = f[5]
                .split('/')
                .map(|att| {
                    att.split(',')
                        .filter(|x| !x.is_empty() && *x != "-")
                        .map(|it| {
                            let (d, w) = it.split_once(':').unwrap();
                            (d.parse().unwrap(), w.to_string())
                        })
                        .collect()
                })
                .collect();
            let (ad, mode) = f[6].split_once(':').unwrap_or(("0", "full"));
            QuerySpec {
                kind: f[0].to_string(),
                name: String::from_utf8_lossy(&unhex(f[1])).to_string(),
                qtype: f[2].parse().unwrap(),
                qclass: f[3].parse().unwrap(),
                drop_ms: if f[4] == "-" { None } else { f[4].parse().ok() },
                udp,
                tcp: (ad.parse().unwrap_or(0), mode.to_string()),
            }
        })
        .collect()
}

fn fmt_rr<D: rsdns::records::data::RData + 'static>(r: rsdns::Result<rsdns::records::RecordSet<D>>) -> String {
    match r {
        Ok(rs) => format!("ok:RS({},{},{},{})", hex(rs.name.as_str().as_bytes()), rs.rclass.value(), rs.ttl, rs.rdata.len()),
        Err(e) => format!("err:{}", err(&e)),
    }
}

macro_rules! run_async_queries {
    ($client:expr, $specs:expr, $sh:expr, $bufsize:expr, $sleep:path, $timeout:ident, $out:expr) => {{
        let mut client = $client;
        for (k, q) in $specs.iter().enumerate() {
            $sh.cur.store(k, Ordering::SeqCst);
            let t0 = Instant::now();
            let res: String = if q.kind == "raw" {
                let mut g = GuardBuf::new(&vec![0xCCu8; $bufsize]);
                let fut = client.query_raw(&q.name, Type::from(q.qtype), Class::from(q.qclass), g.as_mut_slice());
                let r = match q.drop_ms {
                    Some(ms) => match $timeout!(Duration::from_millis(ms), fut) {
                        Some(r) => Some(r),
                        None => None,
                    },
                    None => Some(fut.await),
                };
                match r {
                    None => "dropped".to_string(),
                    Some(Ok(n)) => format!("ok:{}:{}", n, hex(&g.as_slice()[..n.min($bufsize)])),
                    Some(Err(e)) => format!("err:{}", err(&e)),
                }
            } else {
                let ty: u16 = q.kind[2..].parse().unwrap_or(1);
                macro_rules! rr {
                    ($D:ty) => {{
                        let fut = client.query_rrset::<$D>(&q.name, Class::from(q.qclass));
                        match q.drop_ms {
                            Some(ms) => match $timeout!(Duration::from_millis(ms), fut) {
                                Some(r) => fmt_rr(r),
                                None => "dropped".to_string(),
                            },
                            None => fmt_rr(fut.await),
                        }
                    }};
                }
                match ty {
                    28 => rr!(rsdns::records::data::Aaaa),
                    16 => rr!(rsdns::records::data::Txt),
                    5 => rr!(rsdns::records::data::Cname),
                    _ => rr!(rsdns::records::data::A),
                }
            };
            $out.push(format!("Q{}={}@{}", k, res, t0.elapsed().as_millis()));
            $sleep(Duration::from_millis(15)).await;
        }
    }};
}

pub fn op_net(a: &[&str]) -> String {
    // net <client> <strategy> <qt|-> <life> <edns|-> <rd> <bufsize> <queries>
    let client_kind = a[0];
    let noudp = a[1].ends_with("+noudp");
    let strategy = match a[1].trim_end_matches("+noudp") {
        "tcp" => ProtocolStrategy::Tcp,
        "notcp" => ProtocolStrategy::NoTcp,
        _ => ProtocolStrategy::Udp,
    };
    let qt = if a[2] == "-" { None } else { Some(Duration::from_millis(a[2].parse().unwrap())) };
    let life = Duration::from_millis(a[3].parse().unwrap());
    let edns = if a[4] == "-" {
        EDns::Off
    } else {
        let (v, p) = a[4].split_once(':').unwrap();
        EDns::On {
            version: v.parse().unwrap(),
            udp_payload_size: p.parse().unwrap(),
        }
    };
    let rd = if a[5] == "1" { Recursion::On } else { Recursion::Off };
    let bufsize: usize = a[6].parse().unwrap();
    let specs = parse_specs(a.get(7).copied().unwrap_or(""));

    // server: UDP + TCP on the same loopback port
    let (udp, tcp) = loop {
        let u = UdpSocket::bind("127.0.0.1:0").unwrap();
        let port = u.local_addr().unwrap().port();
        if let Ok(t) = TcpListener::bind(("127.0.0.1", port)) {
            break (u, t);
        }
    };
    let addr: SocketAddr = udp.local_addr().unwrap();
    let sh = Arc::new(Shared {
        start: Instant::now(),
        cur: AtomicUsize::new(0),
        stop: AtomicBool::new(false),
        specs: specs.clone(),
        attempts: Mutex::new(vec![0; specs.len()]),
        seen: Mutex::new(vec![None; specs.len()]),
        udp_log: Mutex::new(Vec::new()),
        tcp_log: Mutex::new(Vec::new()),
    });
    let h1 = {
        let s = sh.clone();
        if noudp {
            // nothing listens on the UDP port: the kernel answers with ICMP port unreachable
            drop(udp);
            std::thread::spawn(move || {
                let _ = s;
            })
        } else {
            std::thread::spawn(move || udp_server(udp, s))
        }
    };
    let h2 = {
        let s = sh.clone();
        std::thread::spawn(move || tcp_server(tcp, s))
    };

    let conf = ClientConfig::with_nameserver(addr)
        .set_protocol_strategy(strategy)
        .set_query_timeout(qt)
        .set_query_lifetime(life)
        .set_edns(edns)
        .set_recursion(rd);

    let mut out: Vec<String> = Vec::new();
    match client_kind {
        "std" => match rsdns::clients::std::Client::new(conf) {
            Err(e) => out.push(format!("new=err:{}", err(&e))),
            Ok(mut client) => {
                for (k, q) in specs.iter().enumerate() {
                    sh.cur.store(k, Ordering::SeqCst);
                    let t0 = Instant::now();
                    let res = if q.kind == "raw" {
                        let mut g = GuardBuf::new(&vec![0xCCu8; bufsize]);
                        match client.query_raw(&q.name, Type::from(q.qtype), Class::from(q.qclass), g.as_mut_slice()) {
                            Ok(n) => format!("ok:{}:{}", n, hex(&g.as_slice()[..n.min(bufsize)])),
                            Err(e) => format!("err:{}", err(&e)),
                        }
                    } else {
                        let ty: u16 = q.kind[2..].parse().unwrap_or(1);
                        match ty {
                            28 => fmt_rr(client.query_rrset::<rsdns::records::data::Aaaa>(&q.name, Class::from(q.qclass))),
                            16 => fmt_rr(client.query_rrset::<rsdns::records::data::Txt>(&q.name, Class::from(q.qclass))),
                            5 => fmt_rr(client.query_rrset::<rsdns::records::data::Cname>(&q.name, Class::from(q.qclass))),
                            _ => fmt_rr(client.query_rrset::<rsdns::records::data::A>(&q.name, Class::from(q.qclass))),
                        }
                    };
                    out.push(format!("Q{}={}@{}", k, res, t0.elapsed().as_millis()));
                    std::thread::sleep(Duration::from_millis(15));
                }
            }
        },
        "tokio" => {
            let rt = tokio::runtime::Builder::new_current_thread().enable_all().build().unwrap();
            rt.block_on(async {
                macro_rules! tmo {
                    ($d:expr, $f:expr) => {
                        tokio::time::timeout($d, $f).await.ok()
                    };
                }
                match rsdns::clients::tokio::Client::new(conf).await {
                    Err(e) => out.push(format!("new=err:{}", err(&e))),
                    Ok(client) => run_async_queries!(client, specs, sh, bufsize, tokio::time::sleep, tmo, out),
                }
            });
        }
        "asyncstd" => {
            async_std::task::block_on(async {
                macro_rules! tmo {
                    ($d:expr, $f:expr) => {
                        async_std::future::timeout($d, $f).await.ok()
                    };
                }
                match rsdns::clients::async_std::Client::new(conf).await {
                    Err(e) => out.push(format!("new=err:{}", err(&e))),
                    Ok(client) => run_async_queries!(client, specs, sh, bufsize, async_std::task::sleep, tmo, out),
                }
            });
        }
        "smol" => {
            smol::block_on(async {
                async fn sl(d: Duration) {
                    smol::Timer::after(d).await;
                }
                macro_rules! tmo {
                    ($d:expr, $f:expr) => {{
                        let t = async {
                            smol::Timer::after($d).await;
                            None
                        };
                        let f = async { Some($f.await) };
                        smol::future::or(f, t).await
                    }};
                }
                match rsdns::clients::smol::Client::new(conf).await {
                    Err(e) => out.push(format!("new=err:{}", err(&e))),
                    Ok(client) => run_async_queries!(client, specs, sh, bufsize, sl, tmo, out),
                }
            });
        }
        _ => out.push("BADCLIENT".into()),
    }
    sh.cur.store(usize::MAX, Ordering::SeqCst);
    std::thread::sleep(Duration::from_millis(30));
    sh.stop.store(true, Ordering::SeqCst);
    let _ = h1.join();
    let _ = h2.join();
    let ul = sh.udp_log.lock().unwrap();
    let tl = sh.tcp_log.lock().unwrap();
    out.push(format!(
        "UDP=[{}]",
        ul.iter().map(|(q, t, b)| format!("{}:{}:{}", q, t, hex(b))).collect::<Vec<_>>().join(",")
    ));
    out.push(format!(
        "TCP=[{}]",
        tl.iter().map(|(q, t, b)| format!("{}:{}:{}", q, t, hex(b))).collect::<Vec<_>>().join(",")
    ));
    out.join(" ")
}
