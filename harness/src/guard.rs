// GuardBuf: a byte buffer whose last byte is immediately followed by a PROT_NONE page, so that a
// read or write past the end of the message faults (SIGSEGV) instead of silently succeeding.
pub struct GuardBuf {
    base: *mut u8,
    map_len: usize,
    start: *mut u8,
    len: usize,
}

impl GuardBuf {
    pub fn new(data: &[u8]) -> GuardBuf {
        let page = 4096usize;
        let body = (data.len() + page - 1) / page * page;
        let body = if body == 0 { page } else { body };
        let map_len = body + page;
        unsafe {
            let base = libc::mmap(
                std::ptr::null_mut(),
                map_len,
                libc::PROT_READ | libc::PROT_WRITE,
                libc::MAP_PRIVATE | libc::MAP_ANONYMOUS,
                -1,
                0,
            ) as *mut u8;
            assert!(base as isize != -1, "mmap failed");
            libc::memset(base as *mut libc::c_void, 0xEE, body);
            let rc = libc::mprotect(base.add(body) as *mut libc::c_void, page, libc::PROT_NONE);
            assert!(rc == 0, "mprotect failed");
            let start = base.add(body - data.len());
            std::ptr::copy_nonoverlapping(data.as_ptr(), start, data.len());
            GuardBuf {
                base,
                map_len,
                start,
                len: data.len(),
            }
        }
    }

    pub fn zeroed(len: usize) -> GuardBuf {
        GuardBuf::new(&vec![0u8; len])
    }

    pub fn as_slice(&self) -> &[u8] {
        unsafe { std::slice::from_raw_parts(self.start, self.len) }
    }

    pub fn as_mut_slice(&mut self) -> &mut [u8] {
        unsafe { std::slice::from_raw_parts_mut(self.start, self.len) }
    }
}

impl Drop for GuardBuf {
    fn drop(&mut self) {
        unsafe {
            libc::munmap(self.base as *mut libc::c_void, self.map_len);
        }
    }
}
