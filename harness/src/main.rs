// rsdns verification harness: runs the real crate on the cases the Coq model is run on and
// prints one canonical result line per case.  See /verif/DESIGN.md.
mod canon;
mod guard;
mod ops_core;
mod ops_script;
mod ops_text;
mod netlab;

use std::io::{BufRead, Write};

#[global_allocator]
static GLOBAL: ops_script::Counting = ops_script::Counting;

fn main() {
    let args: Vec<String> = std::env::args().collect();
    if args.len() < 2 {
        eprintln!("usage: harness worker < cases > results");
        std::process::exit(2);
    }
    match args[1].as_str() {
        "worker" => worker(),
        _ => {
            eprintln!("unknown mode");
            std::process::exit(2);
        }
    }
}

// Protocol: each input line is `<id> <op> <args...>`. For each line the worker prints
// `B <id>` (flushed) before running it and `R <id> <result>` after, so that a supervisor can
// attribute a crash/abort/hang to the case that caused it.
fn worker() {
    std::panic::set_hook(Box::new(|_| {}));
    let stdin = std::io::stdin();
    let stdout = std::io::stdout();
    for line in stdin.lock().lines() {
        let line = line.unwrap();
        let line = line.trim();
        if line.is_empty() || line.starts_with('#') {
            continue;
        }
        let mut it = line.splitn(3, ' ');
        let id = it.next().unwrap().to_string();
        let op = it.next().unwrap_or("").to_string();
        let rest = it.next().unwrap_or("").to_string();
        {
            let mut o = stdout.lock();
            writeln!(o, "B {}", id).unwrap();
            o.flush().unwrap();
        }
        let r = std::panic::catch_unwind(|| ops_core::dispatch(&op, &rest));
        let out = match r {
            Ok(s) => s,
            Err(p) => {
                let msg = if let Some(s) = p.downcast_ref::<&str>() {
                    s.to_string()
                } else if let Some(s) = p.downcast_ref::<String>() {
                    s.clone()
                } else {
                    "?".to_string()
                };
                format!("PANIC({})", canon::panic_class(&msg))
            }
        };
        let mut o = stdout.lock();
        writeln!(o, "R {} {}", id, out).unwrap();
        o.flush().unwrap();
    }
}
