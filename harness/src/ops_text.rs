// name text ops: parsing, comparison/ordering/hashing coherence, and the wire encoder (hooked)
use crate::canon::*;
use crate::guard::GuardBuf;
use rsdns::names::{InlineName, Name};
use std::hash::{Hash, Hasher};
use std::str::FromStr;

struct Rec(Vec<u8>);
impl Hasher for Rec {
    fn finish(&self) -> u64 {
        0
    }
    fn write(&mut self, bytes: &[u8]) {
        self.0.extend_from_slice(bytes);
    }
}
fn feed<T: Hash>(t: &T) -> Vec<u8> {
    let mut r = Rec(Vec::new());
    t.hash(&mut r);
    r.0
}
// the sequence of Hasher calls (std: equal values must make "exactly the same sequence of calls"):
// "b<n>" = n consecutive write_u8 calls, "w<n>" = one write of n bytes, "o<n>" = another integer write
struct Shape(Vec<(char, usize)>);
impl Shape {
    fn push(&mut self, k: char, n: usize) {
        if k == 'b' {
            if let Some(last) = self.0.last_mut() {
                if last.0 == 'b' {
                    last.1 += 1;
                    return;
                }
            }
            self.0.push(('b', 1));
        } else {
            self.0.push((k, n));
        }
    }
}
impl Hasher for Shape {
    fn finish(&self) -> u64 {
        0
    }
    fn write(&mut self, bytes: &[u8]) {
        self.push('w', bytes.len());
    }
    fn write_u8(&mut self, _i: u8) {
        self.push('b', 1);
    }
    fn write_u16(&mut self, _i: u16) {
        self.push('o', 2);
    }
    fn write_u32(&mut self, _i: u32) {
        self.push('o', 4);
    }
    fn write_u64(&mut self, _i: u64) {
        self.push('o', 8);
    }
    fn write_usize(&mut self, _i: usize) {
        self.push('o', 0);
    }
}
fn shape<T: Hash>(t: &T) -> String {
    let mut r = Shape(Vec::new());
    t.hash(&mut r);
    if r.0.is_empty() {
        return "-".into();
    }
    r.0.iter().map(|(k, n)| format!("{}{}", k, n)).collect::<Vec<_>>().join(".")
}
fn ord(o: std::cmp::Ordering) -> &'static str {
    match o {
        std::cmp::Ordering::Less => "Lt",
        std::cmp::Ordering::Equal => "Eq",
        std::cmp::Ordering::Greater => "Gt",
    }
}

pub fn op_text(raw: &[u8]) -> String {
    let s = match std::str::from_utf8(raw) {
        Ok(s) => s,
        Err(_) => return "nonutf8".into(),
    };
    let h = res(&Name::from_str(s), |n| hex(n.as_str().as_bytes()));
    let i = res(&InlineName::from_str(s), |n| hex(n.as_str().as_bytes()));
    let th = res(&Name::try_from(s), |n| hex(n.as_str().as_bytes()));
    let ti = res(&InlineName::try_from(s), |n| hex(n.as_str().as_bytes()));
    format!("H={} I={} TH={} TI={}", h, i, th, ti)
}

pub fn op_textpair(ra: &[u8], rb: &[u8]) -> String {
    let (a, b) = match (std::str::from_utf8(ra), std::str::from_utf8(rb)) {
        (Ok(a), Ok(b)) => (a, b),
        _ => return "nonutf8".into(),
    };
    let (ha, ia) = (Name::from_str(a), InlineName::from_str(a));
    let (hb, ib) = (Name::from_str(b), InlineName::from_str(b));
    let mut out = Vec::new();
    // comparing a parsed name with a raw string (b need not be a valid name)
    if let (Ok(ha), Ok(ia)) = (&ha, &ia) {
        out.push(format!("EQS={},{}", *ha == b, *ia == b));
    } else {
        out.push("EQS=-".into());
    }
    if let (Ok(ha), Ok(ia), Ok(hb), Ok(ib)) = (&ha, &ia, &hb, &ib) {
        out.push(format!("EQ={},{},{},{}", ha == hb, ia == ib, ia == hb, *ia == &*hb));
        out.push(format!(
            "CMP={},{},{},{}",
            ord(ha.cmp(hb)),
            ord(ia.cmp(ib)),
            ord(ha.partial_cmp(hb).unwrap()),
            ord(ia.partial_cmp(ib).unwrap())
        ));
        out.push(format!(
            "HF={},{},{},{}",
            hex(&feed(ha)),
            hex(&feed(ia)),
            hex(&feed(hb)),
            hex(&feed(ib))
        ));
        out.push(format!("HS={},{},{},{}", shape(ha), shape(ia), shape(hb), shape(ib)));
        // conversions preserve the text
        let c1: InlineName = ha.clone().into();
        let c2: Name = ia.clone().into();
        let c3: Name = (&*ia).into();
        let c4: String = ha.clone().into();
        out.push(format!(
            "CONV={},{},{},{}",
            hex(c1.as_str().as_bytes()),
            hex(c2.as_str().as_bytes()),
            hex(c3.as_str().as_bytes()),
            hex(c4.as_bytes())
        ));
    } else {
        out.push("PAIR=-".into());
    }
    out.join(" ")
}

#[cfg(feature = "hooks")]
pub fn op_wname(name: &[u8], cap: usize) -> String {
    let mut g = GuardBuf::new(&vec![0xAAu8; cap]);
    let r = rsdns::verif::write_domain_name(g.as_mut_slice(), name);
    match r {
        Ok(n) => {
            let wire = &g.as_slice()[..n.min(cap)];
            // decode what was written
            let rt = res(&rsdns::verif::read_inline_name(wire, 0), |(nm, p)| {
                format!("{}:{}", hex(nm.as_str().as_bytes()), p)
            });
            let untouched = g.as_slice()[n.min(cap)..].iter().all(|b| *b == 0xAA);
            format!("ok:{}:{} RT={} REST={}", n, hex(wire), rt, untouched)
        }
        Err(e) => format!("err:{}", err(&e)),
    }
}
#[cfg(not(feature = "hooks"))]
pub fn op_wname(_name: &[u8], _cap: usize) -> String {
    "NOHOOKS".into()
}

#[cfg(feature = "hooks")]
pub fn op_query(a: &[&str]) -> String {
    // query <cap> <hexname> <qtype> <qclass> <rd:0|1> <opt: - | ver:payload>
    let cap: usize = a[0].parse().unwrap();
    let raw = unhex(a[1]);
    let name = match std::str::from_utf8(&raw) {
        Ok(s) => s.to_string(),
        Err(_) => return "nonutf8".into(),
    };
    let qtype: u16 = a[2].parse().unwrap();
    let qclass: u16 = a[3].parse().unwrap();
    let rd = a[4] == "1";
    let opt = if a[5] == "-" {
        None
    } else {
        let (v, p) = a[5].split_once(':').unwrap();
        Some((v.parse::<u8>().unwrap(), p.parse::<u16>().unwrap()))
    };
    let mut g = GuardBuf::new(&vec![0u8; cap]);
    match rsdns::verif::write_query(g.as_mut_slice(), &name, qtype, qclass, rd, opt) {
        Ok((n, id)) => {
            let mut wire = g.as_slice()[..n.min(cap)].to_vec();
            // the id is random: report it separately and zero it in the bytes
            if wire.len() >= 4 {
                wire[2] = 0;
                wire[3] = 0;
            }
            let _ = id;
            format!("ok:{}:{}", n, hex(&wire))
        }
        Err(e) => format!("err:{}", err(&e)),
    }
}
#[cfg(not(feature = "hooks"))]
pub fn op_query(_a: &[&str]) -> String {
    "NOHOOKS".into()
}
