// script op: any sequence of public MessageReader calls over 1..n readers, with shared pools
// of markers and borrowed names.  Mirrors coq/theories/Script.v.
use crate::canon::*;
use rsdns::message::reader::{MessageReader, NameRef, RecordMarker};
use rsdns::message::RecordsSection;
use rsdns::names::{InlineName, Name};
use rsdns::records::data::*;
use rsdns::records::Opt;
use rsdns::Result;
use std::net::{Ipv4Addr, Ipv6Addr};
use std::panic::{catch_unwind, AssertUnwindSafe};

// ---- allocation counting (C20): a counting global allocator with a thread-local counter ----
pub struct Counting;
thread_local! {
    static ALLOCS: std::cell::Cell<u64> = const { std::cell::Cell::new(0) };
}
unsafe impl std::alloc::GlobalAlloc for Counting {
    unsafe fn alloc(&self, l: std::alloc::Layout) -> *mut u8 {
        let _ = ALLOCS.try_with(|c| c.set(c.get() + 1));
        std::alloc::System.alloc(l)
    }
    unsafe fn dealloc(&self, p: *mut u8, l: std::alloc::Layout) {
        std::alloc::System.dealloc(p, l)
    }
    unsafe fn realloc(&self, p: *mut u8, l: std::alloc::Layout, n: usize) -> *mut u8 {
        let _ = ALLOCS.try_with(|c| c.set(c.get() + 1));
        std::alloc::System.realloc(p, l, n)
    }
    unsafe fn alloc_zeroed(&self, l: std::alloc::Layout) -> *mut u8 {
        let _ = ALLOCS.try_with(|c| c.set(c.get() + 1));
        std::alloc::System.alloc_zeroed(l)
    }
}
pub fn allocs() -> u64 {
    ALLOCS.with(|c| c.get())
}
thread_local! {
    static MEASURED: std::cell::Cell<u64> = const { std::cell::Cell::new(0) };
}
// evaluate a crate call, adding the allocations it performed to MEASURED
macro_rules! cnt {
    ($e:expr) => {{
        let before = allocs();
        let v = $e;
        let after = allocs();
        MEASURED.with(|m| m.set(m.get() + (after - before)));
        v
    }};
}

fn sec(n: usize) -> RecordsSection {
    match n {
        0 => RecordsSection::Answer,
        1 => RecordsSection::Authority,
        _ => RecordsSection::Additional,
    }
}

pub fn fmt_header(h: &rsdns::message::Header) -> String {
    let f = h.flags;
    format!(
        "H({},{},{},{},{},{}|{},{},{},{},{},{},{})",
        h.id,
        u16::from(f),
        h.qd_count,
        h.an_count,
        h.ns_count,
        h.ar_count,
        f.message_type().is_response() as u8,
        f.opcode().value(),
        f.authoritative_answer() as u8,
        f.truncated() as u8,
        f.recursion_desired() as u8,
        f.recursion_available() as u8,
        f.response_code().value()
    )
}

pub fn fmt_marker(m: &RecordMarker) -> String {
    let off = m.offset();
    // RecordOffset fields are private: Debug is the only public view
    let d = format!("{:?}", off);
    let nums: Vec<String> = d
        .split(|c: char| !c.is_ascii_digit())
        .filter(|s| !s.is_empty())
        .map(|s| s.to_string())
        .collect();
    format!(
        "M({},{},{},{},{},{},{})",
        nums.get(0).cloned().unwrap_or_default(),
        nums.get(1).cloned().unwrap_or_default(),
        m.rtype().value(),
        m.rclass().value(),
        m.ttl(),
        m.rdlen(),
        m.section() as usize
    )
}

fn fmt_slice(msg: &[u8], s: &[u8]) -> String {
    let off = (s.as_ptr() as usize).wrapping_sub(msg.as_ptr() as usize);
    if off > msg.len() || s.len() > msg.len() - off {
        return format!("B(OUTSIDE:{}:{})", off as isize, s.len());
    }
    format!("B({},{})", off, hex(s))
}

fn v4(a: &Ipv4Addr) -> u32 {
    u32::from(*a)
}
fn v6(a: &Ipv6Addr) -> u128 {
    u128::from(*a)
}
fn nm(n: &Name) -> String {
    hex(n.as_str().as_bytes())
}

pub trait ReadD {
    fn run<D: RData + 'static>(&mut self) -> Result<D>;
}

pub fn typed<R: ReadD>(ty: u16, r: &mut R) -> Option<Result<String>> {
    Some(match ty {
        1 => r.run::<A>().map(|d| format!("D(A,{})", v4(&d.address))),
        28 => r.run::<Aaaa>().map(|d| format!("D(Aaaa,{})", v6(&d.address))),
        2 => r.run::<Ns>().map(|d| format!("D(Name,2,{})", nm(&d.nsdname))),
        3 => r.run::<Md>().map(|d| format!("D(Name,3,{})", nm(&d.madname))),
        4 => r.run::<Mf>().map(|d| format!("D(Name,4,{})", nm(&d.madname))),
        5 => r.run::<Cname>().map(|d| format!("D(Name,5,{})", nm(&d.cname))),
        7 => r.run::<Mb>().map(|d| format!("D(Name,7,{})", nm(&d.madname))),
        8 => r.run::<Mg>().map(|d| format!("D(Name,8,{})", nm(&d.mgmname))),
        9 => r.run::<Mr>().map(|d| format!("D(Name,9,{})", nm(&d.newname))),
        12 => r.run::<Ptr>().map(|d| format!("D(Name,12,{})", nm(&d.ptrdname))),
        13 => r
            .run::<Hinfo>()
            .map(|d| format!("D(Hinfo,{},{})", hex(&d.cpu), hex(&d.os))),
        11 => r.run::<Wks>().map(|d| {
            format!("D(Wks,{},{},{})", v4(&d.address), d.protocol, hex(&d.bitmap))
        }),
        14 => r
            .run::<Minfo>()
            .map(|d| format!("D(Minfo,{},{})", nm(&d.rmailbx), nm(&d.emailbx))),
        15 => r
            .run::<Mx>()
            .map(|d| format!("D(Mx,{},{})", d.preference, nm(&d.exchange))),
        10 => r.run::<Null>().map(|d| format!("D(Null,{})", hex(&d.anything))),
        6 => r.run::<Soa>().map(|d| {
            format!(
                "D(Soa,{},{},{},{},{},{},{})",
                nm(&d.mname),
                nm(&d.rname),
                d.serial,
                d.refresh,
                d.retry,
                d.expire,
                d.minimum
            )
        }),
        16 => r.run::<Txt>().map(|d| format!("D(Txt,{})", hex(&d.text))),
        _ => return None,
    })
}

struct Seq<'r, 'a>(&'r mut MessageReader<'a>, &'r RecordMarker);
impl ReadD for Seq<'_, '_> {
    fn run<D: RData + 'static>(&mut self) -> Result<D> {
        cnt!(self.0.record_data::<D>(self.1))
    }
}
struct At<'r, 'a>(&'r MessageReader<'a>, &'r RecordMarker);
impl ReadD for At<'_, '_> {
    fn run<D: RData + 'static>(&mut self) -> Result<D> {
        cnt!(self.0.record_data_at::<D>(self.1))
    }
}

pub fn fmt_opt(o: &Opt) -> String {
    // flags are private: reconstruct the only public bit (DO) — compare payload, ext, version, DO
    format!(
        "O({},{},{},{})",
        o.udp_payload_size(),
        o.rcode_extension(),
        o.version(),
        o.dnssec_ok() as u8
    )
}

fn r2s<T>(r: Result<T>, f: impl FnOnce(T) -> String) -> String {
    match r {
        Ok(v) => {
            let s = f(v);
            if s.is_empty() {
                "ok".into()
            } else {
                format!("ok:{}", s)
            }
        }
        Err(e) => format!("err:{}", err(&e)),
    }
}

pub fn op_script(a: &[&str]) -> String {
    op_script_impl(a, false)
}
pub fn op_ascript(a: &[&str]) -> String {
    op_script_impl(a, true)
}

fn op_script_impl(a: &[&str], count: bool) -> String {
    let n: usize = a[0].parse().unwrap();
    let gbufs: Vec<crate::guard::GuardBuf> =
        (0..n).map(|i| crate::guard::GuardBuf::new(&unhex(a[1 + i]))).collect();
    let msgs: Vec<&[u8]> = gbufs.iter().map(|g| g.as_slice()).collect();
    let calls = a.get(1 + n).copied().unwrap_or("");
    let mut readers: Vec<Option<MessageReader>> =
        msgs.iter().map(|m| MessageReader::new(*m).ok()).collect();
    let mut markers: Vec<RecordMarker> = Vec::new();
    let mut nrefs: Vec<(usize, NameRef)> = Vec::new();
    let mut out: Vec<String> = Vec::new();
    let mut prev_ok = true;
    for c in calls.split(',') {
        if c.is_empty() {
            continue;
        }
        let (ri, rest) = c.split_once('.').unwrap();
        let ri: usize = ri.parse().unwrap();
        let (cond, rest) = match rest.strip_prefix('?') {
            Some(r) => (true, r),
            None => (false, rest),
        };
        if cond && !prev_ok {
            out.push("skip".into());
            prev_ok = false;
            continue;
        }
        let p: Vec<&str> = rest.split(':').collect();
        let nmark = markers.len();
        let nnref = nrefs.len();
        let is_nref_op = matches!(p[0], "nreq" | "nrname" | "nrlabels");
        let num = |i: usize| -> usize {
            if p[i] == "L" {
                if is_nref_op {
                    nnref.wrapping_sub(1)
                } else {
                    nmark.wrapping_sub(1)
                }
            } else {
                p[i].parse().unwrap()
            }
        };
        if ri >= readers.len() || readers[ri].is_none() {
            out.push("nosuch".into());
            prev_ok = true;
            continue;
        }
        let msg: &[u8] = msgs[ri];
        MEASURED.with(|m| m.set(0));
        let res = catch_unwind(AssertUnwindSafe(|| -> String {
            let r = readers[ri].as_mut().unwrap();
            match p[0] {
                "header" => r2s(cnt!(r.header()), |h| fmt_header(&h)),
                "seek" => r2s(cnt!(r.seek(sec(num(1)))), |_| String::new()),
                "qcount" => format!("ok:{}", cnt!(r.questions_count())),
                "rcount" => format!("ok:{}", cnt!(r.records_count())),
                "rcountin" => format!("ok:{}", cnt!(r.records_count_in(sec(num(1))))),
                "q" | "theq" => {
                    let q = if p[0] == "q" { cnt!(r.question()) } else { cnt!(r.the_question()) };
                    r2s(q, |q| {
                        format!(
                            "Q({},{},{})",
                            hex(q.qname.as_str().as_bytes()),
                            q.qtype.value(),
                            q.qclass.value()
                        )
                    })
                }
                "qref" | "theqref" => {
                    let q = if p[0] == "qref" {
                        cnt!(r.question_ref())
                    } else {
                        cnt!(r.the_question_ref())
                    };
                    match q {
                        Ok(q) => {
                            nrefs.push((ri, q.qname.clone()));
                            format!(
                                "ok:QR(#{},{},{})",
                                nrefs.len() - 1,
                                q.qtype.value(),
                                q.qclass.value()
                            )
                        }
                        Err(e) => format!("err:{}", err(&e)),
                    }
                }
                "skipq" => r2s(cnt!(r.skip_questions()), |_| String::new()),
                "marker" => match cnt!(r.record_marker()) {
                    Ok(m) => {
                        let s = format!("ok:{}", fmt_marker(&m));
                        markers.push(m);
                        s
                    }
                    Err(e) => format!("err:{}", err(&e)),
                },
                "href" => match cnt!(r.record_header_ref()) {
                    Ok(h) => {
                        nrefs.push((ri, h.name().clone()));
                        markers.push(h.marker().clone());
                        format!("ok:HR(#{},{})", nrefs.len() - 1, fmt_marker(h.marker()))
                    }
                    Err(e) => format!("err:{}", err(&e)),
                },
                "hdrH" => match cnt!(r.record_header::<Name>()) {
                    Ok(h) => {
                        markers.push(h.marker().clone());
                        format!(
                            "ok:HN({},{})",
                            hex(h.name().as_str().as_bytes()),
                            fmt_marker(h.marker())
                        )
                    }
                    Err(e) => format!("err:{}", err(&e)),
                },
                "hdrI" => match cnt!(r.record_header::<InlineName>()) {
                    Ok(h) => {
                        markers.push(h.marker().clone());
                        format!(
                            "ok:HN({},{})",
                            hex(h.name().as_str().as_bytes()),
                            fmt_marker(h.marker())
                        )
                    }
                    Err(e) => format!("err:{}", err(&e)),
                },
                "skipd" | "bytes" | "opt" | "optorskip" | "bytesat" | "nrefat" => {
                    let k = num(1);
                    if k >= markers.len() {
                        return "nosuch".into();
                    }
                    let mk = markers[k].clone();
                    match p[0] {
                        "skipd" => r2s(cnt!(r.skip_record_data(&mk)), |_| String::new()),
                        "bytes" => r2s(cnt!(r.record_data_bytes(&mk)), |b| fmt_slice(msg, b)),
                        "opt" => r2s(cnt!(r.opt_record(&mk)), |o| fmt_opt(&o)),
                        "optorskip" => {
                            if mk.rtype() == rsdns::records::Type::OPT {
                                r2s(cnt!(r.opt_record(&mk)), |o| fmt_opt(&o))
                            } else {
                                r2s(cnt!(r.skip_record_data(&mk)), |_| String::new())
                            }
                        }
                        "bytesat" => r2s(cnt!(r.record_data_bytes_at(&mk)), |b| fmt_slice(msg, b)),
                        _ => {
                            let nr = cnt!(r.name_ref_at(&mk));
                            nrefs.push((ri, nr));
                            format!("ok:NR(#{})", nrefs.len() - 1)
                        }
                    }
                }
                "data" | "dataat" => {
                    let ty = num(1) as u16;
                    let k = num(2);
                    if k >= markers.len() {
                        return "nosuch".into();
                    }
                    let mk = markers[k].clone();
                    let rr = if p[0] == "data" {
                        typed(ty, &mut Seq(r, &mk))
                    } else {
                        typed(ty, &mut At(r, &mk))
                    };
                    match rr {
                        None => "ok".into(),
                        Some(x) => r2s(x, |s| s),
                    }
                }
                "nreq" => {
                    let (i, j) = (num(1), num(2));
                    if i >= nrefs.len() || j >= nrefs.len() || nrefs[i].0 != nrefs[j].0 {
                        return "nosuch".into();
                    }
                    r2s(cnt!(nrefs[i].1.eq(&nrefs[j].1)), |b| format!("{}", b))
                }
                "nrname" => {
                    let i = num(2);
                    if i >= nrefs.len() {
                        return "nosuch".into();
                    }
                    if p[1] == "H" {
                        r2s(cnt!(Name::try_from(&nrefs[i].1)), |n| {
                            format!("N({})", hex(n.as_str().as_bytes()))
                        })
                    } else {
                        r2s(cnt!(InlineName::try_from(&nrefs[i].1)), |n| {
                            format!("N({})", hex(n.as_str().as_bytes()))
                        })
                    }
                }
                "nrlabels" => {
                    let i = num(1);
                    if i >= nrefs.len() {
                        return "nosuch".into();
                    }
                    let mut lb = String::from("[");
                    let mut end = String::from("none");
                    let mut it = cnt!(nrefs[i].1.labels());
                    while let Some(l) = cnt!(it.next()) {
                        match l {
                            Ok(l) => lb.push_str(&format!(
                                "{}:{},",
                                crate::ops_core::label_pos(&l),
                                hex(l.bytes())
                            )),
                            Err(e) => {
                                end = format!("err:{}", err(&e));
                                break;
                            }
                        }
                    }
                    format!("ok:L({}],{})", lb, end)
                }
                _ => format!("BADCALL({})", p[0]),
            }
        }));
        match res {
            Ok(s) => {
                prev_ok = s.starts_with("ok") || s == "nosuch";
                if count {
                    out.push(format!("{}@{}", s, MEASURED.with(|m| m.get())))
                } else {
                    out.push(s)
                }
            }
            Err(pn) => {
                let m = if let Some(s) = pn.downcast_ref::<&str>() {
                    s.to_string()
                } else if let Some(s) = pn.downcast_ref::<String>() {
                    s.clone()
                } else {
                    "?".into()
                };
                out.push(format!("PANIC({})", panic_class(&m)));
                break;
            }
        }
    }
    out.join(";")
}

// ---- iterator API and record-set extraction ----
use rsdns::message::reader::MessageIterator;
use rsdns::records::data::RecordData;
use rsdns::records::RecordSet;

fn fmt_record_data(d: &RecordData) -> String {
    match d {
        RecordData::A(d) => format!("D(A,{})", v4(&d.address)),
        RecordData::Aaaa(d) => format!("D(Aaaa,{})", v6(&d.address)),
        RecordData::Ns(d) => format!("D(Name,2,{})", nm(&d.nsdname)),
        RecordData::Md(d) => format!("D(Name,3,{})", nm(&d.madname)),
        RecordData::Mf(d) => format!("D(Name,4,{})", nm(&d.madname)),
        RecordData::Cname(d) => format!("D(Name,5,{})", nm(&d.cname)),
        RecordData::Mb(d) => format!("D(Name,7,{})", nm(&d.madname)),
        RecordData::Mg(d) => format!("D(Name,8,{})", nm(&d.mgmname)),
        RecordData::Mr(d) => format!("D(Name,9,{})", nm(&d.newname)),
        RecordData::Ptr(d) => format!("D(Name,12,{})", nm(&d.ptrdname)),
        RecordData::Hinfo(d) => format!("D(Hinfo,{},{})", hex(&d.cpu), hex(&d.os)),
        RecordData::Wks(d) => format!("D(Wks,{},{},{})", v4(&d.address), d.protocol, hex(&d.bitmap)),
        RecordData::Minfo(d) => format!("D(Minfo,{},{})", nm(&d.rmailbx), nm(&d.emailbx)),
        RecordData::Mx(d) => format!("D(Mx,{},{})", d.preference, nm(&d.exchange)),
        RecordData::Null(d) => format!("D(Null,{})", hex(&d.anything)),
        RecordData::Soa(d) => format!(
            "D(Soa,{},{},{},{},{},{},{})",
            nm(&d.mname),
            nm(&d.rname),
            d.serial,
            d.refresh,
            d.retry,
            d.expire,
            d.minimum
        ),
        RecordData::Txt(d) => format!("D(Txt,{})", hex(&d.text)),
    }
}

fn fmt_q(q: &rsdns::message::Question) -> String {
    format!(
        "Q({},{},{})",
        hex(q.qname.as_str().as_bytes()),
        q.qtype.value(),
        q.qclass.value()
    )
}

pub fn op_iter(msg: &[u8]) -> String {
    let mi = match MessageIterator::new(msg) {
        Ok(mi) => mi,
        Err(e) => return format!("new=err:{}", err(&e)),
    };
    let h = mi.header();
    let mut s = format!("new=ok:{}", fmt_header(h));
    s.push_str(&format!(" Q={}", r2s(mi.question(), |q| fmt_q(&q))));
    s.push_str(" QS=[");
    let mut end = "end".to_string();
    for q in mi.questions() {
        match q {
            Ok(q) => s.push_str(&format!("{},", fmt_q(&q))),
            Err(e) => {
                end = format!("err:{}", err(&e));
                break;
            }
        }
    }
    s.push_str(&format!("]{}", end));
    s.push_str(" RS=[");
    let mut end = "end".to_string();
    for r in mi.records() {
        match r {
            Ok((sec, rr)) => s.push_str(&format!(
                "R({},{},{},{},{},{}),",
                sec as usize,
                hex(rr.name.as_str().as_bytes()),
                rr.rclass.value(),
                rr.rtype.value(),
                rr.ttl,
                fmt_record_data(&rr.rdata)
            )),
            Err(e) => {
                end = format!("err:{}", err(&e));
                break;
            }
        }
    }
    s.push_str(&format!("]{}", end));
    s
}

struct FromMsg<'a>(&'a [u8], Option<String>);
impl ReadD for FromMsg<'_> {
    fn run<D: RData + 'static>(&mut self) -> Result<D> {
        // abuse of the ReadD dispatcher: compute the whole record set for D, remember its text,
        // and return an error value that the caller ignores
        let r = RecordSet::<D>::from_msg(self.0);
        self.1 = Some(match r {
            Ok(rs) => {
                let mut items = Vec::new();
                for d in rs.rdata.iter() {
                    items.push(fmt_any(d));
                }
                format!(
                    "ok:RS({},{},{},[{}])",
                    hex(rs.name.as_str().as_bytes()),
                    rs.rclass.value(),
                    rs.ttl,
                    items.join(",")
                )
            }
            Err(e) => format!("err:{}", err(&e)),
        });
        Err(rsdns::Error::NoAnswer)
    }
}

// format any RData through Debug-free downcasting: re-dispatch on RTYPE
fn fmt_any<D: RData + 'static>(d: &D) -> String {
    use std::any::Any;
    let a: &dyn Any = d as &dyn Any;
    macro_rules! t {
        ($T:ty, $f:expr) => {
            if let Some(x) = a.downcast_ref::<$T>() {
                let f: fn(&$T) -> String = $f;
                return f(x);
            }
        };
    }
    t!(A, |d| format!("D(A,{})", v4(&d.address)));
    t!(Aaaa, |d| format!("D(Aaaa,{})", v6(&d.address)));
    t!(Ns, |d| format!("D(Name,2,{})", nm(&d.nsdname)));
    t!(Md, |d| format!("D(Name,3,{})", nm(&d.madname)));
    t!(Mf, |d| format!("D(Name,4,{})", nm(&d.madname)));
    t!(Cname, |d| format!("D(Name,5,{})", nm(&d.cname)));
    t!(Mb, |d| format!("D(Name,7,{})", nm(&d.madname)));
    t!(Mg, |d| format!("D(Name,8,{})", nm(&d.mgmname)));
    t!(Mr, |d| format!("D(Name,9,{})", nm(&d.newname)));
    t!(Ptr, |d| format!("D(Name,12,{})", nm(&d.ptrdname)));
    t!(Hinfo, |d| format!("D(Hinfo,{},{})", hex(&d.cpu), hex(&d.os)));
    t!(Wks, |d| format!("D(Wks,{},{},{})", v4(&d.address), d.protocol, hex(&d.bitmap)));
    t!(Minfo, |d| format!("D(Minfo,{},{})", nm(&d.rmailbx), nm(&d.emailbx)));
    t!(Mx, |d| format!("D(Mx,{},{})", d.preference, nm(&d.exchange)));
    t!(Null, |d| format!("D(Null,{})", hex(&d.anything)));
    t!(Soa, |d| format!(
        "D(Soa,{},{},{},{},{},{},{})",
        nm(&d.mname),
        nm(&d.rname),
        d.serial,
        d.refresh,
        d.retry,
        d.expire,
        d.minimum
    ));
    t!(Txt, |d| format!("D(Txt,{})", hex(&d.text)));
    "D(?)".into()
}

// allocation counts of the iterator API: new / question / questions() drain / records() items
pub fn op_aiter(msg: &[u8]) -> String {
    MEASURED.with(|m| m.set(0));
    let mi = match cnt!(MessageIterator::new(msg)) {
        Ok(mi) => mi,
        Err(_) => return format!("new=err@{}", MEASURED.with(|m| m.get())),
    };
    let mut out = format!("new=ok@{}", MEASURED.with(|m| m.get()));
    MEASURED.with(|m| m.set(0));
    let _ = cnt!(mi.question());
    out.push_str(&format!(" Q@{}", MEASURED.with(|m| m.get())));
    MEASURED.with(|m| m.set(0));
    let mut qs = cnt!(mi.questions());
    while let Some(q) = cnt!(qs.next()) {
        if q.is_err() {
            break;
        }
    }
    out.push_str(&format!(" QS@{}", MEASURED.with(|m| m.get())));
    let mut rs = cnt!(mi.records());
    out.push_str(" RS=[");
    loop {
        MEASURED.with(|m| m.set(0));
        match cnt!(rs.next()) {
            None => break,
            Some(Ok((_, rr))) => out.push_str(&format!("{}@{},", rr.rtype.value(), MEASURED.with(|m| m.get()))),
            Some(Err(_)) => {
                out.push_str(&format!("err@{},", MEASURED.with(|m| m.get())));
                break;
            }
        }
    }
    out.push(']');
    out
}

pub fn op_rrset(ty: u16, msg: &[u8]) -> String {
    let mut f = FromMsg(msg, None);
    match typed(ty, &mut f) {
        None => "BADTYPE".into(),
        Some(_) => f.1.unwrap_or_else(|| "?".into()),
    }
}
