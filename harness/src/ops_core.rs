use crate::canon::*;
use crate::guard::GuardBuf as G;
use rsdns::names::{InlineName, Name};

pub fn dispatch(op: &str, rest: &str) -> String {
    let a: Vec<&str> = rest.split(' ').collect();
    match op {
        "name" => op_name(G::new(&unhex(a[0])).as_slice(), a[1].parse().unwrap()),
        "script" => crate::ops_script::op_script(&a),
        "ascript" => crate::ops_script::op_ascript(&a),
        "net" => crate::netlab::op_net(&a),
        "aiter" => crate::ops_script::op_aiter(G::new(&unhex(a[0])).as_slice()),
        "text" => crate::ops_text::op_text(&unhex(a[0])),
        "textpair" => crate::ops_text::op_textpair(&unhex(a[0]), &unhex(a[1])),
        "wname" => crate::ops_text::op_wname(&unhex(a[0]), a[1].parse().unwrap()),
        "query" => crate::ops_text::op_query(&a),
        "iter" => crate::ops_script::op_iter(G::new(&unhex(a[0])).as_slice()),
        "rrset" => crate::ops_script::op_rrset(a[0].parse().unwrap(), G::new(&unhex(a[1])).as_slice()),
        _ => format!("BADOP({})", op),
    }
}

#[cfg(feature = "hooks")]
pub fn label_pos(l: &rsdns::message::reader::LabelRef) -> usize {
    rsdns::verif::label_pos(l)
}
#[cfg(not(feature = "hooks"))]
pub fn label_pos(_l: &rsdns::message::reader::LabelRef) -> usize {
    0
}

// name <hexmsg> <pos>: the four ways of consuming the wire name at pos
fn op_name(msg: &[u8], pos: usize) -> String {
    use rsdns::verif as v;
    let rh = res(&v::read_name(msg, pos), |(n, p)| {
        format!("{}:{}", hex(n.as_str().as_bytes()), p)
    });
    let ri = res(&v::read_inline_name(msg, pos), |(n, p)| {
        format!("{}:{}", hex(n.as_str().as_bytes()), p)
    });
    let sk = res(&v::skip_name(msg, pos), |p| format!("{}", p));
    let nr = v::name_ref(msg, pos);
    let mut lb = String::from("[");
    let mut end = String::from("none");
    for l in nr.labels() {
        match l {
            Ok(l) => {
                lb.push_str(&format!("{}:{},", v::label_pos(&l), hex(l.bytes())));
            }
            Err(e) => {
                end = format!("err:{}", err(&e));
                break;
            }
        }
    }
    lb.push(']');
    // TryFrom<&NameRef> must agree with the direct reads
    let th = res(&Name::try_from(&nr), |n| hex(n.as_str().as_bytes()));
    let ti = res(&InlineName::try_from(&nr), |n| hex(n.as_str().as_bytes()));
    format!("RH={} RI={} SK={} LB={}{} TH={} TI={}", rh, ri, sk, lb, end, th, ti)
}
