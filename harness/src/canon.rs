// Canonical printing shared by all ops: errors by variant + numeric payload, bytes as hex.
use rsdns::Error;

pub fn hex(b: &[u8]) -> String {
    let mut s = String::with_capacity(b.len() * 2);
    for x in b {
        s.push_str(&format!("{:02x}", x));
    }
    if s.is_empty() {
        s.push('-');
    }
    s
}

pub fn unhex(s: &str) -> Vec<u8> {
    if s == "-" {
        return Vec::new();
    }
    let b = s.as_bytes();
    let mut v = Vec::with_capacity(b.len() / 2);
    let mut i = 0;
    while i + 1 < b.len() {
        v.push(u8::from_str_radix(&s[i..i + 2], 16).unwrap());
        i += 2;
    }
    v
}

pub fn panic_class(msg: &str) -> String {
    if msg.contains("assertion failed") || msg.contains("debug_assert") {
        "debug_assert".into()
    } else if msg.contains("overflow") {
        "overflow".into()
    } else {
        let m: String = msg.chars().filter(|c| !c.is_whitespace()).take(60).collect();
        format!("other:{}", m)
    }
}

pub fn err(e: &Error) -> String {
    match e {
        Error::IoError(io) => format!("IoError({:?})", io.kind()),
        Error::UnknownType(t) => format!("UnknownType({})", t.value()),
        Error::UnexpectedType(t) => format!("UnexpectedType({})", t.value()),
        Error::UnknownClass(c) => format!("UnknownClass({})", c.value()),
        Error::UnknownOpCode(_) => "UnknownOpCode".into(),
        Error::UnknownRCode(_) => "UnknownRCode".into(),
        Error::DomainNameLabelInvalidChar(s, b) => {
            let k = if s.contains("first") {
                1
            } else if s.contains("last") {
                2
            } else {
                0
            };
            format!("DomainNameLabelInvalidChar({},{})", k, b)
        }
        Error::DomainNameLabelTooLong(n) => format!("DomainNameLabelTooLong({})", n),
        Error::DomainNameLabelIsEmpty => "DomainNameLabelIsEmpty".into(),
        Error::DomainNameTooLong(n) => format!("DomainNameTooLong({})", n),
        Error::DomainNameTooMuchPointers => "DomainNameTooMuchPointers".into(),
        Error::DomainNameBadLabelType(b) => format!("DomainNameBadLabelType({})", b),
        Error::DomainNameBadPointer {
            pointer,
            max_offset,
        } => format!("DomainNameBadPointer({},{})", pointer, max_offset),
        Error::EndOfBuffer => "EndOfBuffer".into(),
        Error::EndOfWindow => "EndOfWindow".into(),
        Error::CursorAlreadyInWindow => "CursorAlreadyInWindow".into(),
        Error::CursorNotInWindow => "CursorNotInWindow".into(),
        Error::CursorWindowError { window_end, pos } => {
            format!("CursorWindowError({},{})", window_end, pos)
        }
        Error::BufferTooShort(n) => format!("BufferTooShort({})", n),
        Error::BadQuestionsCount(n) => format!("BadQuestionsCount({})", n),
        Error::BadMessageType(t) => format!("BadMessageType({})", t.is_response()),
        Error::BadResponseCode(rc) => format!("BadResponseCode({})", rc.value()),
        Error::MessageTruncated => "MessageTruncated".into(),
        Error::MessageTooLong(n) => format!("MessageTooLong({})", n),
        Error::RecordsSectionOffsetUnknown(s) => {
            format!("RecordsSectionOffsetUnknown({})", *s as usize)
        }
        Error::NoAnswer => "NoAnswer".into(),
        Error::UnsupportedType(t) => format!("UnsupportedType({})", t.value()),
        Error::UnsupportedClass(c) => format!("UnsupportedClass({})", c.value()),
        Error::Timeout => "Timeout".into(),
        Error::BadParam(_) => "BadParam".into(),
        Error::InternalError(_) => "InternalError".into(),
        Error::ReaderDone => "ReaderDone".into(),
    }
}

pub fn res<T>(r: &rsdns::Result<T>, f: impl Fn(&T) -> String) -> String {
    match r {
        Ok(v) => format!("ok:{}", f(v)),
        Err(e) => format!("err:{}", err(e)),
    }
}
