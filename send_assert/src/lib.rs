// Static Send/Sync assertions: each function is one *program* that moves a client or a pending query
// to another thread.  The crate must type-check (`cargo check`) for property C19 to hold.
#![allow(dead_code, unused_variables, clippy::all)]
use rsdns::clients::ClientConfig;
use rsdns::records::{data::*, Class, Type};

fn is_send<T: Send>(_: T) {}
fn is_send_sync<T: Send + Sync>() {}
fn is_static_send<T: Send + 'static>(_: T) {}

fn client_types() {
    is_send_sync::<rsdns::clients::std::Client>();
    is_send_sync::<rsdns::clients::tokio::Client>();
    is_send_sync::<rsdns::clients::async_std::Client>();
    is_send_sync::<rsdns::clients::smol::Client>();
    is_send_sync::<ClientConfig>();
}

fn tokio_constructor(conf: ClientConfig) {
    is_static_send(rsdns::clients::tokio::Client::new(conf));
}

fn tokio_query_raw<'a>(c: &'a mut rsdns::clients::tokio::Client, name: &'a str, buf: &'a mut [u8]) {
    is_send(c.query_raw(name, Type::A, Class::IN, buf));
}

fn tokio_query_raw_static(c: &'static mut rsdns::clients::tokio::Client, buf: &'static mut [u8]) {
    is_static_send(c.query_raw("example.com", Type::AAAA, Class::CH, buf));
}

fn tokio_query_rrset_a<'a>(c: &'a mut rsdns::clients::tokio::Client, name: &'a str) {
    is_send(c.query_rrset::<A>(name, Class::IN));
}

fn tokio_query_rrset_aaaa<'a>(c: &'a mut rsdns::clients::tokio::Client, name: &'a str) {
    is_send(c.query_rrset::<Aaaa>(name, Class::IN));
}

fn tokio_query_rrset_cname<'a>(c: &'a mut rsdns::clients::tokio::Client, name: &'a str) {
    is_send(c.query_rrset::<Cname>(name, Class::IN));
}

fn tokio_query_rrset_hinfo<'a>(c: &'a mut rsdns::clients::tokio::Client, name: &'a str) {
    is_send(c.query_rrset::<Hinfo>(name, Class::IN));
}

fn tokio_query_rrset_mb<'a>(c: &'a mut rsdns::clients::tokio::Client, name: &'a str) {
    is_send(c.query_rrset::<Mb>(name, Class::IN));
}

fn tokio_query_rrset_md<'a>(c: &'a mut rsdns::clients::tokio::Client, name: &'a str) {
    is_send(c.query_rrset::<Md>(name, Class::IN));
}

fn tokio_query_rrset_mf<'a>(c: &'a mut rsdns::clients::tokio::Client, name: &'a str) {
    is_send(c.query_rrset::<Mf>(name, Class::IN));
}

fn tokio_query_rrset_mg<'a>(c: &'a mut rsdns::clients::tokio::Client, name: &'a str) {
    is_send(c.query_rrset::<Mg>(name, Class::IN));
}

fn tokio_query_rrset_minfo<'a>(c: &'a mut rsdns::clients::tokio::Client, name: &'a str) {
    is_send(c.query_rrset::<Minfo>(name, Class::IN));
}

fn tokio_query_rrset_mr<'a>(c: &'a mut rsdns::clients::tokio::Client, name: &'a str) {
    is_send(c.query_rrset::<Mr>(name, Class::IN));
}

fn tokio_query_rrset_mx<'a>(c: &'a mut rsdns::clients::tokio::Client, name: &'a str) {
    is_send(c.query_rrset::<Mx>(name, Class::IN));
}

fn tokio_query_rrset_ns<'a>(c: &'a mut rsdns::clients::tokio::Client, name: &'a str) {
    is_send(c.query_rrset::<Ns>(name, Class::IN));
}

fn tokio_query_rrset_null<'a>(c: &'a mut rsdns::clients::tokio::Client, name: &'a str) {
    is_send(c.query_rrset::<Null>(name, Class::IN));
}

fn tokio_query_rrset_ptr<'a>(c: &'a mut rsdns::clients::tokio::Client, name: &'a str) {
    is_send(c.query_rrset::<Ptr>(name, Class::IN));
}

fn tokio_query_rrset_soa<'a>(c: &'a mut rsdns::clients::tokio::Client, name: &'a str) {
    is_send(c.query_rrset::<Soa>(name, Class::IN));
}

fn tokio_query_rrset_txt<'a>(c: &'a mut rsdns::clients::tokio::Client, name: &'a str) {
    is_send(c.query_rrset::<Txt>(name, Class::IN));
}

fn tokio_query_rrset_wks<'a>(c: &'a mut rsdns::clients::tokio::Client, name: &'a str) {
    is_send(c.query_rrset::<Wks>(name, Class::IN));
}

fn tokio_owned_in_task(mut c: rsdns::clients::tokio::Client) {
    // a whole query inside a task body that owns the client
    is_static_send(async move {
        let mut buf = [0u8; 512];
        let _ = c.query_raw("example.com", Type::A, Class::IN, &mut buf).await;
        let _ = c.query_rrset::<A>("example.com", Class::IN).await;
    });
}

fn async_std_constructor(conf: ClientConfig) {
    is_static_send(rsdns::clients::async_std::Client::new(conf));
}

fn async_std_query_raw<'a>(c: &'a mut rsdns::clients::async_std::Client, name: &'a str, buf: &'a mut [u8]) {
    is_send(c.query_raw(name, Type::A, Class::IN, buf));
}

fn async_std_query_raw_static(c: &'static mut rsdns::clients::async_std::Client, buf: &'static mut [u8]) {
    is_static_send(c.query_raw("example.com", Type::AAAA, Class::CH, buf));
}

fn async_std_query_rrset_a<'a>(c: &'a mut rsdns::clients::async_std::Client, name: &'a str) {
    is_send(c.query_rrset::<A>(name, Class::IN));
}

fn async_std_query_rrset_aaaa<'a>(c: &'a mut rsdns::clients::async_std::Client, name: &'a str) {
    is_send(c.query_rrset::<Aaaa>(name, Class::IN));
}

fn async_std_query_rrset_cname<'a>(c: &'a mut rsdns::clients::async_std::Client, name: &'a str) {
    is_send(c.query_rrset::<Cname>(name, Class::IN));
}

fn async_std_query_rrset_hinfo<'a>(c: &'a mut rsdns::clients::async_std::Client, name: &'a str) {
    is_send(c.query_rrset::<Hinfo>(name, Class::IN));
}

fn async_std_query_rrset_mb<'a>(c: &'a mut rsdns::clients::async_std::Client, name: &'a str) {
    is_send(c.query_rrset::<Mb>(name, Class::IN));
}

fn async_std_query_rrset_md<'a>(c: &'a mut rsdns::clients::async_std::Client, name: &'a str) {
    is_send(c.query_rrset::<Md>(name, Class::IN));
}

fn async_std_query_rrset_mf<'a>(c: &'a mut rsdns::clients::async_std::Client, name: &'a str) {
    is_send(c.query_rrset::<Mf>(name, Class::IN));
}

fn async_std_query_rrset_mg<'a>(c: &'a mut rsdns::clients::async_std::Client, name: &'a str) {
    is_send(c.query_rrset::<Mg>(name, Class::IN));
}

fn async_std_query_rrset_minfo<'a>(c: &'a mut rsdns::clients::async_std::Client, name: &'a str) {
    is_send(c.query_rrset::<Minfo>(name, Class::IN));
}

fn async_std_query_rrset_mr<'a>(c: &'a mut rsdns::clients::async_std::Client, name: &'a str) {
    is_send(c.query_rrset::<Mr>(name, Class::IN));
}

fn async_std_query_rrset_mx<'a>(c: &'a mut rsdns::clients::async_std::Client, name: &'a str) {
    is_send(c.query_rrset::<Mx>(name, Class::IN));
}

fn async_std_query_rrset_ns<'a>(c: &'a mut rsdns::clients::async_std::Client, name: &'a str) {
    is_send(c.query_rrset::<Ns>(name, Class::IN));
}

fn async_std_query_rrset_null<'a>(c: &'a mut rsdns::clients::async_std::Client, name: &'a str) {
    is_send(c.query_rrset::<Null>(name, Class::IN));
}

fn async_std_query_rrset_ptr<'a>(c: &'a mut rsdns::clients::async_std::Client, name: &'a str) {
    is_send(c.query_rrset::<Ptr>(name, Class::IN));
}

fn async_std_query_rrset_soa<'a>(c: &'a mut rsdns::clients::async_std::Client, name: &'a str) {
    is_send(c.query_rrset::<Soa>(name, Class::IN));
}

fn async_std_query_rrset_txt<'a>(c: &'a mut rsdns::clients::async_std::Client, name: &'a str) {
    is_send(c.query_rrset::<Txt>(name, Class::IN));
}

fn async_std_query_rrset_wks<'a>(c: &'a mut rsdns::clients::async_std::Client, name: &'a str) {
    is_send(c.query_rrset::<Wks>(name, Class::IN));
}

fn async_std_owned_in_task(mut c: rsdns::clients::async_std::Client) {
    // a whole query inside a task body that owns the client
    is_static_send(async move {
        let mut buf = [0u8; 512];
        let _ = c.query_raw("example.com", Type::A, Class::IN, &mut buf).await;
        let _ = c.query_rrset::<A>("example.com", Class::IN).await;
    });
}

fn smol_constructor(conf: ClientConfig) {
    is_static_send(rsdns::clients::smol::Client::new(conf));
}

fn smol_query_raw<'a>(c: &'a mut rsdns::clients::smol::Client, name: &'a str, buf: &'a mut [u8]) {
    is_send(c.query_raw(name, Type::A, Class::IN, buf));
}

fn smol_query_raw_static(c: &'static mut rsdns::clients::smol::Client, buf: &'static mut [u8]) {
    is_static_send(c.query_raw("example.com", Type::AAAA, Class::CH, buf));
}

fn smol_query_rrset_a<'a>(c: &'a mut rsdns::clients::smol::Client, name: &'a str) {
    is_send(c.query_rrset::<A>(name, Class::IN));
}

fn smol_query_rrset_aaaa<'a>(c: &'a mut rsdns::clients::smol::Client, name: &'a str) {
    is_send(c.query_rrset::<Aaaa>(name, Class::IN));
}

fn smol_query_rrset_cname<'a>(c: &'a mut rsdns::clients::smol::Client, name: &'a str) {
    is_send(c.query_rrset::<Cname>(name, Class::IN));
}

fn smol_query_rrset_hinfo<'a>(c: &'a mut rsdns::clients::smol::Client, name: &'a str) {
    is_send(c.query_rrset::<Hinfo>(name, Class::IN));
}

fn smol_query_rrset_mb<'a>(c: &'a mut rsdns::clients::smol::Client, name: &'a str) {
    is_send(c.query_rrset::<Mb>(name, Class::IN));
}

fn smol_query_rrset_md<'a>(c: &'a mut rsdns::clients::smol::Client, name: &'a str) {
    is_send(c.query_rrset::<Md>(name, Class::IN));
}

fn smol_query_rrset_mf<'a>(c: &'a mut rsdns::clients::smol::Client, name: &'a str) {
    is_send(c.query_rrset::<Mf>(name, Class::IN));
}

fn smol_query_rrset_mg<'a>(c: &'a mut rsdns::clients::smol::Client, name: &'a str) {
    is_send(c.query_rrset::<Mg>(name, Class::IN));
}

fn smol_query_rrset_minfo<'a>(c: &'a mut rsdns::clients::smol::Client, name: &'a str) {
    is_send(c.query_rrset::<Minfo>(name, Class::IN));
}

fn smol_query_rrset_mr<'a>(c: &'a mut rsdns::clients::smol::Client, name: &'a str) {
    is_send(c.query_rrset::<Mr>(name, Class::IN));
}

fn smol_query_rrset_mx<'a>(c: &'a mut rsdns::clients::smol::Client, name: &'a str) {
    is_send(c.query_rrset::<Mx>(name, Class::IN));
}

fn smol_query_rrset_ns<'a>(c: &'a mut rsdns::clients::smol::Client, name: &'a str) {
    is_send(c.query_rrset::<Ns>(name, Class::IN));
}

fn smol_query_rrset_null<'a>(c: &'a mut rsdns::clients::smol::Client, name: &'a str) {
    is_send(c.query_rrset::<Null>(name, Class::IN));
}

fn smol_query_rrset_ptr<'a>(c: &'a mut rsdns::clients::smol::Client, name: &'a str) {
    is_send(c.query_rrset::<Ptr>(name, Class::IN));
}

fn smol_query_rrset_soa<'a>(c: &'a mut rsdns::clients::smol::Client, name: &'a str) {
    is_send(c.query_rrset::<Soa>(name, Class::IN));
}

fn smol_query_rrset_txt<'a>(c: &'a mut rsdns::clients::smol::Client, name: &'a str) {
    is_send(c.query_rrset::<Txt>(name, Class::IN));
}

fn smol_query_rrset_wks<'a>(c: &'a mut rsdns::clients::smol::Client, name: &'a str) {
    is_send(c.query_rrset::<Wks>(name, Class::IN));
}

fn smol_owned_in_task(mut c: rsdns::clients::smol::Client) {
    // a whole query inside a task body that owns the client
    is_static_send(async move {
        let mut buf = [0u8; 512];
        let _ = c.query_raw("example.com", Type::A, Class::IN, &mut buf).await;
        let _ = c.query_rrset::<A>("example.com", Class::IN).await;
    });
}

fn std_client_moves(c: rsdns::clients::std::Client) {
    is_static_send(c);
}

fn std_client_shared(c: &'static rsdns::clients::std::Client) {
    is_static_send(c);
}
