(* Properties/C20.v — Reading fixed-size records allocates nothing (partial; level "other").
   Rocq carries: which calls form the allocation-free API (Alloc.alloc_free_call) and that the
   two typed reads in it (A, AAAA — sequential and random access) can only yield fixed-size
   values, never a value owning a Vec or String.  Whether the allocator is actually called is a
   fact about rustc/std/arrayvec code the model does not contain: it is measured by the harness
   (counting global allocator, per call) on every input of the alloc stream. *)
From RsdnsModel Require Import Base Cursor Names Labels Header Tracker RData Reader Script Alloc.
From RsdnsModel.Proofs Require Import AllocFree.
Open Scope N_scope.

Theorem C20_typed_reads_fixed_size_partial : forall msg ty mk r,
  (ty =? T_A) || (ty =? T_AAAA) = true ->
  match snd (rd_data msg ty mk r) with Ok v => fixed_obs v = true | _ => True end /\
  match rd_data_at msg ty mk r with Ok v => fixed_obs v = true | _ => True end.
Proof. intros. split; [apply rd_data_fixed|apply rd_data_at_fixed]; assumption. Qed.
