(* Properties/C17.v — Safe API calls can never corrupt memory, in any order. *)
From RsdnsModel Require Import Base Cursor Names Labels Header Tracker RData Reader Script.
From RsdnsModel.Proofs Require Import CursorSafe ListN NoUB.
Open Scope N_scope.

(* For every family of messages and EVERY script of public calls over readers on them — any
   order, conforming or not, markers and borrowed names obtained from one reader passed to
   another — no call reaches an unchecked access whose precondition is false. *)
Theorem C17_no_ub : forall (msgs : list (list byte)) (cs : list item),
  Forall (fun o => o <> UB) (run_script (world_init msgs) cs).
Proof. exact no_ub_any_script. Qed.

(* ... and a slice handed out by raw access always lies inside the message it was taken from,
   whatever marker (from whatever message) was supplied and whatever the reader's state. *)
Theorem C17_slices_inside : forall msg (r : reader) (mk : marker) off bs,
  cwf msg (r_cur r) -> rd_bytes_at msg mk r = Ok (OBytes off bs) ->
  off + lenN bs <= lenN msg /\ bs = subN msg off (lenN bs).
Proof.
  intros msg r mk off bs Hc. unfold rd_bytes_at.
  destruct (c_slice msg _ _) as [[[o b] c]| | | | |] eqn:E; cbn; try discriminate.
  intro H; inversion H; subst. apply c_slice_ok in E. cbn in E. destruct E as (-> & H1 & H2 & -> & _).
  rewrite lenN_subN by lia. split; [|reflexivity]. cbn in *. lia.
Qed.
