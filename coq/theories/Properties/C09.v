(* Properties/C09.v — The cursor-style reader is a faithful state machine over the message.
   Proved: (1) the error/exhaustion latch at full strength (every sequential call, every state the
   protocol can reach); (2) the SECTION TRACKER — counters, lazy section offsets, seek — refines
   the counting machine of Spec/LinearPass.v for every sequence of sequential reads and seeks,
   whatever the offsets of the items are; (3) the parsers are the spec's items; (4) COMPOSITION:
   every allowed sequence of question reads, record reads and seeks to known sections over items
   the linear pass parses completely returns exactly the prescribed items and ends in the
   prescribed state; this holds on EVERY message for the items that parse, and reading the first
   item that does not parse fails and exhausts the reader.
   (5) every flavour of every call (owned/borrowed questions, the three header flavours, the four
   data calls) makes the same step and returns the prescribed item; (6) seek to an unknown offset.
   What the sequence theorem C09_reader_refines composes is one flavour per operation; the per-call
   theorems (5) give every other flavour the same pre- and post-state, so any mix composes the same
   way. *)
From RsdnsModel Require Import Base Cursor Names Labels Header Tracker RData Reader.
From RsdnsModel.Spec Require Import WireName LinearPass RDataWire.
From RsdnsModel.Proofs Require Import Latch ReaderTotal LatchFull TrackerRefine SpecExec ParseSpec ReaderRefine MessageRT.
Open Scope N_scope.

(* An exhausted reader (after the first decode error, or after exhaustion) stays exhausted: every
   sequential call — the data calls included — and every seek returns ReaderDone without changing
   the state; all remaining-counts are 0. *)
Theorem C09_stays_exhausted : forall msg r, r_done r = true ->
  (forall single as_ref, rd_question msg single as_ref r = (r, Err ReaderDone)) /\
  rd_skip_questions msg r = (r, Err ReaderDone) /\
  rd_marker msg r = (r, Err ReaderDone) /\ rd_header_ref msg r = (r, Err ReaderDone) /\
  (forall nk, rd_header_n msg nk r = (r, Err ReaderDone)) /\
  (forall mk, pos (r_cur r) = rdata_pos mk ->
     rd_skip_data mk r = (r, Err ReaderDone) /\ rd_data_bytes msg mk r = (r, Err ReaderDone) /\
     (forall ty, read_rdata msg ty (m_rdlen mk) <> None -> rd_data msg ty mk r = (r, Err ReaderDone)) /\
     rd_opt mk r = (r, Err ReaderDone)) /\
  (forall s, rd_seek msg s r = (r, Err ReaderDone)) /\
  rd_questions_count r = Ok (ONum 0) /\ rd_records_count r = Ok (ONum 0) /\
  (forall s, rd_records_count_in s r = Ok (ONum 0)).
Proof. exact done_sticky_full. Qed.

(* [latched p]: if the call did not return Ok, the reader it leaves is exhausted.  In every state
   the documented protocol can reach (RInv: Properties/C01.v) EVERY failing sequential call latches:
   questions of both flavours, skip_questions, the three header flavours, the four data calls
   (given the marker of the preceding header call), header(), and seek — except that a seek refused
   with RecordsSectionOffsetUnknown changes nothing at all. *)
Theorem C09_error_latches : forall msg r, RInv msg r -> r_done r = false ->
  (forall single as_ref, latched (rd_question msg single as_ref r)) /\
  latched (rd_skip_questions msg r) /\
  latched (rd_marker msg r) /\ latched (rd_header_ref msg r) /\ (forall nk, latched (rd_header_n msg nk r)) /\
  (forall mk, mk_ok r mk -> pos (r_cur r) = rdata_pos mk ->
     latched (rd_skip_data mk r) /\ latched (rd_data_bytes msg mk r) /\
     (forall ty, read_rdata msg ty (m_rdlen mk) <> None -> latched (rd_data msg ty mk r)) /\
     (m_rtype mk = T_OPT -> latched (rd_opt mk r))) /\
  latched (rd_header msg r) /\
  (forall s, rd_seek msg s r = (r, Err (RecordsSectionOffsetUnknown s)) \/ latched (rd_seek msg s r)).
Proof. exact error_latches_full. Qed.

(* ---- the section tracker refines the linear pass ----
   A message announces nq questions and an/ns/ar records; its items (questions, then records, in
   wire order) start at offsets P 0, P 1, ... (any offsets in 1..65535: every message
   MessageReader::new accepts).  [Inv tr idx hw]: tracker [tr] represents "next item idx,
   high-water mark hw": question/section counters as the counts prescribe, offset of section s
   = P (first item of s) if LinearPass.known says it is known, else unset.
   [allowed]: the operations the documented protocol allows from (idx, hw) — read a question, read
   a record (marker call + data call), seek to a section whose offset is known — and where the
   linear pass says they lead.  For EVERY such sequence the tracker succeeds and represents the
   prescribed state. *)
Theorem C09_tracker_refines : forall nq an ns ar P,
  nq <= 65535 -> an <= 65535 -> ns <= 65535 -> ar <= 65535 -> (forall k, 1 <= P k <= 65535) ->
  forall ops tr idx hw idx' hw',
  Inv nq an ns ar P tr idx hw -> allowed nq an ns ar ops idx hw = Some (idx', hw') ->
  exists tr', run_t nq an ns ar P ops tr idx hw = Some (tr', idx', hw') /\ Inv nq an ns ar P tr' idx' hw'.
Proof. exact tracker_refines. Qed.

(* the tracker built from the header represents the start of the pass *)
Theorem C09_tracker_init : forall nq an ns ar P,
  nq <= 65535 -> an <= 65535 -> ns <= 65535 -> ar <= 65535 -> (forall k, 1 <= P k <= 65535) ->
  forall h, h_qd h = nq -> h_an h = an -> h_ns h = ns -> h_ar h = ar -> Inv nq an ns ar P (tr_set tr_default h) 0 0.
Proof. exact inv_init_set. Qed.

(* in every represented state the remaining-counts are those of the linear pass *)
Theorem C09_counts : forall nq an ns ar P,
  nq <= 65535 -> an <= 65535 -> ns <= 65535 -> ar <= 65535 -> (forall k, 1 <= P k <= 65535) ->
  forall tr idx hw, Inv nq an ns ar P tr idx hw ->
  questions_left tr = Ok (nq - N.min idx nq) /\
  records_left_in tr 0 = Ok (an - rd nq an ns ar idx 0) /\ records_left_in tr 1 = Ok (ns - rd nq an ns ar idx 1) /\
  records_left_in tr 2 = Ok (ar - rd nq an ns ar idx 2) /\
  records_left tr = Ok ((an - rd nq an ns ar idx 0) + (ns - rd nq an ns ar idx 1) + (ar - rd nq an ns ar idx 2)).
Proof. exact counts_spec. Qed.

(* seek succeeds exactly when the documentation says the offset is known, and positions at the
   first record of the section (for an empty one: of the next non-empty one, or the end) *)
Theorem C09_seek : forall nq an ns ar P,
  nq <= 65535 -> an <= 65535 -> ns <= 65535 -> ar <= 65535 -> (forall k, 1 <= P k <= 65535) ->
  forall tr idx hw s, Inv nq an ns ar P tr idx hw -> s < 3 ->
  (known (lin nq an ns ar) (mkA idx hw false None) s = true ->
     section_offset tr s = Some (P (nq + sec_start (lin nq an ns ar) s)) /\
     Inv nq an ns ar P (tr_seek tr s) (nq + sec_start (lin nq an ns ar) s) hw) /\
  (known (lin nq an ns ar) (mkA idx hw false None) s = false -> section_offset tr s = None).
Proof. exact seek_step. Qed.

(* a record is attributed to the section the counts prescribe *)
Theorem C09_record_section : forall nq an ns ar P,
  nq <= 65535 -> an <= 65535 -> ns <= 65535 -> ar <= 65535 -> (forall k, 1 <= P k <= 65535) ->
  forall tr idx hw, Inv nq an ns ar P tr idx hw -> nq <= idx -> idx < nq + nrec (lin nq an ns ar) ->
  let s := section_of (lin nq an ns ar) (idx - nq) in
  exists tr1, next_section tr (P idx) = (tr1, Some s) /\
    exists tr', section_read tr1 s (P (idx + 1)) = Ok tr' /\ Inv nq an ns ar P tr' (idx + 1) (N.max hw (idx + 1)).
Proof. exact record_step. Qed.

(* non-vacuity: 1 question, 2 answers, no authority, 1 additional; read everything up to the
   additional record, seek back to the answers, read one, seek to the (empty) authority section,
   which is the additional record, read it *)
Example C09_tracker_example :
  allowed 1 2 0 1 [TQuestion; TRecord; TRecord; TSeek 0; TRecord; TSeek 1; TRecord] 0 0 = Some (4, 4) /\
  allowed 1 2 0 1 [TQuestion; TSeek 1] 0 0 = None /\
  exists tr, run_t 1 2 0 1 (fun k => 12 + 20 * k) [TQuestion; TRecord; TRecord; TSeek 0; TRecord; TSeek 1; TRecord]
                   (tr_set tr_default (mkHeader 7 0 1 2 0 1)) 0 0 = Some (tr, 4, 4).
Proof. vm_compute. split; [reflexivity|]. split; [reflexivity|]. eexists. reflexivity. Qed.

(* ---- the parsers compute the items of the linear pass ----
   on a cursor over the whole message: the borrowed-question parser and the record-marker parser
   succeed exactly when the spec's question_at / record_at do, with the same offsets and fields *)
Theorem C09_question_parse_is_spec : forall msg c, whole msg c ->
  match question_at msg (pos c) with
  | Some it => m_question_ref msg c = (c_set_pos c (a_end it), Ok (OQuestionRef c (a_type it) (a_class it))) /\
               a_start it = pos c
  | None => exists c' e, m_question_ref msg c = (c', Err e)
  end.
Proof. exact question_ref_is_question_at. Qed.

Theorem C09_record_parse_is_spec : forall msg c p s, whole msg c ->
  match record_at msg (pos c) with
  | Some it =>
    (do* _ <- lift_c (skip_name msg); m_raw_marker msg p s) c =
    (c_set_pos c (a_type_off it + 10), Ok (mkMarker p (a_type_off it) (a_type it) (a_class it) (a_ttl it) (a_rdlen it) s)) /\
    a_start it = pos c /\ a_end it = a_type_off it + 10 + a_rdlen it /\
    a_data_ok it = (a_type_off it + 10 + a_rdlen it <=? lenN msg)
  | None => exists c' e, (do* _ <- lift_c (skip_name msg); m_raw_marker msg p s) c = (c', Err e)
  end.
Proof. exact marker_is_record_at. Qed.

(* ---- the reader refines the linear pass (composition), on EVERY message ----
   [parsed msg nq an ns ar qs rs e1 e2] (Proofs/ReaderRefine.v): msg (12..65535 octets) announces nq
   questions and an/ns/ar records; qs are the questions that parse back to back from offset 12 up to
   e1, rs the records that parse completely (header and RDLENGTH octets inside the message) back to
   back from e1 up to e2; the lists are complete or a prefix.  Theorem C09_linear_pass_parses derives
   this from the code-blind linear pass for every message, and says what stands at e2 when the pass
   stopped early.
   For EVERY sequence of documented operations allowed by the pass — read a question (borrowed
   flavour), read a record (record_marker + skip_record_data), seek to a section whose offset is
   known — that reads parsed items only ([within]; automatic when everything parses,
   C09_complete_is_within): every call succeeds, returns exactly the prescribed item ([expected]:
   the question / record header of the pass at that index, with its offsets, fields and section),
   and the reader ends in the state the pass prescribes ([RState]: cursor at the offset of item
   idx', tracker representing (idx', hw')).  Reading the first item that does NOT parse fails and
   exhausts the reader (then C09_stays_exhausted applies): a question or record header that does
   not parse fails in the header call; a record header that parses but whose data leaves the
   message is returned exactly, and its data call fails. *)
Theorem C09_reader_refines : forall msg nq an ns ar qs rs e1 e2, parsed msg nq an ns ar qs rs e1 e2 ->
  forall ops r idx hw idx' hw',
  RState msg nq an ns ar qs rs e2 r idx hw -> allowed nq an ns ar ops idx hw = Some (idx', hw') ->
  within nq an ns ar qs rs ops idx hw ->
  exists r', RState msg nq an ns ar qs rs e2 r' idx' hw' /\ prescribed msg nq an ns ar qs rs r' ops r idx hw.
Proof. exact reader_refines_any. Qed.

Theorem C09_complete_is_within : forall nq an ns ar qs rs, lenN qs = nq -> lenN rs = an + ns + ar ->
  forall ops idx hw res, allowed nq an ns ar ops idx hw = Some res -> within nq an ns ar qs rs ops idx hw.
Proof. exact allowed_within. Qed.

Theorem C09_unparsable_question_fails : forall msg nq an ns ar qs rs e1 e2, parsed msg nq an ns ar qs rs e1 e2 ->
  forall r idx hw, RState msg nq an ns ar qs rs e2 r idx hw ->
  idx = lenN qs -> idx < nq -> question_at msg e2 = None ->
  exists r' e, rd_question msg false true r = (r', Err e) /\ r_done r' = true.
Proof. exact fail_question_any. Qed.

Theorem C09_unparsable_record_fails : forall msg nq an ns ar qs rs e1 e2, parsed msg nq an ns ar qs rs e1 e2 ->
  forall r idx hw, RState msg nq an ns ar qs rs e2 r idx hw ->
  lenN qs = nq -> idx = nq + lenN rs -> lenN rs < an + ns + ar ->
  match record_at msg e2 with
  | None => exists r' e, rd_marker msg r = (r', Err e) /\ r_done r' = true
  | Some it =>
    a_data_ok it = false ->
    let mk := mkMarker e2 (a_type_off it) (a_type it) (a_class it) (a_ttl it) (a_rdlen it) (section_of (lin nq an ns ar) (idx - nq)) in
    exists r1 r2 e, rd_marker msg r = (r1, Ok (OMarker mk)) /\ rd_skip_data mk r1 = (r2, Err e) /\ r_done r2 = true
  end.
Proof. exact fail_record_any. Qed.

(* ---- every flavour of the calls ----
   Questions: question / the_question (owned name) and question_ref / the_question_ref (borrowed):
   in a represented state with item idx a parsed question (and, for the_question*, exactly one
   question left), the call returns that question — the owned flavour with the text of the spec's
   labels — and leads to (idx+1, idx+1); an owned read of a name longer than 255 octets fails and
   exhausts the reader. *)
Theorem C09_question_flavours : forall msg nq an ns ar qs rs e1 e2, parsed msg nq an ns ar qs rs e1 e2 ->
  forall single as_ref r idx hw it,
  RState msg nq an ns ar qs rs e2 r idx hw -> getN qs idx = Some it ->
  (single = true -> idx + 1 = nq) -> (as_ref = false -> a_fits255 it = true) ->
  exists r' o, rd_question msg single as_ref r = (r', Ok o) /\ RState msg nq an ns ar qs rs e2 r' (idx + 1) (idx + 1) /\
    if as_ref then o = OQuestionRef (r_cur r) (a_type it) (a_class it)
    else exists ls e, spec_name msg (a_start it) = SAccept ls e /\ o = OQuestion (join_labels (map snd ls)) (a_type it) (a_class it).
Proof. exact question_flavours_any. Qed.

Theorem C09_owned_question_too_long : forall msg nq an ns ar qs rs e1 e2, parsed msg nq an ns ar qs rs e1 e2 ->
  forall single r idx hw it,
  RState msg nq an ns ar qs rs e2 r idx hw -> getN qs idx = Some it ->
  (single = true -> idx + 1 = nq) -> a_fits255 it = false ->
  exists r' e, rd_question msg single false r = (r', Err e) /\ r_done r' = true.
Proof. exact owned_question_too_long_any. Qed.

(* Records: each of the header calls (record_marker, record_header_ref, record_header<N> for either
   name type) returns exactly the prescribed header [mk_of]: offsets, TYPE, CLASS, TTL, RDLENGTH and
   section of item idx — the owned flavour with the text of the spec's labels, failing (and
   exhausting the reader) when the name exceeds 255 octets — and leads to the intermediate state
   [RMid] (cursor at the record data, data call pending).  From RMid each data call given that
   marker consumes exactly the record: skip_record_data, record_data_bytes (returning exactly the
   RDLENGTH octets at the data offset), opt_record (for an OPT header), and typed record_data — which
   either returns a value and leads to (idx+1, max hw (idx+1)) like the others, or fails and
   exhausts the reader (what the value is: C02/C04). *)
Theorem C09_record_header_flavours : forall msg nq an ns ar qs rs e1 e2, parsed msg nq an ns ar qs rs e1 e2 ->
  forall r idx hw it,
  RState msg nq an ns ar qs rs e2 r idx hw -> nq <= idx -> getN rs (idx - nq) = Some it ->
  let mk := mk_of nq an ns ar qs rs e2 idx it in
  (exists r1, rd_marker msg r = (r1, Ok (OMarker mk)) /\ RMid msg nq an ns ar qs rs e2 r1 idx hw it) /\
  (exists r1, rd_header_ref msg r = (r1, Ok (OHeaderRef (r_cur r) mk)) /\ RMid msg nq an ns ar qs rs e2 r1 idx hw it) /\
  (forall nk, a_fits255 it = true ->
     exists r1 ls e, spec_name msg (a_start it) = SAccept ls e /\
       rd_header_n msg nk r = (r1, Ok (OHeaderN (join_labels (map snd ls)) mk)) /\ RMid msg nq an ns ar qs rs e2 r1 idx hw it) /\
  (forall nk, a_fits255 it = false -> exists r1 e, rd_header_n msg nk r = (r1, Err e) /\ r_done r1 = true).
Proof. exact header_flavours_any. Qed.

Theorem C09_record_data_flavours : forall msg nq an ns ar qs rs e1 e2, parsed msg nq an ns ar qs rs e1 e2 ->
  forall r1 idx hw it, RMid msg nq an ns ar qs rs e2 r1 idx hw it ->
  let mk := mk_of nq an ns ar qs rs e2 idx it in
  (exists r2, rd_skip_data mk r1 = (r2, Ok OUnit) /\ RState msg nq an ns ar qs rs e2 r2 (idx + 1) (N.max hw (idx + 1))) /\
  (exists r2, rd_data_bytes msg mk r1 = (r2, Ok (OBytes (a_type_off it + 10) (subN msg (a_type_off it + 10) (a_rdlen it)))) /\
              RState msg nq an ns ar qs rs e2 r2 (idx + 1) (N.max hw (idx + 1))) /\
  (a_type it = T_OPT ->
   exists r2, rd_opt mk r1 = (r2, Ok (OOpt (opt_from_msg (a_class it) (a_ttl it)))) /\
              RState msg nq an ns ar qs rs e2 r2 (idx + 1) (N.max hw (idx + 1))) /\
  (forall ty r2 x, read_rdata msg ty (a_rdlen it) <> None -> rd_data msg ty mk r1 = (r2, x) ->
     match x with
     | Ok o => (exists d, o = ORData d) /\ RState msg nq an ns ar qs rs e2 r2 (idx + 1) (N.max hw (idx + 1))
     | _ => r_done r2 = true
     end).
Proof. exact data_flavours_any. Qed.

(* the remaining-counts the reader reports in a represented state (idx, hw) are those of the linear
   pass: questions nq - min idx nq; per section its count minus the records of it already passed
   ([rd]: min (idx - nq - start of the section) count); records_count their sum *)
Theorem C09_counts_reader : forall msg nq an ns ar qs rs e1 e2, parsed msg nq an ns ar qs rs e1 e2 ->
  forall r idx hw, RState msg nq an ns ar qs rs e2 r idx hw ->
  rd_questions_count r = Ok (ONum (nq - N.min idx nq)) /\
  rd_records_count_in 0 r = Ok (ONum (an - rd nq an ns ar idx 0)) /\
  rd_records_count_in 1 r = Ok (ONum (ns - rd nq an ns ar idx 1)) /\
  rd_records_count_in 2 r = Ok (ONum (ar - rd nq an ns ar idx 2)) /\
  rd_records_count r = Ok (ONum ((an - rd nq an ns ar idx 0) + (ns - rd nq an ns ar idx 1) + (ar - rd nq an ns ar idx 2))).
Proof. exact counts_reader_any. Qed.

(* seek to a section whose offset is NOT known (the high-water mark has not passed its first item):
   on a reader standing right behind the header (idx 0) the reader gets there by skipping — all
   questions, then the lower sections record by record — and, if everything up to the target
   parses, ends exactly where a seek to a known offset would, with the high-water mark raised to
   the target; from anywhere else the seek is refused with RecordsSectionOffsetUnknown and the
   reader is unchanged. *)
Theorem C09_seek_by_skipping : forall msg nq an ns ar qs rs e1 e2, parsed msg nq an ns ar qs rs e1 e2 ->
  forall r hw s, RState msg nq an ns ar qs rs e2 r 0 hw -> s < 3 ->
  known (lin nq an ns ar) (mkA 0 hw false None) s = false ->
  lenN qs = nq -> sec_start (lin nq an ns ar) s <= lenN rs ->
  exists r', rd_seek msg s r = (r', Ok OUnit) /\
             RState msg nq an ns ar qs rs e2 r' (nq + sec_start (lin nq an ns ar) s) (N.max hw (nq + sec_start (lin nq an ns ar) s)).
Proof. exact seek_skip_any. Qed.

(* ... and if, on the way, it meets the first item that does not parse completely (the stop facts of
   C09_linear_pass_parses: no question at e2, or at e2 no record header / one whose data leaves the
   message), the seek fails and the reader is exhausted *)
Theorem C09_seek_by_skipping_fails : forall msg nq an ns ar qs rs e1 e2, parsed msg nq an ns ar qs rs e1 e2 ->
  forall r hw s, RState msg nq an ns ar qs rs e2 r 0 hw -> s < 3 ->
  known (lin nq an ns ar) (mkA 0 hw false None) s = false ->
  (lenN qs < nq -> question_at msg e2 = None) ->
  (lenN qs = nq -> match record_at msg e2 with Some it => a_data_ok it = false | None => True end) ->
  lenN qs < nq \/ (lenN qs = nq /\ lenN rs < sec_start (lin nq an ns ar) s) ->
  exists r' e, rd_seek msg s r = (r', Err e) /\ r_done r' = true.
Proof. exact seek_skip_fails_any. Qed.

Theorem C09_seek_refused : forall msg nq an ns ar qs rs e1 e2, parsed msg nq an ns ar qs rs e1 e2 ->
  forall r idx hw s, RState msg nq an ns ar qs rs e2 r idx hw -> s < 3 ->
  known (lin nq an ns ar) (mkA idx hw false None) s = false ->
  0 < idx -> idx <= lenN qs + lenN rs -> rd_seek msg s r = (r, Err (RecordsSectionOffsetUnknown s)).
Proof. exact seek_refused_any. Qed.

(* the state right after header(): a whole-message cursor at offset 12 and the tracker built from
   the header represent (0, 0) *)
Theorem C09_reader_start : forall msg nq an ns ar qs rs e1 e2, parsed msg nq an ns ar qs rs e1 e2 ->
  forall h c, h_qd h = nq -> h_an h = an -> h_ns h = ns -> h_ar h = ar -> whole msg c -> pos c = 12 ->
  RState msg nq an ns ar qs rs e2 (mkReader c (tr_set tr_default h) false) 0 0.
Proof. exact rstate_start_any. Qed.

(* every message the linear pass looks at (12..65535 octets) is [parsed] with the questions of the
   pass and the records of the pass whose data fits; if fewer questions parse than announced, no
   question stands at e2; if all questions but fewer records than announced parse, what stands at
   e2 is no record header or one whose data leaves the message *)
Theorem C09_linear_pass_parses : forall msg l, linear_of msg = Some l ->
  let rs := filter a_data_ok (l_rs l) in
  exists e1 e2, parsed msg (l_nq l) (l_an l) (l_ns l) (l_ar l) (l_qs l) rs e1 e2 /\
    (lenN (l_qs l) < l_nq l -> question_at msg e2 = None) /\
    (lenN (l_qs l) = l_nq l -> lenN rs < nrec l ->
     match record_at msg e2 with Some it => a_data_ok it = false | None => True end).
Proof. exact linear_parsed. Qed.

(* the hypotheses of the composition are satisfiable: the 35-octet response of C02_whole_message_example
   (one question, one answer with a compressed owner) is parsed with complete lists, the reader behind
   header() represents (0, 0), and "question, record, seek(Answer), record" is allowed, reads parsed
   items only, and is therefore answered as prescribed *)
Example C09_example_run :
  exists qs rs e1 e2 h c,
    parsed example_msg 1 1 0 0 qs rs e1 e2 /\ lenN qs = 1 /\ lenN rs = 1 /\
    read_header example_msg (c_new example_msg) = (c, Ok h) /\
    let r0 := mkReader c (tr_set tr_default h) false in
    RState example_msg 1 1 0 0 qs rs e2 r0 0 0 /\
    allowed 1 1 0 0 [TQuestion; TRecord; TSeek 0; TRecord] 0 0 = Some (2, 2) /\
    within 1 1 0 0 qs rs [TQuestion; TRecord; TSeek 0; TRecord] 0 0 /\
    exists r', RState example_msg 1 1 0 0 qs rs e2 r' 2 2 /\
               prescribed example_msg 1 1 0 0 qs rs r' [TQuestion; TRecord; TSeek 0; TRecord] r0 0 0.
Proof. exact example_run. Qed.
