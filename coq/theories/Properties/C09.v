(* Properties/C09.v — The cursor-style reader is a faithful state machine over the message.
   The full refinement statement (every item, error and count of every conforming script equals
   the abstract linear-pass reader of Spec/LinearPass.v) is NOT proved yet: it is decided by the
   scripts stream, where the extracted abstract reader is the oracle (DESIGN.md §5 C09).
   Proved: the error/exhaustion latch. *)
From RsdnsModel Require Import Base Cursor Names Labels Header Tracker RData Reader.
From RsdnsModel.Proofs Require Import Latch.
Open Scope N_scope.

(* after the first decode error (or exhaustion) the reader stays exhausted: every sequential call
   and every seek returns ReaderDone without changing the state; all remaining-counts are 0 *)
Theorem C09_stays_exhausted_partial : forall msg r, r_done r = true ->
  (forall single as_ref, rd_question msg single as_ref r = (r, Err ReaderDone)) /\
  rd_skip_questions msg r = (r, Err ReaderDone) /\
  rd_marker msg r = (r, Err ReaderDone) /\ rd_header_ref msg r = (r, Err ReaderDone) /\
  (forall nk, rd_header_n msg nk r = (r, Err ReaderDone)) /\
  (forall s, rd_seek msg s r = (r, Err ReaderDone)) /\
  rd_questions_count r = Ok (ONum 0) /\ rd_records_count r = Ok (ONum 0) /\
  (forall s, rd_records_count_in s r = Ok (ONum 0)).
Proof. exact done_sticky. Qed.

Theorem C09_error_latches_partial : forall msg r, r_done r = false ->
  (is_ok (snd (rd_marker msg r)) = false -> r_done (fst (rd_marker msg r)) = true) /\
  (is_ok (snd (rd_header_ref msg r)) = false -> r_done (fst (rd_header_ref msg r)) = true) /\
  (forall nk, is_ok (snd (rd_header_n msg nk r)) = false -> r_done (fst (rd_header_n msg nk r)) = true) /\
  (is_ok (snd (rd_skip_questions msg r)) = false -> r_done (fst (rd_skip_questions msg r)) = true).
Proof. exact error_latches. Qed.
