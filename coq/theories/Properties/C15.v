(* Properties/C15.v — Unanswered queries are retried and end within the query lifetime.
   Part 1 (below): the time arithmetic of the blocking client, leaf by leaf — every blocking call is
   preceded by arming a socket timeout computed by lifetime_left / query_left / tcp_read_exact_until.
   Part 2: the clients as machines over time (Timed.v) for every queue of arrivals and every TCP
   peer: refinement of the retry specification Spec/Retry.v with exact timers, the spacing of the
   transmissions and the deadline of the whole call with timers that fire up to eps late.  OS
   timers, executor fairness and CPU time are the world, not the model (DESIGN.md 8, 12.2). *)
From RsdnsModel Require Import Base Client Timed.
From RsdnsModel.Spec Require Import Retry.
From RsdnsModel.Proofs Require Import ClientProofs TimedProofs TimedUntimed TimedSame TimedGeneral.
Open Scope N_scope.
(* every armed timeout is positive (a zero timeout is an error of set_read_timeout) and expires
   no later than the query lifetime; the UDP one also no later than the current attempt *)
Theorem C15_armed_within_lifetime : forall elapsed lifetime qt attempt tau,
  (lifetime_left elapsed lifetime = Ok tau -> 0 < tau /\ elapsed + tau <= lifetime) /\
  (query_left elapsed lifetime qt attempt = Ok tau ->
     0 < tau /\ elapsed + tau <= lifetime /\ attempt + tau <= match qt with Some t => t | None => lifetime end) /\
  (tcp_read_timeout elapsed lifetime = Ok tau -> 0 < tau /\ elapsed + tau <= lifetime).
Proof. exact armed_timeouts_within_lifetime. Qed.
(* once the lifetime is over nothing more is armed: the call ends with Timeout *)
Theorem C15_deadline : forall elapsed lifetime qt attempt, lifetime <= elapsed ->
  lifetime_left elapsed lifetime = Err Timeout /\ query_left elapsed lifetime qt attempt = Err Timeout /\
  tcp_read_timeout elapsed lifetime = Err Timeout.
Proof. exact no_action_after_deadline. Qed.
(* an attempt whose query_timeout is over ends with TimedOut — which udp_exchange answers with a
   retransmission — whatever datagrams were skipped meanwhile (this is the repaired F4) *)
Theorem C15_attempt_over_retries : forall elapsed lifetime qt attempt,
  elapsed < lifetime -> match qt with Some t => t | None => lifetime end <= attempt ->
  query_left elapsed lifetime qt attempt = Err IO_TIMEDOUT.
Proof. exact attempt_over_retries. Qed.
(* in absolute time: whatever the blocking client arms at [now] expires by start + lifetime, the
   deadline of the CALL — for the UDP exchange, TCP connect/write, and the TCP prefix and body
   reads alike (which clock each one reads is re-extracted from the source on every run) *)
Theorem C15_armed_before_call_deadline : forall now start qs lifetime qt tau,
  start <= qs -> qs <= now ->
  (lifetime_left_at now start qs lifetime = Ok tau -> 0 < tau /\ now + tau <= start + lifetime) /\
  (query_left_at now start qs lifetime qt = Ok tau ->
     0 < tau /\ now + tau <= start + lifetime /\ now + tau <= qs + match qt with Some t => t | None => lifetime end) /\
  (tcp_prefix_timeout_at now start qs lifetime = Ok tau -> 0 < tau /\ now + tau <= start + lifetime) /\
  (tcp_body_timeout_at now start qs lifetime = Ok tau -> 0 < tau /\ now + tau <= start + lifetime).
Proof. exact armed_before_call_deadline. Qed.
(* async clients (tokio, async-std, smol): the call is wrapped in a timeout of the configured query
   lifetime and every attempt's receive loop in a timeout of the configured query timeout — the
   timeout combinators themselves are trusted (armed with D at t they resolve by t + D) *)
Theorem C15_async_durations_are_configured : forall smol cfg_lifetime cfg_qt,
  async_call_duration smol cfg_lifetime cfg_qt = cfg_lifetime /\ async_attempt_duration smol cfg_lifetime cfg_qt = cfg_qt.
Proof. exact async_durations_are_configured. Qed.

(* ================================================================ Part 2: the clients over time *)
(* REFINEMENT, exact timers.  For each of the four clients ([std]: blocking / async template;
   [smol]: which runtime's timeout combinator), every query (id, name, type, class, start), every
   lifetime > 0 and query timeout > 0 (or none), and EVERY queue of arrivals in delivery order —
   answers, late answers to earlier queries, junk, before, between and after the transmissions —
   the UDP exchange makes exactly the transmissions, returns exactly the result at exactly the
   instant Spec/Retry.v prescribes: transmissions at start, start + qt, start + 2 qt, ... while no
   answering datagram has arrived and start + lifetime has not been reached; the first datagram
   that answers the query (the filter of C12) is the result, at the instant it arrives; otherwise
   Timeout at start + lifetime.  What is left in the queue is a suffix of what was found. *)
Theorem C15_exchange_refines_spec : forall std smol q lifetime qt queue lo,
  qt_pos qt -> 0 < lifetime -> sorted_from lo queue ->
  exists rest, exchange_of std smol q lifetime qt zero_jit zero_jit queue =
    (outcome_of (spec_udp (good_of std q) (exchange_fuel lifetime) (tq_start q) lifetime qt queue), rest) /\
    exists pre, queue = pre ++ rest.
Proof. exact exchange_refines_spec. Qed.

(* the schedule of the specification in closed form: the k-th transmission is at s + k q, and every
   s + k q below the bound (the answer's arrival, or start + lifetime) is a transmission *)
Theorem C15_schedule_nth : forall q bound fuel s k x,
  nth_error (schedule fuel s q bound) k = Some x -> x = s + N.of_nat k * q /\ (k = 0%nat \/ x < bound).
Proof. exact schedule_nth. Qed.
Theorem C15_schedule_complete : forall q bound, 0 < q -> forall fuel s k,
  (N.to_nat (bound - s) < fuel)%nat -> s + N.of_nat k * q < bound ->
  nth_error (schedule fuel s q bound) k = Some (s + N.of_nat k * q).
Proof. exact schedule_complete. Qed.

(* datagrams that do not answer the query neither abort it nor stop or shift the retries: the
   specification sees the queue only through its first answering datagram, so deleting every other
   datagram (or inserting any) changes neither transmissions nor result nor duration *)
Theorem C15_only_answers_matter : forall good fuel start lifetime qt arrs,
  spec_udp good fuel start lifetime qt (filter (answers good) arrs) = spec_udp good fuel start lifetime qt arrs.
Proof. exact spec_udp_filter. Qed.

(* the blocking client, which re-computes relative socket timeouts from clock readings, and the
   async clients, which run under two absolute timers, are the same machine (exact timers) *)
Theorem C15_std_is_async : forall good acc, (forall d, acc d = Ok (good d)) ->
  forall start lifetime qt smol fuel arrs now,
  qt_pos qt -> start <= now -> now < start + lifetime -> (N.to_nat (start + lifetime - now) < fuel)%nat ->
  std_udp_exchange acc start lifetime qt (fun _ => 0) (fun _ => 0) fuel arrs now =
  async_udp_exchange acc start lifetime qt (fun _ => 0) smol fuel arrs now.
Proof. exact std_is_async_exact. Qed.

(* TIMERS THAT FIRE LATE and CPU TIME (each timer late by at most eps; in the blocking client, whose
   control flow depends on clock readings, handling each delivered datagram or TCP byte takes up to
   eps — so an attempt or the lifetime can also run out while a datagram is being handled, which is
   the `elapsed >= timeout` branch of query_left and the `elapsed >= lifetime` branches of
   lifetime_left / tcp_read_exact_until; arrivals in any order).  The first transmission is at
   the start of the call; consecutive transmissions are at least one query timeout and at most one
   query timeout plus eps apart, all earlier than start + lifetime ([gaps]); the exchange ends with
   a datagram the filter accepts or with Timeout, no later than start + lifetime + eps; and Timeout
   is reported only if the last transmission was within one query timeout (+ eps) of the end of the
   lifetime: the retries are never given up early. *)
Theorem C15_retries_with_slack : forall std smol q lifetime qt jit proc eps queue s r t rest,
  (forall x, jit x <= eps) -> (forall x, proc x <= eps) -> qt_pos qt -> 0 < lifetime ->
  exchange_of std smol q lifetime qt jit proc queue = (s, r, t, rest) ->
  tq_start q <= t /\ t <= tq_start q + lifetime + eps /\
  match r with Ok (d, fl) => good_of std q d = Some fl | Err e => e = Timeout | _ => False end /\
  (exists s', s = tq_start q :: s' /\ gaps (tq_start q) lifetime qt eps (tq_start q) s') /\
  Forall (fun x => tq_start q <= x /\ x <= t) s /\
  (r = Err Timeout -> tq_start q + lifetime <= last s (tq_start q) + tmo lifetime qt + eps).
Proof. exact exchange_with_slack. Qed.

(* THE WHOLE CALL: whatever arrives over UDP and whatever the TCP peer does — accepts late or never,
   sends its reply byte by byte, stalls after any byte, closes early —, under every strategy, the
   call returns a value or an error no later than start + lifetime + eps *)
Theorem C15_call_ends_by_deadline : forall std smol q lifetime qt jit proc eps buf_len strategy arrs srv sends ev r t,
  (forall x, jit x <= eps) -> (forall x, proc x <= eps) -> qt_pos qt -> 0 < lifetime ->
  client_query_timed std smol q lifetime qt jit proc buf_len strategy arrs srv = (sends, ev, r, t) ->
  tq_start q <= t /\ t <= tq_start q + lifetime + eps /\ match r with Ok _ | Err _ => True | _ => False end.
Proof. exact client_query_deadline. Qed.

(* a concrete run (query "a." A IN, id 0x1234, start 1000, lifetime 1050, query timeout 300): junk at
   1010, a response with another id at 1290, a response to another question at 1610, nothing else:
   four transmissions, Timeout at 2050 — for the blocking and the async machine alike; and with the
   genuine response arriving at 1650: three transmissions and that response at 1650 *)
Definition ex_q : tquery := {| tq_id := 4660; tq_name := ["a"%byte; "."%byte]; tq_type := 1; tq_class := 1; tq_start := 1000 |}.
Definition ex_resp (id_hi id_lo name : byte) : list byte :=
  [id_hi; id_lo; x81; x80; x00; x01; x00; x00; x00; x00; x00; x00; x01; name; x00; x00; x01; x00; x01]%byte.
Definition ex_junk : list arrival :=
  [(1010, [x00; x01; x02]%byte); (1290, ex_resp x12 x35 "a"); (1610, ex_resp x12 x34 "b")].
Example C15_example :
  (forall std, fst (exchange_of std false ex_q 1050 (Some 300) zero_jit zero_jit ex_junk) = ([1000; 1300; 1600; 1900], Err Timeout, 2050)) /\
  (forall std, fst (exchange_of std false ex_q 1050 (Some 300) zero_jit zero_jit (ex_junk ++ [(1650, ex_resp x12 x34 "A")]))
     = ([1000; 1300; 1600], Ok (ex_resp x12 x34 "A", 33152), 1650)) /\
  (forall std, fst (exchange_of std false ex_q 1050 None zero_jit zero_jit ex_junk) = ([1000], Err Timeout, 2050)) /\
  sorted_from 0 (ex_junk ++ [(1650, ex_resp x12 x34 "A")]) /\ qt_pos (Some 300).
Proof.
  split; [|split; [|split; [|split]]]; try (intros [|]; vm_compute; reflexivity).
  - cbn. lia.
  - reflexivity.
Qed.

(* the blocking client with CPU time: the response with another id arrives at 1299, one unit before
   the first attempt's time is up, and handling a datagram takes 5 units: at 1304 query_left finds
   the attempt over (`elapsed >= timeout`) and reports TimedOut, which udp_exchange answers with the
   retransmission — at 1304; the schedule continues from there (1604, 1904), Timeout at 2050 *)
Example C15_example_cpu_time :
  fst (exchange_of true false ex_q 1050 (Some 300) zero_jit (fun _ => 5)
         [(1010, [x00; x01; x02]%byte); (1299, ex_resp x12 x35 "a")]) = ([1000; 1304; 1604; 1904], Err Timeout, 2050).
Proof. vm_compute. reflexivity. Qed.

(* WHEN EVERYTHING ARRIVES IN TIME the timed machines are the untimed client model of Client.v:
   exact timers, arrivals in delivery order, a TCP peer that accepts at once and delivers its reply
   and closes before start + lifetime.  Then each of the four clients starts exactly the exchanges
   and returns exactly the result that query_raw_impl computes from the receive loop (C12) over the
   datagrams arriving before start + lifetime and the framing (C14) of the peer's byte stream under
   the strategy rules (C13) — so those theorems are theorems about the clients over time as well —
   and it returns before start + lifetime. *)
Theorem C15_in_time_is_untimed : forall std smol q lifetime qt buf strategy arrs srv lo te sends ev r t,
  qt_pos qt -> 0 < lifetime -> sorted_from lo arrs ->
  tp_accept srv = Some 0 -> early (tq_start q + lifetime) (tp_bytes srv) -> tp_eof srv = Some te -> te < tq_start q + lifetime ->
  client_query_timed std smol q lifetime qt zero_jit zero_jit buf strategy arrs srv = (sends, ev, r, t) ->
  (ev, r) = client_query std strategy (tq_id q) (tq_name q) (tq_type q) (tq_class q) buf
              (map snd (filter (early_arr (tq_start q + lifetime)) arrs)) [map snd (tp_bytes srv)] /\
  t <= tq_start q + lifetime.
Proof. exact timed_query_is_untimed. Qed.

(* e.g. a truncated answer at 1310 (after one retransmission), then the TCP reply "00 03 aa bb cc" in
   two segments at 1320 and 1400, closed at 1400: UDP then TCP, the three bytes, at 1400 *)
Example C15_in_time_example :
  forall std, client_query_timed std false ex_q 1050 (Some 300) zero_jit zero_jit 512 0
    [(1310, [x12; x34; x83; x80; x00; x01; x00; x00; x00; x00; x00; x00; x01; "a"; x00; x00; x01; x00; x01]%byte)]
    {| tp_accept := Some 0; tp_bytes := [(1320, x00); (1320, x03); (1320, xaa); (1400, xbb); (1400, xcc)]; tp_eof := Some 1400 |}
  = ([1000; 1300], [EvUdpExchange; EvTcpExchange], Ok [xaa; xbb; xcc], 1400).
Proof. intros [|]; vm_compute; reflexivity. Qed.

(* ALL FOUR CLIENTS ARE ONE MACHINE OVER TIME (exact timers), for the WHOLE raw query and in EVERY
   world — any arrivals in any order, any TCP peer (accepting late or never, trickling, stalling,
   closing early), every strategy: the blocking client, which computes a relative socket timeout
   from clock readings before every send, receive and read, and the async clients on each runtime,
   which run under two absolute timers, make the same transmissions at the same instants, start
   the same exchanges, and return the same result at the same instant *)
Theorem C15_all_clients_one_machine : forall smol smol' q lifetime qt buf strategy arrs srv,
  qt_pos qt -> 0 < lifetime ->
  client_query_timed true smol q lifetime qt zero_jit zero_jit buf strategy arrs srv =
  client_query_timed false smol' q lifetime qt zero_jit zero_jit buf strategy arrs srv.
Proof. exact all_clients_one_machine. Qed.

(* RETRIES DISABLED (query_timeout = None): exactly one transmission, at the start of the call — never a
   second one — in every world: whatever arrives, however late the timers (all four clients) *)
Theorem C15_no_retries_when_disabled : forall std smol q lifetime jit proc eps queue s r t rest,
  (forall x, jit x <= eps) -> (forall x, proc x <= eps) -> 0 < lifetime ->
  exchange_of std smol q lifetime None jit proc queue = (s, r, t, rest) -> s = [tq_start q].
Proof. exact no_retries_when_disabled. Qed.
