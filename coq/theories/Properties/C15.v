(* Properties/C15.v — Unanswered queries are retried and end within the query lifetime
   (partial: the part that is logic; executor fairness and OS timers are outside any model).
   For the blocking client every blocking call is preceded by arming a socket timeout computed by
   lifetime_left / query_left / tcp_read_exact_until; durations are abstract numbers. *)
From RsdnsModel Require Import Base Client.
From RsdnsModel.Proofs Require Import ClientProofs.
Open Scope N_scope.
(* every armed timeout is positive (a zero timeout is an error of set_read_timeout) and expires
   no later than the query lifetime; the UDP one also no later than the current attempt *)
Theorem C15_armed_within_lifetime : forall elapsed lifetime qt attempt tau,
  (lifetime_left elapsed lifetime = Ok tau -> 0 < tau /\ elapsed + tau <= lifetime) /\
  (query_left elapsed lifetime qt attempt = Ok tau ->
     0 < tau /\ elapsed + tau <= lifetime /\ attempt + tau <= match qt with Some t => t | None => lifetime end) /\
  (tcp_read_timeout elapsed lifetime = Ok tau -> 0 < tau /\ elapsed + tau <= lifetime).
Proof. exact armed_timeouts_within_lifetime. Qed.
(* once the lifetime is over nothing more is armed: the call ends with Timeout *)
Theorem C15_deadline : forall elapsed lifetime qt attempt, lifetime <= elapsed ->
  lifetime_left elapsed lifetime = Err Timeout /\ query_left elapsed lifetime qt attempt = Err Timeout /\
  tcp_read_timeout elapsed lifetime = Err Timeout.
Proof. exact no_action_after_deadline. Qed.
(* an attempt whose query_timeout is over ends with TimedOut — which udp_exchange answers with a
   retransmission — whatever datagrams were skipped meanwhile (this is the repaired F4) *)
Theorem C15_attempt_over_retries : forall elapsed lifetime qt attempt,
  elapsed < lifetime -> match qt with Some t => t | None => lifetime end <= attempt ->
  query_left elapsed lifetime qt attempt = Err IO_TIMEDOUT.
Proof. exact attempt_over_retries. Qed.
(* in absolute time: whatever the blocking client arms at [now] expires by start + lifetime, the
   deadline of the CALL — for the UDP exchange, TCP connect/write, and the TCP prefix and body
   reads alike (which clock each one reads is re-extracted from the source on every run) *)
Theorem C15_armed_before_call_deadline : forall now start qs lifetime qt tau,
  start <= qs -> qs <= now ->
  (lifetime_left_at now start qs lifetime = Ok tau -> 0 < tau /\ now + tau <= start + lifetime) /\
  (query_left_at now start qs lifetime qt = Ok tau ->
     0 < tau /\ now + tau <= start + lifetime /\ now + tau <= qs + match qt with Some t => t | None => lifetime end) /\
  (tcp_prefix_timeout_at now start qs lifetime = Ok tau -> 0 < tau /\ now + tau <= start + lifetime) /\
  (tcp_body_timeout_at now start qs lifetime = Ok tau -> 0 < tau /\ now + tau <= start + lifetime).
Proof. exact armed_before_call_deadline. Qed.
(* async clients (tokio, async-std, smol): the call is wrapped in a timeout of the configured query
   lifetime and every attempt's receive loop in a timeout of the configured query timeout — the
   timeout combinators themselves are trusted (armed with D at t they resolve by t + D) *)
Theorem C15_async_durations_are_configured : forall smol cfg_lifetime cfg_qt,
  async_call_duration smol cfg_lifetime cfg_qt = cfg_lifetime /\ async_attempt_duration smol cfg_lifetime cfg_qt = cfg_qt.
Proof. exact async_durations_are_configured. Qed.
