(* Properties/C14.v — TCP responses are framed by their length prefix. *)
From Coq Require Import ZArith.
From RsdnsModel Require Import Base Client Timed.
From RsdnsModel.Proofs Require Import ClientProofs TimedProofs TimedGeneral.
Open Scope N_scope.
(* however the peer segments the stream, the outcome is the same *)
Theorem C14_segmentation_independent : forall std segs segs' buf_len,
  concat segs = concat segs' -> tcp_exchange std segs buf_len = tcp_exchange std segs' buf_len.
Proof. exact tcp_exchange_segmentation_independent. Qed.
(* exactly the N announced bytes and nothing beyond them; N larger than the buffer is
   BufferTooShort(N); a stream that ends early is an error, never a short success *)
Theorem C14_framing : forall std segs buf_len,
  let s := concat segs in
  match tcp_exchange std segs buf_len with
  | Ok body => (2 <= length s)%nat /\ let n := be_val (firstn 2 s) 0 in
               n <= buf_len /\ body = firstn (N.to_nat n) (skipn 2 s) /\ lenN body = n
  | Err (BufferTooShort n) => (2 <= length s)%nat /\ n = be_val (firstn 2 s) 0 /\ buf_len < n
  | Err _ => (length s < 2)%nat \/ (length s < 2 + N.to_nat (be_val (firstn 2 s) 0))%nat
  | _ => False
  end.
Proof. exact tcp_exchange_spec. Qed.

(* OVER TIME, IN EVERY WORLD (Timed.v: the peer's reply becomes readable byte by byte at arbitrary
   instants, the peer may stall after any byte or close early, timers may be late): a result that
   came over TCP — for each of the four clients, under every strategy — is framed by the length
   prefix: the peer's stream starts with two octets announcing n, n is at most the caller's buffer
   length, and the result is exactly the n octets behind them, whatever follows; a stream that ends
   or stalls before that never yields Ok *)
Theorem C14_framing_over_time : forall std smol q lifetime qt jit proc buf strategy arrs srv sends ev body t,
  client_query_timed std smol q lifetime qt jit proc buf strategy arrs srv = (sends, ev, Ok body, t) ->
  In EvTcpExchange ev -> framed buf (map snd (tp_bytes srv)) body.
Proof. exact framing_over_time. Qed.
