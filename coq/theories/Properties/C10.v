(* Properties/C10.v — Random access is a pure function of message and marker. *)
From RsdnsModel Require Import Base Cursor Names Labels Header Tracker RData Reader Script.
From RsdnsModel.Proofs Require Import RandAccess.
Open Scope N_scope.

(* In every world reachable by ANY call script (any history: reads, seeks, failed typed reads that
   leave an RDLENGTH window open, the error state), for every marker value, the three random
   access calls equal fixed functions of (message, marker) that do not mention the reader. *)
Theorem C10_at_pure : forall msgs w i msg r mk,
  reachable msgs w -> getN (w_msgs w) i = Some msg -> getN (w_readers w) i = Some (Some r) ->
  rd_bytes_at msg mk r = raw_pure msg mk /\
  (forall ty, rd_data_at msg ty mk r = rdata_pure msg ty mk) /\
  rd_name_ref_at mk r = Ok (ONameRef (at_cursor msg mk)).
Proof. exact at_pure. Qed.

(* hence two readers of the same bytes, in whatever states, agree *)
Theorem C10_history_independent : forall msgs1 msgs2 w1 w2 i j msg r1 r2 mk ty,
  reachable msgs1 w1 -> reachable msgs2 w2 ->
  getN (w_msgs w1) i = Some msg -> getN (w_readers w1) i = Some (Some r1) ->
  getN (w_msgs w2) j = Some msg -> getN (w_readers w2) j = Some (Some r2) ->
  rd_bytes_at msg mk r1 = rd_bytes_at msg mk r2 /\
  rd_data_at msg ty mk r1 = rd_data_at msg ty mk r2 /\
  rd_name_ref_at mk r1 = rd_name_ref_at mk r2.
Proof.
  intros. destruct (at_pure msgs1 w1 i msg r1 mk) as (A1 & A2 & A3); try assumption.
  destruct (at_pure msgs2 w2 j msg r2 mk) as (B1 & B2 & B3); try assumption.
  rewrite A1, B1, A2, B2, A3, B3. auto.
Qed.

(* non-vacuity: a reader that failed inside an RDLENGTH window is reachable, and there random
   access still sees the whole message (the situation that used to fail before the fix). *)
Example C10_witness :
  let msg := [x00;x01;x81;x80;x00;x00;x00;x02;x00;x00;x00;x00;
              x00;x00;x01;x00;x01;x00;x00;x00;x3c;x00;x03;x01;x02;x03;
              x00;x00;x01;x00;x01;x00;x00;x00;x3c;x00;x04;x09;x08;x07;x06] in
  let w := world_init [msg] in
  let w1 := fst (step w 0 CHeader) in
  let w2 := fst (step w1 0 CMarker) in
  let w3 := fst (step w2 0 (CData 1 0)) in         (* A with RDLENGTH 3: fails, window left open *)
  let w4 := fst (step (fst (step (fst (step (fst (step w 0 CHeader)) 0 CMarker)) 0 (CSkipData 0))) 0 CMarker) in
  match getN (w_markers w4) 1, getN (w_readers w3) 0 with
  | Some mk2, Some (Some r) => r_done r = true /\ rd_data_at msg 1 mk2 r = Ok (ORData (RD_A 151521030))
  | _, _ => False
  end.
Proof. vm_compute. split; reflexivity. Qed.
