(* Properties/C03.v — Name compression is expanded faithfully and only when legal.
   Statements only; proofs are in Proofs/.  [vis msg c] is the buffer the cursor can see
   (the whole message, or the RDLENGTH window while decoding RDATA). *)
From RsdnsModel Require Import Base Cursor Names Labels.
From RsdnsModel.Spec Require Import WireName.
From RsdnsModel.Proofs Require Import CursorSafe LabelsTotal LabelsSound LabelsComplete SpecExec.
Open Scope N_scope.

(* Any accepted name is the RFC 1035 §4.1.4 expansion (every pointer to a prior position, at most
   32 pointers), its text is the labels joined unchanged, every label is valid, it fits 255
   octets, and reading resumes right after the first pointer / terminating zero. *)
Theorem C03_read_sound : forall msg nk c t c',
  cwf msg c -> read_name msg nk c = Ok (t, c') ->
  exists ls, expands (vis msg c) None 0 (pos c) ls /\
             Forall (fun l => label_ok (snd l) = true) ls /\
             t = join_labels (map snd ls) /\ wire_len (map snd ls) <= 255 /\
             resume_at (vis msg c) (pos c) (pos c') /\ lim c' = lim c /\ orig c' = orig c.
Proof. exact read_name_sound. Qed.

Theorem C03_skip_sound : forall msg c c',
  cwf msg c -> skip_name msg c = Ok c' ->
  exists ls, expands (vis msg c) None 0 (pos c) ls /\
             Forall (fun l => label_ok (snd l) = true) ls /\
             resume_at (vis msg c) (pos c) (pos c') /\ lim c' = lim c /\ orig c' = orig c.
Proof. exact skip_name_sound. Qed.

(* Everything else is rejected with an error value: the walker never panics, never reads out of
   bounds and never loops (fuel 34*(|buf|+2) is never exhausted), for every byte string and every
   start position. *)
Theorem C03_read_total : forall msg nk c, cwf msg c -> defined (read_name msg nk c).
Proof. exact read_name_defined. Qed.
Theorem C03_skip_total : forall msg c, cwf msg c -> defined (skip_name msg c).
Proof. exact skip_name_defined. Qed.

Theorem C03_reject : forall msg nk c,
  cwf msg c ->
  ~ (exists ls, expands (vis msg c) None 0 (pos c) ls /\
                Forall (fun l => label_ok (snd l) = true) ls /\ wire_len (map snd ls) <= 255) ->
  exists e, read_name msg nk c = Err e.
Proof.
  intros msg nk c Hc Hn. pose proof (read_name_defined msg nk c Hc) as D.
  destruct (read_name msg nk c) as [[t c']| | | | |] eqn:E; cbn in D; try tauto; eauto.
  exfalso. apply Hn. destruct (read_name_sound msg nk c t c' Hc E) as (ls & H1 & H2 & _ & H3 & _). eauto.
Qed.

(* COMPLETENESS: every name that has a legal expansion on the visible buffer (pointers only to prior
   positions, at most 32 of them), valid labels and at most 255 octets IS accepted — by both name
   types and by skipping — decodes to the text of exactly those labels and resumes where the
   spec says.  With C03_read_sound: the decoder accepts exactly the legal names. *)
Theorem C03_read_complete : forall msg nk c ls,
  cwf msg c -> expands (vis msg c) None 0 (pos c) ls ->
  Forall (fun l => label_ok (snd l) = true) ls -> wire_len (map snd ls) <= 255 ->
  exists c', read_name msg nk c = Ok (join_labels (map snd ls), c') /\
    resume_at (vis msg c) (pos c) (pos c') /\ lim c' = lim c /\ orig c' = orig c.
Proof. exact read_name_complete. Qed.

Theorem C03_skip_complete : forall msg c ls,
  cwf msg c -> expands (vis msg c) None 0 (pos c) ls ->
  Forall (fun l => label_ok (snd l) = true) ls -> wire_len (map snd ls) <= 255 ->
  exists c', skip_name msg c = Ok c' /\ resume_at (vis msg c) (pos c) (pos c').
Proof. exact skip_name_complete. Qed.

(* the executable expander that the streams use as their oracle (Spec/WireName.v spec_name, also
   the basis of Spec/LinearPass.v) decides exactly the relation these theorems are about *)
Theorem C03_oracle_accepts_iff : forall msg p ls r,
  spec_name msg p = SAccept ls r <-> expands msg None 0 p ls /\ resume_at msg p r.
Proof. exact spec_name_accept_iff. Qed.
Theorem C03_oracle_rejects_iff : forall msg p,
  (exists w, spec_name msg p = SReject w) <-> ~ exists ls, expands msg None 0 p ls.
Proof. exact spec_name_reject_iff. Qed.
