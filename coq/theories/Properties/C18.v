(* Properties/C18.v — Name equality, ordering and hashing are case-insensitive and coherent. *)
From RsdnsModel Require Import Base Names.
From RsdnsModel.Spec Require Import NameText.
From RsdnsModel.Proofs Require Import NameOrder NameEqStr.
Open Scope N_scope.

(* for all texts (byte strings): equal exactly when they compare Equal *)
Theorem C18_eq_iff_cmp : forall a b, name_eq a b = true <-> name_cmp a b = Eq.
Proof. exact eq_iff_cmp. Qed.
(* equality is equality of the ASCII-case-folded texts *)
Theorem C18_eq_is_fold : forall a b, name_eq a b = true <-> fold_case a = fold_case b.
Proof. exact name_eq_fold. Qed.
(* the ordering is the lexicographic order on the case-folded text: a strict total order *)
Theorem C18_cmp_is_lex : forall a b, name_cmp a b = lex (fold_case a) (fold_case b).
Proof. exact name_cmp_lex. Qed.
Theorem C18_cmp_antisym : forall a b, name_cmp a b = CompOpp (name_cmp b a).
Proof. exact cmp_antisym. Qed.
Theorem C18_cmp_trans : forall a b c, name_cmp a b = Lt -> name_cmp b c = Lt -> name_cmp a c = Lt.
Proof. exact cmp_trans. Qed.
(* equal names feed identical bytes to the hasher (the case-folded text) *)
Theorem C18_hash : forall a b, name_eq a b = true -> name_hash_feed a = name_hash_feed b.
Proof. exact eq_hash. Qed.
Theorem C18_hash_is_fold : forall a, name_hash_feed a = fold_case a.
Proof. exact hash_feed_fold. Qed.
(* name == &str (both name types): on a name in canonical form — every decoded or parsed name ends
   with the root dot — it is case-insensitive equality with the canonical spelling of the text,
   i.e. the root dot is optional in the text and nothing else is *)
Theorem C18_eq_str_is_canon : forall t s,
  name_eq_str (t ++ [x2e]) s = name_eq (t ++ [x2e]) (canon_text s).
Proof. exact name_eq_str_spec. Qed.
