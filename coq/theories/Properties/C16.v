(* Properties/C16.v — A client stays correct across any history of queries (partial: the part that
   is logic).  What the receive loop accepts and returns is a function of the query's own
   id/question and of the delivered datagrams only; leftovers of earlier queries are ordinary
   non-matching datagrams (C12) unless they carry the new id and question.  The UDP socket is shared
   by all queries of a client, so late datagrams of earlier queries ARE delivered to the receive
   loop of the next one: they are elements of its [ds].  That the real clients carry no other state
   from one query to the next (the reusable receive buffer is re-sized and cut to the received
   length) is what the netlab history stream checks against this function. *)
From RsdnsModel Require Import Base GenTypes RecordSet Client Timed.
From RsdnsModel.Spec Require Import Retry.
From RsdnsModel.Proofs Require Import ClientProofs TimedProofs TimedGeneral TimedTyped.
Open Scope N_scope.
Theorem C16_leftovers_ignored : forall std id qname qtype qclass pre post junk,
  Forall (fun x => accept_datagram std id qname qtype qclass x = Ok None) junk ->
  udp_receive std id qname qtype qclass (pre ++ junk ++ post) = udp_receive std id qname qtype qclass (pre ++ post).
Proof. exact leftovers_ignored. Qed.
Theorem C16_leftover_accepted_only_if_matching : forall std id qname qtype qclass pre d fl post,
  udp_receive std id qname qtype qclass (pre ++ d :: post) = Ok (Some (d, fl)) ->
  Forall (fun x => accept_datagram std id qname qtype qclass x = Ok None) pre ->
  accept_datagram std id qname qtype qclass d = Ok (Some fl).
Proof. exact leftover_accepted_only_if_matching. Qed.

(* the typed query parses exactly what the raw query received (the datagram cut to the configured
   buffer size), whatever the reusable receive buffer held from earlier queries: its result is
   record-set extraction of those bytes and no byte of an earlier response can enter it (the
   lengths handed to set_len in take_buf / query_rrset are translated leaves, both client families) *)
Theorem C16_typed_query_ignores_history : forall std old d bs ty,
  lenN old = bs ->
  typed_parse_input std old d bs = recv_into bs d /\
  from_msg (typed_parse_input std old d bs) ty = from_msg (recv_into bs d) ty.
Proof. intros std old d bs ty H. rewrite (typed_input_ignores_history std old d bs H). split; reflexivity. Qed.

(* The reusable buffer across typed queries ([tq_step], Client.v: `self.buf` as (capacity, len); the
   refusal test, the growth test, the amount reserved and the lengths handed to set_len are
   translated leaves of both client families).  From the state Client::new leaves
   (Vec::with_capacity(buffer_size)) or any later one, for EVERY history of completed, failed and
   dropped (async: future dropped mid-flight) typed queries, with any allocator slack: no query is
   refused, the `unsafe set_len` in take_buf and after the raw query is always within the capacity,
   and the raw query always receives a buffer of exactly the configured size. *)
Theorem C16_buffer_history_safe : forall std bs, 0 < bs -> forall h st, tq_inv bs st ->
  Forall (fun se => match snd se with TqDone r => r <= bs | _ => True end) h ->
  Forall (fun o => o = TqRan bs) (tq_run std bs st h).
Proof. exact tq_history_safe. Qed.

Example C16_buffer_history_example :
  tq_inv 65535 (65535, 0) /\
  tq_run false 65535 (65535, 0) [(0, TqDone 120); (7, TqDropped); (0, TqDone 300); (3, TqFailed); (0, TqDropped); (1, TqDone 65535)] =
  [TqRan 65535; TqRan 65535; TqRan 65535; TqRan 65535; TqRan 65535; TqRan 65535].
Proof. split; [apply tq_inv_new; reflexivity|vm_compute; reflexivity]. Qed.

(* HISTORIES OVER TIME (Timed.v: [udp_history] — the queries of one client object share its UDP
   socket, so what one exchange leaves in the queue — late answers, answers to other questions,
   junk — is what the next one finds there).  For each of the four clients, every history of
   queries (ids, names, types, classes, start instants) and every queue of arrivals in delivery
   order, EVERY query of the history makes the transmissions, returns the result and takes the time
   that Spec/Retry.v prescribes for a client whose socket delivers ONLY the datagrams answering this
   very query (its id and its question, C12) out of what is in the queue when it starts: nothing
   an earlier query left behind changes what it sends, what it returns or how long it takes, and
   the bytes it returns are one of those answering datagrams.  (Exact timers; with late timers the
   bounds of C15_retries_with_slack hold for every query of the history in the same way.) *)
Theorem C16_history_refines_spec : forall std smol lifetime qt, qt_pos qt -> 0 < lifetime ->
  forall qs queue lo, sorted_from lo queue ->
  Forall2 (fun q o => exists queue_k pre, queue = pre ++ queue_k /\
             o = outcome_of (spec_udp (good_of std q) (exchange_fuel lifetime) (tq_start q) lifetime qt
                               (filter (answers (good_of std q)) queue_k)))
          qs (udp_history std smol lifetime qt zero_jit zero_jit qs queue).
Proof. exact history_refines_spec. Qed.

(* a concrete history on one client: query 1 ("a." A, id 0x1234, at 1000) times out after two
   transmissions (lifetime 500, query timeout 300); its answer arrives late, at 1700; query 2 ("b."
   A, id 0x1235, at 2000) finds that late answer in the queue, skips it, and returns its own
   answer, which arrives at 2100; query 3 ("a." A again, id 0x1236, at 3000) finds nothing *)
Definition ex_resp (id_hi id_lo name : byte) : list byte :=
  [id_hi; id_lo; x81; x80; x00; x01; x00; x00; x00; x00; x00; x00; x01; name; x00; x00; x01; x00; x01]%byte.
Definition ex_qs : list tquery :=
  [ {| tq_id := 4660; tq_name := ["a"%byte; "."%byte]; tq_type := 1; tq_class := 1; tq_start := 1000 |};
    {| tq_id := 4661; tq_name := ["b"%byte; "."%byte]; tq_type := 1; tq_class := 1; tq_start := 2000 |};
    {| tq_id := 4662; tq_name := ["a"%byte; "."%byte]; tq_type := 1; tq_class := 1; tq_start := 3000 |} ].
Definition ex_queue : list arrival := [(1700, ex_resp x12 x34 "a"); (2100, ex_resp x12 x35 "b")].
Example C16_history_example :
  (forall std, udp_history std false 500 (Some 300) zero_jit zero_jit ex_qs ex_queue =
     [ ([1000; 1300], Err Timeout, 1500);
       ([2000], Ok (ex_resp x12 x35 "b", 33152), 2100);
       ([3000; 3300], Err Timeout, 3500) ]) /\ sorted_from 0 ex_queue.
Proof. split; [intros [|]; vm_compute; reflexivity|cbn; lia]. Qed.

(* HISTORIES IN EVERY WORLD: timers up to eps late, CPU time up to eps per datagram, any arrivals in
   any order.  Every query of every history on the shared socket ends by its own start + lifetime +
   eps — with a datagram the filter accepts FOR THIS QUERY (its id and question: never a leftover of
   another query, whatever earlier queries left in the queue) or with Timeout — and its transmissions
   start at its own start and are spaced by the query timeout, as on a fresh client *)
Theorem C16_history_with_slack : forall std smol lifetime qt jit proc eps,
  (forall x, jit x <= eps) -> (forall x, proc x <= eps) -> qt_pos qt -> 0 < lifetime ->
  forall qs queue,
  Forall2 (fun q o => let '(s, r, t) := o in
             tq_start q <= t /\ t <= tq_start q + lifetime + eps /\
             match r with Ok (d, fl) => filter_of std q d = Ok (Some fl) | Err e => e = Timeout | _ => False end /\
             exists s', s = tq_start q :: s' /\ gaps (tq_start q) lifetime qt eps (tq_start q) s')
          qs (udp_history std smol lifetime qt jit proc qs queue).
Proof. exact history_with_slack. Qed.

(* THE TYPED QUERY AS A WHOLE (Timed.v: rrset_of_raw = ClientImpl::query_rrset::<D> over ANY raw query —
   TimedApi.v instantiates it with the raw query of each of the four clients over time): with a
   configured buffer size and a data class it returns exactly what record-set extraction yields on
   the bytes the raw query returns for the same exchange — the raw query for D's type into a buffer
   of exactly the configured size — with the same traffic at the same instants, and the raw query's
   error as it is; without a buffer size (BadParam) or for a class that is not a data class
   (UnsupportedClass) it is refused before the raw query is called: nothing is sent *)
Theorem C16_typed_is_extraction_of_raw : forall (W : Type) std q bs (w0 : W) raw,
  0 < bs -> class_is_data (tq_class q) = true ->
  rrset_of_raw std q bs w0 raw =
  match raw bs with
  | (wire, ev, Ok d, t) => (wire, ev, from_msg d (tq_type q), t)
  | (wire, ev, r, t) => (wire, ev, retype r Panic, t)
  end.
Proof. intros W. exact (@rrset_is_extraction_of_raw W). Qed.
Theorem C16_typed_refused_sends_nothing : forall (W : Type) std q bs (w0 : W) raw,
  bs = 0 \/ class_is_data (tq_class q) = false ->
  exists e, rrset_of_raw std q bs w0 raw = (w0, [], Err e, tq_start q) /\
            (e = BadParam \/ e = UnsupportedClass (tq_class q)).
Proof. intros W. exact (@rrset_refused_sends_nothing W). Qed.
