(* Properties/C16.v — A client stays correct across any history of queries (partial: the part that
   is logic).  What the receive loop accepts and returns is a function of the query's own
   id/question and of the delivered datagrams only; leftovers of earlier queries are ordinary
   non-matching datagrams (C12) unless they carry the new id and question.  The UDP socket is shared
   by all queries of a client, so late datagrams of earlier queries ARE delivered to the receive
   loop of the next one: they are elements of its [ds].  That the real clients carry no other state
   from one query to the next (the reusable receive buffer is re-sized and cut to the received
   length) is what the netlab history stream checks against this function. *)
From RsdnsModel Require Import Base RecordSet Client.
From RsdnsModel.Proofs Require Import ClientProofs.
Open Scope N_scope.
Theorem C16_leftovers_ignored : forall std id qname qtype qclass pre post junk,
  Forall (fun x => accept_datagram std id qname qtype qclass x = Ok None) junk ->
  udp_receive std id qname qtype qclass (pre ++ junk ++ post) = udp_receive std id qname qtype qclass (pre ++ post).
Proof. exact leftovers_ignored. Qed.
Theorem C16_leftover_accepted_only_if_matching : forall std id qname qtype qclass pre d fl post,
  udp_receive std id qname qtype qclass (pre ++ d :: post) = Ok (Some (d, fl)) ->
  Forall (fun x => accept_datagram std id qname qtype qclass x = Ok None) pre ->
  accept_datagram std id qname qtype qclass d = Ok (Some fl).
Proof. exact leftover_accepted_only_if_matching. Qed.

(* the typed query parses exactly what the raw query received (the datagram cut to the configured
   buffer size), whatever the reusable receive buffer held from earlier queries: its result is
   record-set extraction of those bytes and no byte of an earlier response can enter it (the
   lengths handed to set_len in take_buf / query_rrset are translated leaves, both client families) *)
Theorem C16_typed_query_ignores_history : forall std old d bs ty,
  lenN old = bs ->
  typed_parse_input std old d bs = recv_into bs d /\
  from_msg (typed_parse_input std old d bs) ty = from_msg (recv_into bs d) ty.
Proof. intros std old d bs ty H. rewrite (typed_input_ignores_history std old d bs H). split; reflexivity. Qed.
