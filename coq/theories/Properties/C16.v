(* Properties/C16.v — A client stays correct across any history of queries (partial: the part that
   is logic).  What the receive loop accepts and returns is a function of the query's own
   id/question and of the delivered datagrams only; leftovers of earlier queries are ordinary
   non-matching datagrams (C12) unless they carry the new id and question.  The UDP socket is shared
   by all queries of a client, so late datagrams of earlier queries ARE delivered to the receive
   loop of the next one: they are elements of its [ds].  That the real clients carry no other state
   from one query to the next (the reusable receive buffer is re-sized and cut to the received
   length) is what the netlab history stream checks against this function. *)
From RsdnsModel Require Import Base RecordSet Client.
From RsdnsModel.Proofs Require Import ClientProofs.
Open Scope N_scope.
Theorem C16_leftovers_ignored : forall std id qname qtype qclass pre post junk,
  Forall (fun x => accept_datagram std id qname qtype qclass x = Ok None) junk ->
  udp_receive std id qname qtype qclass (pre ++ junk ++ post) = udp_receive std id qname qtype qclass (pre ++ post).
Proof. exact leftovers_ignored. Qed.
Theorem C16_leftover_accepted_only_if_matching : forall std id qname qtype qclass pre d fl post,
  udp_receive std id qname qtype qclass (pre ++ d :: post) = Ok (Some (d, fl)) ->
  Forall (fun x => accept_datagram std id qname qtype qclass x = Ok None) pre ->
  accept_datagram std id qname qtype qclass d = Ok (Some fl).
Proof. exact leftover_accepted_only_if_matching. Qed.

(* the typed query parses exactly what the raw query received (the datagram cut to the configured
   buffer size), whatever the reusable receive buffer held from earlier queries: its result is
   record-set extraction of those bytes and no byte of an earlier response can enter it (the
   lengths handed to set_len in take_buf / query_rrset are translated leaves, both client families) *)
Theorem C16_typed_query_ignores_history : forall std old d bs ty,
  lenN old = bs ->
  typed_parse_input std old d bs = recv_into bs d /\
  from_msg (typed_parse_input std old d bs) ty = from_msg (recv_into bs d) ty.
Proof. intros std old d bs ty H. rewrite (typed_input_ignores_history std old d bs H). split; reflexivity. Qed.

(* The reusable buffer across typed queries ([tq_step], Client.v: `self.buf` as (capacity, len); the
   refusal test, the growth test, the amount reserved and the lengths handed to set_len are
   translated leaves of both client families).  From the state Client::new leaves
   (Vec::with_capacity(buffer_size)) or any later one, for EVERY history of completed, failed and
   dropped (async: future dropped mid-flight) typed queries, with any allocator slack: no query is
   refused, the `unsafe set_len` in take_buf and after the raw query is always within the capacity,
   and the raw query always receives a buffer of exactly the configured size. *)
Theorem C16_buffer_history_safe : forall std bs, 0 < bs -> forall h st, tq_inv bs st ->
  Forall (fun se => match snd se with TqDone r => r <= bs | _ => True end) h ->
  Forall (fun o => o = TqRan bs) (tq_run std bs st h).
Proof. exact tq_history_safe. Qed.

Example C16_buffer_history_example :
  tq_inv 65535 (65535, 0) /\
  tq_run false 65535 (65535, 0) [(0, TqDone 120); (7, TqDropped); (0, TqDone 300); (3, TqFailed); (0, TqDropped); (1, TqDone 65535)] =
  [TqRan 65535; TqRan 65535; TqRan 65535; TqRan 65535; TqRan 65535; TqRan 65535].
Proof. split; [apply tq_inv_new; reflexivity|vm_compute; reflexivity]. Qed.
