(* Properties/C06.v — Record-set extraction follows the CNAME chain to the right records.
   Stated over the answer headers collected by from_msg ([hs]: borrowed owner name + marker, None
   once consumed), the borrowed-name comparison NameRef::eq and the typed random-access read:
   [is_match want name h]: h is live, its owner compares equal to [name], its type is [want] and
   its class the requested one.  [chain]/[chain_ok]: from the question name, at every name that
   has no record of the requested type, follow the FIRST live CNAME header for that name and
   consume it.  from_msg IS this chase over headers that all belong to the answer section
   (C06_from_msg_is_chase); and on every message the linear pass parses completely the headers it
   chases over are EXACTLY the records of the answer section, in wire order, each with its borrowed
   owner name and its marker, starting from the question name (C06_from_msg_on_parsed_message). *)
From RsdnsModel Require Import Base GenHeader Cursor Names Labels Header RData Reader RecordSet.
From RsdnsModel.Spec Require Import LinearPass.
From RsdnsModel.Proofs Require Import CursorSafe LabelsSound Chase FromMsg NameRefEq ParseSpec.
From RsdnsModel.Spec Require Import RDataWire.
From RsdnsModel.Proofs Require ReaderRefine FromMsgRefine.
From RsdnsModel.Proofs Require Import RDataRT MessageRT EndToEnd.
Open Scope N_scope.

(* what is returned is exactly the live matching records at the end of the chain, in message
   order, never empty, with the minimum TTL *)
Theorem C06_result_is_chain_end : forall msg ty rclass r fuel qname hs name ttl data,
  chase msg fuel ty r qname rclass hs = Ok (name, ttl, data) ->
  exists hs', chain msg ty rclass r qname hs name hs' /\ data <> [] /\
    Forall2 (data_of msg ty r) (filter (is_match msg rclass ty name) hs') data /\
    ttl = fold_left N.min (map hdr_ttl (filter (is_match msg rclass ty name) hs')) 4294967295.
Proof. exact chase_sound. Qed.

(* conversely: records qualifying at the end of the chain are returned, all of them *)
Theorem C06_chain_end_is_returned : forall msg ty rclass r qname hs name hs',
  chain_ok msg ty rclass r qname hs name hs' -> cmp_ok msg name hs' ->
  forall d ds, Forall2 (data_of msg ty r) (filter (is_match msg rclass ty name) hs') (d :: ds) ->
  forall fuel, (live hs < fuel)%nat ->
  chase msg fuel ty r qname rclass hs =
  Ok (name, fold_left N.min (map hdr_ttl (filter (is_match msg rclass ty name) hs')) 4294967295, d :: ds).
Proof. exact chase_returns_matches. Qed.

(* nothing qualifies at the end of the chain (also where every CNAME loop ends): no-answer *)
Theorem C06_nothing_qualifies_is_noanswer : forall msg ty rclass r qname hs name hs',
  chain_ok msg ty rclass r qname hs name hs' -> cmp_ok msg name hs' ->
  filter (is_match msg rclass ty name) hs' = [] ->
  Forall (fun h => is_match msg rclass T_CNAME name h = false) hs' ->
  forall fuel, (live hs < fuel)%nat -> chase msg fuel ty r qname rclass hs = Err NoAnswer.
Proof. exact chase_reports_noanswer. Qed.

(* it always terminates with a value or an error value — loops included — for each of the 17
   record-data types, every message and every header list with well-formed cursors; from_msg
   gives it fuel 1 + number of headers *)
Theorem C06_always_terminates : forall msg ty rclass r,
  (forall rd, read_rdata msg ty rd <> None) -> cwf msg (r_cur r) ->
  forall fuel qname hs, cwf msg qname -> hs_wf msg hs -> (length hs < fuel)%nat ->
  defined (chase msg fuel ty r qname rclass hs).
Proof.
  intros msg ty rclass r Hty Hr fuel qname hs Hq Hw Hf. apply chase_defined; try assumption.
  pose proof (live_le_length hs). apply (PeanoNat.Nat.le_lt_trans _ (length hs)); assumption.
Qed.

(* RecordSet::from_msg returns what the chase over the collected headers returns, all of those
   headers were attributed to the ANSWER section (records of the authority and additional sections
   never contribute), the class is the question's, and the set's name is the decoded final name *)
Theorem C06_from_msg_is_chase : forall msg ty rs, from_msg msg ty = Ok rs ->
  exists r qname hs name c',
    Forall in_answer hs /\
    chase msg (S (length hs)) ty r qname (rs_class rs) hs = Ok (name, rs_ttl rs, rs_data rs) /\
    read_name msg Heap name = Ok (rs_name rs, c').
Proof. exact from_msg_is_chase. Qed.

(* what "owner equals the current name" means: for a header whose owner and the current chain name
   both decode, the match used by the chase is == on the decoded names (case-insensitive, C18),
   whatever compression either name uses, together with type and class equality *)
Theorem C06_match_is_decoded_equality : forall msg rclass want name c mk t1 t2 c1' c2',
  cwf msg c -> cwf msg name -> vis msg c = vis msg name ->
  read_name msg Heap c = Ok (t1, c1') -> read_name msg Heap name = Ok (t2, c2') ->
  is_match msg rclass want name (Some (c, mk)) = name_eq t1 t2 && ((m_rtype mk =? want) && (m_rclass mk =? rclass)).
Proof.
  intros msg rclass want name c mk t1 t2 c1' c2' H1 H2 HV E1 E2. unfold is_match.
  rewrite (nameref_eq_is_decoded_eq msg Heap c name t1 t2 c1' c2' H1 H2 HV E1 E2).
  destruct (name_eq t1 t2); reflexivity.
Qed.

(* from_msg over a message the linear pass parses completely ([parsed] with complete lists,
   Properties/C09.v; one question; a response, not truncated): the answer headers are
   [answer_headers] — for k = 0 .. an-1 the borrowed name at the offset of record k and the marker
   [mk_of] of record k (offsets, TYPE, CLASS, TTL, RDLENGTH, section) — authority and additional
   records never get in; the response code is the header nibble extended by the FIRST OPT record
   behind the answer section ([the_opt]); the result is the chase from the question name (offset 12)
   with the question's class, and the decoded final name. *)
Theorem C06_from_msg_on_parsed_message : forall msg nq an ns ar qs rs e1 e2,
  ReaderRefine.parsed msg nq an ns ar qs rs e1 e2 -> lenN qs = nq -> lenN rs = an + ns + ar ->
  forall h, read_header msg (c_new msg) = (c_set_pos (c_new msg) 12, Ok h) ->
  h_qd h = nq /\ h_an h = an /\ h_ns h = ns /\ h_ar h = ar ->
  forall ty q, nq = 1 -> getN qs 0 = Some q -> flag_qr (h_flags h) = true -> flag_tc (h_flags h) = false ->
  exists r4, whole msg (r_cur r4) /\
    from_msg msg ty =
    if negb (FromMsgRefine.the_rcode an ns ar rs h =? 0) then Err (BadResponseCode (FromMsgRefine.the_rcode an ns ar rs h)) else
    let hs := FromMsgRefine.answer_headers msg nq an ns ar qs rs e2 in
    let* (name, ttl, data) := chase msg (S (length hs)) ty r4 (c_with_pos msg 12) (a_class q) hs in
    let* (t, _) := read_name msg Heap name in
    Ok (mkRRset t (a_class q) ttl data).
Proof. exact FromMsgRefine.from_msg_spec. Qed.

(* ---- end to end, on the SEMANTIC description of a well-formed response ----
   (Proofs/MessageRT.v, Properties/C02.v: one question and records standing back to back behind a
   header that announces them; owner names in any legal compression; the answer records described by
   values of the 17 types ([typed]), authority and additional records by values or raw octets — OPT
   included; [sem_rcode]: the header nibble extended by the first OPT record behind the answers.)
   [sem_match q ty x]: the owner labels of x equal the question's labels case-insensitively, its type
   is the requested one and its class the question's.  If such records exist among the first an
   (the answer section), from_msg returns exactly their values in wire order, under the question's
   decoded name and class, with the minimum of their TTLs: other owners, types and classes, and every
   record of the authority and additional sections, stay out. *)
Theorem C06_direct_answers_end_to_end : forall msg q rs an ns ar e1 e2 h ty,
  lenN msg <= 65535 -> 12 <= lenN msg -> questions_stand msg 12 [q] e1 -> records_stand msg e1 rs e2 ->
  lenN rs = an + ns + ar -> an <= 65535 -> ns <= 65535 -> ar <= 65535 ->
  read_header msg (c_new msg) = (c_set_pos (c_new msg) 12, Ok h) ->
  h_qd h = 1 /\ h_an h = an /\ h_ns h = ns /\ h_ar h = ar ->
  flag_qr (h_flags h) = true -> flag_tc (h_flags h) = false -> Forall typed (firstn (N.to_nat an) rs) ->
  forall x xs, filter (sem_match q ty) (firstn (N.to_nat an) rs) = x :: xs -> sem_rcode rs an h = 0 ->
  from_msg msg ty =
  Ok (mkRRset (qtext q) (sq_class q) (fold_left N.min (map sr_ttl (x :: xs)) 4294967295)
              (map (fun y => sval (sr_data y)) (x :: xs))).
Proof. exact from_msg_direct_answers. Qed.

(* THE CNAME CHAIN, semantically.  [precs n e1 rs rends 0]: the first n records with their start and
   end offsets ([rstands]: the offsets between which they stand; they are determined by the message)
   and index; [smatch q want t o]: record o is live, its owner labels equal the text t
   case-insensitively, its type is [want], its class the question's.  [schain q ty pn t os pn' t' os']:
   starting at the name t (standing at offset pn) with live records os: as long as no record of the
   requested type matches the current name, follow the FIRST live CNAME record for it, consume it and
   continue at its target name.  from_msg follows exactly this chain from the question name: if
   records of the requested type match the name the chain ends at, exactly their values are returned,
   in wire order, under THAT name, with the question's class and their minimum TTL; if nothing
   matches there and no CNAME continues (also where every CNAME loop ends), the result is NoAnswer. *)
Theorem C06_follows_chain_end_to_end : forall msg q rs an ns ar e1 e2 h ty,
  lenN msg <= 65535 -> 12 <= lenN msg -> questions_stand msg 12 [q] e1 -> records_stand msg e1 rs e2 ->
  lenN rs = an + ns + ar -> an <= 65535 -> ns <= 65535 -> ar <= 65535 ->
  read_header msg (c_new msg) = (c_set_pos (c_new msg) 12, Ok h) ->
  h_qd h = 1 /\ h_an h = an /\ h_ns h = ns /\ h_ar h = ar ->
  flag_qr (h_flags h) = true -> flag_tc (h_flags h) = false -> Forall typed (firstn (N.to_nat an) rs) ->
  forall rends pn t os' x xs, rstands msg e1 rs rends ->
  schain q ty 12 (qtext q) (precs (N.to_nat an) e1 rs rends 0) pn t os' ->
  filter (smatch q ty t) os' = x :: xs -> sem_rcode rs an h = 0 ->
  from_msg msg ty = Ok (mkRRset t (sq_class q) (fold_left N.min (map pttl (x :: xs)) 4294967295) (map pval (x :: xs))).
Proof. exact from_msg_follows_chain. Qed.

Theorem C06_chain_noanswer_end_to_end : forall msg q rs an ns ar e1 e2 h ty,
  lenN msg <= 65535 -> 12 <= lenN msg -> questions_stand msg 12 [q] e1 -> records_stand msg e1 rs e2 ->
  lenN rs = an + ns + ar -> an <= 65535 -> ns <= 65535 -> ar <= 65535 ->
  read_header msg (c_new msg) = (c_set_pos (c_new msg) 12, Ok h) ->
  h_qd h = 1 /\ h_an h = an /\ h_ns h = ns /\ h_ar h = ar ->
  flag_qr (h_flags h) = true -> flag_tc (h_flags h) = false -> Forall typed (firstn (N.to_nat an) rs) ->
  forall rends pn t os', rstands msg e1 rs rends ->
  schain q ty 12 (qtext q) (precs (N.to_nat an) e1 rs rends 0) pn t os' ->
  filter (smatch q ty t) os' = [] -> Forall (fun o => smatch q T_CNAME t o = false) os' -> sem_rcode rs an h = 0 ->
  from_msg msg ty = Err NoAnswer.
Proof. exact from_msg_chain_noanswer. Qed.

(* the premises are satisfiable: "a." A? answered by a. CNAME b. and b. A 5.6.7.8 (TTL 30) *)
Example C06_chain_example :
  from_msg example_chain_msg T_A = Ok (mkRRset [x62; x2e] 1 30 [RD_A 84281096]).
Proof. exact example_chain_end_to_end. Qed.

(* the premises are satisfiable: the 35-octet response of C02_whole_message_example *)
Example C06_end_to_end_example :
  from_msg example_msg T_A = Ok (mkRRset [x61; x2e] 1 60 [RD_A 16909060]).
Proof. exact example_end_to_end. Qed.
