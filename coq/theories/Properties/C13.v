(* Properties/C13.v — Transport strategy and truncation fallback are honoured. *)
From RsdnsModel Require Import Base GenHeader Client Timed.
From RsdnsModel.Proofs Require Import ClientProofs TimedProofs TimedGeneral.
Open Scope N_scope.
(* strategies: 0 = Udp (default), 1 = Tcp, 2 = NoTcp; [udp]/[tcp] are the outcomes of the two
   exchanges, the event list says which of them were started, in order *)
Theorem C13_strategy : forall std udp tcp,
  (~ In EvTcpExchange (fst (query_raw_impl std 2 udp tcp)) /\
   forall d fl, udp = Ok (d, fl) -> snd (query_raw_impl std 2 udp tcp) = Ok d) /\
  (fst (query_raw_impl std 1 udp tcp) = [EvTcpExchange] /\ snd (query_raw_impl std 1 udp tcp) = tcp) /\
  (forall d fl, udp = Ok (d, fl) ->
     (flag_tc fl = true -> query_raw_impl std 0 udp tcp = ([EvUdpExchange; EvTcpExchange], tcp)) /\
     (flag_tc fl = false -> query_raw_impl std 0 udp tcp = ([EvUdpExchange], Ok d))).
Proof. exact strategy_honoured. Qed.

(* OVER TIME, IN EVERY WORLD (Timed.v: the whole raw query of each of the four clients, any arrivals,
   any TCP peer, any lateness and CPU time).  UDP-only strategy (2): one UDP exchange, no TCP
   exchange is ever started.  TCP-only strategy (1): no datagram is ever sent, one TCP exchange.
   Default strategy (0): the TCP exchange follows the UDP exchange exactly when the datagram the
   filter accepted has TC set; if TC is clear the caller gets that datagram, at the instant it was
   accepted; if the UDP exchange ends without an answer nothing else is started. *)
Theorem C13_strategy_over_time : forall std smol q lifetime qt jit proc buf strategy arrs srv sends ev r t,
  client_query_timed std smol q lifetime qt jit proc buf strategy arrs srv = (sends, ev, r, t) ->
  (strategy = 2 -> ev = [EvUdpExchange]) /\
  (strategy = 1 -> ev = [EvTcpExchange] /\ sends = []) /\
  (strategy = 0 -> exists r1 t1 rest1,
     exchange_of std smol q lifetime qt jit proc (deliver buf arrs) = (sends, r1, t1, rest1) /\
     match r1 with
     | Ok (d, fl) => if flag_tc fl then ev = [EvUdpExchange; EvTcpExchange] else ev = [EvUdpExchange] /\ r = Ok d /\ t = t1
     | _ => ev = [EvUdpExchange] /\ t = t1
     end).
Proof. exact strategy_over_time. Qed.
