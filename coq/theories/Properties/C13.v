(* Properties/C13.v — Transport strategy and truncation fallback are honoured. *)
From RsdnsModel Require Import Base GenHeader Client.
From RsdnsModel.Proofs Require Import ClientProofs.
Open Scope N_scope.
(* strategies: 0 = Udp (default), 1 = Tcp, 2 = NoTcp; [udp]/[tcp] are the outcomes of the two
   exchanges, the event list says which of them were started, in order *)
Theorem C13_strategy : forall std udp tcp,
  (~ In EvTcpExchange (fst (query_raw_impl std 2 udp tcp)) /\
   forall d fl, udp = Ok (d, fl) -> snd (query_raw_impl std 2 udp tcp) = Ok d) /\
  (fst (query_raw_impl std 1 udp tcp) = [EvTcpExchange] /\ snd (query_raw_impl std 1 udp tcp) = tcp) /\
  (forall d fl, udp = Ok (d, fl) ->
     (flag_tc fl = true -> query_raw_impl std 0 udp tcp = ([EvUdpExchange; EvTcpExchange], tcp)) /\
     (flag_tc fl = false -> query_raw_impl std 0 udp tcp = ([EvUdpExchange], Ok d))).
Proof. exact strategy_honoured. Qed.
