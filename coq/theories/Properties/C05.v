(* Properties/C05.v — One notion of a valid name; text and wire forms round-trip. *)
From RsdnsModel Require Import Base Cursor Names Labels.
From RsdnsModel.Spec Require Import WireName NameText.
From RsdnsModel.Proofs Require Import CursorSafe LabelsSound NameText.
Open Scope N_scope.

(* The checker shared by both parsers accepts exactly the valid name texts of Spec/NameText.v
   (labels of 1..63 letters/digits/'-'/'_' not starting or ending with '-', at most 255 octets
   on the wire, optional trailing dot, or the root "."), for every byte string. *)
Theorem C05_parse_iff_valid : forall s, check_name_bytes s = Ok tt <-> valid_text s = true.
Proof. exact check_name_valid. Qed.

(* Both name types parse exactly the valid texts, to the same spelling with the root dot added;
   everything else is an error value (never a panic of ArrayString / unchecked access). *)
Theorem C05_from_str : forall nk s,
  (valid_text s = true -> name_from_str nk s = Ok (canon_text s)) /\
  (valid_text s = false -> exists e, name_from_str nk s = Err e).
Proof. exact from_str_spec. Qed.

(* Conversely every name returned by the decoder (either name type, any message, any position,
   any compression) is a valid text name and re-parses to exactly itself. *)
Theorem C05_decoded_valid : forall msg nk nk' c t c',
  cwf msg c -> read_name msg nk c = Ok (t, c') ->
  valid_text t = true /\ name_from_str nk' t = Ok t.
Proof.
  intros msg nk nk' c t c' Hc Hr.
  destruct (read_name_sound msg nk c t c' Hc Hr) as (ls & _ & Hall & -> & Hw & _).
  assert (Hv : valid_text (join_labels (map snd ls)) = true).
  { apply join_labels_valid; [|assumption]. apply Forall_forall. intros l Hl. apply in_map_iff in Hl.
    destruct Hl as ([p l'] & <- & Hin). rewrite Forall_forall in Hall. apply (Hall _ Hin). }
  split; [assumption|].
  destruct (from_str_spec nk' (join_labels (map snd ls))) as [H _]. rewrite (H Hv). f_equal.
  (* a decoded name already ends with the root dot *)
  apply canon_join.
Qed.
