(* Properties/C05.v — One notion of a valid name; text and wire forms round-trip. *)
From RsdnsModel Require Import Base Cursor Names Labels Writer.
From RsdnsModel.Spec Require Import WireName NameText.
From RsdnsModel.Proofs Require Import CursorSafe LabelsSound NameText WriterSafe WriterLayout RoundTrip.
Open Scope N_scope.

(* The checker shared by both parsers accepts exactly the valid name texts of Spec/NameText.v
   (labels of 1..63 letters/digits/'-'/'_' not starting or ending with '-', at most 255 octets
   on the wire, optional trailing dot, or the root "."), for every byte string. *)
Theorem C05_parse_iff_valid : forall s, check_name_bytes s = Ok tt <-> valid_text s = true.
Proof. exact check_name_valid. Qed.

(* Both name types parse exactly the valid texts, to the same spelling with the root dot added;
   everything else is an error value (never a panic of ArrayString / unchecked access). *)
Theorem C05_from_str : forall nk s,
  (valid_text s = true -> name_from_str nk s = Ok (canon_text s)) /\
  (valid_text s = false -> exists e, name_from_str nk s = Err e).
Proof. exact from_str_spec. Qed.

(* Conversely every name returned by the decoder (either name type, any message, any position,
   any compression) is a valid text name and re-parses to exactly itself. *)
Theorem C05_decoded_valid : forall msg nk nk' c t c',
  cwf msg c -> read_name msg nk c = Ok (t, c') ->
  valid_text t = true /\ name_from_str nk' t = Ok t.
Proof.
  intros msg nk nk' c t c' Hc Hr.
  destruct (read_name_sound msg nk c t c' Hc Hr) as (ls & _ & Hall & -> & Hw & _).
  assert (Hv : valid_text (join_labels (map snd ls)) = true).
  { apply join_labels_valid; [|assumption]. apply Forall_forall. intros l Hl. apply in_map_iff in Hl.
    destruct Hl as ([p l'] & <- & Hin). rewrite Forall_forall in Hall. apply (Hall _ Hin). }
  split; [assumption|].
  destruct (from_str_spec nk' (join_labels (map snd ls))) as [H _]. rewrite (H Hv). f_equal.
  (* a decoded name already ends with the root dot *)
  apply canon_join.
Qed.

(* The encoder agrees with the same notion of validity and with the spec's labels: it succeeds
   only on valid texts and then writes exactly length octet + label for each label of
   [text_labels], then the root octet (the root "." is the single zero octet), nothing else. *)
Theorem C05_encoder_exact : forall w s w' n, wpos w <= wcap w ->
  write_name w s = Ok (w', n) ->
  valid_text s = true /\ written w w' (qname_wire s) /\ n = lenN (qname_wire s) /\ n <= 255.
Proof.
  intros w s w' n Hw H. destruct (write_name_refuses_invalid _ _ _ _ H) as [Hc Hn].
  destruct (write_name_layout _ _ _ _ Hw H) as [H1 H2].
  split; [apply check_name_valid; assumption|]. split; [assumption|]. split; assumption.
Qed.

(* decoding the uncompressed wire form of any valid labels, anywhere in any message, gives their
   text with the root dot and resumes right behind it *)
Theorem C05_decode_plain : forall msg nk pre ls post c,
  msg = pre ++ wire_encode ls ++ post -> cwf msg c -> pos c = lenN pre -> lenN pre + wire_len ls <= lim c ->
  Forall (fun l => label_ok l = true) ls -> wire_len ls <= 255 ->
  read_name msg nk c = Ok (join_labels ls, c_set_pos c (lenN pre + wire_len ls)).
Proof. exact read_name_plain. Qed.

(* ROUND TRIP text -> wire -> text: what the encoder wrote for a text name decodes, as Name and
   as InlineName, to the canonical spelling of that text (same bytes, root dot added if missing),
   and decoding resumes right behind the encoded name *)
Theorem C05_encode_then_decode : forall w s w' n nk,
  wpos w <= wcap w -> write_name w s = Ok (w', n) ->
  let c := mkCursor (wpos w') (wpos w) None in
  read_name (wbuf w') nk c = Ok (canon_text s, c_set_pos c (wpos w')).
Proof. exact encode_then_decode. Qed.
