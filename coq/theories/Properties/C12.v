(* Properties/C12.v — Only the matching response is accepted over UDP. *)
From RsdnsModel Require Import Base Cursor Names Labels Header Tracker RData Reader Client.
From RsdnsModel.Spec Require Import NameText.
From RsdnsModel.Proofs Require Import NameOrder ClientProofs.
Open Scope N_scope.

(* [std] selects the leaves translated from the blocking client or from the async template.
   A datagram is handed to the caller only if it parses as a message of at most 65535 octets whose
   header id equals the query's id, whose question count is exactly one, and whose question has the
   asked type and class and a name equal to the asked one (PartialEq<&str>: case-insensitive,
   root dot optional — C18); the flags returned are the datagram's. *)
Theorem C12_accept_sound : forall std id qname qtype qclass d fl,
  accept_datagram std id qname qtype qclass d = Ok (Some fl) ->
  lenN d <= 65535 /\
  exists r1 hd n, rd_header d (mkReader (c_new d) tr_default false) = (r1, Ok (OHeader hd)) /\
    h_id hd = id /\ fl = h_flags hd /\ questions_left (r_tr r1) = Ok 1 /\
    snd (rd_question d true false r1) = Ok (OQuestion n qtype qclass) /\ name_eq_str n qname = true.
Proof. exact accept_sound. Qed.

(* datagrams that do not match — too short, unparsable, wrong id, wrong/missing/extra questions —
   are skipped: the filter never yields an error *)
Theorem C12_rejects_silently : forall std id qname qtype qclass d,
  match accept_datagram std id qname qtype qclass d with Err _ => False | _ => True end.
Proof. exact accept_never_errs. Qed.

(* for every finite sequence of delivered datagrams the loop returns the FIRST accepted one,
   byte for byte, and every datagram before it was skipped *)
Theorem C12_first_match : forall std id qname qtype qclass ds d fl,
  udp_receive std id qname qtype qclass ds = Ok (Some (d, fl)) ->
  exists pre post, ds = pre ++ d :: post /\
    accept_datagram std id qname qtype qclass d = Ok (Some fl) /\
    Forall (fun x => accept_datagram std id qname qtype qclass x = Ok None) pre.
Proof. exact udp_receive_first. Qed.
Theorem C12_nothing_accepted : forall std id qname qtype qclass ds,
  udp_receive std id qname qtype qclass ds = Ok None ->
  Forall (fun x => accept_datagram std id qname qtype qclass x = Ok None) ds.
Proof. exact udp_receive_none. Qed.

(* in terms of text: the single question of an accepted datagram has the asked type and class and
   a valid name whose ASCII-case-folded text is the case-folded canonical spelling of the asked
   name (the root dot is optional in what the caller passed) *)
Theorem C12_accepted_question_is_asked : forall std id qname qtype qclass d fl,
  accept_datagram std id qname qtype qclass d = Ok (Some fl) ->
  exists r1 hd r2 n, rd_header d (mkReader (c_new d) tr_default false) = (r1, Ok (OHeader hd)) /\
    rd_question d true false r1 = (r2, Ok (OQuestion n qtype qclass)) /\
    valid_text n = true /\ fold_case n = fold_case (canon_text qname).
Proof. exact accept_name_is_asked. Qed.
