(* Properties/C12.v — Only the matching response is accepted over UDP. *)
From RsdnsModel Require Import Base Cursor Names Labels Header Tracker RData Reader Client Timed.
From RsdnsModel.Spec Require Import NameText WireName.
From RsdnsModel.Proofs Require Import NameOrder ClientProofs MessageRT AcceptComplete TimedProofs TimedGeneral.
Open Scope N_scope.

(* [std] selects the leaves translated from the blocking client or from the async template.
   A datagram is handed to the caller only if it parses as a message of at most 65535 octets whose
   header id equals the query's id, whose question count is exactly one, and whose question has the
   asked type and class and a name equal to the asked one (PartialEq<&str>: case-insensitive,
   root dot optional — C18); the flags returned are the datagram's. *)
Theorem C12_accept_sound : forall std id qname qtype qclass d fl,
  accept_datagram std id qname qtype qclass d = Ok (Some fl) ->
  lenN d <= 65535 /\
  exists r1 hd n, rd_header d (mkReader (c_new d) tr_default false) = (r1, Ok (OHeader hd)) /\
    h_id hd = id /\ fl = h_flags hd /\ questions_left (r_tr r1) = Ok 1 /\
    snd (rd_question d true false r1) = Ok (OQuestion n qtype qclass) /\ name_eq_str n qname = true.
Proof. exact accept_sound. Qed.

(* datagrams that do not match — too short, unparsable, wrong id, wrong/missing/extra questions —
   are skipped: the filter never yields an error *)
Theorem C12_rejects_silently : forall std id qname qtype qclass d,
  match accept_datagram std id qname qtype qclass d with Err _ => False | _ => True end.
Proof. exact accept_never_errs. Qed.

(* stronger: on EVERY delivered byte string the filter says accept (with the datagram's flags) or
   continue — no error, no panic, no undefined behaviour, for both client families *)
Theorem C12_filter_total : forall std id qname qtype qclass d,
  exists o, accept_datagram std id qname qtype qclass d = Ok o.
Proof. exact accept_total. Qed.

(* for every finite sequence of delivered datagrams the loop returns the FIRST accepted one,
   byte for byte, and every datagram before it was skipped *)
Theorem C12_first_match : forall std id qname qtype qclass ds d fl,
  udp_receive std id qname qtype qclass ds = Ok (Some (d, fl)) ->
  exists pre post, ds = pre ++ d :: post /\
    accept_datagram std id qname qtype qclass d = Ok (Some fl) /\
    Forall (fun x => accept_datagram std id qname qtype qclass x = Ok None) pre.
Proof. exact udp_receive_first. Qed.
Theorem C12_nothing_accepted : forall std id qname qtype qclass ds,
  udp_receive std id qname qtype qclass ds = Ok None ->
  Forall (fun x => accept_datagram std id qname qtype qclass x = Ok None) ds.
Proof. exact udp_receive_none. Qed.

(* in terms of text: the single question of an accepted datagram has the asked type and class and
   a valid name whose ASCII-case-folded text is the case-folded canonical spelling of the asked
   name (the root dot is optional in what the caller passed) *)
Theorem C12_accepted_question_is_asked : forall std id qname qtype qclass d fl,
  accept_datagram std id qname qtype qclass d = Ok (Some fl) ->
  exists r1 hd r2 n, rd_header d (mkReader (c_new d) tr_default false) = (r1, Ok (OHeader hd)) /\
    rd_question d true false r1 = (r2, Ok (OQuestion n qtype qclass)) /\
    valid_text n = true /\ fold_case n = fold_case (canon_text qname).
Proof. exact accept_name_is_asked. Qed.

(* The filter is not vacuous (the converse of C12_accept_sound on well-formed datagrams): a response
   of 12..65535 octets whose header carries the query's id and announces exactly one question, with a
   question standing behind the header ([question_stands], Proofs/MessageRT.v: a name in any legal
   spelling with labels [sq_labels q], then QTYPE and QCLASS) of the asked type and class whose
   decoded name equals the asked one (`==` against the text: case-insensitive, root dot optional),
   IS accepted, with the datagram's own flags, by the filter of both client families. *)
Theorem C12_genuine_response_accepted : forall std d q e h id qname,
  lenN d <= 65535 -> 12 <= lenN d ->
  read_header d (c_new d) = (c_set_pos (c_new d) 12, Ok h) ->
  h_qd h = 1 -> h_an h <= 65535 -> h_ns h <= 65535 -> h_ar h <= 65535 -> h_id h = id ->
  question_stands d 12 q e ->
  name_eq_str (join_labels (map snd (sq_labels q))) qname = true ->
  accept_datagram std id qname (sq_type q) (sq_class q) d = Ok (Some (h_flags h)).
Proof. exact genuine_response_accepted. Qed.

(* e.g. the 35-octet response of Proofs/MessageRT.v (id 0x1234, question "a." A IN) for the query
   ("a", A, IN) with that id — and not for another id, name, type or class *)
Example C12_filter_example :
  accept_datagram true 4660 [x61] 1 1 example_msg = Ok (Some 33152) /\
  accept_datagram false 4660 [x41; x2e] 1 1 example_msg = Ok (Some 33152) /\
  accept_datagram true 4661 [x61] 1 1 example_msg = Ok None /\
  accept_datagram true 4660 [x62] 1 1 example_msg = Ok None /\
  accept_datagram true 4660 [x61] 28 1 example_msg = Ok None /\
  accept_datagram false 4660 [x61] 1 3 example_msg = Ok None.
Proof. vm_compute. repeat split. Qed.

(* OVER TIME, IN EVERY WORLD (Timed.v: any arrivals in any order, any lateness of timers, any CPU
   time; all four clients): what a UDP exchange returns is a datagram of the socket queue that the
   filter accepts, with its flags, byte for byte; every datagram in front of it in the queue was
   rejected (and skipped without failing the query); what stood behind it is left in the queue *)
Theorem C12_first_match_over_time : forall std smol q lifetime qt jit proc queue s d fl t rest,
  exchange_of std smol q lifetime qt jit proc queue = (s, Ok (d, fl), t, rest) ->
  exists pre ta, queue = pre ++ (ta, d) :: rest /\ Forall (rejected_by std q) pre /\ filter_of std q d = Ok (Some fl).
Proof. exact exchange_first_match. Qed.
