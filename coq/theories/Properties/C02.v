(* Properties/C02.v — Well-formed messages decode to exactly what they encode.
   Proved here: the header fields are the six big-endian words; all flag / opcode / rcode
   accessors are the RFC 1035 bit fields (finite sweep over all 65536 words, lifted); the OPT
   fields are the RFC 6891 split of CLASS/TTL for every 32-bit TTL; a record in the uncompressed
   wire layout (owner name, TYPE, CLASS, TTL, RDLENGTH, A address) decodes to exactly its fields
   wherever it lies; the RECORD DATA of all 17 supported types round-trips: the typed decoder
   applied to the uncompressed RFC wire form (code-blind Spec/RDataWire.v) of any encodable value
   returns exactly that value; a whole record with its owner compressed in any legal way decodes to
   its labels, fields and value.  WHOLE MESSAGES: if questions and records (described semantically:
   labels of a name standing there in any legal compression, fields, an encodable value) stand
   back to back behind the header and the header announces them, the code-blind linear pass finds
   exactly them ([parsed], Properties/C09.v) — so every allowed call sequence of the reader returns
   exactly these items in wire order and nothing else (C09_reader_refines and the flavour theorems),
   and the typed decode at each record is its value.  NAMES COMPRESSED INSIDE RECORD DATA (NS MD MF
   CNAME MB MG MR PTR, MX, MINFO, SOA): written in any way that has a legal expansion inside the
   RDLENGTH window, they decode to exactly the expanded labels.  OPT/unknown-type data and the
   three compression engines of the generator are decided by the roundtrip stream (AST -> several
   compression engines -> reader and iterator -> field-by-field comparison); DESIGN.md §5 C02. *)
From Coq Require Import ZArith Lia.
From RsdnsModel Require Import Base GenConst GenCursor GenHeader GenReader GenSpec Cursor Names Labels Header Tracker RData Reader Writer.
From RsdnsModel.Spec Require Import WireName LinearPass RDataWire.
From RsdnsModel.Proofs Require Import CursorSafe ListN Bits WriterLayout RecordRT RDataRT ParseSpec RecordFull TrackerRefine ReaderRefine MessageRT RDataCompressed EndToEnd FieldLeaves.
Open Scope N_scope.

Definition be16 (msg : list byte) (off : N) : N := be_val (subN msg off 2) 0.

Lemma be_unchecked_step msg c : pos c + 2 <= lim c -> lim c <= lenN msg ->
  lift (fun c => c_be_unchecked msg c 2) c = (c_set_pos c (pos c + 2), Ok (be16 msg (pos c))).
Proof.
  intros H1 H2. unfold lift, c_be_unchecked, c_len. rewrite cursor_len_spec.
  destruct (ru_be_assert (lim c - pos c) 2) eqn:E; [|unfold ru_be_assert in E; lia].
  destruct ((pos c + 2 <=? lim c) && (lim c <=? lenN msg)) eqn:E2; [reflexivity|lia].
Qed.

Theorem C02_header_fields : forall msg, 12 <= lenN msg ->
  read_header msg (c_new msg) =
  (c_set_pos (c_new msg) 12,
   Ok (mkHeader (be16 msg 0) (be16 msg 2) (be16 msg 4) (be16 msg 6) (be16 msg 8) (be16 msg 10))).
Proof.
  intros msg H. unfold read_header, c_len. cbn [lim pos c_new].
  unfold header_read_guard. rewrite HEADER_LENGTH_spec, cursor_len_spec.
  destruct (12 <=? lenN msg - 0) eqn:E; [|lia].
  unfold mbind, mret.
  rewrite be_unchecked_step by (cbn; lia). cbn [c_set_pos c_new lim pos orig].
  rewrite be_unchecked_step by (cbn; lia). cbn [c_set_pos lim pos orig].
  rewrite be_unchecked_step by (cbn; lia). cbn [c_set_pos lim pos orig].
  rewrite be_unchecked_step by (cbn; lia). cbn [c_set_pos lim pos orig].
  rewrite be_unchecked_step by (cbn; lia). cbn [c_set_pos lim pos orig].
  rewrite be_unchecked_step by (cbn; lia). cbn [c_set_pos lim pos orig].
  reflexivity.
Qed.

Theorem C02_flags : forall w, w < 65536 ->
  flag_qr w = N.testbit w 15 /\ flag_opcode w = (w / 2048) mod 16 /\ flag_aa w = N.testbit w 10 /\
  flag_tc w = N.testbit w 9 /\ flag_rd w = N.testbit w 8 /\ flag_ra w = N.testbit w 7 /\ flag_rcode w = w mod 16.
Proof. exact flags_rfc. Qed.

Theorem C02_opt_fields : forall ttl, ttl < 2 ^ 32 ->
  opt_rcode_extension ttl = ttl / 2 ^ 24 /\ opt_version ttl = (ttl / 2 ^ 16) mod 256 /\ opt_flags ttl = ttl mod 65536.
Proof. exact opt_fields_rfc. Qed.

Theorem C02_opt_do : forall f, opt_dnssec_ok f = N.testbit f 15.
Proof. exact opt_do_rfc. Qed.

(* encode -> decode for a whole record in the uncompressed layout, anywhere in any message:
   [wire_encode ls] is the owner name (length-prefixed labels + root octet), [fixed_wire] the
   big-endian TYPE CLASS TTL RDLENGTH, then the 4 address octets.  Decoding the owner (either name
   type), the fixed part and the typed data returns exactly ls (as text), class, TTL, RDLENGTH 4 and
   the address, and ends right behind the record. *)
Theorem C02_a_record_roundtrip_plain : forall msg pre ls cl ttl addr post nk c p s,
  msg = pre ++ wire_encode ls ++ fixed_wire T_A cl ttl 4 ++ be_bytes 4 addr ++ post ->
  cwf msg c -> orig c = None -> pos c = lenN pre -> lim c = lenN msg ->
  Forall (fun l => label_ok l = true) ls -> wire_len ls <= 255 ->
  cl < 65536 -> ttl < 4294967296 -> addr < 4294967296 ->
  exists c1 c2 mk m,
    read_name msg nk c = Ok (join_labels ls, c1) /\
    m_raw_marker msg p s c1 = (c2, Ok mk) /\
    m_rtype mk = T_A /\ m_rclass mk = cl /\ m_ttl mk = ttl /\ m_rdlen mk = 4 /\ m_section mk = s /\
    read_rdata msg T_A (m_rdlen mk) = Some m /\ snd (m c2) = Ok (RD_A addr) /\
    pos (fst (m c2)) = lenN pre + wire_len ls + 10 + 4.
Proof. exact a_record_plain. Qed.

(* the fixed part of any record header decodes to the four big-endian fields that were written *)
Theorem C02_fixed_part_roundtrip : forall msg pre post c p s ty cl ttl rdlen,
  msg = pre ++ fixed_wire ty cl ttl rdlen ++ post -> cwf msg c -> pos c = lenN pre -> lenN pre + 10 <= lim c ->
  ty < 65536 -> cl < 65536 -> ttl < 4294967296 -> rdlen < 65536 ->
  m_raw_marker msg p s c = (c_set_pos c (lenN pre + 10), Ok (mkMarker p (lenN pre) ty cl ttl rdlen s)).
Proof. exact raw_marker_plain. Qed.

(* encode -> decode for the record data of ALL 17 supported types (A, NS, MD, MF, CNAME, SOA, MB, MG,
   MR, NULL, WKS, PTR, HINFO, MINFO, MX, TXT, AAAA): for every encodable value [a] (field widths,
   valid names of at most 255 octets, character-strings of at most 255 octets), wherever its RFC
   wire form [rdata_enc a] lies in a message, the typed decoder with RDLENGTH = its length returns
   exactly [rdata_val a] and stops right behind it ([consumesW]) *)
Theorem C02_rdata_roundtrip_all_types : forall msg ty a,
  rdata_type_ok ty a = true -> ardata_ok a = true ->
  exists m, read_rdata msg ty (lenN (rdata_enc a)) = Some m /\ consumesW msg m (rdata_enc a) (rdata_val a).
Proof. exact rdata_roundtrip. Qed.

(* A WHOLE RECORD whose owner name is compressed in any legal way: if the owner at the cursor has a
   legal expansion [ls] (C03's relation; resume offset r) and is followed at r by the fixed part and
   the uncompressed record data of any encodable value of any of the 17 types, then decoding the
   owner (either name type), the header and the typed data yields exactly the labels, TYPE, CLASS,
   TTL, RDLENGTH and the value, and stops right behind the record *)
Theorem C02_record_roundtrip : forall msg nk c ls r pre post ty cl ttl a p s,
  whole msg c -> expands msg None 0 (pos c) ls -> resume_at msg (pos c) r ->
  Forall (fun l => label_ok (snd l) = true) ls -> wire_len (map snd ls) <= 255 ->
  msg = pre ++ fixed_wire ty cl ttl (lenN (rdata_enc a)) ++ rdata_enc a ++ post -> lenN pre = r ->
  rdata_type_ok ty a = true -> ardata_ok a = true ->
  ty < 65536 -> cl < 65536 -> ttl < 4294967296 -> lenN (rdata_enc a) < 65536 ->
  exists c1 c2 c3 mk m,
    read_name msg nk c = Ok (join_labels (map snd ls), c1) /\
    m_raw_marker msg p s c1 = (c2, Ok mk) /\
    m_rtype mk = ty /\ m_rclass mk = cl /\ m_ttl mk = ttl /\ m_rdlen mk = lenN (rdata_enc a) /\ m_section mk = s /\
    read_rdata msg ty (m_rdlen mk) = Some m /\ m c2 = (c3, Ok (rdata_val a)) /\
    pos c3 = r + 10 + lenN (rdata_enc a).
Proof. exact record_roundtrip. Qed.

(* ---- whole messages ----
   [question_stands msg p q e] / [record_stands msg p x e] (Proofs/MessageRT.v): at offset p stands
   a name with a legal expansion into the labels of q / x (any legal compression, valid labels,
   at most 255 octets) followed where it resumes by QTYPE QCLASS / by TYPE CLASS TTL RDLENGTH and
   the data — the RFC wire form of a value of one of the 17 typed formats ([SVal]) or any octets
   at all ([SRaw]: OPT records, unknown types); e is the offset behind it.  The item the code-blind pass finds
   there carries exactly these fields and offsets, with its data inside the message. *)
Theorem C02_standing_items : forall msg,
  (forall p q e, question_stands msg p q e -> question_at msg p = Some (qitem p q e)) /\
  (forall p x e, record_stands msg p x e -> record_at msg p = Some (ritem p x e)).
Proof. intro msg. split; [exact (question_at_of msg)|exact (record_at_of msg)]. Qed.

(* a message of 12..65535 octets whose header counts are those of the questions and records that
   stand in it back to back is parsed completely, into exactly those items ([qstands]/[rstands]: each
   item of the lists is the item of the question / record standing between consecutive offsets) *)
Theorem C02_whole_message_parsed : forall msg nq an ns ar (qs : list squestion) (rs : list srecord) e1 e2,
  lenN msg <= 65535 -> 12 <= lenN msg ->
  questions_stand msg 12 qs e1 -> records_stand msg e1 rs e2 ->
  lenN qs = nq -> lenN rs = an + ns + ar -> nq <= 65535 -> an <= 65535 -> ns <= 65535 -> ar <= 65535 ->
  exists qends rends,
    parsed msg nq an ns ar (qitems 12 qs qends) (ritems e1 rs rends) e1 e2 /\
    lenN (qitems 12 qs qends) = nq /\ lenN (ritems e1 rs rends) = an + ns + ar /\
    qstands msg 12 qs qends /\ rstands msg e1 rs rends.
Proof. exact message_parsed. Qed.

(* and the typed decoder run at the data offset of a standing record returns its value and stops
   at the end of the record *)
Theorem C02_standing_record_decodes : forall msg p x e c a,
  record_stands msg p x e -> sr_data x = SVal a -> whole msg c -> pos c = a_type_off (ritem p x e) + 10 ->
  exists m, read_rdata msg (sr_type x) (a_rdlen (ritem p x e)) = Some m /\
            m c = (c_set_pos c e, Ok (rdata_val a)).
Proof. exact standing_record_decodes. Qed.

(* every kind of record — OPT, types without a typed decoder, anything ([SRaw]) as well as the 17
   typed formats — has exactly its data octets at the item's data offset: what record_data_bytes /
   record_data_bytes_at return (C09_record_data_flavours, C04_raw), and for an OPT header what
   opt_record derives from CLASS and TTL (C02_opt_fields) *)
Theorem C02_standing_record_bytes : forall msg p x e, record_stands msg p x e ->
  subN msg (a_type_off (ritem p x e) + 10) (a_rdlen (ritem p x e)) = sdata_enc (sr_data x).
Proof. exact standing_record_bytes. Qed.

(* the premises are satisfiable: a 35-octet response with one question and one answer whose owner
   is a compression pointer to the question name *)
Example C02_whole_message_example :
  let q := mkSQ [(12, [x61])] 1 1 in
  let x := mkSR [(12, [x61])] 1 1 60 (SVal (A_A 16909060)) in
  questions_stand example_msg 12 [q] 19 /\ records_stand example_msg 19 [x] 35 /\ lenN example_msg = 35.
Proof. exact example_stands. Qed.

(* ---- the cursor-style reader, record by record, on the semantic description ----
   For a message of questions and records standing back to back behind a header that announces them:
   it is parsed completely into the items of exactly these records, and in the represented state of
   the reader at record k (C09: reached by every allowed call sequence) the call
   record_header::<InlineName>() returns the text of the record's owner labels and a marker carrying
   its offset, TYPE, CLASS, TTL, RDLENGTH and section (by counting), the typed record_data::<D>() then
   returns exactly the record's value, and the reader represents the state at record k+1. *)
Theorem C02_reader_record_end_to_end : forall msg qs rs nq an ns ar e1 e2,
  lenN msg <= 65535 -> 12 <= lenN msg -> questions_stand msg 12 qs e1 -> records_stand msg e1 rs e2 ->
  lenN qs = nq -> lenN rs = an + ns + ar -> nq <= 65535 -> an <= 65535 -> ns <= 65535 -> ar <= 65535 ->
  exists qends rends,
    parsed msg nq an ns ar (qitems 12 qs qends) (ritems e1 rs rends) e1 e2 /\ rstands msg e1 rs rends /\
    forall k p x e a r hw,
      getN (ritems e1 rs rends) k = Some (ritem p x e) -> record_stands msg p x e -> sr_data x = SVal a ->
      RState msg nq an ns ar (qitems 12 qs qends) (ritems e1 rs rends) e2 r (nq + k) hw ->
      exists r1 mk r2,
        rd_header_n msg Inline r = (r1, Ok (OHeaderN (text_of_labels (sr_labels x)) mk)) /\
        m_off mk = p /\ m_rtype mk = sr_type x /\ m_rclass mk = sr_class x /\ m_ttl mk = sr_ttl x /\
        m_rdlen mk = lenN (rdata_enc a) /\ m_section mk = section_of (lin nq an ns ar) k /\
        rd_data msg (sr_type x) mk r1 = (r2, Ok (ORData (rdata_val a))) /\
        RState msg nq an ns ar (qitems 12 qs qends) (ritems e1 rs rends) e2 r2 (nq + k + 1) (N.max hw (nq + k + 1)).
Proof. exact reader_record_end_to_end. Qed.

(* ---- names compressed inside record data ----
   [name_in msg L p ls r] (Proofs/RDataCompressed.v): within the first L octets of the message (the
   end of the RDLENGTH window) a name stands at p with a legal expansion into labels ls — labels in
   place, a pointer into the earlier message, or a mix — valid labels, at most 255 octets, resuming
   at r.  For a cursor at the record data (pos p, no window open, p + rd inside its limit): *)
Theorem C02_rdata_compressed_names : forall msg c p rd,
  cwf msg c -> orig c = None -> pos c = p -> p + rd <= lim c ->
  (forall ty ls, is_name_type ty = true -> name_in msg (p + rd) p ls (p + rd) ->
     exists m, read_rdata msg ty rd = Some m /\ m c = (c_set_pos c (p + rd), Ok (RD_Name ty (join_labels (map snd ls))))) /\
  (forall pref ls, pref < 65536 -> 2 <= rd -> subN msg p 2 = be_bytes 2 pref -> name_in msg (p + rd) (p + 2) ls (p + rd) ->
     exists m, read_rdata msg T_MX rd = Some m /\ m c = (c_set_pos c (p + rd), Ok (RD_Mx pref (join_labels (map snd ls))))) /\
  (forall ls1 ls2 r1, name_in msg (p + rd) p ls1 r1 -> name_in msg (p + rd) r1 ls2 (p + rd) ->
     exists m, read_rdata msg T_MINFO rd = Some m /\
               m c = (c_set_pos c (p + rd), Ok (RD_Minfo (join_labels (map snd ls1)) (join_labels (map snd ls2))))) /\
  (forall ls1 ls2 r1 r2 s rf rt ex mi,
     name_in msg (p + rd) p ls1 r1 -> name_in msg (p + rd) r1 ls2 r2 -> r2 + 20 = p + rd ->
     s < 4294967296 -> rf < 4294967296 -> rt < 4294967296 -> ex < 4294967296 -> mi < 4294967296 ->
     subN msg r2 4 = be_bytes 4 s -> subN msg (r2 + 4) 4 = be_bytes 4 rf -> subN msg (r2 + 8) 4 = be_bytes 4 rt ->
     subN msg (r2 + 12) 4 = be_bytes 4 ex -> subN msg (r2 + 16) 4 = be_bytes 4 mi ->
     exists m, read_rdata msg T_SOA rd = Some m /\
               m c = (c_set_pos c (p + rd), Ok (RD_Soa (join_labels (map snd ls1)) (join_labels (map snd ls2)) s rf rt ex mi))).
Proof.
  intros msg c p rd Hc Ho Hp Hl.
  split; [intros; apply (name_rdata_compressed msg c p rd); assumption|].
  split; [intros; apply (mx_rdata_compressed msg c p rd); assumption|].
  split; [intros ls1 ls2 r1 H1 H2; apply (minfo_rdata_compressed msg c p rd Hc Ho Hp Hl ls1 ls2 r1); assumption|].
  intros ls1 ls2 r1 r2 s rf rt ex mi. apply (soa_rdata_compressed msg c p rd Hc Ho Hp Hl).
Qed.

(* the premises are satisfiable: CNAME data "b" + pointer to the question name "a." decodes to "b.a." *)
Example C02_rdata_compressed_example :
  name_in example_cname_msg 35 31 [(31, [x62]); (12, [x61])] 35 /\
  exists m, read_rdata example_cname_msg T_CNAME 4 = Some m /\
            m (c_with_pos example_cname_msg 31) = (c_with_pos example_cname_msg 35, Ok (RD_Name T_CNAME [x62; x2e; x61; x2e])).
Proof. exact example_cname. Qed.

(* TYPE, CLASS, TTL and RDLENGTH of a record are the big-endian words of the message, unchanged, in
   raw_marker_impl and in the iterator's read_impl (expressions re-translated from the source each run) *)
Theorem C02_fields_are_the_words_read : forall w,
  (marker_field_type w = w /\ marker_field_class w = w /\ marker_field_ttl w = w /\ marker_field_rdlen w = w) /\
  (iter_field_type w = w /\ iter_field_class w = w /\ iter_field_ttl w = w /\ iter_field_rdlen w = w).
Proof. exact fields_are_the_words_read. Qed.
