(* Properties/C19.v — Clients and the futures they return can cross threads (partial; level
   "other").  What Rocq carries is the *declared* data: the field types of the client structs
   and the parameter types of the async methods, re-extracted from the sources on every run
   (GenSend.v), checked against the structural auto-trait rules (SendRules.v).  Locals with
   inferred types held across an .await and the coroutine witness built by rustc are not
   available to a translator: they are covered by compiling static Send/Sync assertions against
   the current tree for each runtime (harness/send_assert), the implementation side of the tie.
   The leaf entries "ClientConfig", "ClientImpl"/"Self" of the table are justified by the first
   three theorems; MsgBuf = ArrayVec<u8, N> and the socket types are trusted leaves. *)
From RsdnsModel Require Import SendRules GenSend.

Theorem C19_config_send_sync : is_send_sync ClientConfig_fields = true.
Proof. vm_compute. reflexivity. Qed.
Theorem C19_std_client_send_sync : is_send_sync std_ClientImpl = true /\ is_send_sync Client_wrapper = true.
Proof. vm_compute. split; reflexivity. Qed.
Theorem C19_async_client_send_sync : is_send_sync async_ClientImpl = true.
Proof. vm_compute. reflexivity. Qed.
(* the declared captures of the futures: the context struct and the arguments of each async fn *)
Theorem C19_declared_captures_send :
  is_send async_ClientCtx = true /\ is_send std_ClientCtx = true /\
  is_send async_query_raw_params = true /\ is_send async_query_rrset_params = true /\ is_send async_new_params = true.
Proof. vm_compute. repeat split; reflexivity. Qed.
(* the rules do reject what they should: the pre-0.19 design (RefCell buffer) is Send, not Sync *)
Example C19_rules_reject_refcell :
  is_send_sync [("buf", App "RefCell" [App "Vec" [Leaf "u8"]])] = false /\
  is_send [("buf", App "RefCell" [App "Vec" [Leaf "u8"]])] = true /\
  is_send [("rng", Leaf "ThreadRng")] = false.
Proof. vm_compute. repeat split; reflexivity. Qed.
