(* Properties/C11_time.v — C11 on the clients over time (secondary closure of C11: it needs the
   client model of Timed.v / TimedApi.v besides the query writer; when a leaf OUTSIDE C11's own
   areas — a client leaf — changes or stops translating, the check of C11 notes that these theorems
   were not re-checked instead of raising an alarm; see tools/check.py, DESIGN.md 12.5). *)
From RsdnsModel Require Import Base Names Writer Client Timed TimedApi.
From RsdnsModel.Spec Require Import NameText.
From RsdnsModel.Proofs Require Import WriterSafe WriterLayout TimedProofs TimedCalls.
Open Scope N_scope.

(* THE WHOLE CALL OVER TIME (TimedApi.v: client_call_timed = ClientImpl::query_raw of each of the four
   clients; any arrivals, any TCP peer, any lateness).  A caller buffer shorter than 512 octets or a
   name that is not a valid text name ends the call with an error BEFORE ANYTHING IS SENT: no
   datagram, no TCP connection, no time passes. *)
Theorem C11_refused_sends_nothing : forall std smol q cfg jit proc buf arrs srv wire ev r t,
  client_call_timed std smol q cfg jit proc buf arrs srv = (wire, ev, r, t) ->
  buf < 512 \/ valid_text (tq_name q) = false ->
  wire = ([], None) /\ ev = [] /\ t = tq_start q /\ match r with Ok _ => False | _ => True end.
Proof. exact call_refused_sends_nothing. Qed.

(* Otherwise the message is prepared once, and EVERY datagram the client sends — the first
   transmission and every retransmission, at whatever instants — is exactly the RFC 1035/6891 query
   message for what was asked (the query's id, RD as configured, one question, OPT iff EDNS is on,
   with min(configured payload size, buffer length)); a TCP exchange (TCP-only strategy, or the
   fallback after a truncated answer) writes that same message behind its exact 2-octet length. *)
Theorem C11_wire_is_the_query : forall std smol q cfg jit proc buf arrs srv dgrams tcp ev r t,
  client_call_timed std smol q cfg jit proc buf arrs srv = ((dgrams, tcp), ev, r, t) ->
  512 <= buf -> valid_text (tq_name q) = true \/ dgrams <> [] \/ tcp <> None ->
  let opt := match cc_edns cfg with Some (ver, ups) => Some (ver, (N.min ups buf) mod 65536) | None => None end in
  let m := query_message (tq_id q) (tq_name q) (tq_type q) (tq_class q) (cc_rd cfg) opt in
  Forall (fun d => snd d = m) dgrams /\
  (forall b, tcp = Some b -> b = be_bytes 2 (lenN m mod 65536) ++ m) /\
  (tcp <> None <-> In EvTcpExchange ev).
Proof. exact call_wire_is_the_query. Qed.

(* ALL FOUR CLIENTS EMIT THE SAME BYTES — over time, in every world (exact timers): the whole query_raw
   call of the blocking client and of the async clients on each runtime put the same datagrams on the
   wire at the same instants, write the same bytes to TCP, and return the same result at the same instant *)
Theorem C11_all_clients_same_over_time : forall smol smol' q cfg buf arrs srv,
  qt_pos (cc_qt cfg) -> 0 < cc_lifetime cfg ->
  client_call_timed true smol q cfg zero_jit zero_jit buf arrs srv =
  client_call_timed false smol' q cfg zero_jit zero_jit buf arrs srv.
Proof. exact call_all_clients_same. Qed.
