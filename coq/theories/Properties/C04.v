(* Properties/C04.v — Record data is decoded strictly inside its RDLENGTH. *)
From RsdnsModel Require Import Base Cursor Names Labels RData Header Tracker Reader.
From RsdnsModel.Proofs Require Import CursorSafe ListN Window.
Open Scope N_scope.

(* Success of any of the 17 typed decoders consumes exactly RDLENGTH octets (so the next record is
   read from the byte that follows them) and leaves the cursor on the whole buffer again; a
   decoder can only succeed if the window fits the buffer.  Fields that need more (EndOfWindow),
   bytes left unused (CursorWindowError) and straddling names/strings are therefore errors. *)
Theorem C04_exact : forall msg ty rd m c c' d,
  read_rdata msg ty rd = Some m -> cwf msg c -> m c = (c', Ok d) ->
  orig c = None /\ pos c' = pos c + rd /\ lim c' = lim c /\ orig c' = None /\ pos c + rd <= lim c.
Proof. exact read_rdata_exact. Qed.

(* No byte at or after the end of the record data can influence the decoded value, the error, or
   the resulting cursor: two messages (of equal length) that agree up to pos+RDLENGTH give
   identical outcomes for every type, on success and on every error path. *)
Theorem C04_noninterference : forall L m1 m2, agree L m1 m2 -> forall ty rd c, pos c + rd <= L ->
  match read_rdata m1 ty rd, read_rdata m2 ty rd with
  | Some f1, Some f2 => f1 c = f2 c
  | None, None => True
  | _, _ => False
  end.
Proof. exact read_rdata_local. Qed.

(* Raw access (record_data_bytes / record_data_bytes_at are cursor.slice(rdlen)) returns exactly the
   RDLENGTH octets at the data position and advances by exactly that much. *)
Theorem C04_raw : forall msg c n off bs c',
  c_slice msg c n = Ok (off, bs, c') ->
  off = pos c /\ bs = subN msg (pos c) n /\ lenN bs = n /\ pos c' = pos c + n /\ pos c + n <= lim c.
Proof.
  intros msg c n off bs c' E. apply c_slice_ok in E. destruct E as (-> & H1 & H2 & -> & ->).
  repeat split; try assumption. apply lenN_subN. lia.
Qed.
