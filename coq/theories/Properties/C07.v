(* Properties/C07.v — Non-answers are never turned into answers. *)
From Coq Require Import ZArith Lia.
From RsdnsModel Require Import Base GenHeader Cursor Names Labels Header Tracker RData Reader RecordSet.
From RsdnsModel.Spec Require Import LinearPass.
From RsdnsModel.Proofs Require Import Gates ReaderRefine FromMsgRefine MessageRT EndToEnd.
Open Scope N_scope.

(* For ALL byte strings (no well-formedness assumed) and all 17 record-data types: a returned
   record set implies a message of at most 65535 octets whose header says response (QR=1), not
   truncated (TC=0), exactly one question, RCODE nibble 0 — and (inside the proof) a zero
   extended-RCODE octet of the first OPT record found after the answer section. *)
Theorem C07_gates_sound : forall msg ty rs,
  from_msg msg ty = Ok rs ->
  lenN msg <= 65535 /\
  exists hd, snd (read_header msg (c_new msg)) = Ok hd /\
    flag_qr (h_flags hd) = true /\ flag_tc (h_flags hd) = false /\ h_qd hd = 1 /\
    flag_rcode (h_flags hd) = 0.
Proof. exact gates_sound. Qed.

(* Each non-answer is reported by its specific error carrying the offending value, checked in the
   order message type, truncation, question count. *)
Theorem C07_gate_errors : forall msg ty hd c1,
  lenN msg <= 65535 -> read_header msg (c_new msg) = (c1, Ok hd) ->
  (flag_qr (h_flags hd) = false -> from_msg msg ty = Err (BadMessageType false)) /\
  (flag_qr (h_flags hd) = true -> flag_tc (h_flags hd) = true -> from_msg msg ty = Err MessageTruncated) /\
  (flag_qr (h_flags hd) = true -> flag_tc (h_flags hd) = false -> h_qd hd <> 1 ->
   from_msg msg ty = Err (BadQuestionsCount (h_qd hd))).
Proof. exact gate_errors. Qed.

(* the 12-bit response code combines the header nibble with the OPT extension octet
   (finite sweep over all 16 x 256 combinations, lifted) *)
Definition rangeN (k : nat) : list N := map N.of_nat (seq 0 k).
Lemma rangeN_complete k n : n < N.of_nat k -> In n (rangeN k).
Proof.
  intro H. unfold rangeN. apply in_map_iff. exists (N.to_nat n). split; [apply N2Nat.id|].
  apply in_seq. lia.
Qed.
Theorem C07_extended_rcode : forall base ext, base < 16 -> ext < 256 ->
  rcode_extended base ext = base + 16 * ext.
Proof.
  intros base ext Hb He.
  assert (H : forallb (fun b => forallb (fun e => rcode_extended b e =? b + 16 * e) (rangeN 256)) (rangeN 16) = true)
    by (vm_compute; reflexivity).
  rewrite forallb_forall in H. specialize (H base (rangeN_complete 16 base Hb)).
  rewrite forallb_forall in H. specialize (H ext (rangeN_complete 256 ext He)).
  apply N.eqb_eq. exact H.
Qed.

(* The response-code gate with the OPT record identified: on a message the linear pass parses
   completely (one question, a response, not truncated) the code checked is the header nibble
   extended by the extension octet of the FIRST record of type OPT behind the answer section
   ([the_opt]: authority and additional sections, any position; none: the nibble alone).  If it is
   not 0 the result is BadResponseCode with exactly that 12-bit value; a returned set implies 0. *)
Theorem C07_rcode_gate : forall msg nq an ns ar qs rs e1 e2,
  parsed msg nq an ns ar qs rs e1 e2 -> lenN qs = nq -> lenN rs = an + ns + ar ->
  forall h, read_header msg (c_new msg) = (c_set_pos (c_new msg) 12, Ok h) ->
  h_qd h = nq /\ h_an h = an /\ h_ns h = ns /\ h_ar h = ar ->
  forall ty q, nq = 1 -> getN qs 0 = Some q -> flag_qr (h_flags h) = true -> flag_tc (h_flags h) = false ->
  (the_rcode an ns ar rs h <> 0 -> from_msg msg ty = Err (BadResponseCode (the_rcode an ns ar rs h))) /\
  (forall s, from_msg msg ty = Ok s -> the_rcode an ns ar rs h = 0).
Proof. exact from_msg_rcode_gate. Qed.

(* ---- end to end, on the semantic description of a response (Proofs/MessageRT.v, EndToEnd.v) ----
   One question and records standing back to back behind a header that announces them, a response,
   not truncated.  [sem_rcode rs an h]: the header's RCODE nibble, extended by the extension octet in
   the TTL of the FIRST record of type OPT among the records behind the answer section (authority and
   additional, any position; raw records of any other type in between do not matter).  If it is not
   NOERROR, from_msg reports BadResponseCode with exactly that 12-bit value — whatever the answer
   section holds. *)
Theorem C07_rcode_gate_end_to_end : forall msg q rs an ns ar e1 e2 h ty,
  lenN msg <= 65535 -> 12 <= lenN msg -> questions_stand msg 12 [q] e1 -> records_stand msg e1 rs e2 ->
  lenN rs = an + ns + ar -> an <= 65535 -> ns <= 65535 -> ar <= 65535 ->
  read_header msg (c_new msg) = (c_set_pos (c_new msg) 12, Ok h) ->
  h_qd h = 1 /\ h_an h = an /\ h_ns h = ns /\ h_ar h = ar ->
  flag_qr (h_flags h) = true -> flag_tc (h_flags h) = false ->
  sem_rcode rs an h <> 0 -> from_msg msg ty = Err (BadResponseCode (sem_rcode rs an h)).
Proof. exact from_msg_rcode_gate_sem. Qed.

(* e.g. header RCODE 0, no answers, an OPT record in the additional section with extension octet 1:
   BADVERS (16) *)
Example C07_rcode_gate_example : from_msg example_opt_msg T_A = Err (BadResponseCode 16).
Proof. exact example_rcode_gate. Qed.
