(* Properties/C01.v — Hostile bytes never crash, hang or over-read the decoder.
   What is proved so far (see DESIGN.md §5 C01 for the part still carried by the streams):
   * the name walker — the only place where compression pointers could loop — returns a value or
     an error for every byte string and every start position, within 34*(|buf|+2) iterations;
   * NO call of ANY script (conforming or not) over any messages reaches an out-of-bounds access;
   * every cursor primitive returns a value or an error on every well-formed cursor;
   * each of the 17 typed RDATA decoders, label iteration over a borrowed name and NameRef::eq return
     a value or an error value for every byte string, RDLENGTH and position: no arithmetic panic
     (WKS `rd_len - 5`, TXT `rd_len -= len + 1`), no debug assertion, the loops terminate;
   * the cursor-style reader used as documented (header first on a fresh reader; a data call gets the
     marker of the preceding header call) is TOTAL on every message: every call returns a value or
     an error value — no panic in the u16 section counters, no debug assertion, no exhausted loop,
     no UB — and re-establishes the invariant the next call needs;
   * RecordSet::<D>::from_msg, the driver the clients hand every received message to, returns a set
     or an error value for EVERY byte string and each of the 17 record-data types: its two collecting
     loops end (each iteration consumes at least 11 octets), every reader call it makes is within the
     documented protocol, the CNAME chase ends although CNAME records may form a loop;
   * the iterator API — MessageIterator::new, questions() and records() drained to the end — returns
     values or an error value for EVERY byte string: the question-skipping loop, the records
     iterator's internal loop over records of unknown type/class and the consumer's drain loop end,
     the u16 section counters cannot overflow, the typed reads cannot panic. *)
From RsdnsModel Require Import Base GenReader GenTypes Cursor Names Labels Header Tracker RData Reader Script RecordSet Iter.
From RsdnsModel.Proofs Require Import CursorSafe LabelsTotal NoUB Defined ReaderTotal FromMsgTotal IterTotal.
Open Scope N_scope.

Theorem C01_name_walk_total : forall msg nk c, cwf msg c ->
  defined (read_name msg nk c) /\ defined (skip_name msg c).
Proof. intros. split; [apply read_name_defined|apply skip_name_defined]; assumption. Qed.

(* the bound: the fuel handed to the walker is 34*(lim+2) and is never exhausted; each iteration
   strictly decreases (32 - pointers followed)*(lim+2) + (lim+1-pos) *)
Theorem C01_name_walk_bound : forall msg st s, linv msg st ->
  label_step msg st = Ok s ->
  match s with
  | LEnd _ => True
  | LLabel _ _ st' | LJump st' => linv msg st' /\ lmeasure st' < lmeasure st
  end.
Proof.
  intros msg st s Hi Hs. destruct s as [mp|p b st'|st']; [exact I| |].
  - destruct (label_step_label msg _ _ _ _ Hi Hs) as (H1 & H2 & _). split; assumption.
  - destruct (label_step_jump msg _ _ Hi Hs) as (H1 & H2 & _). split; assumption.
Qed.

Theorem C01_never_out_of_bounds : forall (msgs : list (list byte)) (cs : list item),
  Forall (fun o => o <> UB) (run_script (world_init msgs) cs).
Proof. exact no_ub_any_script. Qed.

Theorem C01_cursor_total : forall msg c n, cwf msg c ->
  defined (c_u8 msg c) /\ defined (c_slice msg c n) /\ defined (c_skip c n) /\ defined (c_window c n) /\
  defined (c_close_window c) /\ (0 < n -> defined (c_be msg c n)).
Proof.
  intros msg c n H. repeat split.
  - apply c_u8_defined; assumption.
  - apply c_slice_defined; assumption.
  - apply c_skip_defined.
  - apply (c_window_defined msg); assumption.
  - apply c_close_window_defined.
  - intro Hn. apply c_be_defined; assumption.
Qed.

Theorem C01_rdata_total : forall msg ty rd m c, read_rdata msg ty rd = Some m -> cwf msg c ->
  cwf msg (fst (m c)) /\ defined (snd (m c)).
Proof.
  intros msg ty rd m c H Hc. destruct (read_rdata_defined msg ty rd m H c Hc I) as [H1 H2].
  split; [assumption|]. destruct (snd (m c)); cbn; tauto.
Qed.

Theorem C01_borrowed_names_total : forall msg c1 c2, cwf msg c1 -> cwf msg c2 ->
  defined (nameref_eq msg c1 c2) /\ defined (labels_drain msg c1).
Proof. intros. split; [apply nameref_eq_defined|apply labels_drain_defined]; assumption. Qed.

(* [RInv msg r]: cursor well-formed, every tracker counter read <= total <= 65535.
   [rgood msg p]: the call returned a value or an error value and left a reader satisfying RInv.
   [mk_ok r mk]: the marker's section still has an unread record in r (true for the marker a header
   call just returned, see the second components below). *)
Theorem C01_reader_start : forall msg r, reader_new msg = Ok r ->
  RInv msg r /\ r_tr r = tr_default /\ rgood msg (rd_header msg r).
Proof.
  intros msg r H. unfold reader_new in H. destruct (msg_too_long (lenN msg)); [discriminate|]. inversion H; subst.
  assert (Hi : RInv msg (mkReader (c_new msg) tr_default false)) by (split; [apply cwf_new|apply twf_default]).
  split; [exact Hi|]. split; [reflexivity|]. apply rd_header_good; [apply cwf_new|reflexivity].
Qed.

Theorem C01_reader_total : forall msg r, RInv msg r ->
  (forall single as_ref, rgood msg (rd_question msg single as_ref r)) /\
  rgood msg (rd_skip_questions msg r) /\
  (rgood msg (rd_marker msg r) /\
   forall r' mk, rd_marker msg r = (r', Ok (OMarker mk)) -> mk_ok r' mk /\ pos (r_cur r') = rdata_pos mk) /\
  (rgood msg (rd_header_ref msg r) /\
   forall r' nref mk, rd_header_ref msg r = (r', Ok (OHeaderRef nref mk)) -> mk_ok r' mk /\ pos (r_cur r') = rdata_pos mk) /\
  (forall nk, rgood msg (rd_header_n msg nk r) /\
   forall r' n mk, rd_header_n msg nk r = (r', Ok (OHeaderN n mk)) -> mk_ok r' mk /\ pos (r_cur r') = rdata_pos mk) /\
  (forall mk, mk_ok r mk -> pos (r_cur r) = rdata_pos mk ->
     rgood msg (rd_skip_data mk r) /\ rgood msg (rd_data_bytes msg mk r) /\ (forall ty, rgood msg (rd_data msg ty mk r)) /\
     (m_rtype mk = T_OPT -> rgood msg (rd_opt mk r))) /\
  (forall s, s < 3 -> rgood msg (rd_seek msg s r)) /\
  (defined (rd_questions_count r) /\ defined (rd_records_count r) /\ forall s, defined (rd_records_count_in s r)) /\
  (forall ty mk, defined (rd_bytes_at msg mk r) /\ defined (rd_data_at msg ty mk r) /\ defined (rd_name_ref_at mk r)).
Proof.
  intros msg r Hi.
  split; [intros; apply rd_question_good; assumption|].
  split; [apply rd_skip_questions_good; assumption|].
  split; [exact (rd_marker_good msg r Hi)|].
  split; [exact (rd_header_ref_good msg r Hi)|].
  split; [intro nk; exact (rd_header_n_good msg nk r Hi)|].
  split; [intros mk Hm Hp; split; [apply (rd_skip_data_good msg); assumption|split; [apply (rd_data_bytes_good msg); assumption|
          split; [intro ty; apply (rd_data_good msg); assumption|intro Ht; apply (rd_opt_good msg); assumption]]]|].
  split; [intros s Hs; apply (rd_seek_good msg); assumption|].
  split; [apply (counts_good msg); assumption|].
  intros ty mk. exact (random_access_good msg ty mk r Hi).
Qed.

(* the 17 record-data types RecordSet can be instantiated with *)
Definition data_types : list N :=
  [T_A; T_NS; T_MD; T_MF; T_CNAME; T_SOA; T_MB; T_MG; T_MR; T_NULL; T_WKS; T_PTR; T_HINFO; T_MINFO; T_MX; T_TXT; T_AAAA].

Theorem C01_record_set_total : forall msg ty, In ty data_types -> defined (from_msg msg ty).
Proof.
  intros msg ty Hin. apply from_msg_defined. intro rd.
  repeat (destruct Hin as [<-|Hin]; [vm_compute; discriminate|]). destruct Hin.
Qed.

(* iter_questions / iter_records drain the iterators: the list of items, then the error that
   stopped the iteration (if any) *)
Theorem C01_iterator_total : forall msg,
  defined (iter_new msg) /\
  forall h off, iter_new msg = Ok (h, off) ->
    match snd (iter_questions msg h) with
    | None => True
    | Some r => defined r /\ forall q, r <> Ok q
    end /\
    defined (iter_records msg h off).
Proof.
  intro msg. destruct (iter_new_defined msg) as [D H]. split; [exact D|]. intros h off E.
  destruct (H h off E) as (H1 & H2 & H3 & H4).
  split; [apply questions_drain_defined; apply cwf_with_pos|apply iter_records_defined; assumption].
Qed.
