(* Properties/C08.v — All views of a message agree: the two owned name types; decoding vs skipping;
   the three record-header flavours; the iterator API vs the cursor-style reader, record by record;
   marker-based random access; NameRef::eq vs comparison of the decoded names; label iteration vs
   the RFC expansion; the iterator API over a whole message: MessageIterator::new finds the answers
   offset, questions() yields exactly the questions of the linear pass, records() exactly its records
   of known type and class with their typed data. *)
From RsdnsModel Require Import Base GenReader Cursor Names Labels Header Tracker RData Reader Script Iter.
From RsdnsModel.Spec Require Import WireName LinearPass.
From RsdnsModel.Proofs Require Import CursorSafe LabelsSound Views RandAccess Flavours IterAgree NameRefEq ReaderRefine QuestionsIter MessageRT EndToEnd FieldLeaves.
Open Scope N_scope.

(* owned names of the two types: identical values, errors (with payloads) and resume positions,
   for every byte string and position *)
Theorem C08_name_types_agree : forall msg c, read_name msg Heap c = read_name msg Inline c.
Proof. exact read_name_agree. Qed.

(* a view that decodes more never succeeds where a view that decodes less fails: decoding the
   owner name succeeding implies skipping it succeeds, resuming at the same byte *)
Theorem C08_read_implies_skip : forall msg nk c t c',
  cwf msg c -> read_name msg nk c = Ok (t, c') -> skip_name msg c = Ok c'.
Proof. exact read_implies_skip. Qed.

(* marker-based random access equals a pure function of (message, marker) in every reachable
   state, hence equals what any other reader of the same bytes reports (C10) *)
Theorem C08_random_access_view : forall msgs w i msg r mk ty,
  reachable msgs w -> getN (w_msgs w) i = Some msg -> getN (w_readers w) i = Some (Some r) ->
  rd_data_at msg ty mk r = rdata_pure msg ty mk /\ rd_bytes_at msg mk r = raw_pure msg mk.
Proof.
  intros. destruct (at_pure msgs w i msg r mk) as (A & B & _); try assumption. split; [apply B|exact A].
Qed.

(* record_header::<N>() decodes the owner name, record_header_ref() and record_marker() skip it:
   whenever the owned flavour succeeds the other two succeed on the same reader state, return the
   same marker (offsets, type, class, TTL, RDLENGTH, section), leave the reader in the same state,
   and the borrowed name starts where the owned name was decoded *)
Theorem C08_header_flavours_agree : forall msg nk r r' n mk,
  cwf msg (r_cur r) -> rd_header_n msg nk r = (r', Ok (OHeaderN n mk)) ->
  rd_marker msg r = (r', Ok (OMarker mk)) /\
  exists nref, rd_header_ref msg r = (r', Ok (OHeaderRef nref mk)) /\ pos nref = m_off mk /\
    exists c', read_name msg nk nref = Ok (n, c').
Proof. exact header_flavours_agree. Qed.

(* Records::next() on a record of a known type and class returns exactly what
   record_header::<InlineName>() followed by record_data::<D>() return on a reader in the same
   state, and both end in the same state *)
Theorem C08_iterator_item_is_reader_item : forall msg f r it it' x,
  same_state r it -> cwf msg (ri_cur it) ->
  records_read_impl msg (S f) it = (it', Ok (RItem x)) ->
  (forall c1 ty cl ttl rdlen, (do* _ <- lift_c (skip_name msg); do* ty <- lift (c_u16 msg); do* cl <- lift (c_u16 msg);
      do* ttl <- lift (c_u32 msg); do* rdlen <- lift (c_u16 msg); mret (ty, cl, ttl, rdlen)) (ri_cur it) = (c1, Ok (ty, cl, ttl, rdlen)) ->
      iter_skip_unknown (class_defined cl) (type_defined ty) = false) ->
  exists r1 mk r2,
    rd_header_n msg Inline r = (r1, Ok (OHeaderN (rr_name x) mk)) /\
    m_rtype mk = rr_type x /\ m_rclass mk = rr_class x /\ m_ttl mk = rr_ttl x /\ m_section mk = rr_section x /\
    rd_data msg (rr_type x) mk r1 = (r2, Ok (ORData (rr_data x))) /\
    r_cur r2 = ri_cur it' /\ r_tr r2 = ri_tr it'.
Proof. exact iter_item_is_reader_item. Qed.

(* on a record it skips (unknown type or class) the iterator moves exactly like record_marker()
   followed by skip_record_data(), and continues from the state they reach *)
Theorem C08_iterator_skip_is_reader_skip : forall msg f r it c1 ty cl ttl rdlen,
  same_state r it ->
  (do* _ <- lift_c (skip_name msg); do* ty <- lift (c_u16 msg); do* cl <- lift (c_u16 msg);
   do* ttl <- lift (c_u32 msg); do* rdlen <- lift (c_u16 msg); mret (ty, cl, ttl, rdlen)) (ri_cur it) = (c1, Ok (ty, cl, ttl, rdlen)) ->
  iter_skip_unknown (class_defined cl) (type_defined ty) = true ->
  forall s tr1 c2 tr2, next_section (ri_tr it) (pos (ri_cur it)) = (tr1, Some s) ->
  c_skip c1 rdlen = Ok c2 -> section_read tr1 s (pos c2) = Ok tr2 ->
  records_read_impl msg (S f) it = records_read_impl msg f (mkRecIt c2 tr2 (ri_err it)) /\
  exists r1 mk r2, rd_marker msg r = (r1, Ok (OMarker mk)) /\ m_rtype mk = ty /\ m_rclass mk = cl /\
    rd_skip_data mk r1 = (r2, Ok OUnit) /\ r_cur r2 = c2 /\ r_tr r2 = tr2 /\ r_done r2 = false.
Proof. exact iter_skip_is_reader_skip. Qed.

(* NameRef::eq on two borrowed names of one message (same visible buffer) that both decode equals
   == on the decoded names (case-insensitive, C18) — whatever compression the two names use,
   including the same-offset shortcut *)
Theorem C08_nameref_eq_is_decoded_eq : forall msg nk c1 c2 t1 t2 c1' c2',
  cwf msg c1 -> cwf msg c2 -> vis msg c1 = vis msg c2 ->
  read_name msg nk c1 = Ok (t1, c1') -> read_name msg nk c2 = Ok (t2, c2') ->
  nameref_eq msg c1 c2 = Ok (name_eq t1 t2).
Proof. exact nameref_eq_is_decoded_eq. Qed.

(* iterating the labels of a borrowed name yields exactly the labels of its RFC 1035 4.1.4
   expansion, with their offsets, in order, and then ends without an error *)
Theorem C08_label_iteration_is_expansion : forall msg c ls,
  cwf msg c -> expands (vis msg c) None 0 (pos c) ls ->
  Forall (fun l => label_ok (snd l) = true) ls -> labels_drain msg c = Ok (ls, None).
Proof. exact labels_drain_spec. Qed.

(* MessageIterator::questions() drained, on a message all of whose announced questions parse
   ([parsed], Properties/C09.v) and fit 255 octets: exactly the questions of the linear pass, in
   order — each with the decoded text of the spec's labels ([name_text]), its type and class, i.e.
   the very items question() of the cursor-style reader returns (C09_question_flavours) — and then
   the end, without an error *)
Theorem C08_questions_iterator : forall msg nq an ns ar qs rs e1 e2 h,
  parsed msg nq an ns ar qs rs e1 e2 -> lenN qs = nq -> h_qd h = nq ->
  Forall (fun it => a_fits255 it = true) qs ->
  iter_questions msg h = (map (qobs msg) qs, None).
Proof. exact iter_questions_spec. Qed.

(* MessageIterator::new on a message all of whose announced questions parse: the header, and the
   answers offset = where the questions of the pass end *)
Theorem C08_iterator_new : forall msg nq an ns ar qs rs e1 e2 h c1,
  parsed msg nq an ns ar qs rs e1 e2 -> lenN qs = nq ->
  read_header msg (c_new msg) = (c1, Ok h) -> h_qd h = nq -> iter_new msg = Ok (h, e1).
Proof. exact iter_new_spec. Qed.

(* MessageIterator::records() drained, on a completely parsed message: [iter_items] (Proofs/
   ReaderRefine.v) walks the records of the linear pass in order; a record of unknown type or class
   is passed over silently; every other record is yielded with its section (by counting), the
   decoded text of the spec's owner labels, CLASS, TYPE, TTL and the value the typed decoder of its
   own TYPE returns at its data offset ([decoded]; what that value is: C02/C04).  If every such
   record has an owner of at most 255 octets and data that decodes (iter_items = Some l), the
   iterator yields exactly l and then ends without an error — the same headers and data the
   cursor-style reader returns for these records (C09_record_header_flavours/_data_flavours). *)
Theorem C08_records_iterator : forall msg nq an ns ar qs rs e1 e2, parsed msg nq an ns ar qs rs e1 e2 ->
  forall h l, lenN rs = an + ns + ar ->
  h_qd h <= 65535 -> h_an h = an -> h_ns h = ns -> h_ar h = ar -> lenN qs = nq ->
  iter_items msg nq an ns ar 0 rs = Some l -> iter_records msg h e1 = Ok (l, None).
Proof. exact iter_records_any. Qed.

(* ... and in general ([iter_walk]): the records of known type and class up to the first one whose
   owner exceeds 255 octets, whose data does not decode, or whose type has no typed decoder (OPT,
   meta types) — then the end if there was no such record, and otherwise that record's error *)
Theorem C08_records_iterator_general : forall msg nq an ns ar qs rs e1 e2, parsed msg nq an ns ar qs rs e1 e2 ->
  forall h, lenN rs = an + ns + ar ->
  h_qd h <= 65535 -> h_an h = an -> h_ns h = ns -> h_ar h = ar -> lenN qs = nq ->
  exists stop, iter_records msg h e1 = Ok (fst (iter_walk msg nq an ns ar 0 rs), stop) /\
               (snd (iter_walk msg nq an ns ar 0 rs) = true <-> stop = None).
Proof. exact iter_records_walk_any. Qed.

(* ---- end to end, on the semantic description of a message (Proofs/MessageRT.v) ----
   Questions and records standing back to back behind a header that announces them (names in any
   legal compression; data: values of the 17 typed formats, or raw octets).  [iter_wants x]: type and
   class of x are known to the crate; such records are described by their values ([typed]).
   records() drained yields exactly [sem_iter 0 rs]: the records of known type and class in wire
   order, each with its section by counting, the text of its owner's labels, CLASS, TYPE, TTL and its
   value — the others are passed over — and then ends without an error. *)
Theorem C08_iterator_end_to_end : forall msg qs rs nq an ns ar e1 e2 h,
  lenN msg <= 65535 -> 12 <= lenN msg -> questions_stand msg 12 qs e1 -> records_stand msg e1 rs e2 ->
  lenN qs = nq -> lenN rs = an + ns + ar -> nq <= 65535 -> an <= 65535 -> ns <= 65535 -> ar <= 65535 ->
  h_qd h = nq /\ h_an h = an /\ h_ns h = ns /\ h_ar h = ar ->
  Forall (fun x => iter_wants x = true -> typed x) rs ->
  iter_records msg h e1 = Ok (sem_iter nq an ns ar 0 rs, None).
Proof. exact iterator_end_to_end. Qed.

(* e.g. the response "a. CNAME b." + "b. A 5.6.7.8" of Properties/C06.v, through the iterator *)
Example C08_iterator_example :
  iter_records example_chain_msg (mkHeader 4660 33152 1 2 0 0) 19 =
  Ok ([mkRR 0 [x61; x2e] 1 5 60 (RD_Name 5 [x62; x2e]); mkRR 0 [x62; x2e] 1 1 30 (RD_A 84281096)], None).
Proof. exact example_iterator. Qed.

(* the fixed part of a record as the two views read it: the cursor-style reader (raw_marker_impl) and
   the iterator (read_impl) both take TYPE, CLASS, TTL and RDLENGTH to be the big-endian words of
   the message, unchanged — the expressions the source applies to them are re-translated each run *)
Theorem C08_fields_are_the_words_read : forall w,
  (marker_field_type w = w /\ marker_field_class w = w /\ marker_field_ttl w = w /\ marker_field_rdlen w = w) /\
  (iter_field_type w = w /\ iter_field_class w = w /\ iter_field_ttl w = w /\ iter_field_rdlen w = w).
Proof. exact fields_are_the_words_read. Qed.
