(* Properties/C08.v — All views of a message agree (the relations proved so far; the rest —
   marker/header views, iterator vs reader, NameRef::eq vs decoded comparison — is decided by the
   views stream on the implementation alone, see DESIGN.md §5 C08). *)
From RsdnsModel Require Import Base Cursor Names Labels Header Tracker RData Reader Script.
From RsdnsModel.Proofs Require Import CursorSafe LabelsSound Views RandAccess.
Open Scope N_scope.

(* owned names of the two types: identical values, errors (with payloads) and resume positions,
   for every byte string and position *)
Theorem C08_name_types_agree : forall msg c, read_name msg Heap c = read_name msg Inline c.
Proof. exact read_name_agree. Qed.

(* a view that decodes more never succeeds where a view that decodes less fails: decoding the
   owner name succeeding implies skipping it succeeds, resuming at the same byte *)
Theorem C08_read_implies_skip : forall msg nk c t c',
  cwf msg c -> read_name msg nk c = Ok (t, c') -> skip_name msg c = Ok c'.
Proof. exact read_implies_skip. Qed.

(* marker-based random access equals a pure function of (message, marker) in every reachable
   state, hence equals what any other reader of the same bytes reports (C10) *)
Theorem C08_random_access_view : forall msgs w i msg r mk ty,
  reachable msgs w -> getN (w_msgs w) i = Some msg -> getN (w_readers w) i = Some (Some r) ->
  rd_data_at msg ty mk r = rdata_pure msg ty mk /\ rd_bytes_at msg mk r = raw_pure msg mk.
Proof.
  intros. destruct (at_pure msgs w i msg r mk) as (A & B & _); try assumption. split; [apply B|exact A].
Qed.
