(* Properties/C11.v — Queries on the wire are exactly what was asked (encoder part). *)
From RsdnsModel Require Import Base Names Writer.
From RsdnsModel.Spec Require Import NameText.
From RsdnsModel.Proofs Require Import WriterSafe.
Open Scope N_scope.

(* The query writer never writes outside its buffer: for every buffer (any capacity, 0 included),
   id, name (any bytes, any length), type, class, RD, OPT — no step is UB. *)
Theorem C11_no_oob_write : forall buf id qname qt qc rd opt,
  query_write buf id qname qt qc rd opt <> UB.
Proof. exact query_write_noub. Qed.

(* Names that are not valid are refused: if the writer produced a message at all, the name is a
   valid text name (Spec/NameText.v); in the clients prepare_message runs before any send. *)
Theorem C11_refuse_invalid : forall buf id qname qt qc rd opt b n,
  query_write buf id qname qt qc rd opt = Ok (b, n) -> valid_text qname = true.
Proof. exact query_refuses_invalid. Qed.

Theorem C11_name_encoder_sound : forall w s w' n,
  write_name w s = Ok (w', n) -> check_name_bytes s = Ok tt /\ n <= 255.
Proof. exact write_name_refuses_invalid. Qed.

(* the blocking and the async clients prepare byte-identical messages (their leaves, translated
   separately from client_impl.rs and the template, are extensionally equal) *)
Theorem C11_std_async_same : forall id qname qt qc rd edns buflen,
  prepare_message true id qname qt qc rd edns buflen = prepare_message false id qname qt qc rd edns buflen.
Proof. intros. reflexivity. Qed.

(* non-vacuity + the exact bytes of one query with EDNS: length prefix, header (RD, QDCOUNT 1,
   ARCOUNT 1), question, OPT with min(payload, buffer) *)
Example C11_example :
  prepare_message true 4660 [x77;x77;x77;x2e;x61] 1 1 true (Some (0, 4096)) 1232 =
  Ok [x00;x22; x12;x34; x01;x00; x00;x01; x00;x00; x00;x00; x00;x01;
      x03;x77;x77;x77;x01;x61;x00; x00;x01; x00;x01;
      x00; x00;x29; x04;xd0; x00;x00;x00;x00; x00;x00].
Proof. vm_compute. reflexivity. Qed.
