(* Properties/C11.v — Queries on the wire are exactly what was asked (encoder part). *)
From RsdnsModel Require Import Base Names Writer.
From RsdnsModel.Spec Require Import NameText.
From RsdnsModel.Proofs Require Import WriterSafe WriterLayout.
Open Scope N_scope.

(* The query writer never writes outside its buffer: for every buffer (any capacity, 0 included),
   id, name (any bytes, any length), type, class, RD, OPT — no step is UB. *)
Theorem C11_no_oob_write : forall buf id qname qt qc rd opt,
  query_write buf id qname qt qc rd opt <> UB.
Proof. exact query_write_noub. Qed.

(* Names that are not valid are refused: if the writer produced a message at all, the name is a
   valid text name (Spec/NameText.v); in the clients prepare_message runs before any send. *)
Theorem C11_refuse_invalid : forall buf id qname qt qc rd opt b n,
  query_write buf id qname qt qc rd opt = Ok (b, n) -> valid_text qname = true.
Proof. exact query_refuses_invalid. Qed.

Theorem C11_name_encoder_sound : forall w s w' n,
  write_name w s = Ok (w', n) -> check_name_bytes s = Ok tt /\ n <= 255.
Proof. exact write_name_refuses_invalid. Qed.

(* the blocking and the async clients prepare byte-identical messages (their leaves, translated
   separately from client_impl.rs and the template, are extensionally equal) *)
Theorem C11_std_async_same : forall id qname qt qc rd edns buflen,
  prepare_message true id qname qt qc rd edns buflen = prepare_message false id qname qt qc rd edns buflen.
Proof. intros. reflexivity. Qed.

(* non-vacuity + the exact bytes of one query with EDNS: length prefix, header (RD, QDCOUNT 1,
   ARCOUNT 1), question, OPT with min(payload, buffer) *)
Example C11_example :
  prepare_message true 4660 [x77;x77;x77;x2e;x61] 1 1 true (Some (0, 4096)) 1232 =
  Ok [x00;x22; x12;x34; x01;x00; x00;x01; x00;x00; x00;x00; x00;x01;
      x03;x77;x77;x77;x01;x61;x00; x00;x01; x00;x01;
      x00; x00;x29; x04;xd0; x00;x00;x00;x00; x00;x00].
Proof. vm_compute. reflexivity. Qed.

(* EXACT LAYOUT, for every buffer, id, name, type, class, RD and OPT: when the writer succeeds the
   buffer holds the 2-octet length prefix followed by exactly [query_message] — ID, flags with only
   RD possibly set, QDCOUNT 1, ANCOUNT 0, NSCOUNT 0, ARCOUNT 0/1, the QNAME as length-prefixed
   labels of the code-blind [text_labels] closed by the root octet, QTYPE, QCLASS and, with EDNS,
   one OPT pseudo-record (root name, type 41, class = payload size, TTL = version, RDLENGTH 0) —
   and every octet behind it is untouched. *)
Theorem C11_exact_layout : forall buf id qname qt qc rd opt b n,
  query_write buf id qname qt qc rd opt = Ok (b, n) ->
  let m := query_message id qname qt qc rd opt in
  n = 2 + lenN m /\ n <= lenN buf /\ b = put buf 0 (be_bytes 2 ((lenN m) mod 65536) ++ m).
Proof. exact query_write_layout. Qed.

(* what both client families hand to the socket (TCP: all of it; UDP: without the prefix) *)
Theorem C11_clients_message : forall std id qname qt qc rd edns recv_len b,
  prepare_message std id qname qt qc rd edns recv_len = Ok b ->
  let opt := match edns with Some (ver, ups) => Some (ver, (N.min ups recv_len) mod 65536) | None => None end in
  let m := query_message id qname qt qc rd opt in
  b = be_bytes 2 (lenN m mod 65536) ++ m.
Proof. exact prepare_message_layout. Qed.
