(* Spec/NameText.v — what a valid domain name *text* is (RFC 1035 §2.3.1/§3.1 with the crate's
   documented alphabet), written without reference to the implementation. *)
From RsdnsModel Require Import Base.
From RsdnsModel.Spec Require Import WireName.
Open Scope N_scope.

(* split at every '.' (0x2e); "a.b." -> ["a";"b";""] *)
Fixpoint split_dots (s : list byte) (cur : list byte) : list (list byte) :=
  match s with
  | [] => [rev cur]
  | b :: t => if bN b =? 46 then rev cur :: split_dots t [] else split_dots t (b :: cur)
  end.

(* labels of a text name: one trailing empty piece (the root) is dropped *)
Definition text_labels (s : list byte) : list (list byte) :=
  let ps := split_dots s [] in
  match rev ps with
  | [] :: rest => rev rest
  | _ => ps
  end.

Definition is_root (s : list byte) : bool := match s with [b] => bN b =? 46 | _ => false end.

Definition valid_text (s : list byte) : bool :=
  match s with
  | [] => false
  | _ =>
    if is_root s then true else
    let ls := text_labels s in
    negb (match ls with [] => true | _ => false end) && forallb label_ok ls && (wire_len ls <=? 255)
  end.

(* the spelling every API must hand back: the same bytes, with the root dot appended if missing *)
Definition canon_text (s : list byte) : list byte :=
  match rev s with
  | b :: _ => if bN b =? 46 then s else s ++ [x2e]
  | [] => s
  end.
