(* Spec/LinearPass.v — what a single linear pass over a message prescribes, and the abstract
   cursor-style reader over it.  Code-blind: only Base and the RFC name expander are used. *)
From RsdnsModel Require Import Base.
From RsdnsModel.Spec Require Import WireName.
Open Scope N_scope.

Definition be (msg : list byte) (off n : N) : option N :=
  if off + n <=? lenN msg then Some (be_val (subN msg off n) 0) else None.

(* a name in place: Some (resume, fits255) when it is a legal wire name with valid labels *)
Definition name_at (msg : list byte) (p : N) : option (N * bool) :=
  match spec_name msg p with
  | SAccept ls r =>
    if forallb (fun l => label_ok (snd l)) ls then Some (r, wire_len (map snd ls) <=? 255) else None
  | SReject _ => None
  end.

Record aitem := mkItem {
  a_start : N; a_type_off : N; a_type : N; a_class : N; a_ttl : N; a_rdlen : N;
  a_fits255 : bool;      (* the owner/question name fits 255 octets (needed by the owned-name views) *)
  a_data_ok : bool;      (* the RDLENGTH octets are inside the message *)
  a_end : N              (* offset of the byte after the item *)
}.

(* question at p *)
Definition question_at (msg : list byte) (p : N) : option aitem :=
  match name_at msg p with
  | Some (r, fits) =>
    match be msg r 2, be msg (r + 2) 2 with
    | Some t, Some c => Some (mkItem p r t c 0 0 fits true (r + 4))
    | _, _ => None
    end
  | None => None
  end.

(* record header at p (data extent checked separately) *)
Definition record_at (msg : list byte) (p : N) : option aitem :=
  match name_at msg p with
  | Some (r, fits) =>
    match be msg r 2, be msg (r + 2) 2, be msg (r + 4) 4, be msg (r + 8) 2 with
    | Some t, Some c, Some ttl, Some rdlen =>
      Some (mkItem p r t c ttl rdlen fits (r + 10 + rdlen <=? lenN msg) (r + 10 + rdlen))
    | _, _, _, _ => None
    end
  | None => None
  end.

(* the linear pass: items in wire order until the counts are exhausted or an item is malformed *)
Fixpoint pass (msg : list byte) (f : list byte -> N -> option aitem) (n : nat) (p : N) (need_data : bool)
  : list aitem * option N :=
  match n with
  | O => ([], Some p)
  | S k =>
    match f msg p with
    | Some it =>
      if need_data && negb (a_data_ok it) then ([it], None)   (* header readable, data not *)
      else let (rest, e) := pass msg f k (a_end it) need_data in (it :: rest, e)
    | None => ([], None)
    end
  end.

Record linear := mkLinear {
  l_nq : N; l_an : N; l_ns : N; l_ar : N;          (* counts announced by the header *)
  l_qs : list aitem;                               (* questions that parse, in order *)
  l_rs : list aitem                                (* records whose header parses, in order *)
}.

Definition linear_of (msg : list byte) : option linear :=
  if 65535 <? lenN msg then None else
  match be msg 4 2, be msg 6 2, be msg 8 2, be msg 10 2 with
  | Some nq, Some an, Some ns, Some ar =>
    let (qs, e) := pass msg question_at (N.to_nat nq) 12 false in
    let rs := match e with
              | Some p => fst (pass msg record_at (N.to_nat (an + ns + ar)) p true)
              | None => [] end in
    Some (mkLinear nq an ns ar qs rs)
  | _, _, _, _ => None
  end.

(* section of record k (0-based) by counting *)
Definition section_of (l : linear) (k : N) : N :=
  if k <? l_an l then 0 else if k <? l_an l + l_ns l then 1 else 2.
Definition sec_start (l : linear) (s : N) : N :=
  match s with 0 => 0 | 1 => l_an l | _ => l_an l + l_ns l end.
Definition sec_count (l : linear) (s : N) : N :=
  match s with 0 => l_an l | 1 => l_ns l | _ => l_ar l end.
Definition nrec (l : linear) : N := l_an l + l_ns l + l_ar l.

(* abstract reader: index of the next item (questions first), high-water mark, dead latch,
   and the record header just returned (whose data call is pending) *)
Record astate := mkA { a_idx : N; a_hw : N; a_dead : bool; a_pending : option (N * aitem) }.
Definition a_init : astate := mkA 0 0 false None.

Inductive acall :=
| AQuestion (owned : bool) (single : bool)      (* question/the_question (owned) or *_ref *)
| ASkipQuestions
| AG1 (owned : bool)                            (* record_header<N> vs marker/header_ref *)
| AG2                                           (* skip / raw bytes / opt_record: needs the RDLENGTH octets *)
| AG2typed (decoded : bool)                     (* typed data: whether the data decodes is C02/C04's
                                                   business; here it is an input of the step *)
| ASeek (s : N)
| AQCount | ARCount | ARCountIn (s : N).

Inductive aout :=
| AItem (it : aitem) (section : N)       (* a question (section ignored) or a record header *)
| AOk                                    (* success without a checked payload *)
| ANum (n : N)
| AErrDone                               (* ReaderDone *)
| AErrOffsetUnknown (s : N)
| AErrBadQuestions (left : N)
| AErrAny                                (* some decode error: the reader dies *)
| AUnspecified.                          (* the call sequence left the documented protocol; nothing is claimed any more *)

Definition die (a : astate) : astate := mkA (a_idx a) (a_hw a) true None.
Definition adv (a : astate) : astate :=
  let i := a_idx a + 1 in mkA i (N.max (a_hw a) i) false None.

Definition known (l : linear) (a : astate) (s : N) : bool :=
  N.max 1 (l_nq l + sec_start l s) <=? a_hw a.

(* skip forward from idx to target, item by item; dies at the first item that does not parse *)
Fixpoint skip_to (l : linear) (fuel : nat) (a : astate) (target : N) : astate :=
  match fuel with
  | O => a
  | S f =>
    if target <=? a_idx a then a else
    let i := a_idx a in
    let ok := if i <? l_nq l then match getN (l_qs l) i with Some _ => true | None => false end
              else match getN (l_rs l) (i - l_nq l) with Some it => a_data_ok it | None => false end in
    if ok then skip_to l f (adv a) target else die a
  end.

Definition astep (l : linear) (a : astate) (c : acall) : astate * aout :=
  match c with
  | AQCount => (a, ANum (if a_dead a then 0 else l_nq l - N.min (a_idx a) (l_nq l)))
  | ARCount => (a, ANum (if a_dead a then 0 else nrec l - N.min (a_idx a - l_nq l) (nrec l)))
  | ARCountIn s =>
    (a, ANum (if a_dead a then 0 else
              let done := a_idx a - l_nq l in
              sec_count l s - N.min (done - sec_start l s) (sec_count l s)))
  | AQuestion owned single =>
    if a_dead a then (a, AErrDone) else
    match a_pending a with Some _ => (a, AUnspecified) | None =>
    let left := l_nq l - N.min (a_idx a) (l_nq l) in
    if single && negb (left =? 1) then (die a, AErrBadQuestions left) else
    if left =? 0 then (die a, AErrDone) else
    match getN (l_qs l) (a_idx a) with
    | Some it => if owned && negb (a_fits255 it) then (die a, AErrAny) else (adv a, AItem it 0)
    | None => (die a, AErrAny)
    end end
  | ASkipQuestions =>
    if a_dead a then (a, AErrDone) else
    match a_pending a with Some _ => (a, AUnspecified) | None =>
    let a' := skip_to l (S (N.to_nat (l_nq l))) a (l_nq l) in
    (a', if a_dead a' then AErrAny else AOk) end
  | AG1 owned =>
    if a_dead a then (a, AErrDone) else
    match a_pending a with Some _ => (a, AUnspecified) | None =>
    if a_idx a <? l_nq l then (a, AUnspecified) else
    let k := a_idx a - l_nq l in
    if nrec l <=? k then (die a, AErrDone) else
    match getN (l_rs l) k with
    | Some it =>
      if owned && negb (a_fits255 it) then (die a, AErrAny)
      else (mkA (a_idx a) (a_hw a) false (Some (k, it)), AItem it (section_of l k))
    | None => (die a, AErrAny)
    end end
  | AG2 =>
    match a_pending a with
    | None => (a, AUnspecified)
    | Some (k, it) =>
      if a_dead a then (a, AErrDone) else
      if negb (a_data_ok it) then (die a, AErrAny) else (adv a, AOk)
    end
  | AG2typed decoded =>
    match a_pending a with
    | None => (a, AUnspecified)
    | Some (k, it) =>
      if a_dead a then (a, AErrDone) else
      if decoded then (if a_data_ok it then (adv a, AOk) else (a, AUnspecified)) else (die a, AErrAny)
    end
  | ASeek s =>
    if a_dead a then (a, AErrDone) else
    match a_pending a with Some _ => (a, AUnspecified) | None =>
    let target := l_nq l + sec_start l s in
    if known l a s then (mkA target (a_hw a) false None, AOk)
    else if a_idx a =? 0 then
      let a' := skip_to l (S (N.to_nat (l_nq l + nrec l))) a target in
      (a', if a_dead a' then AErrAny else AOk)
    else (a, AErrOffsetUnknown s)
    end
  end.
