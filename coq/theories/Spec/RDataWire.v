(* Spec/RDataWire.v — the RFC 1035 / RFC 3596 wire form of the record data of the 17 supported
   types, written without reference to the implementation (only Base and the name encoding of
   Spec/WireName.v): an abstract record-data value (names as label lists), its uncompressed
   encoding, and the value a decoder must hand back. *)
From RsdnsModel Require Import Base.
From RsdnsModel.Spec Require Import WireName.
Open Scope N_scope.

Fixpoint be_enc (n : nat) (v : N) : list byte :=
  match n with O => [] | S k => be_enc k (v / 256) ++ [Nb v] end.

Definition enc_label' (l : list byte) : list byte := Nb (lenN l) :: l.
Definition name_enc (ls : list (list byte)) : list byte := concat (map enc_label' ls) ++ [x00].
(* <character-string>: one length octet, then up to 255 octets *)
Definition charstr_enc (s : list byte) : list byte := Nb (lenN s) :: s.

Inductive ardata :=
| A_A (addr : N)
| A_Aaaa (addr : N)
| A_Name (ty : N) (name : list (list byte))          (* NS MD MF CNAME MB MG MR PTR *)
| A_Hinfo (cpu os : list byte)
| A_Wks (addr proto : N) (bitmap : list byte)
| A_Minfo (rmailbx emailbx : list (list byte))
| A_Mx (pref : N) (exchange : list (list byte))
| A_Null (anything : list byte)
| A_Soa (mname rname : list (list byte)) (serial refresh retry expire minimum : N)
| A_Txt (strings : list (list byte)).

Definition rdata_enc (a : ardata) : list byte :=
  match a with
  | A_A addr => be_enc 4 addr
  | A_Aaaa addr => be_enc 16 addr
  | A_Name _ n => name_enc n
  | A_Hinfo cpu os => charstr_enc cpu ++ charstr_enc os
  | A_Wks addr proto bm => be_enc 4 addr ++ [Nb proto] ++ bm
  | A_Minfo r e => name_enc r ++ name_enc e
  | A_Mx p e => be_enc 2 p ++ name_enc e
  | A_Null b => b
  | A_Soa m r s rf rt ex mi => name_enc m ++ name_enc r ++ be_enc 4 s ++ be_enc 4 rf ++ be_enc 4 rt ++ be_enc 4 ex ++ be_enc 4 mi
  | A_Txt ss => concat (map charstr_enc ss)
  end.

(* which values are encodable: field widths, label rules, string lengths *)
Definition name_okb (ls : list (list byte)) : bool := forallb label_ok ls && (wire_len ls <=? 255).
Definition ardata_ok (a : ardata) : bool :=
  match a with
  | A_A addr => addr <? 4294967296
  | A_Aaaa addr => addr <? 340282366920938463463374607431768211456
  | A_Name _ n => name_okb n
  | A_Hinfo cpu os => (lenN cpu <=? 255) && (lenN os <=? 255)
  | A_Wks addr proto _ => (addr <? 4294967296) && (proto <? 256)
  | A_Minfo r e => name_okb r && name_okb e
  | A_Mx p e => (p <? 65536) && name_okb e
  | A_Null _ => true
  | A_Soa m r s rf rt ex mi =>
    name_okb m && name_okb r && (s <? 4294967296) && (rf <? 4294967296) && (rt <? 4294967296) && (ex <? 4294967296) && (mi <? 4294967296)
  | A_Txt ss => forallb (fun s => lenN s <=? 255) ss
  end.
