(* Spec/WireName.v — RFC 1035 §3.1/§4.1.4 domain names on the wire, written without reference to
   the implementation: an inductive expansion relation and an executable expander used as the
   test oracle.  Only Base is imported (no Gen leaf, no model function). *)
From RsdnsModel Require Import Base.
Open Scope N_scope.

(* [expands msg q0 hops p ls]: following RFC 1035 §4.1.4 from offset [p] yields the label
   sequence [ls] (each with the offset of its length octet).  [q0] is the offset of the first
   pointer met so far (None before any); every pointer must refer to a *prior* position:
   strictly before the first pointer of the name, which also excludes self pointers.
   [hops] counts the pointers followed so far. *)
Inductive expands (msg : list byte) : option N -> N -> N -> list (N * list byte) -> Prop :=
| ex_root q0 hops p :
    getN msg p = Some x00 -> expands msg q0 hops p []
| ex_label q0 hops p b ls :
    getN msg p = Some b -> 1 <= bN b <= 63 -> p + 1 + bN b <= lenN msg ->
    expands msg q0 hops (p + 1 + bN b) ls ->
    expands msg q0 hops p ((p, subN msg (p + 1) (bN b)) :: ls)
| ex_ptr q0 hops p b1 b2 ls :
    getN msg p = Some b1 -> 192 <= bN b1 -> getN msg (p + 1) = Some b2 ->
    let tgt := (bN b1 - 192) * 256 + bN b2 in
    let q := match q0 with Some q => q | None => p end in
    tgt < q -> hops < 32 ->
    expands msg (Some q) (hops + 1) tgt ls ->
    expands msg q0 hops p ls.

(* where reading resumes: after the first pointer, or after the terminating zero *)
Inductive resume_at (msg : list byte) : N -> N -> Prop :=
| ra_root p : getN msg p = Some x00 -> resume_at msg p (p + 1)
| ra_label p b r : getN msg p = Some b -> 1 <= bN b <= 63 -> resume_at msg (p + 1 + bN b) r -> resume_at msg p r
| ra_ptr p b : getN msg p = Some b -> 192 <= bN b -> resume_at msg p (p + 2).

(* label content rule (RFC 1035 §2.3.1 as relaxed by the crate's documentation: letters,
   digits, '-' and '_'; no leading/trailing '-'), 1..63 octets *)
Definition label_byte_ok (v : N) : bool :=
  ((48 <=? v) && (v <=? 57)) || ((65 <=? v) && (v <=? 90)) || ((97 <=? v) && (v <=? 122))
  || (v =? 45) || (v =? 95).
Definition label_ok (l : list byte) : bool :=
  match l with
  | [] => false
  | f :: _ =>
    (lenN l <=? 63) && forallb (fun b => label_byte_ok (bN b)) l
    && negb (bN f =? 45) && negb (bN (last l x00) =? 45)
  end.

(* text form: labels joined by '.', with a trailing '.'; the root is "." *)
Definition join_labels (ls : list (list byte)) : list byte :=
  match ls with
  | [] => [x2e]
  | _ => concat (map (fun l => l ++ [x2e]) ls)
  end.
(* octets on the wire when written without compression *)
Definition wire_len (ls : list (list byte)) : N :=
  fold_right (fun l acc => lenN l + 1 + acc) 1 ls.

(* executable expander (oracle).  why: 1 truncated, 2 reserved label type, 3 pointer not to a
   prior position, 4 more than 32 pointers, 0 out of fuel (cannot happen with fuel >= 34*(len+2)) *)
Inductive sverdict :=
| SAccept (labels : list (N * list byte)) (resume : N)
| SReject (why : N).

Fixpoint spec_expand (fuel : nat) (msg : list byte) (p : N) (q0 : option N) (hops : N)
         (acc : list (N * list byte)) : sverdict :=
  match fuel with
  | O => SReject 0
  | S f =>
    match getN msg p with
    | None => SReject 1
    | Some b =>
      let v := bN b in
      if v =? 0 then SAccept (rev acc) (match q0 with Some q => q + 2 | None => p + 1 end)
      else if v <? 64 then
        if p + 1 + v <=? lenN msg then spec_expand f msg (p + 1 + v) q0 hops ((p, subN msg (p + 1) v) :: acc)
        else SReject 1
      else if 192 <=? v then
        match getN msg (p + 1) with
        | None => SReject 1
        | Some b2 =>
          let tgt := (v - 192) * 256 + bN b2 in
          let q := match q0 with Some q => q | None => p end in
          if tgt <? q then
            if hops <? 32 then spec_expand f msg tgt (Some q) (hops + 1) acc else SReject 4
          else SReject 3
        end
      else SReject 2
    end
  end.

Definition spec_name (msg : list byte) (p : N) : sverdict :=
  spec_expand (N.to_nat (34 * (lenN msg + 2))) msg p None 0 [].
