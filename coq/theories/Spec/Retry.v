(* Spec/Retry.v — what a UDP query does over time, written without looking at the code
   (property C15, C16): transmissions at start, start + qt, start + 2 qt, ... for as long as no
   answer has arrived and the lifetime has not run out; the answer is the FIRST arrival that
   answers the query (whatever else arrives before it, between the transmissions or after them);
   without an answer earlier than start + lifetime the query ends there with a time-out. *)
From Coq Require Import List NArith Bool.
From Coq.Strings Require Import Byte.
Import ListNotations.
Open Scope N_scope.

Section RetrySpec.
Variable good : list byte -> option N.            (* Some flags: this datagram answers the query *)

Fixpoint first_good (arrs : list (N * list byte)) : option (N * list byte * N) :=
  match arrs with
  | [] => None
  | (t, d) :: rest => match good d with Some fl => Some (t, d, fl) | None => first_good rest end
  end.

(* s, s + q, s + 2q, ... below [bound] (the first one unconditionally) *)
Fixpoint schedule (fuel : nat) (s q bound : N) : list N :=
  match fuel with
  | O => []
  | S f => s :: (if s + q <? bound then schedule f (s + q) q bound else [])
  end.

Inductive spec_result := SAnswer (d : list byte) (flags : N) | STimeout.

(* transmissions, result, instant the exchange ends *)
Definition spec_udp (fuel : nat) (start lifetime : N) (qt : option N) (arrs : list (N * list byte))
  : list N * spec_result * N :=
  let D := start + lifetime in
  let sends bound := match qt with Some q => schedule fuel start q bound | None => [start] end in
  match first_good arrs with
  | Some (t, d, fl) =>
    if t <? D then (sends (N.max start t + 1), SAnswer d fl, N.max start t) else (sends D, STimeout, D)
  | None => (sends D, STimeout, D)
  end.
End RetrySpec.
