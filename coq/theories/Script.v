(* Script.v — call scripts over one or several readers with shared pools of markers and
   borrowed names; the executable model of "any sequence of safe public calls". *)
From RsdnsModel Require Import Base GenConst Cursor Names Labels Header Tracker RData Reader.
Open Scope N_scope.

Inductive call :=
| CHeader | CSeek (s : N) | CQCount | CRCount | CRCountIn (s : N)
| CQuestion | CQuestionRef | CTheQuestion | CTheQuestionRef | CSkipQuestions
| CMarker | CHeaderRef | CHeaderN (nk : name_kind)
| CSkipData (k : N) | CDataBytes (k : N) | CData (ty : N) (k : N) | COpt (k : N) | COptOrSkip (k : N)
| CBytesAt (k : N) | CDataAt (ty : N) (k : N) | CNameRefAt (k : N)
| CNrefEq (i j : N) | CNrefName (nk : name_kind) (i : N) | CNrefLabels (i : N).

(* what a script step shows; borrowed names are replaced by their pool index *)
Inductive sobs :=
| SObs (o : obs)
| SNref (idx : N) (rest : obs)        (* a call that produced a borrowed name (stored at idx) *)
| SBool (b : bool)
| SName (t : list byte)
| SLabels (ls : list (N * list byte)) (e : option error)
| SNoSuch                             (* the script referred to a pool entry that does not exist *)
| SSkipped.                           (* conditional call not executed: the previous call failed *)

Record world := mkWorld {
  w_msgs : list (list byte);
  w_readers : list (option reader);    (* None: MessageReader::new failed *)
  w_markers : list marker;
  w_nrefs : list (N * cursor)          (* (message index, cursor) *)
}.

Definition world_init (msgs : list (list byte)) : world :=
  mkWorld msgs (map (fun m => match reader_new m with Ok r => Some r | _ => None end) msgs) [] [].

Definition set_reader (w : world) (i : N) (r : reader) : world :=
  mkWorld (w_msgs w)
          (firstn (N.to_nat i) (w_readers w) ++ [Some r] ++ skipn (S (N.to_nat i)) (w_readers w))
          (w_markers w) (w_nrefs w).
Definition add_marker (w : world) (m : marker) : world :=
  mkWorld (w_msgs w) (w_readers w) (w_markers w ++ [m]) (w_nrefs w).
Definition add_nref (w : world) (mi : N) (c : cursor) : world :=
  mkWorld (w_msgs w) (w_readers w) (w_markers w) (w_nrefs w ++ [(mi, c)]).

(* record what a successful call handed out *)
Definition absorb (w : world) (mi : N) (o : res obs) : world * res sobs :=
  match o with
  | Ok (OMarker m) => (add_marker w m, Ok (SObs (OMarker m)))
  | Ok (OHeaderN n m) => (add_marker w m, Ok (SObs (OHeaderN n m)))
  | Ok (OHeaderRef c m) =>
    let idx := lenN (w_nrefs w) in (add_marker (add_nref w mi c) m, Ok (SNref idx (OMarker m)))
  | Ok (OQuestionRef c qt qc) =>
    let idx := lenN (w_nrefs w) in (add_nref w mi c, Ok (SNref idx (OQuestion [] qt qc)))
  | Ok (ONameRef c) =>
    let idx := lenN (w_nrefs w) in (add_nref w mi c, Ok (SNref idx OUnit))
  | Ok v => (w, Ok (SObs v))
  | Err e => (w, Err e) | UB => (w, UB) | Panic => (w, Panic)
  | DebugAssert => (w, DebugAssert) | OutOfFuel => (w, OutOfFuel)
  end.

Definition step (w : world) (ri : N) (cl : call) : world * res sobs :=
  match getN (w_msgs w) ri, getN (w_readers w) ri with
  | Some msg, Some (Some r) =>
    let mut (p : reader * res obs) := let (w1, o) := absorb (set_reader w ri (fst p)) ri (snd p) in (w1, o) in
    let pure (o : res obs) := absorb w ri o in
    (* index 99999 denotes the marker obtained last *)
    let with_mk k (f : marker -> world * res sobs) :=
        let k' := if k =? 99999 then lenN (w_markers w) - 1 else k in
        match getN (w_markers w) k' with Some mk => f mk | None => (w, Ok SNoSuch) end in
    let with_nref i (f : N -> list byte -> cursor -> world * res sobs) :=
        let i := if i =? 99999 then lenN (w_nrefs w) - 1 else i in
        match getN (w_nrefs w) i with
        | Some (mi, c) => match getN (w_msgs w) mi with Some m => f mi m c | None => (w, Ok SNoSuch) end
        | None => (w, Ok SNoSuch) end in
    match cl with
    | CHeader => mut (rd_header msg r)
    | CSeek s => mut (rd_seek msg s r)
    | CQCount => pure (rd_questions_count r)
    | CRCount => pure (rd_records_count r)
    | CRCountIn s => pure (rd_records_count_in s r)
    | CQuestion => mut (rd_question msg false false r)
    | CQuestionRef => mut (rd_question msg false true r)
    | CTheQuestion => mut (rd_question msg true false r)
    | CTheQuestionRef => mut (rd_question msg true true r)
    | CSkipQuestions => mut (rd_skip_questions msg r)
    | CMarker => mut (rd_marker msg r)
    | CHeaderRef => mut (rd_header_ref msg r)
    | CHeaderN nk => mut (rd_header_n msg nk r)
    | CSkipData k => with_mk k (fun mk => mut (rd_skip_data mk r))
    | CDataBytes k => with_mk k (fun mk => mut (rd_data_bytes msg mk r))
    | CData ty k => with_mk k (fun mk => mut (rd_data msg ty mk r))
    | COpt k => with_mk k (fun mk => mut (rd_opt mk r))
    | COptOrSkip k => with_mk k (fun mk => mut (if m_rtype mk =? T_OPT then rd_opt mk r else rd_skip_data mk r))
    | CBytesAt k => with_mk k (fun mk => pure (rd_bytes_at msg mk r))
    | CDataAt ty k => with_mk k (fun mk => pure (rd_data_at msg ty mk r))
    | CNameRefAt k => with_mk k (fun mk => pure (rd_name_ref_at mk r))
    | CNrefEq i j =>
      with_nref i (fun mi m c1 =>
        match getN (w_nrefs w) (if j =? 99999 then lenN (w_nrefs w) - 1 else j) with
        | Some (mj, c2) =>
          (* NameRef::eq across different messages compares unrelated buffers; the model only
             defines it for names of the same message (the generator respects this) *)
          if mi =? mj then (w, let* b := nameref_eq m c1 c2 in Ok (SBool b)) else (w, Ok SNoSuch)
        | None => (w, Ok SNoSuch)
        end)
    | CNrefName nk i => with_nref i (fun _ m c => (w, let* (t, _) := read_name m nk c in Ok (SName t)))
    | CNrefLabels i => with_nref i (fun _ m c => (w, let* (ls, e) := labels_drain m c in Ok (SLabels ls e)))
    end
  | _, _ => (w, Ok SNoSuch)
  end.

(* a script item: reader index, "only if the previous call succeeded", the call *)
Definition item := (N * bool * call)%type.

Fixpoint run_script_from (w : world) (prev_ok : bool) (cs : list item) : list (res sobs) :=
  match cs with
  | [] => []
  | (ri, cond, cl) :: rest =>
    if cond && negb prev_ok then Ok SSkipped :: run_script_from w false rest
    else
      let (w', o) := step w ri cl in
      (* an abnormal outcome (panic/abort) ends the run: the state after it is not defined *)
      if definedb o then o :: run_script_from w' (is_ok o) rest else [o]
  end.
Definition run_script (w : world) (cs : list item) : list (res sobs) := run_script_from w true cs.
