(* Extract.v — extraction of the executable model to OCaml for the correspondence driver.
   Only ExtrOcamlBasic is used: bool, option, unit, list, prod, sumbool, sumor map to OCaml's;
   andb/orb are inlined.  N, positive, nat, byte, comparison stay Coq inductives. *)
From Coq Require Extraction ExtrOcamlBasic.
From RsdnsModel Require Import Base GenConst GenCursor GenLabels GenNames GenHeader Cursor Names Labels Header Tracker RData Reader Script Iter RecordSet Writer Client Timed TimedApi.
From RsdnsModel.Spec Require WireName NameText LinearPass.
Extraction Language OCaml.
Extraction "model.ml"
  Base.bN Base.Nb Base.lenN Byte.of_N Byte.to_N
  Cursor.c_new Cursor.c_with_pos
  Names.check_label_bytes Names.check_name_bytes Names.name_from_str Names.name_eq Names.name_cmp
  Names.name_hash_feed Names.name_eq_str
  Labels.read_name Labels.skip_name Labels.labels_drain Labels.nameref_eq Labels.name_fuel Script.world_init Script.run_script Script.step GenHeader.opt_dnssec_ok GenHeader.flag_qr GenHeader.flag_opcode GenHeader.flag_aa GenHeader.flag_tc GenHeader.flag_rd GenHeader.flag_ra GenHeader.flag_rcode N.div N.modulo Iter.iter_new Iter.iter_questions Iter.iter_records RecordSet.from_msg Writer.write_name Writer.query_write Writer.prepare_message Names.append_label_bytes
  Client.accept_datagram Client.udp_receive Client.tcp_exchange Client.query_raw_impl Client.client_query
  Timed.client_query_timed Timed.udp_history Timed.exchange_fuel TimedApi.client_call_timed TimedApi.client_rrset_timed
  WireName.spec_name WireName.label_ok WireName.join_labels WireName.wire_len NameText.valid_text NameText.canon_text NameText.text_labels LinearPass.linear_of LinearPass.astep LinearPass.a_init.
