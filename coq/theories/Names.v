(* Names.v — model of src/names/utils.rs, and the text-level parts of name.rs / inline_name.rs.
   A name's text is a [list byte] (Rust: String / ArrayString<255> holding ASCII). *)
From RsdnsModel Require Import Base GenConst GenNames.
Open Scope N_scope.

Definition dot : byte := x2e.

Definition check_label_bytes (label : list byte) : res unit :=
  match label with
  | [] => Err DomainNameLabelIsEmpty
  | _ =>
    let len := lenN label in
    if label_too_long len then Err (DomainNameLabelTooLong len) else
    match find (fun b => label_char_bad (bN b)) label with
    | Some b => Err (DomainNameLabelInvalidChar 0 (bN b))
    | None =>
      match getN label 0 with
      | None => UB                                     (* label.get_unchecked(0) *)
      | Some fc =>
        if label_first_bad (bN fc) then Err (DomainNameLabelInvalidChar 1 (bN fc)) else
        if label_last_index_nounderflow len then
          match getN label (label_last_index len) with
          | None => UB                                 (* label.get_unchecked(len - 1) *)
          | Some lc =>
            if label_last_bad (bN lc) then Err (DomainNameLabelInvalidChar 2 (bN lc)) else Ok tt
          end
        else Panic
      end
    end
  end.

(* the `for j in 0..len` loop of check_name_bytes / write_domain_name_bytes, parameterised by
   what is done with each label (check it / write it); [st] threads the writer state *)
Section NameLoop.
  Context {S : Type}.
  Variable on_label : S -> list byte -> res S.
  Variable name : list byte.

  Fixpoint name_loop (rest : list byte) (j i : N) (ds : option N) (st : S) : res (option N * S) :=
    match rest with
    | [] => Ok (ds, st)
    | b :: t =>
      if name_is_dot (bN b) then
        (* name.get_unchecked(i..j) requires i <= j <= len *)
        if (i <=? j) && (j <=? lenN name) then
          let* st' := on_label st (subN name i (j - i)) in
          name_loop t (j + 1) (j + 1) (Some (j + 1)) st'
        else UB
      else name_loop t (j + 1) i ds st
    end.

  Definition name_labels (st : S) : res S :=
    let len := lenN name in
    let* (ds, st1) := name_loop name 0 0 None st in
    match ds with
    | Some d =>
      if name_tail_nonempty_nounderflow len d then
        if name_tail_nonempty len d then
          (* name.get_unchecked(ds..len) *)
          if d <=? len then on_label st1 (subN name d (len - d)) else UB
        else Ok st1
      else Panic
    | None => on_label st1 name
    end.
End NameLoop.

Definition is_root_text (name : list byte) : bool :=
  match name with [b] => bN b =? 46 | _ => false end.

Definition check_name_bytes (name : list byte) : res unit :=
  match name with
  | [] => Err DomainNameLabelIsEmpty
  | _ =>
    if is_root_text name then Ok tt else
    let len := lenN name in
    let* _ := name_labels (fun (_ : unit) l => check_label_bytes l) name tt in
    match getN name (len - 1) with
    | None => UB
    | Some last =>
      let full := name_full_length (bN last) len in
      if name_too_long full then Err (DomainNameTooLong full) else Ok tt
    end
  end.

(* which of the two name types: String-backed Name or ArrayString<255>-backed InlineName *)
Inductive name_kind := Heap | Inline.

(* Name::from / InlineName::from (FromStr, TryFrom<&str>) *)
Definition name_from_str (nk : name_kind) (s : list byte) : res (list byte) :=
  let* _ := check_name_bytes s in
  (* ArrayString::from_str(s).unwrap() *)
  if (match nk with Inline => inline_capacity <? lenN s | Heap => false end) then Panic else
  match getN s (lenN s - 1) with
  | None => UB                                         (* bytes.get_unchecked(len - 1) *)
  | Some last =>
    if bN last =? 46 then Ok s
    else
      (* dn.arr.push('.') panics when full *)
      if (match nk with Inline => inline_capacity <? lenN s + 1 | Heap => false end) then Panic
      else Ok (s ++ [dot])
  end.

Definition append_label_bytes (nk : name_kind) (text label : list byte) : res (list byte) :=
  let* _ := check_label_bytes label in
  match nk with
  | Heap =>
    let new_len := name_new_len (lenN text) (lenN label) in
    if name_new_len_bad new_len then Err (DomainNameTooLong new_len)
    else Ok (text ++ label ++ [dot])
  | Inline =>
    if lenN text + lenN label <=? inline_capacity then
      let t1 := text ++ label in
      if lenN t1 + 1 <=? inline_capacity then Ok (t1 ++ [dot])
      else Err (DomainNameTooLong (inline_err_pushdot (lenN t1)))
    else Err (DomainNameTooLong (inline_err_pushstr (lenN text) (lenN label)))
  end.

(* PartialEq, Ord, Hash, PartialEq<&str> *)
Definition name_eq (a b : list byte) : bool := eq_ignore_ascii_case a b.

Fixpoint name_cmp (a b : list byte) : comparison :=
  match a, b with
  | [], [] => Eq
  | [], _ :: _ => Lt
  | _ :: _, [] => Gt
  | x :: a', y :: b' =>
    match N.compare (to_ascii_lowercase (bN x)) (to_ascii_lowercase (bN y)) with
    | Eq => name_cmp a' b'
    | c => c
    end
  end.

Definition name_hash_feed (a : list byte) : list N := map (fun b => to_ascii_lowercase (bN b)) a.

Definition ends_with_dot (s : list byte) : bool :=
  match rev s with b :: _ => bN b =? 46 | [] => false end.

Definition name_eq_str (text s : list byte) : bool :=
  let l_root := is_root_text text in
  let r_root := is_root_text s in
  if l_root && r_root then true
  else if negb l_root && negb r_root then
    let bytes := if negb (match text with [] => true | _ => false end) && negb (ends_with_dot s)
                 then removelast text else text in
    eq_ignore_ascii_case bytes s
  else false.
