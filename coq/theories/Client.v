(* Client.v — model of the logic the four clients share (src/clients/std/client_impl.rs and
   templates/async_client_impl.rs): the datagram filter of udp_receive_loop, the transport
   strategy of query_raw_impl, the TCP framing of tcp_exchange, and the time budget of the
   blocking client.  Sockets, clocks and timers are parameters: what is assumed of them is
   written where they are used (DESIGN.md section 8).  Leaves come from GenClient.v, translated
   separately from the blocking client and from the async template. *)
From RsdnsModel Require Import Base GenConst GenHeader GenClient Cursor Names Labels Header Tracker RData Reader.
Open Scope N_scope.

(* ---------------------------------------------------------------- UDP: the datagram filter *)
(* the body of udp_receive_loop on one delivered datagram [d] (what recv put into the buffer):
   Some flags = `return Ok((size, header.flags))`, None = `continue` *)
Definition accept_datagram (std : bool) (msg_id : N) (qname : list byte) (qtype qclass : N) (d : list byte) : res (option N) :=
  match reader_new d with
  | Ok r0 =>
    let (r1, h) := rd_header d r0 in
    match h with
    | Ok (OHeader hd) =>
      if (if std then std_id_mismatch (h_id hd) msg_id else async_id_mismatch (h_id hd) msg_id) then Ok None else
      let (_, q) := rd_question d true false r1 in
      match q with
      | Ok (OQuestion n qt qc) =>
        let m := if std then std_question_matches (qt =? qtype) (qc =? qclass) (name_eq_str n qname)
                 else async_question_matches (qt =? qtype) (qc =? qclass) (name_eq_str n qname) in
        Ok (if m then Some (h_flags hd) else None)
      | Ok _ => Panic
      | Err _ => Ok None
      | UB => UB | Panic => Panic | DebugAssert => DebugAssert | OutOfFuel => OutOfFuel
      end
    | Ok _ => Panic
    | Err _ => Ok None
    | UB => UB | Panic => Panic | DebugAssert => DebugAssert | OutOfFuel => OutOfFuel
    end
  | Err _ => Ok None       (* MessageReader::new fails (datagram > 65535): continue *)
  | UB => UB | Panic => Panic | DebugAssert => DebugAssert | OutOfFuel => OutOfFuel
  end.

(* the receive loop over the datagrams the socket delivers, in order; None: nothing accepted
   (the loop keeps waiting until its timeout fires) *)
Fixpoint udp_receive (std : bool) (msg_id : N) (qname : list byte) (qtype qclass : N) (ds : list (list byte))
  : res (option (list byte * N)) :=
  match ds with
  | [] => Ok None
  | d :: rest =>
    let* a := accept_datagram std msg_id qname qtype qclass d in
    match a with
    | Some fl => Ok (Some (d, fl))
    | None => udp_receive std msg_id qname qtype qclass rest
    end
  end.

(* ---------------------------------------------------------------- transport strategy *)
Inductive event := EvUdpExchange | EvTcpExchange.

(* query_raw_impl over the outcomes of the two exchanges (evaluated lazily in the code: the trace
   says which of them were started) *)
Definition query_raw_impl (std : bool) (strategy : N) (udp : res (list byte * N)) (tcp : res (list byte))
  : list event * res (list byte) :=
  let udp_first := if std then std_udp_first strategy else async_udp_first strategy in
  let tcp_allowed := if std then std_tcp_allowed strategy else async_tcp_allowed strategy in
  if udp_first then
    match udp with
    | Ok (d, fl) =>
      if (if std then std_tc_fallback (flag_tc fl) tcp_allowed else async_tc_fallback (flag_tc fl) tcp_allowed)
      then ([EvUdpExchange; EvTcpExchange], tcp)
      else ([EvUdpExchange], Ok d)
    | Err e => ([EvUdpExchange], Err e)
    | UB => ([EvUdpExchange], UB) | Panic => ([EvUdpExchange], Panic)
    | DebugAssert => ([EvUdpExchange], DebugAssert) | OutOfFuel => ([EvUdpExchange], OutOfFuel)
    end
  else ([EvTcpExchange], tcp).

(* ---------------------------------------------------------------- TCP framing *)
(* The byte stream as the peer segments it.  [read_exact k] repeatedly reads: each read returns
   a non-empty prefix of what is available (here: up to the end of the head segment); a stream
   that ends first gives UnexpectedEof.  This is the documented contract of read_exact of std and
   of the three async runtimes (trusted). *)
Fixpoint read_exact (k : nat) (segs : list (list byte)) {struct segs} : option (list byte * list (list byte)) :=
  match segs with
  | [] => match k with O => Some ([], []) | S _ => None end
  | s :: rest =>
    (fix from_seg (k : nat) (s : list byte) {struct s} : option (list byte * list (list byte)) :=
       match k with
       | O => Some ([], s :: rest)
       | S k' =>
         match s with
         | [] => read_exact (S k') rest             (* segment exhausted: next read() *)
         | b :: s' =>
           match from_seg k' s' with
           | Some (bs, r) => Some (b :: bs, r)
           | None => None
           end
         end
       end) k s
  end.

Definition IO_EOF : error := IoError 1.

(* tcp_exchange after the query was written: returns the bytes placed in the caller's buffer *)
Definition tcp_exchange (std : bool) (segs : list (list byte)) (buf_len : N) : res (list byte) :=
  match read_exact 2 segs with
  | None => Err IO_EOF
  | Some (prefix, rest) =>
    let n := be_val prefix 0 in
    if (if std then std_tcp_too_big n buf_len else async_tcp_too_big n buf_len) then Err (BufferTooShort n) else
    match read_exact (N.to_nat n) rest with
    | Some (body, _) => Ok body
    | None => Err IO_EOF
    end
  end.

(* ---------------------------------------------------------------- time budget (blocking client) *)
(* lifetime_left(): Err(Timeout) once the lifetime has elapsed, else what is left of it *)
Definition lifetime_left (elapsed lifetime : N) : res N :=
  if std_lifetime_over elapsed lifetime then Err Timeout
  else if std_lifetime_left_nounderflow elapsed lifetime then Ok (std_lifetime_left elapsed lifetime) else Panic.

(* query_left(): the timeout armed before each send/recv of the UDP exchange.
   [elapsed]: since the query started; [attempt_elapsed]: since the current transmission *)
Definition IO_TIMEDOUT : error := IoError 2.
Definition query_left (elapsed lifetime : N) (query_timeout : option N) (attempt_elapsed : N) : res N :=
  let* ll := lifetime_left elapsed lifetime in
  let timeout := match query_timeout with Some t => t | None => lifetime end in
  if std_attempt_over attempt_elapsed timeout then Err IO_TIMEDOUT
  else if std_query_left_nounderflow timeout attempt_elapsed ll then Ok (std_query_left timeout attempt_elapsed ll) else Panic.

(* tcp_read_exact_until: the timeout armed before each partial read of the TCP response *)
Definition tcp_read_timeout (elapsed lifetime : N) : res N :=
  if std_tcp_read_over elapsed lifetime then Err Timeout
  else if std_tcp_read_timeout_nounderflow elapsed lifetime then Ok (std_tcp_read_timeout elapsed lifetime) else Panic.

(* ---------------------------------------------------------------- one whole raw query *)
(* recv() truncates a datagram to the buffer it is given *)
Definition recv_into (buf_len : N) (d : list byte) : list byte := firstn (N.to_nat buf_len) d.

(* the UDP exchange over the datagrams delivered before the lifetime ends: nothing accepted is
   Timeout (retransmissions send the same bytes and do not change what is accepted) *)
Definition udp_outcome (std : bool) (msg_id : N) (qname : list byte) (qtype qclass buf_len : N) (ds : list (list byte))
  : res (list byte * N) :=
  let* r := udp_receive std msg_id qname qtype qclass (map (recv_into buf_len) ds) in
  match r with Some x => Ok x | None => Err Timeout end.

Definition client_query (std : bool) (strategy msg_id : N) (qname : list byte) (qtype qclass buf_len : N)
           (ds : list (list byte)) (segs : list (list byte)) : list event * res (list byte) :=
  query_raw_impl std strategy (udp_outcome std msg_id qname qtype qclass buf_len ds) (tcp_exchange std segs buf_len).

(* ---------------------------------------------------------------- which clock each deadline uses *)
(* [start]: when the call began; [query_start]: when the current UDP transmission was sent;
   [now]: when the timeout is armed.  The clock each function reads is a translated leaf. *)
Definition lifetime_left_at (now start query_start lifetime : N) : res N :=
  lifetime_left (now - std_clock_lifetime start query_start) lifetime.
Definition query_left_at (now start query_start lifetime : N) (query_timeout : option N) : res N :=
  query_left (now - std_clock_lifetime start query_start) lifetime query_timeout (now - std_clock_attempt start query_start).
Definition tcp_prefix_timeout_at (now start query_start lifetime : N) : res N :=
  tcp_read_timeout (now - std_clock_tcp_prefix start query_start) lifetime.
Definition tcp_body_timeout_at (now start query_start lifetime : N) : res N :=
  tcp_read_timeout (now - std_clock_tcp_body start query_start) lifetime.

(* ---------------------------------------------------------------- time budget (async clients) *)
(* The async template bounds the whole call with `timeout(D_call, query_raw_impl())` and every
   attempt's receive loop with `timeout(D_attempt, udp_receive_loop())` (tokio/async-std: the
   `timeout` function; smol: the `.timeout()` adaptor).  Which duration goes where is a translated
   leaf; the combinators themselves are trusted: armed with D at t they resolve by t + D. *)
Definition async_call_duration (smol : bool) (cfg_lifetime cfg_qt : N) : N :=
  (if smol then async_outer_timeout_smol else async_outer_timeout_tokio) (async_outer_timeout_src cfg_lifetime cfg_qt) 0.
Definition async_attempt_duration (smol : bool) (cfg_lifetime cfg_qt : N) : N :=
  (if smol then async_attempt_timeout_smol else async_attempt_timeout_tokio) 0 (async_attempt_timeout_src cfg_lifetime cfg_qt).

(* ---------------------------------------------------------------- the typed query and its reusable buffer *)
(* query_rrset takes the client's buffer, gives it the configured size (whatever it held before),
   lets the raw query receive into it, cuts it to the received length and parses that.
   [old]: what the buffer held (bytes of earlier responses); [d]: the accepted datagram / TCP body. *)
Definition recv_over (old d : list byte) : list byte := d ++ skipn (length d) old.
Definition typed_parse_input (std : bool) (old d : list byte) (buffer_size : N) : list byte :=
  let room := if std then std_take_buf_len 0 buffer_size else async_take_buf_len 0 buffer_size in
  let got := recv_into room d in
  let n := (if std then std_rrset_parse_len else async_rrset_parse_len) (lenN got) buffer_size in
  firstn (N.to_nat n) (recv_over old got).

(* ---- the reusable buffer across typed queries: `self.buf` as (capacity, len) ----
   One typed query: refuse with BadParam, or take the buffer (self.buf becomes the empty Vec), grow
   it if take_buf says so — Vec::reserve(additional) does nothing when capacity - len >= additional
   and otherwise guarantees capacity >= len + additional ([slack]: whatever more the allocator
   gives) —, set its length to what take_buf says, which is UNDEFINED BEHAVIOUR unless that is within
   the capacity (`unsafe { buf.set_len(..) }`), hand it to the raw query, and afterwards put it back
   cut to the response (completed), as it is (failed), or never (the future was dropped mid-flight:
   async clients).  The refusal test, the growth test, the amount reserved and the two lengths are
   translated leaves of both client families. *)
Inductive tq_event := TqDone (response_len : N) | TqFailed | TqDropped.
Inductive tq_out := TqRefused | TqUB | TqPanic | TqRan (buf_len : N).
Definition tq_step (std : bool) (bs : N) (st : N * N) (slack : N) (e : tq_event) : (N * N) * tq_out :=
  let (cap, len) := st in
  if (if std then std_rrset_refuse bs cap cap else async_rrset_refuse bs cap cap) then (st, TqRefused) else
  let grow := if std then std_take_buf_grow bs cap cap else async_take_buf_grow bs cap cap in
  let sub_ok := if std then std_take_buf_reserve_nounderflow bs cap cap else async_take_buf_reserve_nounderflow bs cap cap in
  if grow && negb sub_ok then ((0, 0), TqPanic) else
  let additional := if std then std_take_buf_reserve bs cap cap else async_take_buf_reserve bs cap cap in
  let cap1 := if grow then (if additional <=? cap - len then cap else len + additional + slack) else cap in
  let n := if std then std_take_buf_len 0 bs else async_take_buf_len 0 bs in
  if cap1 <? n then ((0, 0), TqUB) else
  match e with
  | TqDone r =>
    let m := (if std then std_rrset_parse_len else async_rrset_parse_len) r bs in
    if cap1 <? m then ((0, 0), TqUB) else ((cap1, m), TqRan n)
  | TqFailed => ((cap1, n), TqRan n)
  | TqDropped => ((0, 0), TqRan n)
  end.
Fixpoint tq_run (std : bool) (bs : N) (st : N * N) (h : list (N * tq_event)) : list tq_out :=
  match h with
  | [] => []
  | (slack, e) :: rest => let (st', o) := tq_step std bs st slack e in o :: tq_run std bs st' rest
  end.
