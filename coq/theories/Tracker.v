(* Tracker.v — model of message/reader/section_tracker.rs.  u16 counters: `read += 1` and
   `total - read` are [Panic] on overflow/underflow (debug semantics); `pos as u16` truncates. *)
From RsdnsModel Require Import Base GenConst GenTracker Header.
Open Scope N_scope.

Record counts := mkCounts { total : N; read : N }.
Record tri (A : Type) := mkTri { t0 : A; t1 : A; t2 : A }.
Arguments mkTri {A}. Arguments t0 {A}. Arguments t1 {A}. Arguments t2 {A}.
Definition tget {A} (t : tri A) (i : N) : A :=
  match i with 0 => t0 t | 1 => t1 t | _ => t2 t end.
Definition tset {A} (t : tri A) (i : N) (a : A) : tri A :=
  match i with 0 => mkTri a (t1 t) (t2 t) | 1 => mkTri (t0 t) a (t2 t) | _ => mkTri (t0 t) (t1 t) a end.

Record tracker := mkTr { qd : counts; secs : tri counts; offs : tri N }.
Definition tr_default : tracker :=
  mkTr (mkCounts 0 0) (mkTri (mkCounts 0 0) (mkCounts 0 0) (mkCounts 0 0)) (mkTri 0 0 0).

Definition set_total (c : counts) (t : N) : counts := mkCounts t (read c).
(* SectionTracker::set *)
Definition tr_set (tr : tracker) (h : header) : tracker :=
  mkTr (set_total (qd tr) (h_qd h))
       (mkTri (set_total (t0 (secs tr)) (h_an h)) (set_total (t1 (secs tr)) (h_ns h)) (set_total (t2 (secs tr)) (h_ar h)))
       (offs tr).
(* SectionTracker::new *)
Definition tr_new (h : header) : tracker :=
  mkTr (mkCounts (h_qd h) 0) (mkTri (mkCounts (h_an h) 0) (mkCounts (h_ns h) 0) (mkCounts (h_ar h) 0)) (mkTri 0 0 0).

Definition left (c : counts) : res N := checked_sub (total c) (read c).
Definition questions_left (tr : tracker) : res N := left (qd tr).
Definition records_left_in (tr : tracker) (s : N) : res N := left (tget (secs tr) s).
Definition records_left (tr : tracker) : res N :=
  let* a := left (t0 (secs tr)) in let* b := left (t1 (secs tr)) in let* c := left (t2 (secs tr)) in
  Ok (a + b + c).

Definition set_off (tr : tracker) (i v : N) : tracker := mkTr (qd tr) (secs tr) (tset (offs tr) i v).

(* next_section: inner `for p in (0..s_num).rev()` *)
Fixpoint ns_back (tr : tracker) (pos : N) (ps : list N) : tracker :=
  match ps with
  | [] => tr
  | p :: rest =>
    if ns_prev_empty (tget (offs tr) p) (total (tget (secs tr) p))
    then ns_back (set_off tr p (ns_pos_as_offset_prev pos)) pos rest
    else tr
  end.
Definition below (s : N) : list N := match s with 0 => [] | 1 => [0] | _ => [1; 0] end.

Fixpoint ns_try (tr : tracker) (pos : N) (ss : list N) : tracker * option N :=
  match ss with
  | [] => (tr, None)
  | s :: rest =>
    let c := tget (secs tr) s in
    if ns_has_unread (read c) (total c) then
      let tr1 := if ns_first_record (read c) (tget (offs tr) s)
                 then set_off tr s (ns_pos_as_offset pos) else tr in
      (ns_back tr1 pos (below s), Some s)
    else ns_try tr pos rest
  end.
Definition next_section (tr : tracker) (pos : N) : tracker * option N := ns_try tr pos [0; 1; 2].

Definition section_offset (tr : tracker) (s : N) : option N :=
  if offset_known (tget (offs tr) s) then Some (tget (offs tr) s) else None.

Definition tr_seek (tr : tracker) (s : N) : tracker :=
  let f i := let c := tget (secs tr) i in if i <? s then mkCounts (total c) (total c) else mkCounts (total c) 0 in
  mkTr (qd tr) (mkTri (f 0) (f 1) (f 2)) (offs tr).

(* the `for n in ..3` back-fill loops of section_read / question_read *)
Fixpoint fill_sr (tr : tracker) (pos : N) (ns : list N) : tracker :=
  match ns with
  | [] => tr
  | n :: rest =>
    if sr_off_unset (tget (offs tr) n) then
      let tr' := set_off tr n (sr_pos_as_offset pos) in
      if sr_nonempty (total (tget (secs tr) n)) then tr' else fill_sr tr' pos rest
    else tr
  end.
Fixpoint fill_qr (tr : tracker) (pos : N) (ns : list N) : tracker :=
  match ns with
  | [] => tr
  | n :: rest =>
    if qr_off_unset (tget (offs tr) n) then
      let tr' := set_off tr n (pos_as_offset pos) in
      if qr_nonempty (total (tget (secs tr) n)) then tr' else fill_qr tr' pos rest
    else tr
  end.
Definition above (s : N) : list N := match s with 0 => [1; 2] | 1 => [2] | _ => [] end.

Definition incr_u16 (v : N) : res N := if v <? 65535 then Ok (v + 1) else Panic.

Definition section_read (tr : tracker) (s pos : N) : res tracker :=
  let c := tget (secs tr) s in
  let* r := incr_u16 (read c) in
  let tr1 := mkTr (qd tr) (tset (secs tr) s (mkCounts (total c) r)) (offs tr) in
  if sr_last_record (total c) r then Ok (fill_sr tr1 pos (above s)) else Ok tr1.

Definition question_read (tr : tracker) (pos : N) : res tracker :=
  let c := qd tr in
  let* r := incr_u16 (read c) in
  let tr1 := mkTr (mkCounts (total c) r) (secs tr) (offs tr) in
  if qr_last_question (total c) r then Ok (fill_qr tr1 pos [0; 1; 2]) else Ok tr1.
