(* GenSpec.v — what the proofs need of each generated leaf, in mathematical form.
   These lemmas are the only place where an edit of a translated Rust expression can break a
   proof: they are re-checked whenever Gen*.v changes.  Property proofs use the leaves only
   through these lemmas. *)
From Coq Require Import ZArith.
From RsdnsModel Require Import Base GenConst GenCursor GenLabels GenNames.
From Coq Require Import ZifyBool ZifyN.
Open Scope N_scope.

(* all 256 bytes, for finite sweeps lifted with forallb_forall *)
Definition all_bytes : list byte := map Nb (map N.of_nat (seq 0 256)).
Lemma all_bytes_nth : forall b : byte, nth_error all_bytes (N.to_nat (bN b)) = Some b.
Proof. intro b; destruct b; vm_compute; reflexivity. Qed.
Lemma all_bytes_complete : forall b : byte, In b all_bytes.
Proof. intro b. eapply nth_error_In, all_bytes_nth. Qed.
Lemma byte_sweep (P : byte -> bool) : forallb P all_bytes = true -> forall b, P b = true.
Proof. intros H b. rewrite forallb_forall in H. apply H, all_bytes_complete. Qed.
Lemma byte_sweep2 (P : byte -> byte -> bool) :
  forallb (fun a => forallb (P a) all_bytes) all_bytes = true -> forall a b, P a b = true.
Proof. intros H a b. apply (byte_sweep (P a)). apply (byte_sweep (fun a => forallb (P a) all_bytes) H). Qed.
Lemma byte_sweep_eqb (f g : byte -> bool) :
  forallb (fun b => Bool.eqb (f b) (g b)) all_bytes = true -> forall b, f b = g b.
Proof. intros H b. apply Bool.eqb_true_iff. exact (byte_sweep _ H b). Qed.
Lemma byte_sweep2_eqN (f g : byte -> byte -> N) :
  forallb (fun a => forallb (fun b => f a b =? g a b) all_bytes) all_bytes = true -> forall a b, f a b = g a b.
Proof. intros H a b. apply N.eqb_eq. exact (byte_sweep2 (fun a b => f a b =? g a b) H a b). Qed.
Lemma bN_lt_256 (b : byte) : bN b < 256.
Proof. unfold bN. pose proof (Byte.to_N_bounded b). lia. Qed.

(* constants *)
Lemma DOMAIN_NAME_MAX_LENGTH_spec : DOMAIN_NAME_MAX_LENGTH = 255. Proof. reflexivity. Qed.
Lemma DOMAIN_NAME_LABEL_MAX_LENGTH_spec : DOMAIN_NAME_LABEL_MAX_LENGTH = 63. Proof. reflexivity. Qed.
Lemma DOMAIN_NAME_MAX_POINTERS_spec : DOMAIN_NAME_MAX_POINTERS = 32. Proof. reflexivity. Qed.
Lemma HEADER_LENGTH_spec : HEADER_LENGTH = 12. Proof. reflexivity. Qed.
Lemma DNS_MESSAGE_MAX_LENGTH_spec : DNS_MESSAGE_MAX_LENGTH = 65535. Proof. reflexivity. Qed.
Lemma DNS_MESSAGE_BUFFER_MIN_LENGTH_spec : DNS_MESSAGE_BUFFER_MIN_LENGTH = 512. Proof. reflexivity. Qed.

(* cursor.rs / macros.rs *)
Lemma cursor_len_spec cap p : cursor_len cap p = cap - p. Proof. reflexivity. Qed.
Lemma cursor_is_empty_spec len : cursor_is_empty len = (len =? 0). Proof. reflexivity. Qed.
Lemma window_guard_spec p cap len size : window_guard p cap len size = true <-> p <= cap /\ size <= len.
Proof. unfold window_guard. lia. Qed.
Lemma window_end_spec p size : window_end p size = p + size. Proof. reflexivity. Qed.
Lemma close_window_guard_spec p bl : close_window_guard p bl = true <-> p = bl.
Proof. unfold close_window_guard. lia. Qed.
Lemma skip_guard_spec len d : skip_guard len d = true <-> d <= len.
Proof. unfold skip_guard. lia. Qed.
Lemma u8_guard_spec e : u8_guard e = negb e. Proof. reflexivity. Qed.
Lemma slice_guard_spec p cap len size : slice_guard p cap len size = true <-> p <= cap /\ size <= len.
Proof. unfold slice_guard. lia. Qed.
Lemma slice_lo_spec p size : slice_lo p size = p. Proof. reflexivity. Qed.
Lemma slice_hi_spec p size : slice_hi p size = p + size. Proof. reflexivity. Qed.
Lemma r_be_guard_spec len size : r_be_guard len size = true <-> size <= len.
Proof. unfold r_be_guard. lia. Qed.
Lemma ru_be_assert_spec len size : ru_be_assert len size = true <-> size <= len.
Proof. unfold ru_be_assert. lia. Qed.

(* labels.rs / labels/macros.rs *)
Lemma is_length_spec (b : byte) : is_length (bN b) = (bN b <? 64).
Proof. revert b. apply (byte_sweep_eqb (fun b => is_length (bN b)) (fun b => bN b <? 64)). vm_compute. reflexivity. Qed.
Lemma is_pointer_spec (b : byte) : is_pointer (bN b) = (192 <=? bN b).
Proof. revert b. apply (byte_sweep_eqb (fun b => is_pointer (bN b)) (fun b => 192 <=? bN b)). vm_compute. reflexivity. Qed.
Lemma pointer_to_offset_spec (o1 o2 : byte) :
  pointer_to_offset (bN o1) (bN o2) = (bN o1 mod 64) * 256 + bN o2.
Proof. revert o1 o2.
  apply (byte_sweep2_eqN (fun o1 o2 => pointer_to_offset (bN o1) (bN o2)) (fun o1 o2 => (bN o1 mod 64) * 256 + bN o2)).
  vm_compute. reflexivity. Qed.
Lemma label_is_root_spec l : label_is_root l = (l =? 0). Proof. reflexivity. Qed.
Lemma max_pos_unset_spec mp : max_pos_unset mp = (mp =? 0). Proof. reflexivity. Qed.
Lemma ptr_bad_nounderflow_spec off mp : ptr_bad_nounderflow off mp = (2 <=? mp). Proof. reflexivity. Qed.
Lemma ptr_bad_spec off mp : 2 <= mp -> (ptr_bad off mp = false <-> off + 2 < mp).
Proof. unfold ptr_bad. lia. Qed.
Lemma too_many_pointers_spec n : too_many_pointers n = true <-> 32 < n.
Proof. unfold too_many_pointers. rewrite DOMAIN_NAME_MAX_POINTERS_spec. lia. Qed.
Lemma name_wire_too_long_spec n : name_wire_too_long n = true <-> 255 <= n.
Proof. unfold name_wire_too_long. rewrite DOMAIN_NAME_MAX_LENGTH_spec. lia. Qed.
Lemma name_wire_len_err_spec n : name_wire_len_err n = n + 1. Proof. reflexivity. Qed.

(* names/utils.rs, name.rs, inline_name.rs *)
Lemma label_too_long_spec n : label_too_long n = true <-> 63 < n.
Proof. unfold label_too_long. rewrite DOMAIN_NAME_LABEL_MAX_LENGTH_spec. lia. Qed.
Definition label_byte_ok (v : N) : bool :=
  ((48 <=? v) && (v <=? 57)) || ((65 <=? v) && (v <=? 90)) || ((97 <=? v) && (v <=? 122))
  || (v =? 45) || (v =? 95).
Lemma label_char_bad_spec v : label_char_bad v = negb (label_byte_ok v).
Proof. unfold label_char_bad, label_byte_ok, is_ascii_alphanumeric. reflexivity. Qed.
Lemma label_first_bad_spec v : label_first_bad v = (v =? 45). Proof. reflexivity. Qed.
Lemma label_last_bad_spec v : label_last_bad v = (v =? 45). Proof. reflexivity. Qed.
Lemma label_last_index_spec n : label_last_index n = n - 1. Proof. reflexivity. Qed.
Lemma label_last_index_nounderflow_spec n : label_last_index_nounderflow n = (1 <=? n). Proof. reflexivity. Qed.
Lemma name_is_dot_spec v : name_is_dot v = (v =? 46). Proof. reflexivity. Qed.
Lemma name_tail_nonempty_spec len ds : name_tail_nonempty len ds = (0 <? len - ds). Proof. reflexivity. Qed.
Lemma name_tail_nonempty_nounderflow_spec len ds : name_tail_nonempty_nounderflow len ds = (ds <=? len). Proof. reflexivity. Qed.
Lemma name_full_length_spec last len :
  name_full_length last len = if last =? 46 then len + 1 else len + 2. Proof. reflexivity. Qed.
Lemma name_too_long_spec n : name_too_long n = true <-> 255 < n.
Proof. unfold name_too_long. rewrite DOMAIN_NAME_MAX_LENGTH_spec. lia. Qed.
Lemma name_new_len_spec a b : name_new_len a b = a + b + 1. Proof. reflexivity. Qed.
Lemma name_new_len_bad_spec n : name_new_len_bad n = true <-> 255 < n.
Proof. unfold name_new_len_bad. rewrite DOMAIN_NAME_MAX_LENGTH_spec. lia. Qed.
Lemma inline_err_pushstr_spec a b : inline_err_pushstr a b = a + b + 1. Proof. reflexivity. Qed.
Lemma inline_err_pushdot_spec a : inline_err_pushdot a = a + 1. Proof. reflexivity. Qed.
Lemma inline_capacity_spec : inline_capacity = 255. Proof. reflexivity. Qed.
