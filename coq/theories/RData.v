(* RData.v — model of records/data/{macros,rfc1035,rfc3596}.rs and message/character_string.rs:
   the 17 typed RDATA decoders, each inside an RDLENGTH window. *)
From RsdnsModel Require Import Base GenConst GenCursor GenRData Cursor Names Labels.
Open Scope N_scope.

Inductive rdata :=
| RD_A (addr : N)
| RD_Aaaa (addr : N)
| RD_Name (ty : N) (name : list byte)             (* NS MD MF CNAME MB MG MR PTR *)
| RD_Hinfo (cpu os : list byte)
| RD_Wks (addr proto : N) (bitmap : list byte)
| RD_Minfo (rmailbx emailbx : list byte)
| RD_Mx (pref : N) (exchange : list byte)
| RD_Null (anything : list byte)
| RD_Soa (mname rname : list byte) (serial refresh retry expire minimum : N)
| RD_Txt (text : list byte).

(* RTYPE numbers *)
Definition T_A := 1. Definition T_NS := 2. Definition T_MD := 3. Definition T_MF := 4.
Definition T_CNAME := 5. Definition T_SOA := 6. Definition T_MB := 7. Definition T_MG := 8.
Definition T_MR := 9. Definition T_NULL := 10. Definition T_WKS := 11. Definition T_PTR := 12.
Definition T_HINFO := 13. Definition T_MINFO := 14. Definition T_MX := 15. Definition T_TXT := 16.
Definition T_AAAA := 28. Definition T_OPT := 41.

Section WithMsg.
  Variable msg : list byte.

  Definition m_name : M (list byte) := lift (read_name msg Heap).
  Definition m_u8 : M N := lift (c_u8 msg).
  Definition m_u16 : M N := lift (c_u16 msg).
  Definition m_u32 : M N := lift (c_u32 msg).
  Definition m_u128 : M N := lift (c_u128 msg).
  Definition m_slice (n : N) : M (list byte) :=
    lift (fun c => let* (_, bs, c') := c_slice msg c n in Ok (bs, c')).
  Definition m_window (n : N) : M unit := lift_c (fun c => c_window c n).
  Definition m_close : M unit := lift_c c_close_window.

  (* read_character_string *)
  Definition m_charstr : M (list byte) := do* len <- m_u8; m_slice len.

  (* Txt: `while rd_len > 0 { len = u8()?; if len > 0 { extend(slice(len)?) }; rd_len -= len + 1 }` *)
  Fixpoint txt_loop (fuel : nat) (rd_len : N) (acc : list byte) : M (list byte) :=
    match fuel with
    | O => mfail OutOfFuel
    | S f =>
      if txt_more rd_len then
        do* len <- m_u8;
        do* chunk <- (if txt_chunk_nonempty len then m_slice len else mret []);
        let used := txt_consumed len in
        if used <=? rd_len then txt_loop f (rd_len - used) (acc ++ chunk) else mfail Panic
      else mret acc
    end.

  Definition in_window {X} (rd_len : N) (body : M X) : M X :=
    do* _ <- m_window rd_len; do* x <- body; do* _ <- m_close; mret x.

  Definition is_name_type (ty : N) : bool :=
    (ty =? T_NS) || (ty =? T_MD) || (ty =? T_MF) || (ty =? T_CNAME) || (ty =? T_MB) || (ty =? T_MG)
    || (ty =? T_MR) || (ty =? T_PTR).

  (* D::from_cursor(c, rd_len) for the record-data type with RTYPE [ty]; None: not one of the 17 *)
  Definition read_rdata (ty : N) (rd_len : N) : option (M rdata) :=
    if ty =? T_A then Some (in_window rd_len (do* a <- m_u32; mret (RD_A a)))
    else if ty =? T_AAAA then Some (in_window rd_len (do* a <- m_u128; mret (RD_Aaaa a)))
    else if is_name_type ty then Some (in_window rd_len (do* n <- m_name; mret (RD_Name ty n)))
    else if ty =? T_HINFO then Some (in_window rd_len (do* cpu <- m_charstr; do* os <- m_charstr; mret (RD_Hinfo cpu os)))
    else if ty =? T_WKS then Some (in_window rd_len (
        do* a <- m_u32; do* p <- m_u8;
        if wks_bitmap_len_nounderflow rd_len then
          do* bm <- m_slice (wks_bitmap_len rd_len); mret (RD_Wks a p bm)
        else mfail Panic))
    else if ty =? T_MINFO then Some (in_window rd_len (do* r <- m_name; do* e <- m_name; mret (RD_Minfo r e)))
    else if ty =? T_MX then Some (in_window rd_len (do* p <- m_u16; do* e <- m_name; mret (RD_Mx p e)))
    else if ty =? T_NULL then Some (in_window rd_len (do* b <- m_slice rd_len; mret (RD_Null b)))
    else if ty =? T_SOA then Some (in_window rd_len (
        do* mn <- m_name; do* rn <- m_name; do* s <- m_u32; do* rf <- m_u32; do* rt <- m_u32;
        do* ex <- m_u32; do* mi <- m_u32; mret (RD_Soa mn rn s rf rt ex mi)))
    else if ty =? T_TXT then Some (
        do* _ <- m_window rd_len;
        do* t <- txt_loop (S (N.to_nat rd_len)) rd_len [];
        do* _ <- m_close; mret (RD_Txt t))
    else None.
End WithMsg.
