(* RecordSet.v — model of records/record_set.rs: RecordSet::<D>::from_msg. *)
From RsdnsModel Require Import Base GenConst GenHeader GenTypes Cursor Names Labels Header Tracker RData Reader.
Open Scope N_scope.

Record rrset := mkRRset { rs_name : list byte; rs_class : N; rs_ttl : N; rs_data : list rdata }.

(* a collected answer header: borrowed owner name + marker; None once consumed (`o.take()`) *)
Definition hdr := option (cursor * marker).

Section WithMsg.
  Variable msg : list byte.

  (* read_answer_headers: `while has_records_in(Answer) { record_header_ref()?; skip_record_data()? }` *)
  Fixpoint read_answer_headers (fuel : nat) (r : reader) (acc : list hdr) : reader * res (list hdr) :=
    match fuel with
    | O => (r, OutOfFuel)
    | S f =>
      match rd_records_count_in 0 r with
      | Ok (ONum n) =>
        if 0 <? n then
          bind2 (rd_header_ref msg r) (fun r1 o =>
            match o with
            | OHeaderRef c mk =>
              bind2 (rd_skip_data mk r1) (fun r2 _ => read_answer_headers f r2 (acc ++ [Some (c, mk)]))
            | _ => (r1, Panic)
            end)
        else (r, Ok acc)
      | Ok _ => (r, Panic)
      | Err e => (r, Err e) | UB => (r, UB) | Panic => (r, Panic)
      | DebugAssert => (r, DebugAssert) | OutOfFuel => (r, OutOfFuel)
      end
    end.

  (* read_opt: `while has_records() { marker; if OPT { opt_record; break } else skip }` *)
  Fixpoint read_opt (fuel : nat) (r : reader) : reader * res (option opt) :=
    match fuel with
    | O => (r, OutOfFuel)
    | S f =>
      match rd_records_count r with
      | Ok (ONum n) =>
        if 0 <? n then
          bind2 (rd_marker msg r) (fun r1 o =>
            match o with
            | OMarker mk =>
              if m_rtype mk =? T_OPT then
                bind2 (rd_opt mk r1) (fun r2 o2 => match o2 with OOpt x => (r2, Ok (Some x)) | _ => (r2, Panic) end)
              else bind2 (rd_skip_data mk r1) (fun r2 _ => read_opt f r2)
            | _ => (r1, Panic)
            end)
        else (r, Ok None)
      | Ok _ => (r, Panic)
      | Err e => (r, Err e) | UB => (r, UB) | Panic => (r, Panic)
      | DebugAssert => (r, DebugAssert) | OutOfFuel => (r, OutOfFuel)
      end
    end.

  (* extract_rrset: one pass over the remaining headers *)
  Fixpoint extract_rrset (ty : N) (r : reader) (name : cursor) (rclass : N) (hs : list hdr)
           (ttl : N) (data : list rdata) (done_hs : list hdr) : res (list hdr * N * list rdata) :=
    match hs with
    | [] => Ok (done_hs, ttl, data)
    | None :: rest => extract_rrset ty r name rclass rest ttl data (done_hs ++ [None])
    | Some (c, mk) :: rest =>
      let* same := nameref_eq msg c name in
      if same && (m_rtype mk =? ty) && (m_rclass mk =? rclass) then
        let* o := rd_data_at msg ty mk r in
        match o with
        | ORData d => extract_rrset ty r name rclass rest (N.min ttl (m_ttl mk)) (data ++ [d]) (done_hs ++ [None])
        | _ => Panic
        end
      else extract_rrset ty r name rclass rest ttl data (done_hs ++ [Some (c, mk)])
    end.

  (* extract_cname: first matching CNAME header; returns the new name and the headers without it *)
  Fixpoint extract_cname (r : reader) (name : cursor) (rclass : N) (hs : list hdr) (done_hs : list hdr)
    : res (option (cursor * list hdr)) :=
    match hs with
    | [] => Ok None
    | None :: rest => extract_cname r name rclass rest (done_hs ++ [None])
    | Some (c, mk) :: rest =>
      let* same := nameref_eq msg c name in
      if same && (m_rtype mk =? T_CNAME) && (m_rclass mk =? rclass) then
        Ok (Some (c_clone_with_pos (r_cur r) (rdata_pos mk), done_hs ++ [None] ++ rest))
      else extract_cname r name rclass rest (done_hs ++ [Some (c, mk)])
    end.

  Fixpoint chase (fuel : nat) (ty : N) (r : reader) (name : cursor) (rclass : N) (hs : list hdr)
    : res (cursor * N * list rdata) :=
    match fuel with
    | O => OutOfFuel
    | S f =>
      let* (hs1, ttl, data) := extract_rrset ty r name rclass hs 4294967295 [] [] in
      match data with
      | _ :: _ => Ok (name, ttl, data)
      | [] =>
        let* oc := extract_cname r name rclass hs1 [] in
        match oc with
        | Some (n, hs2) => chase f ty r n rclass hs2
        | None => Err NoAnswer
        end
      end
    end.

  Definition rec_fuel : nat := S (S (N.to_nat (lenN msg))).

  Definition from_msg (ty : N) : res rrset :=
    let* r0 := reader_new msg in
    let (r1, h) := rd_header msg r0 in
    let* h := h in
    match h with
    | OHeader hd =>
      let flags := h_flags hd in
      if negb (flag_qr flags) then Err (BadMessageType false) else
      if flag_tc flags then Err MessageTruncated else
      let (r2, q) := rd_question msg true true r1 in
      let* q := q in
      match q with
      | OQuestionRef qname _ qclass =>
        let (r3, hs) := read_answer_headers rec_fuel r2 [] in
        let* hs := hs in
        let (r4, o) := read_opt rec_fuel r3 in
        let* o := o in
        let rc := match o with
                  | Some x => rcode_extended (flag_rcode flags) (opt_ext x)
                  | None => flag_rcode flags end in
        if negb (rc =? 0) then Err (BadResponseCode rc) else
        let* (name, ttl, data) := chase (S (length hs)) ty r4 qname qclass hs in
        let* (t, _) := read_name msg Heap name in
        Ok (mkRRset t qclass ttl data)
      | _ => Panic
      end
    | _ => Panic
    end.
End WithMsg.
