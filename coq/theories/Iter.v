(* Iter.v — model of message_iterator.rs, questions.rs, records.rs (the iterator API). *)
From RsdnsModel Require Import Base GenConst GenCursor GenTypes GenReader Cursor Names Labels Header Tracker RData Reader.
Open Scope N_scope.

Definition type_defined (t : N) : bool :=
  match getN TYPE_KNOWN t with Some v => negb (v =? 0) | None => false end.
Definition class_defined (c : N) : bool :=
  match getN CLASS_KNOWN c with Some v => negb (v =? 0) | None => false end.

Record rr := mkRR { rr_section : N; rr_name : list byte; rr_class : N; rr_type : N; rr_ttl : N; rr_data : rdata }.

Section WithMsg.
  Variable msg : list byte.

  (* `for _ in 0..qd_count { c.skip_question()? }` *)
  Fixpoint skip_n_questions (n : nat) : M unit :=
    match n with O => mret tt | S k => do* _ <- m_skip_question msg; skip_n_questions k end.

  (* MessageIterator::new: header + pre-computed answers offset *)
  Definition iter_new : res (header * N) :=
    let (c1, h) := read_header msg (c_new msg) in
    let* h := h in
    let (c2, r) := skip_n_questions (N.to_nat (h_qd h)) (c_with_pos msg HEADER_LENGTH) in
    let* _ := r in Ok (h, pos c2).

  (* Questions iterator drained: items, then the error that stopped it (if any) *)
  Fixpoint questions_drain (n : nat) (c : cursor) (acc : list obs) : list obs * option (res obs) :=
    match n with
    | O => (rev acc, None)
    | S k =>
      let (c', r) := m_question msg c in
      match r with
      | Ok q => questions_drain k c' (q :: acc)
      | other => (rev acc, Some other)
      end
    end.
  Definition iter_questions (h : header) := questions_drain (N.to_nat (h_qd h)) (c_with_pos msg HEADER_LENGTH) [].

  Record records_it := mkRecIt { ri_cur : cursor; ri_tr : tracker; ri_err : bool }.

  Inductive rstep := RNone | RItem (r : rr).

  (* read_impl *)
  Fixpoint records_read_impl (fuel : nat) (it : records_it) : records_it * res rstep :=
    match fuel with
    | O => (it, OutOfFuel)
    | S f =>
      let (tr1, sec) := next_section (ri_tr it) (pos (ri_cur it)) in
      let it1 := mkRecIt (ri_cur it) tr1 (ri_err it) in
      match sec with
      | None => (it1, Ok RNone)
      | Some s =>
        let dnpos := pos (ri_cur it) in
        let (c1, r) := (do* _ <- lift_c (skip_name msg); do* ty <- lift (c_u16 msg); do* cl <- lift (c_u16 msg);
                        do* ttl <- lift (c_u32 msg); do* rdlen <- lift (c_u16 msg); mret (ty, cl, ttl, rdlen)) (ri_cur it) in
        match r with
        | Ok (ty, cl, ttl, rdlen) =>
          if iter_skip_unknown (class_defined cl) (type_defined ty) then
            match c_skip c1 rdlen with
            | Ok c2 =>
              match section_read tr1 s (pos c2) with
              | Ok tr2 => records_read_impl f (mkRecIt c2 tr2 (ri_err it))
              | Err e => (mkRecIt c2 tr1 (ri_err it), Err e) | UB => (it1, UB) | Panic => (it1, Panic)
              | DebugAssert => (it1, DebugAssert) | OutOfFuel => (it1, OutOfFuel)
              end
            | Err e => (mkRecIt c1 tr1 (ri_err it), Err e) | UB => (it1, UB) | Panic => (it1, Panic)
            | DebugAssert => (it1, DebugAssert) | OutOfFuel => (it1, OutOfFuel)
            end
          else
            match read_rdata msg ty rdlen with
            | None => (mkRecIt c1 tr1 (ri_err it), Err (UnexpectedType ty))
            | Some m =>
              (* name: self.cursor.clone_with_pos(pos).read()? — before the data *)
              match read_name msg Inline (c_clone_with_pos c1 dnpos) with
              | Ok (nm, _) =>
                let (c2, d) := m c1 in
                match d with
                | Ok d =>
                  match section_read tr1 s (pos c2) with
                  | Ok tr2 => (mkRecIt c2 tr2 (ri_err it), Ok (RItem (mkRR s nm cl ty ttl d)))
                  | Err e => (mkRecIt c2 tr1 (ri_err it), Err e) | UB => (it1, UB) | Panic => (it1, Panic)
                  | DebugAssert => (it1, DebugAssert) | OutOfFuel => (it1, OutOfFuel)
                  end
                | Err e => (mkRecIt c2 tr1 (ri_err it), Err e) | UB => (it1, UB) | Panic => (it1, Panic)
                | DebugAssert => (it1, DebugAssert) | OutOfFuel => (it1, OutOfFuel)
                end
              | Err e => (mkRecIt c1 tr1 (ri_err it), Err e) | UB => (it1, UB) | Panic => (it1, Panic)
              | DebugAssert => (it1, DebugAssert) | OutOfFuel => (it1, OutOfFuel)
              end
            end
        | Err e => (mkRecIt c1 tr1 (ri_err it), Err e) | UB => (it1, UB) | Panic => (it1, Panic)
        | DebugAssert => (it1, DebugAssert) | OutOfFuel => (it1, OutOfFuel)
        end
      end
    end.

  Definition iter_fuel : nat := S (S (N.to_nat (lenN msg))).

  (* drain records(): items, then Some err if the iterator stopped on an error *)
  Fixpoint records_drain (n : nat) (it : records_it) (acc : list rr) : res (list rr * option error) :=
    match n with
    | O => OutOfFuel
    | S k =>
      let (it', r) := records_read_impl iter_fuel it in
      match r with
      | Ok RNone => Ok (rev acc, None)
      | Ok (RItem x) => records_drain k it' (x :: acc)
      | Err e => Ok (rev acc, Some e)
      | UB => UB | Panic => Panic | DebugAssert => DebugAssert | OutOfFuel => OutOfFuel
      end
    end.

  Definition iter_records (h : header) (answers_off : N) : res (list rr * option error) :=
    records_drain iter_fuel (mkRecIt (c_with_pos msg answers_off) (tr_new h) false) [].
End WithMsg.
