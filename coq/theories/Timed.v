(* Timed.v — the four clients as machines over TIME: the retry loop of the UDP exchange, the
   fallback to TCP and the TCP reads, for the blocking client (src/clients/std/client_impl.rs:
   udp_exchange / udp_receive_loop / tcp_exchange / tcp_read_exact_until, which compute relative
   socket timeouts from clock readings) and for the async template (templates/async_client_impl.rs:
   udp_exchange_loop / udp_receive_loop under `timeout(query_timeout, ..)`, the whole call under
   `timeout(query_lifetime, ..)`).

   What is code: the order of clock reading, arming, sending, receiving, the conditions under which
   an attempt or the call ends, what is returned.  The arithmetic of every armed timeout, the clock
   it reads and which configured duration feeds which timer are translated leaves (GenClient.v).

   What is world (parameters, assumed — DESIGN.md section 8): time is a number; a socket is a queue
   of arrivals (instant, datagram) in delivery order; a blocking receive armed at [now] with timeout
   tau returns the head of the queue at max(now, its instant) if that instant is earlier than
   now + tau, and otherwise reports a time-out at now + tau + jit(now) ([jit]: how late that timer
   fires; the theorems bound it by a slack eps, the exact ones set it to 0); an async timer with
   deadline dl fires at dl + jit(dl) unless the inner future completed on an arrival earlier than
   dl; in the blocking client, whose control flow depends on clock readings, handling a delivered
   datagram or TCP byte takes proc(instant) ([proc]: CPU time; bounded by eps like [jit], 0 in the
   exact theorems) — for the async clients, whose code never reads a clock, CPU time is part of the
   timers' lateness; sending takes no time.  A TCP peer is the delay after which it accepts, the
   instants at which the bytes of its reply become readable and the instant it closes. *)
From RsdnsModel Require Import Base GenTypes GenHeader GenClient Client RecordSet.
Open Scope N_scope.

Definition arrival := (N * list byte)%type.

Definition is_timedout (e : error) : bool := match e with IoError k => k =? 2 | _ => false end.

(* ClientCtx::query_raw: a socket time-out (TimedOut / WouldBlock) leaves as Error::Timeout *)
Definition map_timeout {A} (r : res A) : res A :=
  match r with Err e => if is_timedout e then Err Timeout else Err e | o => o end.

Definition retype {A B} (r : res A) (dflt : res B) : res B :=
  match r with Ok _ => dflt | Err e => Err e | UB => UB | Panic => Panic | DebugAssert => DebugAssert | OutOfFuel => OutOfFuel end.

Record tcp_peer := { tp_accept : option N;            (* delay until the connection is established; None: never *)
                     tp_bytes : list (N * byte);      (* instant at which each byte of the reply becomes readable *)
                     tp_eof : option N }.             (* instant the peer closes (after its bytes); None: never *)

Section Timed.
(* the datagram filter applied to what recv put into the caller's buffer *)
Variable acc : list byte -> res (option N).
Variables (start lifetime : N) (qt : option N).
Variable jit : N -> N.
Variable proc : N -> N.
Variable buf_len : N.

(* ================================================================ blocking client *)
(* udp_receive_loop of the attempt sent at [qs], entered at [now], over the socket queue [arrs]:
   outcome, instant it returns, what is left in the queue *)
Fixpoint std_recv_loop (qs : N) (arrs : list arrival) (now : N) : res (list byte * N) * N * list arrival :=
  match query_left_at now start qs lifetime qt with                 (* set_timeout_udp(query_left()?) *)
  | Ok tau =>
    match arrs with                                                 (* recv *)
    | [] => (Err IO_TIMEDOUT, now + tau + jit now, [])
    | (t, d) :: rest =>
      if t <? now + tau then
        let now' := N.max now t + proc (N.max now t) in
        match acc d with
        | Ok (Some fl) => (Ok (d, fl), now', rest)
        | Ok None => std_recv_loop qs rest now'                     (* continue *)
        | o => (retype o Panic, now', rest)
        end
      else (Err IO_TIMEDOUT, now + tau + jit now, arrs)
    end
  | o => (retype o Panic, now, arrs)
  end.

(* udp_exchange entered at [now]: instants of the transmissions, outcome, instant, queue *)
Fixpoint std_udp_exchange (fuel : nat) (arrs : list arrival) (now : N) : list N * res (list byte * N) * N * list arrival :=
  match fuel with
  | O => ([], OutOfFuel, now, arrs)
  | S f =>
    (* self.query_start = Instant::now(); set_timeout_udp(query_left()?) *)
    match query_left_at now start now lifetime qt with
    | Ok _ =>
      (* send *)
      match std_recv_loop now arrs now with
      | (Err e, t, rest) =>
        if is_timedout e then
          match std_udp_exchange f rest t with (s, r, t', rest') => (now :: s, r, t', rest') end
        else ([now], Err e, t, rest)
      | (r, t, rest) => ([now], r, t, rest)
      end
    | o => ([], retype o Panic, now, arrs)
    end
  end.

(* tcp_read_exact_until: [need] more bytes wanted; the timeout armed before every read is
   [timeout_at now] (prefix and body read the clock through different translated leaves) *)
Fixpoint std_tcp_read (timeout_at : N -> res N) (need : nat) (bs : list (N * byte)) (eof : option N) (now : N) (got : list byte)
  : res (list byte) * N * list (N * byte) :=
  match need with
  | O => (Ok got, now, bs)
  | S k =>
    match timeout_at now with
    | Ok tau =>
      match bs with
      | (t, b) :: rest =>
        if t <? now + tau then std_tcp_read timeout_at k rest eof (N.max now t + proc (N.max now t)) (got ++ [b])
        else (Err IO_TIMEDOUT, now + tau + jit now, bs)
      | [] =>
        match eof with
        | Some te => if te <? now + tau then (Err IO_EOF, N.max now te, []) else (Err IO_TIMEDOUT, now + tau + jit now, [])
        | None => (Err IO_TIMEDOUT, now + tau + jit now, [])
        end
      end
    | o => (retype o Panic, now, bs)
    end
  end.

(* tcp_exchange entered at [now]; [qs]: the instant of the last UDP transmission (query_start) *)
Definition std_tcp_exchange (qs : N) (srv : tcp_peer) (now : N) : res (list byte) * N :=
  match lifetime_left_at now start qs lifetime with                (* connect_timeout(.., lifetime_left()?) *)
  | Ok tau =>
    match (match tp_accept srv with Some c => if c <? tau then Some (now + c) else None | None => None end) with
    | Some now1 =>
      match lifetime_left_at now1 start qs lifetime with            (* set_timeout_tcp(lifetime_left()?); write_all *)
      | Ok _ =>
        match std_tcp_read (fun n => tcp_prefix_timeout_at n start qs lifetime) 2 (tp_bytes srv) (tp_eof srv) now1 [] with
        | (Ok prefix, now2, rest) =>
          let n := be_val prefix 0 in
          if std_tcp_too_big n buf_len then (Err (BufferTooShort n), now2) else
          match std_tcp_read (fun n => tcp_body_timeout_at n start qs lifetime) (N.to_nat n) rest (tp_eof srv) now2 [] with
          | (r, now3, _) => (r, now3)
          end
        | (r, now2, _) => (r, now2)
        end
      | o => (retype o Panic, now1)
      end
    | None => (Err IO_TIMEDOUT, now + tau + jit now)
    end
  | o => (retype o Panic, now)
  end.

(* ClientCtx::query_raw entered at [start]: transmissions, exchanges started, outcome, instant *)
Definition std_query (fuel : nat) (strategy : N) (arrs : list arrival) (srv : tcp_peer)
  : list N * list event * res (list byte) * N :=
  if std_udp_first strategy then
    match std_udp_exchange fuel arrs start with
    | (sends, Ok (d, fl), t, _) =>
      if std_tc_fallback (flag_tc fl) (std_tcp_allowed strategy) then
        match std_tcp_exchange (last sends start) srv t with (r, t') => (sends, [EvUdpExchange; EvTcpExchange], map_timeout r, t') end
      else (sends, [EvUdpExchange], Ok d, t)
    | (sends, r, t, _) => (sends, [EvUdpExchange], map_timeout (retype r Panic), t)
    end
  else match std_tcp_exchange start srv start with (r, t') => ([], [EvTcpExchange], map_timeout r, t') end.

(* ================================================================ async template *)
Variable smol : bool.
Definition qt0 : N := match qt with Some q => q | None => 0 end.
(* the deadline of the whole call: timeout(query_lifetime, query_raw_impl()) armed at [start] *)
Definition call_deadline : N := start + async_call_duration smol lifetime qt0.

(* udp_receive_loop polled under a timer with deadline [dl] *)
Fixpoint async_recv_loop (dl : N) (arrs : list arrival) (now : N) : res (list byte * N) * N * list arrival :=
  match arrs with
  | [] => (Err IO_TIMEDOUT, dl + jit dl, [])
  | (t, d) :: rest =>
    if t <? dl then
      let now' := N.max now t in
      match acc d with
      | Ok (Some fl) => (Ok (d, fl), now', rest)
      | Ok None => async_recv_loop dl rest now'
      | o => (retype o Panic, now', rest)
      end
    else (Err IO_TIMEDOUT, dl + jit dl, arrs)
  end.

(* udp_exchange_loop entered at [now], inside the call's timer *)
Fixpoint async_udp_exchange (fuel : nat) (arrs : list arrival) (now : N) : list N * res (list byte * N) * N * list arrival :=
  match fuel with
  | O => ([], OutOfFuel, now, arrs)
  | S f =>
    (* send; timeout(query_timeout, udp_receive_loop()) *)
    let cd := call_deadline in
    match qt with
    | Some q =>
      let ad := now + async_attempt_duration smol lifetime q in
      match async_recv_loop (N.min ad cd) arrs now with
      | (Err e, t, rest) =>
        if is_timedout e then
          if (ad <? cd) && (t <? cd) then                           (* the attempt's timer: continue *)
            match async_udp_exchange f rest t with (s, r, t', rest') => (now :: s, r, t', rest') end
          else ([now], Err Timeout, t, rest)                        (* the call's timer *)
        else ([now], Err e, t, rest)
      | (r, t, rest) => ([now], r, t, rest)
      end
    | None =>
      match async_recv_loop cd arrs now with
      | (Err e, t, rest) => ([now], (if is_timedout e then Err Timeout else Err e), t, rest)
      | (r, t, rest) => ([now], r, t, rest)
      end
    end
  end.

(* read_exact under the call's timer *)
Fixpoint async_tcp_read (need : nat) (bs : list (N * byte)) (eof : option N) (now : N) (got : list byte)
  : res (list byte) * N * list (N * byte) :=
  match need with
  | O => (Ok got, now, bs)
  | S k =>
    let cd := call_deadline in
    match bs with
    | (t, b) :: rest =>
      if t <? cd then async_tcp_read k rest eof (N.max now t) (got ++ [b]) else (Err Timeout, cd + jit cd, bs)
    | [] =>
      match eof with
      | Some te => if te <? cd then (Err IO_EOF, N.max now te, []) else (Err Timeout, cd + jit cd, [])
      | None => (Err Timeout, cd + jit cd, [])
      end
    end
  end.

Definition async_tcp_exchange (srv : tcp_peer) (now : N) : res (list byte) * N :=
  let cd := call_deadline in
  match (match tp_accept srv with Some c => if now + c <? cd then Some (now + c) else None | None => None end) with
  | Some now1 =>
    match async_tcp_read 2 (tp_bytes srv) (tp_eof srv) now1 [] with
    | (Ok prefix, now2, rest) =>
      let n := be_val prefix 0 in
      if async_tcp_too_big n buf_len then (Err (BufferTooShort n), now2) else
      match async_tcp_read (N.to_nat n) rest (tp_eof srv) now2 [] with (r, now3, _) => (r, now3) end
    | (r, now2, _) => (r, now2)
    end
  | None => (Err Timeout, cd + jit cd)
  end.

Definition async_query (fuel : nat) (strategy : N) (arrs : list arrival) (srv : tcp_peer)
  : list N * list event * res (list byte) * N :=
  if async_udp_first strategy then
    match async_udp_exchange fuel arrs start with
    | (sends, Ok (d, fl), t, _) =>
      if async_tc_fallback (flag_tc fl) (async_tcp_allowed strategy) then
        match async_tcp_exchange srv t with (r, t') => (sends, [EvUdpExchange; EvTcpExchange], r, t') end
      else (sends, [EvUdpExchange], Ok d, t)
    | (sends, r, t, _) => (sends, [EvUdpExchange], retype r Panic, t)
    end
  else match async_tcp_exchange srv start with (r, t') => ([], [EvTcpExchange], r, t') end.

End Timed.

(* enough fuel for every run: one attempt per unit of time plus two *)
Definition exchange_fuel (lifetime : N) : nat := S (S (N.to_nat lifetime)).

(* ================================================================ the real filter plugged in *)
(* recv clips a datagram to the caller's buffer; the filter of udp_receive_loop sees the clipped bytes *)
Definition deliver (buf_len : N) (arrs : list arrival) : list arrival :=
  map (fun a => (fst a, recv_into buf_len (snd a))) arrs.

Record tquery := { tq_id : N; tq_name : list byte; tq_type : N; tq_class : N; tq_start : N }.
Definition filter_of (std : bool) (q : tquery) : list byte -> res (option N) :=
  accept_datagram std (tq_id q) (tq_name q) (tq_type q) (tq_class q).

(* one raw query of a client, over time: transmissions, exchanges started, outcome, instant *)
Definition client_query_timed (std smol : bool) (q : tquery) (lifetime : N) (qt : option N) (jit proc : N -> N) (buf_len strategy : N)
           (arrs : list arrival) (srv : tcp_peer) : list N * list event * res (list byte) * N :=
  if std then std_query (filter_of true q) (tq_start q) lifetime qt jit proc buf_len (exchange_fuel lifetime) strategy (deliver buf_len arrs) srv
  else async_query (filter_of false q) (tq_start q) lifetime qt jit buf_len smol (exchange_fuel lifetime) strategy (deliver buf_len arrs) srv.

(* the queries of one client object share its UDP socket: what one exchange leaves in the queue
   (late answers, junk) is what the next one finds there *)
Fixpoint udp_history (std smol : bool) (lifetime : N) (qt : option N) (jit proc : N -> N) (qs : list tquery) (queue : list arrival)
  : list (list N * res (list byte * N) * N) :=
  match qs with
  | [] => []
  | q :: more =>
    match (if std then std_udp_exchange (filter_of true q) (tq_start q) lifetime qt jit proc (exchange_fuel lifetime) queue (tq_start q)
           else async_udp_exchange (filter_of false q) (tq_start q) lifetime qt jit smol (exchange_fuel lifetime) queue (tq_start q)) with
    | (s, r, t, queue') => (s, r, t) :: udp_history std smol lifetime qt jit proc more queue'
    end
  end.

(* ================================================================ the typed query over any raw query *)
(* ClientImpl::query_rrset::<D>: refused without a configured buffer size or for a class that is not a
   data class, before the raw query is called; otherwise the raw query ([raw], given the length of
   the buffer it receives into: the client's buffer set to the configured size) for D's type, and
   record-set extraction from exactly the bytes it returned; the raw query's error as it is.
   [W]: whatever the raw query reports about its traffic; [w0]: no traffic. *)
Definition rrset_of_raw {W : Type} (std : bool) (q : tquery) (buffer_size : N) (w0 : W)
           (raw : N -> W * list event * res (list byte) * N) : W * list event * res RecordSet.rrset * N :=
  if (if std then std_rrset_refuse buffer_size 0 0 else async_rrset_refuse buffer_size 0 0)
  then (w0, [], Err BadParam, tq_start q)
  else if (if std then std_rrset_bad_class (class_is_data (tq_class q)) else async_rrset_bad_class (class_is_data (tq_class q)))
  then (w0, [], Err (UnsupportedClass (tq_class q)), tq_start q)
  else
    let room := if std then std_take_buf_len 0 buffer_size else async_take_buf_len 0 buffer_size in
    match raw room with
    | (wire, ev, Ok d, t) =>
      let n := (if std then std_rrset_parse_len else async_rrset_parse_len) (lenN d) buffer_size in
      (wire, ev, RecordSet.from_msg (firstn (N.to_nat n) d) (tq_type q), t)
    | (wire, ev, r, t) => (wire, ev, retype r Panic, t)
    end.
