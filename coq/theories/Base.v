(* Base.v — outcomes, errors, byte/number helpers shared by the whole model.
   Hand-written.  No proofs about the code live here. *)
From Coq Require Export List NArith Bool Lia.
From Coq.Strings Require Export Byte.
Export ListNotations.
Open Scope N_scope.

(* rsdns::Error, variant by variant, numeric payloads.  The &'static str of
   DomainNameLabelInvalidChar is an enum: 0 = "invalid character",
   1 = "first character is '-'", 2 = "last character is '-'". *)
Inductive error :=
| EndOfBuffer | EndOfWindow | CursorAlreadyInWindow | CursorNotInWindow
| CursorWindowError (window_end pos : N)
| DomainNameLabelIsEmpty
| DomainNameLabelTooLong (n : N)
| DomainNameLabelInvalidChar (kind : N) (b : N)
| DomainNameTooLong (n : N)
| DomainNameBadPointer (pointer max_offset : N)
| DomainNameTooMuchPointers
| DomainNameBadLabelType (b : N)
| MessageTooLong (n : N)
| ReaderDone
| RecordsSectionOffsetUnknown (section : N)
| BadQuestionsCount (n : N)
| BadMessageType (is_response : bool)
| MessageTruncated
| BadResponseCode (rc : N)
| NoAnswer
| UnexpectedType (t : N)
| BufferTooShort (n : N)
| UnsupportedClass (c : N)
| BadParam
| Timeout
| IoError (kind : N).

(* Outcomes.  Rust leaves three of them implicit:
   UB        — the stated precondition of an unsafe access is false
   Panic     — arithmetic overflow/underflow (debug semantics), unwrap on None, slice index
   DebugAssert — a debug_assert! fails (documented misuse)
   OutOfFuel — the model's loop fuel ran out (theorems show it never does) *)
Inductive res (A : Type) :=
| Ok (a : A) | Err (e : error) | UB | Panic | DebugAssert | OutOfFuel.
Arguments Ok {A} a. Arguments Err {A} e. Arguments UB {A}. Arguments Panic {A}.
Arguments DebugAssert {A}. Arguments OutOfFuel {A}.

Definition bind {A B} (r : res A) (f : A -> res B) : res B :=
  match r with
  | Ok a => f a | Err e => Err e | UB => UB | Panic => Panic
  | DebugAssert => DebugAssert | OutOfFuel => OutOfFuel
  end.
Notation "'let*' x ':=' e 'in' f" := (bind e (fun x => f))
  (at level 200, x pattern, e at level 100, f at level 200, right associativity).

Definition is_ok {A} (r : res A) : bool := match r with Ok _ => true | _ => false end.
Definition is_err {A} (r : res A) : bool := match r with Err _ => true | _ => false end.
(* "a value or an error": the only two outcomes C01/C17 allow *)
Definition defined {A} (r : res A) : Prop := match r with Ok _ | Err _ => True | _ => False end.
Definition definedb {A} (r : res A) : bool := match r with Ok _ | Err _ => true | _ => false end.

(* bytes *)
Definition bN (b : byte) : N := Byte.to_N b.
Definition Nb (n : N) : byte := match Byte.of_N (n mod 256) with Some b => b | None => x00 end.

Definition lenN {A} (l : list A) : N := N.of_nat (length l).
Definition getN {A} (l : list A) (i : N) : option A := nth_error l (N.to_nat i).
Definition subN {A} (l : list A) (p n : N) : list A := firstn (N.to_nat n) (skipn (N.to_nat p) l).

(* big-endian value of a byte list *)
Fixpoint be_val (l : list byte) (acc : N) : N :=
  match l with [] => acc | b :: t => be_val t (acc * 256 + bN b) end.

Definition checked_sub (a b : N) : res N := if b <=? a then Ok (a - b) else Panic.

Arguments N.add : simpl never. Arguments N.sub : simpl never. Arguments N.mul : simpl never.
Arguments N.eqb : simpl never. Arguments N.ltb : simpl never. Arguments N.leb : simpl never.
Arguments N.land : simpl never. Arguments N.lor : simpl never. Arguments N.shiftl : simpl never.
Arguments N.shiftr : simpl never. Arguments N.modulo : simpl never. Arguments N.div : simpl never.
Arguments N.of_nat : simpl never. Arguments N.to_nat : simpl never.

(* std's u8::is_ascii_alphanumeric / to_ascii_lowercase / eq_ignore_ascii_case (modelled, trusted) *)
Definition is_ascii_alphanumeric (b : N) : bool :=
  ((48 <=? b) && (b <=? 57)) || ((65 <=? b) && (b <=? 90)) || ((97 <=? b) && (b <=? 122)).
Definition to_ascii_lowercase (b : N) : N := if (65 <=? b) && (b <=? 90) then b + 32 else b.
Fixpoint eq_ignore_ascii_case (a b : list byte) : bool :=
  match a, b with
  | [], [] => true
  | x :: a', y :: b' => (to_ascii_lowercase (bN x) =? to_ascii_lowercase (bN y)) && eq_ignore_ascii_case a' b'
  | _, _ => false
  end.
