(* Writer.v — model of bytes/wcursor.rs, names/writer.rs, header write, opt write and
   message/query_writer.rs.  The buffer is a byte list of length [cap]; unchecked writes are [UB]
   when they would fall outside it. *)
From RsdnsModel Require Import Base GenConst GenNames GenHeader GenWriter GenQuery Names.
Open Scope N_scope.

Record wcursor := mkW { wbuf : list byte; wpos : N }.
Definition wcap (w : wcursor) : N := lenN (wbuf w).
Definition w_len (w : wcursor) : N := wcursor_len (wcap w) (wpos w).

(* overwrite [bs] at [p] (caller guarantees p + |bs| <= |buf|) *)
Definition put (buf : list byte) (p : N) (bs : list byte) : list byte :=
  firstn (N.to_nat p) buf ++ bs ++ skipn (N.to_nat (p + lenN bs)) buf.

(* big-endian bytes of v, n octets *)
Fixpoint be_bytes (n : nat) (v : N) : list byte :=
  match n with O => [] | S k => be_bytes k (v / 256) ++ [Nb v] end.

Definition w_raw (w : wcursor) (bs : list byte) : res wcursor :=
  (* the unchecked store: requires pos + |bs| <= capacity *)
  if wpos w + lenN bs <=? wcap w then Ok (mkW (put (wbuf w) (wpos w) bs) (wpos w + lenN bs)) else UB.

(* WCursor::slice + u8 *)
Definition w_u8 (w : wcursor) (v : N) : res wcursor :=
  if wslice_guard (w_len w) 1 then w_raw w [Nb v] else Err (BufferTooShort (wslice_err (wpos w) 1)).
(* w_be! *)
Definition w_be (w : wcursor) (size : nat) (v : N) : res wcursor :=
  if w_be_guard (w_len w) (N.of_nat size) then w_raw w (be_bytes size v)
  else Err (BufferTooShort (w_be_err (N.of_nat size))).
(* wu_be! *)
Definition w_be_unchecked (w : wcursor) (size : nat) (v : N) : res wcursor :=
  if wu_be_assert (w_len w) (N.of_nat size) then w_raw w (be_bytes size v) else DebugAssert.

Definition write_label (w : wcursor) (label : list byte) : res wcursor :=
  let* _ := check_label_bytes label in
  if write_label_guard (w_len w) (lenN label) then
    let* w1 := w_raw w [Nb (write_label_lenbyte (lenN label))] in
    w_raw w1 label
  else Err (BufferTooShort (write_label_err (wpos w) (lenN label))).

(* write_domain_name_bytes: returns (cursor, encoded length) *)
Definition write_name (w : wcursor) (name : list byte) : res (wcursor * N) :=
  match name with
  | [] => Err DomainNameLabelIsEmpty
  | _ =>
    if is_root_text name then let* w1 := w_u8 w 0 in Ok (w1, 1) else
    let start := wpos w in
    let* w1 := name_labels write_label name w in
    let* w2 := w_u8 w1 0 in
    if wname_length_nounderflow (wpos w2) start then
      let length := wname_length (wpos w2) start in
      if wname_too_long length then Err (DomainNameTooLong length) else Ok (w2, length)
    else Panic
  end.

Record qheader := mkQH { qh_id : N; qh_flags : N; qh_qd : N; qh_an : N; qh_ns : N; qh_ar : N }.
Definition write_header (w : wcursor) (h : qheader) : res wcursor :=
  if whdr_guard (w_len w) then
    let* w1 := w_be_unchecked w 2 (qh_id h) in let* w2 := w_be_unchecked w1 2 (qh_flags h) in
    let* w3 := w_be_unchecked w2 2 (qh_qd h) in let* w4 := w_be_unchecked w3 2 (qh_an h) in
    let* w5 := w_be_unchecked w4 2 (qh_ns h) in w_be_unchecked w5 2 (qh_ar h)
  else Err EndOfBuffer.

(* write_opt: (version, udp_payload_size) *)
Definition write_opt (w : wcursor) (version payload : N) : res wcursor :=
  let* w1 := w_u8 w 0 in let* w2 := w_be w1 2 TYPE_OPT in let* w3 := w_be w2 2 payload in
  let* w4 := w_be w3 4 (opt_ttl 0 version 0) in w_be w4 2 0.

(* QueryWriter::write on a buffer of [cap] bytes (initial content [buf]): returns the buffer and
   the message length (2-byte prefix included) *)
Definition query_write (buf : list byte) (id : N) (qname : list byte) (qtype qclass : N) (rd : bool)
           (opt : option (N * N)) : res (list byte * N) :=
  let flags := if rd then N.shiftl 1 flag_rd_bit else 0 in
  let h := mkQH id flags q_qd_count 0 0 (q_ar_count (match opt with Some _ => true | None => false end)) in
  let w := mkW buf 0 in
  let* w1 := w_be w 2 0 in
  let* w2 := write_header w1 h in
  let* (w3, _) := write_name w2 qname in
  let* w4 := w_be w3 2 qtype in
  let* w5 := w_be w4 2 qclass in
  let* w6 := match opt with Some (ver, pl) => write_opt w5 ver pl | None => Ok w5 end in
  let p := wpos w6 in
  if q_len_prefix_nounderflow p then
    let* w7 := w_be (mkW (wbuf w6) 0) 2 (q_len_prefix p) in Ok (wbuf w7, p)
  else Panic.

(* prepare_message of both client families: EDNS payload = min(configured, receive buffer) *)
Definition prepare_message (std : bool) (id : N) (qname : list byte) (qtype qclass : N) (rd : bool)
           (edns : option (N * N)) (recv_buf_len : N) : res (list byte) :=
  let opt := match edns with
             | Some (ver, ups) =>
               let p := if std then std_opt_payload_cast (std_opt_payload ups recv_buf_len)
                        else async_opt_payload_cast (async_opt_payload ups recv_buf_len) in
               Some (ver, p)
             | None => None end in
  let cap := if std then STD_QUERY_BUFFER_SIZE else ASYNC_QUERY_BUFFER_SIZE in
  let* (b, n) := query_write (repeat x00 (N.to_nat cap)) id qname qtype qclass rd opt in
  Ok (firstn (N.to_nat n) b).
