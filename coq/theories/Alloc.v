(* Alloc.v — the allocation-free part of the API (README: "zero memory allocations" when reading
   fixed-size records) as a classification of script calls, and the shape of what such calls can
   return: values of statically bounded size only (integers, markers, positions, inline names,
   IPv4/IPv6 addresses, slices borrowed from the message) — never a value that owns a Vec or
   a String.  What the allocator actually does is measured by the harness (C20 stream). *)
From RsdnsModel Require Import Base GenConst Cursor Names Labels Header Tracker RData Reader Script.
Open Scope N_scope.

Definition alloc_free_call (c : call) : bool :=
  match c with
  | CHeader | CSeek _ | CQCount | CRCount | CRCountIn _
  | CQuestion | CQuestionRef | CTheQuestion | CTheQuestionRef | CSkipQuestions
  | CMarker | CHeaderRef | CHeaderN Inline
  | CSkipData _ | CDataBytes _ | COpt _ | COptOrSkip _
  | CBytesAt _ | CNameRefAt _ | CNrefEq _ _ | CNrefName Inline _ | CNrefLabels _ => true
  | CData ty _ | CDataAt ty _ => (ty =? T_A) || (ty =? T_AAAA)
  | CHeaderN Heap | CNrefName Heap _ => false
  end.

(* results whose size is bounded statically (no owned Vec / String inside) *)
Definition fixed_rdata (d : rdata) : bool := match d with RD_A _ | RD_Aaaa _ => true | _ => false end.
Definition fixed_obs (o : obs) : bool := match o with ORData d => fixed_rdata d | _ => true end.
Definition fixed_sobs (s : sobs) : bool :=
  match s with SObs o | SNref _ o => fixed_obs o | _ => true end.
