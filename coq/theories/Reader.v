(* Reader.v — model of message/reader/message_reader/reader.rs (all public methods),
   question.rs / question_ref.rs readers, and the script interpreter used by the correspondence. *)
From RsdnsModel Require Import Base GenConst GenCursor GenTypes GenReader Cursor Names Labels Header Tracker RData.
Open Scope N_scope.

Record marker := mkMarker { m_off : N; m_type_off : N; m_rtype : N; m_rclass : N; m_ttl : N; m_rdlen : N; m_section : N }.
Definition rdata_pos (m : marker) : N := m_type_off m + TYPE_TO_RDATA_OFFSET.

Record reader := mkReader { r_cur : cursor; r_tr : tracker; r_done : bool }.

Definition reader_new (msg : list byte) : res reader :=
  if msg_too_long (lenN msg) then Err (MessageTooLong (lenN msg))
  else Ok (mkReader (c_new msg) tr_default false).

Definition set_done (r : reader) : reader := mkReader (r_cur r) (r_tr r) true.
Definition with_cur (r : reader) (c : cursor) : reader := mkReader c (r_tr r) (r_done r).
Definition with_tr (r : reader) (t : tracker) : reader := mkReader (r_cur r) t (r_done r).

(* what a call returns *)
Inductive obs :=
| OUnit | ONum (n : N)
| OHeader (h : header)
| OQuestion (name : list byte) (qt qc : N)
| OQuestionRef (nref : cursor) (qt qc : N)
| OMarker (m : marker)
| OHeaderRef (nref : cursor) (m : marker)
| OHeaderN (name : list byte) (m : marker)
| OBytes (off : N) (bs : list byte)
| ORData (d : rdata)
| OOpt (o : opt)
| ONameRef (nref : cursor).

Section WithMsg.
  Variable msg : list byte.

  (* run a composite reader on the reader's cursor *)
  Definition run {X} (r : reader) (m : M X) : reader * res X :=
    let (c', x) := m (r_cur r) in (with_cur r c', x).

  (* pattern shared by most methods: `let res = impl(); if res.is_err() { done = true }` *)
  Definition latch {X} (p : reader * res X) : reader * res X :=
    match snd p with Ok _ => p | _ => (set_done (fst p), snd p) end.

  Definition rd_header (r : reader) : reader * res obs :=
    latch (let (r1, h) := run r (read_header msg) in
           match h with
           | Ok h => (with_tr r1 (tr_set (r_tr r1) h), Ok (OHeader h))
           | Err e => (r1, Err e) | UB => (r1, UB) | Panic => (r1, Panic)
           | DebugAssert => (r1, DebugAssert) | OutOfFuel => (r1, OutOfFuel)
           end).

  (* Reader<Question> / Reader<QuestionRef> *)
  Definition m_question : M obs :=
    do* n <- lift (read_name msg Inline); do* qt <- lift (c_u16 msg); do* qc <- lift (c_u16 msg);
    mret (OQuestion n qt qc).
  Definition m_question_ref : M obs :=
    fun c => (do* _ <- lift_c (skip_name msg); do* qt <- lift (c_u16 msg); do* qc <- lift (c_u16 msg);
              mret (OQuestionRef c qt qc)) c.

  Definition after_question (p : reader * res obs) : reader * res obs :=
    let (r1, o) := p in
    match o with
    | Ok v =>
      match question_read (r_tr r1) (pos (r_cur r1)) with
      | Ok t => (with_tr r1 t, Ok v)
      | Err e => (r1, Err e) | UB => (r1, UB) | Panic => (r1, Panic)
      | DebugAssert => (r1, DebugAssert) | OutOfFuel => (r1, OutOfFuel)
      end
    | _ => (set_done r1, o)
    end.

  (* question!(self, check) *)
  Definition rd_question (single : bool) (as_ref : bool) (r : reader) : reader * res obs :=
    if r_done r then (r, Err ReaderDone) else
    match questions_left (r_tr r) with
    | Ok left =>
      if (if single then q_not_single left else q_none_left left)
      then (set_done r, Err (if single then BadQuestionsCount left else ReaderDone))
      else after_question (run r (if as_ref then m_question_ref else m_question))
    | Err e => (r, Err e) | UB => (r, UB) | Panic => (r, Panic)
    | DebugAssert => (r, DebugAssert) | OutOfFuel => (r, OutOfFuel)
    end.

  (* Cursor::skip_question *)
  Definition m_skip_question : M unit :=
    do* _ <- lift_c (skip_name msg); lift_c (fun c => c_skip c 4).

  (* skip_questions_impl: `while questions_left() > 0 { skip_question()?; question_read(pos) }` *)
  Fixpoint skip_questions_loop (fuel : nat) (r : reader) : reader * res unit :=
    match fuel with
    | O => (r, OutOfFuel)
    | S f =>
      match questions_left (r_tr r) with
      | Ok left =>
        if 0 <? left then
          let (r1, x) := run r m_skip_question in
          match x with
          | Ok _ =>
            match question_read (r_tr r1) (pos (r_cur r1)) with
            | Ok t => skip_questions_loop f (with_tr r1 t)
            | Err e => (r1, Err e) | UB => (r1, UB) | Panic => (r1, Panic)
            | DebugAssert => (r1, DebugAssert) | OutOfFuel => (r1, OutOfFuel)
            end
          | Err e => (r1, Err e) | UB => (r1, UB) | Panic => (r1, Panic)
          | DebugAssert => (r1, DebugAssert) | OutOfFuel => (r1, OutOfFuel)
          end
        else (r, Ok tt)
      | Err e => (r, Err e) | UB => (r, UB) | Panic => (r, Panic)
      | DebugAssert => (r, DebugAssert) | OutOfFuel => (r, OutOfFuel)
      end
    end.
  Definition q_fuel (r : reader) : nat := S (N.to_nat (total (qd (r_tr r)))).
  Definition skip_questions_impl (r : reader) := skip_questions_loop (q_fuel r) r.

  Definition unit_obs (p : reader * res unit) : reader * res obs :=
    (fst p, let* _ := snd p in Ok OUnit).

  Definition rd_skip_questions (r : reader) : reader * res obs :=
    if r_done r then (r, Err ReaderDone) else latch (unit_obs (skip_questions_impl r)).

  (* calc_section *)
  Definition calc_section (r : reader) : reader * res N :=
    let (t, s) := next_section (r_tr r) (pos (r_cur r)) in
    (with_tr r t, match s with Some s => Ok s | None => Err ReaderDone end).

  (* raw_marker_impl *)
  Definition m_raw_marker (p section : N) : M marker :=
    fun c =>
      (do* ty <- lift (c_u16 msg); do* cl <- lift (c_u16 msg); do* ttl <- lift (c_u32 msg);
       do* rdlen <- lift (c_u16 msg);
       mret (mkMarker p (pos c) ty cl ttl rdlen section)) c.

  Definition bind2 {X Y} (p : reader * res X) (f : reader -> X -> reader * res Y) : reader * res Y :=
    let (r1, x) := p in
    match x with
    | Ok v => f r1 v
    | Err e => (r1, Err e) | UB => (r1, UB) | Panic => (r1, Panic)
    | DebugAssert => (r1, DebugAssert) | OutOfFuel => (r1, OutOfFuel)
    end.

  Definition marker_impl (r : reader) : reader * res marker :=
    let p := pos (r_cur r) in
    bind2 (calc_section r) (fun r1 s =>
      run r1 (do* _ <- lift_c (skip_name msg); m_raw_marker p s)).

  Definition header_ref_impl (r : reader) : reader * res obs :=
    let p := pos (r_cur r) in
    bind2 (calc_section r) (fun r1 s =>
      let nref := r_cur r1 in
      run r1 (do* _ <- lift_c (skip_name msg); do* m <- m_raw_marker p s; mret (OHeaderRef nref m))).

  Definition header_n_impl (nk : name_kind) (r : reader) : reader * res obs :=
    let p := pos (r_cur r) in
    bind2 (calc_section r) (fun r1 s =>
      run r1 (do* n <- lift (read_name msg nk); do* m <- m_raw_marker p s; mret (OHeaderN n m))).

  Definition rd_marker (r : reader) : reader * res obs :=
    if r_done r then (r, Err ReaderDone)
    else latch (bind2 (marker_impl r) (fun r1 m => (r1, Ok (OMarker m)))).
  Definition rd_header_ref (r : reader) : reader * res obs :=
    if r_done r then (r, Err ReaderDone) else latch (header_ref_impl r).
  Definition rd_header_n (nk : name_kind) (r : reader) : reader * res obs :=
    if r_done r then (r, Err ReaderDone) else latch (header_n_impl nk r).

  (* the tail shared by the G2 methods: on success section_read(marker.section, pos) else done *)
  Definition after_data (mk : marker) (p : reader * res obs) : reader * res obs :=
    let (r1, o) := p in
    match o with
    | Ok v =>
      match section_read (r_tr r1) (m_section mk) (pos (r_cur r1)) with
      | Ok t => (with_tr r1 t, Ok v)
      | Err e => (r1, Err e) | UB => (r1, UB) | Panic => (r1, Panic)
      | DebugAssert => (r1, DebugAssert) | OutOfFuel => (r1, OutOfFuel)
      end
    | _ => (set_done r1, o)
    end.

  Definition skip_record_data_impl (mk : marker) (r : reader) : reader * res obs :=
    after_data mk (run r (do* _ <- lift_c (fun c => c_skip c (m_rdlen mk)); mret OUnit)).

  Definition rd_skip_data (mk : marker) (r : reader) : reader * res obs :=
    if negb (pos (r_cur r) =? rdata_pos mk) then (r, DebugAssert) else
    if r_done r then (r, Err ReaderDone) else skip_record_data_impl mk r.

  Definition rd_data_bytes (mk : marker) (r : reader) : reader * res obs :=
    if negb (pos (r_cur r) =? rdata_pos mk) then (r, DebugAssert) else
    if r_done r then (r, Err ReaderDone) else
    after_data mk (run r (lift (fun c => let* (off, bs, c') := c_slice msg c (m_rdlen mk) in Ok (OBytes off bs, c')))).

  Definition rd_data (ty : N) (mk : marker) (r : reader) : reader * res obs :=
    match read_rdata msg ty (m_rdlen mk) with
    | None => (r, Ok OUnit)   (* not a record-data type: the script generator never emits it *)
    | Some m =>
      if negb (pos (r_cur r) =? rdata_pos mk) then (r, DebugAssert) else
      if r_done r then (r, Err ReaderDone) else
      after_data mk (run r (do* d <- m; mret (ORData d)))
    end.

  Definition rd_opt (mk : marker) (r : reader) : reader * res obs :=
    if r_done r then (r, Err ReaderDone) else
    if negb (pos (r_cur r) =? rdata_pos mk) then (r, DebugAssert) else
    if negb (m_rtype mk =? T_OPT) then (r, DebugAssert) else
    after_data mk (run r (do* _ <- lift_c (fun c => c_skip c (m_rdlen mk));
                          mret (OOpt (opt_from_msg (m_rclass mk) (m_ttl mk))))).

  (* random access: a fresh cursor over the whole message; the reader is untouched *)
  Definition rd_bytes_at (mk : marker) (r : reader) : res obs :=
    let c := c_clone_with_pos (r_cur r) (rdata_pos mk) in
    let* (off, bs, _) := c_slice msg c (m_rdlen mk) in Ok (OBytes off bs).
  Definition rd_data_at (ty : N) (mk : marker) (r : reader) : res obs :=
    match read_rdata msg ty (m_rdlen mk) with
    | None => Ok OUnit
    | Some m => let* d := snd (m (c_clone_with_pos (r_cur r) (rdata_pos mk))) in Ok (ORData d)
    end.
  Definition rd_name_ref_at (mk : marker) (r : reader) : res obs :=
    Ok (ONameRef (c_clone_with_pos (r_cur r) (rdata_pos mk))).

  (* skip_section_impl: `while records_left_in(section) > 0 { marker_impl()?; skip_record_data_impl()? }` *)
  Fixpoint skip_section_loop (fuel : nat) (s : N) (r : reader) : reader * res unit :=
    match fuel with
    | O => (r, OutOfFuel)
    | S f =>
      match records_left_in (r_tr r) s with
      | Ok left =>
        if 0 <? left then
          bind2 (marker_impl r) (fun r1 mk =>
            bind2 (skip_record_data_impl mk r1) (fun r2 _ => skip_section_loop f s r2))
        else (r, Ok tt)
      | Err e => (r, Err e) | UB => (r, UB) | Panic => (r, Panic)
      | DebugAssert => (r, DebugAssert) | OutOfFuel => (r, OutOfFuel)
      end
    end.
  Definition s_fuel (r : reader) (s : N) : nat := S (N.to_nat (total (tget (secs (r_tr r)) s))).

  Definition seek_impl (s : N) (r : reader) : reader * res unit :=
    bind2 (skip_questions_impl r) (fun r1 _ =>
      match s with
      | 0 => (r1, Ok tt)
      | 1 => skip_section_loop (s_fuel r1 0) 0 r1
      | _ => bind2 (skip_section_loop (s_fuel r1 0) 0 r1) (fun r2 _ => skip_section_loop (s_fuel r2 1) 1 r2)
      end).

  Definition rd_seek (s : N) (r : reader) : reader * res obs :=
    if r_done r then (r, Err ReaderDone) else
    match section_offset (r_tr r) s with
    | Some off => (mkReader (c_set_pos (r_cur r) off) (tr_seek (r_tr r) s) (r_done r), Ok OUnit)
    | None =>
      if seek_not_at_header_end (pos (r_cur r)) then (r, Err (RecordsSectionOffsetUnknown s))
      else latch (unit_obs (seek_impl s r))
    end.

  Definition rd_questions_count (r : reader) : res obs :=
    if negb (r_done r) then let* n := questions_left (r_tr r) in Ok (ONum n) else Ok (ONum 0).
  Definition rd_records_count (r : reader) : res obs :=
    if negb (r_done r) then let* n := records_left (r_tr r) in Ok (ONum n) else Ok (ONum 0).
  Definition rd_records_count_in (s : N) (r : reader) : res obs :=
    if negb (r_done r) then let* n := records_left_in (r_tr r) s in Ok (ONum n) else Ok (ONum 0).
End WithMsg.
