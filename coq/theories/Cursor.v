(* Cursor.v — model of src/bytes/cursor.rs and src/bytes/macros.rs (r_be!/ru_be!).
   A cursor over a fixed message [msg]: the visible buffer `self.buf` is [firstn lim msg];
   `self.orig` is [Some L] (the length of the saved buffer) while a window is open.
   Every unchecked access is [UB] when its stated precondition fails. *)
From RsdnsModel Require Import Base GenConst GenCursor.
Open Scope N_scope.

Record cursor := mkCursor { lim : N; pos : N; orig : option N }.

Definition c_new (msg : list byte) : cursor := mkCursor (lenN msg) 0 None.
Definition c_with_pos (msg : list byte) (p : N) : cursor := mkCursor (lenN msg) p None.
(* clone_with_pos: see Reader.v for which buffer is cloned *)
Definition c_set_pos (c : cursor) (p : N) : cursor := mkCursor (lim c) p (orig c).
Definition c_len (c : cursor) : N := cursor_len (lim c) (pos c).
Definition c_is_empty (c : cursor) : bool := cursor_is_empty (c_len c).
Definition c_bound_error (c : cursor) : error :=
  match orig c with None => EndOfBuffer | Some _ => EndOfWindow end.

Definition c_window (c : cursor) (size : N) : res cursor :=
  match orig c with
  | None =>
      if window_guard (pos c) (lim c) (c_len c) size then
        let e := window_end (pos c) size in
        (* get_unchecked(..e) on self.buf: requires e <= self.buf.len() *)
        if e <=? lim c then Ok (mkCursor e (pos c) (Some (lim c))) else UB
      else Err EndOfBuffer
  | Some _ => Err CursorAlreadyInWindow
  end.

Definition c_close_window (c : cursor) : res cursor :=
  match orig c with
  | Some L =>
      if close_window_guard (pos c) (lim c) then Ok (mkCursor L (pos c) None)
      else Err (CursorWindowError (lim c) (pos c))
  | None => Err CursorNotInWindow
  end.

Definition c_skip (c : cursor) (distance : N) : res cursor :=
  if skip_guard (c_len c) distance then Ok (c_set_pos c (pos c + distance))
  else Err (c_bound_error c).

Section WithMsg.
  Variable msg : list byte.

  Definition c_u8 (c : cursor) : res (N * cursor) :=
    if u8_guard (c_is_empty c) then
      (* *self.buf.get_unchecked(self.pos): requires pos < self.buf.len() *)
      if pos c <? lim c then
        match getN msg (pos c) with
        | Some b => Ok (bN b, c_set_pos c (pos c + 1))
        | None => UB   (* lim exceeds the real message: broken cursor invariant *)
        end
      else UB
    else Err (c_bound_error c).

  (* returns (offset-in-message, bytes) *)
  Definition c_slice (c : cursor) (size : N) : res (N * list byte * cursor) :=
    if slice_guard (pos c) (lim c) (c_len c) size then
      let lo := slice_lo (pos c) size in
      let hi := slice_hi (pos c) size in
      (* self.buf.get_unchecked(lo..hi): requires lo <= hi <= self.buf.len() *)
      if (lo <=? hi) && (hi <=? lim c) && (lim c <=? lenN msg) then
        Ok (lo, subN msg lo (hi - lo), c_set_pos c (pos c + size))
      else UB
    else Err (c_bound_error c).

  (* r_be!: checked big-endian read of [size] bytes *)
  Definition c_be (c : cursor) (size : N) : res (N * cursor) :=
    if r_be_guard (c_len c) size then
      (* get_unchecked(pos..) requires pos <= buf.len(); read_unaligned needs size bytes there *)
      if (pos c + size <=? lim c) && (lim c <=? lenN msg) then
        Ok (be_val (subN msg (pos c) size) 0, c_set_pos c (pos c + size))
      else UB
    else Err (c_bound_error c).

  (* ru_be!: unchecked read; debug_assert first *)
  Definition c_be_unchecked (c : cursor) (size : N) : res (N * cursor) :=
    if ru_be_assert (c_len c) size then
      if (pos c + size <=? lim c) && (lim c <=? lenN msg) then
        Ok (be_val (subN msg (pos c) size) 0, c_set_pos c (pos c + size))
      else UB
    else DebugAssert.

  Definition c_u16 c := c_be c 2.
  Definition c_u32 c := c_be c 4.
  Definition c_u128 c := c_be c 16.
End WithMsg.

(* Composite readers thread the cursor explicitly so that the position after a *failed* composite
   read is modelled too (primitives leave the cursor unchanged on error; earlier primitives of
   the same composite have already advanced it). *)
Definition M (X : Type) := cursor -> cursor * res X.
Definition mret {X} (x : X) : M X := fun c => (c, Ok x).
Definition mfail {X} (r : res X) : M X := fun c => (c, r).
Definition mbind {X Y} (m : M X) (f : X -> M Y) : M Y :=
  fun c => let (c', r) := m c in
           match r with
           | Ok x => f x c'
           | Err e => (c', Err e) | UB => (c', UB) | Panic => (c', Panic)
           | DebugAssert => (c', DebugAssert) | OutOfFuel => (c', OutOfFuel)
           end.
Notation "'do*' x '<-' e ';' f" := (mbind e (fun x => f))
  (at level 200, x pattern, e at level 100, f at level 200, right associativity).
(* a primitive: on success the new cursor, on failure the cursor is untouched *)
Definition lift {X} (f : cursor -> res (X * cursor)) : M X :=
  fun c => match f c with
           | Ok (x, c') => (c', Ok x)
           | Err e => (c, Err e) | UB => (c, UB) | Panic => (c, Panic)
           | DebugAssert => (c, DebugAssert) | OutOfFuel => (c, OutOfFuel)
           end.
Definition lift_c (f : cursor -> res cursor) : M unit :=
  lift (fun c => let* c' := f c in Ok (tt, c')).

(* clone_with_pos: the whole buffer (the saved one if a window is open), fresh window state *)
Definition c_clone_with_pos (c : cursor) (p : N) : cursor :=
  mkCursor (match orig c with Some L => L | None => lim c end) p None.
