(* SendRules.v — the structural auto-trait rules of Rust for Send and Sync over a small
   description of declared types (fields of structs, parameters of async fns).
   Leaves are a table of types whose Send/Sync status is part of the trusted base (rustc decides
   the real thing: the harness compiles static assertions against the current tree). *)
From Coq Require Export String List Bool.
Export ListNotations.
Open Scope string_scope.

Inductive rty :=
| Leaf (n : string)
| Ref (t : rty)
| RefMut (t : rty)
| Slice (t : rty)
| App (n : string) (args : list rty).

(* Some (send, sync) for known leaves; None: unknown type, nothing can be concluded *)
Definition leaf_table (n : string) : option (bool * bool) :=
  if in_dec string_dec n
       ["u8"; "u16"; "u32"; "u64"; "usize"; "bool"; "str"; "String"; "Type"; "Class"; "Duration"; "Instant";
        "SocketAddr"; "UdpSocket"; "TcpStream"; "ProtocolStrategy"; "Recursion"; "EDns"; "InterfaceName";
        "MsgBuf"; "ClientConfig"; "ClientImpl"; "Self"; "Flags"]
  then Some (true, true)
  else if in_dec string_dec n ["Rc"; "MutexGuard"; "ThreadRng"] then Some (false, false)
  else None.

(* type constructors: how Send/Sync of the application follows from the arguments *)
Inductive ctor_kind := Covariant | CellLike | RcLike | MutexLike.
Definition ctor_table (n : string) : option ctor_kind :=
  if in_dec string_dec n ["Vec"; "Option"; "Box"; "ArrayVec"; "ArrayString"; "tuple"; "Result"] then Some Covariant
  else if in_dec string_dec n ["RefCell"; "Cell"; "UnsafeCell"] then Some CellLike
  else if in_dec string_dec n ["Rc"; "Weak"] then Some RcLike
  else if in_dec string_dec n ["Mutex"; "RwLock"] then Some MutexLike
  else None.

Definition and2 (a b : option (bool * bool)) : option (bool * bool) :=
  match a, b with Some (s1, y1), Some (s2, y2) => Some (s1 && s2, y1 && y2) | _, _ => None end.

Fixpoint send_sync (t : rty) : option (bool * bool) :=
  match t with
  | Leaf n => leaf_table n
  | Ref u => match send_sync u with Some (_, y) => Some (y, y) | None => None end          (* &T: Send <=> T: Sync *)
  | RefMut u => send_sync u                                                                (* &mut T: as T *)
  | Slice u => send_sync u
  | App n args =>
    let all := fold_right (fun a acc => and2 (send_sync a) acc) (Some (true, true)) args in
    match ctor_table n, all with
    | Some Covariant, Some r => Some r
    | Some CellLike, Some (s, _) => Some (s, false)       (* RefCell<T>: Send if T: Send, never Sync *)
    | Some RcLike, Some _ => Some (false, false)
    | Some MutexLike, Some (s, _) => Some (s, s)          (* Mutex<T>: Send+Sync if T: Send *)
    | _, _ => None
    end
  end.

Definition all_fields (fs : list (string * rty)) : option (bool * bool) :=
  fold_right (fun f acc => and2 (send_sync (snd f)) acc) (Some (true, true)) fs.

Definition is_send_sync (fs : list (string * rty)) : bool :=
  match all_fields fs with Some (true, true) => true | _ => false end.
Definition is_send (fs : list (string * rty)) : bool :=
  match all_fields fs with Some (true, _) => true | _ => false end.
