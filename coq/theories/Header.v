(* Header.v — model of message/header.rs (read), flags.rs accessors, opt.rs, rcode.rs. *)
From RsdnsModel Require Import Base GenConst GenCursor GenHeader Cursor.
Open Scope N_scope.

Record header := mkHeader { h_id : N; h_flags : N; h_qd : N; h_an : N; h_ns : N; h_ar : N }.

Definition read_header (msg : list byte) : M header :=
  fun c =>
    if header_read_guard (c_len c) then
      (do* id <- lift (fun c => c_be_unchecked msg c 2);
       do* fl <- lift (fun c => c_be_unchecked msg c 2);
       do* qd <- lift (fun c => c_be_unchecked msg c 2);
       do* an <- lift (fun c => c_be_unchecked msg c 2);
       do* ns <- lift (fun c => c_be_unchecked msg c 2);
       do* ar <- lift (fun c => c_be_unchecked msg c 2);
       mret (mkHeader id fl qd an ns ar)) c
    else (c, Err EndOfBuffer).

Record opt := mkOpt { opt_payload : N; opt_ext : N; opt_ver : N; opt_fl : N }.
Definition opt_from_msg (rclass ttl : N) : opt :=
  mkOpt rclass (opt_rcode_extension ttl) (opt_version ttl) (opt_flags ttl).
