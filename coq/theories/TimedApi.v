(* TimedApi.v — the two API calls of a client as wholes, over time: ClientImpl::query_raw and
   ClientImpl::query_rrset::<D> of both client families, on top of the raw query of Timed.v, the
   query writer of Writer.v (prepare_message) and record-set extraction (RecordSet.v).  Kept apart
   from Timed.v so that the timed machines of C12-C15 do not depend on the writer model. *)
From RsdnsModel Require Import Base GenConst GenTypes GenHeader GenClient Client Writer RecordSet Timed.
Open Scope N_scope.

(* ================================================================ the two API calls, whole *)
(* ClientImpl::query_raw: a caller buffer shorter than 512 octets and a name the encoder refuses end
   the call before anything is sent; otherwise the message is prepared ONCE (prepare_message) and
   every UDP transmission carries it without its 2-octet prefix (`send(&self.msg[2..])`), the TCP
   exchange writes it with the prefix (`write_all(&self.msg)`).  Result: what went on the wire
   (datagrams with their instants; the TCP bytes if a TCP exchange was started), exchanges,
   outcome, instant. *)
Record call_cfg := { cc_rd : bool; cc_edns : option (N * N); cc_lifetime : N; cc_qt : option N; cc_strategy : N }.

Definition is_tcp_event (e : event) : bool := match e with EvTcpExchange => true | EvUdpExchange => false end.

Definition client_call_timed (std smol : bool) (q : tquery) (cfg : call_cfg) (jit proc : N -> N) (buf_len : N)
           (arrs : list arrival) (srv : tcp_peer)
  : (list (N * list byte) * option (list byte)) * list event * res (list byte) * N :=
  if (if std then std_query_buf_too_short buf_len else async_query_buf_too_short buf_len)
  then (([], None), [], Err (BufferTooShort (if std then std_query_buf_min buf_len else async_query_buf_min buf_len)), tq_start q)
  else
    match Writer.prepare_message std (tq_id q) (tq_name q) (tq_type q) (tq_class q) (cc_rd cfg) (cc_edns cfg) buf_len with
    | Ok msg =>
      match client_query_timed std smol q (cc_lifetime cfg) (cc_qt cfg) jit proc buf_len (cc_strategy cfg) arrs srv with
      | (sends, ev, r, t) =>
        ((map (fun s => (s, skipn 2 msg)) sends, if existsb is_tcp_event ev then Some msg else None), ev, r, t)
      end
    | o => (([], None), [], retype o Panic, tq_start q)
    end.

(* ClientImpl::query_rrset::<D> (Timed.v: rrset_of_raw) over this raw query *)
Definition client_rrset_timed (std smol : bool) (q : tquery) (cfg : call_cfg) (jit proc : N -> N) (buffer_size : N)
           (arrs : list arrival) (srv : tcp_peer)
  : (list (N * list byte) * option (list byte)) * list event * res RecordSet.rrset * N :=
  rrset_of_raw std q buffer_size ([], None) (fun room => client_call_timed std smol q cfg jit proc room arrs srv).
