(* Labels.v — model of src/message/reader/labels.rs + labels/macros.rs (labels_loop! and its
   continuation macros), name_ref.rs.  One [label_step] mirrors one iteration of labels_loop!. *)
From RsdnsModel Require Import Base GenConst GenCursor GenLabels GenNames Cursor Names.
Open Scope N_scope.

Record lstate := mkL { lc : cursor; max_pos : N; n_ptr : N }.

Inductive lstep :=
| LEnd (mp : N)                                   (* zero label: `$f!()` *)
| LLabel (lpos : N) (bytes : list byte) (st : lstate)   (* `$l!(bytes, pos, dn)` then loop *)
| LJump (st : lstate).                            (* pointer followed *)

Section WithMsg.
  Variable msg : list byte.

  Definition label_step (st : lstate) : res lstep :=
    let c := lc st in
    let p := pos c in
    let* (label, c1) := c_u8 msg c in
    if label_is_root label then
      Ok (LEnd (if max_pos_unset (max_pos st) then pos c1 else max_pos st))
    else if is_length label then
      let* (_, bytes, c2) := c_slice msg c1 label in
      Ok (LLabel p bytes (mkL c2 (max_pos st) (n_ptr st)))
    else if is_pointer label then
      let* (o2, c2) := c_u8 msg c1 in
      let offset := pointer_to_offset label o2 in
      let mp := if max_pos_unset (max_pos st) then pos c2 else max_pos st in
      if ptr_bad_nounderflow offset mp then
        if ptr_bad offset mp then Err (DomainNameBadPointer offset mp)
        else
          let n := n_ptr st + 1 in
          if too_many_pointers n then Err DomainNameTooMuchPointers
          else Ok (LJump (mkL (c_set_pos c2 offset) mp n))
      else Panic
    else Err (DomainNameBadLabelType label).

  (* fuel that is always enough (Proofs/LabelsTotal.v): every iteration either advances pos
     inside the buffer or consumes one of the 32 pointer hops *)
  Definition name_fuel (c : cursor) : nat := N.to_nat (34 * (lim c + 2)).

  (* read_domain_name::<N> *)
  Fixpoint read_name_loop (nk : name_kind) (fuel : nat) (st : lstate) (dn : list byte)
    : res (list byte * N) :=
    match fuel with
    | O => OutOfFuel
    | S f =>
      let* s := label_step st in
      match s with
      | LEnd mp => Ok (dn, mp)
      | LLabel _ bytes st' =>
        let* dn' := append_label_bytes nk dn bytes in
        read_name_loop nk f st' dn'
      | LJump st' => read_name_loop nk f st' dn
      end
    end.

  Definition read_name (nk : name_kind) (c : cursor) : res (list byte * cursor) :=
    let* (dn, mp) := read_name_loop nk (name_fuel c) (mkL c 0 0) [] in
    if name_wire_too_long (lenN dn) then Err (DomainNameTooLong (name_wire_len_err (lenN dn))) else
    let dn' := match dn with [] => [dot] | _ => dn end in
    Ok (dn', c_set_pos c mp).

  (* skip_domain_name *)
  Fixpoint skip_name_loop (fuel : nat) (st : lstate) : res N :=
    match fuel with
    | O => OutOfFuel
    | S f =>
      let* s := label_step st in
      match s with
      | LEnd mp => Ok mp
      | LLabel _ bytes st' => let* _ := check_label_bytes bytes in skip_name_loop f st'
      | LJump st' => skip_name_loop f st'
      end
    end.

  Definition skip_name (c : cursor) : res cursor :=
    let* mp := skip_name_loop (name_fuel c) (mkL c 0 0) in
    (* Ok(c.pos() - start): usize subtraction *)
    if pos c <=? mp then Ok (c_set_pos c mp) else Panic.

  (* Labels iterator: one call of next() *)
  Record labels_it := mkIt { it_st : lstate; it_done : bool }.
  Definition labels_new (c : cursor) : labels_it := mkIt (mkL c 0 0) false.

  Fixpoint labels_next_loop (fuel : nat) (st : lstate) : res (option (N * list byte) * lstate) :=
    match fuel with
    | O => OutOfFuel
    | S f =>
      let* s := label_step st in
      match s with
      | LEnd mp => Ok (None, mkL (lc st) mp (n_ptr st))
      | LLabel p bytes st' => let* _ := check_label_bytes bytes in Ok (Some (p, bytes), st')
      | LJump st' => labels_next_loop f st'
      end
    end.

  (* next(): None | Some(Ok label) | Some(Err e) — outcome of one call and the new iterator *)
  Inductive it_out := ItNone | ItLabel (p : N) (bytes : list byte) | ItErr (e : error).
  Definition labels_next (it : labels_it) : res (it_out * labels_it) :=
    if it_done it then Ok (ItNone, it) else
    match labels_next_loop (name_fuel (lc (it_st it))) (it_st it) with
    | Ok (Some (p, b), st') => Ok (ItLabel p b, mkIt st' false)
    | Ok (None, st') => Ok (ItNone, mkIt st' true)
    | Err e => Ok (ItErr e, mkIt (it_st it) true)
    | UB => UB | Panic => Panic | DebugAssert => DebugAssert | OutOfFuel => OutOfFuel
    end.

  (* drain the iterator: all labels (with positions) up to the end or first error *)
  Fixpoint labels_all (fuel : nat) (it : labels_it) (acc : list (N * list byte))
    : res (list (N * list byte) * option error) :=
    match fuel with
    | O => OutOfFuel
    | S f =>
      let* (o, it') := labels_next it in
      match o with
      | ItNone => Ok (rev acc, None)
      | ItErr e => Ok (rev acc, Some e)
      | ItLabel p b => labels_all f it' ((p, b) :: acc)
      end
    end.

  Definition labels_drain (c : cursor) := labels_all (S (name_fuel c)) (labels_new c) [].

  (* NameRef::eq *)
  Fixpoint nameref_eq_loop (fuel : nat) (a b : labels_it) : res bool :=
    match fuel with
    | O => OutOfFuel
    | S f =>
      let* (mo, a') := labels_next a in
      let* (oo, b') := labels_next b in
      match mo, oo with
      | ItNone, ItNone => Ok true
      | ItNone, _ => Ok false
      | _, ItNone => Ok false
      | ItErr e, _ => Err e
      | ItLabel _ _, ItErr e => Err e
      | ItLabel p1 b1, ItLabel p2 b2 =>
        if p1 =? p2 then Ok true
        else if negb (eq_ignore_ascii_case b1 b2) then Ok false
        else nameref_eq_loop f a' b'
      end
    end.

  Definition nameref_eq (c1 c2 : cursor) : res bool :=
    nameref_eq_loop (name_fuel c1 + name_fuel c2) (labels_new c1) (labels_new c2).
End WithMsg.
