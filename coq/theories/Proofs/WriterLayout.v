(* Proofs/WriterLayout.v — the exact bytes the encoder produces.
   1. the text-name loop shared by the checker and the writer is a fold over the labels of the
      code-blind [text_labels] (Spec/NameText.v), for ANY per-label action;
   2. write_domain_name_bytes writes exactly length-octet + label for each label, then the root
      octet, touching nothing else;
   3. QueryWriter::write produces exactly: 2-octet length prefix, the 12-octet header (ID, flags with
      only RD possibly set, QDCOUNT 1, ANCOUNT 0, NSCOUNT 0, ARCOUNT 0/1), QNAME, QTYPE, QCLASS and,
      with EDNS, one OPT pseudo-record — and leaves the rest of the buffer untouched. *)
From Coq Require Import ZArith.
From RsdnsModel Require Import Base GenConst GenNames GenHeader GenWriter GenQuery GenSpec Names Writer.
From RsdnsModel.Spec Require Import WireName NameText.
From RsdnsModel.Proofs Require Import CursorSafe ListN LabelsTotal LabelsSound NameText WriterSafe.
From Coq Require Import ZifyBool ZifyN ZifyNat.
Open Scope N_scope.

(* ---------------------------------------------------------------- spec-side encodings *)
Definition enc_label (l : list byte) : list byte := Nb (lenN l) :: l.
Definition wire_encode (ls : list (list byte)) : list byte := concat (map enc_label ls) ++ [x00].
(* QNAME of a text name: the root is the single zero octet *)
Definition qname_wire (s : list byte) : list byte := if is_root s then [x00] else wire_encode (text_labels s).

(* ---------------------------------------------------------------- folding a per-label action *)
Fixpoint fold_res {S} (f : S -> list byte -> res S) (ls : list (list byte)) (st : S) : res S :=
  match ls with
  | [] => Ok st
  | l :: r => let* s := f st l in fold_res f r s
  end.

Lemma fold_res_app {S} (f : S -> list byte -> res S) a b st :
  fold_res f (a ++ b) st = let* s := fold_res f a st in fold_res f b s.
Proof.
  revert st; induction a as [|x a IH]; intro st; cbn [app fold_res bind]; [reflexivity|].
  destruct (f st x); cbn [bind]; try reflexivity. apply IH.
Qed.

Lemma split_dots_single s : forall cur, length (split_dots s cur) = 1%nat -> split_dots s cur = [rev cur ++ s].
Proof.
  induction s as [|b s IH]; intros cur H; cbn [split_dots] in *.
  - rewrite app_nil_r. reflexivity.
  - destruct (bN b =? 46).
    + cbn [length] in H. pose proof (split_dots_nonempty s []). destruct (split_dots s []); [contradiction|discriminate].
    + rewrite (IH _ H). cbn [rev]. rewrite <- app_assoc. reflexivity.
Qed.

Lemma removelast_cons {A} (x : A) l : l <> [] -> removelast (x :: l) = x :: removelast l.
Proof. destruct l; [contradiction|reflexivity]. Qed.
Lemma last_cons {A} (x : A) l d : l <> [] -> last (x :: l) d = last l d.
Proof. destruct l; [contradiction|reflexivity]. Qed.

Section Loop.
  Context {S : Type}.
  Variable f : S -> list byte -> res S.
  Variable name : list byte.

  (* the loop after consuming [pre ++ rev cur]: the labels closed by the dots of [rest] are handed
     to [f] in order; [ds] ends as the offset after the last dot *)
  Lemma name_loop_fold : forall rest pre cur (i : N) ds st,
    name = pre ++ rev cur ++ rest -> i = lenN pre ->
    name_loop f name rest (lenN pre + lenN cur) i ds st =
    (let ps := split_dots rest cur in
     let* st' := fold_res f (removelast ps) st in
     Ok (if (length ps =? 1)%nat then ds else Some (lenN name - lenN (last ps [])), st')).
  Proof.
    induction rest as [|b rest IH]; intros pre cur i ds st Hn Hi; cbn [name_loop split_dots].
    - cbn. reflexivity.
    - rewrite name_is_dot_spec. destruct (bN b =? 46) eqn:Eb.
      + assert (Hsub : subN name i (lenN pre + lenN cur - i) = rev cur).
        { subst i. replace (lenN pre + lenN cur - lenN pre) with (lenN (rev cur)) by (rewrite lenN_rev; lia).
          rewrite Hn. apply subN_mid. }
        assert (Hle : (i <=? lenN pre + lenN cur) && (lenN pre + lenN cur <=? lenN name) = true).
        { subst i. rewrite Hn, !lenN_app, lenN_rev. lia. }
        rewrite Hle, Hsub.
        pose proof (split_dots_nonempty rest []) as Hne.
        rewrite removelast_cons by exact Hne. cbn [fold_res].
        destruct (f st (rev cur)) as [st1| | | | |]; cbn [bind]; try reflexivity.
        assert (Hpre : lenN pre + lenN cur + 1 = lenN (pre ++ rev cur ++ [b]))
          by (rewrite !lenN_app, lenN_cons, !lenN_nil, lenN_rev; lia).
        specialize (IH (pre ++ rev cur ++ [b]) [] (lenN pre + lenN cur + 1) (Some (lenN pre + lenN cur + 1)) st1).
        replace (lenN (pre ++ rev cur ++ [b]) + lenN (@nil byte)) with (lenN pre + lenN cur + 1) in IH
          by (rewrite <- Hpre, lenN_nil; lia).
        rewrite IH; [|rewrite Hn, <- !app_assoc; reflexivity|exact Hpre]. cbv zeta.
        destruct (fold_res f (removelast (split_dots rest [])) st1) as [st2| | | | |]; cbn [bind]; try reflexivity.
        f_equal. f_equal.
        assert (Hl1 : (length (rev cur :: split_dots rest []) =? 1)%nat = false).
        { cbn [length]. destruct (split_dots rest []); [contradiction|reflexivity]. }
        rewrite Hl1, last_cons by exact Hne.
        destruct (length (split_dots rest []) =? 1)%nat eqn:E1; [|reflexivity].
        apply Nat.eqb_eq in E1. rewrite (split_dots_single rest [] E1). cbn [rev app last]. f_equal.
        rewrite Hn, !lenN_app, lenN_cons, lenN_rev. lia.
      + specialize (IH pre (b :: cur) i ds st).
        replace (lenN pre + lenN (b :: cur)) with (lenN pre + lenN cur + 1) in IH by (rewrite lenN_cons; lia).
        apply IH; [|assumption]. rewrite Hn. cbn [rev]. rewrite <- !app_assoc. reflexivity.
  Qed.
End Loop.

Lemma split_last_suffix s : forall cur, exists pre, rev cur ++ s = pre ++ last (split_dots s cur) [].
Proof.
  induction s as [|b s IH]; intro cur; cbn [split_dots].
  - exists []. cbn. rewrite app_nil_r. reflexivity.
  - destruct (bN b =? 46).
    + rewrite last_cons by apply split_dots_nonempty. destruct (IH []) as [pre Hp]. cbn [rev app] in Hp.
      exists (rev cur ++ b :: pre). rewrite <- app_assoc. cbn [app]. f_equal. f_equal. exact Hp.
    + destruct (IH (b :: cur)) as [pre Hp]. exists pre. rewrite <- Hp. cbn [rev]. rewrite <- app_assoc. reflexivity.
Qed.

Lemma text_labels_pieces s :
  let ps := split_dots s [] in
  text_labels s = match last ps [] with [] => removelast ps | _ => ps end.
Proof.
  cbv zeta. unfold text_labels. pose proof (split_dots_nonempty s []) as Hne.
  destruct (exists_last Hne) as (rl & x & Hx). rewrite Hx, rev_app_distr. cbn [rev app].
  rewrite last_last, removelast_last. destruct x; [rewrite rev_involutive; reflexivity|reflexivity].
Qed.

(* name_labels hands exactly the spec's labels to the per-label action, in order *)
Theorem name_labels_fold {S} (f : S -> list byte -> res S) (s : list byte) (st : S) :
  s <> [] -> name_labels f s st = fold_res f (text_labels s) st.
Proof.
  intro Hne. unfold name_labels.
  pose proof (name_loop_fold f s s [] [] 0 None st eq_refl eq_refl) as HL.
  change (lenN (@nil byte) + lenN (@nil byte)) with 0 in HL. rewrite HL. cbv zeta. clear HL.
  rewrite text_labels_pieces. cbv zeta.
  pose proof (split_dots_nonempty s []) as Hps.
  destruct (exists_last Hps) as (rl & x & Hx). rewrite Hx, removelast_last, last_last.
  destruct (fold_res f rl st) as [st1| | | | |] eqn:Ef; cbn [bind].
  2-6: destruct x; [rewrite Ef|rewrite fold_res_app, Ef]; reflexivity.
  destruct (length (rl ++ [x]) =? 1)%nat eqn:E1.
  - (* no dot at all: the whole name is the one label *)
    apply Nat.eqb_eq in E1. rewrite app_length in E1. cbn in E1. destruct rl; [|cbn in E1; lia].
    cbn [app] in Hx. pose proof (split_dots_single s [] ltac:(rewrite Hx; reflexivity)) as H1. rewrite Hx in H1.
    cbn [rev app] in H1. inversion H1; subst x. cbn in Ef. inversion Ef; subst st1.
    destruct s; [contradiction|]. cbn [app fold_res]. destruct (f st (b :: s)); reflexivity.
  - destruct (split_last_suffix s []) as [pre Hp]. cbn [rev app] in Hp. rewrite Hx, last_last in Hp.
    assert (Hlen : lenN s = lenN pre + lenN x) by (rewrite Hp at 1; apply lenN_app).
    rewrite name_tail_nonempty_nounderflow_spec, name_tail_nonempty_spec.
    destruct (lenN s - lenN x <=? lenN s) eqn:Ed; [|lia].
    replace (lenN s - (lenN s - lenN x)) with (lenN x) by lia.
    assert (Hsub : subN s (lenN s - lenN x) (lenN x) = x).
    { replace (lenN s - lenN x) with (lenN pre) by lia. rewrite Hp at 1. apply suffix_subN. }
    rewrite Hsub.
    destruct x as [|b x].
    + cbn. rewrite Ef. reflexivity.
    + assert (0 <? lenN (b :: x) = true) by (rewrite lenN_cons; lia). rewrite H.
      rewrite fold_res_app, Ef. cbn [bind fold_res]. destruct (f st1 (b :: x)); reflexivity.
Qed.

(* ---------------------------------------------------------------- what a write leaves in the buffer *)
Definition written (w w' : wcursor) (bs : list byte) : Prop :=
  wpos w + lenN bs <= wcap w /\ wpos w' = wpos w + lenN bs /\ wbuf w' = put (wbuf w) (wpos w) bs.

Lemma lenN_length {A} (l : list A) : N.to_nat (lenN l) = length l.
Proof. unfold lenN. lia. Qed.

Lemma put_nil buf p : p <= lenN buf -> put buf p [] = buf.
Proof. intro H. unfold put. cbn [app]. rewrite lenN_nil, N.add_0_r. apply firstn_skipn. Qed.

Lemma skipn_skipn' {A} (l : list A) : forall b a, skipn a (skipn b l) = skipn (b + a) l.
Proof.
  induction l as [|x l IH]; intros b a; [rewrite !skipn_nil; reflexivity|].
  destruct b; [reflexivity|]. cbn [skipn Nat.add]. apply IH.
Qed.

Lemma put_app buf p a b : p + lenN a + lenN b <= lenN buf ->
  put (put buf p a) (p + lenN a) b = put buf p (a ++ b).
Proof.
  intro H. unfold put.
  assert (Hp : length (firstn (N.to_nat p) buf) = N.to_nat p) by (apply firstn_length_le; unfold lenN in H; lia).
  replace (N.to_nat (p + lenN a)) with (length (firstn (N.to_nat p) buf ++ a)) by (rewrite app_length, Hp, <- lenN_length; lia).
  rewrite (app_assoc (firstn _ buf) a), firstn_app, firstn_all, Nat.sub_diag, firstn_O, app_nil_r.
  replace (N.to_nat (p + lenN a + lenN b)) with (length (firstn (N.to_nat p) buf ++ a) + length b)%nat
    by (rewrite app_length, Hp, <- !lenN_length; lia).
  rewrite skipn_app, skipn_all2 by lia. cbn [app].
  replace (length (firstn (N.to_nat p) buf ++ a) + length b - length (firstn (N.to_nat p) buf ++ a))%nat with (length b) by lia.
  rewrite skipn_skipn'. rewrite <- !app_assoc. f_equal. f_equal. f_equal. f_equal.
  rewrite app_length, Hp, lenN_app, <- !lenN_length. lia.
Qed.

Lemma written_cap w w' bs : written w w' bs -> wcap w' = wcap w.
Proof. intros (H1 & H2 & H3). unfold wcap in *. rewrite H3. apply lenN_put. assumption. Qed.

Lemma written_nil w : wpos w <= wcap w -> written w w [].
Proof. intro H. unfold written. rewrite lenN_nil, N.add_0_r, put_nil by assumption. auto. Qed.

Lemma written_trans w0 w1 w2 a b : written w0 w1 a -> written w1 w2 b -> written w0 w2 (a ++ b).
Proof.
  intros Ha Hb. pose proof (written_cap _ _ _ Ha) as Hc. destruct Ha as (A1 & A2 & A3), Hb as (B1 & B2 & B3).
  unfold written. rewrite lenN_app. repeat split; try lia.
  rewrite B3, A3, A2. apply put_app. unfold wcap in *. lia.
Qed.

Lemma w_raw_written w bs w' : w_raw w bs = Ok w' -> written w w' bs.
Proof.
  unfold w_raw. destruct (wpos w + lenN bs <=? wcap w) eqn:E; [|discriminate].
  intro H; inversion H; subst. unfold written. cbn. repeat split; lia.
Qed.
Lemma w_u8_written w v w' : w_u8 w v = Ok w' -> written w w' [Nb v].
Proof. unfold w_u8. destruct (wslice_guard _ _); [apply w_raw_written|discriminate]. Qed.
Lemma w_be_written w n v w' : w_be w n v = Ok w' -> written w w' (be_bytes n v).
Proof. unfold w_be. destruct (w_be_guard _ _); [apply w_raw_written|discriminate]. Qed.
Lemma w_be_unchecked_written w n v w' : w_be_unchecked w n v = Ok w' -> written w w' (be_bytes n v).
Proof. unfold w_be_unchecked. destruct (wu_be_assert _ _); [apply w_raw_written|discriminate]. Qed.

Lemma Nb_mod n : Nb (n mod 256) = Nb n.
Proof. unfold Nb. rewrite N.mod_mod by discriminate. reflexivity. Qed.

Lemma write_label_written w l w' : write_label w l = Ok w' ->
  check_label_bytes l = Ok tt /\ written w w' (enc_label l).
Proof.
  unfold write_label. destruct (check_label_ok_or_err l) as [Hok|[e He]]; rewrite ?Hok, ?He; cbn [bind]; [|discriminate].
  destruct (write_label_guard _ _); [|discriminate].
  destruct (w_raw w _) as [w1| | | | |] eqn:E1; cbn [bind]; try discriminate.
  intro E2. apply w_raw_written in E1. apply w_raw_written in E2. split; [reflexivity|].
  unfold write_label_lenbyte in E1. rewrite Nb_mod in E1. exact (written_trans _ _ _ _ _ E1 E2).
Qed.

Lemma fold_write_written ls : forall w w', wpos w <= wcap w ->
  fold_res write_label ls w = Ok w' ->
  Forall (fun l => check_label_bytes l = Ok tt) ls /\ written w w' (concat (map enc_label ls)).
Proof.
  induction ls as [|l ls IH]; intros w w' Hw H; cbn [fold_res map concat] in *.
  - inversion H; subst. split; [constructor|apply written_nil; assumption].
  - destruct (write_label w l) as [w1| | | | |] eqn:E; cbn [bind] in H; try discriminate.
    apply write_label_written in E. destruct E as [Hc Hwr].
    assert (Hw1 : wpos w1 <= wcap w1) by (rewrite (written_cap _ _ _ Hwr); destruct Hwr as (A & B & _); lia).
    destruct (IH _ _ Hw1 H) as [Hf Hr]. split; [constructor; assumption|]. exact (written_trans _ _ _ _ _ Hwr Hr).
Qed.

Lemma Nb_0 : Nb 0 = x00. Proof. reflexivity. Qed.

(* write_domain_name_bytes: exactly the wire form of the text's labels, nothing else touched *)
Theorem write_name_layout w s w' n : wpos w <= wcap w ->
  write_name w s = Ok (w', n) -> written w w' (qname_wire s) /\ n = lenN (qname_wire s).
Proof.
  intro Hw. unfold write_name, qname_wire. destruct s as [|b0 s0] eqn:Es; [discriminate|]. rewrite <- Es.
  assert (Hne : s <> []) by (subst; discriminate). clear Es b0 s0.
  change (is_root_text s) with (is_root s). destruct (is_root s).
  { destruct (w_u8 w 0) as [w1| | | | |] eqn:E; cbn [bind]; try discriminate. intro H; inversion H; subst.
    apply w_u8_written in E. rewrite Nb_0 in E. split; [exact E|reflexivity]. }
  rewrite name_labels_fold by exact Hne.
  destruct (fold_res write_label (text_labels s) w) as [w1| | | | |] eqn:EL; cbn [bind]; try discriminate.
  destruct (fold_write_written _ _ _ Hw EL) as [_ H1].
  destruct (w_u8 w1 0) as [w2| | | | |] eqn:E2; cbn [bind]; try discriminate.
  apply w_u8_written in E2. rewrite Nb_0 in E2.
  pose proof (written_trans _ _ _ _ _ H1 E2) as H2.
  destruct (wname_length_nounderflow _ _); [|discriminate].
  destruct (wname_too_long _); [discriminate|]. intro H; inversion H; subst.
  split; [exact H2|]. unfold wname_length, wire_encode. destruct H2 as (_ & P & _). lia.
Qed.

(* ---------------------------------------------------------------- the whole query *)
Definition opt_wire (opt : option (N * N)) : list byte :=
  match opt with
  | Some (ver, pl) => [x00] ++ be_bytes 2 TYPE_OPT ++ be_bytes 2 pl ++ be_bytes 4 (opt_ttl 0 ver 0) ++ be_bytes 2 0
  | None => []
  end.

(* the message (without the 2-octet TCP length prefix) a query must consist of: RFC 1035 4.1.1,
   4.1.2 and RFC 6891 6.1.2 *)
Definition query_message (id : N) (qname : list byte) (qtype qclass : N) (rd : bool) (opt : option (N * N)) : list byte :=
  be_bytes 2 id ++ be_bytes 2 (if rd then 256 else 0) ++ be_bytes 2 1 ++ be_bytes 2 0 ++ be_bytes 2 0 ++
  be_bytes 2 (match opt with Some _ => 1 | None => 0 end) ++
  qname_wire qname ++ be_bytes 2 qtype ++ be_bytes 2 qclass ++ opt_wire opt.

Lemma write_header_written w h w' : write_header w h = Ok w' ->
  written w w' (be_bytes 2 (qh_id h) ++ be_bytes 2 (qh_flags h) ++ be_bytes 2 (qh_qd h) ++ be_bytes 2 (qh_an h) ++
                be_bytes 2 (qh_ns h) ++ be_bytes 2 (qh_ar h)).
Proof.
  unfold write_header. destruct (whdr_guard _); [|discriminate].
  destruct (w_be_unchecked w 2 _) as [w1| | | | |] eqn:E1; cbn [bind]; try discriminate.
  destruct (w_be_unchecked w1 2 _) as [w2| | | | |] eqn:E2; cbn [bind]; try discriminate.
  destruct (w_be_unchecked w2 2 _) as [w3| | | | |] eqn:E3; cbn [bind]; try discriminate.
  destruct (w_be_unchecked w3 2 _) as [w4| | | | |] eqn:E4; cbn [bind]; try discriminate.
  destruct (w_be_unchecked w4 2 _) as [w5| | | | |] eqn:E5; cbn [bind]; try discriminate.
  intro E6. apply w_be_unchecked_written in E1, E2, E3, E4, E5, E6.
  exact (written_trans _ _ _ _ _ E1 (written_trans _ _ _ _ _ E2 (written_trans _ _ _ _ _ E3
         (written_trans _ _ _ _ _ E4 (written_trans _ _ _ _ _ E5 E6))))).
Qed.

Lemma write_opt_written w ver pl w' : write_opt w ver pl = Ok w' -> written w w' (opt_wire (Some (ver, pl))).
Proof.
  unfold write_opt, opt_wire.
  destruct (w_u8 w 0) as [w1| | | | |] eqn:E1; cbn [bind]; try discriminate.
  destruct (w_be w1 2 _) as [w2| | | | |] eqn:E2; cbn [bind]; try discriminate.
  destruct (w_be w2 2 _) as [w3| | | | |] eqn:E3; cbn [bind]; try discriminate.
  destruct (w_be w3 4 _) as [w4| | | | |] eqn:E4; cbn [bind]; try discriminate.
  intro E5. apply w_u8_written in E1. rewrite Nb_0 in E1. apply w_be_written in E2, E3, E4, E5.
  exact (written_trans _ _ _ _ _ E1 (written_trans _ _ _ _ _ E2 (written_trans _ _ _ _ _ E3 (written_trans _ _ _ _ _ E4 E5)))).
Qed.

Lemma written_wf w w' bs : written w w' bs -> wpos w' <= wcap w'.
Proof. intro H. rewrite (written_cap _ _ _ H). destruct H as (A & B & _). lia. Qed.

Lemma put_same_len buf a a' c : lenN a' = lenN a -> lenN a + lenN c <= lenN buf ->
  put (put buf 0 (a ++ c)) 0 a' = put buf 0 (a' ++ c).
Proof.
  intros Hl Hb. assert (Hla : length a' = length a) by (unfold lenN in Hl; lia).
  unfold put. rewrite !N.add_0_l. change (N.to_nat 0) with 0%nat. cbn [firstn app].
  rewrite !lenN_length. rewrite !app_length, Hla. rewrite <- (app_assoc a' c). f_equal.
  rewrite <- (app_assoc a c), skipn_app, skipn_all, Nat.sub_diag. cbn [skipn app]. reflexivity.
Qed.

(* QueryWriter::write: the buffer holds the length prefix followed by exactly [query_message], and
   everything behind it is as it was *)
Theorem query_write_layout buf id qname qt qc rd opt b n :
  query_write buf id qname qt qc rd opt = Ok (b, n) ->
  let m := query_message id qname qt qc rd opt in
  n = 2 + lenN m /\ n <= lenN buf /\ b = put buf 0 (be_bytes 2 ((lenN m) mod 65536) ++ m).
Proof.
  unfold query_write.
  destruct (w_be (mkW buf 0) 2 0) as [w1| | | | |] eqn:E1; cbn [bind]; try discriminate.
  destruct (write_header w1 _) as [w2| | | | |] eqn:E2; cbn [bind]; try discriminate.
  destruct (write_name w2 qname) as [[w3 k]| | | | |] eqn:E3; cbn [bind]; try discriminate.
  destruct (w_be w3 2 qt) as [w4| | | | |] eqn:E4; cbn [bind]; try discriminate.
  destruct (w_be w4 2 qc) as [w5| | | | |] eqn:E5; cbn [bind]; try discriminate.
  apply w_be_written in E1, E4, E5. apply write_header_written in E2. cbn [qh_id qh_flags qh_qd qh_an qh_ns qh_ar] in E2.
  destruct (write_name_layout _ _ _ _ (written_wf _ _ _ E2) E3) as [E3' _].
  assert (E6 : forall w6, match opt with Some (ver, pl) => write_opt w5 ver pl | None => Ok w5 end = Ok w6 ->
                          written w5 w6 (opt_wire opt)).
  { intros w6 H. destruct opt as [[ver pl]|]; [apply write_opt_written; exact H|].
    inversion H; subst. apply written_nil. exact (written_wf _ _ _ E5). }
  destruct (match opt with Some (ver, pl) => write_opt w5 ver pl | None => Ok w5 end) as [w6| | | | |] eqn:Eo; cbn [bind]; try discriminate.
  specialize (E6 w6 eq_refl).
  pose proof (written_trans _ _ _ _ _ E1 (written_trans _ _ _ _ _ E2 (written_trans _ _ _ _ _ E3'
              (written_trans _ _ _ _ _ E4 (written_trans _ _ _ _ _ E5 E6))))) as W.
  destruct (q_len_prefix_nounderflow (wpos w6)); [|discriminate].
  destruct (w_be (mkW (wbuf w6) 0) 2 _) as [w7| | | | |] eqn:E7; cbn [bind]; try discriminate.
  intro H; inversion H; subst b n. clear H. cbv zeta.
  apply w_be_written in E7. destruct E7 as (_ & _ & E7). cbn [wbuf wpos] in E7.
  destruct W as (W1 & W2 & W3). cbn [wpos wbuf] in W1, W2, W3. unfold wcap in W1. cbn [wbuf] in W1.
  unfold q_qd_count, q_ar_count, flag_rd_bit in *.
  set (m := query_message id qname qt qc rd opt).
  assert (Hm : (be_bytes 2 id ++ be_bytes 2 (if rd then N.shiftl 1 8 else 0) ++ be_bytes 2 1 ++ be_bytes 2 0 ++ be_bytes 2 0 ++
                be_bytes 2 (if match opt with Some _ => true | None => false end then 1 else 0)) ++
               qname_wire qname ++ be_bytes 2 qt ++ be_bytes 2 qc ++ opt_wire opt = m).
  { unfold m, query_message. rewrite <- !app_assoc. destruct rd, opt; reflexivity. }
  rewrite Hm in W1, W2, W3.
  rewrite lenN_app, lenN_be_bytes in W1, W2. change (N.of_nat 2) with 2 in W1, W2.
  split; [lia|]. split; [lia|].
  rewrite E7, W3. unfold q_len_prefix. rewrite W2. replace (0 + (2 + lenN m) - 2) with (lenN m) by lia.
  apply put_same_len; [rewrite !lenN_be_bytes; reflexivity|rewrite lenN_be_bytes; change (N.of_nat 2) with 2; lia].
Qed.

(* ---------------------------------------------------------------- what the clients send *)
Lemma firstn_put0 buf bs : lenN bs <= lenN buf -> firstn (N.to_nat (lenN bs)) (put buf 0 bs) = bs.
Proof.
  intro H. unfold put. change (N.to_nat 0) with 0%nat. cbn [firstn app]. rewrite lenN_length.
  rewrite firstn_app, firstn_all, Nat.sub_diag, firstn_O, app_nil_r. reflexivity.
Qed.

(* prepare_message of the blocking client and of the async template: the bytes handed to the
   socket (TCP: all of them; UDP: without the first two) are the length prefix followed by exactly
   the RFC message, the EDNS payload size being min(configured, receive buffer) *)
Theorem prepare_message_layout std id qname qt qc rd edns recv_len b :
  prepare_message std id qname qt qc rd edns recv_len = Ok b ->
  let opt := match edns with Some (ver, ups) => Some (ver, (N.min ups recv_len) mod 65536) | None => None end in
  let m := query_message id qname qt qc rd opt in
  b = be_bytes 2 (lenN m mod 65536) ++ m.
Proof.
  unfold prepare_message. cbv zeta.
  set (opt := match edns with Some (ver, ups) => Some (ver, if std then std_opt_payload_cast (std_opt_payload ups recv_len) else async_opt_payload_cast (async_opt_payload ups recv_len)) | None => None end).
  assert (Hopt : opt = match edns with Some (ver, ups) => Some (ver, (N.min ups recv_len) mod 65536) | None => None end).
  { unfold opt. destruct edns as [[ver ups]|]; [|reflexivity]. destruct std; reflexivity. }
  destruct (query_write _ id qname qt qc rd opt) as [[b0 n]| | | | |] eqn:E; cbn [bind]; try discriminate.
  intro H; inversion H; subst b. clear H.
  apply query_write_layout in E. cbv zeta in E. destruct E as (Hn & Hle & Hb). rewrite <- Hopt.
  set (m := query_message id qname qt qc rd opt) in *.
  assert (Hl : lenN (be_bytes 2 (lenN m mod 65536) ++ m) = n) by (rewrite lenN_app, lenN_be_bytes; change (N.of_nat 2) with 2; lia).
  rewrite Hb, <- Hl. apply firstn_put0. rewrite Hl. exact Hle.
Qed.
