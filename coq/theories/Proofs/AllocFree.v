(* Proofs/AllocFree.v — calls of the allocation-free API only ever return fixed-size values. *)
From Coq Require Import ZArith.
From RsdnsModel Require Import Base GenConst Cursor Names Labels Header Tracker RData Reader Script Alloc.
Open Scope N_scope.

Lemma read_rdata_fixed msg ty rd m c c' d :
  (ty =? T_A) || (ty =? T_AAAA) = true -> read_rdata msg ty rd = Some m -> m c = (c', Ok d) -> fixed_rdata d = true.
Proof.
  intros Hty. unfold read_rdata. destruct (ty =? T_A) eqn:E1.
  - intro H; inversion H; subst; clear H. unfold in_window, mbind, mret.
    destruct (m_window rd c) as [c1 r1]. destruct r1; try (intro H; inversion H; fail).
    destruct (m_u32 msg c1) as [c2 r2]. destruct r2; try (intro H; inversion H; fail).
    destruct (m_close c2) as [c3 r3]. destruct r3; intro H; inversion H; reflexivity.
  - cbn in Hty. rewrite Hty. intro H; inversion H; subst; clear H. unfold in_window, mbind, mret.
    destruct (m_window rd c) as [c1 r1]. destruct r1; try (intro H; inversion H; fail).
    destruct (m_u128 msg c1) as [c2 r2]. destruct r2; try (intro H; inversion H; fail).
    destruct (m_close c2) as [c3 r3]. destruct r3; intro H; inversion H; reflexivity.
Qed.

Lemma absorb_fixed w mi o : (match o with Ok v => fixed_obs v = true | _ => True end) ->
  match snd (absorb w mi o) with Ok s => fixed_sobs s = true | _ => True end.
Proof.
  intro H. unfold absorb. destruct o as [v| | | | |]; cbn; try exact I. destruct v; cbn in *; try reflexivity; assumption.
Qed.

Lemma rd_data_fixed msg ty mk r : (ty =? T_A) || (ty =? T_AAAA) = true ->
  match snd (rd_data msg ty mk r) with Ok v => fixed_obs v = true | _ => True end.
Proof.
  intro Hty. unfold rd_data. destruct (read_rdata msg ty (m_rdlen mk)) as [m|] eqn:E; [|reflexivity].
  destruct (negb _); [exact I|]. destruct (r_done r); [exact I|].
  unfold after_data, run, mbind, mret. destruct (m (r_cur r)) as [c' x] eqn:Em.
  destruct x as [d| | | | |]; cbn; try exact I.
  destruct (section_read _ _ _); cbn; try exact I. eapply read_rdata_fixed; eassumption.
Qed.

Lemma rd_data_at_fixed msg ty mk r : (ty =? T_A) || (ty =? T_AAAA) = true ->
  match rd_data_at msg ty mk r with Ok v => fixed_obs v = true | _ => True end.
Proof.
  intro Hty. unfold rd_data_at. destruct (read_rdata msg ty (m_rdlen mk)) as [m|] eqn:E; [|reflexivity].
  destruct (m (c_clone_with_pos (r_cur r) (rdata_pos mk))) as [c' x] eqn:Em. cbn.
  destruct x as [d| | | | |]; cbn; try exact I. eapply read_rdata_fixed; eassumption.
Qed.

