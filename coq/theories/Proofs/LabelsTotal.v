(* Proofs/LabelsTotal.v — the label/pointer walker never performs an out-of-bounds access, never
   panics and terminates within 34*(|buf|+2) iterations, for every byte string and every start
   position; hence read_name / skip_name / label iteration / NameRef::eq always return a value or
   an error.  Measure: (32 - pointers followed) * (lim+2) + (lim+1 - pos). *)
From Coq Require Import ZArith.
From RsdnsModel Require Import Base GenConst GenCursor GenLabels GenNames GenSpec Cursor Names Labels.
From RsdnsModel.Proofs Require Import CursorSafe.
From Coq Require Import ZifyBool ZifyN ZifyNat.
Open Scope N_scope.

Section Walk.
  Variable msg : list byte.

  (* invariant of the walker state *)
  Definition linv (st : lstate) : Prop :=
    cwf msg (lc st) /\ (max_pos st = 0 \/ (2 <= max_pos st /\ max_pos st <= lim (lc st))) /\ n_ptr st <= 32.

  Definition lmeasure (st : lstate) : N :=
    (32 - n_ptr st) * (lim (lc st) + 2) + (lim (lc st) + 1 - pos (lc st)).

  Lemma linv_init c : cwf msg c -> linv (mkL c 0 0).
  Proof. unfold linv; cbn. intuition lia. Qed.

  (* check_label_bytes never misbehaves *)
  Lemma check_label_defined l : defined (check_label_bytes l).
  Proof.
    unfold check_label_bytes. destruct l as [|b l]; [exact I|].
    destruct (label_too_long _); [exact I|].
    destruct (find _ _); [exact I|].
    cbn [getN N.to_nat nth_error]. unfold getN. change (N.to_nat 0) with 0%nat. cbn [nth_error].
    destruct (label_first_bad _); [exact I|].
    rewrite label_last_index_nounderflow_spec, label_last_index_spec.
    assert (Hl : 1 <= lenN (b :: l)) by (rewrite lenN_cons; lia).
    destruct (1 <=? lenN (b :: l)) eqn:E; [|lia].
    destruct (getN_Some (b :: l) (lenN (b :: l) - 1)) as [x Hx]; [lia|]. unfold getN in Hx. rewrite Hx.
    destruct (label_last_bad _); exact I.
  Qed.

  Lemma append_label_defined nk t l : defined (append_label_bytes nk t l).
  Proof.
    unfold append_label_bytes. pose proof (check_label_defined l) as H.
    destruct (check_label_bytes l); cbn in *; try tauto.
    destruct nk.
    - destruct (name_new_len_bad _); exact I.
    - destruct (_ <=? _); [|exact I]. destruct (_ <=? _); exact I.
  Qed.

  (* one iteration: defined, keeps the invariant, decreases the measure *)
  Lemma label_step_defined st : linv st -> defined (label_step msg st).
  Proof.
    intros (Hc & Hm & Hn). unfold label_step.
    pose proof (c_u8_defined msg (lc st) Hc) as D1.
    destruct (c_u8 msg (lc st)) as [[label c1]| | | | |] eqn:E1; cbn in *; try tauto.
    apply c_u8_ok in E1. destruct E1 as (Hp & (b & Hb & ->) & ->).
    rewrite label_is_root_spec. destruct (bN b =? 0) eqn:Ez; [exact I|].
    rewrite is_length_spec. destruct (bN b <? 64) eqn:El.
    - pose proof (c_slice_defined msg (c_set_pos (lc st) (pos (lc st) + 1)) (bN b) (cwf_set_pos _ _ _ Hc)) as D2.
      destruct (c_slice _ _ _) as [[[lo bs] c2]| | | | |]; cbn in *; tauto.
    - rewrite is_pointer_spec. destruct (192 <=? bN b) eqn:Ep; [|exact I].
      pose proof (c_u8_defined msg (c_set_pos (lc st) (pos (lc st) + 1)) (cwf_set_pos _ _ _ Hc)) as D2.
      destruct (c_u8 msg (c_set_pos _ _)) as [[o2 c2]| | | | |] eqn:E2; cbn in *; try tauto.
      apply c_u8_ok in E2. cbn in E2. destruct E2 as (Hp2 & (b2 & Hb2 & ->) & ->). cbn.
      rewrite ptr_bad_nounderflow_spec, max_pos_unset_spec.
      destruct (max_pos st =? 0) eqn:Em.
      + destruct (2 <=? pos (lc st) + 1 + 1) eqn:E2'; [|lia].
        destruct (ptr_bad _ _); [exact I|]. destruct (too_many_pointers _); exact I.
      + destruct (2 <=? max_pos st) eqn:E2'; [|lia].
        destruct (ptr_bad _ _); [exact I|]. destruct (too_many_pointers _); exact I.
  Qed.

  Lemma label_step_label st p bytes st' :
    linv st -> label_step msg st = Ok (LLabel p bytes st') ->
    linv st' /\ lmeasure st' < lmeasure st /\ lim (lc st') = lim (lc st) /\
    p = pos (lc st) /\ (exists b, getN msg p = Some b /\ 1 <= bN b <= 63 /\ bytes = subN msg (p + 1) (bN b) /\
                                   pos (lc st') = p + 1 + bN b /\ p + 1 + bN b <= lim (lc st)) /\
    max_pos st' = max_pos st /\ n_ptr st' = n_ptr st /\ orig (lc st') = orig (lc st).
  Proof.
    intros (Hc & Hm & Hn). unfold label_step.
    destruct (c_u8 msg (lc st)) as [[label c1]| | | | |] eqn:E1; cbn; try discriminate.
    apply c_u8_ok in E1. destruct E1 as (Hp & (b & Hb & ->) & ->).
    rewrite label_is_root_spec. destruct (bN b =? 0) eqn:Ez; [discriminate|].
    rewrite is_length_spec. destruct (bN b <? 64) eqn:El.
    - destruct (c_slice _ _ _) as [[[lo bs] c2]| | | | |] eqn:E2; cbn; try discriminate.
      apply c_slice_ok in E2. cbn in E2. destruct E2 as (-> & Hle & Hlm & -> & ->).
      intro H; inversion H; subst; clear H. unfold linv, lmeasure; cbn.
      repeat split; try tauto; try lia.
      + apply cwf_set_pos; exact Hc.
      + exists b. repeat split; try lia; auto.
    - rewrite is_pointer_spec. destruct (192 <=? bN b); [|discriminate].
      destruct (c_u8 msg (c_set_pos _ _)) as [[o2 c2]| | | | |]; cbn; try discriminate.
      destruct (ptr_bad_nounderflow _ _); [|discriminate].
      destruct (ptr_bad _ _); [discriminate|]. destruct (too_many_pointers _); discriminate.
  Qed.

  Lemma label_step_jump st st' :
    linv st -> label_step msg st = Ok (LJump st') ->
    linv st' /\ lmeasure st' < lmeasure st /\ lim (lc st') = lim (lc st) /\ orig (lc st') = orig (lc st) /\
    exists b1 b2, getN msg (pos (lc st)) = Some b1 /\ 192 <= bN b1 /\ getN msg (pos (lc st) + 1) = Some b2 /\
      pos (lc st') = (bN b1 - 192) * 256 + bN b2 /\
      max_pos st' = (if max_pos st =? 0 then pos (lc st) + 2 else max_pos st) /\
      pos (lc st') + 2 < max_pos st' /\ n_ptr st' = n_ptr st + 1 /\ pos (lc st) + 2 <= lim (lc st).
  Proof.
    intros (Hc & Hm & Hn). unfold label_step.
    destruct (c_u8 msg (lc st)) as [[label c1]| | | | |] eqn:E1; cbn; try discriminate.
    apply c_u8_ok in E1. destruct E1 as (Hp & (b & Hb & ->) & ->).
    rewrite label_is_root_spec. destruct (bN b =? 0) eqn:Ez; [discriminate|].
    rewrite is_length_spec. destruct (bN b <? 64) eqn:El.
    { destruct (c_slice _ _ _) as [[[lo bs] c2]| | | | |]; cbn; discriminate. }
    rewrite is_pointer_spec. destruct (192 <=? bN b) eqn:Ep; [|discriminate].
    destruct (c_u8 msg (c_set_pos _ _)) as [[o2 c2]| | | | |] eqn:E2; cbn; try discriminate.
    apply c_u8_ok in E2. cbn in E2. destruct E2 as (Hp2 & (b2 & Hb2 & ->) & ->). cbn.
    rewrite ptr_bad_nounderflow_spec, max_pos_unset_spec, pointer_to_offset_spec.
    pose proof (bN_lt_256 b) as Hb256. pose proof (bN_lt_256 b2) as Hb2256.
    assert (Hmod : bN b mod 64 = bN b - 192) by lia.
    rewrite Hmod.
    set (mp := if max_pos st =? 0 then pos (lc st) + 1 + 1 else max_pos st).
    assert (Hmp : 2 <= mp /\ mp <= lim (lc st)) by (subst mp; destruct (max_pos st =? 0) eqn:Em; lia).
    destruct (2 <=? mp) eqn:E2'; [|lia].
    destruct (ptr_bad _ mp) eqn:Epb; [discriminate|].
    apply ptr_bad_spec in Epb; [|lia].
    destruct (too_many_pointers _) eqn:Et; [discriminate|].
    assert (Hn' : n_ptr st + 1 <= 32).
    { destruct (N.le_gt_cases (n_ptr st + 1) 32); [assumption|]. apply too_many_pointers_spec in H. congruence. }
    intro H; inversion H; subst; clear H. unfold linv, lmeasure; cbn.
    split; [|split; [|split; [reflexivity|split; [reflexivity|]]]].
    - split; [apply cwf_set_pos, cwf_set_pos, cwf_set_pos; exact Hc|]. split; [right; lia|lia].
    - nia.
    - exists b, b2. subst mp. repeat split; auto; try lia; destruct (max_pos st =? 0); lia.
  Qed.

  Lemma label_step_end st mp :
    linv st -> label_step msg st = Ok (LEnd mp) ->
    getN msg (pos (lc st)) = Some x00 /\ pos (lc st) < lim (lc st) /\
    mp = (if max_pos st =? 0 then pos (lc st) + 1 else max_pos st) /\ 1 <= mp <= lim (lc st).
  Proof.
    intros (Hc & Hm & Hn). unfold label_step.
    destruct (c_u8 msg (lc st)) as [[label c1]| | | | |] eqn:E1; cbn; try discriminate.
    apply c_u8_ok in E1. destruct E1 as (Hp & (b & Hb & ->) & ->).
    rewrite label_is_root_spec. destruct (bN b =? 0) eqn:Ez.
    - rewrite max_pos_unset_spec. intro H; inversion H; subst; clear H. cbn.
      assert (b = x00). { destruct b; try reflexivity; vm_compute in Ez; discriminate. }
      subst b. repeat split; auto; destruct (max_pos st =? 0) eqn:E0; lia.
    - rewrite is_length_spec. destruct (bN b <? 64).
      { destruct (c_slice _ _ _) as [[[lo bs] c2]| | | | |]; cbn; discriminate. }
      rewrite is_pointer_spec. destruct (192 <=? bN b); [|discriminate].
      destruct (c_u8 msg (c_set_pos _ _)) as [[o2 c2]| | | | |]; cbn; try discriminate.
      destruct (ptr_bad_nounderflow _ _); [|discriminate].
      destruct (ptr_bad _ _); [discriminate|]. destruct (too_many_pointers _); discriminate.
  Qed.

  (* the three drivers never run out of fuel and never misbehave *)
  Lemma read_name_loop_defined nk fuel : forall st dn,
    linv st -> (N.to_nat (lmeasure st) < fuel)%nat -> defined (read_name_loop msg nk fuel st dn).
  Proof.
    induction fuel as [|f IH]; intros st dn Hi Hf; [lia|]. cbn [read_name_loop].
    pose proof (label_step_defined st Hi) as D.
    destruct (label_step msg st) as [s| | | | |] eqn:Es; cbn in *; try tauto.
    destruct s as [mp|p bytes st'|st'].
    - exact I.
    - destruct (label_step_label _ _ _ _ Hi Es) as (Hi' & Hlt & _).
      pose proof (append_label_defined nk dn bytes) as Da.
      destruct (append_label_bytes nk dn bytes); cbn in *; try tauto.
      apply IH; [assumption|lia].
    - destruct (label_step_jump _ _ Hi Es) as (Hi' & Hlt & _). apply IH; [assumption|lia].
  Qed.

  Lemma skip_name_loop_defined fuel : forall st,
    linv st -> (N.to_nat (lmeasure st) < fuel)%nat -> defined (skip_name_loop msg fuel st).
  Proof.
    induction fuel as [|f IH]; intros st Hi Hf; [lia|]. cbn [skip_name_loop].
    pose proof (label_step_defined st Hi) as D.
    destruct (label_step msg st) as [s| | | | |] eqn:Es; cbn in *; try tauto.
    destruct s as [mp|p bytes st'|st'].
    - exact I.
    - destruct (label_step_label _ _ _ _ Hi Es) as (Hi' & Hlt & _).
      pose proof (check_label_defined bytes) as Da.
      destruct (check_label_bytes bytes); cbn in *; try tauto.
      apply IH; [assumption|lia].
    - destruct (label_step_jump _ _ Hi Es) as (Hi' & Hlt & _). apply IH; [assumption|lia].
  Qed.

  Lemma lmeasure_fuel c : cwf msg c -> (N.to_nat (lmeasure (mkL c 0 0)) < name_fuel c)%nat.
  Proof. unfold lmeasure, name_fuel; cbn. intros _. nia. Qed.

  Theorem read_name_defined nk c : cwf msg c -> defined (read_name msg nk c).
  Proof.
    intro Hc. unfold read_name.
    pose proof (read_name_loop_defined nk (name_fuel c) (mkL c 0 0) [] (linv_init c Hc) (lmeasure_fuel c Hc)) as D.
    destruct (read_name_loop _ _ _ _ _) as [[dn mp]| | | | |]; cbn in *; try tauto.
    destruct (name_wire_too_long _); exact I.
  Qed.

  (* skip_name: the position only moves forward (no usize underflow in `c.pos() - start`) *)
  Lemma skip_name_loop_ge fuel : forall st mp,
    linv st -> skip_name_loop msg fuel st = Ok mp ->
    (max_pos st = 0 -> pos (lc st) < mp) /\ (max_pos st <> 0 -> mp = max_pos st).
  Proof.
    induction fuel as [|f IH]; intros st mp Hi; [discriminate|]. cbn [skip_name_loop].
    destruct (label_step msg st) as [s| | | | |] eqn:Es; cbn; try discriminate.
    destruct s as [mp'|p bytes st'|st'].
    - intro H; inversion H; subst. apply label_step_end in Es; [|assumption].
      destruct Es as (_ & _ & -> & _). destruct (max_pos st =? 0) eqn:E; split; intros; lia.
    - destruct (label_step_label _ _ _ _ Hi Es) as (Hi' & _ & _ & -> & (b & _ & Hb & _ & Hp & _) & Hmp & _).
      destruct (check_label_bytes bytes); cbn; try discriminate.
      intro H. apply IH in H; [|assumption]. rewrite Hmp in H. destruct H as [H1 H2]. split; intros; [|auto].
      specialize (H1 H). lia.
    - destruct (label_step_jump _ _ Hi Es) as (Hi' & _ & _ & _ & b1 & b2 & _ & _ & _ & _ & Hmp & Hlt & _).
      intro H. apply IH in H; [|assumption]. destruct H as [H1 H2].
      assert (Hnz : max_pos st' <> 0) by (destruct (max_pos st =? 0) eqn:E; lia).
      specialize (H2 Hnz). destruct (max_pos st =? 0) eqn:E; split; intros; lia.
  Qed.

  Theorem skip_name_defined c : cwf msg c -> defined (skip_name msg c).
  Proof.
    intro Hc. unfold skip_name.
    pose proof (skip_name_loop_defined (name_fuel c) (mkL c 0 0) (linv_init c Hc) (lmeasure_fuel c Hc)) as D.
    destruct (skip_name_loop _ _ _) as [mp| | | | |] eqn:E; cbn in *; try tauto.
    apply skip_name_loop_ge in E; [|apply linv_init; assumption]. cbn in E.
    destruct E as [E _]. specialize (E eq_refl). destruct (pos c <=? mp) eqn:E2; [exact I|lia].
  Qed.
End Walk.
