(* Proofs/Bits.v — the flag / OPT accessors are the RFC bit fields. *)
From Coq Require Import ZArith.
From RsdnsModel Require Import Base GenConst GenHeader.
From Coq Require Import ZifyBool ZifyN ZifyNat.
Open Scope N_scope.

(* i, i+1, ..., i+k-1 without building large unary numbers per element *)
Fixpoint upto (k : nat) (i : N) : list N := match k with O => [] | S k' => i :: upto k' (i + 1) end.
Lemma upto_In k : forall i n, i <= n -> n < i + N.of_nat k -> In n (upto k i).
Proof.
  induction k as [|k IH]; intros i n H1 H2; [lia|]. cbn [upto].
  destruct (N.eq_dec i n); [left; assumption|right]. apply IH; lia.
Qed.
Definition words16 : list N := upto (N.to_nat 65536) 0.
Lemma words16_complete w : w < 65536 -> In w words16.
Proof. intro H. apply upto_In; lia. Qed.
Lemma sweep16 (P : N -> bool) : forallb P words16 = true -> forall w, w < 65536 -> P w = true.
Proof. intros H w Hw. rewrite forallb_forall in H. apply H, words16_complete, Hw. Qed.

(* RFC 1035 4.1.1: QR(15) OPCODE(14..11) AA(10) TC(9) RD(8) RA(7) Z(6..4) RCODE(3..0) *)
Definition flags_ok (w : N) : bool :=
  Bool.eqb (flag_qr w) (N.testbit w 15) && (flag_opcode w =? (w / 2048) mod 16) &&
  Bool.eqb (flag_aa w) (N.testbit w 10) && Bool.eqb (flag_tc w) (N.testbit w 9) &&
  Bool.eqb (flag_rd w) (N.testbit w 8) && Bool.eqb (flag_ra w) (N.testbit w 7) &&
  (flag_rcode w =? w mod 16).

Theorem flags_rfc : forall w, w < 65536 ->
  flag_qr w = N.testbit w 15 /\ flag_opcode w = (w / 2048) mod 16 /\ flag_aa w = N.testbit w 10 /\
  flag_tc w = N.testbit w 9 /\ flag_rd w = N.testbit w 8 /\ flag_ra w = N.testbit w 7 /\ flag_rcode w = w mod 16.
Proof.
  intros w Hw. assert (H : flags_ok w = true) by (apply sweep16; [vm_compute; reflexivity|assumption]).
  unfold flags_ok in H. rewrite !Bool.andb_true_iff in H.
  destruct H as [[[[[[H1 H2] H3] H4] H5] H6] H7].
  repeat split; first [apply Bool.eqb_prop; assumption | apply N.eqb_eq; assumption].
Qed.

(* RFC 6891 6.1.3: TTL = EXTENDED-RCODE(31..24) VERSION(23..16) DO Z(15..0); CLASS = payload size *)
Lemma mask_shift a k m : N.shiftr (N.land a (N.shiftl (N.ones m) k)) k = (a / 2 ^ k) mod 2 ^ m.
Proof.
  rewrite N.shiftr_land, N.shiftr_shiftl_l, N.sub_diag, N.shiftl_0_r, N.land_ones, N.shiftr_div_pow2 by lia. reflexivity.
Qed.

Theorem opt_fields_rfc : forall ttl, ttl < 2 ^ 32 ->
  opt_rcode_extension ttl = ttl / 2 ^ 24 /\ opt_version ttl = (ttl / 2 ^ 16) mod 256 /\ opt_flags ttl = ttl mod 65536.
Proof.
  intros ttl H. unfold opt_rcode_extension, opt_version, opt_flags. repeat split.
  - change 4278190080 with (N.shiftl (N.ones 8) 24). rewrite mask_shift. change (2 ^ 8) with 256.
    rewrite N.mod_mod by discriminate. apply N.mod_small.
    apply N.div_lt_upper_bound; [discriminate|]. change (2 ^ 24 * 256) with (2 ^ 32). assumption.
  - change 16711680 with (N.shiftl (N.ones 8) 16). rewrite mask_shift. change (2 ^ 8) with 256.
    apply N.mod_mod. discriminate.
  - change 65535 with (N.ones 16). rewrite N.land_ones. change (2 ^ 16) with 65536. apply N.mod_mod. discriminate.
Qed.

Theorem opt_do_rfc : forall f, opt_dnssec_ok f = N.testbit f 15.
Proof.
  intro f. unfold opt_dnssec_ok. change 32768 with (N.shiftl 1 15).
  destruct (N.testbit f 15) eqn:E.
  - apply Bool.negb_true_iff, N.eqb_neq. intro H.
    assert (N.testbit (N.land f (N.shiftl 1 15)) 15 = false) by (rewrite H; apply N.bits_0).
    rewrite N.land_spec, E, N.shiftl_spec_high, N.sub_diag in H0 by lia. discriminate.
  - apply Bool.negb_false_iff, N.eqb_eq. apply N.bits_inj. intro n. rewrite N.land_spec, N.bits_0.
    destruct (N.eq_dec n 15) as [->|Hn]; [rewrite E; reflexivity|].
    replace (N.testbit (N.shiftl 1 15) n) with false; [apply Bool.andb_false_r|].
    symmetry. destruct (N.lt_ge_cases n 15); [apply N.shiftl_spec_low; assumption|].
    rewrite N.shiftl_spec_high by lia. destruct (n - 15) eqn:E2; [lia|]. reflexivity.
Qed.
