(* Proofs/AcceptComplete.v — the datagram filter is not vacuous: a response whose header carries the
   query's id and announces one question, with a question standing behind the header (name in any
   legal spelling, described semantically as in Proofs/MessageRT.v) of the asked type and class and
   a name equal to the asked one in the sense of `InlineName == &str`, IS accepted — with the
   datagram's flags — by the filter of both client families.  (C12 itself is the converse: only
   such datagrams are accepted.) *)
From Coq Require Import ZArith.
From RsdnsModel Require Import Base GenConst GenCursor GenHeader GenTypes GenTracker GenReader GenClient GenSpec Cursor Names Labels Header Tracker RData Reader Client.
From RsdnsModel.Spec Require Import WireName LinearPass.
From RsdnsModel.Proofs Require Import CursorSafe ListN SpecExec ParseSpec TrackerRefine ReaderTotal ReaderRefine MessageRT.
From Coq Require Import ZifyBool ZifyN ZifyNat.
Open Scope N_scope.

Theorem genuine_response_accepted std d q e h id qname :
  lenN d <= 65535 -> 12 <= lenN d ->
  read_header d (c_new d) = (c_set_pos (c_new d) 12, Ok h) ->
  h_qd h = 1 -> h_an h <= 65535 -> h_ns h <= 65535 -> h_ar h <= 65535 -> h_id h = id ->
  question_stands d 12 q e ->
  name_eq_str (join_labels (map snd (sq_labels q))) qname = true ->
  accept_datagram std id qname (sq_type q) (sq_class q) d = Ok (Some (h_flags h)).
Proof.
  intros Hlen H12 Hrh Hqd Ban Bns Bar Hid Hq Hname.
  (* the datagram is [parsed] with its one question and no record looked at *)
  pose proof (question_at_of d 12 q e Hq) as Hqa.
  assert (Hp : parsed d 1 (h_an h) (h_ns h) (h_ar h) [qitem 12 q e] [] e e).
  { unfold parsed. split; [exact Hlen|]. split; [exact H12|].
    split; [apply ch_cons; [exact Hqa|exact I|constructor]|]. split; [constructor|].
    split; [unfold lenN; cbn; lia|]. split; [intros _; reflexivity|]. split; [unfold lenN; cbn; lia|]. repeat (split; [lia|]). lia. }
  unfold accept_datagram, reader_new, msg_too_long. assert (El : (65535 <? lenN d) = false) by lia. rewrite El.
  unfold rd_header, run. cbn [r_cur]. rewrite Hrh. unfold latch. cbn [snd fst with_cur with_tr r_tr r_cur r_done].
  assert (Eid : (if std then std_id_mismatch (h_id h) id else async_id_mismatch (h_id h) id) = false).
  { unfold std_id_mismatch, async_id_mismatch. rewrite Hid, N.eqb_refl. destruct std; reflexivity. }
  rewrite Eid.
  set (r1 := mkReader (c_set_pos (c_new d) 12) (tr_set tr_default h) false).
  assert (S1 : RState d 1 (h_an h) (h_ns h) (h_ar h) [qitem 12 q e] [] e r1 0 0).
  { apply (rstate_start_any d 1 (h_an h) (h_ns h) (h_ar h) _ _ e e Hp h); try reflexivity; [exact Hqd|split; reflexivity]. }
  destruct (question_flavours_any d 1 (h_an h) (h_ns h) (h_ar h) _ _ e e Hp true false r1 0 0 (qitem 12 q e) S1 eq_refl ltac:(lia) ltac:(reflexivity))
    as (r2 & o & Eq & _ & ls & e' & Es & ->).
  change (with_tr (with_cur (mkReader (c_new d) tr_default false) (c_set_pos (c_new d) 12)) (tr_set tr_default h)) with r1. rewrite Eq.
  (* the text is that of the question's labels *)
  destruct Hq as (r & pre & post & (Hex & Hres & _) & _).
  cbn [a_start qitem] in Es. apply spec_name_accept_iff in Es. destruct Es as [Hex' _].
  pose proof (expands_det' d _ _ _ _ Hex _ _ _ Hex') as Hls. subst ls.
  cbn [a_type a_class qitem]. rewrite !N.eqb_refl, Hname.
  unfold std_question_matches, async_question_matches. destruct std; reflexivity.
Qed.
