(* Proofs/RDataRT.v — encode -> decode for the record data of ALL 17 supported types: the typed
   decoder applied to the uncompressed RFC wire form (Spec/RDataWire.v) of any encodable value,
   lying anywhere in any message with RDLENGTH = its length, returns exactly that value and stops
   right behind it.  A small logic of "this parser consumes exactly these bytes and yields x". *)
From Coq Require Import ZArith.
From RsdnsModel Require Import Base GenConst GenCursor GenLabels GenNames GenTypes GenRData GenSpec Cursor Names Labels RData Writer.
From RsdnsModel.Spec Require Import WireName NameText RDataWire.
From RsdnsModel.Proofs Require Import CursorSafe ListN LabelsTotal LabelsSound NameText WriterSafe WriterLayout RoundTrip RecordRT.
From Coq Require Import ZifyBool ZifyN ZifyNat.
Open Scope N_scope.

Lemma be_enc_is_be_bytes n v : be_enc n v = be_bytes n v.
Proof. revert v; induction n as [|n IH]; intro v; cbn; [reflexivity|]. rewrite IH. reflexivity. Qed.
Lemma name_enc_is_wire ls : name_enc ls = wire_encode ls.
Proof. reflexivity. Qed.

Section C.
  Variable msg : list byte.

  (* [m] run where [bs] lies in the message consumes exactly [bs] and yields [x] *)
  Definition consumes {X} (m : M X) (bs : list byte) (x : X) : Prop :=
    forall pre post c, msg = pre ++ bs ++ post -> cwf msg c -> pos c = lenN pre -> lenN pre + lenN bs <= lim c ->
      m c = (c_set_pos c (lenN pre + lenN bs), Ok x).

  Lemma set_pos_self c : c_set_pos c (pos c) = c.
  Proof. destruct c; reflexivity. Qed.

  Lemma cons_ret {X} (x : X) : consumes (mret x) [] x.
  Proof. intros pre post c _ _ Hp _. unfold mret. rewrite lenN_nil, N.add_0_r, <- Hp, set_pos_self. reflexivity. Qed.

  Lemma cons_bind {X Y} (m : M X) (f : X -> M Y) b1 b2 x y :
    consumes m b1 x -> consumes (f x) b2 y -> consumes (mbind m f) (b1 ++ b2) y.
  Proof.
    intros H1 H2 pre post c Hm Hc Hp Hl. unfold mbind. rewrite lenN_app in Hl.
    rewrite (H1 pre (b2 ++ post) c ltac:(rewrite Hm, <- app_assoc; reflexivity) Hc Hp ltac:(lia)).
    rewrite (H2 (pre ++ b1) post (c_set_pos c (lenN pre + lenN b1))).
    - rewrite set_pos_idem, !lenN_app. f_equal. f_equal. lia.
    - rewrite Hm, <- !app_assoc. reflexivity.
    - apply cwf_set_pos; assumption.
    - rewrite lenN_app. reflexivity.
    - rewrite lenN_app. cbn [lim c_set_pos]. lia.
  Qed.

  Lemma cons_be n v : (0 < n)%nat -> v < 256 ^ N.of_nat n -> consumes (lift (fun c => c_be msg c (N.of_nat n))) (be_bytes n v) v.
  Proof.
    intros Hn Hv pre post c Hm Hc Hp Hl. rewrite lenN_be_bytes in Hl. unfold lift.
    rewrite (c_be_fwd msg c (N.of_nat n) Hc) by lia.
    assert (S1 : subN msg (pos c) (N.of_nat n) = be_bytes n v).
    { rewrite Hp, Hm. rewrite <- (lenN_be_bytes n v) at 1. apply subN_mid. }
    rewrite S1, be_val_be_bytes by assumption. rewrite Hp, lenN_be_bytes. reflexivity.
  Qed.

  Lemma cons_u8 v : v < 256 -> consumes (m_u8 msg) [Nb v] v.
  Proof.
    intros Hv pre post c Hm Hc Hp Hl. rewrite lenN_cons, lenN_nil in Hl. unfold m_u8, lift.
    assert (Hg : getN msg (pos c) = Some (Nb v)).
    { rewrite Hp, Hm, getN_app_r by lia. rewrite N.sub_diag. reflexivity. }
    rewrite (c_u8_fwd msg c (Nb v) Hc ltac:(lia) Hg), bN_Nb by assumption. rewrite Hp, lenN_cons, lenN_nil. reflexivity.
  Qed.

  Lemma cons_slice bs : consumes (m_slice msg (lenN bs)) bs bs.
  Proof.
    intros pre post c Hm Hc Hp Hl. unfold m_slice, lift.
    rewrite (c_slice_fwd msg c (lenN bs) Hc) by lia. cbn [bind].
    assert (S1 : subN msg (pos c) (lenN bs) = bs) by (rewrite Hp, Hm; apply subN_mid).
    rewrite S1, Hp. reflexivity.
  Qed.

  Lemma cons_name ls : Forall (fun l => label_ok l = true) ls -> wire_len ls <= 255 ->
    consumes (m_name msg) (wire_encode ls) (join_labels ls).
  Proof.
    intros Hok Hw pre post c Hm Hc Hp Hl. unfold m_name, lift. rewrite lenN_wire_encode in *.
    rewrite (read_name_plain msg Heap pre ls post c Hm Hc Hp Hl Hok Hw). reflexivity.
  Qed.

  Lemma cons_charstr s : lenN s <= 255 -> consumes (m_charstr msg) (Nb (lenN s) :: s) s.
  Proof.
    intro Hs. unfold m_charstr. change (Nb (lenN s) :: s) with ([Nb (lenN s)] ++ s).
    eapply cons_bind; [apply cons_u8; lia|apply cons_slice].
  Qed.

  Lemma lenN_charstr s : lenN (charstr_enc s) = lenN s + 1.
  Proof. unfold charstr_enc. rewrite lenN_cons. reflexivity. Qed.

  (* TXT: the loop over <character-string>s *)
  Lemma cons_txt : forall ss fuel acc, Forall (fun s => lenN s <= 255) ss ->
    (N.to_nat (lenN (concat (map charstr_enc ss))) < fuel)%nat ->
    consumes (txt_loop msg fuel (lenN (concat (map charstr_enc ss))) acc) (concat (map charstr_enc ss)) (acc ++ concat ss).
  Proof.
    induction ss as [|s ss IH]; intros fuel acc Hok Hf; (destruct fuel as [|f]; [lia|]); cbn [txt_loop map concat].
    - rewrite lenN_nil. change (txt_more 0) with false. cbn iota. rewrite app_nil_r. apply cons_ret.
    - inversion Hok as [|? ? Hs Hok']; subst.
      rewrite lenN_app, lenN_charstr.
      assert (Em : txt_more (lenN s + 1 + lenN (concat (map charstr_enc ss))) = true) by (unfold txt_more; lia). rewrite Em.
      match goal with |- consumes ?m _ ?x => change (consumes m ([Nb (lenN s)] ++ (s ++ concat (map charstr_enc ss))) x) end.
      eapply cons_bind; [apply cons_u8; lia|].
      eapply cons_bind with (x := s).
      + unfold txt_chunk_nonempty. destruct (0 <? lenN s) eqn:E; [apply cons_slice|].
        assert (s = []) by (destruct s; [reflexivity|rewrite lenN_cons in E; lia]). subst s. apply cons_ret.
      + unfold txt_consumed.
        destruct (lenN s + 1 <=? lenN s + 1 + lenN (concat (map charstr_enc ss))) eqn:E; [|lia].
        replace (lenN s + 1 + lenN (concat (map charstr_enc ss)) - (lenN s + 1)) with (lenN (concat (map charstr_enc ss))) by lia.
        rewrite (app_assoc acc s). apply IH; [assumption|].
        cbn [map concat] in Hf. rewrite lenN_app, lenN_charstr in Hf. lia.
  Qed.

  (* ---- the RDLENGTH window around a parser ---- *)
  Definition consumesW {X} (m : M X) (bs : list byte) (x : X) : Prop :=
    forall pre post c, msg = pre ++ bs ++ post -> cwf msg c -> orig c = None -> pos c = lenN pre -> lenN pre + lenN bs <= lim c ->
      m c = (c_set_pos c (lenN pre + lenN bs), Ok x).

  Lemma window_fwd c rd : orig c = None -> pos c + rd <= lim c ->
    c_window c rd = Ok (mkCursor (pos c + rd) (pos c) (Some (lim c))).
  Proof.
    intros Ho Hl. unfold c_window. rewrite Ho. unfold c_len. rewrite cursor_len_spec.
    assert (G : window_guard (pos c) (lim c) (lim c - pos c) rd = true) by (apply window_guard_spec; lia).
    rewrite G, window_end_spec. destruct (pos c + rd <=? lim c) eqn:E; [reflexivity|lia].
  Qed.

  Lemma cons_window {X Y} (body : M X) (k : X -> Y) bs x : consumes body bs x ->
    consumesW (do* _ <- m_window (lenN bs); do* v <- body; do* _ <- m_close; mret (k v)) bs (k x).
  Proof.
    intros Hb pre post c Hm Hc Ho Hp Hl. unfold mbind at 1. unfold m_window, lift_c, lift.
    rewrite (window_fwd c (lenN bs) Ho) by lia. cbn [bind].
    set (cw := mkCursor (pos c + lenN bs) (pos c) (Some (lim c))).
    assert (Hcw : cwf msg cw) by (destruct Hc as [H1 H2]; unfold cwf, cw; cbn; lia).
    unfold mbind at 1. rewrite (Hb pre post cw Hm Hcw Hp ltac:(cbn; lia)).
    unfold mbind, m_close, lift_c, lift, mret, c_close_window. cbn [orig c_set_pos cw pos lim].
    assert (G : close_window_guard (lenN pre + lenN bs) (pos c + lenN bs) = true) by (apply close_window_guard_spec; lia).
    rewrite G. cbn [bind]. f_equal. unfold c_set_pos. rewrite Ho. reflexivity.
  Qed.

  Lemma name_ok_split ls : name_okb ls = true -> Forall (fun l => label_ok l = true) ls /\ wire_len ls <= 255.
  Proof.
    unfold name_okb. rewrite Bool.andb_true_iff. intros [H1 H2]. split; [|lia].
    apply Forall_forall. rewrite forallb_forall in H1. exact H1.
  Qed.

  (* the value a decoder must hand back *)
  Definition rdata_val (a : ardata) : rdata :=
    match a with
    | A_A addr => RD_A addr
    | A_Aaaa addr => RD_Aaaa addr
    | A_Name ty n => RD_Name ty (join_labels n)
    | A_Hinfo cpu os => RD_Hinfo cpu os
    | A_Wks addr proto bm => RD_Wks addr proto bm
    | A_Minfo r e => RD_Minfo (join_labels r) (join_labels e)
    | A_Mx p e => RD_Mx p (join_labels e)
    | A_Null b => RD_Null b
    | A_Soa m r s rf rt ex mi => RD_Soa (join_labels m) (join_labels r) s rf rt ex mi
    | A_Txt ss => RD_Txt (concat ss)
    end.
  Definition rdata_type_ok (ty : N) (a : ardata) : bool :=
    match a with
    | A_A _ => ty =? T_A | A_Aaaa _ => ty =? T_AAAA
    | A_Name t _ => (ty =? t) && is_name_type ty
    | A_Hinfo _ _ => ty =? T_HINFO | A_Wks _ _ _ => ty =? T_WKS | A_Minfo _ _ => ty =? T_MINFO
    | A_Mx _ _ => ty =? T_MX | A_Null _ => ty =? T_NULL | A_Soa _ _ _ _ _ _ _ => ty =? T_SOA | A_Txt _ => ty =? T_TXT
    end.

  Ltac tyeq H := apply N.eqb_eq in H; subst.

  Lemma cons_map {X Y} (m : M X) (k : X -> Y) bs x : consumes m bs x -> consumes (do* v <- m; mret (k v)) bs (k x).
  Proof. intro H. rewrite <- (app_nil_r bs). eapply cons_bind; [exact H|apply cons_ret]. Qed.

  Lemma cons_in_window {X} (body : M X) bs x : consumes body bs x -> consumesW (in_window (lenN bs) body) bs x.
  Proof. intro H. unfold in_window. apply (cons_window body (fun z => z) bs x H). Qed.

  Theorem rdata_roundtrip ty a : rdata_type_ok ty a = true -> ardata_ok a = true ->
    exists m, read_rdata msg ty (lenN (rdata_enc a)) = Some m /\ consumesW m (rdata_enc a) (rdata_val a).
  Proof.
    intros Hty Hok. destruct a as [addr|addr|t n|cpu os|addr proto bm|r e|p e|b|mn rn s rf rt ex mi|ss];
      cbn [rdata_type_ok ardata_ok rdata_enc rdata_val] in *; rewrite ?be_enc_is_be_bytes, ?name_enc_is_wire.
    - tyeq Hty. eexists. split; [reflexivity|]. apply cons_in_window. unfold m_u32, c_u32.
      apply (cons_map _ (fun a => RD_A a)). apply (cons_be 4); [lia|cbn; lia].
    - tyeq Hty. eexists. split; [reflexivity|]. apply cons_in_window. unfold m_u128, c_u128.
      apply (cons_map _ (fun a => RD_Aaaa a)). apply (cons_be 16); [lia|cbn; lia].
    - apply Bool.andb_true_iff in Hty. destruct Hty as [H1 H2]. tyeq H1. destruct (name_ok_split _ Hok) as [N1 N2].
      unfold read_rdata.
      destruct (t =? T_A) eqn:EA; [unfold is_name_type in H2; apply N.eqb_eq in EA; subst t; discriminate|].
      destruct (t =? T_AAAA) eqn:EB; [unfold is_name_type in H2; apply N.eqb_eq in EB; subst t; discriminate|].
      rewrite H2. eexists. split; [reflexivity|]. apply cons_in_window.
      apply (cons_map _ (fun n => RD_Name t n)). apply cons_name; assumption.
    - tyeq Hty. apply Bool.andb_true_iff in Hok. destruct Hok as [H1 H2]. eexists. split; [reflexivity|]. apply cons_in_window.
      eapply cons_bind; [apply cons_charstr; lia|]. apply (cons_map _ (fun o => RD_Hinfo cpu o)). apply cons_charstr; lia.
    - tyeq Hty. apply Bool.andb_true_iff in Hok. destruct Hok as [H1 H2]. eexists. split; [reflexivity|]. apply cons_in_window.
      unfold m_u32, c_u32.
      eapply cons_bind; [apply (cons_be 4); [lia|cbn; lia]|].
      eapply cons_bind; [apply cons_u8; lia|].
      rewrite !lenN_app, lenN_be_bytes, lenN_cons, lenN_nil. change (N.of_nat 4) with 4.
      unfold wks_bitmap_len_nounderflow, wks_bitmap_len.
      destruct (5 <=? 4 + (0 + 1 + lenN bm)) eqn:E; [|lia].
      replace (4 + (0 + 1 + lenN bm) - 5) with (lenN bm) by lia.
      apply (cons_map _ (fun x => RD_Wks addr proto x)). apply cons_slice.
    - tyeq Hty. apply Bool.andb_true_iff in Hok. destruct Hok as [H1 H2].
      destruct (name_ok_split _ H1) as [R1 R2]. destruct (name_ok_split _ H2) as [E1 E2].
      eexists. split; [reflexivity|]. apply cons_in_window.
      eapply cons_bind; [apply cons_name; assumption|]. apply (cons_map _ (fun x => RD_Minfo (join_labels r) x)). apply cons_name; assumption.
    - tyeq Hty. apply Bool.andb_true_iff in Hok. destruct Hok as [H1 H2]. destruct (name_ok_split _ H2) as [E1 E2].
      eexists. split; [reflexivity|]. apply cons_in_window. unfold m_u16, c_u16.
      eapply cons_bind; [apply (cons_be 2); [lia|cbn; lia]|]. apply (cons_map _ (fun x => RD_Mx p x)). apply cons_name; assumption.
    - tyeq Hty. eexists. split; [reflexivity|]. apply cons_in_window. apply (cons_map _ (fun x => RD_Null x)). apply cons_slice.
    - tyeq Hty.
      apply Bool.andb_true_iff in Hok; destruct Hok as [Hok Hmi]. apply Bool.andb_true_iff in Hok; destruct Hok as [Hok Hex].
      apply Bool.andb_true_iff in Hok; destruct Hok as [Hok Hrt]. apply Bool.andb_true_iff in Hok; destruct Hok as [Hok Hrf].
      apply Bool.andb_true_iff in Hok; destruct Hok as [Hok Hs]. apply Bool.andb_true_iff in Hok; destruct Hok as [Hm Hr].
      destruct (name_ok_split _ Hm) as [M1 M2]. destruct (name_ok_split _ Hr) as [R1 R2].
      eexists. split; [reflexivity|]. apply cons_in_window. unfold m_u32, c_u32.
      eapply cons_bind; [apply cons_name; assumption|].
      eapply cons_bind; [apply cons_name; assumption|].
      eapply cons_bind; [apply (cons_be 4); [lia|cbn; lia]|].
      eapply cons_bind; [apply (cons_be 4); [lia|cbn; lia]|].
      eapply cons_bind; [apply (cons_be 4); [lia|cbn; lia]|].
      eapply cons_bind; [apply (cons_be 4); [lia|cbn; lia]|].
      apply (cons_map _ (fun x => RD_Soa (join_labels mn) (join_labels rn) s rf rt ex x)). apply (cons_be 4); [lia|cbn; lia].
    - tyeq Hty. eexists. split; [reflexivity|].
      assert (Hss : Forall (fun s => lenN s <= 255) ss) by (apply Forall_forall; intros s Hs; rewrite forallb_forall in Hok; specialize (Hok s Hs); lia).
      apply (cons_window _ (fun t => RD_Txt t)).
      apply (cons_txt ss _ [] Hss). lia.
  Qed.
End C.
