(* Proofs/LabelsSound.v — the label walker computes exactly the RFC 1035 §4.1.4 expansion
   (Spec/WireName.v [expands]) of the visible buffer, and resumes after the first pointer or the
   terminating zero. *)
From Coq Require Import ZArith.
From RsdnsModel Require Import Base GenConst GenCursor GenLabels GenNames GenSpec Cursor Names Labels.
From RsdnsModel.Spec Require Import WireName.
From RsdnsModel.Proofs Require Import CursorSafe ListN LabelsTotal.
From Coq Require Import ZifyBool ZifyN ZifyNat.
Open Scope N_scope.

(* the bytes a cursor can see: `self.buf` *)
Definition vis (msg : list byte) (c : cursor) : list byte := firstn (N.to_nat (lim c)) msg.

(* check_label_bytes agrees with the code-blind label rule *)
Lemma label_byte_ok_same v : GenSpec.label_byte_ok v = WireName.label_byte_ok v.
Proof. reflexivity. Qed.

Lemma find_none_forallb {A} (f : A -> bool) l : find f l = None <-> forallb (fun x => negb (f x)) l = true.
Proof.
  induction l as [|a l IH]; cbn; [tauto|]. destruct (f a); cbn; [split; discriminate|exact IH].
Qed.

Lemma forallb_ext' {A} (f g : A -> bool) l : (forall a, f a = g a) -> forallb f l = forallb g l.
Proof. intro H. induction l as [|a l IH]; cbn; [reflexivity|]. rewrite H, IH. reflexivity. Qed.

Lemma getN_last (l : list byte) d : l <> [] -> getN l (lenN l - 1) = Some (last l d).
Proof.
  intro H. destruct (exists_last H) as (l' & a & ->). rewrite last_last.
  rewrite getN_app_r by (rewrite lenN_app, lenN_cons, lenN_nil; lia).
  rewrite lenN_app, lenN_cons, lenN_nil. replace (lenN l' + (0 + 1) - 1 - lenN l') with 0 by lia. reflexivity.
Qed.

Lemma check_label_ok l : check_label_bytes l = Ok tt <-> label_ok l = true.
Proof.
  unfold check_label_bytes, label_ok. destruct l as [|f l]; [split; discriminate|].
  set (L := f :: l).
  assert (HL : L <> []) by (subst L; discriminate).
  assert (Hlen : 1 <= lenN L) by (subst L; rewrite lenN_cons; lia).
  destruct (label_too_long (lenN L)) eqn:Etl.
  { apply label_too_long_spec in Etl. split; [discriminate|]. intro H. lia. }
  assert (Hle : lenN L <= 63).
  { destruct (N.le_gt_cases (lenN L) 63); [assumption|]. apply label_too_long_spec in H. congruence. }
  assert (Hfa : forallb (fun b => WireName.label_byte_ok (bN b)) L = forallb (fun x => negb (label_char_bad (bN x))) L).
  { apply forallb_ext'. intro b. rewrite label_char_bad_spec, Bool.negb_involutive. reflexivity. }
  destruct (find (fun b => label_char_bad (bN b)) L) eqn:Ef.
  { split; [discriminate|]. intro H. exfalso.
    assert (find (fun b => label_char_bad (bN b)) L = None) by (apply find_none_forallb; rewrite <- Hfa; lia).
    congruence. }
  apply find_none_forallb in Ef. rewrite <- Hfa in Ef.
  change (getN L 0) with (Some f). cbn iota.
  rewrite label_first_bad_spec, label_last_index_nounderflow_spec, label_last_index_spec.
  destruct (bN f =? 45) eqn:E1; [split; [discriminate|lia]|].
  destruct (1 <=? lenN L) eqn:E2; [|lia].
  rewrite (getN_last L x00 HL). rewrite label_last_bad_spec.
  destruct (bN (last L x00) =? 45) eqn:E3; [split; [discriminate|lia]|].
  split; [lia|reflexivity].
Qed.

Lemma check_label_ok_or_err l : check_label_bytes l = Ok tt \/ exists e, check_label_bytes l = Err e.
Proof.
  pose proof (check_label_defined l). destruct (check_label_bytes l) as [[]| | | | |]; cbn in *; eauto; tauto.
Qed.

Lemma append_label_ok nk dn lb dn' :
  append_label_bytes nk dn lb = Ok dn' -> check_label_bytes lb = Ok tt /\ dn' = dn ++ lb ++ [dot].
Proof.
  unfold append_label_bytes.
  destruct (check_label_ok_or_err lb) as [Hok|[e He]]; rewrite ?Hok, ?He; cbn; [|discriminate].
  destruct nk.
  - destruct (name_new_len_bad _); [discriminate|]. intro H; inversion H; auto.
  - destruct (_ <=? _); [|discriminate]. destruct (_ <=? _); [|discriminate].
    intro H; inversion H. rewrite <- app_assoc. auto.
Qed.

Section Sound.
  Variable msg : list byte.

  Definition q0_of (st : lstate) : option N := if max_pos st =? 0 then None else Some (max_pos st - 2).

  Lemma vis_get c p b : cwf msg c -> p < lim c -> getN msg p = Some b -> getN (vis msg c) p = Some b.
  Proof. intros _ H G. unfold vis. rewrite getN_firstn; assumption. Qed.
  Lemma vis_len c : cwf msg c -> lenN (vis msg c) = lim c.
  Proof. intros [H _]. unfold vis. apply lenN_firstn. assumption. Qed.

  (* generic soundness of the walk, stated on skip_name_loop (labels checked, none stored) *)
  Lemma skip_loop_sound fuel : forall st mp,
    linv msg st -> skip_name_loop msg fuel st = Ok mp ->
    exists ls, expands (vis msg (lc st)) (q0_of st) (n_ptr st) (pos (lc st)) ls /\
               Forall (fun l => label_ok (snd l) = true) ls /\
               (max_pos st = 0 -> resume_at (vis msg (lc st)) (pos (lc st)) mp) /\
               (max_pos st <> 0 -> mp = max_pos st).
  Proof.
    induction fuel as [|f IH]; intros st mp Hi; [discriminate|]. cbn [skip_name_loop].
    destruct (label_step msg st) as [s| | | | |] eqn:Es; cbn; try discriminate.
    pose proof Hi as (Hc & Hm & Hn).
    destruct s as [mp'|p bytes st'|st'].
    - intro H; inversion H; subst; clear H.
      apply label_step_end in Es; [|assumption]. destruct Es as (Hg & Hp & -> & _).
      exists []. split; [constructor; apply vis_get; assumption|]. split; [constructor|].
      split; intro Hz.
      + replace (max_pos st =? 0) with true by lia. constructor. apply vis_get; assumption.
      + replace (max_pos st =? 0) with false by lia. reflexivity.
    - destruct (label_step_label _ _ _ _ _ Hi Es) as (Hi' & _ & Hlim & -> & (b & Hb & Hr & -> & Hp' & Hle) & Hmp & Hnp & Ho).
      destruct (check_label_ok_or_err (subN msg (pos (lc st) + 1) (bN b))) as [Hok|[e He]]; rewrite ?Hok, ?He; cbn; [|discriminate].
      intro H. apply IH in H; [|assumption]. destruct H as (ls & Hex & Hall & Hr1 & Hr2).
      assert (Hvis : vis msg (lc st') = vis msg (lc st)) by (unfold vis; rewrite Hlim; reflexivity).
      rewrite Hvis in *. unfold q0_of in *. rewrite Hmp, Hnp, Hp' in *.
      exists ((pos (lc st), subN msg (pos (lc st) + 1) (bN b)) :: ls). split; [|split; [|split]].
      + replace (subN msg (pos (lc st) + 1) (bN b)) with (subN (vis msg (lc st)) (pos (lc st) + 1) (bN b))
          by (unfold vis; apply subN_firstn; lia).
        eapply ex_label; try eassumption; [apply vis_get; [assumption|lia|assumption]|rewrite vis_len by assumption; lia].
      + constructor; [apply check_label_ok; assumption|assumption].
      + intro Hz. eapply ra_label; [apply vis_get; [assumption|lia|eassumption]|assumption|auto].
      + auto.
    - destruct (label_step_jump _ _ _ Hi Es) as (Hi' & _ & Hlim & Ho & b1 & b2 & Hb1 & H192 & Hb2 & Hp' & Hmp' & Hlt & Hnp & Hple).
      intro H. apply IH in H; [|assumption]. destruct H as (ls & Hex & Hall & Hr1 & Hr2).
      assert (Hvis : vis msg (lc st') = vis msg (lc st)) by (unfold vis; rewrite Hlim; reflexivity).
      rewrite Hvis in *.
      assert (Hnz : max_pos st' <> 0) by (rewrite Hmp'; destruct (max_pos st =? 0) eqn:E; lia).
      specialize (Hr2 Hnz).
      exists ls. split; [|split; [assumption|split]].
      + eapply ex_ptr with (b1 := b1) (b2 := b2); try (apply vis_get; [assumption|lia|eassumption]); try assumption.
        * unfold q0_of. destruct (max_pos st =? 0) eqn:E; rewrite <- Hp'; rewrite Hmp' in Hlt; lia.
        * destruct Hi' as (_ & _ & Hn'). lia.
        * rewrite <- Hp'. replace (n_ptr st + 1) with (n_ptr st') by lia.
          replace (Some (match q0_of st with Some q => q | None => pos (lc st) end)) with (q0_of st'); [assumption|].
          unfold q0_of. replace (max_pos st' =? 0) with false by lia. rewrite Hmp'.
          destruct (max_pos st =? 0) eqn:E; f_equal; lia.
      + intro Hz. rewrite Hr2, Hmp'. replace (max_pos st =? 0) with true by lia.
        eapply ra_ptr; [apply vis_get; [assumption|lia|eassumption]|assumption].
      + intro Hz. rewrite Hr2, Hmp'. replace (max_pos st =? 0) with false by lia. reflexivity.
  Qed.

  Theorem skip_name_sound c c' :
    cwf msg c -> skip_name msg c = Ok c' ->
    exists ls, expands (vis msg c) None 0 (pos c) ls /\ Forall (fun l => label_ok (snd l) = true) ls /\
               resume_at (vis msg c) (pos c) (pos c') /\ lim c' = lim c /\ orig c' = orig c.
  Proof.
    intros Hc. unfold skip_name.
    destruct (skip_name_loop msg (name_fuel c) (mkL c 0 0)) as [mp| | | | |] eqn:E; cbn; try discriminate.
    apply skip_loop_sound in E; [|apply linv_init; assumption]. cbn in E.
    destruct E as (ls & Hex & Hall & Hr & _). destruct (pos c <=? mp); [|discriminate].
    intro H; inversion H; subst; clear H. exists ls. cbn. auto.
  Qed.

  (* read_name: same walk, labels appended as text *)
  Definition labels_text (ls : list (N * list byte)) : list byte := concat (map (fun l => snd l ++ [dot]) ls).

  Lemma read_loop_sound nk fuel : forall st dn t mp,
    linv msg st -> read_name_loop msg nk fuel st dn = Ok (t, mp) ->
    exists ls, expands (vis msg (lc st)) (q0_of st) (n_ptr st) (pos (lc st)) ls /\
               Forall (fun l => label_ok (snd l) = true) ls /\
               t = dn ++ labels_text ls /\
               (max_pos st = 0 -> resume_at (vis msg (lc st)) (pos (lc st)) mp) /\
               (max_pos st <> 0 -> mp = max_pos st).
  Proof.
    induction fuel as [|f IH]; intros st dn t mp Hi; [discriminate|]. cbn [read_name_loop].
    destruct (label_step msg st) as [s| | | | |] eqn:Es; cbn; try discriminate.
    pose proof Hi as (Hc & Hm & Hn).
    destruct s as [mp'|p bytes st'|st'].
    - intro H; inversion H; subst; clear H.
      apply label_step_end in Es; [|assumption]. destruct Es as (Hg & Hp & -> & _).
      exists []. split; [constructor; apply vis_get; assumption|]. split; [constructor|].
      split; [cbn; rewrite app_nil_r; reflexivity|].
      split; intro Hz.
      + replace (max_pos st =? 0) with true by lia. constructor. apply vis_get; assumption.
      + replace (max_pos st =? 0) with false by lia. reflexivity.
    - destruct (label_step_label _ _ _ _ _ Hi Es) as (Hi' & _ & Hlim & -> & (b & Hb & Hr & -> & Hp' & Hle) & Hmp & Hnp & Ho).
      set (lb := subN msg (pos (lc st) + 1) (bN b)) in *.
      destruct (append_label_bytes nk dn lb) as [dn'| | | | |] eqn:Ea; cbn; try discriminate.
      apply append_label_ok in Ea. destruct Ea as (Hok & ->).
      intro H. apply IH in H; [|assumption]. destruct H as (ls & Hex & Hall & Ht & Hr1 & Hr2).
      assert (Hvis : vis msg (lc st') = vis msg (lc st)) by (unfold vis; rewrite Hlim; reflexivity).
      rewrite Hvis in *. unfold q0_of in *. rewrite Hmp, Hnp, Hp' in *.
      exists ((pos (lc st), lb) :: ls). split; [|split; [|split; [|split]]].
      + replace lb with (subN (vis msg (lc st)) (pos (lc st) + 1) (bN b))
          by (unfold vis; apply subN_firstn; lia).
        eapply ex_label; try eassumption; [apply vis_get; [assumption|lia|assumption]|rewrite vis_len by assumption; lia].
      + constructor; [apply check_label_ok; assumption|assumption].
      + rewrite Ht. unfold labels_text. cbn. rewrite <- !app_assoc. reflexivity.
      + intro Hz. eapply ra_label; [apply vis_get; [assumption|lia|eassumption]|assumption|auto].
      + auto.
    - destruct (label_step_jump _ _ _ Hi Es) as (Hi' & _ & Hlim & Ho & b1 & b2 & Hb1 & H192 & Hb2 & Hp' & Hmp' & Hlt & Hnp & Hple).
      intro H. apply IH in H; [|assumption]. destruct H as (ls & Hex & Hall & Ht & Hr1 & Hr2).
      assert (Hvis : vis msg (lc st') = vis msg (lc st)) by (unfold vis; rewrite Hlim; reflexivity).
      rewrite Hvis in *.
      assert (Hnz : max_pos st' <> 0) by (rewrite Hmp'; destruct (max_pos st =? 0) eqn:E; lia).
      specialize (Hr2 Hnz).
      exists ls. split; [|split; [assumption|split; [assumption|split]]].
      + eapply ex_ptr with (b1 := b1) (b2 := b2); try (apply vis_get; [assumption|lia|eassumption]); try assumption.
        * unfold q0_of. destruct (max_pos st =? 0) eqn:E; rewrite <- Hp'; rewrite Hmp' in Hlt; lia.
        * destruct Hi' as (_ & _ & Hn'). lia.
        * rewrite <- Hp'. replace (n_ptr st + 1) with (n_ptr st') by lia.
          replace (Some (match q0_of st with Some q => q | None => pos (lc st) end)) with (q0_of st'); [assumption|].
          unfold q0_of. replace (max_pos st' =? 0) with false by lia. rewrite Hmp'.
          destruct (max_pos st =? 0) eqn:E; f_equal; lia.
      + intro Hz. rewrite Hr2, Hmp'. replace (max_pos st =? 0) with true by lia.
        eapply ra_ptr; [apply vis_get; [assumption|lia|eassumption]|assumption].
      + intro Hz. rewrite Hr2, Hmp'. replace (max_pos st =? 0) with false by lia. reflexivity.
  Qed.

  Lemma labels_text_join ls :
    (match labels_text ls with [] => [dot] | _ :: _ => labels_text ls end) = join_labels (map snd ls).
  Proof.
    assert (HX : forall X : list byte, X <> [] -> match X with [] => [dot] | _ :: _ => X end = X)
      by (intros [|? ?] ?; congruence).
    unfold labels_text, join_labels. destruct ls as [|[p l] ls]; [reflexivity|].
    rewrite HX.
    - cbn [map concat snd]. rewrite (map_map snd (fun l => l ++ [x2e])). reflexivity.
    - cbn [map concat snd]. destruct l; discriminate.
  Qed.

  Lemma lenN_labels_text ls : lenN (labels_text ls) + 1 = wire_len (map snd ls).
  Proof.
    unfold labels_text, wire_len. induction ls as [|[p l] ls IH]; [reflexivity|].
    cbn [map concat fold_right snd]. rewrite !lenN_app, lenN_cons, lenN_nil. lia.
  Qed.

  Theorem read_name_sound nk c t c' :
    cwf msg c -> read_name msg nk c = Ok (t, c') ->
    exists ls, expands (vis msg c) None 0 (pos c) ls /\ Forall (fun l => label_ok (snd l) = true) ls /\
               t = join_labels (map snd ls) /\ wire_len (map snd ls) <= 255 /\
               resume_at (vis msg c) (pos c) (pos c') /\ lim c' = lim c /\ orig c' = orig c.
  Proof.
    intros Hc. unfold read_name.
    destruct (read_name_loop msg nk (name_fuel c) (mkL c 0 0) []) as [[dn mp]| | | | |] eqn:E; cbn; try discriminate.
    apply read_loop_sound in E; [|apply linv_init; assumption]. cbn in E.
    destruct E as (ls & Hex & Hall & Ht & Hr & _). cbn in Ht. subst dn.
    destruct (name_wire_too_long _) eqn:El; [discriminate|].
    intro H; inversion H; subst; clear H. exists ls. cbn.
    repeat split; auto.
    - apply labels_text_join.
    - rewrite <- lenN_labels_text.
      destruct (N.le_gt_cases 255 (lenN (labels_text ls))); [|lia].
      apply name_wire_too_long_spec in H. congruence.
  Qed.
End Sound.
