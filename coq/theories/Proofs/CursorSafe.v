(* Proofs/CursorSafe.v — every cursor operation returns a value or an error (never UB, never a
   panic) on a well-formed cursor, whatever its position, and says exactly what it consumed. *)
From Coq Require Import ZArith.
From RsdnsModel Require Import Base GenConst GenCursor GenSpec Cursor.
From Coq Require Import ZifyBool ZifyN ZifyNat.
Open Scope N_scope.

(* the visible buffer never extends beyond the message; an open window lies inside the saved one *)
Definition cwf (msg : list byte) (c : cursor) : Prop :=
  lim c <= lenN msg /\
  match orig c with Some L => lim c <= L /\ L <= lenN msg | None => True end.

Lemma cwf_new msg : cwf msg (c_new msg).
Proof. unfold cwf, c_new; cbn. split; [lia | exact I]. Qed.
Lemma cwf_with_pos msg p : cwf msg (c_with_pos msg p).
Proof. unfold cwf, c_with_pos; cbn. split; [lia | exact I]. Qed.
Lemma cwf_set_pos msg c p : cwf msg c -> cwf msg (c_set_pos c p).
Proof. unfold cwf, c_set_pos; cbn; tauto. Qed.

Lemma getN_Some {A} (l : list A) i : i < lenN l -> exists a, getN l i = Some a.
Proof.
  unfold getN, lenN. intro H. destruct (nth_error l (N.to_nat i)) eqn:E; [eauto|].
  apply nth_error_None in E. lia.
Qed.
Lemma getN_lt {A} (l : list A) i a : getN l i = Some a -> i < lenN l.
Proof.
  unfold getN, lenN. intro H. assert (nth_error l (N.to_nat i) <> None) by congruence.
  apply nth_error_Some in H0. lia.
Qed.
Lemma lenN_subN {A} (l : list A) p n : p + n <= lenN l -> lenN (subN l p n) = n.
Proof.
  unfold lenN, subN. intro H. rewrite firstn_length, skipn_length. lia.
Qed.
Lemma lenN_app {A} (a b : list A) : lenN (a ++ b) = lenN a + lenN b.
Proof. unfold lenN. rewrite app_length. lia. Qed.
Lemma lenN_cons {A} (a : A) l : lenN (a :: l) = lenN l + 1.
Proof. unfold lenN. cbn [length]. lia. Qed.
Lemma lenN_nil {A} : lenN (@nil A) = 0. Proof. reflexivity. Qed.

Section Ops.
  Variable msg : list byte.

  Lemma c_window_ok c size c' :
    cwf msg c -> c_window c size = Ok c' ->
    cwf msg c' /\ pos c' = pos c /\ lim c' = pos c + size /\ lim c' <= lim c /\ orig c = None /\ orig c' = Some (lim c).
  Proof.
    unfold c_window, cwf. intros [Hl Ho]. destruct (orig c) eqn:Eo; [discriminate|].
    destruct (window_guard _ _ _ _) eqn:G; [|discriminate].
    apply window_guard_spec in G. rewrite window_end_spec. unfold c_len in G. rewrite cursor_len_spec in G.
    destruct (pos c + size <=? lim c) eqn:E; [|discriminate].
    intro H; inversion H; subst; cbn. repeat split; lia.
  Qed.
  Lemma c_window_defined c size : cwf msg c -> defined (c_window c size).
  Proof.
    unfold c_window. intros [Hl Ho]. destruct (orig c); cbn; [exact I|].
    destruct (window_guard _ _ _ _) eqn:G; cbn; [|exact I].
    apply window_guard_spec in G. unfold c_len in G. rewrite cursor_len_spec in G. rewrite window_end_spec.
    destruct (pos c + size <=? lim c) eqn:E; cbn; [exact I| lia].
  Qed.

  Lemma c_close_window_ok c c' :
    cwf msg c -> c_close_window c = Ok c' ->
    cwf msg c' /\ pos c' = pos c /\ pos c = lim c /\ orig c = Some (lim c') /\ orig c' = None.
  Proof.
    unfold c_close_window, cwf. intros [Hl Ho]. destruct (orig c) eqn:Eo; [|discriminate].
    destruct (close_window_guard _ _) eqn:G; [|discriminate]. apply close_window_guard_spec in G.
    intro H; inversion H; subst; cbn. repeat split; try lia; tauto.
  Qed.
  Lemma c_close_window_defined c : defined (c_close_window c).
  Proof. unfold c_close_window. destruct (orig c); cbn; [|exact I]. destruct (close_window_guard _ _); exact I. Qed.

  Lemma c_skip_ok c d c' :
    c_skip c d = Ok c' -> c' = c_set_pos c (pos c + d) /\ (pos c <= lim c -> pos c + d <= lim c).
  Proof.
    unfold c_skip. destruct (skip_guard _ _) eqn:G; [|discriminate]. apply skip_guard_spec in G.
    unfold c_len in G. rewrite cursor_len_spec in G. intro H; inversion H; subst. split; [reflexivity|lia].
  Qed.
  Lemma c_skip_defined c d : defined (c_skip c d).
  Proof. unfold c_skip. destruct (skip_guard _ _); exact I. Qed.

  Lemma c_u8_ok c v c' :
    c_u8 msg c = Ok (v, c') ->
    pos c < lim c /\ (exists b, getN msg (pos c) = Some b /\ v = bN b) /\ c' = c_set_pos c (pos c + 1).
  Proof.
    unfold c_u8. destruct (u8_guard _) eqn:G; [|discriminate].
    destruct (pos c <? lim c) eqn:E; [|discriminate].
    destruct (getN msg (pos c)) eqn:Eg; [|discriminate].
    intro H; inversion H; subst. repeat split; eauto. lia.
  Qed.
  Lemma c_u8_defined c : cwf msg c -> defined (c_u8 msg c).
  Proof.
    unfold c_u8. intros [Hl _]. rewrite u8_guard_spec. unfold c_is_empty. rewrite cursor_is_empty_spec.
    unfold c_len. rewrite cursor_len_spec.
    destruct (lim c - pos c =? 0) eqn:E; cbn; [exact I|].
    destruct (pos c <? lim c) eqn:E2; [|lia].
    destruct (getN_Some msg (pos c)) as [b Hb]; [lia|]. rewrite Hb. exact I.
  Qed.
  Lemma c_u8_err c e : c_u8 msg c = Err e -> lim c <= pos c /\ e = c_bound_error c.
  Proof.
    unfold c_u8. rewrite u8_guard_spec. unfold c_is_empty. rewrite cursor_is_empty_spec.
    unfold c_len. rewrite cursor_len_spec.
    destruct (lim c - pos c =? 0) eqn:E; cbn.
    - intro H; inversion H. split; [lia|reflexivity].
    - destruct (pos c <? lim c); [|discriminate]. destruct (getN msg (pos c)); discriminate.
  Qed.

  Lemma c_slice_ok c size lo bs c' :
    c_slice msg c size = Ok (lo, bs, c') ->
    lo = pos c /\ pos c + size <= lim c /\ lim c <= lenN msg /\ bs = subN msg (pos c) size /\ c' = c_set_pos c (pos c + size).
  Proof.
    unfold c_slice. destruct (slice_guard _ _ _ _) eqn:G; [|discriminate].
    rewrite slice_lo_spec, slice_hi_spec.
    destruct ((pos c <=? pos c + size) && (pos c + size <=? lim c) && (lim c <=? lenN msg)) eqn:E; [|discriminate].
    intro H; inversion H; subst. repeat split; try lia. f_equal. lia.
  Qed.
  Lemma c_slice_defined c size : cwf msg c -> defined (c_slice msg c size).
  Proof.
    unfold c_slice. intros [Hl _]. destruct (slice_guard _ _ _ _) eqn:G; cbn; [|exact I].
    apply slice_guard_spec in G. unfold c_len in G. rewrite cursor_len_spec in G.
    rewrite slice_lo_spec, slice_hi_spec.
    destruct ((pos c <=? pos c + size) && (pos c + size <=? lim c) && (lim c <=? lenN msg)) eqn:E; cbn; [exact I|lia].
  Qed.
  Lemma c_slice_err c size e : c_slice msg c size = Err e -> e = c_bound_error c /\ (lim c < pos c \/ lim c - pos c < size).
  Proof.
    unfold c_slice. destruct (slice_guard _ _ _ _) eqn:G.
    - destruct (_ && _ && _); discriminate.
    - intro H; inversion H. split; [reflexivity|].
      assert (~ (pos c <= lim c /\ size <= c_len c)) by (rewrite <- slice_guard_spec; congruence).
      unfold c_len in H0. rewrite cursor_len_spec in H0. lia.
  Qed.

  Lemma c_be_ok c size v c' :
    c_be msg c size = Ok (v, c') ->
    pos c + size <= lim c /\ lim c <= lenN msg /\ v = be_val (subN msg (pos c) size) 0 /\ c' = c_set_pos c (pos c + size).
  Proof.
    unfold c_be. destruct (r_be_guard _ _) eqn:G; [|discriminate].
    destruct ((pos c + size <=? lim c) && (lim c <=? lenN msg)) eqn:E; [|discriminate].
    intro H; inversion H; subst. repeat split; lia.
  Qed.
  Lemma c_be_defined c size : cwf msg c -> 0 < size -> defined (c_be msg c size).
  Proof.
    unfold c_be. intros [Hl _] Hs. destruct (r_be_guard _ _) eqn:G; cbn; [|exact I].
    apply r_be_guard_spec in G. unfold c_len in G. rewrite cursor_len_spec in G.
    destruct ((pos c + size <=? lim c) && (lim c <=? lenN msg)) eqn:E; cbn; [exact I|lia].
  Qed.
  Lemma c_be_err c size e : c_be msg c size = Err e -> e = c_bound_error c /\ lim c - pos c < size.
  Proof.
    unfold c_be. destruct (r_be_guard _ _) eqn:G.
    - destruct (_ && _); discriminate.
    - intro H; inversion H. split; [reflexivity|].
      assert (~ size <= c_len c) by (rewrite <- r_be_guard_spec; congruence).
      unfold c_len in H0. rewrite cursor_len_spec in H0. lia.
  Qed.
End Ops.
