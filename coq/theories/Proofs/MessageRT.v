(* Proofs/MessageRT.v — from records to whole messages.  What STANDS in a message is described
   semantically: a question (labels of a legally compressed or uncompressed name, QTYPE, QCLASS)
   or a record (owner labels, TYPE, CLASS, TTL and an encodable value of one of the 17 types in
   its RFC wire form).  If questions and records stand back to back behind the header, then the
   code-blind linear pass (Spec/LinearPass.v) finds exactly them — offsets, fields, all data inside
   the message — so that the reader theorems of C09 (every allowed call sequence returns the
   pass's items) and the record round trip of C02 (the typed decode of such a record is the
   value) speak about the very same items: sequential reading of a well-formed message yields
   exactly what was encoded, in wire order, and nothing else. *)
From Coq Require Import ZArith.
From RsdnsModel Require Import Base GenConst GenCursor GenTypes Cursor Names Labels Header Tracker RData Reader Writer.
From RsdnsModel.Spec Require Import WireName LinearPass RDataWire.
From RsdnsModel.Proofs Require Import CursorSafe ListN LabelsSound WriterSafe WriterLayout RoundTrip RecordRT RDataRT LabelsComplete SpecExec ParseSpec TrackerRefine ReaderRefine.
From Coq Require Import ZifyBool ZifyN ZifyNat.
Open Scope N_scope.

(* semantic items *)
Record squestion := mkSQ { sq_labels : list (N * list byte); sq_type : N; sq_class : N }.
(* the data of a record: an encodable value of one of the 17 typed formats (in its RFC wire form), or
   any octets at all — OPT records, records of types without a typed decoder, anything *)
Inductive sdata := SVal (a : ardata) | SRaw (bs : list byte).
Definition sdata_enc (d : sdata) : list byte := match d with SVal a => rdata_enc a | SRaw bs => bs end.
Definition sdata_ok (ty : N) (d : sdata) : bool :=
  match d with SVal a => rdata_type_ok ty a && ardata_ok a | SRaw _ => true end.
Record srecord := mkSR { sr_labels : list (N * list byte); sr_type : N; sr_class : N; sr_ttl : N; sr_data : sdata }.

Section M.
  Variable msg : list byte.

  (* a name with labels ls stands at p and ends (resumes) at r *)
  Definition name_stands (p : N) (ls : list (N * list byte)) (r : N) : Prop :=
    expands msg None 0 p ls /\ resume_at msg p r /\
    Forall (fun l => label_ok (snd l) = true) ls /\ wire_len (map snd ls) <= 255.

  Lemma name_at_of p ls r : name_stands p ls r -> name_at msg p = Some (r, true).
  Proof.
    intros (Hex & Hr & Hok & Hw). unfold name_at.
    assert (Es : spec_name msg p = SAccept ls r) by (apply spec_name_accept_iff; split; assumption). rewrite Es.
    assert (Ef : forallb (fun l => label_ok (snd l)) ls = true) by (apply forallb_forall; rewrite Forall_forall in Hok; exact Hok).
    rewrite Ef. f_equal. f_equal. lia.
  Qed.

  Lemma be_of (pre mid post : list byte) n v : msg = pre ++ be_bytes n v ++ post -> v < 256 ^ N.of_nat n ->
    be msg (lenN pre) (N.of_nat n) = Some v.
  Proof.
    intros Hm Hv. unfold be.
    assert (Hl : lenN (be_bytes n v) = N.of_nat n).
    { clear. unfold lenN. f_equal. revert v. induction n as [|n IH]; intro v; [reflexivity|]. cbn [be_bytes]. rewrite app_length, IH. cbn. lia. }
    assert (E : lenN pre + N.of_nat n <=? lenN msg = true).
    { rewrite Hm at 1. rewrite !lenN_app, Hl. lia. }
    rewrite E. f_equal. rewrite Hm at 1. rewrite <- Hl. rewrite subN_mid. apply be_val_be_bytes. exact Hv.
  Qed.

  (* ---- a question stands at p and ends at e ---- *)
  Definition question_stands (p : N) (q : squestion) (e : N) : Prop :=
    exists r pre post, name_stands p (sq_labels q) r /\
      msg = pre ++ be_bytes 2 (sq_type q) ++ be_bytes 2 (sq_class q) ++ post /\ lenN pre = r /\
      sq_type q < 65536 /\ sq_class q < 65536 /\ e = r + 4.

  Definition qitem (p : N) (q : squestion) (e : N) : aitem := mkItem p (e - 4) (sq_type q) (sq_class q) 0 0 true true e.

  Lemma question_at_of p q e : question_stands p q e -> question_at msg p = Some (qitem p q e).
  Proof.
    intros (r & pre & post & Hn & Hm & Hpre & Bt & Bc & ->). unfold question_at. rewrite (name_at_of _ _ _ Hn).
    pose proof (be_of pre (be_bytes 2 (sq_type q)) (be_bytes 2 (sq_class q) ++ post) 2 (sq_type q) Hm ltac:(cbn; lia)) as E1.
    rewrite Hpre in E1. change (N.of_nat 2) with 2 in E1. rewrite E1.
    assert (Hm2 : msg = (pre ++ be_bytes 2 (sq_type q)) ++ be_bytes 2 (sq_class q) ++ post) by (rewrite <- app_assoc; exact Hm).
    pose proof (be_of _ (be_bytes 2 (sq_class q)) post 2 (sq_class q) Hm2 ltac:(cbn; lia)) as E2.
    rewrite lenN_app, Hpre in E2. change (lenN (be_bytes 2 (sq_type q))) with 2 in E2. change (N.of_nat 2) with 2 in E2. rewrite E2.
    unfold qitem. replace (r + 4 - 4) with r by lia. reflexivity.
  Qed.

  (* ---- a record stands at p and ends at e ---- *)
  Definition record_stands (p : N) (x : srecord) (e : N) : Prop :=
    exists r pre post, name_stands p (sr_labels x) r /\
      msg = pre ++ fixed_wire (sr_type x) (sr_class x) (sr_ttl x) (lenN (sdata_enc (sr_data x))) ++ sdata_enc (sr_data x) ++ post /\
      lenN pre = r /\
      sdata_ok (sr_type x) (sr_data x) = true /\
      sr_type x < 65536 /\ sr_class x < 65536 /\ sr_ttl x < 4294967296 /\ lenN (sdata_enc (sr_data x)) < 65536 /\
      e = r + 10 + lenN (sdata_enc (sr_data x)).

  Definition ritem (p : N) (x : srecord) (e : N) : aitem :=
    let rdl := lenN (sdata_enc (sr_data x)) in
    mkItem p (e - 10 - rdl) (sr_type x) (sr_class x) (sr_ttl x) rdl true true e.

  Lemma record_at_of p x e : record_stands p x e -> record_at msg p = Some (ritem p x e).
  Proof.
    intros (r & pre & post & Hn & Hm & Hpre & _ & Bt & Bc & Bl & Bd & ->). unfold record_at. rewrite (name_at_of _ _ _ Hn).
    set (rdl := lenN (sdata_enc (sr_data x))) in *. unfold fixed_wire in Hm. rewrite <- !app_assoc in Hm.
    pose proof (be_of pre (be_bytes 2 (sr_type x)) _ 2 (sr_type x) Hm ltac:(cbn; lia)) as E1.
    rewrite Hpre in E1. change (N.of_nat 2) with 2 in E1. rewrite E1.
    assert (Hm2 : msg = (pre ++ be_bytes 2 (sr_type x)) ++ be_bytes 2 (sr_class x) ++ be_bytes 4 (sr_ttl x) ++ be_bytes 2 rdl ++ sdata_enc (sr_data x) ++ post)
      by (rewrite <- app_assoc; exact Hm).
    pose proof (be_of _ (be_bytes 2 (sr_class x)) _ 2 (sr_class x) Hm2 ltac:(cbn; lia)) as E2.
    rewrite lenN_app, Hpre in E2. change (lenN (be_bytes 2 (sr_type x))) with 2 in E2. change (N.of_nat 2) with 2 in E2. rewrite E2.
    assert (Hm3 : msg = ((pre ++ be_bytes 2 (sr_type x)) ++ be_bytes 2 (sr_class x)) ++ be_bytes 4 (sr_ttl x) ++ be_bytes 2 rdl ++ sdata_enc (sr_data x) ++ post)
      by (rewrite <- app_assoc; exact Hm2).
    pose proof (be_of _ (be_bytes 4 (sr_ttl x)) _ 4 (sr_ttl x) Hm3 ltac:(cbn; lia)) as E3.
    rewrite !lenN_app, Hpre in E3. change (lenN (be_bytes 2 (sr_type x))) with 2 in E3. change (lenN (be_bytes 2 (sr_class x))) with 2 in E3.
    change (N.of_nat 4) with 4 in E3. replace (r + 2 + 2) with (r + 4) in E3 by lia. rewrite E3.
    assert (Hm4 : msg = (((pre ++ be_bytes 2 (sr_type x)) ++ be_bytes 2 (sr_class x)) ++ be_bytes 4 (sr_ttl x)) ++ be_bytes 2 rdl ++ sdata_enc (sr_data x) ++ post)
      by (rewrite <- app_assoc; exact Hm3).
    pose proof (be_of _ (be_bytes 2 rdl) _ 2 rdl Hm4 ltac:(cbn; lia)) as E4.
    rewrite !lenN_app, Hpre in E4. change (lenN (be_bytes 2 (sr_type x))) with 2 in E4. change (lenN (be_bytes 2 (sr_class x))) with 2 in E4.
    change (lenN (be_bytes 4 (sr_ttl x))) with 4 in E4. change (N.of_nat 2) with 2 in E4. replace (r + 2 + 2 + 4) with (r + 8) in E4 by lia. rewrite E4.
    assert (Hfit : r + 10 + rdl <=? lenN msg = true).
    { rewrite Hm4 at 1. rewrite !lenN_app. change (lenN (be_bytes 2 (sr_type x))) with 2. change (lenN (be_bytes 2 (sr_class x))) with 2.
      change (lenN (be_bytes 4 (sr_ttl x))) with 4. change (lenN (be_bytes 2 rdl)) with 2. fold rdl. lia. }
    rewrite Hfit. unfold ritem. fold rdl. replace (r + 10 + rdl - 10 - rdl) with r by lia. reflexivity.
  Qed.

  (* ---- sequences standing back to back ---- *)
  Inductive questions_stand : N -> list squestion -> N -> Prop :=
  | qs_nil p : questions_stand p [] p
  | qs_cons p q e rest e' : question_stands p q e -> questions_stand e rest e' -> questions_stand p (q :: rest) e'.
  Inductive records_stand : N -> list srecord -> N -> Prop :=
  | rs_nil p : records_stand p [] p
  | rs_cons p x e rest e' : record_stands p x e -> records_stand e rest e' -> records_stand p (x :: rest) e'.

  (* the items the pass finds, with their offsets *)
  Fixpoint qitems (p : N) (l : list squestion) (ends : list N) : list aitem :=
    match l, ends with q :: l', e :: ends' => qitem p q e :: qitems e l' ends' | _, _ => [] end.
  Fixpoint ritems (p : N) (l : list srecord) (ends : list N) : list aitem :=
    match l, ends with x :: l', e :: ends' => ritem p x e :: ritems e l' ends' | _, _ => [] end.

  (* the same facts, element by element along the list of end offsets *)
  Fixpoint qstands (p : N) (l : list squestion) (ends : list N) : Prop :=
    match l, ends with
    | q :: l', e :: ends' => question_stands p q e /\ qstands e l' ends'
    | [], [] => True
    | _, _ => False
    end.
  Fixpoint rstands (p : N) (l : list srecord) (ends : list N) : Prop :=
    match l, ends with
    | x :: l', e :: ends' => record_stands p x e /\ rstands e l' ends'
    | [], [] => True
    | _, _ => False
    end.

  Lemma questions_chain p l e : questions_stand p l e ->
    exists ends, length ends = length l /\ chain msg question_at (fun _ => True) p (qitems p l ends) e /\
                 length (qitems p l ends) = length l /\ qstands p l ends.
  Proof.
    induction 1 as [p|p q e rest e' Hq Hrest (ends & L & C & L2 & S)]; [exists []; split; [reflexivity|]; split; [constructor|split; [reflexivity|exact I]]|].
    exists (e :: ends). split; [cbn; lia|]. cbn [qitems]. split; [|split; [cbn; lia|split; assumption]].
    apply ch_cons; [apply question_at_of; exact Hq|exact I|exact C].
  Qed.

  Lemma records_chain p l e : records_stand p l e ->
    exists ends, length ends = length l /\ chain msg record_at (fun it => a_data_ok it = true) p (ritems p l ends) e /\
                 length (ritems p l ends) = length l /\ rstands p l ends.
  Proof.
    induction 1 as [p|p x e rest e' Hx Hrest (ends & L & C & L2 & S)]; [exists []; split; [reflexivity|]; split; [constructor|split; [reflexivity|exact I]]|].
    exists (e :: ends). split; [cbn; lia|]. cbn [ritems]. split; [|split; [cbn; lia|split; assumption]].
    apply ch_cons; [apply record_at_of; exact Hx|reflexivity|exact C].
  Qed.

  (* ---- the whole message ---- *)
  (* a message of 12..65535 octets whose header announces exactly the questions and records that
     stand in it is [parsed] (Proofs/ReaderRefine.v) with complete lists of exactly those items *)
  Theorem message_parsed nq an ns ar (qs : list squestion) (rs : list srecord) e1 e2 :
    lenN msg <= 65535 -> 12 <= lenN msg ->
    questions_stand 12 qs e1 -> records_stand e1 rs e2 ->
    lenN qs = nq -> lenN rs = an + ns + ar -> nq <= 65535 -> an <= 65535 -> ns <= 65535 -> ar <= 65535 ->
    exists qends rends,
      parsed msg nq an ns ar (qitems 12 qs qends) (ritems e1 rs rends) e1 e2 /\
      lenN (qitems 12 qs qends) = nq /\ lenN (ritems e1 rs rends) = an + ns + ar /\
      qstands 12 qs qends /\ rstands e1 rs rends.
  Proof.
    intros H1 H2 Hq Hr Lq Lr B1 B2 B3 B4.
    destruct (questions_chain _ _ _ Hq) as (qends & _ & Cq & Lq2 & Sq). destruct (records_chain _ _ _ Hr) as (rends & _ & Cr & Lr2 & Sr).
    exists qends, rends.
    assert (E1 : lenN (qitems 12 qs qends) = nq) by (unfold lenN in *; rewrite Lq2; exact Lq).
    assert (E2 : lenN (ritems e1 rs rends) = an + ns + ar) by (unfold lenN in *; rewrite Lr2; exact Lr).
    split; [|split; [assumption|split; [assumption|split; assumption]]].
    unfold parsed. repeat (split; [assumption|]). split; [lia|]. split; [intro; lia|]. split; [lia|]. repeat (split; [assumption|]). assumption.
  Qed.

  (* and each record of such a message decodes to exactly its value: the item the pass finds for a
     record that stands at p carries its TYPE/CLASS/TTL/RDLENGTH, and the typed decoder run at the
     item's data offset returns the encoded value (C02_record_roundtrip gives the same for the owner
     name and the header through the reader's own calls) *)
  Theorem standing_record_decodes p x e c a : record_stands p x e -> sr_data x = SVal a ->
    whole msg c -> pos c = a_type_off (ritem p x e) + 10 ->
    exists m, read_rdata msg (sr_type x) (a_rdlen (ritem p x e)) = Some m /\
              m c = (c_set_pos c e, Ok (rdata_val a)).
  Proof.
    intros (r & pre & post & Hn & Hm & Hpre & Hok & Bt & Bc & Bl & Bd & ->) Hd Hw Hp.
    rewrite Hd in *. cbn [sdata_ok sdata_enc] in *. apply Bool.andb_true_iff in Hok. destruct Hok as [Hty Ha].
    destruct (rdata_roundtrip msg (sr_type x) a Hty Ha) as (m & Em & Hcons).
    exists m. cbn [ritem a_rdlen]. rewrite Hd. cbn [sdata_enc]. split; [exact Em|].
    assert (Hm3 : msg = (pre ++ fixed_wire (sr_type x) (sr_class x) (sr_ttl x) (lenN (rdata_enc a))) ++ rdata_enc a ++ post)
      by (rewrite <- app_assoc; exact Hm).
    cbn [ritem a_type_off] in Hp. rewrite Hd in Hp. cbn [sdata_enc] in Hp.
    assert (Hlen : lenN msg = r + 10 + lenN (rdata_enc a) + lenN post).
    { rewrite Hm3 at 1. rewrite !lenN_app, lenN_fixed_wire. lia. }
    destruct Hw as [Hl Ho].
    rewrite (Hcons _ _ c Hm3 ltac:(unfold cwf; rewrite Hl, Ho; split; [lia|exact I]) Ho
               ltac:(rewrite lenN_app, lenN_fixed_wire; lia) ltac:(rewrite lenN_app, lenN_fixed_wire; lia)).
    f_equal. f_equal. rewrite lenN_app, lenN_fixed_wire. lia.
  Qed.

  (* the octets of the data of a standing record, whatever its kind *)
  Lemma standing_record_bytes p x e : record_stands p x e ->
    subN msg (a_type_off (ritem p x e) + 10) (a_rdlen (ritem p x e)) = sdata_enc (sr_data x).
  Proof.
    intros (r & pre & post & Hn & Hm & Hpre & _ & Bt & Bc & Bl & Bd & ->). cbn [ritem a_type_off a_rdlen].
    replace (r + 10 + lenN (sdata_enc (sr_data x)) - 10 - lenN (sdata_enc (sr_data x)) + 10) with (lenN (pre ++ fixed_wire (sr_type x) (sr_class x) (sr_ttl x) (lenN (sdata_enc (sr_data x)))))
      by (rewrite lenN_app, lenN_fixed_wire; lia).
    rewrite Hm at 1. rewrite app_assoc. apply subN_mid.
  Qed.
End M.

(* ---- non-vacuity: a concrete response (one question "a." A IN; one answer whose owner is a
   compression pointer to the question name, A 1.2.3.4, TTL 60) is such a message ---- *)
Definition example_msg : list byte :=
  [x12;x34;x81;x80;x00;x01;x00;x01;x00;x00;x00;x00;            (* header: 1 question, 1 answer *)
   x01;x61;x00; x00;x01; x00;x01;                              (* "a." A IN *)
   xc0;x0c; x00;x01; x00;x01; x00;x00;x00;x3c; x00;x04; x01;x02;x03;x04].

Lemma example_stands :
  let q := mkSQ [(12, [x61])] 1 1 in
  let x := mkSR [(12, [x61])] 1 1 60 (SVal (A_A 16909060)) in
  questions_stand example_msg 12 [q] 19 /\ records_stand example_msg 19 [x] 35 /\ lenN example_msg = 35.
Proof.
  cbv zeta. split; [|split; [|reflexivity]].
  - eapply qs_cons; [|constructor]. exists 15, (firstn 15 example_msg), (skipn 19 example_msg).
    split.
    + assert (E : spec_name example_msg 12 = SAccept [(12, [x61])] 15) by (vm_compute; reflexivity).
      apply spec_name_accept_iff in E. destruct E as [E1 E2]. split; [exact E1|]. split; [exact E2|].
      split; [repeat constructor|vm_compute; discriminate].
    + split; [reflexivity|]. split; [reflexivity|]. split; [reflexivity|]. split; [reflexivity|reflexivity].
  - eapply rs_cons; [|constructor]. exists 21, (firstn 21 example_msg), [].
    split.
    + assert (E : spec_name example_msg 19 = SAccept [(12, [x61])] 21) by (vm_compute; reflexivity).
      apply spec_name_accept_iff in E. destruct E as [E1 E2]. split; [exact E1|]. split; [exact E2|].
      split; [repeat constructor|vm_compute; discriminate].
    + split; [reflexivity|]. repeat (split; [reflexivity|]). reflexivity.
Qed.

(* and on it the hypotheses of the reader refinement (C09) are satisfiable: the example is [parsed]
   with complete lists, the reader behind header() represents (0, 0), and the sequence "question,
   record, seek(Answer), record" is allowed, within the parsed items, and therefore prescribed *)
Lemma example_run :
  exists qs rs e1 e2 h c,
    parsed example_msg 1 1 0 0 qs rs e1 e2 /\ lenN qs = 1 /\ lenN rs = 1 /\
    read_header example_msg (c_new example_msg) = (c, Ok h) /\
    let r0 := mkReader c (tr_set tr_default h) false in
    RState example_msg 1 1 0 0 qs rs e2 r0 0 0 /\
    allowed 1 1 0 0 [TQuestion; TRecord; TSeek 0; TRecord] 0 0 = Some (2, 2) /\
    within 1 1 0 0 qs rs [TQuestion; TRecord; TSeek 0; TRecord] 0 0 /\
    exists r', RState example_msg 1 1 0 0 qs rs e2 r' 2 2 /\
               prescribed example_msg 1 1 0 0 qs rs r' [TQuestion; TRecord; TSeek 0; TRecord] r0 0 0.
Proof.
  destruct example_stands as (Hq & Hr & Hl).
  destruct (message_parsed example_msg 1 1 0 0 _ _ 19 35 ltac:(rewrite Hl; lia) ltac:(rewrite Hl; lia) Hq Hr
              eq_refl eq_refl ltac:(lia) ltac:(lia) ltac:(lia) ltac:(lia)) as (qends & rends & Hp & L1 & L2 & _ & _).
  eexists. eexists. exists 19, 35. eexists. eexists. split; [exact Hp|]. split; [exact L1|]. split; [exact L2|].
  split; [vm_compute; reflexivity|]. cbv zeta.
  assert (Hs : RState example_msg 1 1 0 0 (qitems 12 [mkSQ [(12, [x61])] 1 1] qends) (ritems 19 [mkSR [(12, [x61])] 1 1 60 (SVal (A_A 16909060))] rends) 35
                 (mkReader (c_set_pos (c_new example_msg) 12) (tr_set tr_default (mkHeader 4660 33152 1 1 0 0)) false) 0 0).
  { apply (rstate_start_any example_msg 1 1 0 0 _ _ 19 35 Hp); try reflexivity. split; reflexivity. }
  split; [exact Hs|].
  assert (Ha : allowed 1 1 0 0 [TQuestion; TRecord; TSeek 0; TRecord] 0 0 = Some (2, 2)) by (vm_compute; reflexivity).
  split; [exact Ha|].
  assert (Hw : within 1 1 0 0 (qitems 12 [mkSQ [(12, [x61])] 1 1] qends) (ritems 19 [mkSR [(12, [x61])] 1 1 60 (SVal (A_A 16909060))] rends)
                 [TQuestion; TRecord; TSeek 0; TRecord] 0 0) by (eapply allowed_within; [exact L1|exact L2|exact Ha]).
  split; [exact Hw|].
  exact (reader_refines_any example_msg 1 1 0 0 _ _ 19 35 Hp _ _ 0 0 2 2 Hs Ha Hw).
Qed.
