(* Proofs/Window.v — typed record data is decoded strictly inside its RDLENGTH window:
   success consumes exactly RDLENGTH octets and restores the buffer; the result (value or error)
   depends on no byte at or beyond the window end. *)
From Coq Require Import ZArith.
From RsdnsModel Require Import Base GenConst GenCursor GenLabels GenNames GenRData GenSpec Cursor Names Labels RData.
From RsdnsModel.Proofs Require Import CursorSafe ListN LabelsTotal NoUB.
From Coq Require Import ZifyBool ZifyN ZifyNat.
Open Scope N_scope.

(* computations that only move the position: buffer and window state untouched on every path *)
Definition mframe {X} (m : M X) : Prop := forall c, lim (fst (m c)) = lim c /\ orig (fst (m c)) = orig c.

Lemma mframe_ret {X} (x : X) : mframe (mret x). Proof. intro c; split; reflexivity. Qed.
Lemma mframe_fail {X} (r : res X) : mframe (mfail r). Proof. intro c; split; reflexivity. Qed.
Lemma mframe_bind {X Y} (m : M X) (f : X -> M Y) : mframe m -> (forall x, mframe (f x)) -> mframe (mbind m f).
Proof.
  intros Hm Hf c. unfold mbind. specialize (Hm c). destruct (m c) as [c' r]; cbn in Hm.
  destruct r; cbn; try assumption. destruct (Hf a c') as [H1 H2]. destruct Hm. split; congruence.
Qed.
Lemma mframe_lift {X} (f : cursor -> res (X * cursor)) :
  (forall c x c', f c = Ok (x, c') -> exists p, c' = c_set_pos c p) -> mframe (lift f).
Proof.
  intros H c. unfold lift. destruct (f c) as [[x c']| | | | |] eqn:E; cbn; try (split; reflexivity).
  destruct (H _ _ _ E) as [p ->]. split; reflexivity.
Qed.

Section W.
  Variable msg : list byte.

  Lemma f_u8 : mframe (lift (c_u8 msg)).
  Proof. apply mframe_lift. intros c x c' H. apply c_u8_ok in H. destruct H as (_ & _ & ->). eauto. Qed.
  Lemma f_be size : mframe (lift (fun c => c_be msg c size)).
  Proof. apply mframe_lift. intros c x c' H. apply c_be_ok in H. destruct H as (_ & _ & _ & ->). eauto. Qed.
  Lemma f_slice n : mframe (m_slice msg n).
  Proof.
    unfold m_slice. apply mframe_lift. intros c x c'.
    destruct (c_slice msg c n) as [[[lo bs] c2]| | | | |] eqn:E; cbn; try discriminate.
    intro H; inversion H; subst. apply c_slice_ok in E. destruct E as (_ & _ & _ & _ & ->). eauto.
  Qed.
  Lemma f_read_name nk : mframe (lift (read_name msg nk)).
  Proof.
    apply mframe_lift. intros c x c'. unfold read_name.
    destruct (read_name_loop _ _ _ _ _) as [[dn mp]| | | | |]; cbn; try discriminate.
    destruct (name_wire_too_long _); [discriminate|]. intro H; inversion H; eauto.
  Qed.

  Ltac fr := repeat first [ apply mframe_ret | apply mframe_fail | apply mframe_bind; [|intros ?]
                          | apply f_u8 | apply f_be | apply f_slice | apply f_read_name ].

  Lemma f_txt_loop fuel : forall rd acc, mframe (txt_loop msg fuel rd acc).
  Proof.
    induction fuel as [|f IH]; intros rd acc; cbn [txt_loop]; [apply mframe_fail|].
    destruct (txt_more rd); [|apply mframe_ret]. unfold m_u8.
    apply mframe_bind; [apply f_u8|intros len]. apply mframe_bind.
    - destruct (txt_chunk_nonempty len); [apply f_slice|apply mframe_ret].
    - intros chunk. destruct (_ <=? _); [apply IH|apply mframe_fail].
  Qed.

  (* window ; frame-preserving body ; close_window *)
  Lemma in_window_exact {X} rd (body : M X) c c' x :
    mframe body -> cwf msg c ->
    (do* _ <- m_window rd; do* y <- body; do* _ <- m_close; mret y) c = (c', Ok x) ->
    orig c = None /\ pos c' = pos c + rd /\ lim c' = lim c /\ orig c' = None /\ pos c + rd <= lim c.
  Proof.
    intros Hb Hc. unfold mbind, m_window, m_close, lift_c, lift, mret.
    destruct (c_window c rd) as [c1| | | | |] eqn:E1; cbn [bind]; try (intro H; inversion H; fail).
    apply (c_window_ok msg) in E1; [|assumption]. destruct E1 as (Hc1 & Hp1 & Hl1 & Hle & Ho & Ho1).
    specialize (Hb c1). destruct (body c1) as [c2 r]. cbn in Hb. destruct Hb as [Hl2 Ho2].
    destruct r; try (intro H; inversion H; fail).
    destruct (c_close_window c2) as [c3| | | | |] eqn:E3; cbn [bind]; try (intro H; inversion H; fail).
    intro H; inversion H; subst.
    unfold c_close_window in E3. rewrite Ho2, Ho1 in E3.
    destruct (close_window_guard _ _) eqn:G; [|discriminate]. apply close_window_guard_spec in G.
    inversion E3; subst; cbn. repeat split; try assumption; lia.
  Qed.

  Opaque txt_loop.
  Theorem read_rdata_exact ty rd m c c' d :
    read_rdata msg ty rd = Some m -> cwf msg c -> m c = (c', Ok d) ->
    orig c = None /\ pos c' = pos c + rd /\ lim c' = lim c /\ orig c' = None /\ pos c + rd <= lim c.
  Proof.
    unfold read_rdata, in_window.
    destruct (ty =? T_A); [intro H; inversion H; subst; clear H; intros Hc Hm; eapply in_window_exact; [|exact Hc|exact Hm]; unfold m_u32, c_u32; fr|].
    destruct (ty =? T_AAAA); [intro H; inversion H; subst; clear H; intros Hc Hm; eapply in_window_exact; [|exact Hc|exact Hm]; unfold m_u128, c_u128; fr|].
    destruct (is_name_type ty); [intro H; inversion H; subst; clear H; intros Hc Hm; eapply in_window_exact; [|exact Hc|exact Hm]; unfold m_name; fr|].
    destruct (ty =? T_HINFO); [intro H; inversion H; subst; clear H; intros Hc Hm; eapply in_window_exact; [|exact Hc|exact Hm]; unfold m_charstr, m_u8; fr|].
    destruct (ty =? T_WKS).
    { intro H; inversion H; subst; clear H. intros Hc Hm; eapply in_window_exact; [|exact Hc|exact Hm]. unfold m_u32, c_u32, m_u8.
      apply mframe_bind; [apply f_be|intros a]. apply mframe_bind; [apply f_u8|intros p].
      destruct (wks_bitmap_len_nounderflow rd); fr. }
    destruct (ty =? T_MINFO); [intro H; inversion H; subst; clear H; intros Hc Hm; eapply in_window_exact; [|exact Hc|exact Hm]; unfold m_name; fr|].
    destruct (ty =? T_MX); [intro H; inversion H; subst; clear H; intros Hc Hm; eapply in_window_exact; [|exact Hc|exact Hm]; unfold m_name, m_u16, c_u16; fr|].
    destruct (ty =? T_NULL); [intro H; inversion H; subst; clear H; intros Hc Hm; eapply in_window_exact; [|exact Hc|exact Hm]; fr|].
    destruct (ty =? T_SOA); [intro H; inversion H; subst; clear H; intros Hc Hm; eapply in_window_exact; [|exact Hc|exact Hm]; unfold m_name, m_u32, c_u32; fr|].
    destruct (ty =? T_TXT); [|discriminate].
    intro H. injection H as <-. intros Hc Hm.
    apply (in_window_exact rd (do* t <- txt_loop msg (S (N.to_nat rd)) rd []; mret (RD_Txt t)) c c' d); [|assumption|].
    - apply mframe_bind; [apply f_txt_loop|intros; apply mframe_ret].
    - unfold mbind in *. destruct (m_window rd c) as [c1 r1]. destruct r1; try exact Hm.
      destruct (txt_loop msg (S (N.to_nat rd)) rd [] c1) as [c2 r2]. destruct r2; exact Hm.
  Qed.
  Transparent txt_loop.
End W.

(* ------------------------------------------------------------------ locality *)
(* two messages of the same length that agree on their first L octets *)
Definition agree (L : N) (m1 m2 : list byte) : Prop :=
  lenN m1 = lenN m2 /\ L <= lenN m1 /\ firstn (N.to_nat L) m1 = firstn (N.to_nat L) m2.

Section Local.
  Variables (L : N) (m1 m2 : list byte).
  Hypothesis HA : agree L m1 m2.

  Lemma agree_get i : i < L -> getN m1 i = getN m2 i.
  Proof.
    intro H. destruct HA as (_ & _ & Hf). rewrite <- (getN_firstn m1 L i H), <- (getN_firstn m2 L i H), Hf. reflexivity.
  Qed.
  Lemma agree_sub p n : p + n <= L -> subN m1 p n = subN m2 p n.
  Proof.
    intro H. destruct HA as (_ & _ & Hf). rewrite <- (subN_firstn m1 L p n H), <- (subN_firstn m2 L p n H), Hf. reflexivity.
  Qed.
  Lemma agree_len : lenN m1 = lenN m2. Proof. apply HA. Qed.

  Lemma l_u8 c : lim c <= L -> c_u8 m1 c = c_u8 m2 c.
  Proof.
    intro H. unfold c_u8. destruct (u8_guard _); [|reflexivity]. destruct (pos c <? lim c) eqn:E; [|reflexivity].
    rewrite agree_get by lia. reflexivity.
  Qed.
  Lemma l_slice c n : lim c <= L -> c_slice m1 c n = c_slice m2 c n.
  Proof.
    intro H. unfold c_slice. destruct (slice_guard _ _ _ _); [|reflexivity]. rewrite slice_lo_spec, slice_hi_spec, agree_len.
    destruct ((pos c <=? pos c + n) && (pos c + n <=? lim c) && (lim c <=? lenN m2)) eqn:E; [|reflexivity].
    rewrite agree_sub by lia. reflexivity.
  Qed.
  Lemma l_be c n : lim c <= L -> c_be m1 c n = c_be m2 c n.
  Proof.
    intro H. unfold c_be. destruct (r_be_guard _ _); [|reflexivity]. rewrite agree_len.
    destruct ((pos c + n <=? lim c) && (lim c <=? lenN m2)) eqn:E; [|reflexivity].
    rewrite agree_sub by lia. reflexivity.
  Qed.

  Lemma l_label_step st : lim (lc st) <= L -> label_step m1 st = label_step m2 st.
  Proof.
    intro H. unfold label_step. rewrite l_u8 by assumption.
    destruct (c_u8 m2 (lc st)) as [[label c1]| | | | |] eqn:E1; cbn [bind]; try reflexivity.
    apply c_u8_ok in E1. destruct E1 as (_ & _ & ->).
    destruct (label_is_root label); [reflexivity|]. destruct (is_length label).
    - rewrite l_slice by (cbn; assumption). reflexivity.
    - destruct (is_pointer label); [|reflexivity]. rewrite l_u8 by (cbn; assumption). reflexivity.
  Qed.

  Lemma label_step_lim m st s : label_step m st = Ok s ->
    match s with LEnd _ => True | LLabel _ _ st' | LJump st' => lim (lc st') = lim (lc st) end.
  Proof.
    unfold label_step. destruct (c_u8 m (lc st)) as [[label c1]| | | | |] eqn:E1; cbn [bind]; try discriminate.
    apply c_u8_ok in E1. destruct E1 as (_ & _ & ->).
    destruct (label_is_root label); [intro H; inversion H; exact I|]. destruct (is_length label).
    - destruct (c_slice m _ label) as [[[lo bs] c2]| | | | |] eqn:E2; cbn [bind]; try discriminate.
      apply c_slice_ok in E2. destruct E2 as (_ & _ & _ & _ & ->). intro H; inversion H; reflexivity.
    - destruct (is_pointer label); [|discriminate].
      destruct (c_u8 m _) as [[o2 c2]| | | | |] eqn:E2; cbn [bind]; try discriminate.
      apply c_u8_ok in E2. destruct E2 as (_ & _ & ->).
      destruct (ptr_bad_nounderflow _ _); [|discriminate]. destruct (ptr_bad _ _); [discriminate|].
      destruct (too_many_pointers _); [discriminate|]. intro H; inversion H; reflexivity.
  Qed.

  Lemma l_read_name_loop nk fuel : forall st dn, lim (lc st) <= L ->
    read_name_loop m1 nk fuel st dn = read_name_loop m2 nk fuel st dn.
  Proof.
    induction fuel as [|f IH]; intros st dn H; [reflexivity|]. cbn [read_name_loop].
    rewrite l_label_step by assumption.
    destruct (label_step m2 st) as [s| | | | |] eqn:E; cbn [bind]; try reflexivity.
    pose proof (label_step_lim m2 st s E) as Hl. destruct s as [mp|p b st'|st']; [reflexivity| |].
    - destruct (append_label_bytes nk dn b); cbn [bind]; try reflexivity. apply IH. lia.
    - apply IH. lia.
  Qed.
  Lemma l_read_name nk c : lim c <= L -> read_name m1 nk c = read_name m2 nk c.
  Proof. intro H. unfold read_name. rewrite l_read_name_loop by (cbn; assumption). reflexivity. Qed.

  (* composite computations agree as long as the visible buffer ends at or before L *)
  Definition mloc {X} (f1 f2 : M X) : Prop := forall c, lim c <= L -> f1 c = f2 c.

  Lemma mloc_ret {X} (x : X) : mloc (mret x) (mret x). Proof. intros c _; reflexivity. Qed.
  Lemma mloc_fail {X} (r : res X) : mloc (mfail r) (mfail r). Proof. intros c _; reflexivity. Qed.
  Lemma mloc_bind {X Y} (f1 f2 : M X) (g1 g2 : X -> M Y) :
    mloc f1 f2 -> mframe f2 -> (forall x, mloc (g1 x) (g2 x)) -> mloc (mbind f1 g1) (mbind f2 g2).
  Proof.
    intros Hf Hfr Hg c Hc. unfold mbind. rewrite (Hf c Hc). destruct (Hfr c) as [Hl _].
    destruct (f2 c) as [c' r]. cbn in Hl. destruct r; try reflexivity. apply Hg. lia.
  Qed.
  Lemma mloc_lift {X} (f1 f2 : cursor -> res (X * cursor)) :
    (forall c, lim c <= L -> f1 c = f2 c) -> mloc (lift f1) (lift f2).
  Proof. intros H c Hc. unfold lift. rewrite (H c Hc). reflexivity. Qed.

  Lemma ml_u8 : mloc (m_u8 m1) (m_u8 m2). Proof. apply mloc_lift, l_u8. Qed.
  Lemma ml_be n : mloc (lift (fun c => c_be m1 c n)) (lift (fun c => c_be m2 c n)).
  Proof. apply mloc_lift. intros; apply l_be; assumption. Qed.
  Lemma ml_slice n : mloc (m_slice m1 n) (m_slice m2 n).
  Proof. unfold m_slice. apply mloc_lift. intros c H. rewrite l_slice by assumption. reflexivity. Qed.
  Lemma ml_name : mloc (m_name m1) (m_name m2). Proof. apply mloc_lift, l_read_name. Qed.

  Lemma ml_txt fuel : forall rd acc, mloc (txt_loop m1 fuel rd acc) (txt_loop m2 fuel rd acc).
  Proof.
    induction fuel as [|f IH]; intros rd acc; cbn [txt_loop]; [apply mloc_fail|].
    destruct (txt_more rd); [|apply mloc_ret].
    apply mloc_bind; [apply ml_u8|apply f_u8|intros len]. apply mloc_bind.
    - destruct (txt_chunk_nonempty len); [apply ml_slice|apply mloc_ret].
    - destruct (txt_chunk_nonempty len); [apply f_slice|apply mframe_ret].
    - intros chunk. destruct (_ <=? _); [apply IH|apply mloc_fail].
  Qed.

  (* window; local body; close *)
  Lemma in_window_local {X} rd (b1 b2 : M X) c :
    mloc b1 b2 -> pos c + rd <= L ->
    in_window rd b1 c = in_window rd b2 c.
  Proof.
    intros Hb Hp. unfold in_window, mbind, m_window, m_close, lift_c, lift, mret.
    destruct (c_window c rd) as [c1| | | | |] eqn:E1; cbn [bind]; try reflexivity.
    assert (Hl1 : lim c1 <= L).
    { unfold c_window in E1. destruct (orig c); [discriminate|]. destruct (window_guard _ _ _ _); [|discriminate].
      rewrite window_end_spec in E1. destruct (_ <=? _); [|discriminate]. inversion E1; subst; cbn. lia. }
    rewrite (Hb c1 Hl1). reflexivity.
  Qed.

  Lemma win3_local {X Y} rd (b1 b2 : M X) (k : X -> Y) c :
    mloc b1 b2 -> pos c + rd <= L ->
    (do* _ <- m_window rd; do* t <- b1; do* _ <- m_close; mret (k t)) c =
    (do* _ <- m_window rd; do* t <- b2; do* _ <- m_close; mret (k t)) c.
  Proof.
    intros Hb Hp. unfold mbind, m_window, m_close, lift_c, lift, mret.
    destruct (c_window c rd) as [c1| | | | |] eqn:E1; cbn [bind]; try reflexivity.
    assert (Hl1 : lim c1 <= L).
    { unfold c_window in E1. destruct (orig c); [discriminate|]. destruct (window_guard _ _ _ _); [|discriminate].
      rewrite window_end_spec in E1. destruct (_ <=? _); [|discriminate]. inversion E1; subst; cbn. lia. }
    rewrite (Hb c1 Hl1). reflexivity.
  Qed.

  Ltac ml := repeat first [ apply mloc_ret | apply mloc_fail
                          | apply mloc_bind; [| |intros ?]
                          | apply ml_u8 | apply ml_be | apply ml_slice | apply ml_name
                          | apply f_u8 | apply f_be | apply f_slice | apply f_read_name
                          | apply mframe_bind; [|intros ?] | apply mframe_ret ].

  Theorem read_rdata_local ty rd c :
    pos c + rd <= L ->
    match read_rdata m1 ty rd, read_rdata m2 ty rd with
    | Some f1, Some f2 => f1 c = f2 c
    | None, None => True
    | _, _ => False
    end.
  Proof.
    intro Hp. unfold read_rdata.
    destruct (ty =? T_A); [apply in_window_local; [|assumption]; unfold m_u32, c_u32; ml|].
    destruct (ty =? T_AAAA); [apply in_window_local; [|assumption]; unfold m_u128, c_u128; ml|].
    destruct (is_name_type ty); [apply in_window_local; [|assumption]; ml|].
    destruct (ty =? T_HINFO); [apply in_window_local; [|assumption]; unfold m_charstr; ml|].
    destruct (ty =? T_WKS).
    { apply in_window_local; [|assumption]. unfold m_u32, c_u32.
      apply mloc_bind; [apply ml_be|apply f_be|intros a]. apply mloc_bind; [apply ml_u8|apply f_u8|intros p].
      destruct (wks_bitmap_len_nounderflow rd); ml. }
    destruct (ty =? T_MINFO); [apply in_window_local; [|assumption]; ml|].
    destruct (ty =? T_MX); [apply in_window_local; [|assumption]; unfold m_u16, c_u16; ml|].
    destruct (ty =? T_NULL); [apply in_window_local; [|assumption]; ml|].
    destruct (ty =? T_SOA); [apply in_window_local; [|assumption]; unfold m_u32, c_u32; ml|].
    destruct (ty =? T_TXT); [|exact I].
    apply (win3_local rd (txt_loop m1 (S (N.to_nat rd)) rd []) (txt_loop m2 (S (N.to_nat rd)) rd []) RD_Txt c); [apply ml_txt|assumption].
  Qed.
End Local.
