(* Proofs/NameRefEq.v — the borrowed-name views agree with decoding:
   * iterating the labels of a borrowed name yields exactly the labels of its RFC expansion, with
     their offsets, in order;
   * NameRef::eq on two borrowed names of one message that both decode equals the comparison
     (==, case-insensitive) of the decoded names. *)
From Coq Require Import ZArith.
From RsdnsModel Require Import Base GenConst GenCursor GenLabels GenNames GenSpec Cursor Names Labels.
From RsdnsModel.Spec Require Import WireName NameText.
From RsdnsModel.Proofs Require Import CursorSafe ListN LabelsTotal LabelsSound Defined NameText NameOrder RoundTrip LabelsComplete.
From Coq Require Import ZifyBool ZifyN ZifyNat.
Open Scope N_scope.

(* the labels of an expansion depend on the bytes and the start only, not on the pointer budget *)
Lemma expands_det V : forall q0 h p ls, expands V q0 h p ls -> forall q0' h' ls', expands V q0' h' p ls' -> ls = ls'.
Proof.
  induction 1 as [q0 h p Hg|q0 h p b ls Hg Hb Hle Hex IH|q0 h p b1 b2 ls Hg1 H192 Hg2 tgt q Hlt Hh Hex IH];
    intros q0' h' ls' H'; inversion H' as [? ? ? Hg'|? ? ? b' ? Hg' Hb' Hle' Hex'|? ? ? b1' b2' ? Hg1' H192' Hg2' Hlt' Hh' Hex']; subst;
    try (rewrite Hg in *); try (rewrite Hg1 in *);
    repeat match goal with H : Some _ = Some _ |- _ => inversion H; subst; clear H end;
    try (change (bN x00) with 0 in *; lia); try lia; try reflexivity.
  - f_equal. eapply IH; eassumption.
  - rewrite Hg2 in *. match goal with H : Some _ = Some _ |- _ => inversion H; subst; clear H end. eapply IH; eassumption.
Qed.

Section E.
  Variable msg : list byte.

  (* one call of the label iterator's inner loop on a state with a legal expansion *)
  Lemma labels_next_loop_spec : forall V q0 hops p ls, expands V q0 hops p ls ->
    forall st fuel, V = vis msg (lc st) -> pos (lc st) = p -> q0_of st = q0 -> n_ptr st = hops -> linv msg st ->
    Forall (fun l => label_ok (snd l) = true) ls -> (N.to_nat (lmeasure st) < fuel)%nat ->
    match ls with
    | [] => exists st', labels_next_loop msg fuel st = Ok (None, st')
    | (p0, l) :: rest =>
      exists st', labels_next_loop msg fuel st = Ok (Some (p0, l), st') /\ linv msg st' /\ V = vis msg (lc st') /\
        expands V (q0_of st') (n_ptr st') (pos (lc st')) rest /\ lmeasure st' < lmeasure st
    end.
  Proof.
    induction 1 as [q0 hops p Hg|q0 hops p b ls Hg Hb Hle Hex IH|q0 hops p b1 b2 ls Hg1 H192 Hg2 tgt q Hlt Hh Hex IH];
      intros st fuel HV Hp Hq Hn Hi Hok Hf; (destruct fuel as [|f]; [lia|]); cbn [labels_next_loop]; subst V p q0 hops.
    - rewrite (step_root msg st Hi Hg). cbn [bind]. eexists. reflexivity.
    - pose proof Hi as (Hc & _ & _).
      assert (Hle' : pos (lc st) + 1 + bN b <= lim (lc st)) by (rewrite (vis_len msg _ Hc) in Hle; exact Hle).
      pose proof (step_label msg st b Hi Hg Hb Hle') as Es. rewrite Es. cbn [bind].
      destruct (label_step_label msg _ _ _ _ Hi Es) as (Hi' & Hlt & Hlim & _ & _ & Hmp & Hnp & Ho).
      assert (Hsub : subN (vis msg (lc st)) (pos (lc st) + 1) (bN b) = subN msg (pos (lc st) + 1) (bN b))
        by (unfold vis; apply subN_firstn; lia).
      rewrite Hsub in *. inversion Hok as [|? ? Hl Hok']; subst. cbn [snd] in Hl.
      apply check_label_ok in Hl. rewrite Hl. cbn [bind].
      eexists. split; [reflexivity|]. split; [exact Hi'|]. split; [unfold vis; cbn [lc lim c_set_pos]; reflexivity|].
      split; [exact Hex|exact Hlt].
    - pose proof Hi as (Hc & Hm & _).
      assert (Hmpq : (if max_pos st =? 0 then pos (lc st) + 2 else max_pos st) = q + 2).
      { subst q. unfold q0_of. destruct (max_pos st =? 0) eqn:E; [reflexivity|]. destruct Hm as [Hm|Hm]; lia. }
      assert (Hstep := step_ptr msg st b1 b2 Hi Hg1 H192 Hg2). cbv zeta in Hstep. fold tgt in Hstep.
      rewrite Hmpq in Hstep. specialize (Hstep ltac:(lia) ltac:(lia)). rewrite Hstep. cbn [bind].
      destruct (label_step_jump msg _ _ Hi Hstep) as (Hi' & Hlt' & Hlim & Ho & _).
      set (st' := mkL (c_set_pos (lc st) tgt) (q + 2) (n_ptr st + 1)) in *.
      assert (A1 : vis msg (lc st) = vis msg (lc st')) by (unfold vis, st'; cbn [lc lim c_set_pos]; reflexivity).
      assert (A3 : q0_of st' = Some q) by (unfold q0_of; cbn [max_pos st']; destruct (q + 2 =? 0) eqn:E; [lia|]; f_equal; lia).
      specialize (IH st' f A1 (@Logic.eq_refl _ _) A3 (@Logic.eq_refl _ _) Hi' Hok ltac:(lia)).
      destruct ls as [|[p0 l] rest]; [exact IH|].
      destruct IH as (st2 & E2 & I2 & V2 & X2 & M2). exists st2. split; [exact E2|]. split; [exact I2|]. split; [exact V2|]. split; [exact X2|lia].
  Qed.

  (* the iterator state: the remaining labels of the name *)
  Definition it_has (it : labels_it) (ls : list (N * list byte)) : Prop :=
    it_done it = false /\ linv msg (it_st it) /\
    expands (vis msg (lc (it_st it))) (q0_of (it_st it)) (n_ptr (it_st it)) (pos (lc (it_st it))) ls /\
    Forall (fun l => label_ok (snd l) = true) ls.

  Lemma labels_next_spec it ls : it_has it ls ->
    match ls with
    | [] => exists it', labels_next msg it = Ok (ItNone, it')
    | (p0, l) :: rest => exists it', labels_next msg it = Ok (ItLabel p0 l, it') /\ it_has it' rest /\
                                     vis msg (lc (it_st it')) = vis msg (lc (it_st it)) /\
                                     lmeasure (it_st it') < lmeasure (it_st it)
    end.
  Proof.
    intros (Hd & Hi & Hex & Hok). unfold labels_next. rewrite Hd.
    pose proof (labels_next_loop_spec _ _ _ _ _ Hex (it_st it) (name_fuel (lc (it_st it))) (@Logic.eq_refl _ _) (@Logic.eq_refl _ _) (@Logic.eq_refl _ _) (@Logic.eq_refl _ _) Hi Hok
                  (lmeasure_lt_fuel msg _ Hi)) as H.
    destruct ls as [|[p0 l] rest].
    - destruct H as (st' & E). rewrite E. eexists. reflexivity.
    - destruct H as (st' & E & I' & V' & X' & M'). rewrite E. eexists. split; [reflexivity|].
      inversion Hok; subst. unfold it_has. cbn [it_st it_done]. split; [|split; [symmetry; exact V'|exact M']].
      split; [reflexivity|]. split; [exact I'|]. split; [rewrite <- V'; exact X'|assumption].
  Qed.

  (* draining the iterator: exactly the labels of the expansion, with their offsets *)
  Theorem labels_drain_spec c ls : cwf msg c -> expands (vis msg c) None 0 (pos c) ls ->
    Forall (fun l => label_ok (snd l) = true) ls -> labels_drain msg c = Ok (ls, None).
  Proof.
    intros Hc Hex Hok. unfold labels_drain.
    assert (G : forall ls it acc fuel, it_has it ls -> (N.to_nat (lmeasure (it_st it)) < fuel)%nat ->
              labels_all msg fuel it acc = Ok (rev acc ++ ls, None)).
    { induction ls0 as [|[p0 l] rest IH]; intros it acc fuel Hh Hf; (destruct fuel as [|f]; [lia|]); cbn [labels_all].
      - destruct (labels_next_spec it [] Hh) as (it' & E). rewrite E. cbn [bind]. rewrite app_nil_r. reflexivity.
      - destruct (labels_next_spec it _ Hh) as (it' & E & Hh' & _ & M). rewrite E. cbn [bind].
        rewrite (IH it' ((p0, l) :: acc) f Hh') by lia. cbn [rev]. rewrite <- app_assoc. reflexivity. }
    rewrite (G ls (labels_new c) [] (S (name_fuel c))); [reflexivity| |].
    - split; [reflexivity|]. split; [apply linv_init; assumption|]. split; [exact Hex|exact Hok].
    - pose proof (lmeasure_fuel msg c Hc). cbn [labels_new it_st]. lia.
  Qed.

  (* ---------------------------------------------------------------- NameRef::eq *)
  Fixpoint lab_eq (a b : list (list byte)) : bool :=
    match a, b with
    | [], [] => true
    | x :: a', y :: b' => eq_ignore_ascii_case x y && lab_eq a' b'
    | _, _ => false
    end.

  Lemma lab_eq_refl a : lab_eq a a = true.
  Proof. induction a as [|x a IH]; [reflexivity|]. cbn [lab_eq]. rewrite IH, Bool.andb_true_r. apply (NameOrder.eq_refl x). Qed.

  Lemma nameref_eq_loop_spec : forall ls1 ls2 a b fuel,
    it_has a ls1 -> it_has b ls2 -> vis msg (lc (it_st a)) = vis msg (lc (it_st b)) ->
    (N.to_nat (lmeasure (it_st a)) < fuel)%nat ->
    nameref_eq_loop msg fuel a b = Ok (lab_eq (map snd ls1) (map snd ls2)).
  Proof.
    induction ls1 as [|[p1 l1] r1 IH]; intros ls2 a b fuel Ha Hb HV Hf; (destruct fuel as [|f]; [lia|]); cbn [nameref_eq_loop].
    - destruct (labels_next_spec a [] Ha) as (a' & Ea). rewrite Ea. cbn [bind].
      destruct ls2 as [|[p2 l2] r2].
      + destruct (labels_next_spec b [] Hb) as (b' & Eb). rewrite Eb. reflexivity.
      + destruct (labels_next_spec b _ Hb) as (b' & Eb & _). rewrite Eb. reflexivity.
    - destruct (labels_next_spec a _ Ha) as (a' & Ea & Ha' & Va & Ma). rewrite Ea. cbn [bind].
      destruct ls2 as [|[p2 l2] r2].
      + destruct (labels_next_spec b [] Hb) as (b' & Eb). rewrite Eb. reflexivity.
      + destruct (labels_next_spec b _ Hb) as (b' & Eb & Hb' & Vb & Mb). rewrite Eb. cbn [bind map snd lab_eq].
        destruct (p1 =? p2) eqn:Ep.
        * (* same label position in the same buffer: the remaining labels coincide *)
          apply N.eqb_eq in Ep. subst p2.
          destruct Ha as (_ & _ & Xa & _), Hb as (_ & _ & Xb & _). rewrite <- HV in Xb.
          (* both expansions pass through the label at p1 *)
          assert (Hsame : (p1, l1) :: r1 = (p1, l2) :: r2).
          { clear - Xa Xb.
            assert (G : forall V q0 h p ls, expands V q0 h p ls -> forall x rest, ls = x :: rest ->
                        exists q0' h', expands V q0' h' (fst x) ls).
            { induction 1 as [| q0 h p bb ls Hg Hbb Hle Hex IH' | q0 h p bb1 bb2 ls Hg1 H192 Hg2 tgt q Hlt Hh Hex IH']; intros x rest E.
              - discriminate.
              - inversion E; subst. cbn [fst]. exists q0, h. eapply ex_label; eassumption.
              - apply (IH' x rest E). }
            destruct (G _ _ _ _ _ Xa _ _ (@Logic.eq_refl _ _)) as (qa & ha & Ya). destruct (G _ _ _ _ _ Xb _ _ (@Logic.eq_refl _ _)) as (qb & hb & Yb).
            cbn [fst] in *. exact (expands_det _ _ _ _ _ Ya _ _ _ Yb). }
          inversion Hsame; subst. change (eq_ignore_ascii_case l2 l2) with (name_eq l2 l2). rewrite NameOrder.eq_refl, lab_eq_refl. reflexivity.
        * destruct (eq_ignore_ascii_case l1 l2) eqn:El; cbn [negb andb]; [|reflexivity].
          apply IH; [assumption|assumption|congruence|lia].
  Qed.

  Lemma eq_ci_app_dot : forall x y a b, nodot x -> nodot y ->
    eq_ignore_ascii_case (x ++ x2e :: a) (y ++ x2e :: b) = eq_ignore_ascii_case x y && eq_ignore_ascii_case a b.
  Proof.
    induction x as [|c x IH]; intros [|d y] a b Hx Hy; cbn [app eq_ignore_ascii_case].
    - reflexivity.
    - (* "." vs a label byte: different after folding *)
      inversion Hy as [|? ? Hd _]; subst.
      assert (E : (to_ascii_lowercase (bN x2e) =? to_ascii_lowercase (bN d)) = false).
      { destruct d; try reflexivity; vm_compute in Hd; exfalso; apply Hd; reflexivity. }
      rewrite E. reflexivity.
    - inversion Hx as [|? ? Hc _]; subst.
      assert (E : (to_ascii_lowercase (bN c) =? to_ascii_lowercase (bN x2e)) = false).
      { destruct c; try reflexivity; vm_compute in Hc; exfalso; apply Hc; reflexivity. }
      rewrite E. reflexivity.
    - inversion Hx; inversion Hy; subst. rewrite IH by assumption. rewrite Bool.andb_assoc. reflexivity.
  Qed.

  Lemma lab_eq_text : forall A B, Forall nodot A -> Forall nodot B ->
    lab_eq A B = eq_ignore_ascii_case (text_of A) (text_of B).
  Proof.
    induction A as [|x A IH]; intros [|y B] HA HB; unfold text_of in *; cbn [map concat lab_eq].
    - reflexivity.
    - destruct (y ++ [x2e]) eqn:E; [destruct y; discriminate|reflexivity].
    - destruct (x ++ [x2e]) eqn:E; [destruct x; discriminate|reflexivity].
    - inversion HA; inversion HB; subst. rewrite <- !app_assoc. cbn [app]. rewrite eq_ci_app_dot by assumption.
      rewrite IH by assumption. reflexivity.
  Qed.

  Lemma eq_ci_root_nonroot b B : b <> [] -> nodot b ->
    eq_ignore_ascii_case (text_of []) (text_of (b :: B)) = eq_ignore_ascii_case (join_labels []) (join_labels (b :: B)) /\
    eq_ignore_ascii_case (text_of (b :: B)) (text_of []) = eq_ignore_ascii_case (join_labels (b :: B)) (join_labels []).
  Proof.
    intros Hb Hn. destruct b as [|b0 b']; [congruence|]. inversion Hn as [|? ? H0 _]; subst.
    assert (E : (to_ascii_lowercase (bN x2e) =? to_ascii_lowercase (bN b0)) = false)
      by (destruct b0; try reflexivity; vm_compute in H0; exfalso; apply H0; reflexivity).
    assert (E' : (to_ascii_lowercase (bN b0) =? to_ascii_lowercase (bN x2e)) = false)
      by (destruct b0; try reflexivity; vm_compute in H0; exfalso; apply H0; reflexivity).
    unfold join_labels, text_of. cbn [map concat app eq_ignore_ascii_case]. rewrite E, E'. split; reflexivity.
  Qed.

  (* NameRef::eq on two names of one message that both decode = (decoded a == decoded b) *)
  Theorem nameref_eq_is_decoded_eq nk c1 c2 t1 t2 c1' c2' :
    cwf msg c1 -> cwf msg c2 -> vis msg c1 = vis msg c2 ->
    read_name msg nk c1 = Ok (t1, c1') -> read_name msg nk c2 = Ok (t2, c2') ->
    nameref_eq msg c1 c2 = Ok (name_eq t1 t2).
  Proof.
    intros H1 H2 HV E1 E2.
    destruct (read_name_sound msg nk _ _ _ H1 E1) as (ls1 & X1 & O1 & -> & _).
    destruct (read_name_sound msg nk _ _ _ H2 E2) as (ls2 & X2 & O2 & -> & _).
    unfold nameref_eq. rewrite (nameref_eq_loop_spec ls1 ls2).
    - f_equal. unfold name_eq.
      assert (ND : forall ls, Forall (fun l : N * list byte => label_ok (snd l) = true) ls -> Forall nodot (map snd ls)).
      { intros ls H. apply Forall_forall. intros l Hl. apply in_map_iff in Hl. destruct Hl as ([p l'] & <- & Hin).
        rewrite Forall_forall in H. apply (label_ok_nodot _ (H _ Hin)). }
      rewrite (lab_eq_text _ _ (ND _ O1) (ND _ O2)).
      (* join_labels = text_of except for the root, where both sides are "." *)
      pose proof (ND _ O1) as N1. pose proof (ND _ O2) as N2.
      assert (NE : forall ls, Forall (fun l : N * list byte => label_ok (snd l) = true) ls -> Forall (fun l => l <> []) (map snd ls)).
      { intros ls H. apply Forall_forall. intros l Hl. apply in_map_iff in Hl. destruct Hl as ([p l'] & <- & Hin).
        rewrite Forall_forall in H. apply (label_ok_nodot _ (H _ Hin)). }
      pose proof (NE _ O1) as E1'. pose proof (NE _ O2) as E2'.
      destruct (map snd ls1) as [|a A], (map snd ls2) as [|b B]; try reflexivity.
      + inversion N2 as [|? ? Hb _]; inversion E2' as [|? ? Hbn _]; subst. exact (proj1 (eq_ci_root_nonroot b B Hbn Hb)).
      + inversion N1 as [|? ? Ha _]; inversion E1' as [|? ? Han _]; subst. exact (proj2 (eq_ci_root_nonroot a A Han Ha)).
    - split; [reflexivity|]. split; [apply linv_init; assumption|]. split; assumption.
    - split; [reflexivity|]. split; [apply linv_init; assumption|]. split; assumption.
    - exact HV.
    - pose proof (lmeasure_fuel msg c1 H1). cbn [labels_new it_st]. lia.
  Qed.
End E.
