(* Proofs/TimedTyped.v — ClientImpl::query_rrset::<D> as a whole (Timed.v: rrset_of_raw, over ANY raw query), in
   every world: refusals, and the typed result as record-set extraction of the raw result (C16). *)
From RsdnsModel Require Import Base GenConst GenTypes GenHeader GenClient Client RecordSet Timed.
From Coq Require Import ZifyBool ZifyN ZifyNat.
Open Scope N_scope.

(* C16: the typed query is refused without a configured buffer size (BadParam) or for a class that is
   not a data class (UnsupportedClass) before anything is sent; otherwise it returns exactly what
   record-set extraction yields on the bytes the raw query returns for the same exchange — the raw
   query for D's type into a buffer of exactly the configured size — and the raw query's error as it is *)
Theorem rrset_is_extraction_of_raw {W} std q bs (w0 : W) raw :
  0 < bs -> class_is_data (tq_class q) = true ->
  rrset_of_raw std q bs w0 raw =
  match raw bs with
  | (wire, ev, Ok d, t) => (wire, ev, from_msg d (tq_type q), t)
  | (wire, ev, r, t) => (wire, ev, retype r Panic, t)
  end.
Proof.
  intros Hbs Hc. unfold rrset_of_raw.
  assert (H1 : (if std then std_rrset_refuse bs 0 0 else async_rrset_refuse bs 0 0) = false).
  { destruct std; unfold std_rrset_refuse, async_rrset_refuse; lia. }
  rewrite H1, Hc.
  assert (H2 : (if std then std_rrset_bad_class true else async_rrset_bad_class true) = false) by (destruct std; reflexivity).
  rewrite H2.
  assert (H3 : (if std then std_take_buf_len 0 bs else async_take_buf_len 0 bs) = bs) by (destruct std; reflexivity).
  rewrite H3.
  destruct (raw bs) as [[[wire ev] r] t].
  destruct r as [d|e| | | |]; try reflexivity.
  assert (H4 : (if std then std_rrset_parse_len else async_rrset_parse_len) (lenN d) bs = lenN d) by (destruct std; reflexivity).
  rewrite H4. unfold lenN. rewrite Nat2N.id, firstn_all. reflexivity.
Qed.

Theorem rrset_refused_sends_nothing {W} std q bs (w0 : W) raw :
  bs = 0 \/ class_is_data (tq_class q) = false ->
  exists e, rrset_of_raw std q bs w0 raw = (w0, [], Err e, tq_start q) /\
            (e = BadParam \/ e = UnsupportedClass (tq_class q)).
Proof.
  intros H. unfold rrset_of_raw.
  assert (H1 : (if std then std_rrset_refuse bs 0 0 else async_rrset_refuse bs 0 0) = (bs =? 0)) by (destruct std; reflexivity).
  rewrite H1. destruct (bs =? 0) eqn:E.
  - eexists. split; [reflexivity|left; reflexivity].
  - destruct H as [H|H]; [lia|]. rewrite H.
    assert (H2 : (if std then std_rrset_bad_class false else async_rrset_bad_class false) = true) by (destruct std; reflexivity).
    rewrite H2. eexists. split; [reflexivity|right; reflexivity].
Qed.
