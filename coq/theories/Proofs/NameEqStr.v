(* Proofs/NameEqStr.v — `name == &str` (PartialEq<&str> of both name types) on a decoded name is
   case-insensitive equality with the canonical spelling of the text (root dot optional in the
   text); and the name of a decoded question always has that canonical shape.  Used by C12/C18. *)
From Coq Require Import ZArith.
From RsdnsModel Require Import Base GenConst GenHeader GenReader Cursor Names Labels Header Tracker RData Reader.
From RsdnsModel.Spec Require Import WireName NameText.
From RsdnsModel.Proofs Require Import CursorSafe ListN LabelsTotal LabelsSound NameText NameOrder NoUB.
From Coq Require Import ZifyBool ZifyN ZifyNat.
Open Scope N_scope.

Lemma eq_ci_snoc : forall a b x y,
  eq_ignore_ascii_case (a ++ [x]) (b ++ [y]) =
  eq_ignore_ascii_case a b && (to_ascii_lowercase (bN x) =? to_ascii_lowercase (bN y)).
Proof.
  induction a as [|c a IH]; intros [|d b] x y; cbn [app eq_ignore_ascii_case].
  - rewrite Bool.andb_true_r. reflexivity.
  - destruct (b ++ [y]) eqn:E; [destruct b; discriminate|]. rewrite Bool.andb_false_r. reflexivity.
  - destruct (a ++ [x]) eqn:E; [destruct a; discriminate|]. rewrite Bool.andb_false_r. reflexivity.
  - rewrite IH, Bool.andb_assoc. reflexivity.
Qed.

Lemma byte_46 b : bN b =? 46 = true -> b = x2e.
Proof. intro E. destruct b; try reflexivity; vm_compute in E; discriminate. Qed.

Lemma ends_with_dot_snoc s : ends_with_dot s = true -> exists t, s = t ++ [x2e].
Proof.
  unfold ends_with_dot. destruct (rev s) as [|b r] eqn:E; [discriminate|]. intro H. apply byte_46 in H. subst b.
  exists (rev r). rewrite <- (rev_involutive s), E. reflexivity.
Qed.
Lemma ends_with_dot_false s y : ends_with_dot (s ++ [y]) = false -> bN y =? 46 = false.
Proof. unfold ends_with_dot. rewrite rev_app_distr. cbn. tauto. Qed.

(* name == text, for a name in canonical form (ending with the root dot) *)
Theorem name_eq_str_spec t s :
  name_eq_str (t ++ [x2e]) s = name_eq (t ++ [x2e]) (canon_text s).
Proof.
  unfold name_eq_str, name_eq.
  destruct (is_root_text (t ++ [x2e])) eqn:El.
  - (* the name is the root *)
    assert (t = []) by (destruct t as [|a [|b t]]; [reflexivity|discriminate|discriminate]). subst t. cbn [app].
    destruct (is_root_text s) eqn:Er; cbn [andb negb].
    + destruct s as [|y [|z s]]; try discriminate. apply byte_46 in Er. subst y. reflexivity.
    + destruct s as [|y s]; [reflexivity|].
      destruct (exists_last (l := y :: s) ltac:(discriminate)) as (s' & z & Hs). rewrite Hs.
      rewrite (canon_text_last (s' ++ [z])) by (destruct s'; discriminate). rewrite last_last.
      destruct (bN z =? 46) eqn:Ez.
      * apply byte_46 in Ez. subst z. destruct s' as [|a s'].
        { cbn [app] in Hs. rewrite Hs in Er. discriminate. }
        change ([x2e]) with ([] ++ [x2e]) at 1. rewrite eq_ci_snoc. cbn [eq_ignore_ascii_case andb]. reflexivity.
      * change ([x2e]) with ([] ++ [x2e]) at 1. rewrite <- app_assoc. change ([z] ++ [x2e]) with ([z] ++ [x2e]).
        rewrite app_assoc, eq_ci_snoc. destruct (s' ++ [z]) eqn:E; [destruct s'; discriminate|reflexivity].
  - destruct (is_root_text s) eqn:Er; cbn [andb negb].
    + (* the text is the root, the name is not *)
      destruct s as [|y [|z s]]; try discriminate. apply byte_46 in Er. subst y.
      change (canon_text [x2e]) with ([] ++ [x2e]). rewrite eq_ci_snoc.
      destruct t as [|a t]; [discriminate|reflexivity].
    + assert (Hne : match t ++ [x2e] with [] => true | _ => false end = false) by (destruct t; reflexivity).
      rewrite Hne. cbn [negb andb].
      destruct (ends_with_dot s) eqn:Ed; cbn [negb].
      * destruct (ends_with_dot_snoc s Ed) as [s' ->].
        rewrite (canon_text_last (s' ++ [x2e])) by (destruct s'; discriminate). rewrite last_last. reflexivity.
      * rewrite removelast_last.
        destruct s as [|y s].
        { cbn. destruct t; [discriminate|]. cbn. reflexivity. }
        destruct (exists_last (l := y :: s) ltac:(discriminate)) as (s' & z & Hs). rewrite Hs in *.
        rewrite (canon_text_last (s' ++ [z])) by (destruct s'; discriminate). rewrite last_last.
        rewrite (ends_with_dot_false _ _ Ed). rewrite eq_ci_snoc.
        change (to_ascii_lowercase (bN x2e) =? to_ascii_lowercase (bN x2e)) with true. rewrite Bool.andb_true_r. reflexivity.
Qed.

Lemma join_labels_snoc ls : exists t, join_labels ls = t ++ [x2e].
Proof.
  destruct ls as [|l ls]; [exists []; reflexivity|].
  assert (H : last (join_labels (l :: ls)) x00 = x2e) by (apply (concat_dot_last (l :: ls)); discriminate).
  assert (Hne : join_labels (l :: ls) <> []) by (cbn; destruct l; discriminate).
  destruct (exists_last Hne) as (t & z & Hz). rewrite Hz, last_last in H. subst z. exists t. exact Hz.
Qed.

Section Q.
  Variable msg : list byte.

  (* the name of a decoded question is a decoded name: canonical, valid *)
  Lemma question_name_shape single r r2 n qt qc :
    cwf msg (r_cur r) -> rd_question msg single false r = (r2, Ok (OQuestion n qt qc)) ->
    (exists t, n = t ++ [x2e]) /\ valid_text n = true.
  Proof.
    intros Hc. unfold rd_question. destruct (r_done r); [discriminate|].
    destruct (questions_left (r_tr r)) as [left| | | | |]; try discriminate.
    destruct (if single then q_not_single left else q_none_left left); [discriminate|].
    unfold run, m_question, after_question, mbind, lift.
    destruct (read_name msg Inline (r_cur r)) as [[nm c1]| | | | |] eqn:En; try discriminate.
    destruct (c_u16 msg c1) as [[a c2]| | | | |]; try discriminate.
    destruct (c_u16 msg c2) as [[b c3]| | | | |]; try discriminate.
    cbn [mret]. destruct (question_read _ _); try discriminate.
    intro H; inversion H; subst.
    destruct (read_name_sound msg Inline _ _ _ Hc En) as (ls & _ & Hall & -> & Hw & _).
    split; [apply join_labels_snoc|].
    apply join_labels_valid; [|assumption]. apply Forall_forall. intros l Hl. apply in_map_iff in Hl.
    destruct Hl as ([p l'] & <- & Hin). rewrite Forall_forall in Hall. apply (Hall _ Hin).
  Qed.
End Q.
