(* Proofs/Gates.v — RecordSet::from_msg never turns a non-answer into an answer: for ALL byte
   strings, a returned record set implies a response (QR=1) that is not truncated, carries
   exactly one question, fits 65535 octets, and whose 12-bit response code — header RCODE and,
   when an OPT record is found after the answer section, its extended-RCODE octet — is zero. *)
From Coq Require Import ZArith.
From RsdnsModel Require Import Base GenConst GenCursor GenHeader GenTypes GenTracker GenReader GenSpec.
From RsdnsModel Require Import Cursor Names Labels Header Tracker RData Reader RecordSet.
From Coq Require Import ZifyBool ZifyN ZifyNat.
Open Scope N_scope.

Lemma lor_zero a b : N.lor a b = 0 -> a = 0 /\ b = 0.
Proof. apply N.lor_eq_0_iff. Qed.

Lemma rcode_extended_zero base ext :
  ext < 256 -> rcode_extended base ext = 0 -> N.land base 15 = 0 /\ ext = 0.
Proof.
  unfold rcode_extended. intros He H. apply lor_zero in H. destruct H as [H1 H2]. split; [assumption|].
  rewrite N.shiftl_mul_pow2 in H2. change (2 ^ 4) with 16 in H2.
  rewrite N.mod_small in H2 by lia. lia.
Qed.

Lemma opt_ext_bound ttl : opt_rcode_extension ttl < 256.
Proof. unfold opt_rcode_extension. apply N.mod_lt. discriminate. Qed.

Lemma flag_rcode_idem f : N.land (flag_rcode f) 15 = flag_rcode f.
Proof. unfold flag_rcode. rewrite <- N.land_assoc. reflexivity. Qed.

(* the extension octet of the OPT record that read_opt returns *)
Lemma read_opt_ext msg fuel : forall r r' o,
  read_opt msg fuel r = (r', Ok (Some o)) -> opt_ext o < 256.
Proof.
  induction fuel as [|f IH]; intros r r' o; cbn [read_opt]; [discriminate|].
  destruct (rd_records_count r) as [[]| | | | |]; try discriminate.
  destruct (0 <? n); [|discriminate]. unfold bind2 at 1.
  destruct (rd_marker msg r) as [r1 x]. destruct x as [v| | | | |]; try discriminate.
  destruct v; try discriminate.
  destruct (m_rtype m =? T_OPT).
  - unfold bind2. destruct (rd_opt m r1) as [r2 y] eqn:E. destruct y as [v2| | | | |]; try discriminate.
    destruct v2; try discriminate. intro H; inversion H; subst.
    (* rd_opt builds the Opt with opt_from_msg *)
    unfold rd_opt in E. destruct (r_done r1); [discriminate|]. destruct (negb _); [discriminate|]. destruct (negb _); [discriminate|].
    unfold after_data, run in E. destruct ((do* _ <- lift_c (fun c => c_skip c (m_rdlen m)); mret (OOpt (opt_from_msg (m_rclass m) (m_ttl m)))) (r_cur r1)) as [c' z] eqn:Ez.
    unfold mbind, mret, lift_c, lift in Ez. destruct (c_skip (r_cur r1) (m_rdlen m)); cbn in Ez; inversion Ez; subst; try discriminate.
    destruct (section_read _ _ _); inversion E; subst. cbn. apply opt_ext_bound.
  - unfold bind2. destruct (rd_skip_data m r1) as [r2 y]. destruct y; try discriminate. apply IH.
Qed.

Theorem gates_sound msg ty rs :
  from_msg msg ty = Ok rs ->
  lenN msg <= 65535 /\
  exists hd, snd (read_header msg (c_new msg)) = Ok hd /\
    flag_qr (h_flags hd) = true /\ flag_tc (h_flags hd) = false /\ h_qd hd = 1 /\
    flag_rcode (h_flags hd) = 0.
Proof.
  unfold from_msg, reader_new. destruct (msg_too_long (lenN msg)) eqn:Et; [cbn [bind]; discriminate|]. cbn [bind].
  assert (Hlen : lenN msg <= 65535) by (unfold msg_too_long in Et; lia).
  unfold rd_header, run, latch. cbn [r_cur].
  destruct (read_header msg (c_new msg)) as [c1 h] eqn:Eh. cbn [fst snd].
  destruct h as [hd| | | | |]; cbn [bind snd fst]; try discriminate.
  destruct (negb (flag_qr (h_flags hd))) eqn:Eq; [discriminate|].
  destruct (flag_tc (h_flags hd)) eqn:Etc; [discriminate|].
  unfold rd_question. cbn [r_done with_tr with_cur r_tr].
  unfold questions_left, left, checked_sub, tr_set, tr_default. cbn [qd set_total total read].
  destruct (0 <=? h_qd hd) eqn:E0; [|lia]. rewrite N.sub_0_r.
  destruct (q_not_single (h_qd hd)) eqn:Es; [discriminate|].
  assert (Hqd : h_qd hd = 1) by (unfold q_not_single in Es; lia).
  match goal with |- context [after_question ?p] => destruct (after_question p) as [r2 q] end.
  destruct q as [qv| | | | |]; cbn [bind]; try discriminate. destruct qv; try discriminate.
  match goal with |- context [read_answer_headers msg ?f ?r ?a] => destruct (read_answer_headers msg f r a) as [r3 hs] end.
  destruct hs as [hs| | | | |]; cbn [bind]; try discriminate.
  destruct (read_opt msg (rec_fuel msg) r3) as [r4 o] eqn:Eo.
  destruct o as [o| | | | |]; cbn [bind]; try discriminate.
  match goal with |- context [negb (?rc =? 0)] => destruct (negb (rc =? 0)) eqn:Erc; [discriminate|] end.
  intros _. split; [assumption|]. exists hd. split; [reflexivity|].
  split; [apply Bool.negb_false_iff in Eq; exact Eq|]. split; [exact Etc|]. split; [assumption|].
  destruct o as [x|].
  - apply read_opt_ext in Eo. apply Bool.negb_false_iff, N.eqb_eq in Erc.
    apply rcode_extended_zero in Erc; [|assumption]. destruct Erc as [H1 _]. rewrite flag_rcode_idem in H1. assumption.
  - apply Bool.negb_false_iff, N.eqb_eq in Erc. assumption.
Qed.

(* the specific errors, in the documented order: message type, truncation, question count *)
Theorem gate_errors msg ty hd c1 :
  lenN msg <= 65535 -> read_header msg (c_new msg) = (c1, Ok hd) ->
  (flag_qr (h_flags hd) = false -> from_msg msg ty = Err (BadMessageType false)) /\
  (flag_qr (h_flags hd) = true -> flag_tc (h_flags hd) = true -> from_msg msg ty = Err MessageTruncated) /\
  (flag_qr (h_flags hd) = true -> flag_tc (h_flags hd) = false -> h_qd hd <> 1 ->
   from_msg msg ty = Err (BadQuestionsCount (h_qd hd))).
Proof.
  intros Hlen Eh. unfold from_msg, reader_new.
  assert (Et : msg_too_long (lenN msg) = false) by (unfold msg_too_long; lia). rewrite Et. cbn [bind].
  unfold rd_header, run, latch. cbn [r_cur]. rewrite Eh. cbn [fst snd bind].
  repeat split.
  - intro H. rewrite H. reflexivity.
  - intros H1 H2. rewrite H1, H2. reflexivity.
  - intros H1 H2 H3. rewrite H1, H2. cbn [negb].
    unfold rd_question. cbn [r_done with_tr with_cur r_tr].
    unfold questions_left, left, checked_sub, tr_set, tr_default. cbn [qd set_total total read].
    destruct (0 <=? h_qd hd) eqn:E0; [|lia]. rewrite N.sub_0_r.
    assert (Hs : q_not_single (h_qd hd) = true) by (unfold q_not_single; lia). rewrite Hs. reflexivity.
Qed.
