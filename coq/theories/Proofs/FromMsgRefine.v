(* Proofs/FromMsgRefine.v — RecordSet::<D>::from_msg over a message the linear pass parses
   completely IS the specification function over the pass's items: the gates; the answer headers
   are exactly the records of the answer section, in order, each with its borrowed owner name and
   its marker; the OPT record consulted for the extended RCODE is the FIRST record of type OPT
   behind the answer section; then the chase (Proofs/Chase.v) over those headers starting at the
   question name, and the decoded final name. *)
From Coq Require Import ZArith.
From RsdnsModel Require Import Base GenConst GenCursor GenHeader GenTypes GenTracker GenReader GenSpec Cursor Names Labels Header Tracker RData Reader RecordSet.
From RsdnsModel.Spec Require Import WireName LinearPass.
From RsdnsModel.Proofs Require Import CursorSafe ListN SpecExec ParseSpec TrackerRefine ReaderTotal ReaderRefine.
From Coq Require Import ZifyBool ZifyN ZifyNat.
Open Scope N_scope.

Section FR.
  Variables (msg : list byte) (nq an ns ar : N) (qs rs : list aitem) (e1 e2 : N).
  Hypothesis Hp : parsed msg nq an ns ar qs rs e1 e2.
  Hypothesis Hcq : lenN qs = nq.
  Hypothesis Hcr : lenN rs = an + ns + ar.

  Notation RS := (RState msg nq an ns ar qs rs e2).
  Notation MK := (mk_of nq an ns ar qs rs e2).
  Definition PP : N -> N := P qs rs e2.

  (* the answer header collected for record k (0-based): borrowed owner name + marker *)
  Definition hdr_of (k : N) (it : aitem) : hdr := Some (c_with_pos msg (PP (nq + k)), MK (nq + k) it).
  Fixpoint hdrs (n : nat) (k : N) : list hdr :=
    match n with
    | O => []
    | S m => match getN rs k with Some it => hdr_of k it :: hdrs m (k + 1) | None => [] end
    end.
  (* the first OPT record among records k, k+1, ... *)
  Fixpoint first_opt (n : nat) (k : N) : option opt :=
    match n with
    | O => None
    | S m => match getN rs k with
             | Some it => if a_type it =? T_OPT then Some (opt_from_msg (a_class it) (a_ttl it)) else first_opt m (k + 1)
             | None => None
             end
    end.

  Lemma whole_eq c : whole msg c -> c = c_with_pos msg (pos c).
  Proof. destruct c as [l p o]. unfold whole, c_with_pos. cbn. intros [-> ->]. reflexivity. Qed.

  Lemma rs_cur r idx hw : RS r idx hw -> r_cur r = c_with_pos msg (PP idx) /\ idx <= hw.
  Proof. intros (Hw & Hpos & (I1 & _) & _). split; [|exact I1]. rewrite (whole_eq _ Hw), Hpos. reflexivity. Qed.

  Lemma answers_loop : forall n fuel r k hw acc, RS r (nq + k) hw -> k + N.of_nat n = an -> (n < fuel)%nat ->
    exists r', read_answer_headers msg fuel r acc = (r', Ok (acc ++ hdrs n k)) /\ RS r' (nq + an) (N.max hw (nq + an)).
  Proof.
    induction n as [|n IH]; intros fuel r k hw acc Hs Hk Hf; (destruct fuel as [|f]; [lia|]); cbn [read_answer_headers];
      destruct (counts_reader_any msg nq an ns ar qs rs e1 e2 Hp r _ _ Hs) as (_ & C0 & _); rewrite C0;
      unfold rd, sec_start, sec_count, lin; cbn [l_an l_ns l_ar].
    - assert (E : (0 <? an - N.min (nq + k - nq - 0) an) = false) by lia. rewrite E. exists r. cbn [hdrs]. rewrite app_nil_r.
      split; [reflexivity|]. destruct (rs_cur _ _ _ Hs) as [_ Hle].
      replace (nq + an) with (nq + k) by lia. replace (N.max hw (nq + k)) with hw by lia. exact Hs.
    - assert (E : (0 <? an - N.min (nq + k - nq - 0) an) = true) by lia. rewrite E.
      destruct (getN_Some rs k ltac:(lia)) as [it Hg].
      destruct (header_flavours_any msg nq an ns ar qs rs e1 e2 Hp r (nq + k) hw it Hs ltac:(lia)) as (_ & (r1 & E1 & Hm) & _);
        [replace (nq + k - nq) with k by lia; exact Hg|].
      unfold bind2. rewrite E1.
      destruct (data_flavours_any msg nq an ns ar qs rs e1 e2 Hp r1 (nq + k) hw it Hm) as ((r2 & E2 & S2) & _). rewrite E2.
      replace (nq + k + 1) with (nq + (k + 1)) in S2 by lia.
      destruct (IH f r2 (k + 1) _ (acc ++ [Some (r_cur r, MK (nq + k) it)]) S2 ltac:(lia) ltac:(lia)) as (r' & E' & S').
      exists r'. split.
      + rewrite E'. cbn [hdrs]. rewrite Hg. unfold hdr_of. destruct (rs_cur _ _ _ Hs) as [-> _]. rewrite <- app_assoc. reflexivity.
      + replace (N.max hw (nq + an)) with (N.max (N.max hw (nq + (k + 1))) (nq + an)) by lia. exact S'.
  Qed.

  Lemma opt_loop : forall n fuel r k hw, RS r (nq + k) hw -> k + N.of_nat n = an + ns + ar -> (n < fuel)%nat ->
    exists r', read_opt msg fuel r = (r', Ok (first_opt n k)) /\ whole msg (r_cur r').
  Proof.
    induction n as [|n IH]; intros fuel r k hw Hs Hk Hf; (destruct fuel as [|f]; [lia|]); cbn [read_opt];
      destruct (counts_reader_any msg nq an ns ar qs rs e1 e2 Hp r _ _ Hs) as (_ & _ & _ & _ & Ca); rewrite Ca;
      unfold rd, sec_start, sec_count, lin; cbn [l_an l_ns l_ar].
    - match goal with |- context [0 <? ?t] => assert (E : (0 <? t) = false) by lia; rewrite E end.
      exists r. split; [reflexivity|]. apply Hs.
    - match goal with |- context [0 <? ?t] => assert (E : (0 <? t) = true) by lia; rewrite E end.
      destruct (getN_Some rs k ltac:(lia)) as [it Hg].
      destruct (header_flavours_any msg nq an ns ar qs rs e1 e2 Hp r (nq + k) hw it Hs ltac:(lia)) as ((r1 & E1 & Hm) & _);
        [replace (nq + k - nq) with k by lia; exact Hg|].
      unfold bind2. rewrite E1. cbn [first_opt]. rewrite Hg. cbn [mk_of m_rtype].
      destruct (data_flavours_any msg nq an ns ar qs rs e1 e2 Hp r1 (nq + k) hw it Hm) as ((r2 & E2 & S2) & _ & Hopt & _).
      destruct (a_type it =? T_OPT) eqn:Et.
      + apply N.eqb_eq in Et. destruct (Hopt Et) as (r3 & E3 & S3). cbv zeta in E3. fold (MK (nq + k) it). rewrite E3.
        exists r3. split; [reflexivity|apply S3].
      + fold (MK (nq + k) it). rewrite E2. replace (nq + k + 1) with (nq + (k + 1)) in S2 by lia.
        exact (IH f r2 (k + 1) _ S2 ltac:(lia) ltac:(lia)).
  Qed.

  (* ---- from_msg ---- *)
  Variable h : header.
  Hypothesis Hrh : read_header msg (c_new msg) = (c_set_pos (c_new msg) 12, Ok h).
  Hypothesis Hh : h_qd h = nq /\ h_an h = an /\ h_ns h = ns /\ h_ar h = ar.

  Definition answer_headers : list hdr := hdrs (N.to_nat an) 0.
  Definition the_opt : option opt := first_opt (N.to_nat (ns + ar)) an.
  Definition the_rcode : N :=
    match the_opt with
    | Some x => rcode_extended (flag_rcode (h_flags h)) (opt_ext x)
    | None => flag_rcode (h_flags h)
    end.

  Theorem from_msg_spec ty q : nq = 1 -> getN qs 0 = Some q ->
    flag_qr (h_flags h) = true -> flag_tc (h_flags h) = false ->
    exists r4, whole msg (r_cur r4) /\
      from_msg msg ty =
      if negb (the_rcode =? 0) then Err (BadResponseCode the_rcode) else
      let* (name, ttl, data) := chase msg (S (length answer_headers)) ty r4 (c_with_pos msg 12) (a_class q) answer_headers in
      let* (t, _) := read_name msg Heap name in
      Ok (mkRRset t (a_class q) ttl data).
  Proof.
    intros Hone Hq Hqr Htc. destruct Hh as (H1 & H2 & H3 & H4). pose proof Hp as (A1 & A2 & _).
    unfold from_msg, reader_new, msg_too_long. assert (El : (65535 <? lenN msg) = false) by lia. rewrite El. cbn [bind].
    unfold rd_header, run. cbn [r_cur]. rewrite Hrh. unfold latch. cbn [snd fst with_cur with_tr r_tr r_cur r_done].
    cbn [bind]. rewrite Hqr, Htc. cbn [negb]. unfold with_tr, with_cur. cbn [r_cur r_tr r_done].
    set (r1 := mkReader (c_set_pos (c_new msg) 12) (tr_set tr_default h) false).
    assert (S1 : RS r1 0 0).
    { apply (rstate_start_any msg nq an ns ar qs rs e1 e2 Hp h); try assumption; [|reflexivity]. split; reflexivity. }
    destruct (question_flavours_any msg nq an ns ar qs rs e1 e2 Hp true true r1 0 0 q S1 Hq ltac:(lia) ltac:(discriminate)) as (r2 & o & Eq & S2 & Ho).
    rewrite Eq. cbn [bind]. subst o.
    replace (0 + 1) with (nq + 0) in S2 by lia.
    destruct (answers_loop (N.to_nat an) (rec_fuel msg) r2 0 _ [] S2 ltac:(lia)) as (r3 & E3 & S3).
    { unfold rec_fuel. pose proof (rs_len_le_any msg nq an ns ar qs rs e1 e2 Hp). lia. }
    cbn [app] in E3. rewrite E3. cbn [bind].
    replace (N.max (0 + 1) (nq + an)) with (N.max 1 (nq + an)) in S3 by lia.
    destruct (opt_loop (N.to_nat (ns + ar)) (rec_fuel msg) r3 an _ S3 ltac:(lia)) as (r4 & E4 & W4).
    { unfold rec_fuel. pose proof (rs_len_le_any msg nq an ns ar qs rs e1 e2 Hp). lia. }
    rewrite E4. cbn [bind]. exists r4. split; [exact W4|].
    fold the_opt. fold the_rcode. fold answer_headers.
    destruct (rs_cur _ _ _ S1) as [Ec _]. rewrite Ec. unfold PP.
    rewrite (P_0_any msg nq an ns ar qs rs e1 e2 Hp). reflexivity.
  Qed.

  (* the response-code gate, with the OPT record that supplies the upper bits identified *)
  Corollary from_msg_rcode_gate ty q : nq = 1 -> getN qs 0 = Some q ->
    flag_qr (h_flags h) = true -> flag_tc (h_flags h) = false ->
    (the_rcode <> 0 -> from_msg msg ty = Err (BadResponseCode the_rcode)) /\
    (forall s, from_msg msg ty = Ok s -> the_rcode = 0).
  Proof.
    intros H1 H2 H3 H4. destruct (from_msg_spec ty q H1 H2 H3 H4) as (r4 & _ & E). rewrite E. split.
    - intro Hn. assert (En : negb (the_rcode =? 0) = true) by lia. rewrite En. reflexivity.
    - intros s. destruct (the_rcode =? 0) eqn:En; [intros _; lia|cbn [negb]; discriminate].
  Qed.
End FR.
