(* Proofs/LabelsComplete.v — completeness of name decoding: EVERY name that has a legal RFC 1035
   4.1.4 expansion on the visible buffer (Spec/WireName.v: pointers only to prior positions, at
   most 32 of them), with valid labels and at most 255 octets, is accepted — by both name types
   and by skipping — and decodes to the text of exactly those labels, resuming where the spec
   says.  Together with LabelsSound.v: the decoder accepts exactly the legal names. *)
From Coq Require Import ZArith.
From RsdnsModel Require Import Base GenConst GenCursor GenLabels GenNames GenSpec Cursor Names Labels.
From RsdnsModel.Spec Require Import WireName.
From RsdnsModel.Proofs Require Import CursorSafe ListN LabelsTotal LabelsSound Views RoundTrip.
From Coq Require Import ZifyBool ZifyN ZifyNat.
Open Scope N_scope.

Lemma getN_firstn_inv {A} (l : list A) n i a : getN (firstn (N.to_nat n) l) i = Some a -> i < n /\ getN l i = Some a.
Proof.
  intro H. assert (Hi : i < n).
  { apply getN_lt in H. unfold lenN in H. rewrite firstn_length in H. lia. }
  split; [assumption|]. rewrite getN_firstn in H by assumption. exact H.
Qed.

Section C.
  Variable msg : list byte.

  Lemma vis_get_inv c p b : getN (vis msg c) p = Some b -> p < lim c /\ getN msg p = Some b.
  Proof. unfold vis. apply getN_firstn_inv. Qed.

  Lemma bN_byte_lt b : bN b < 256.
  Proof. unfold bN. pose proof (Byte.to_N_bounded b). lia. Qed.

  (* ---- one step, forwards ---- *)
  Lemma step_root st : linv msg st -> getN (vis msg (lc st)) (pos (lc st)) = Some x00 ->
    label_step msg st = Ok (LEnd (if max_pos st =? 0 then pos (lc st) + 1 else max_pos st)).
  Proof.
    intros (Hc & _ & _) Hg. apply vis_get_inv in Hg. destruct Hg as [Hlt Hg]. unfold label_step.
    rewrite (c_u8_fwd msg _ x00 Hc Hlt Hg). cbn [bind].
    change (label_is_root (bN x00)) with true. cbn iota. rewrite max_pos_unset_spec. reflexivity.
  Qed.

  Lemma step_label st b : linv msg st -> getN (vis msg (lc st)) (pos (lc st)) = Some b -> 1 <= bN b <= 63 ->
    pos (lc st) + 1 + bN b <= lim (lc st) ->
    label_step msg st = Ok (LLabel (pos (lc st)) (subN msg (pos (lc st) + 1) (bN b))
                                   (mkL (c_set_pos (lc st) (pos (lc st) + 1 + bN b)) (max_pos st) (n_ptr st))).
  Proof.
    intros (Hc & _ & _) Hg Hb Hle. apply vis_get_inv in Hg. destruct Hg as [Hlt Hg]. unfold label_step.
    rewrite (c_u8_fwd msg _ b Hc Hlt Hg). cbn [bind].
    assert (Hr : label_is_root (bN b) = false) by (unfold label_is_root; lia). rewrite Hr.
    rewrite is_length_spec. destruct (bN b <? 64) eqn:E; [|lia].
    rewrite (c_slice_fwd msg _ (bN b) (cwf_set_pos _ _ _ Hc)) by (cbn; lia). cbn [bind pos c_set_pos]. reflexivity.
  Qed.

  Lemma step_ptr st b1 b2 : linv msg st ->
    getN (vis msg (lc st)) (pos (lc st)) = Some b1 -> 192 <= bN b1 ->
    getN (vis msg (lc st)) (pos (lc st) + 1) = Some b2 ->
    let tgt := (bN b1 - 192) * 256 + bN b2 in
    let mp := if max_pos st =? 0 then pos (lc st) + 2 else max_pos st in
    tgt + 2 < mp -> n_ptr st < 32 ->
    label_step msg st = Ok (LJump (mkL (c_set_pos (lc st) tgt) mp (n_ptr st + 1))).
  Proof.
    intros (Hc & Hm & _) Hg1 H192 Hg2 tgt mp Hlt Hn.
    apply vis_get_inv in Hg1. destruct Hg1 as [Hlt1 Hg1]. apply vis_get_inv in Hg2. destruct Hg2 as [Hlt2 Hg2].
    unfold label_step. rewrite (c_u8_fwd msg _ b1 Hc Hlt1 Hg1). cbn [bind].
    pose proof (bN_byte_lt b1) as Hb1.
    assert (Hr : label_is_root (bN b1) = false) by (unfold label_is_root; lia). rewrite Hr.
    rewrite is_length_spec. destruct (bN b1 <? 64) eqn:E; [lia|].
    rewrite is_pointer_spec. destruct (192 <=? bN b1) eqn:E2; [|lia].
    rewrite (c_u8_fwd msg _ b2 (cwf_set_pos _ _ _ Hc)) by (cbn; assumption). cbn [bind pos c_set_pos].
    rewrite pointer_to_offset_spec, max_pos_unset_spec.
    assert (Hoff : bN b1 mod 64 * 256 + bN b2 = tgt).
    { subst tgt. f_equal. f_equal. symmetry. apply N.mod_unique with (q := 3); lia. }
    rewrite Hoff.
    replace (if max_pos st =? 0 then pos (lc st) + 1 + 1 else max_pos st) with mp by (subst mp; destruct (max_pos st =? 0); lia).
    rewrite ptr_bad_nounderflow_spec.
    assert (H2 : 2 <= mp) by (subst mp; destruct (max_pos st =? 0) eqn:E0; lia).
    destruct (2 <=? mp) eqn:E3; [|lia].
    assert (Hpb : ptr_bad tgt mp = false) by (apply ptr_bad_spec; lia). rewrite Hpb.
    destruct (too_many_pointers (n_ptr st + 1)) eqn:Et; [apply too_many_pointers_spec in Et; lia|].
    reflexivity.
  Qed.

  (* ---- the walk ---- *)
  Lemma read_loop_complete nk : forall V q0 hops p ls, expands V q0 hops p ls ->
    forall st dn fuel, V = vis msg (lc st) -> pos (lc st) = p -> q0_of st = q0 -> n_ptr st = hops -> linv msg st ->
    Forall (fun l => label_ok (snd l) = true) ls -> lenN dn + lenN (labels_text ls) <= 254 ->
    (N.to_nat (lmeasure st) < fuel)%nat ->
    exists mp, read_name_loop msg nk fuel st dn = Ok (dn ++ labels_text ls, mp) /\
      (max_pos st = 0 -> resume_at V p mp) /\ (max_pos st <> 0 -> mp = max_pos st).
  Proof.
    induction 1 as [q0 hops p Hg|q0 hops p b ls Hg Hb Hle Hex IH|q0 hops p b1 b2 ls Hg1 H192 Hg2 tgt q Hlt Hh Hex IH];
      intros st dn fuel HV Hp Hq Hn Hi Hok Hlen Hf; (destruct fuel as [|f]; [lia|]); cbn [read_name_loop]; subst V p q0 hops.
    - rewrite (step_root st Hi Hg). cbn [bind]. eexists. split; [unfold labels_text; cbn; rewrite app_nil_r; reflexivity|].
      split; intro Hz.
      + replace (max_pos st =? 0) with true by lia. constructor. exact Hg.
      + replace (max_pos st =? 0) with false by lia. reflexivity.
    - pose proof Hi as (Hc & _ & _).
      assert (Hle' : pos (lc st) + 1 + bN b <= lim (lc st)) by (rewrite (vis_len msg _ Hc) in Hle; exact Hle).
      pose proof (step_label st b Hi Hg Hb Hle') as Es. rewrite Es. cbn [bind].
      destruct (label_step_label msg _ _ _ _ Hi Es) as (Hi' & Hlt & Hlim & _ & _ & Hmp & Hnp & Ho).
      assert (Hsub : subN (vis msg (lc st)) (pos (lc st) + 1) (bN b) = subN msg (pos (lc st) + 1) (bN b))
        by (unfold vis; apply subN_firstn; lia).
      rewrite Hsub in *.
      inversion Hok as [|? ? Hl Hok']; subst. cbn [snd] in Hl.
      assert (Htl : lenN (labels_text ((pos (lc st), subN msg (pos (lc st) + 1) (bN b)) :: ls)) =
                    lenN (subN msg (pos (lc st) + 1) (bN b)) + 1 + lenN (labels_text ls)).
      { unfold labels_text. cbn [map concat snd]. rewrite !lenN_app, lenN_cons, lenN_nil. lia. }
      rewrite (append_label_fwd nk dn _ Hl) by lia. cbn [bind].
      set (st' := mkL (c_set_pos (lc st) (pos (lc st) + 1 + bN b)) (max_pos st) (n_ptr st)) in *.
      assert (A1 : vis msg (lc st) = vis msg (lc st')) by (unfold vis, st'; cbn [lc lim c_set_pos]; reflexivity).
      assert (A2 : pos (lc st') = pos (lc st) + 1 + bN b) by reflexivity.
      assert (A3 : q0_of st' = q0_of st) by reflexivity.
      assert (A4 : n_ptr st' = n_ptr st) by reflexivity.
      assert (A5 : lenN (dn ++ subN msg (pos (lc st) + 1) (bN b) ++ [dot]) + lenN (labels_text ls) <= 254)
        by (rewrite !lenN_app, lenN_cons, lenN_nil; lia).
      assert (A6 : (N.to_nat (lmeasure st') < f)%nat) by lia.
      destruct (IH st' (dn ++ subN msg (pos (lc st) + 1) (bN b) ++ [dot]) f A1 A2 A3 A4 Hi' Hok' A5 A6) as (mp & Er & R1 & R2).
      exists mp. split.
      + rewrite Er. unfold labels_text. cbn [map concat snd]. rewrite <- !app_assoc. reflexivity.
      + split; [|exact R2]. intro Hz. eapply ra_label; [exact Hg|exact Hb|apply R1; exact Hz].
    - pose proof Hi as (Hc & Hm & _).
      assert (Hmpq : (if max_pos st =? 0 then pos (lc st) + 2 else max_pos st) = q + 2).
      { subst q. unfold q0_of. destruct (max_pos st =? 0) eqn:E; [reflexivity|]. destruct Hm as [Hm|Hm]; lia. }
      assert (Hstep := step_ptr st b1 b2 Hi Hg1 H192 Hg2). cbv zeta in Hstep. fold tgt in Hstep.
      rewrite Hmpq in Hstep. specialize (Hstep ltac:(lia) ltac:(lia)). rewrite Hstep. cbn [bind].
      destruct (label_step_jump msg _ _ Hi Hstep) as (Hi' & Hlt' & Hlim & Ho & _).
      set (st' := mkL (c_set_pos (lc st) tgt) (q + 2) (n_ptr st + 1)) in *.
      assert (A1 : vis msg (lc st) = vis msg (lc st')) by (unfold vis, st'; cbn [lc lim c_set_pos]; reflexivity).
      assert (A2 : pos (lc st') = tgt) by reflexivity.
      assert (A3 : q0_of st' = Some q) by (unfold q0_of; cbn [max_pos st']; destruct (q + 2 =? 0) eqn:E; [lia|]; f_equal; lia).
      assert (A4 : n_ptr st' = n_ptr st + 1) by reflexivity.
      assert (A6 : (N.to_nat (lmeasure st') < f)%nat) by lia.
      destruct (IH st' dn f A1 A2 A3 A4 Hi' Hok Hlen A6) as (mp & Er & R1 & R2).
      exists mp. split; [exact Er|]. assert (Hnz : max_pos st' <> 0) by (cbn; lia). specialize (R2 Hnz). cbn [max_pos st'] in R2.
      split; intro Hz.
      + rewrite R2. replace (q + 2) with (pos (lc st) + 2) by (rewrite <- Hmpq; replace (max_pos st =? 0) with true by lia; reflexivity).
          eapply ra_ptr; [exact Hg1|exact H192].
      + rewrite R2, <- Hmpq. replace (max_pos st =? 0) with false by lia. reflexivity.
  Qed.

  Theorem read_name_complete nk c ls :
    cwf msg c -> expands (vis msg c) None 0 (pos c) ls ->
    Forall (fun l => label_ok (snd l) = true) ls -> wire_len (map snd ls) <= 255 ->
    exists c', read_name msg nk c = Ok (join_labels (map snd ls), c') /\
      resume_at (vis msg c) (pos c) (pos c') /\ lim c' = lim c /\ orig c' = orig c.
  Proof.
    intros Hc Hex Hok Hw. unfold read_name. pose proof (lenN_labels_text ls) as Hl.
    destruct (read_loop_complete nk _ _ _ _ _ Hex (mkL c 0 0) [] (name_fuel c)) as (mp & Er & R1 & _);
      try reflexivity; try assumption.
    - apply linv_init; assumption.
    - rewrite lenN_nil. lia.
    - apply (lmeasure_fuel msg); assumption.
    - rewrite Er. cbn [bind app]. unfold name_wire_too_long. rewrite DOMAIN_NAME_MAX_LENGTH_spec.
      destruct (255 <=? lenN (labels_text ls)) eqn:E; [lia|].
      eexists. split; [f_equal; f_equal; apply labels_text_join|]. cbn. split; [apply R1; reflexivity|split; reflexivity].
  Qed.

  (* skipping accepts the same names (via read => skip) *)
  Corollary skip_name_complete c ls :
    cwf msg c -> expands (vis msg c) None 0 (pos c) ls ->
    Forall (fun l => label_ok (snd l) = true) ls -> wire_len (map snd ls) <= 255 ->
    exists c', skip_name msg c = Ok c' /\ resume_at (vis msg c) (pos c) (pos c').
  Proof.
    intros Hc Hex Hok Hw. destruct (read_name_complete Heap c ls Hc Hex Hok Hw) as (c' & Er & Hr & _).
    exists c'. split; [exact (read_implies_skip msg Heap _ _ _ Hc Er)|exact Hr].
  Qed.
End C.
