(* Proofs/NameOrder.v — equality, ordering and hashing of names ignore ASCII case and agree with
   one another (for all byte strings, hence for both name types, which share these definitions
   after the twin check of the two Rust impls). *)
From Coq Require Import ZArith.
From RsdnsModel Require Import Base GenConst GenNames GenSpec Names.
From Coq Require Import ZifyBool ZifyN ZifyNat.
Open Scope N_scope.

Definition lower (b : byte) : N := to_ascii_lowercase (bN b).
Definition fold_case (a : list byte) : list N := map lower a.

(* lexicographic order on N lists *)
Fixpoint lex (a b : list N) : comparison :=
  match a, b with
  | [], [] => Eq
  | [], _ :: _ => Lt
  | _ :: _, [] => Gt
  | x :: a', y :: b' => match N.compare x y with Eq => lex a' b' | c => c end
  end.

Lemma name_cmp_lex a b : name_cmp a b = lex (fold_case a) (fold_case b).
Proof.
  revert b; induction a as [|x a IH]; intros [|y b]; cbn; try reflexivity.
  unfold lower. destruct (N.compare _ _); [apply IH|reflexivity|reflexivity].
Qed.

Lemma name_eq_fold a b : name_eq a b = true <-> fold_case a = fold_case b.
Proof.
  unfold name_eq, fold_case. revert b; induction a as [|x a IH]; intros [|y b]; cbn [eq_ignore_ascii_case map];
    try (split; [reflexivity|reflexivity]); try (split; discriminate).
  rewrite Bool.andb_true_iff, IH, N.eqb_eq. unfold lower. split.
  - intros [H1 H2]. rewrite H1, H2. reflexivity.
  - intro H; inversion H; auto.
Qed.

Lemma lex_eq a b : lex a b = Eq <-> a = b.
Proof.
  revert b; induction a as [|x a IH]; intros [|y b]; cbn; try (split; [reflexivity|reflexivity]); try (split; discriminate).
  destruct (N.compare_spec x y).
  - subst. rewrite IH. split; [congruence|intro H; inversion H; reflexivity].
  - split; [discriminate|intro H0; inversion H0; lia].
  - split; [discriminate|intro H0; inversion H0; lia].
Qed.

Lemma lex_antisym a b : lex a b = CompOpp (lex b a).
Proof.
  revert b; induction a as [|x a IH]; intros [|y b]; cbn; try reflexivity.
  rewrite (N.compare_antisym y x). destruct (N.compare y x); cbn; [apply IH|reflexivity|reflexivity].
Qed.

Lemma lex_trans a : forall b c, lex a b = Lt -> lex b c = Lt -> lex a c = Lt.
Proof.
  induction a as [|x a IH]; intros [|y b] [|z c]; cbn; try discriminate; try reflexivity.
  destruct (N.compare_spec x y), (N.compare_spec y z); try discriminate; intros H1 H2.
  - subst. rewrite N.compare_refl. eapply IH; eassumption.
  - subst. destruct (N.compare_spec y z); try lia; reflexivity.
  - subst. destruct (N.compare_spec x z); try lia; reflexivity.
  - destruct (N.compare_spec x z); try lia; reflexivity.
Qed.

Theorem eq_iff_cmp a b : name_eq a b = true <-> name_cmp a b = Eq.
Proof. rewrite name_eq_fold, name_cmp_lex, lex_eq. reflexivity. Qed.

Theorem cmp_antisym a b : name_cmp a b = CompOpp (name_cmp b a).
Proof. rewrite !name_cmp_lex. apply lex_antisym. Qed.

Theorem cmp_trans a b c : name_cmp a b = Lt -> name_cmp b c = Lt -> name_cmp a c = Lt.
Proof. rewrite !name_cmp_lex. apply lex_trans. Qed.

Theorem hash_feed_fold a : name_hash_feed a = fold_case a.
Proof. reflexivity. Qed.

Theorem eq_hash a b : name_eq a b = true -> name_hash_feed a = name_hash_feed b.
Proof. rewrite name_eq_fold. intro H. rewrite !hash_feed_fold. assumption. Qed.

(* folding is exactly ASCII lower-casing: A..Z -> a..z, everything else unchanged *)
Lemma lower_spec (b : byte) :
  lower b = if (65 <=? bN b) && (bN b <=? 90) then bN b + 32 else bN b.
Proof. reflexivity. Qed.

Lemma eq_refl a : name_eq a a = true. Proof. apply name_eq_fold; reflexivity. Qed.
Lemma eq_sym a b : name_eq a b = name_eq b a.
Proof.
  destruct (name_eq a b) eqn:E1, (name_eq b a) eqn:E2; try reflexivity.
  - apply name_eq_fold in E1. symmetry in E1. apply name_eq_fold in E1. congruence.
  - apply name_eq_fold in E2. symmetry in E2. apply name_eq_fold in E2. congruence.
Qed.
Lemma eq_trans a b c : name_eq a b = true -> name_eq b c = true -> name_eq a c = true.
Proof. rewrite !name_eq_fold. congruence. Qed.
