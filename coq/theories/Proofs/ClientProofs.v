(* Proofs/ClientProofs.v — theorems about the client logic of Client.v. *)
From Coq Require Import ZArith.
From RsdnsModel Require Import Base GenConst GenCursor GenHeader GenTracker GenReader GenClient GenSpec.
From RsdnsModel Require Import Cursor Names Labels Header Tracker RData Reader Client.
From RsdnsModel.Spec Require Import NameText.
From RsdnsModel.Proofs Require Import CursorSafe ListN NameOrder NoUB NameEqStr.
From Coq Require Import ZifyBool ZifyN ZifyNat.
Open Scope N_scope.

(* ---------------------------------------------------------------- leaves *)
Lemma std_async_same_filter hid id t c n :
  std_id_mismatch hid id = async_id_mismatch hid id /\ std_question_matches t c n = async_question_matches t c n.
Proof. split; reflexivity. Qed.
Lemma id_mismatch_spec hid id : std_id_mismatch hid id = false <-> hid = id.
Proof. unfold std_id_mismatch. lia. Qed.
Lemma question_matches_spec t c n : std_question_matches t c n = true <-> t = true /\ c = true /\ n = true.
Proof. unfold std_question_matches. destruct t, c, n; cbn; intuition congruence. Qed.

(* ---------------------------------------------------------------- C12: the filter *)
(* a datagram is handed to the caller only if it has the query's id and its single question has
   the asked type, class and (case-insensitively) name *)
(* the_question succeeds only when exactly one question is left to read *)
Lemma the_question_single msg as_ref r r' o :
  rd_question msg true as_ref r = (r', Ok o) -> r_done r = false /\ questions_left (r_tr r) = Ok 1.
Proof.
  unfold rd_question. destruct (r_done r); [intro H; inversion H|].
  destruct (questions_left (r_tr r)) as [left| | | | |]; try (intro H; inversion H; fail).
  destruct (q_not_single left) eqn:Es; [intro H; inversion H|].
  intros _. split; [reflexivity|]. f_equal. unfold q_not_single in Es. lia.
Qed.

Theorem accept_sound std id qname qtype qclass d fl :
  accept_datagram std id qname qtype qclass d = Ok (Some fl) ->
  lenN d <= 65535 /\
  exists r1 hd n, rd_header d (mkReader (c_new d) tr_default false) = (r1, Ok (OHeader hd)) /\
    h_id hd = id /\ fl = h_flags hd /\ questions_left (r_tr r1) = Ok 1 /\
    snd (rd_question d true false r1) = Ok (OQuestion n qtype qclass) /\ name_eq_str n qname = true.
Proof.
  unfold accept_datagram, reader_new. destruct (msg_too_long (lenN d)) eqn:Et; [discriminate|].
  assert (Hlen : lenN d <= 65535) by (unfold msg_too_long in Et; lia).
  destruct (rd_header d _) as [r1 h] eqn:Eh. destruct h as [v| | | | |]; try discriminate. destruct v; try discriminate.
  assert (Hsame := std_async_same_filter (h_id h) id).
  destruct (if std then std_id_mismatch (h_id h) id else async_id_mismatch (h_id h) id) eqn:Eid; [discriminate|].
  assert (Hid : h_id h = id).
  { apply id_mismatch_spec. destruct std; [assumption|]. destruct (Hsame true true true) as [H _]. rewrite H. assumption. }
  destruct (rd_question d true false r1) as [r2 q] eqn:Eq. destruct q as [v| | | | |]; try discriminate. destruct v; try discriminate.
  intro H. split; [assumption|]. exists r1, h, name.
  assert (Hm : std_question_matches (qt =? qtype) (qc =? qclass) (name_eq_str name qname) = true).
  { destruct std; [destruct (std_question_matches _ _ _); [reflexivity|discriminate]|].
    destruct (Hsame (qt =? qtype) (qc =? qclass) (name_eq_str name qname)) as [_ H2]. rewrite H2.
    destruct (async_question_matches _ _ _); [reflexivity|discriminate]. }
  apply question_matches_spec in Hm. destruct Hm as (H1 & H2 & H3).
  apply N.eqb_eq in H1. apply N.eqb_eq in H2. subst qt qc.
  assert (Hfl : fl = h_flags h).
  { destruct std; [destruct (std_question_matches _ _ _)|destruct (async_question_matches _ _ _)]; inversion H; reflexivity. }
  destruct (the_question_single _ _ _ _ _ Eq) as [_ Hq].
  repeat split; try assumption; try reflexivity. rewrite Eq. reflexivity.
Qed.

(* a rejected datagram never fails the query: the filter returns "continue", not an error *)
Theorem accept_never_errs std id qname qtype qclass d :
  match accept_datagram std id qname qtype qclass d with Err _ => False | _ => True end.
Proof.
  unfold accept_datagram. destruct (reader_new d); try exact I.
  destruct (rd_header d a) as [r1 h]. destruct h as [v| | | | |]; try exact I. destruct v; try exact I.
  destruct (if std then _ else _); [exact I|].
  destruct (rd_question d true false r1) as [r2 q]. destruct q as [v| | | | |]; try exact I. destruct v; exact I.
Qed.

(* the loop returns the FIRST accepted datagram, bytes unchanged; every earlier one was rejected *)
Theorem udp_receive_first std id qname qtype qclass ds d fl :
  udp_receive std id qname qtype qclass ds = Ok (Some (d, fl)) ->
  exists pre post, ds = pre ++ d :: post /\
    accept_datagram std id qname qtype qclass d = Ok (Some fl) /\
    Forall (fun x => accept_datagram std id qname qtype qclass x = Ok None) pre.
Proof.
  induction ds as [|x rest IH]; cbn [udp_receive]; [discriminate|].
  destruct (accept_datagram std id qname qtype qclass x) as [a| | | | |] eqn:Ea; cbn [bind]; try discriminate.
  destruct a as [f|].
  - intro H; inversion H; subst. exists [], rest. repeat split; [assumption|constructor].
  - intro H. destruct (IH H) as (pre & post & -> & H1 & H2). exists (x :: pre), post. repeat split; [assumption|].
    constructor; assumption.
Qed.

Theorem udp_receive_none std id qname qtype qclass ds :
  udp_receive std id qname qtype qclass ds = Ok None ->
  Forall (fun x => accept_datagram std id qname qtype qclass x = Ok None) ds.
Proof.
  induction ds as [|x rest IH]; cbn [udp_receive]; [constructor|].
  destruct (accept_datagram std id qname qtype qclass x) as [a| | | | |] eqn:Ea; cbn [bind]; try discriminate.
  destruct a; [discriminate|]. intro H. constructor; [assumption|apply IH; assumption].
Qed.

(* ---------------------------------------------------------------- C13: strategy *)
(* 0 = Udp (default), 1 = Tcp, 2 = NoTcp *)
Definition strip_flags (udp : res (list byte * N)) : res (list byte) :=
  match udp with
  | Ok (d, _) => Ok d | Err e => Err e | UB => UB | Panic => Panic | DebugAssert => DebugAssert | OutOfFuel => OutOfFuel
  end.

Lemma notcp_eq std udp tcp : query_raw_impl std 2 udp tcp = ([EvUdpExchange], strip_flags udp).
Proof.
  destruct std; unfold query_raw_impl, std_udp_first, async_udp_first, std_tcp_allowed, async_tcp_allowed,
    std_tc_fallback, async_tc_fallback; change (2 =? 2) with true; cbn [negb];
    destruct udp as [[d fl]| | | | |]; cbn; rewrite ?Bool.andb_false_r; reflexivity.
Qed.
Lemma tcponly_eq std udp tcp : query_raw_impl std 1 udp tcp = ([EvTcpExchange], tcp).
Proof. destruct std; reflexivity. Qed.
Lemma default_eq std d fl tcp :
  query_raw_impl std 0 (Ok (d, fl)) tcp =
  if flag_tc fl then ([EvUdpExchange; EvTcpExchange], tcp) else ([EvUdpExchange], Ok d).
Proof.
  destruct std; unfold query_raw_impl, std_udp_first, async_udp_first, std_tcp_allowed, async_tcp_allowed,
    std_tc_fallback, async_tc_fallback; change (0 =? 2) with false; cbn [negb]; rewrite Bool.andb_true_r; reflexivity.
Qed.

Theorem strategy_honoured std udp tcp :
  (* UDP-only: no TCP exchange is ever started; the accepted answer is returned as it is, truncated or not *)
  (~ In EvTcpExchange (fst (query_raw_impl std 2 udp tcp)) /\
   forall d fl, udp = Ok (d, fl) -> snd (query_raw_impl std 2 udp tcp) = Ok d) /\
  (* TCP-only: no UDP exchange *)
  (fst (query_raw_impl std 1 udp tcp) = [EvTcpExchange] /\ snd (query_raw_impl std 1 udp tcp) = tcp) /\
  (* default: UDP first; iff the accepted answer has TC, exactly one TCP exchange follows and its
     result is the result *)
  (forall d fl, udp = Ok (d, fl) ->
     (flag_tc fl = true -> query_raw_impl std 0 udp tcp = ([EvUdpExchange; EvTcpExchange], tcp)) /\
     (flag_tc fl = false -> query_raw_impl std 0 udp tcp = ([EvUdpExchange], Ok d))).
Proof.
  rewrite notcp_eq, tcponly_eq. repeat split.
  - cbn. intros [H|[]]; discriminate.
  - intros d fl ->. reflexivity.
  - subst udp. rewrite default_eq. intro H; rewrite H. reflexivity.
  - subst udp. rewrite default_eq. intro H0; rewrite H0. reflexivity.
Qed.

(* ---------------------------------------------------------------- C14: framing *)
Lemma read_exact_spec k : forall segs,
  match read_exact k segs with
  | Some (bs, rest) => bs = firstn k (concat segs) /\ length bs = k /\ concat rest = skipn k (concat segs)
  | None => (length (concat segs) < k)%nat
  end.
Proof.
  intro segs. revert k. induction segs as [|s rest IH]; intro k.
  - destruct k; cbn; [repeat split|lia].
  - cbn [read_exact].
    (* inner induction over the head segment *)
    revert k. induction s as [|b s IHs]; intro k.
    + destruct k as [|k']; [cbn; repeat split|]. cbn [concat app]. exact (IH (S k')).
    + destruct k as [|k']; [cbn; repeat split|].
      specialize (IHs k'). cbn [concat app] in *.
      match goal with |- context [match ?X with Some _ => _ | None => None end] => destruct X as [[bs r]|] end.
      * destruct IHs as (H1 & H2 & H3). cbn [firstn skipn length]. repeat split; [f_equal; assumption|lia|assumption].
      * cbn [length]. lia.
Qed.

(* the result depends on the byte stream only, not on how it is segmented *)
Theorem tcp_exchange_segmentation_independent std segs segs' buf_len :
  concat segs = concat segs' -> tcp_exchange std segs buf_len = tcp_exchange std segs' buf_len.
Proof.
  intro Hc. unfold tcp_exchange.
  pose proof (read_exact_spec 2 segs) as H1. pose proof (read_exact_spec 2 segs') as H2. rewrite <- Hc in H2.
  destruct (read_exact 2 segs) as [[p r]|], (read_exact 2 segs') as [[p' r']|].
  - destruct H1 as (-> & _ & Hr). destruct H2 as (-> & _ & Hr').
    destruct (if std then _ else _); [reflexivity|].
    set (n := N.to_nat (be_val (firstn 2 (concat segs)) 0)).
    pose proof (read_exact_spec n r) as H3. pose proof (read_exact_spec n r') as H4. rewrite Hr in H3. rewrite Hr' in H4.
    destruct (read_exact n r) as [[b x]|], (read_exact n r') as [[b' x']|].
    + destruct H3 as (-> & _). destruct H4 as (-> & _). reflexivity.
    + exfalso. destruct H3 as (Hb & Hl & _). subst b. rewrite firstn_length in Hl. lia.
    + exfalso. destruct H4 as (Hb & Hl & _). subst b'. rewrite firstn_length in Hl. lia.
    + reflexivity.
  - exfalso. destruct H1 as (Hp & Hl & _). subst p. rewrite firstn_length in Hl. lia.
  - exfalso. destruct H2 as (Hp & Hl & _). subst p'. rewrite firstn_length in Hl. lia.
  - reflexivity.
Qed.

(* what is returned: exactly the N announced bytes; a larger announcement than the buffer is
   BufferTooShort(N); a stream that ends early is an error, never a short success *)
Theorem tcp_exchange_spec std segs buf_len :
  let s := concat segs in
  match tcp_exchange std segs buf_len with
  | Ok body => (2 <= length s)%nat /\ let n := be_val (firstn 2 s) 0 in
               n <= buf_len /\ body = firstn (N.to_nat n) (skipn 2 s) /\ lenN body = n
  | Err (BufferTooShort n) => (2 <= length s)%nat /\ n = be_val (firstn 2 s) 0 /\ buf_len < n
  | Err _ => (length s < 2)%nat \/ (length s < 2 + N.to_nat (be_val (firstn 2 s) 0))%nat
  | _ => False
  end.
Proof.
  cbv zeta. unfold tcp_exchange.
  pose proof (read_exact_spec 2 segs) as H1.
  destruct (read_exact 2 segs) as [[p r]|]; [|unfold IO_EOF; left; lia].
  destruct H1 as (-> & Hl & Hr).
  assert (H2 : (2 <= length (concat segs))%nat) by (rewrite firstn_length in Hl; lia).
  assert (Htb : (if std then std_tcp_too_big (be_val (firstn 2 (concat segs)) 0) buf_len
                 else async_tcp_too_big (be_val (firstn 2 (concat segs)) 0) buf_len) = (buf_len <? be_val (firstn 2 (concat segs)) 0))
    by (destruct std; reflexivity).
  rewrite Htb. destruct (buf_len <? be_val (firstn 2 (concat segs)) 0) eqn:E.
  - repeat split; [assumption|lia].
  - pose proof (read_exact_spec (N.to_nat (be_val (firstn 2 (concat segs)) 0)) r) as H3. rewrite Hr in H3.
    destruct (read_exact _ r) as [[b x]|].
    + destruct H3 as (-> & Hlb & _). repeat split; try assumption; try lia. unfold lenN. rewrite Hlb. lia.
    + unfold IO_EOF. right. rewrite skipn_length in H3. lia.
Qed.

(* ---------------------------------------------------------------- C15: the armed timeouts *)
(* every timeout the blocking client arms is positive and ends no later than the query lifetime *)
Lemma lifetime_left_ok elapsed lifetime tau :
  lifetime_left elapsed lifetime = Ok tau -> 0 < tau /\ elapsed + tau <= lifetime.
Proof.
  unfold lifetime_left, std_lifetime_over, std_lifetime_left_nounderflow, std_lifetime_left.
  destruct (lifetime <=? elapsed) eqn:E; [discriminate|]. destruct (elapsed <=? lifetime) eqn:E2; [|discriminate].
  intro H; inversion H; lia.
Qed.
Lemma tcp_read_timeout_ok elapsed lifetime tau :
  tcp_read_timeout elapsed lifetime = Ok tau -> 0 < tau /\ elapsed + tau <= lifetime.
Proof.
  unfold tcp_read_timeout, std_tcp_read_over, std_tcp_read_timeout_nounderflow, std_tcp_read_timeout.
  destruct (lifetime <=? elapsed) eqn:E; [discriminate|]. destruct (elapsed <=? lifetime) eqn:E2; [|discriminate].
  intro H; inversion H; lia.
Qed.
Lemma query_left_ok elapsed lifetime qt attempt tau :
  query_left elapsed lifetime qt attempt = Ok tau ->
  0 < tau /\ elapsed + tau <= lifetime /\ attempt + tau <= match qt with Some t => t | None => lifetime end.
Proof.
  unfold query_left. destruct (lifetime_left elapsed lifetime) as [ll| | | | |] eqn:El; cbn [bind]; try discriminate.
  apply lifetime_left_ok in El.
  unfold std_attempt_over, std_query_left_nounderflow, std_query_left.
  set (timeout := match qt with Some t => t | None => lifetime end).
  destruct (timeout <=? attempt) eqn:E3; [discriminate|]. destruct (attempt <=? timeout) eqn:E4; [|discriminate].
  intro H; inversion H. lia.
Qed.

Theorem armed_timeouts_within_lifetime elapsed lifetime qt attempt tau :
  (lifetime_left elapsed lifetime = Ok tau -> 0 < tau /\ elapsed + tau <= lifetime) /\
  (query_left elapsed lifetime qt attempt = Ok tau ->
     0 < tau /\ elapsed + tau <= lifetime /\ attempt + tau <= match qt with Some t => t | None => lifetime end) /\
  (tcp_read_timeout elapsed lifetime = Ok tau -> 0 < tau /\ elapsed + tau <= lifetime).
Proof.
  split; [apply lifetime_left_ok|split; [apply query_left_ok|apply tcp_read_timeout_ok]].
Qed.

(* once the lifetime is over nothing is armed any more: the call ends with Timeout; an attempt
   whose query_timeout is over ends with TimedOut, which udp_exchange turns into a retransmission *)
Theorem no_action_after_deadline elapsed lifetime qt attempt :
  lifetime <= elapsed ->
  lifetime_left elapsed lifetime = Err Timeout /\ query_left elapsed lifetime qt attempt = Err Timeout /\
  tcp_read_timeout elapsed lifetime = Err Timeout.
Proof.
  intro H.
  assert (Hl : lifetime_left elapsed lifetime = Err Timeout).
  { unfold lifetime_left, std_lifetime_over. destruct (lifetime <=? elapsed) eqn:E; [reflexivity|lia]. }
  split; [assumption|]. split.
  - unfold query_left. rewrite Hl. reflexivity.
  - unfold tcp_read_timeout, std_tcp_read_over. destruct (lifetime <=? elapsed) eqn:E; [reflexivity|lia].
Qed.
Theorem attempt_over_retries elapsed lifetime qt attempt :
  elapsed < lifetime -> match qt with Some t => t | None => lifetime end <= attempt ->
  query_left elapsed lifetime qt attempt = Err IO_TIMEDOUT.
Proof.
  intros H1 H2. unfold query_left, lifetime_left, std_lifetime_over, std_lifetime_left_nounderflow, std_attempt_over.
  destruct (lifetime <=? elapsed) eqn:E; [lia|]. destruct (elapsed <=? lifetime) eqn:E2; [|lia]. cbn [bind].
  destruct (_ <=? attempt) eqn:E3; [reflexivity|]. destruct qt; lia.
Qed.

(* ---------------------------------------------------------------- history independence (C16) *)
(* datagrams the filter rejects (late answers to earlier queries are such, unless they carry the
   new id AND question) can be inserted anywhere in the delivery order without changing the result *)
Theorem leftovers_ignored std id qname qtype qclass pre post junk :
  Forall (fun x => accept_datagram std id qname qtype qclass x = Ok None) junk ->
  udp_receive std id qname qtype qclass (pre ++ junk ++ post) = udp_receive std id qname qtype qclass (pre ++ post).
Proof.
  intros Hj. induction pre as [|x pre IH]; cbn [app udp_receive].
  - induction Hj as [|j junk Hj1 Hj2 IHj]; [reflexivity|]. cbn [app udp_receive]. rewrite Hj1. exact IHj.
  - destruct (accept_datagram std id qname qtype qclass x) as [[f|]| | | | |]; cbn [bind]; try reflexivity. exact IH.
Qed.

(* the receive loop is a function of (id, question, delivered datagrams) only: whichever earlier
   queries the client served, the same deliveries give the same result.  (Stated as the signature
   of udp_receive: it takes no client state; the netlab history stream checks that the four real
   clients indeed behave as this function over whole query histories.) *)
Theorem result_depends_on_own_exchange std id qname qtype qclass ds1 ds2 :
  ds1 = ds2 -> udp_receive std id qname qtype qclass ds1 = udp_receive std id qname qtype qclass ds2.
Proof. intros ->. reflexivity. Qed.

(* a leftover is accepted only if it answers the NEW query: same id and same question *)
Theorem leftover_accepted_only_if_matching std id qname qtype qclass pre d fl post :
  udp_receive std id qname qtype qclass (pre ++ d :: post) = Ok (Some (d, fl)) ->
  Forall (fun x => accept_datagram std id qname qtype qclass x = Ok None) pre ->
  accept_datagram std id qname qtype qclass d = Ok (Some fl).
Proof.
  intros H Hpre. induction Hpre as [|x pre Hx Hp IH]; cbn [app udp_receive] in H.
  - destruct (accept_datagram std id qname qtype qclass d) as [[f|]| | | | |] eqn:E; cbn [bind] in H; try discriminate.
    + inversion H; subst; reflexivity.
    + (* d rejected: the result would come from post; then it is some later datagram equal to d *)
      apply udp_receive_first in H. destruct H as [p1 [p2 [_ [Ha _]]]]. rewrite E in Ha. discriminate.
  - rewrite Hx in H. cbn [bind] in H. apply IH. exact H.
Qed.

(* ---------------------------------------------------------------- absolute deadlines (C15) *)
(* whatever is armed at time [now] expires no later than start + lifetime: every deadline of the
   blocking client — UDP send/recv, TCP connect/write (lifetime_left), TCP prefix and body reads —
   is measured from the beginning of the CALL, not of the current transmission; the per-attempt
   bound is measured from the transmission *)
Theorem armed_before_call_deadline now start qs lifetime qt tau :
  start <= qs -> qs <= now ->
  (lifetime_left_at now start qs lifetime = Ok tau -> 0 < tau /\ now + tau <= start + lifetime) /\
  (query_left_at now start qs lifetime qt = Ok tau ->
     0 < tau /\ now + tau <= start + lifetime /\ now + tau <= qs + match qt with Some t => t | None => lifetime end) /\
  (tcp_prefix_timeout_at now start qs lifetime = Ok tau -> 0 < tau /\ now + tau <= start + lifetime) /\
  (tcp_body_timeout_at now start qs lifetime = Ok tau -> 0 < tau /\ now + tau <= start + lifetime).
Proof.
  intros H1 H2.
  unfold lifetime_left_at, query_left_at, tcp_prefix_timeout_at, tcp_body_timeout_at,
    std_clock_lifetime, std_clock_attempt, std_clock_tcp_prefix, std_clock_tcp_body.
  destruct (armed_timeouts_within_lifetime (now - start) lifetime qt (now - qs) tau) as (A & B & C).
  split; [|split; [|split]]; intro H; [apply A in H|apply B in H|apply C in H|apply C in H]; lia.
Qed.

(* ---------------------------------------------------------------- the accepted question, as text *)
(* the question of an accepted datagram carries a valid name whose case-folded text equals the
   case-folded canonical spelling of the asked name (root dot optional in what the caller passed) *)
Theorem accept_name_is_asked std id qname qtype qclass d fl :
  accept_datagram std id qname qtype qclass d = Ok (Some fl) ->
  exists r1 hd r2 n, rd_header d (mkReader (c_new d) tr_default false) = (r1, Ok (OHeader hd)) /\
    rd_question d true false r1 = (r2, Ok (OQuestion n qtype qclass)) /\
    valid_text n = true /\ fold_case n = fold_case (canon_text qname).
Proof.
  intro H. destruct (accept_sound _ _ _ _ _ _ _ H) as (_ & r1 & hd & n & Eh & _ & _ & _ & Eq & En).
  assert (Hc : cwf d (r_cur r1)).
  { pose proof (rsafe_header d (mkReader (c_new d) tr_default false) (cwf_new d)) as [[Hc _] _]. rewrite Eh in Hc. exact Hc. }
  destruct (rd_question d true false r1) as [r2 q] eqn:E. cbn [snd] in Eq. subst q.
  destruct (question_name_shape d true r1 r2 n qtype qclass Hc E) as [[t Ht] Hv].
  exists r1, hd, r2, n. repeat split; try assumption.
  subst n. rewrite name_eq_str_spec in En. apply name_eq_fold. exact En.
Qed.

(* the async clients arm the call with the configured query lifetime and each attempt with the
   configured query timeout, on all three runtimes *)
Theorem async_durations_are_configured smol cfg_lifetime cfg_qt :
  async_call_duration smol cfg_lifetime cfg_qt = cfg_lifetime /\ async_attempt_duration smol cfg_lifetime cfg_qt = cfg_qt.
Proof. destruct smol; split; reflexivity. Qed.

(* ---------------------------------------------------------------- typed query vs history (C16) *)
(* what query_rrset parses is exactly what the raw query received — the datagram cut to the
   configured buffer size — whatever the reusable buffer held before: no byte of an earlier
   response can appear in the result *)
Theorem typed_input_ignores_history std old d bs :
  lenN old = bs -> typed_parse_input std old d bs = recv_into bs d.
Proof.
  intro Ho. unfold typed_parse_input, recv_over.
  assert (E1 : (if std then std_take_buf_len 0 bs else async_take_buf_len 0 bs) = bs) by (destruct std; reflexivity).
  rewrite E1.
  assert (E2 : (if std then std_rrset_parse_len else async_rrset_parse_len) (lenN (recv_into bs d)) bs = lenN (recv_into bs d))
    by (destruct std; reflexivity).
  rewrite E2. unfold lenN. rewrite Nat2N.id.
  rewrite firstn_app, firstn_all, Nat.sub_diag, firstn_O, app_nil_r. reflexivity.
Qed.

(* ---------------------------------------------------------------- the reusable buffer across typed queries *)
(* self.buf is either the empty Vec (fresh after a take, or lost to a dropped future) or has room
   for the configured size *)
Definition tq_inv (bs : N) (st : N * N) : Prop :=
  (fst st = 0 /\ snd st = 0) \/ (bs <= fst st /\ snd st <= fst st).

Lemma tq_step_safe std bs st slack e : 0 < bs -> tq_inv bs st ->
  match e with TqDone r => r <= bs | _ => True end ->
  snd (tq_step std bs st slack e) = TqRan bs /\ tq_inv bs (fst (tq_step std bs st slack e)).
Proof.
  intros Hbs Hi He. destruct st as [cap len]. unfold tq_inv in *. cbn [fst snd] in Hi.
  unfold tq_step, std_rrset_refuse, async_rrset_refuse, std_take_buf_grow, async_take_buf_grow,
    std_take_buf_reserve_nounderflow, async_take_buf_reserve_nounderflow, std_take_buf_reserve, async_take_buf_reserve,
    std_take_buf_len, async_take_buf_len, std_rrset_parse_len, async_rrset_parse_len.
  destruct std;
    (assert (E0 : (bs =? 0) = false) by lia; rewrite E0;
     destruct (cap <? bs) eqn:Eg;
     [assert (E1 : (cap <=? bs) = true) by lia; rewrite E1; cbn [negb andb];
      destruct (bs - cap <=? cap - len) eqn:Er; [exfalso; lia|];
      assert (E2 : (len + (bs - cap) + slack <? bs) = false) by lia; rewrite E2;
      destruct e as [r| |]; cbn [fst snd];
      [assert (E3 : (len + (bs - cap) + slack <? r) = false) by lia; rewrite E3; cbn [fst snd]; split; [reflexivity|right; lia]
      |split; [reflexivity|right; lia]|split; [reflexivity|left; lia]]
     |cbn [andb];
      assert (E2 : (cap <? bs) = false) by lia; try rewrite E2;
      destruct e as [r| |]; cbn [fst snd];
      [assert (E3 : (cap <? r) = false) by lia; rewrite E3; cbn [fst snd]; split; [reflexivity|right; lia]
      |split; [reflexivity|right; lia]|split; [reflexivity|left; lia]]]).
Qed.

(* every history of completed, failed and dropped typed queries: no query is refused, the unsafe
   set_len is always within the capacity, and the raw query always gets a buffer of exactly the
   configured size — whatever happened before *)
Theorem tq_history_safe std bs : 0 < bs -> forall h st, tq_inv bs st ->
  Forall (fun se => match snd se with TqDone r => r <= bs | _ => True end) h ->
  Forall (fun o => o = TqRan bs) (tq_run std bs st h).
Proof.
  intros Hbs. induction h as [|[slack e] rest IH]; intros st Hi Hall; cbn [tq_run]; [constructor|].
  inversion Hall as [|? ? He Hrest]; subst. cbn [snd] in He.
  destruct (tq_step_safe std bs st slack e Hbs Hi He) as [Ho Hi'].
  destruct (tq_step std bs st slack e) as [st' o]. cbn [fst snd] in *. constructor; [exact Ho|apply IH; assumption].
Qed.

(* the state Client::new leaves: Vec::with_capacity(buffer_size) *)
Lemma tq_inv_new bs cap : bs <= cap -> tq_inv bs (cap, 0).
Proof. intro H. right. cbn. lia. Qed.
