(* Proofs/QuestionsIter.v — the Questions iterator of the iterator API over a message whose
   questions parse (Spec/LinearPass.v): drained, it yields exactly the questions of the linear
   pass, in order, each with the decoded text of the spec's labels, its type and class — the same
   items the cursor-style reader's question() returns (ReaderRefine.step_question_any) — and then
   ends without an error. *)
From Coq Require Import ZArith.
From RsdnsModel Require Import Base GenConst GenCursor GenTypes GenReader GenSpec Cursor Names Labels Header Tracker RData Reader Iter.
From RsdnsModel.Spec Require Import WireName LinearPass.
From RsdnsModel.Proofs Require Import CursorSafe ListN SpecExec ParseSpec ReaderRefine.
From Coq Require Import ZifyBool ZifyN ZifyNat.
Open Scope N_scope.

Section Q.
  Variable msg : list byte.

  Definition qobs (it : aitem) : obs := OQuestion (name_text msg (a_start it)) (a_type it) (a_class it).

  Lemma questions_drain_chain : forall qs p e, chain msg question_at (fun _ => True) p qs e ->
    Forall (fun it => a_fits255 it = true) qs ->
    forall c acc, whole msg c -> pos c = p ->
    questions_drain msg (length qs) c acc = (rev acc ++ map qobs qs, None).
  Proof.
    induction 1 as [p|p it rest e Hf _ Hc IH]; intros Hfit c acc Hw Hp; cbn [length questions_drain map].
    - rewrite app_nil_r. reflexivity.
    - inversion Hfit as [|? ? Hit Hrest]; subst.
      pose proof (question_is_question_at msg c Hw) as Hq. pose proof (question_ref_is_question_at msg c Hw) as Hr.
      rewrite Hf in Hq, Hr. rewrite Hit in Hq. destruct Hq as (ls & r & Es & Hq). destruct Hr as [_ Hs].
      rewrite Hq. rewrite (IH Hrest (c_set_pos c (a_end it)) _ (whole_set_pos msg c _ Hw) eq_refl).
      cbn [rev]. rewrite <- app_assoc. cbn [app]. f_equal. f_equal. f_equal.
      unfold qobs, name_text. rewrite Hs, Es. reflexivity.
  Qed.

  (* MessageIterator::questions() on a message all of whose announced questions parse and fit *)
  Theorem iter_questions_spec nq an ns ar qs rs e1 e2 h :
    parsed msg nq an ns ar qs rs e1 e2 -> lenN qs = nq -> h_qd h = nq ->
    Forall (fun it => a_fits255 it = true) qs ->
    iter_questions msg h = (map qobs qs, None).
  Proof.
    intros (_ & _ & Hq & _) Hl Hh Hfit. unfold iter_questions. rewrite Hh, <- Hl. unfold lenN. rewrite Nat2N.id.
    rewrite (questions_drain_chain qs 12 e1 Hq Hfit (c_with_pos msg HEADER_LENGTH) []); [reflexivity|split; reflexivity|].
    cbn [pos c_with_pos]. apply HEADER_LENGTH_spec.
  Qed.

  (* MessageIterator::new: the answers offset it computes by skipping the announced questions is
     where the questions of the pass end *)
  Lemma c_skip_fwd' c d : pos c + d <= lim c -> c_skip c d = Ok (c_set_pos c (pos c + d)).
  Proof.
    intro H. unfold c_skip, c_len. rewrite cursor_len_spec.
    assert (E : skip_guard (lim c - pos c) d = true) by (apply skip_guard_spec; lia). rewrite E. reflexivity.
  Qed.

  Lemma skip_question_at c it : whole msg c -> question_at msg (pos c) = Some it ->
    m_skip_question msg c = (c_set_pos c (a_end it), Ok tt).
  Proof.
    intros Hw. unfold question_at. pose proof (skip_is_name_at msg c Hw) as Hs.
    destruct (name_at msg (pos c)) as [[r fits]|]; [|discriminate].
    unfold be. destruct (r + 2 <=? lenN msg) eqn:E1; [|discriminate]. destruct (r + 2 + 2 <=? lenN msg) eqn:E2; [|discriminate].
    intro H; inversion H; subst. cbn [a_end].
    unfold m_skip_question, mbind, lift_c, lift. rewrite Hs. cbn [bind].
    destruct Hw as [Hl Ho]. rewrite c_skip_fwd' by (cbn [pos lim c_set_pos]; lia). reflexivity.
  Qed.

  Lemma skip_n_chain : forall qs p e, chain msg question_at (fun _ => True) p qs e ->
    forall c, whole msg c -> pos c = p -> skip_n_questions msg (length qs) c = (c_set_pos c e, Ok tt).
  Proof.
    induction 1 as [p|p it rest e Hf _ Hc IH]; intros c Hw Hp; cbn [length skip_n_questions].
    - unfold mret. subst p. destruct c; reflexivity.
    - unfold mbind. rewrite (skip_question_at c it Hw) by (rewrite Hp; exact Hf).
      rewrite (IH (c_set_pos c (a_end it)) (whole_set_pos msg c _ Hw) eq_refl). reflexivity.
  Qed.

  Theorem iter_new_spec nq an ns ar qs rs e1 e2 h c1 :
    parsed msg nq an ns ar qs rs e1 e2 -> lenN qs = nq ->
    read_header msg (c_new msg) = (c1, Ok h) -> h_qd h = nq -> iter_new msg = Ok (h, e1).
  Proof.
    intros (_ & _ & Hq & _) Hl Hrh Hh. unfold iter_new. rewrite Hrh. cbn [bind]. rewrite Hh, <- Hl. unfold lenN. rewrite Nat2N.id.
    rewrite (skip_n_chain qs 12 e1 Hq (c_with_pos msg HEADER_LENGTH)); [reflexivity|split; reflexivity|].
    cbn [pos c_with_pos]. apply HEADER_LENGTH_spec.
  Qed.
End Q.
