(* Proofs/ReaderRefine.v — the cursor-style reader over a message that the linear pass parses
   completely (Spec/LinearPass.v: every announced question and record header parses and every
   record's data lies inside the message): for EVERY sequence of the documented operations —
   read a question (borrowed flavour), read a record (record_marker + skip_record_data), seek to a
   section whose offset is known — each call succeeds and returns exactly the item the linear pass
   prescribes, and the reader (cursor position, section tracker) represents the prescribed state.
   Composition of Proofs/ParseSpec.v (the parsers compute the spec's items) with
   Proofs/TrackerRefine.v (the tracker refines the counting machine). *)
From Coq Require Import ZArith.
From RsdnsModel Require Import Base GenConst GenCursor GenTypes GenTracker GenReader GenSpec Cursor Names Labels Header Tracker RData Reader Iter.
From RsdnsModel.Spec Require Import WireName LinearPass.
From RsdnsModel.Proofs Require Import CursorSafe ListN Window RoundTrip Defined SpecExec ParseSpec TrackerRefine ReaderTotal.
From Coq Require Import ZifyBool ZifyN ZifyNat.
Open Scope N_scope.

Section RR.
  Variable msg : list byte.
  Hypothesis Hlen : lenN msg <= 65535.
  Hypothesis Hhdr : 12 <= lenN msg.

  (* items laid out back to back, each parsed by [f] where the previous one ended *)
  Inductive chain (f : list byte -> N -> option aitem) (ok : aitem -> Prop) : N -> list aitem -> N -> Prop :=
  | ch_nil p : chain f ok p [] p
  | ch_cons p it rest e : f msg p = Some it -> ok it -> chain f ok (a_end it) rest e -> chain f ok p (it :: rest) e.

  Variables nq an ns ar : N.
  Variables (qs rs : list aitem) (e1 e2 : N).
  Hypothesis Hq : chain question_at (fun _ => True) 12 qs e1.
  Hypothesis Hr : chain record_at (fun it => a_data_ok it = true) e1 rs e2.
  (* the lists are the items the pass parses COMPLETELY: all announced ones, or a prefix (then the
     pass stopped at the first item that does not parse; no record is looked at unless all
     questions parsed) *)
  Hypothesis Hnq : lenN qs <= nq.
  Hypothesis Hshort : lenN qs < nq -> rs = [].
  Hypothesis Hnr : lenN rs <= an + ns + ar.
  Hypothesis Hc1 : nq <= 65535.
  Hypothesis Hc2 : an <= 65535.
  Hypothesis Hc3 : ns <= 65535.
  Hypothesis Hc4 : ar <= 65535.

  Definition items : list aitem := qs ++ rs.
  (* offset of item k; beyond the last item: the end of the last one *)
  Definition P (k : N) : N := match getN items k with Some it => a_start it | None => e2 end.

  (* ---- facts about chains ---- *)
  Lemma question_at_start p it : question_at msg p = Some it -> a_start it = p /\ p < a_end it /\ a_end it <= lenN msg.
  Proof.
    unfold question_at. destruct (name_at msg p) as [[r fits]|] eqn:En; [|discriminate].
    unfold be. destruct (r + 2 <=? lenN msg) eqn:E1; [|discriminate]. destruct (r + 2 + 2 <=? lenN msg) eqn:E2; [|discriminate].
    intro H; inversion H; subst. cbn. split; [reflexivity|].
    (* the name ends after it starts *)
    unfold name_at in En. destruct (spec_name msg p) as [ls r'|] eqn:Es; [|discriminate].
    destruct (forallb _ ls); [|discriminate]. inversion En; subst r'.
    apply spec_name_accept_iff in Es. destruct Es as [_ Hr']. assert (p < r) by (clear - Hr'; induction Hr'; lia). lia.
  Qed.
  Lemma record_at_start p it : record_at msg p = Some it -> a_data_ok it = true -> a_start it = p /\ p < a_end it /\ a_end it <= lenN msg.
  Proof.
    unfold record_at. destruct (name_at msg p) as [[r fits]|] eqn:En; [|discriminate].
    unfold be. destruct (r + 2 <=? lenN msg); [|discriminate]. destruct (r + 2 + 2 <=? lenN msg); [|discriminate].
    destruct (r + 4 + 4 <=? lenN msg); [|discriminate]. destruct (r + 8 + 2 <=? lenN msg); [|discriminate].
    intro H; inversion H; subst. cbn. intro Hd. split; [reflexivity|].
    unfold name_at in En. destruct (spec_name msg p) as [ls r'|] eqn:Es; [|discriminate].
    destruct (forallb _ ls); [|discriminate]. inversion En; subst r'.
    apply spec_name_accept_iff in Es. destruct Es as [_ Hr']. assert (p < r) by (clear - Hr'; induction Hr'; lia). lia.
  Qed.

  Lemma getN_cons_0 {A} (x : A) l : getN (x :: l) 0 = Some x. Proof. reflexivity. Qed.
  Lemma getN_cons_S {A} (x : A) l k : getN (x :: l) (k + 1) = getN l k.
  Proof. unfold getN. replace (N.to_nat (k + 1)) with (S (N.to_nat k)) by lia. reflexivity. Qed.
  Lemma getN_nil {A} k : getN (@nil A) k = None.
  Proof. unfold getN. destruct (N.to_nat k); reflexivity. Qed.

  Lemma chain_get (f : list byte -> N -> option aitem) (ok : aitem -> Prop)
    (Hf : forall p it, f msg p = Some it -> ok it -> a_start it = p /\ p < a_end it /\ a_end it <= lenN msg) :
    forall p its e, chain f ok p its e ->
      p <= e /\ (e <= lenN msg \/ its = []) /\
      (match getN its 0 with Some it => a_start it = p | None => e = p end) /\
      (forall k it, getN its k = Some it ->
         f msg (a_start it) = Some it /\ ok it /\ p <= a_start it /\ a_end it <= e /\
         a_end it = match getN its (k + 1) with Some nx => a_start nx | None => e end).
  Proof.
    induction 1 as [p|p it rest e Hfp Hok Hch IH].
    - split; [lia|]. split; [right; reflexivity|]. split; [rewrite getN_nil; reflexivity|]. intros k it H. rewrite getN_nil in H. discriminate.
    - destruct (Hf _ _ Hfp Hok) as (S1 & S2 & S3). destruct IH as (I1 & I2 & I3 & I4).
      split; [lia|]. split.
      { left. destruct I2 as [I2|I2]; [exact I2|]. subst rest. inversion Hch; subst. exact S3. }
      split; [rewrite getN_cons_0; exact S1|].
      intros k it' H. destruct (N.eq_dec k 0) as [->|Hk].
      + rewrite getN_cons_0 in H. inversion H; subst it'. rewrite S1. split; [exact Hfp|]. split; [exact Hok|]. split; [lia|]. split; [lia|].
        change (0 + 1) with (0 + 1). rewrite (getN_cons_S it rest 0). destruct (getN rest 0) as [nx|]; [symmetry; exact I3|symmetry; exact I3].
      + replace k with ((k - 1) + 1) in H |- * by lia. rewrite getN_cons_S in H. destruct (I4 _ _ H) as (A1 & A2 & A3 & A4 & A5).
        split; [exact A1|]. split; [exact A2|]. split; [lia|]. split; [exact A4|]. rewrite getN_cons_S. exact A5.
  Qed.

  Lemma Hfq : forall p it, question_at msg p = Some it -> True -> a_start it = p /\ p < a_end it /\ a_end it <= lenN msg.
  Proof. intros p it H _. apply question_at_start; assumption. Qed.
  Lemma Hfr : forall p it, record_at msg p = Some it -> a_data_ok it = true -> a_start it = p /\ p < a_end it /\ a_end it <= lenN msg.
  Proof. intros p it H Hd. apply record_at_start; assumption. Qed.

  Lemma getN_app1 {A} (a b : list A) k : k < lenN a -> getN (a ++ b) k = getN a k.
  Proof. apply getN_app_l. Qed.
  Lemma getN_app2 {A} (a b : list A) k : lenN a <= k -> getN (a ++ b) k = getN b (k - lenN a).
  Proof. apply getN_app_r. Qed.
  Lemma getN_none {A} (l : list A) k : lenN l <= k -> getN l k = None.
  Proof. unfold getN, lenN. intro H. apply nth_error_None. lia. Qed.
  Lemma getN_some {A} (l : list A) k : k < lenN l -> exists a, getN l k = Some a.
  Proof. apply getN_Some. Qed.

  (* the offsets of the items *)
  Lemma P_question k it : getN qs k = Some it ->
    P k = a_start it /\ P (k + 1) = a_end it /\ question_at msg (P k) = Some it.
  Proof.
    intro H. pose proof (getN_lt _ _ _ H) as Hk.
    destruct (chain_get _ _ Hfq _ _ _ Hq) as (_ & _ & _ & G). destruct (G _ _ H) as (A1 & _ & _ & _ & A5).
    unfold P, items. rewrite getN_app1 by assumption. rewrite H. split; [reflexivity|]. split; [|exact A1].
    destruct (N.lt_ge_cases (k + 1) (lenN qs)) as [Hlt|Hge].
    - rewrite getN_app1 by assumption. destruct (getN_some qs (k + 1) Hlt) as [nx Hnx]. rewrite Hnx in *. symmetry. exact A5.
    - rewrite getN_app2 by assumption. rewrite (getN_none qs (k + 1) Hge) in A5. replace (k + 1 - lenN qs) with 0 by lia.
      destruct (chain_get _ _ Hfr _ _ _ Hr) as (_ & _ & R3 & _). destruct (getN rs 0) as [r0|]; [rewrite R3; symmetry; exact A5|rewrite R3; symmetry; exact A5].
  Qed.

  Lemma P_record k it : getN rs k = Some it ->
    P (nq + k) = a_start it /\ P (nq + k + 1) = a_end it /\ record_at msg (P (nq + k)) = Some it /\ a_data_ok it = true.
  Proof.
    intro H. pose proof (getN_lt _ _ _ H) as Hk.
    assert (Hfull : lenN qs = nq).
    { destruct (N.lt_ge_cases (lenN qs) nq) as [Hlt|Hge]; [|lia]. rewrite (Hshort Hlt), getN_nil in H. discriminate. }
    destruct (chain_get _ _ Hfr _ _ _ Hr) as (_ & _ & _ & G). destruct (G _ _ H) as (A1 & A2 & _ & _ & A5).
    unfold P, items. rewrite getN_app2 by lia. replace (nq + k - lenN qs) with k by lia. rewrite H.
    split; [reflexivity|]. split; [|split; [exact A1|exact A2]].
    rewrite getN_app2 by lia. replace (nq + k + 1 - lenN qs) with (k + 1) by lia.
    destruct (getN rs (k + 1)) as [nx|]; symmetry; exact A5.
  Qed.

  Lemma P_bounds k : 1 <= P k <= 65535.
  Proof.
    destruct (chain_get _ _ Hfq _ _ _ Hq) as (Q1 & Q2 & _ & GQ). destruct (chain_get _ _ Hfr _ _ _ Hr) as (R1 & R2 & _ & GR).
    assert (He2 : 12 <= e2 <= lenN msg).
    { split; [lia|]. destruct R2 as [R2|R2]; [exact R2|]. subst rs. inversion Hr; subst.
      destruct Q2 as [Q2|Q2]; [lia|]. subst qs. inversion Hq; subst. (* no items at all: e2 = 12; a message has at least the header *)
      lia. }
    unfold P, items. destruct (getN (qs ++ rs) k) as [it|] eqn:E; [|lia].
    destruct (N.lt_ge_cases k (lenN qs)) as [Hlt|Hge].
    - rewrite getN_app1 in E by assumption. destruct (GQ _ _ E) as (A1 & _ & A3 & A4 & _).
      destruct (question_at_start _ _ A1) as (_ & B2 & B3). lia.
    - rewrite getN_app2 in E by assumption. destruct (GR _ _ E) as (A1 & A2 & A3 & A4 & _).
      destruct (record_at_start _ _ A1 A2) as (_ & B2 & B3). lia.
  Qed.

  (* ---------------------------------------------------------------- the reader represents (idx, hw) *)
  Definition InvT := Inv nq an ns ar P.
  Definition RState (r : reader) (idx hw : N) : Prop :=
    whole msg (r_cur r) /\ pos (r_cur r) = P idx /\ InvT (r_tr r) idx hw /\ r_done r = false.

  Lemma rstate_start h c : h_qd h = nq -> h_an h = an -> h_ns h = ns -> h_ar h = ar ->
    whole msg c -> pos c = 12 -> RState (mkReader c (tr_set tr_default h) false) 0 0.
  Proof.
    intros E1 E2 E3 E4 Hw Hp. split; [exact Hw|]. split.
    - cbn [r_cur]. rewrite Hp. unfold P, items.
      destruct (chain_get _ _ Hfq _ _ _ Hq) as (_ & _ & Q3 & _). destruct (chain_get _ _ Hfr _ _ _ Hr) as (_ & _ & R3 & _).
      destruct qs as [|q0 qs'].
      + cbn [app]. inversion Hq; subst. destruct (getN rs 0) as [r0|]; congruence.
      + cbn [app]. rewrite getN_cons_0 in *. symmetry. exact Q3.
    - split; [|reflexivity]. cbn [r_tr]. apply (inv_init_set nq an ns ar P Hc1 Hc2 Hc3 Hc4 P_bounds); assumption.
  Qed.

  (* a question, borrowed flavour *)
  Lemma step_question r idx hw it : RState r idx hw -> getN qs idx = Some it ->
    exists r', rd_question msg false true r = (r', Ok (OQuestionRef (r_cur r) (a_type it) (a_class it))) /\
               RState r' (idx + 1) (idx + 1).
  Proof.
    intros (Hw & Hp & Hi & Hd) Hg. pose proof (getN_lt _ _ _ Hg) as Hlt0. assert (Hlt : idx < nq) by lia.
    destruct (P_question idx it Hg) as (P1 & P2 & P3).
    unfold rd_question. rewrite Hd.
    destruct (counts_spec nq an ns ar P Hc1 Hc2 Hc3 Hc4 P_bounds _ _ _ Hi) as (Cq & _). rewrite Cq.
    assert (Eq : q_none_left (nq - N.min idx nq) = false) by (unfold q_none_left; lia). rewrite Eq.
    unfold run. pose proof (question_ref_is_question_at msg (r_cur r) Hw) as Hqr. rewrite Hp, P3 in Hqr. destruct Hqr as [Hqr _].
    rewrite Hqr. unfold after_question. cbn [r_tr with_cur r_cur pos c_set_pos].
    destruct (question_step nq an ns ar P Hc1 Hc2 Hc3 Hc4 P_bounds _ _ _ Hi Hlt) as (tr' & Et & Hi').
    rewrite <- P2, Et. eexists. split; [reflexivity|].
    split; [apply whole_set_pos; exact Hw|]. split; [reflexivity|]. split; [exact Hi'|exact Hd].
  Qed.

  Lemma c_skip_fwd c d : pos c + d <= lim c -> c_skip c d = Ok (c_set_pos c (pos c + d)).
  Proof.
    intro H. unfold c_skip, c_len. rewrite cursor_len_spec.
    assert (E : skip_guard (lim c - pos c) d = true) by (apply skip_guard_spec; lia). rewrite E. reflexivity.
  Qed.

  (* a record: record_marker followed by skip_record_data *)
  Lemma step_record r idx hw it : RState r idx hw -> nq <= idx -> getN rs (idx - nq) = Some it ->
    let s := section_of (lin nq an ns ar) (idx - nq) in
    let mk := mkMarker (P idx) (a_type_off it) (a_type it) (a_class it) (a_ttl it) (a_rdlen it) s in
    exists r1 r2, rd_marker msg r = (r1, Ok (OMarker mk)) /\ rd_skip_data mk r1 = (r2, Ok OUnit) /\
                  RState r2 (idx + 1) (N.max hw (idx + 1)).
  Proof.
    intros (Hw & Hp & Hi & Hd) Hge Hg. cbv zeta.
    pose proof (getN_lt _ _ _ Hg) as Hlt0. assert (Hlt : idx - nq < an + ns + ar) by lia.
    destruct (P_record (idx - nq) it Hg) as (P1 & P2 & P3 & P4).
    replace (nq + (idx - nq)) with idx in * by lia.
    destruct (record_step nq an ns ar P Hc1 Hc2 Hc3 Hc4 P_bounds _ _ _ Hi Hge ltac:(unfold nrec, lin; cbn; lia)) as (tr1 & En & tr' & Es & Hi').
    set (s := section_of (lin nq an ns ar) (idx - nq)) in *.
    pose proof (marker_is_record_at msg (r_cur r) (P idx) s Hw) as Hm. rewrite Hp, P3 in Hm. destruct Hm as (Hm & M1 & M2 & M3).
    (* record_marker *)
    assert (E1 : rd_marker msg r = (mkReader (c_set_pos (r_cur r) (a_type_off it + 10)) tr1 false,
                                     Ok (OMarker (mkMarker (P idx) (a_type_off it) (a_type it) (a_class it) (a_ttl it) (a_rdlen it) s)))).
    { unfold rd_marker, marker_impl, calc_section. rewrite Hd, Hp, En. unfold bind2, run, latch. cbn [with_tr r_cur r_tr r_done fst snd].
      rewrite Hm. cbn [fst snd]. unfold with_cur, with_tr. cbn [r_cur r_tr r_done]. rewrite Hd. reflexivity. }
    eexists. eexists. split; [exact E1|].
    (* skip_record_data *)
    assert (Hdata : a_type_off it + 10 + a_rdlen it <= lenN msg) by (rewrite P4 in M3; lia).
    destruct Hw as [Hl Ho].
    unfold rd_skip_data, rdata_pos. cbn [r_cur r_done pos c_set_pos m_type_off m_rdlen m_section]. unfold TYPE_TO_RDATA_OFFSET.
    rewrite N.eqb_refl. cbn [negb].
    unfold skip_record_data_impl, after_data, run, mbind, mret, lift_c, lift. cbn [r_cur r_tr with_cur m_rdlen m_section].
    rewrite c_skip_fwd by (cbn [pos lim c_set_pos]; lia). cbn [bind pos c_set_pos r_cur r_tr with_cur].
    replace (a_type_off it + 10 + a_rdlen it) with (P (idx + 1)) by (rewrite P2, M2; reflexivity).
    rewrite Es. split; [reflexivity|].
    split; [split; assumption|]. split; [reflexivity|]. split; [exact Hi'|reflexivity].
  Qed.

  (* seek to a section whose offset is known *)
  Lemma step_seek r idx hw s : RState r idx hw -> s < 3 -> known (lin nq an ns ar) (mkA idx hw false None) s = true ->
    exists r', rd_seek msg s r = (r', Ok OUnit) /\ RState r' (nq + sec_start (lin nq an ns ar) s) hw.
  Proof.
    intros (Hw & Hp & Hi & Hd) Hs Hk.
    destruct (seek_step nq an ns ar P Hc1 Hc2 Hc3 Hc4 P_bounds _ _ _ s Hi Hs) as [Hyes _]. destruct (Hyes Hk) as [Eo Hi'].
    unfold rd_seek. rewrite Hd, Eo. eexists. split; [reflexivity|].
    split; [apply whole_set_pos; exact Hw|]. split; [reflexivity|]. split; [exact Hi'|reflexivity].
  Qed.

  (* ---------------------------------------------------------------- all flavours of the calls *)
  (* questions: single or not, borrowed or owned *)
  Lemma step_question_any single as_ref r idx hw it : RState r idx hw -> getN qs idx = Some it ->
    (single = true -> idx + 1 = nq) -> (as_ref = false -> a_fits255 it = true) ->
    exists r' o, rd_question msg single as_ref r = (r', Ok o) /\ RState r' (idx + 1) (idx + 1) /\
      if as_ref then o = OQuestionRef (r_cur r) (a_type it) (a_class it)
      else exists ls e, spec_name msg (a_start it) = SAccept ls e /\ o = OQuestion (join_labels (map snd ls)) (a_type it) (a_class it).
  Proof.
    intros (Hw & Hp & Hi & Hd) Hg Hsingle Hfits. pose proof (getN_lt _ _ _ Hg) as Hlt0. assert (Hlt : idx < nq) by lia.
    destruct (P_question idx it Hg) as (P1 & P2 & P3).
    unfold rd_question. rewrite Hd.
    destruct (counts_spec nq an ns ar P Hc1 Hc2 Hc3 Hc4 P_bounds _ _ _ Hi) as (Cq & _). rewrite Cq.
    assert (Eq : (if single then q_not_single (nq - N.min idx nq) else q_none_left (nq - N.min idx nq)) = false).
    { destruct single; [specialize (Hsingle eq_refl); unfold q_not_single|unfold q_none_left]; lia. }
    rewrite Eq. unfold run.
    destruct (question_step nq an ns ar P Hc1 Hc2 Hc3 Hc4 P_bounds _ _ _ Hi Hlt) as (tr' & Et & Hi').
    destruct as_ref.
    - pose proof (question_ref_is_question_at msg (r_cur r) Hw) as Hqr. rewrite Hp, P3 in Hqr. destruct Hqr as [Hqr _].
      rewrite Hqr. unfold after_question. cbn [r_tr with_cur r_cur pos c_set_pos]. rewrite <- P2, Et.
      eexists. eexists. split; [reflexivity|]. split; [|reflexivity].
      split; [apply whole_set_pos; exact Hw|]. split; [reflexivity|]. split; [exact Hi'|exact Hd].
    - pose proof (question_is_question_at msg (r_cur r) Hw) as Hqr. rewrite Hp, P3, (Hfits eq_refl) in Hqr.
      destruct Hqr as (ls & e & Es & Hqr). rewrite Hqr. unfold after_question. cbn [r_tr with_cur r_cur pos c_set_pos]. rewrite <- P2, Et.
      eexists. eexists. split; [reflexivity|]. split.
      + split; [apply whole_set_pos; exact Hw|]. split; [reflexivity|]. split; [exact Hi'|exact Hd].
      + exists ls, e. rewrite <- P1. split; [exact Es|reflexivity].
  Qed.

  (* an owned question whose name does not fit 255 octets: the call fails, the reader is exhausted *)
  Lemma fail_question_owned single r idx hw it : RState r idx hw -> getN qs idx = Some it ->
    (single = true -> idx + 1 = nq) -> a_fits255 it = false ->
    exists r' e, rd_question msg single false r = (r', Err e) /\ r_done r' = true.
  Proof.
    intros (Hw & Hp & Hi & Hd) Hg Hsingle Hfits. pose proof (getN_lt _ _ _ Hg) as Hlt0. assert (Hlt : idx < nq) by lia.
    destruct (P_question idx it Hg) as (P1 & P2 & P3).
    unfold rd_question. rewrite Hd.
    destruct (counts_spec nq an ns ar P Hc1 Hc2 Hc3 Hc4 P_bounds _ _ _ Hi) as (Cq & _). rewrite Cq.
    assert (Eq : (if single then q_not_single (nq - N.min idx nq) else q_none_left (nq - N.min idx nq)) = false).
    { destruct single; [specialize (Hsingle eq_refl); unfold q_not_single|unfold q_none_left]; lia. }
    rewrite Eq. unfold run.
    pose proof (question_is_question_at msg (r_cur r) Hw) as Hqr. rewrite Hp, P3, Hfits in Hqr.
    destruct Hqr as (c' & e & Hqr). rewrite Hqr. unfold after_question. eexists. exists e. split; reflexivity.
  Qed.

  (* records: the state between the header call and the data call *)
  Definition mk_of (idx : N) (it : aitem) : marker :=
    mkMarker (P idx) (a_type_off it) (a_type it) (a_class it) (a_ttl it) (a_rdlen it) (section_of (lin nq an ns ar) (idx - nq)).
  Definition RMid (r1 : reader) (idx hw : N) (it : aitem) : Prop :=
    whole msg (r_cur r1) /\ pos (r_cur r1) = a_type_off it + 10 /\ r_done r1 = false /\
    a_type_off it + 10 + a_rdlen it = P (idx + 1) /\ P (idx + 1) <= lenN msg /\
    exists tr', section_read (r_tr r1) (section_of (lin nq an ns ar) (idx - nq)) (P (idx + 1)) = Ok tr' /\
                InvT tr' (idx + 1) (N.max hw (idx + 1)).

  (* the three header flavours return the prescribed header and lead to RMid *)
  Lemma step_header r idx hw it : RState r idx hw -> nq <= idx -> getN rs (idx - nq) = Some it ->
    (exists r1, rd_marker msg r = (r1, Ok (OMarker (mk_of idx it))) /\ RMid r1 idx hw it) /\
    (exists r1, rd_header_ref msg r = (r1, Ok (OHeaderRef (r_cur r) (mk_of idx it))) /\ RMid r1 idx hw it) /\
    (forall nk, a_fits255 it = true ->
       exists r1 ls e, spec_name msg (a_start it) = SAccept ls e /\
         rd_header_n msg nk r = (r1, Ok (OHeaderN (join_labels (map snd ls)) (mk_of idx it))) /\ RMid r1 idx hw it) /\
    (forall nk, a_fits255 it = false -> exists r1 e, rd_header_n msg nk r = (r1, Err e) /\ r_done r1 = true).
  Proof.
    intros (Hw & Hp & Hi & Hd) Hge Hg.
    pose proof (getN_lt _ _ _ Hg) as Hlt0. assert (Hlt : idx - nq < an + ns + ar) by lia.
    destruct (P_record (idx - nq) it Hg) as (P1 & P2 & P3 & P4).
    replace (nq + (idx - nq)) with idx in * by lia.
    destruct (record_step nq an ns ar P Hc1 Hc2 Hc3 Hc4 P_bounds _ _ _ Hi Hge ltac:(unfold nrec, lin; cbn; lia)) as (tr1 & En & tr' & Es & Hi').
    set (s := section_of (lin nq an ns ar) (idx - nq)) in *.
    pose proof (marker_is_record_at msg (r_cur r) (P idx) s Hw) as Hm. rewrite Hp, P3 in Hm. destruct Hm as (Hm & M1 & M2 & M3).
    assert (Hdata : a_type_off it + 10 + a_rdlen it <= lenN msg) by (rewrite P4 in M3; lia).
    assert (Hmid : forall c0, whole msg c0 -> RMid (mkReader (c_set_pos c0 (a_type_off it + 10)) tr1 false) idx hw it).
    { intros c0 Hw0. split; [apply whole_set_pos; exact Hw0|]. split; [reflexivity|]. split; [reflexivity|].
      split; [rewrite P2, M2; reflexivity|]. split; [rewrite P2, M2; exact Hdata|]. exists tr'. split; [exact Es|exact Hi']. }
    split; [|split; [|split]].
    - eexists. split; [|apply (Hmid (r_cur r) Hw)].
      unfold rd_marker, marker_impl, calc_section. rewrite Hd, Hp, En. unfold bind2, run, latch. cbn [with_tr r_cur r_tr r_done fst snd].
      rewrite Hm. cbn [fst snd]. unfold with_cur, with_tr. cbn [r_cur r_tr r_done]. rewrite Hd. reflexivity.
    - eexists. split; [|apply (Hmid (r_cur r) Hw)].
      unfold rd_header_ref, header_ref_impl, calc_section. rewrite Hd, Hp, En. unfold bind2, run, latch. cbn [with_tr r_cur r_tr r_done fst snd].
      unfold mbind, mret in Hm |- *. destruct (lift_c (skip_name msg) (r_cur r)) as [c1 x1]. destruct x1; try (inversion Hm; fail).
      destruct (m_raw_marker msg (P idx) s c1) as [c2 x2]. destruct x2; inversion Hm; subst.
      cbn [fst snd]. unfold with_cur, with_tr. cbn [r_cur r_tr r_done]. rewrite Hd. reflexivity.
    - intros nk Hfits. pose proof (header_n_is_record_at msg nk (r_cur r) (P idx) s Hw) as Hn. rewrite Hp, P3, Hfits in Hn.
      destruct Hn as (ls & e & Esn & Hn). eexists. exists ls, e. rewrite <- P1. split; [exact Esn|]. split; [|apply (Hmid (r_cur r) Hw)].
      unfold rd_header_n, header_n_impl, calc_section. rewrite Hd, Hp, En. unfold bind2, run, latch. cbn [with_tr r_cur r_tr r_done fst snd].
      rewrite Hn. cbn [fst snd]. unfold with_cur, with_tr. cbn [r_cur r_tr r_done]. rewrite Hd. reflexivity.
    - intros nk Hfits. pose proof (header_n_is_record_at msg nk (r_cur r) (P idx) s Hw) as Hn. rewrite Hp, P3, Hfits in Hn.
      destruct Hn as (c' & e & Hn). eexists. exists e.
      unfold rd_header_n, header_n_impl, calc_section. rewrite Hd, Hp, En. unfold bind2, run, latch. cbn [with_tr r_cur r_tr r_done fst snd].
      rewrite Hn. cbn [fst snd]. split; reflexivity.
  Qed.

  (* the data calls, given the marker of the header call, consume the record *)
  Lemma step_data r1 idx hw it : RMid r1 idx hw it ->
    (exists r2, rd_skip_data (mk_of idx it) r1 = (r2, Ok OUnit) /\ RState r2 (idx + 1) (N.max hw (idx + 1))) /\
    (exists r2, rd_data_bytes msg (mk_of idx it) r1 =
                  (r2, Ok (OBytes (a_type_off it + 10) (subN msg (a_type_off it + 10) (a_rdlen it)))) /\
                RState r2 (idx + 1) (N.max hw (idx + 1))) /\
    (a_type it = T_OPT ->
     exists r2, rd_opt (mk_of idx it) r1 = (r2, Ok (OOpt (opt_from_msg (a_class it) (a_ttl it)))) /\
                RState r2 (idx + 1) (N.max hw (idx + 1))) /\
    (forall ty r2 x, read_rdata msg ty (a_rdlen it) <> None -> rd_data msg ty (mk_of idx it) r1 = (r2, x) ->
       match x with
       | Ok o => (exists d, o = ORData d) /\ RState r2 (idx + 1) (N.max hw (idx + 1))
       | _ => r_done r2 = true
       end).
  Proof.
    intros (Hw & Hp & Hd & Hend & Hin & tr' & Es & Hi'). pose proof Hw as [Hl Ho].
    assert (Hpos : negb (pos (r_cur r1) =? rdata_pos (mk_of idx it)) = false).
    { unfold rdata_pos, mk_of. cbn [m_type_off]. unfold TYPE_TO_RDATA_OFFSET. rewrite Hp, N.eqb_refl. reflexivity. }
    assert (Hfinal : RState (with_tr (with_cur r1 (c_set_pos (r_cur r1) (P (idx + 1)))) tr') (idx + 1) (N.max hw (idx + 1))).
    { split; [apply whole_set_pos; exact Hw|]. split; [reflexivity|]. split; [exact Hi'|exact Hd]. }
    split; [|split; [|split]].
    - eexists. split; [|exact Hfinal].
      unfold rd_skip_data. rewrite Hpos, Hd. unfold skip_record_data_impl, after_data, run, mbind, mret, lift_c, lift.
      cbn [mk_of m_rdlen m_section]. rewrite c_skip_fwd by lia. cbn [bind]. rewrite Hp, Hend. cbn [with_cur r_cur r_tr pos c_set_pos].
      rewrite Es. reflexivity.
    - eexists. split; [|exact Hfinal].
      unfold rd_data_bytes. rewrite Hpos, Hd. unfold after_data, run, lift. cbn [mk_of m_rdlen m_section].
      rewrite (c_slice_fwd msg (r_cur r1) (a_rdlen it) (whole_cwf msg _ Hw)) by lia. cbn [bind]. rewrite Hp, Hend.
      cbn [with_cur r_cur r_tr pos c_set_pos]. rewrite Es. reflexivity.
    - intro Ht. eexists. split; [|exact Hfinal].
      unfold rd_opt. rewrite Hpos, Hd. cbn [mk_of m_rtype]. rewrite Ht, N.eqb_refl. cbn [negb].
      unfold after_data, run, mbind, mret, lift_c, lift. cbn [mk_of m_rdlen m_section m_rclass m_ttl]. rewrite c_skip_fwd by lia. cbn [bind].
      rewrite Hp, Hend. cbn [with_cur r_cur r_tr pos c_set_pos]. rewrite Es. reflexivity.
    - intros ty r2 x Hty. unfold rd_data. cbn [mk_of m_rdlen]. destruct (read_rdata msg ty (a_rdlen it)) as [m|] eqn:Er; [|congruence].
      fold (mk_of idx it). rewrite Hpos, Hd. unfold after_data, run, mbind, mret.
      destruct (m (r_cur r1)) as [c2 y] eqn:Em. destruct y as [d| | | | |]; try (intro H; inversion H; subst; reflexivity).
      destruct (read_rdata_exact msg ty _ m _ _ _ Er (whole_cwf msg _ Hw) Em) as (_ & X1 & X2 & X3 & _).
      assert (Ec2 : c2 = c_set_pos (r_cur r1) (P (idx + 1))).
      { destruct c2 as [l p o]. cbn [pos lim orig] in X1, X2, X3. subst l o. unfold c_set_pos. rewrite Ho. f_equal. lia. }
      subst c2. cbn [with_cur r_cur r_tr pos c_set_pos mk_of m_section]. rewrite Es.
      intro H; inversion H; subst. split; [eauto|exact Hfinal].
  Qed.

  (* every parsed record occupies at least one octet: there are at most |msg| of them *)
  Lemma rs_len_le : lenN rs <= lenN msg.
  Proof.
    assert (G : forall p l e, chain record_at (fun it => a_data_ok it = true) p l e -> p + lenN l <= e /\ (l <> [] -> e <= lenN msg)).
    { induction 1 as [p|p it rest e Hf Hok Hc [IH1 IH2]]; [split; [unfold lenN; cbn; lia|congruence]|].
      destruct (record_at_start _ _ Hf Hok) as (B1 & B2 & B3). unfold lenN in *. cbn [length]. split; [lia|]. intros _.
      destruct rest; [inversion Hc; subst; lia|apply IH2; discriminate]. }
    destruct rs as [|x l] eqn:E; [unfold lenN; cbn; lia|]. rewrite <- E in *. destruct (G _ _ _ Hr) as [G1 G2].
    specialize (G2 ltac:(rewrite E; discriminate)). lia.
  Qed.

  (* the remaining-counts the reader reports in a represented state *)
  Lemma counts_reader r idx hw : RState r idx hw ->
    rd_questions_count r = Ok (ONum (nq - N.min idx nq)) /\
    rd_records_count_in 0 r = Ok (ONum (an - rd nq an ns ar idx 0)) /\
    rd_records_count_in 1 r = Ok (ONum (ns - rd nq an ns ar idx 1)) /\
    rd_records_count_in 2 r = Ok (ONum (ar - rd nq an ns ar idx 2)) /\
    rd_records_count r = Ok (ONum ((an - rd nq an ns ar idx 0) + (ns - rd nq an ns ar idx 1) + (ar - rd nq an ns ar idx 2))).
  Proof.
    intros (Hw & Hp & Hi & Hd).
    destruct (counts_spec nq an ns ar P Hc1 Hc2 Hc3 Hc4 P_bounds _ _ _ Hi) as (Cq & C0 & C1 & C2 & Ca).
    unfold rd_questions_count, rd_records_count_in, rd_records_count. rewrite Hd. cbn [negb].
    rewrite Cq, C0, C1, C2, Ca. cbn [bind]. repeat split; reflexivity.
  Qed.

  (* ---------------------------------------------------------------- the Records iterator *)
  (* the iterator API's records(): its own parser and loop (records.rs), the same tracker *)
  (* the iterator never seeks and never asks for questions: of its tracker only the three record
     counters matter *)
  Definition secs_at (idx : N) : tri counts :=
    mkTri (mkCounts an (rd nq an ns ar idx 0)) (mkCounts ns (rd nq an ns ar idx 1)) (mkCounts ar (rd nq an ns ar idx 2)).
  Definition IState (it : records_it) (idx hw : N) : Prop :=
    whole msg (ri_cur it) /\ pos (ri_cur it) = P idx /\ twf (ri_tr it) /\ secs (ri_tr it) = secs_at idx.

  Lemma iter_tracker_step tr idx p p' : twf tr -> secs tr = secs_at idx -> nq <= idx -> idx - nq < an + ns + ar ->
    exists tr1 tr', next_section tr p = (tr1, Some (section_of (lin nq an ns ar) (idx - nq))) /\
      section_read tr1 (section_of (lin nq an ns ar) (idx - nq)) p' = Ok tr' /\ twf tr' /\ secs tr' = secs_at (idx + 1).
  Proof.
    intros Ht Hs Hge Hlt. set (s := section_of (lin nq an ns ar) (idx - nq)).
    assert (Hs3 : s < 3) by (unfold s, section_of; repeat destruct (_ <? _); lia).
    pose proof (next_section_spec tr p Ht) as Hn. destruct (next_section tr p) as [tr1 so] eqn:En. destruct Hn as (N1 & N2 & N3 & _).
    assert (Hso : so = Some s).
    { pose proof (next_section_first tr p s Hs3) as Hf. rewrite En in Hf. cbn [snd] in Hf. apply Hf.
      - intros s' Hs'. rewrite Hs. unfold s, section_of, lin in *. cbn [l_an l_ns] in *. unfold secs_at, rd, sec_start, sec_count, lin. cbn [l_an l_ns l_ar].
        destruct (idx - nq <? an) eqn:E0; [lia|]. destruct (idx - nq <? an + ns) eqn:E1;
          (assert (s' = 0 \/ s' = 1) as [-> | ->] by lia); cbn [tget t0 t1 t2 read total]; lia.
      - rewrite Hs. unfold s, section_of, lin. cbn [l_an l_ns]. unfold secs_at, rd, sec_start, sec_count, lin. cbn [l_an l_ns l_ar].
        destruct (idx - nq <? an) eqn:E0; [cbn [tget t0 read total]; lia|]. destruct (idx - nq <? an + ns) eqn:E1; cbn [tget t1 t2 read total]; lia. }
    subst so. exists tr1.
    assert (Hlt' : read (tget (secs tr1) s) < total (tget (secs tr1) s)).
    { rewrite N1, Hs. unfold s, section_of, lin. cbn [l_an l_ns]. unfold secs_at, rd, sec_start, sec_count, lin. cbn [l_an l_ns l_ar].
      destruct (idx - nq <? an) eqn:E0; [cbn [tget t0 read total]; lia|]. destruct (idx - nq <? an + ns) eqn:E1; cbn [tget t1 t2 read total]; lia. }
    destruct (section_read_ok tr1 s p' N3 Hlt') as (tr' & Es & Ht'). exists tr'. split; [reflexivity|]. split; [exact Es|]. split; [exact Ht'|].
    destruct (section_read_secs _ _ _ _ Es) as [S1 _]. rewrite S1, N1, Hs.
    unfold s, section_of, lin. cbn [l_an l_ns]. unfold secs_at, rd, sec_start, sec_count, lin. cbn [l_an l_ns l_ar].
    destruct (idx - nq <? an) eqn:E0; [|destruct (idx - nq <? an + ns) eqn:E1]; cbn [tset tget t0 t1 t2 read total]; f_equal; f_equal; lia.
  Qed.

  Definition skip_it (x : aitem) : bool := iter_skip_unknown (class_defined (a_class x)) (type_defined (a_type x)).
  (* the typed decode of the data of record x, by the decoder of its own TYPE *)
  Definition decoded (x : aitem) : option rdata :=
    match read_rdata msg (a_type x) (a_rdlen x) with
    | Some m => match snd (m (c_with_pos msg (a_type_off x + 10))) with Ok d => Some d | _ => None end
    | None => None
    end.
  Definition rr_of (k : N) (x : aitem) (d : rdata) : rr :=
    mkRR (section_of (lin nq an ns ar) k) (name_text msg (a_start x)) (a_class x) (a_type x) (a_ttl x) d.

  (* what records() yields over records k, k+1, ...: records of unknown type or class are passed
     over silently; every other record appears with section, owner text, class, type, TTL and its
     typed data; None if some such record has an owner over 255 octets or data that does not decode *)
  Fixpoint iter_items (k : N) (its : list aitem) : option (list rr) :=
    match its with
    | [] => Some []
    | x :: rest =>
      if skip_it x then iter_items (k + 1) rest
      else if a_fits255 x then
        match decoded x, iter_items (k + 1) rest with
        | Some d, Some l => Some (rr_of k x d :: l)
        | _, _ => None
        end
      else None
    end.

  Lemma whole_is c : whole msg c -> c = c_with_pos msg (pos c).
  Proof. destruct c as [l p o]. unfold whole, c_with_pos. cbn. intros [-> ->]. reflexivity. Qed.

  Lemma next_section_end tr idx p : secs tr = secs_at idx -> nq + (an + ns + ar) <= idx -> snd (next_section tr p) = None.
  Proof.
    intros Hs Hend. unfold next_section, ns_try, ns_has_unread. rewrite Hs. unfold secs_at. cbn [tget t0 t1 t2 read total].
    unfold rd, sec_start, sec_count, lin. cbn [l_an l_ns l_ar].
    destruct (N.min (idx - nq - 0) an <? an) eqn:E0; [lia|]. destruct (N.min (idx - nq - an) ns <? ns) eqn:E1; [lia|].
    destruct (N.min (idx - nq - (an + ns)) ar <? ar) eqn:E2; [lia|]. reflexivity.
  Qed.

  (* one record, passed over *)
  Lemma iter_step_skip it idx hw x f : IState it idx hw -> nq <= idx -> getN rs (idx - nq) = Some x -> skip_it x = true ->
    exists it', records_read_impl msg (S f) it = records_read_impl msg f it' /\ IState it' (idx + 1) (N.max hw (idx + 1)).
  Proof.
    intros (Hw & Hp & Ht & Hsec) Hge Hg Hsk. pose proof (getN_lt _ _ _ Hg) as Hlt0.
    destruct (P_record (idx - nq) x Hg) as (P1 & P2 & P3 & P4). replace (nq + (idx - nq)) with idx in * by lia.
    destruct (iter_tracker_step (ri_tr it) idx (P idx) (P (idx + 1)) Ht Hsec Hge ltac:(lia)) as (tr1 & tr' & En & Es & Ht' & Hsec').
    pose proof (iter_header_is_record_at msg (ri_cur it) Hw) as Hh. rewrite Hp, P3 in Hh. destruct Hh as (Hh & _ & M1 & M2 & M3).
    assert (Hdata : a_type_off x + 10 + a_rdlen x <= lenN msg) by (rewrite P4 in M3; lia).
    cbn [records_read_impl]. rewrite Hp, En. rewrite <- Hp, Hh. unfold skip_it in Hsk. rewrite Hsk.
    destruct Hw as [Hl Ho]. rewrite c_skip_fwd by (cbn [pos lim c_set_pos]; lia). cbn [pos c_set_pos].
    replace (a_type_off x + 10 + a_rdlen x) with (P (idx + 1)) by (rewrite P2, M2; reflexivity). rewrite Es.
    eexists. split; [reflexivity|]. split; [split; assumption|]. split; [reflexivity|]. split; assumption.
  Qed.

  (* one record, yielded *)
  Lemma iter_step_item it idx hw x d f : IState it idx hw -> nq <= idx -> getN rs (idx - nq) = Some x ->
    skip_it x = false -> a_fits255 x = true -> decoded x = Some d ->
    exists it', records_read_impl msg (S f) it = (it', Ok (RItem (rr_of (idx - nq) x d))) /\ IState it' (idx + 1) (N.max hw (idx + 1)).
  Proof.
    intros (Hw & Hp & Ht & Hsec) Hge Hg Hsk Hfit Hdec. pose proof (getN_lt _ _ _ Hg) as Hlt0.
    destruct (P_record (idx - nq) x Hg) as (P1 & P2 & P3 & P4). replace (nq + (idx - nq)) with idx in * by lia.
    destruct (iter_tracker_step (ri_tr it) idx (P idx) (P (idx + 1)) Ht Hsec Hge ltac:(lia)) as (tr1 & tr' & En & Es & Ht' & Hsec').
    pose proof (iter_header_is_record_at msg (ri_cur it) Hw) as Hh. rewrite Hp, P3 in Hh. destruct Hh as (Hh & Hna & M1 & M2 & M3).
    cbn [records_read_impl]. rewrite Hp, En. rewrite <- Hp, Hh. unfold skip_it in Hsk. rewrite Hsk.
    unfold decoded in Hdec. destruct (read_rdata msg (a_type x) (a_rdlen x)) as [m|] eqn:Er; [|discriminate].
    (* the owner name, decoded from a clone of the cursor *)
    pose proof Hw as [Hl Ho].
    assert (Ecl : c_clone_with_pos (c_set_pos (ri_cur it) (a_type_off x + 10)) (pos (ri_cur it)) = c_with_pos msg (P idx)).
    { unfold c_clone_with_pos, c_with_pos, c_set_pos. cbn [orig lim]. rewrite Ho, Hl, Hp. reflexivity. }
    rewrite Ecl.
    pose proof (read_is_name_at msg Inline (c_with_pos msg (P idx)) ltac:(split; reflexivity)) as Hn.
    cbn [pos c_with_pos] in Hn. rewrite Hna, Hfit in Hn. destruct Hn as (ls & Esn & Hn). rewrite Hn.
    (* the data *)
    assert (Ec1 : c_set_pos (ri_cur it) (a_type_off x + 10) = c_with_pos msg (a_type_off x + 10)).
    { unfold c_set_pos, c_with_pos. rewrite Hl, Ho. reflexivity. }
    rewrite Ec1. destruct (m (c_with_pos msg (a_type_off x + 10))) as [c2 y] eqn:Em. cbn [snd] in Hdec.
    destruct y as [d'| | | | |]; try discriminate. inversion Hdec; subst d'.
    assert (Hwc : whole msg (c_with_pos msg (a_type_off x + 10))) by (split; reflexivity).
    destruct (read_rdata_exact msg _ _ m _ _ _ Er (whole_cwf msg _ Hwc) Em) as (_ & X1 & X2 & X3 & _).
    assert (Ec2 : c2 = c_with_pos msg (P (idx + 1))).
    { destruct c2 as [l p o]. cbn [pos lim orig c_with_pos] in X1, X2, X3. subst l o. unfold c_with_pos. f_equal. rewrite P2, M2. lia. }
    subst c2. cbn [pos c_with_pos]. rewrite Es.
    eexists. split.
    - unfold rr_of, name_text. rewrite P1 in Esn. rewrite Esn. reflexivity.
    - split; [split; reflexivity|]. split; [reflexivity|]. split; assumption.
  Qed.

  (* no record left *)
  Lemma iter_step_end it idx hw f : IState it idx hw -> nq + (an + ns + ar) <= idx ->
    exists it', records_read_impl msg (S f) it = (it', Ok RNone).
  Proof.
    intros (Hw & Hp & Ht & Hsec) Hend. cbn [records_read_impl].
    pose proof (next_section_end (ri_tr it) idx (pos (ri_cur it)) Hsec Hend) as E.
    destruct (next_section (ri_tr it) (pos (ri_cur it))) as [tr1 so]. cbn [snd] in E. subst so. eauto.
  Qed.

  (* one record that is neither passed over nor decodable: next() returns an error *)
  Lemma iter_step_fail it idx hw x f : IState it idx hw -> nq <= idx -> getN rs (idx - nq) = Some x ->
    skip_it x = false -> a_fits255 x = false \/ decoded x = None ->
    exists it' e, records_read_impl msg (S f) it = (it', Err e).
  Proof.
    intros (Hw & Hp & Ht & Hsec) Hge Hg Hsk Hbad. pose proof (getN_lt _ _ _ Hg) as Hlt0.
    destruct (P_record (idx - nq) x Hg) as (P1 & P2 & P3 & P4). replace (nq + (idx - nq)) with idx in * by lia.
    destruct (iter_tracker_step (ri_tr it) idx (P idx) (P (idx + 1)) Ht Hsec Hge ltac:(lia)) as (tr1 & tr' & En & Es & Ht' & Hsec').
    pose proof (iter_header_is_record_at msg (ri_cur it) Hw) as Hh. rewrite Hp, P3 in Hh. destruct Hh as (Hh & Hna & M1 & M2 & M3).
    cbn [records_read_impl]. rewrite Hp, En. rewrite <- Hp, Hh. unfold skip_it in Hsk. rewrite Hsk.
    unfold decoded in Hbad. destruct (read_rdata msg (a_type x) (a_rdlen x)) as [m|] eqn:Er; [|eauto].
    pose proof Hw as [Hl Ho].
    assert (Ecl : c_clone_with_pos (c_set_pos (ri_cur it) (a_type_off x + 10)) (pos (ri_cur it)) = c_with_pos msg (P idx)).
    { unfold c_clone_with_pos, c_with_pos, c_set_pos. cbn [orig lim]. rewrite Ho, Hl, Hp. reflexivity. }
    rewrite Ecl.
    pose proof (read_is_name_at msg Inline (c_with_pos msg (P idx)) ltac:(split; reflexivity)) as Hn.
    cbn [pos c_with_pos] in Hn. rewrite Hna in Hn.
    destruct (a_fits255 x) eqn:Efit.
    - destruct Hn as (ls & Esn & Hn). rewrite Hn.
      assert (Ec1 : c_set_pos (ri_cur it) (a_type_off x + 10) = c_with_pos msg (a_type_off x + 10)).
      { unfold c_set_pos, c_with_pos. rewrite Hl, Ho. reflexivity. }
      rewrite Ec1. destruct Hbad as [Hbad|Hbad]; [discriminate|].
      assert (Hwc : whole msg (c_with_pos msg (a_type_off x + 10))) by (split; reflexivity).
      pose proof (read_rdata_defined msg _ _ m Er _ (whole_cwf msg _ Hwc) I) as [_ Dd].
      destruct (m (c_with_pos msg (a_type_off x + 10))) as [c2 y]. cbn [snd] in Hbad, Dd.
      destruct y as [d| | | | |]; try discriminate; try (exfalso; exact Dd). eauto.
    - destruct Hn as [e Hn]. rewrite Hn. eauto.
  Qed.

  (* records k.. of the message, as a suffix of rs *)
  Definition suffix_at (k : N) (rest : list aitem) : Prop := forall j, getN rest j = getN rs (k + j).
  Lemma suffix_tail k x rest : suffix_at k (x :: rest) -> getN rs k = Some x /\ suffix_at (k + 1) rest.
  Proof.
    intro H. split; [pose proof (H 0) as H0; rewrite getN_cons_0 in H0; replace (k + 0) with k in H0 by lia; symmetry; exact H0|].
    intro j. rewrite <- (getN_cons_S x rest j), (H (j + 1)). f_equal. lia.
  Qed.

  (* one call of next(): passes over records of unknown type/class, then yields the next record or the end *)
  Lemma read_impl_run : forall rest k f it hw, IState it (nq + k) hw -> suffix_at k rest -> k + lenN rest = an + ns + ar ->
    (length rest < f)%nat ->
    forall l, iter_items k rest = Some l ->
    match l with
    | [] => exists it', records_read_impl msg f it = (it', Ok RNone)
    | y :: l' => exists it' k' rest' hw', records_read_impl msg f it = (it', Ok (RItem y)) /\
                   IState it' (nq + k') hw' /\ suffix_at k' rest' /\ k' + lenN rest' = an + ns + ar /\
                   (length rest' < length rest)%nat /\ iter_items k' rest' = Some l'
    end.
  Proof.
    induction rest as [|x rest IH]; intros k f it hw Hs Hsuf Hk Hf l Hit; (destruct f as [|f]; [cbn in Hf; lia|]); cbn [iter_items] in Hit.
    - inversion Hit; subst. apply (iter_step_end it (nq + k) hw f Hs). unfold lenN in Hk. cbn in Hk. lia.
    - destruct (suffix_tail _ _ _ Hsuf) as [Hg Hsuf'].
      assert (Hk' : k + 1 + lenN rest = an + ns + ar) by (unfold lenN in *; cbn [length] in Hk; lia).
      destruct (skip_it x) eqn:Esk.
      + destruct (iter_step_skip it (nq + k) hw x f Hs ltac:(lia) ltac:(replace (nq + k - nq) with k by lia; exact Hg) Esk) as (it1 & E1 & S1).
        rewrite E1. replace (nq + k + 1) with (nq + (k + 1)) in S1 by lia.
        specialize (IH (k + 1) f it1 _ S1 Hsuf' Hk' ltac:(cbn in Hf; lia) l Hit).
        destruct l as [|y l']; [exact IH|].
        destruct IH as (it' & k' & rest' & hw' & A1 & A2 & A3 & A4 & A5 & A6). exists it', k', rest', hw'.
        repeat (split; [assumption|]). split; [cbn; lia|assumption].
      + destruct (a_fits255 x) eqn:Efit; [|discriminate]. destruct (decoded x) as [d|] eqn:Ed; [|discriminate].
        destruct (iter_items (k + 1) rest) as [l0|] eqn:El0; [|discriminate]. inversion Hit; subst l.
        destruct (iter_step_item it (nq + k) hw x d f Hs ltac:(lia) ltac:(replace (nq + k - nq) with k by lia; exact Hg) Esk Efit Ed) as (it1 & E1 & S1).
        replace (nq + k - nq) with k in E1 by lia. replace (nq + k + 1) with (nq + (k + 1)) in S1 by lia.
        exists it1, (k + 1), rest, (N.max hw (nq + k + 1)). replace (nq + (k + 1)) with (nq + k + 1) in S1 |- * by lia.
        split; [exact E1|]. split; [exact S1|]. split; [exact Hsuf'|]. split; [exact Hk'|]. split; [cbn; lia|exact El0].
  Qed.

  (* records() drained *)
  Lemma drain_spec : forall n rest k it hw acc l, IState it (nq + k) hw -> suffix_at k rest -> k + lenN rest = an + ns + ar ->
    (length rest < n)%nat -> (length rest < iter_fuel msg)%nat -> iter_items k rest = Some l ->
    records_drain msg n it acc = Ok (rev acc ++ l, None).
  Proof.
    induction n as [|n IH]; intros rest k it hw acc l Hs Hsuf Hk Hn Hf Hit; [lia|]. cbn [records_drain].
    pose proof (read_impl_run rest k (iter_fuel msg) it hw Hs Hsuf Hk Hf l Hit) as Hrun.
    destruct l as [|y l'].
    - destruct Hrun as (it' & E). rewrite E. rewrite app_nil_r. reflexivity.
    - destruct Hrun as (it' & k' & rest' & hw' & E & S' & Hsuf' & Hk' & Hshorter & Hit'). rewrite E.
      rewrite (IH rest' k' it' hw' (y :: acc) l' S' Hsuf' Hk' ltac:(lia) ltac:(lia) Hit').
      cbn [rev]. rewrite <- app_assoc. reflexivity.
  Qed.

  (* the general walk: the records yielded before the first one that is neither passed over nor
     decodable, and whether the walk reached the end *)
  Fixpoint iter_walk (k : N) (its : list aitem) : list rr * bool :=
    match its with
    | [] => ([], true)
    | x :: rest =>
      if skip_it x then iter_walk (k + 1) rest
      else match (if a_fits255 x then decoded x else None) with
           | Some d => let (l, b) := iter_walk (k + 1) rest in (rr_of k x d :: l, b)
           | None => ([], false)
           end
    end.

  Lemma read_impl_run_walk : forall rest k f it hw, IState it (nq + k) hw -> suffix_at k rest -> k + lenN rest = an + ns + ar ->
    (length rest < f)%nat ->
    match iter_walk k rest with
    | ([], true) => exists it', records_read_impl msg f it = (it', Ok RNone)
    | ([], false) => exists it' e, records_read_impl msg f it = (it', Err e)
    | (y :: l', b) => exists it' k' rest' hw', records_read_impl msg f it = (it', Ok (RItem y)) /\
                   IState it' (nq + k') hw' /\ suffix_at k' rest' /\ k' + lenN rest' = an + ns + ar /\
                   (length rest' < length rest)%nat /\ iter_walk k' rest' = (l', b)
    end.
  Proof.
    induction rest as [|x rest IH]; intros k f it hw Hs Hsuf Hk Hf; (destruct f as [|f]; [cbn in Hf; lia|]); cbn [iter_walk].
    - apply (iter_step_end it (nq + k) hw f Hs). unfold lenN in Hk. cbn in Hk. lia.
    - destruct (suffix_tail _ _ _ Hsuf) as [Hg Hsuf'].
      assert (Hk' : k + 1 + lenN rest = an + ns + ar) by (unfold lenN in *; cbn [length] in Hk; lia).
      destruct (skip_it x) eqn:Esk.
      + destruct (iter_step_skip it (nq + k) hw x f Hs ltac:(lia) ltac:(replace (nq + k - nq) with k by lia; exact Hg) Esk) as (it1 & E1 & S1).
        rewrite E1. replace (nq + k + 1) with (nq + (k + 1)) in S1 by lia.
        specialize (IH (k + 1) f it1 _ S1 Hsuf' Hk' ltac:(cbn in Hf; lia)).
        destruct (iter_walk (k + 1) rest) as [[|y l'] b]; [exact IH|].
        destruct IH as (it' & k' & rest' & hw' & A1 & A2 & A3 & A4 & A5 & A6). exists it', k', rest', hw'.
        repeat (split; [assumption|]). split; [cbn; lia|assumption].
      + destruct (if a_fits255 x then decoded x else None) as [d|] eqn:Ed.
        * assert (Efit : a_fits255 x = true) by (destruct (a_fits255 x); [reflexivity|discriminate]). rewrite Efit in Ed.
          destruct (iter_step_item it (nq + k) hw x d f Hs ltac:(lia) ltac:(replace (nq + k - nq) with k by lia; exact Hg) Esk Efit Ed) as (it1 & E1 & S1).
          replace (nq + k - nq) with k in E1 by lia.
          destruct (iter_walk (k + 1) rest) as [l0 b] eqn:El0.
          exists it1, (k + 1), rest, (N.max hw (nq + k + 1)). replace (nq + (k + 1)) with (nq + k + 1) by lia.
          split; [exact E1|]. split; [exact S1|]. split; [exact Hsuf'|]. split; [exact Hk'|]. split; [cbn; lia|exact El0].
        * apply (iter_step_fail it (nq + k) hw x f Hs ltac:(lia) ltac:(replace (nq + k - nq) with k by lia; exact Hg) Esk).
          destruct (a_fits255 x); [right; exact Ed|left; reflexivity].
  Qed.

  Lemma drain_walk : forall n rest k it hw acc, IState it (nq + k) hw -> suffix_at k rest -> k + lenN rest = an + ns + ar ->
    (length rest < n)%nat -> (length rest < iter_fuel msg)%nat ->
    exists stop, records_drain msg n it acc = Ok (rev acc ++ fst (iter_walk k rest), stop) /\
                 (snd (iter_walk k rest) = true <-> stop = None).
  Proof.
    induction n as [|n IH]; intros rest k it hw acc Hs Hsuf Hk Hn Hf; [lia|]. cbn [records_drain].
    pose proof (read_impl_run_walk rest k (iter_fuel msg) it hw Hs Hsuf Hk Hf) as Hrun.
    destruct (iter_walk k rest) as [[|y l'] b] eqn:Ew.
    - destruct b.
      + destruct Hrun as (it' & E). rewrite E. exists None. cbn [fst snd]. rewrite app_nil_r. split; [reflexivity|tauto].
      + destruct Hrun as (it' & e & E). rewrite E. exists (Some e). cbn [fst snd]. rewrite app_nil_r. split; [reflexivity|]. split; discriminate.
    - destruct Hrun as (it' & k' & rest' & hw' & E & S' & Hsuf' & Hk' & Hshorter & Hw'). rewrite E.
      destruct (IH rest' k' it' hw' (y :: acc) S' Hsuf' Hk' ltac:(lia) ltac:(lia)) as (stop & Ed & Hst).
      rewrite Hw' in Ed, Hst. exists stop. cbn [fst snd] in *. split; [|exact Hst].
      rewrite Ed. cbn [rev]. rewrite <- app_assoc. reflexivity.
  Qed.

  (* MessageIterator::records() over a completely parsed message, in general: the records of known
     type and class up to the first whose owner exceeds 255 octets or whose data does not decode
     (or whose type has no decoder, such as OPT), then the end — or that record's error *)
  Theorem iter_records_walk h : lenN rs = an + ns + ar ->
    h_qd h <= 65535 -> h_an h = an -> h_ns h = ns -> h_ar h = ar ->
    exists stop, iter_records msg h (P nq) = Ok (fst (iter_walk 0 rs), stop) /\ (snd (iter_walk 0 rs) = true <-> stop = None).
  Proof.
    intros Hcr E1 E2 E3 E4. unfold iter_records.
    assert (Hs : IState (mkRecIt (c_with_pos msg (P nq)) (tr_new h) false) (nq + 0) 0).
    { split; [split; reflexivity|]. split; [cbn [ri_cur pos c_with_pos]; f_equal; lia|]. cbn [ri_tr]. split.
      - unfold twf, cw, tr_new. cbn. lia.
      - unfold tr_new, secs_at, rd, sec_start, sec_count, lin. cbn [secs l_an l_ns l_ar]. rewrite E2, E3, E4. f_equal; f_equal; lia. }
    pose proof rs_len_le as Hle.
    destruct (drain_walk (iter_fuel msg) rs 0 _ 0 [] Hs) as (stop & Ed & Hst).
    - intro j. reflexivity.
    - lia.
    - unfold iter_fuel, lenN in *. lia.
    - unfold iter_fuel, lenN in *. lia.
    - exists stop. split; [exact Ed|exact Hst].
  Qed.

  (* the records start where the questions end *)
  Lemma P_nq : lenN qs = nq -> P nq = e1.
  Proof.
    intro Hfull. unfold P, items. rewrite getN_app2 by lia. replace (nq - lenN qs) with 0 by lia.
    destruct (chain_get _ _ Hfr _ _ _ Hr) as (_ & _ & R3 & _). destruct (getN rs 0) as [r0|]; exact R3.
  Qed.

  (* MessageIterator::records() over a completely parsed message *)
  Theorem iter_records_spec h l : lenN rs = an + ns + ar ->
    h_qd h <= 65535 -> h_an h = an -> h_ns h = ns -> h_ar h = ar ->
    iter_items 0 rs = Some l -> iter_records msg h (P nq) = Ok (l, None).
  Proof.
    intros Hcr E1 E2 E3 E4 Hit. unfold iter_records.
    assert (Hs : IState (mkRecIt (c_with_pos msg (P nq)) (tr_new h) false) (nq + 0) 0).
    { split; [split; reflexivity|]. split; [cbn [ri_cur pos c_with_pos]; f_equal; lia|]. cbn [ri_tr]. split.
      - unfold twf, cw, tr_new. cbn. lia.
      - unfold tr_new, secs_at, rd, sec_start, sec_count, lin. cbn [secs l_an l_ns l_ar]. rewrite E2, E3, E4. f_equal; f_equal; lia. }
    pose proof rs_len_le as Hle.
    rewrite (drain_spec (iter_fuel msg) rs 0 _ 0 [] l Hs); [reflexivity| | | | |exact Hit].
    - intro j. reflexivity.
    - lia.
    - unfold iter_fuel, lenN in *. lia.
    - unfold iter_fuel, lenN in *. lia.
  Qed.

  (* ---------------------------------------------------------------- seek by skipping *)
  (* seek to a section whose offset is NOT known, on a reader standing right behind the header:
     the reader skips the questions and the lower sections item by item *)
  Lemma skip_question_is_question_at c it : whole msg c -> question_at msg (pos c) = Some it ->
    m_skip_question msg c = (c_set_pos c (a_end it), Ok tt).
  Proof.
    intros Hw. unfold question_at. pose proof (skip_is_name_at msg c Hw) as Hs.
    destruct (name_at msg (pos c)) as [[r fits]|]; [|discriminate].
    unfold be. destruct (r + 2 <=? lenN msg) eqn:E1; [|discriminate]. destruct (r + 2 + 2 <=? lenN msg) eqn:E2; [|discriminate].
    intro H; inversion H; subst. cbn [a_end].
    unfold m_skip_question, mbind, lift_c, lift. rewrite Hs. cbn [bind].
    destruct Hw as [Hl Ho]. rewrite c_skip_fwd by (cbn [pos lim c_set_pos]; lia). reflexivity.
  Qed.

  Lemma P_0 : P 0 = 12.
  Proof.
    unfold P, items.
    destruct (chain_get _ _ Hfq _ _ _ Hq) as (_ & _ & Q3 & _). destruct (chain_get _ _ Hfr _ _ _ Hr) as (_ & _ & R3 & _).
    destruct qs as [|q0 qs'].
    - cbn [app]. inversion Hq; subst. destruct (getN rs 0) as [r0|]; congruence.
    - cbn [app]. rewrite getN_cons_0 in *. exact Q3.
  Qed.

  Lemma skip_questions_loop_ok : forall n fuel r idx hw, RState r idx hw -> idx + N.of_nat n = nq -> lenN qs = nq ->
    (n < fuel)%nat -> exists r', skip_questions_loop msg fuel r = (r', Ok tt) /\ RState r' nq (N.max hw nq).
  Proof.
    induction n as [|n IH]; intros fuel r idx hw Hs Hn Hfull Hf; (destruct fuel as [|f]; [lia|]); cbn [skip_questions_loop];
      pose proof Hs as (Hw & Hp & Hi & Hd);
      destruct (counts_spec nq an ns ar P Hc1 Hc2 Hc3 Hc4 P_bounds _ _ _ Hi) as (Cq & _); rewrite Cq.
    - assert (E : (0 <? nq - N.min idx nq) = false) by lia. rewrite E. exists r. split; [reflexivity|].
      destruct Hi as (I1 & _). replace (N.max hw nq) with hw by lia. replace nq with idx by lia. exact Hs.
    - assert (E : (0 <? nq - N.min idx nq) = true) by lia. rewrite E.
      destruct (getN_some qs idx ltac:(lia)) as [it Hg]. destruct (P_question idx it Hg) as (P1 & P2 & P3).
      unfold run. rewrite (skip_question_is_question_at (r_cur r) it Hw) by (rewrite Hp; exact P3).
      cbn [with_cur r_tr r_cur pos c_set_pos].
      destruct (question_step nq an ns ar P Hc1 Hc2 Hc3 Hc4 P_bounds _ _ _ Hi ltac:(lia)) as (tr' & Et & Hi').
      rewrite <- P2, Et.
      assert (Hs1 : RState (with_tr (mkReader (c_set_pos (r_cur r) (P (idx + 1))) (r_tr r) (r_done r)) tr') (idx + 1) (idx + 1)).
      { split; [apply whole_set_pos; exact Hw|]. split; [reflexivity|]. split; [exact Hi'|exact Hd]. }
      destruct (IH f _ _ _ Hs1 ltac:(lia) Hfull ltac:(lia)) as (r' & E' & Hs'). exists r'. split; [exact E'|].
      destruct Hi as (I1 & I2 & I3 & _). replace (N.max hw nq) with (N.max (idx + 1) nq) by lia. exact Hs'.
  Qed.

  (* the implementation-level calls behind record_marker / skip_record_data *)
  Lemma step_record_impl r idx hw it : RState r idx hw -> nq <= idx -> getN rs (idx - nq) = Some it ->
    exists r1 mk r2, marker_impl msg r = (r1, Ok mk) /\ skip_record_data_impl mk r1 = (r2, Ok OUnit) /\
                     RState r2 (idx + 1) (N.max hw (idx + 1)).
  Proof.
    intros Hs Hge Hg. destruct (step_record r idx hw it Hs Hge Hg) as (r1 & r2 & E1 & E2 & S2). cbv zeta in E1, E2.
    destruct Hs as (_ & _ & _ & Hd).
    unfold rd_marker in E1. rewrite Hd in E1. apply latch_ok in E1. unfold bind2 in E1.
    destruct (marker_impl msg r) as [r0 x]. destruct x as [m| | | | |]; try discriminate. inversion E1; subst.
    unfold rd_skip_data in E2. destruct (negb _); [discriminate|]. destruct (r_done r1); [discriminate|].
    eexists. eexists. eexists. split; [reflexivity|]. split; [exact E2|exact S2].
  Qed.

  Lemma skip_section_loop_ok s : s < 3 -> forall n fuel r idx hw, RState r idx hw -> nq <= idx ->
    sec_start (lin nq an ns ar) s <= idx - nq ->
    idx + N.of_nat n = nq + sec_start (lin nq an ns ar) s + sec_count (lin nq an ns ar) s ->
    idx + N.of_nat n <= nq + lenN rs -> (n < fuel)%nat ->
    exists r', skip_section_loop msg fuel s r = (r', Ok tt) /\
               RState r' (nq + sec_start (lin nq an ns ar) s + sec_count (lin nq an ns ar) s)
                         (N.max hw (nq + sec_start (lin nq an ns ar) s + sec_count (lin nq an ns ar) s)).
  Proof.
    intros Hs3. induction n as [|n IH]; intros fuel r idx hw Hs Hge Hin Hn Hav Hf; (destruct fuel as [|f]; [lia|]); cbn [skip_section_loop];
      pose proof Hs as (Hw & Hp & Hi & Hd);
      destruct (counts_spec nq an ns ar P Hc1 Hc2 Hc3 Hc4 P_bounds _ _ _ Hi) as (_ & C0 & C1 & C2 & _);
      assert (Cs : records_left_in (r_tr r) s = Ok (sec_count (lin nq an ns ar) s - rd nq an ns ar idx s))
        by (assert (s = 0 \/ s = 1 \/ s = 2) as [-> | [-> | ->]] by lia; assumption);
      rewrite Cs; unfold rd in *.
    - assert (E : (0 <? sec_count (lin nq an ns ar) s - N.min (idx - nq - sec_start (lin nq an ns ar) s) (sec_count (lin nq an ns ar) s)) = false) by lia.
      rewrite E. exists r. split; [reflexivity|]. destruct Hi as (I1 & _).
      replace (nq + sec_start (lin nq an ns ar) s + sec_count (lin nq an ns ar) s) with idx by lia.
      replace (N.max hw idx) with hw by lia. exact Hs.
    - assert (E : (0 <? sec_count (lin nq an ns ar) s - N.min (idx - nq - sec_start (lin nq an ns ar) s) (sec_count (lin nq an ns ar) s)) = true) by lia.
      rewrite E. destruct (getN_some rs (idx - nq) ltac:(lia)) as [it Hg].
      destruct (step_record_impl r idx hw it Hs Hge Hg) as (r1 & mk & r2 & E1 & E2 & S2).
      unfold bind2. rewrite E1, E2.
      destruct (IH f r2 (idx + 1) (N.max hw (idx + 1)) S2 ltac:(lia) ltac:(lia) ltac:(lia) ltac:(lia) ltac:(lia)) as (r' & E' & Hs').
      exists r'. split; [exact E'|].
      replace (N.max hw (nq + sec_start (lin nq an ns ar) s + sec_count (lin nq an ns ar) s))
        with (N.max (N.max hw (idx + 1)) (nq + sec_start (lin nq an ns ar) s + sec_count (lin nq an ns ar) s)) by lia.
      exact Hs'.
  Qed.

  Theorem step_seek_skip r hw s : RState r 0 hw -> s < 3 -> known (lin nq an ns ar) (mkA 0 hw false None) s = false ->
    lenN qs = nq -> sec_start (lin nq an ns ar) s <= lenN rs ->
    exists r', rd_seek msg s r = (r', Ok OUnit) /\
               RState r' (nq + sec_start (lin nq an ns ar) s) (N.max hw (nq + sec_start (lin nq an ns ar) s)).
  Proof.
    intros Hs Hs3 Hk Hfull Hav. pose proof Hs as (Hw & Hp & Hi & Hd).
    destruct (seek_step nq an ns ar P Hc1 Hc2 Hc3 Hc4 P_bounds _ _ _ s Hi Hs3) as [_ Hno]. specialize (Hno Hk).
    unfold rd_seek. rewrite Hd, Hno, Hp, P_0. unfold seek_not_at_header_end. rewrite HEADER_LENGTH_spec. cbn [N.eqb Pos.eqb negb].
    assert (Hq0 : total (qd (r_tr r)) = nq) by (destruct Hi as (_ & _ & _ & Q & _); rewrite Q; reflexivity).
    destruct (skip_questions_loop_ok (N.to_nat nq) (q_fuel r) r 0 hw Hs ltac:(lia) Hfull ltac:(unfold q_fuel; rewrite Hq0; lia)) as (r1 & E1 & S1).
    assert (Hfuel : forall r0 i h s0, RState r0 i h -> s0 < 3 -> s_fuel r0 s0 = S (N.to_nat (sec_count (lin nq an ns ar) s0))).
    { intros r0 i h s0 (_ & _ & (_ & _ & _ & _ & Sc & _) & _) H3. unfold s_fuel. rewrite Sc.
      assert (s0 = 0 \/ s0 = 1 \/ s0 = 2) as [-> | [-> | ->]] by lia; reflexivity. }
    unfold seek_impl, skip_questions_impl, bind2. rewrite E1.
    assert (Hcases : s = 0 \/ s = 1 \/ s = 2) by lia. destruct Hcases as [-> | [-> | ->]]; cbn [sec_start lin l_an l_ns] in *.
    - unfold unit_obs, latch. cbn [fst snd bind]. exists r1. split; [reflexivity|]. replace (nq + 0) with nq by lia. exact S1.
    - destruct (skip_section_loop_ok 0 ltac:(lia) (N.to_nat an) (s_fuel r1 0) r1 nq (N.max hw nq) S1) as (r2 & E2 & S2);
        try (cbn [sec_start sec_count lin l_an l_ns l_ar]; lia); [rewrite (Hfuel _ _ _ 0 S1) by lia; cbn [sec_count lin l_an]; lia|].
      rewrite E2. unfold unit_obs, latch. cbn [fst snd bind]. exists r2. split; [reflexivity|].
      cbn [sec_start sec_count lin l_an l_ns l_ar] in S2. replace (nq + 0 + an) with (nq + an) in S2 by lia.
      replace (N.max hw (nq + an)) with (N.max (N.max hw nq) (nq + an)) by lia. exact S2.
    - destruct (skip_section_loop_ok 0 ltac:(lia) (N.to_nat an) (s_fuel r1 0) r1 nq (N.max hw nq) S1) as (r2 & E2 & S2);
        try (cbn [sec_start sec_count lin l_an l_ns l_ar]; lia); [rewrite (Hfuel _ _ _ 0 S1) by lia; cbn [sec_count lin l_an]; lia|].
      rewrite E2. cbn [sec_start sec_count lin l_an l_ns l_ar] in S2. replace (nq + 0 + an) with (nq + an) in S2 by lia.
      destruct (skip_section_loop_ok 1 ltac:(lia) (N.to_nat ns) (s_fuel r2 1) r2 (nq + an) _ S2) as (r3 & E3 & S3);
        try (cbn [sec_start sec_count lin l_an l_ns l_ar]; lia); [rewrite (Hfuel _ _ _ 1 S2) by lia; cbn [sec_count lin l_ns]; lia|].
      rewrite E3. unfold unit_obs, latch. cbn [fst snd bind]. exists r3. split; [reflexivity|].
      cbn [sec_start sec_count lin l_an l_ns l_ar] in S3.
      replace (nq + (an + ns)) with (nq + an + ns) by lia.
      replace (N.max hw (nq + an + ns)) with (N.max (N.max (N.max hw nq) (nq + an)) (nq + an + ns)) by lia. exact S3.
  Qed.

  (* seek to a section whose offset is not known from anywhere else is refused, and nothing changes *)
  Theorem step_seek_refused r idx hw s : RState r idx hw -> s < 3 -> known (lin nq an ns ar) (mkA idx hw false None) s = false ->
    0 < idx -> idx <= lenN qs + lenN rs -> rd_seek msg s r = (r, Err (RecordsSectionOffsetUnknown s)).
  Proof.
    intros (Hw & Hp & Hi & Hd) Hs3 Hk Hpos Hav.
    destruct (seek_step nq an ns ar P Hc1 Hc2 Hc3 Hc4 P_bounds _ _ _ s Hi Hs3) as [_ Hno]. specialize (Hno Hk).
    unfold rd_seek. rewrite Hd, Hno.
    (* the reader stands behind item idx-1, which starts at or after offset 12 *)
    assert (H12 : 12 < P idx).
    { replace idx with ((idx - 1) + 1) by lia.
      destruct (N.lt_ge_cases (idx - 1) (lenN qs)) as [Hlt|Hge].
      - destruct (getN_some qs (idx - 1) Hlt) as [it Hg]. destruct (P_question _ _ Hg) as (_ & P2 & _). rewrite P2.
        destruct (chain_get _ _ Hfq _ _ _ Hq) as (_ & _ & _ & G). destruct (G _ _ Hg) as (A1 & _ & A3 & _).
        destruct (question_at_start _ _ A1) as (_ & B2 & _). lia.
      - destruct (getN_some rs (idx - 1 - lenN qs) ltac:(lia)) as [it Hg].
        assert (Hfull : lenN qs = nq).
        { destruct (N.lt_ge_cases (lenN qs) nq) as [Hl|Hg']; [|lia]. rewrite (Hshort Hl), getN_nil in Hg. discriminate. }
        destruct (P_record _ _ Hg) as (_ & P2 & _). replace (nq + (idx - 1 - lenN qs) + 1) with (idx - 1 + 1) in P2 by lia. rewrite P2.
        destruct (chain_get _ _ Hfr _ _ _ Hr) as (_ & _ & _ & G). destruct (G _ _ Hg) as (A1 & A2 & A3 & _).
        destruct (record_at_start _ _ A1 A2) as (_ & B2 & _).
        destruct (chain_get _ _ Hfq _ _ _ Hq) as (Q1 & _). lia. }
    rewrite Hp. unfold seek_not_at_header_end. rewrite HEADER_LENGTH_spec.
    assert (E : negb (P idx =? 12) = true) by lia. rewrite E. reflexivity.
  Qed.

  (* ---------------------------------------------------------------- the first item that does not parse *)
  (* past the parsed items the reader stands where the pass stopped *)
  Lemma P_end k : lenN qs + lenN rs <= k -> P k = e2.
  Proof. intro H. unfold P, items. rewrite getN_none; [reflexivity|]. unfold lenN in *. rewrite app_length. lia. Qed.

  Lemma record_at_fixed p it : record_at msg p = Some it -> a_type_off it + 10 <= lenN msg.
  Proof.
    unfold record_at. destruct (name_at msg p) as [[r fits]|]; [|discriminate].
    unfold be. destruct (r + 2 <=? lenN msg); [|discriminate]. destruct (r + 2 + 2 <=? lenN msg); [|discriminate].
    destruct (r + 4 + 4 <=? lenN msg); [|discriminate]. destruct (r + 8 + 2 <=? lenN msg) eqn:E; [|discriminate].
    intro H; inversion H; subst. cbn. lia.
  Qed.

  Lemma c_skip_err c d : pos c <= lim c -> lim c < pos c + d -> exists e, c_skip c d = Err e.
  Proof.
    intros H0 H. unfold c_skip, c_len. rewrite cursor_len_spec.
    destruct (skip_guard (lim c - pos c) d) eqn:G; [apply skip_guard_spec in G; lia|eauto].
  Qed.

  (* a question that does not parse: the call fails and the reader is exhausted *)
  Lemma fail_question r idx hw : RState r idx hw -> idx = lenN qs -> idx < nq -> question_at msg e2 = None ->
    exists r' e, rd_question msg false true r = (r', Err e) /\ r_done r' = true.
  Proof.
    intros (Hw & Hp & Hi & Hd) Hidx Hlt Hnone.
    assert (Hrs : rs = []) by (apply Hshort; lia).
    assert (Hrs0 : lenN rs = 0) by (rewrite Hrs; reflexivity).
    assert (HP : P idx = e2) by (apply P_end; lia).
    unfold rd_question. rewrite Hd.
    destruct (counts_spec nq an ns ar P Hc1 Hc2 Hc3 Hc4 P_bounds _ _ _ Hi) as (Cq & _). rewrite Cq.
    assert (Eq : q_none_left (nq - N.min idx nq) = false) by (unfold q_none_left; lia). rewrite Eq.
    unfold run. pose proof (question_ref_is_question_at msg (r_cur r) Hw) as Hqr. rewrite Hp, HP, Hnone in Hqr.
    destruct Hqr as (c' & e & Hqr). rewrite Hqr. unfold after_question. eexists. exists e. split; reflexivity.
  Qed.

  (* a record whose header does not parse: the header call fails and the reader is exhausted;
     a record whose header parses but whose data does not fit: the header call returns exactly
     that header, the data call fails and the reader is exhausted *)
  Lemma fail_record r idx hw : RState r idx hw -> lenN qs = nq -> idx = nq + lenN rs -> lenN rs < an + ns + ar ->
    match record_at msg e2 with
    | None => exists r' e, rd_marker msg r = (r', Err e) /\ r_done r' = true
    | Some it =>
      a_data_ok it = false ->
      let mk := mkMarker e2 (a_type_off it) (a_type it) (a_class it) (a_ttl it) (a_rdlen it) (section_of (lin nq an ns ar) (idx - nq)) in
      exists r1 r2 e, rd_marker msg r = (r1, Ok (OMarker mk)) /\ rd_skip_data mk r1 = (r2, Err e) /\ r_done r2 = true
    end.
  Proof.
    intros (Hw & Hp & Hi & Hd) Hfull Hidx Hlt.
    assert (HP : P idx = e2) by (apply P_end; lia).
    destruct (record_step nq an ns ar P Hc1 Hc2 Hc3 Hc4 P_bounds _ _ _ Hi ltac:(lia) ltac:(unfold nrec, lin; cbn; lia)) as (tr1 & En & _).
    set (s := section_of (lin nq an ns ar) (idx - nq)) in *.
    pose proof (marker_is_record_at msg (r_cur r) (P idx) s Hw) as Hm. rewrite Hp, HP in Hm. rewrite HP in En.
    destruct (record_at msg e2) as [it|] eqn:Era.
    - destruct Hm as (Hm & M1 & M2 & M3). intro Hbad. cbv zeta. pose proof (record_at_fixed _ _ Era) as Hfix.
      assert (E1 : rd_marker msg r = (mkReader (c_set_pos (r_cur r) (a_type_off it + 10)) tr1 false,
                                       Ok (OMarker (mkMarker e2 (a_type_off it) (a_type it) (a_class it) (a_ttl it) (a_rdlen it) s)))).
      { unfold rd_marker, marker_impl, calc_section. rewrite Hd, Hp, HP, En. unfold bind2, run, latch. cbn [with_tr r_cur r_tr r_done fst snd].
        rewrite Hm. cbn [fst snd]. unfold with_cur, with_tr. cbn [r_cur r_tr r_done]. rewrite Hd. reflexivity. }
      destruct Hw as [Hl Ho].
      destruct (c_skip_err (c_set_pos (r_cur r) (a_type_off it + 10)) (a_rdlen it)) as [e Ee]; [cbn [pos lim c_set_pos]; lia|cbn [pos lim c_set_pos]; lia|].
      eexists. eexists. exists e. split; [exact E1|].
      unfold rd_skip_data, rdata_pos. cbn [r_cur r_done pos c_set_pos m_type_off m_rdlen m_section]. unfold TYPE_TO_RDATA_OFFSET.
      rewrite N.eqb_refl. cbn [negb].
      unfold skip_record_data_impl, after_data, run, mbind, mret, lift_c, lift. cbn [r_cur r_tr with_cur m_rdlen m_section].
      rewrite Ee. cbn [bind]. split; reflexivity.
    - destruct Hm as (c' & e & Hm).
      unfold rd_marker, marker_impl, calc_section. rewrite Hd, Hp, HP, En. unfold bind2, run, latch. cbn [with_tr r_cur r_tr r_done fst snd].
      rewrite Hm. cbn [fst snd]. eexists. exists e. split; reflexivity.
  Qed.

  (* ---------------------------------------------------------------- seek by skipping meets an item that does not parse *)
  Lemma c_skip_err' c d : 0 < d -> lim c < pos c + d -> exists e, c_skip c d = Err e.
  Proof.
    intros H0 H. unfold c_skip, c_len. rewrite cursor_len_spec.
    destruct (skip_guard (lim c - pos c) d) eqn:G; [apply skip_guard_spec in G; lia|eauto].
  Qed.

  Lemma skip_question_fails c : whole msg c -> question_at msg (pos c) = None ->
    exists c' e, m_skip_question msg c = (c', Err e).
  Proof.
    intros Hw. unfold question_at. pose proof (skip_is_name_at msg c Hw) as Hs.
    unfold m_skip_question, mbind, lift_c, lift.
    destruct (name_at msg (pos c)) as [[r fits]|].
    - rewrite Hs. cbn [bind]. unfold be. intro H.
      assert (Hr4 : lenN msg < r + 4).
      { destruct (r + 2 <=? lenN msg) eqn:E1; [|lia]. destruct (r + 2 + 2 <=? lenN msg) eqn:E2; [discriminate|lia]. }
      destruct Hw as [Hl Ho]. destruct (c_skip_err' (c_set_pos c r) 4 ltac:(lia) ltac:(cbn [pos lim c_set_pos]; lia)) as [e Ee].
      rewrite Ee. cbn [bind]. eauto.
    - intros _. destruct Hs as [e Hs]. rewrite Hs. cbn [bind]. eauto.
  Qed.

  Lemma skip_questions_loop_fail : forall n fuel r idx hw, RState r idx hw -> idx + N.of_nat n = lenN qs -> lenN qs < nq ->
    question_at msg e2 = None -> (n < fuel)%nat -> exists r' e, skip_questions_loop msg fuel r = (r', Err e).
  Proof.
    induction n as [|n IH]; intros fuel r idx hw Hs Hn Hshortq Hnone Hf; (destruct fuel as [|f]; [lia|]); cbn [skip_questions_loop];
      pose proof Hs as (Hw & Hp & Hi & Hd);
      destruct (counts_spec nq an ns ar P Hc1 Hc2 Hc3 Hc4 P_bounds _ _ _ Hi) as (Cq & _); rewrite Cq;
      (assert (E : (0 <? nq - N.min idx nq) = true) by lia); rewrite E.
    - assert (Hrs0 : lenN rs = 0) by (rewrite (Hshort Hshortq); reflexivity).
      assert (HP : P idx = e2) by (apply P_end; lia).
      unfold run. destruct (skip_question_fails (r_cur r) Hw ltac:(rewrite Hp, HP; exact Hnone)) as (c' & e & Ee). rewrite Ee. eauto.
    - destruct (getN_some qs idx ltac:(lia)) as [it Hg]. destruct (P_question idx it Hg) as (P1 & P2 & P3).
      unfold run. rewrite (skip_question_is_question_at (r_cur r) it Hw) by (rewrite Hp; exact P3).
      cbn [with_cur r_tr r_cur pos c_set_pos].
      destruct (question_step nq an ns ar P Hc1 Hc2 Hc3 Hc4 P_bounds _ _ _ Hi ltac:(lia)) as (tr' & Et & Hi').
      rewrite <- P2, Et.
      assert (Hs1 : RState (with_tr (mkReader (c_set_pos (r_cur r) (P (idx + 1))) (r_tr r) (r_done r)) tr') (idx + 1) (idx + 1)).
      { split; [apply whole_set_pos; exact Hw|]. split; [reflexivity|]. split; [exact Hi'|exact Hd]. }
      exact (IH f _ _ _ Hs1 ltac:(lia) Hshortq Hnone ltac:(lia)).
  Qed.

  Lemma marker_impl_done r r1 x : marker_impl msg r = (r1, x) -> r_done r1 = r_done r.
  Proof.
    unfold marker_impl, calc_section, bind2, run. destruct (next_section (r_tr r) (pos (r_cur r))) as [t so].
    destruct so as [s0|]; [|intro H; inversion H; reflexivity].
    cbn [with_tr r_cur]. match goal with |- context [let (_, _) := ?m in _] => destruct m as [c0 y0] end.
    intro H; inversion H; subst. reflexivity.
  Qed.

  (* the implementation-level calls on a record that does not parse completely *)
  Lemma fail_record_impl r idx hw : RState r idx hw -> lenN qs = nq -> idx = nq + lenN rs -> lenN rs < an + ns + ar ->
    match record_at msg e2 with Some it => a_data_ok it = false | None => True end ->
    (exists r' e, marker_impl msg r = (r', Err e)) \/
    (exists r1 mk r2 e, marker_impl msg r = (r1, Ok mk) /\ skip_record_data_impl mk r1 = (r2, Err e)).
  Proof.
    intros Hs Hfull Hidx Hlt Hstop. pose proof (fail_record r idx hw Hs Hfull Hidx Hlt) as Hf. destruct Hs as (_ & _ & _ & Hd).
    destruct (record_at msg e2) as [it|].
    - right. destruct (Hf Hstop) as (r1 & r2 & e & E1 & E2 & _). cbv zeta in E1, E2.
      unfold rd_marker in E1. rewrite Hd in E1. apply latch_ok in E1. unfold bind2 in E1.
      destruct (marker_impl msg r) as [r0 x] eqn:Em. destruct x as [m| | | | |]; try discriminate. inversion E1; subst.
      pose proof (marker_impl_done _ _ _ Em) as Hd1. rewrite Hd in Hd1.
      unfold rd_skip_data in E2. destruct (negb _); [discriminate|]. rewrite Hd1 in E2.
      eexists. eexists. eexists. exists e. split; [reflexivity|exact E2].
    - left. destruct Hf as (r' & e & E1 & _). unfold rd_marker in E1. rewrite Hd in E1. unfold latch, bind2 in E1.
      destruct (marker_impl msg r) as [r0 x]. destruct x as [m| | | | |]; cbn [fst snd] in E1; inversion E1; subst. eauto.
  Qed.

  Lemma skip_section_loop_fail s : s < 3 -> forall n fuel r idx hw, RState r idx hw -> nq <= idx -> lenN qs = nq ->
    sec_start (lin nq an ns ar) s <= idx - nq ->
    idx + N.of_nat n = nq + lenN rs ->
    nq + lenN rs < nq + sec_start (lin nq an ns ar) s + sec_count (lin nq an ns ar) s ->
    match record_at msg e2 with Some it => a_data_ok it = false | None => True end ->
    (n < fuel)%nat -> exists r' e, skip_section_loop msg fuel s r = (r', Err e).
  Proof.
    intros Hs3. induction n as [|n IH]; intros fuel r idx hw Hs Hge Hfull Hin Hn Hstopin Hstop Hf; (destruct fuel as [|f]; [lia|]); cbn [skip_section_loop];
      pose proof Hs as (Hw & Hp & Hi & Hd);
      destruct (counts_spec nq an ns ar P Hc1 Hc2 Hc3 Hc4 P_bounds _ _ _ Hi) as (_ & C0 & C1 & C2 & _);
      assert (Cs : records_left_in (r_tr r) s = Ok (sec_count (lin nq an ns ar) s - rd nq an ns ar idx s))
        by (assert (s = 0 \/ s = 1 \/ s = 2) as [-> | [-> | ->]] by lia; assumption);
      rewrite Cs; unfold rd in *;
      (assert (E : (0 <? sec_count (lin nq an ns ar) s - N.min (idx - nq - sec_start (lin nq an ns ar) s) (sec_count (lin nq an ns ar) s)) = true) by lia);
      rewrite E.
    - assert (Hnrec : lenN rs < an + ns + ar).
      { assert (s = 0 \/ s = 1 \/ s = 2) as [-> | [-> | ->]] by lia; unfold sec_start, sec_count, lin in *; cbn [l_an l_ns l_ar] in *; lia. }
      destruct (fail_record_impl r idx hw Hs Hfull ltac:(lia) Hnrec Hstop) as [(r' & e & E1)|(r1 & mk & r2 & e & E1 & E2)]; unfold bind2; rewrite E1; [eauto|rewrite E2; eauto].
    - destruct (getN_some rs (idx - nq) ltac:(lia)) as [it Hg].
      destruct (step_record_impl r idx hw it Hs Hge Hg) as (r1 & mk & r2 & E1 & E2 & S2).
      unfold bind2. rewrite E1, E2.
      exact (IH f r2 (idx + 1) (N.max hw (idx + 1)) S2 ltac:(lia) Hfull ltac:(lia) ltac:(lia) Hstopin Hstop ltac:(lia)).
  Qed.

  (* seek by skipping that meets an item which does not parse completely before it reaches the
     section: it fails and the reader is exhausted *)
  Theorem step_seek_skip_fails r hw s : RState r 0 hw -> s < 3 -> known (lin nq an ns ar) (mkA 0 hw false None) s = false ->
    (lenN qs < nq -> question_at msg e2 = None) ->
    (lenN qs = nq -> match record_at msg e2 with Some it => a_data_ok it = false | None => True end) ->
    lenN qs < nq \/ (lenN qs = nq /\ lenN rs < sec_start (lin nq an ns ar) s) ->
    exists r' e, rd_seek msg s r = (r', Err e) /\ r_done r' = true.
  Proof.
    intros Hs Hs3 Hk Hstopq Hstopr Hwhere. pose proof Hs as (Hw & Hp & Hi & Hd).
    destruct (seek_step nq an ns ar P Hc1 Hc2 Hc3 Hc4 P_bounds _ _ _ s Hi Hs3) as [_ Hno]. specialize (Hno Hk).
    unfold rd_seek. rewrite Hd, Hno, Hp, P_0. unfold seek_not_at_header_end. rewrite HEADER_LENGTH_spec. cbn [N.eqb Pos.eqb negb].
    assert (Hlatch : forall p : reader * res unit, (exists r' e, p = (r', Err e)) ->
              exists r' e, latch (unit_obs p) = (r', Err e) /\ r_done r' = true).
    { intros p (r' & e & ->). unfold unit_obs, latch. cbn [fst snd bind]. eexists. exists e. split; reflexivity. }
    apply Hlatch.
    assert (Hq0 : total (qd (r_tr r)) = nq) by (destruct Hi as (_ & _ & _ & Q & _); rewrite Q; reflexivity).
    unfold seek_impl, skip_questions_impl, bind2.
    destruct Hwhere as [Hshortq|[Hfull Hrs]].
    - destruct (skip_questions_loop_fail (N.to_nat (lenN qs)) (q_fuel r) r 0 hw Hs ltac:(lia) Hshortq (Hstopq Hshortq) ltac:(unfold q_fuel; rewrite Hq0; lia)) as (r' & e & E).
      rewrite E. eauto.
    - destruct (skip_questions_loop_ok (N.to_nat nq) (q_fuel r) r 0 hw Hs ltac:(lia) Hfull ltac:(unfold q_fuel; rewrite Hq0; lia)) as (r1 & E1 & S1).
      rewrite E1.
      assert (Hfuel : forall r0 i h s0, RState r0 i h -> s0 < 3 -> s_fuel r0 s0 = S (N.to_nat (sec_count (lin nq an ns ar) s0))).
      { intros r0 i h s0 (_ & _ & (_ & _ & _ & _ & Sc & _) & _) H3. unfold s_fuel. rewrite Sc.
        assert (s0 = 0 \/ s0 = 1 \/ s0 = 2) as [-> | [-> | ->]] by lia; reflexivity. }
      specialize (Hstopr Hfull).
      assert (Hcases : s = 0 \/ s = 1 \/ s = 2) by lia. destruct Hcases as [-> | [-> | ->]]; cbn [sec_start lin l_an l_ns] in *; [lia| |].
      + destruct (skip_section_loop_fail 0 ltac:(lia) (N.to_nat (lenN rs)) (s_fuel r1 0) r1 nq (N.max hw nq) S1 ltac:(lia) Hfull) as (r' & e & E);
          try (cbn [sec_start sec_count lin l_an l_ns l_ar]; lia); [exact Hstopr|rewrite (Hfuel _ _ _ 0 S1) by lia; cbn [sec_count lin l_an]; lia|].
        rewrite E. eauto.
      + destruct (N.lt_ge_cases (lenN rs) an) as [Hlow|Hhigh].
        * destruct (skip_section_loop_fail 0 ltac:(lia) (N.to_nat (lenN rs)) (s_fuel r1 0) r1 nq (N.max hw nq) S1 ltac:(lia) Hfull) as (r' & e & E);
            try (cbn [sec_start sec_count lin l_an l_ns l_ar]; lia); [exact Hstopr|rewrite (Hfuel _ _ _ 0 S1) by lia; cbn [sec_count lin l_an]; lia|].
          rewrite E. eauto.
        * destruct (skip_section_loop_ok 0 ltac:(lia) (N.to_nat an) (s_fuel r1 0) r1 nq (N.max hw nq) S1) as (r2 & E2 & S2);
            try (cbn [sec_start sec_count lin l_an l_ns l_ar]; lia); [rewrite (Hfuel _ _ _ 0 S1) by lia; cbn [sec_count lin l_an]; lia|].
          rewrite E2. cbn [sec_start sec_count lin l_an l_ns l_ar] in S2. replace (nq + 0 + an) with (nq + an) in S2 by lia.
          destruct (skip_section_loop_fail 1 ltac:(lia) (N.to_nat (lenN rs - an)) (s_fuel r2 1) r2 (nq + an) _ S2 ltac:(lia) Hfull) as (r' & e & E);
            try (cbn [sec_start sec_count lin l_an l_ns l_ar]; lia); [exact Hstopr|rewrite (Hfuel _ _ _ 1 S2) by lia; cbn [sec_count lin l_ns]; lia|].
          rewrite E. eauto.
  Qed.

  (* ---------------------------------------------------------------- every allowed sequence *)
  (* what the linear pass prescribes for an operation at item idx *)
  Definition expected (idx : N) (o : top) (out : obs) : Prop :=
    match o with
    | TQuestion => exists it c, getN qs idx = Some it /\ out = OQuestionRef c (a_type it) (a_class it) /\ pos c = a_start it
    | TRecord => exists it, getN rs (idx - nq) = Some it /\
                   out = OMarker (mkMarker (a_start it) (a_type_off it) (a_type it) (a_class it) (a_ttl it) (a_rdlen it)
                                           (section_of (lin nq an ns ar) (idx - nq)))
    | TSeek _ => out = OUnit
    end.

  (* the reader's calls for an operation; the observation is the header call's result *)
  Definition rstep (r : reader) (o : top) : reader * res obs :=
    match o with
    | TQuestion => rd_question msg false true r
    | TRecord => match rd_marker msg r with
                 | (r1, Ok (OMarker mk)) => match rd_skip_data mk r1 with (r2, Ok _) => (r2, Ok (OMarker mk)) | (r2, x) => (r2, x) end
                 | other => other
                 end
    | TSeek s => rd_seek msg s r
    end.

  (* every call of the run succeeds with the prescribed item, and the run ends in r' *)
  Fixpoint prescribed (r' : reader) (ops : list top) (r : reader) (idx hw : N) : Prop :=
    match ops with
    | [] => r = r'
    | o :: rest =>
      match astep_t nq an ns ar idx hw o, rstep r o with
      | Some (i, h), (r1, Ok out) => expected idx o out /\ prescribed r' rest r1 i h
      | _, _ => False
      end
    end.

  (* every read of the sequence is a read of an item of the lists (automatic when the lists are
     complete: [allowed_within]) *)
  Fixpoint within (ops : list top) (idx hw : N) : Prop :=
    match ops with
    | [] => True
    | o :: rest =>
      match o with TQuestion => idx < lenN qs | TRecord => idx - nq < lenN rs | TSeek _ => True end /\
      match astep_t nq an ns ar idx hw o with Some (i, h) => within rest i h | None => True end
    end.

  Theorem reader_refines : forall ops r idx hw idx' hw',
    RState r idx hw -> allowed nq an ns ar ops idx hw = Some (idx', hw') -> within ops idx hw ->
    exists r', RState r' idx' hw' /\ prescribed r' ops r idx hw.
  Proof.
    induction ops as [|o ops IH]; intros r idx hw idx' hw' Hs Ha Hin; cbn [allowed] in Ha.
    - inversion Ha; subst. exists r. split; [exact Hs|reflexivity].
    - cbn [within] in Hin. destruct Hin as [Hin1 Hin2].
      destruct (astep_t nq an ns ar idx hw o) as [[i h]|] eqn:Ea; [|discriminate].
      assert (Hstep : exists r1 out, rstep r o = (r1, Ok out) /\ expected idx o out /\ RState r1 i h).
      { destruct o as [| |s]; cbn [astep_t rstep] in *.
        - destruct (idx <? nq) eqn:E; [|discriminate]. injection Ea as <- <-.
          destruct (getN_some qs idx ltac:(lia)) as [it Hg].
          destruct (step_question r idx hw it Hs Hg) as (r1 & E1 & S1).
          exists r1, (OQuestionRef (r_cur r) (a_type it) (a_class it)). split; [exact E1|]. split.
          + exists it, (r_cur r). split; [exact Hg|]. split; [reflexivity|]. destruct Hs as (_ & Hp & _). destruct (P_question idx it Hg) as (P1 & _). congruence.
          + destruct Hs as (_ & _ & (A & B & C & _) & _). replace (N.max hw (idx + 1)) with (idx + 1) by lia. exact S1.
        - destruct ((nq <=? idx) && (idx <? nq + nrec (lin nq an ns ar))) eqn:E; [|discriminate]. injection Ea as <- <-.
          assert (Hr' : idx - nq < lenN rs) by exact Hin1.
          destruct (getN_some rs (idx - nq) Hr') as [it Hg].
          destruct (step_record r idx hw it Hs ltac:(lia) Hg) as (r1 & r2 & E1 & E2 & S2). cbv zeta in E1, E2.
          rewrite E1, E2. eexists. eexists. split; [reflexivity|]. split; [|exact S2].
          exists it. split; [exact Hg|]. destruct (P_record (idx - nq) it Hg) as (P1 & _). replace (nq + (idx - nq)) with idx in P1 by lia. rewrite P1. reflexivity.
        - destruct ((s <? 3) && known (lin nq an ns ar) (mkA idx hw false None) s) eqn:E; [|discriminate]. injection Ea as <- <-.
          apply Bool.andb_true_iff in E. destruct E as [E1 E2].
          destruct (step_seek r idx hw s Hs ltac:(lia) E2) as (r1 & Es & S1). exists r1, OUnit. split; [exact Es|]. split; [reflexivity|exact S1]. }
      destruct Hstep as (r1 & out & E1 & Hexp & S1).
      destruct (IH r1 i h idx' hw' S1 Ha Hin2) as (r' & Sr' & Hgo). exists r'. split; [exact Sr'|].
      cbn [prescribed]. rewrite Ea, E1. split; [exact Hexp|exact Hgo].
  Qed.
End RR.

Lemma allowed_within nq an ns ar (qs rs : list aitem) : lenN qs = nq -> lenN rs = an + ns + ar ->
  forall ops idx hw res, allowed nq an ns ar ops idx hw = Some res -> within nq an ns ar qs rs ops idx hw.
Proof.
  intros F1 F2. induction ops as [|o ops IH]; intros idx hw res Ha; cbn [allowed within] in *; [exact I|].
  destruct (astep_t nq an ns ar idx hw o) as [[i h]|] eqn:Ea; [|discriminate]. split; [|eapply IH; exact Ha].
  destruct o as [| |s]; cbn [astep_t] in Ea; [| |exact I].
  - destruct (idx <? nq) eqn:E; [lia|discriminate].
  - destruct ((nq <=? idx) && (idx <? nq + nrec (lin nq an ns ar))) eqn:E; [|discriminate]. unfold nrec, lin in E; cbn in E. lia.
Qed.

(* ---------------------------------------------------------------- from the linear pass to the chains *)
Section L.
  Variable msg : list byte.

  Lemma pass_chain f nd : forall n p its e, pass msg f n p nd = (its, Some e) ->
    chain msg f (fun it => nd = true -> a_data_ok it = true) p its e /\ length its = n.
  Proof.
    induction n as [|n IH]; intros p its e; cbn [pass].
    - intro H; inversion H; subst. split; [constructor|reflexivity].
    - destruct (f msg p) as [it|] eqn:Ef; [|discriminate].
      destruct (nd && negb (a_data_ok it)) eqn:Ed; [discriminate|].
      destruct (pass msg f n (a_end it) nd) as [rest e'] eqn:Ep. intro H; inversion H; subst.
      destruct (IH _ _ _ Ep) as [Hc Hl]. split; [|cbn; lia].
      apply ch_cons; [exact Ef| |exact Hc]. intro Hn. subst nd. cbn in Ed. destruct (a_data_ok it); [reflexivity|discriminate].
  Qed.

  Lemma pass_full f : forall n p its eo, pass msg f n p true = (its, eo) -> length its = n ->
    Forall (fun it => a_data_ok it = true) its -> exists e, eo = Some e.
  Proof.
    induction n as [|n IH]; intros p its eo; cbn [pass].
    - intro H; inversion H; subst. eauto.
    - destruct (f msg p) as [it|] eqn:Ef; [|intro H; inversion H; subst; discriminate].
      destruct (true && negb (a_data_ok it)) eqn:Ed.
      + intro H; inversion H; subst. intros _ Hall. inversion Hall; subst. cbn in Ed. destruct (a_data_ok it); discriminate.
      + destruct (pass msg f n (a_end it) true) as [rest e'] eqn:Ep. intro H; inversion H; subst.
        intros Hl Hall. inversion Hall; subst. cbn in Hl. eapply IH; [exact Ep|lia|assumption].
  Qed.

  Lemma pass_short f : forall n p its, pass msg f n p false = (its, None) -> (length its < n)%nat.
  Proof.
    induction n as [|n IH]; intros p its; cbn [pass]; [discriminate|].
    destruct (f msg p) as [it|]; [|intro H; inversion H; subst; cbn; lia].
    cbn [andb]. destruct (pass msg f n (a_end it) false) as [rest e'] eqn:Ep.
    intro H; inversion H; subst. cbn [length]. specialize (IH _ _ Ep). lia.
  Qed.

  (* the general case: the pass yields a chain of completely parsed items and, if it stopped early,
     stopped either at an item that does not parse or (records) at a header whose data does not fit *)
  Lemma pass_prefix f nd : forall n p its eo, pass msg f n p nd = (its, eo) ->
    exists good e, chain msg f (fun it => nd = true -> a_data_ok it = true) p good e /\ (length good <= n)%nat /\
      match eo with
      | Some e' => its = good /\ e' = e /\ length good = n
      | None => (length good < n)%nat /\
                ((its = good /\ f msg e = None) \/
                 (exists it, its = good ++ [it] /\ f msg e = Some it /\ nd = true /\ a_data_ok it = false))
      end.
  Proof.
    induction n as [|n IH]; intros p its eo; cbn [pass].
    - intro H; inversion H; subst. exists [], p. split; [constructor|]. split; [cbn; lia|]. repeat split.
    - destruct (f msg p) as [it|] eqn:Ef.
      + destruct (nd && negb (a_data_ok it)) eqn:Ed.
        * intro H; inversion H; subst. exists [], p. split; [constructor|]. split; [cbn; lia|]. split; [cbn; lia|].
          right. exists it. apply Bool.andb_true_iff in Ed. destruct Ed as [E1 E2]. apply Bool.negb_true_iff in E2. repeat split; assumption.
        * destruct (pass msg f n (a_end it) nd) as [rest e'] eqn:Ep. intro H; inversion H; subst.
          destruct (IH _ _ _ Ep) as (good & e & C & L & M). exists (it :: good), e.
          split; [apply ch_cons; [exact Ef| |exact C]; intro Hn; subst nd; cbn in Ed; destruct (a_data_ok it); [reflexivity|discriminate]|].
          split; [cbn; lia|]. destruct eo as [e0|].
          -- destruct M as (M1 & M2 & M3). subst. repeat split; cbn; lia.
          -- destruct M as (M1 & M2). split; [cbn; lia|]. destruct M2 as [[M2 M3]|(it' & M2 & M3 & M4 & M5)].
             ++ left. subst. split; [reflexivity|assumption].
             ++ right. exists it'. subst rest. repeat split; assumption.
      + intro H; inversion H; subst. exists [], p. split; [constructor|]. split; [cbn; lia|]. split; [cbn; lia|]. left. split; [reflexivity|assumption].
  Qed.

  Lemma chain_all_ok f p its e : chain msg f (fun it => true = true -> a_data_ok it = true) p its e ->
    chain msg f (fun it => a_data_ok it = true) p its e /\ filter a_data_ok its = its.
  Proof.
    induction 1 as [p|p it rest e Hf Hok Hc [IH1 IH2]]; [split; [constructor|reflexivity]|].
    specialize (Hok eq_refl). split; [apply ch_cons; assumption|]. cbn [filter]. rewrite Hok, IH2. reflexivity.
  Qed.

  Lemma filter_snoc_bad (its : list aitem) it : filter a_data_ok its = its -> a_data_ok it = false -> filter a_data_ok (its ++ [it]) = its.
  Proof. intros H1 H2. rewrite filter_app, H1. cbn [filter]. rewrite H2. apply app_nil_r. Qed.

  (* EVERY message the reader accepts (12..65535 octets) gives the chains of its completely parsed
     items — the questions of the pass, the records of the pass whose data fits — and says what
     stands where they end *)
  Theorem linear_chains_any l : linear_of msg = Some l ->
    let rs := filter a_data_ok (l_rs l) in
    lenN msg <= 65535 /\ 12 <= lenN msg /\ l_nq l <= 65535 /\ l_an l <= 65535 /\ l_ns l <= 65535 /\ l_ar l <= 65535 /\
    exists e1 e2, chain msg question_at (fun _ => True) 12 (l_qs l) e1 /\
                  chain msg record_at (fun it => a_data_ok it = true) e1 rs e2 /\
                  lenN (l_qs l) <= l_nq l /\ (lenN (l_qs l) < l_nq l -> rs = [] /\ question_at msg e2 = None) /\
                  lenN rs <= nrec l /\
                  (lenN (l_qs l) = l_nq l -> lenN rs < nrec l ->
                   match record_at msg e2 with Some it => a_data_ok it = false | None => True end).
  Proof.
    unfold linear_of. destruct (65535 <? lenN msg) eqn:El; [discriminate|].
    unfold be. destruct (4 + 2 <=? lenN msg) eqn:E4; [|discriminate]. destruct (6 + 2 <=? lenN msg) eqn:E6; [|discriminate].
    destruct (8 + 2 <=? lenN msg) eqn:E8; [|discriminate]. destruct (10 + 2 <=? lenN msg) eqn:E10; [|discriminate].
    set (nq := be_val (subN msg 4 2) 0). set (an := be_val (subN msg 6 2) 0). set (ns := be_val (subN msg 8 2) 0). set (ar := be_val (subN msg 10 2) 0).
    destruct (pass msg question_at (N.to_nat nq) 12 false) as [qs e] eqn:Eq.
    intro H; inversion H; subst l; clear H. cbv zeta. cbn [l_qs l_rs l_nq l_an l_ns l_ar nrec].
    assert (B : forall p, be_val (subN msg p 2) 0 <= 65535) by (intro p; apply be_val_u16).
    split; [lia|]. split; [lia|]. split; [apply B|]. split; [apply B|]. split; [apply B|]. split; [apply B|].
    clearbody nq an ns ar.
    destruct (pass_prefix question_at false _ _ _ _ Eq) as (gq & e1 & Cq & Lq & Mq).
    assert (Cq' : chain msg question_at (fun _ => True) 12 gq e1).
    { clear - Cq. induction Cq; [constructor|]. apply ch_cons; [assumption|exact I|assumption]. }
    destruct e as [e1'|].
    - destruct Mq as (-> & -> & Mq).
      destruct (pass msg record_at (N.to_nat (an + ns + ar)) e1 true) as [rs eo] eqn:Er. cbn [fst].
      destruct (pass_prefix record_at true _ _ _ _ Er) as (gr & e2 & Cr & Lr & Mr).
      destruct (chain_all_ok _ _ _ _ Cr) as [Cr' Fr].
      assert (Hrs : filter a_data_ok rs = gr).
      { destruct eo as [e0|].
        - destruct Mr as (-> & _ & _). exact Fr.
        - destruct Mr as (_ & [[-> _]|(it & -> & _ & _ & Hbad)]); [exact Fr|apply filter_snoc_bad; assumption]. }
      rewrite Hrs. exists e1, e2. split; [exact Cq'|]. split; [exact Cr'|]. unfold nrec. cbn [l_an l_ns l_ar].
      split; [unfold lenN; lia|]. split; [intro Hlt; exfalso; unfold lenN in Hlt; lia|]. split; [unfold lenN; lia|].
      intros _ Hlt. destruct eo as [e0|].
      + destruct Mr as (_ & _ & Mr). unfold lenN in Hlt. lia.
      + destruct Mr as (_ & [[_ Mr]|(it & _ & Mr & _ & Hbad)]); rewrite Mr; [exact I|exact Hbad].
    - destruct Mq as (Mq1 & [[-> Mq2]|(it & _ & _ & Mq & _)]); [|discriminate].
      cbn [fst filter]. exists e1, e1. split; [exact Cq'|]. split; [constructor|]. unfold nrec. cbn [l_an l_ns l_ar].
      split; [unfold lenN; lia|]. split; [intros _; split; [reflexivity|exact Mq2]|]. split; [unfold lenN; cbn [length]; lia|].
      intros Hfull. unfold lenN in Hfull. lia.
  Qed.

  (* a message that the linear pass parses completely gives the two chains of ReaderRefine *)
  Theorem linear_chains l : linear_of msg = Some l ->
    lenN (l_qs l) = l_nq l -> lenN (l_rs l) = nrec l -> Forall (fun it => a_data_ok it = true) (l_rs l) ->
    lenN msg <= 65535 /\ 12 <= lenN msg /\ l_nq l <= 65535 /\ l_an l <= 65535 /\ l_ns l <= 65535 /\ l_ar l <= 65535 /\
    exists e1 e2, chain msg question_at (fun _ => True) 12 (l_qs l) e1 /\
                  chain msg record_at (fun it => a_data_ok it = true) e1 (l_rs l) e2.
  Proof.
    unfold linear_of. destruct (65535 <? lenN msg) eqn:El; [discriminate|].
    unfold be. destruct (4 + 2 <=? lenN msg) eqn:E4; [|discriminate]. destruct (6 + 2 <=? lenN msg) eqn:E6; [|discriminate].
    destruct (8 + 2 <=? lenN msg) eqn:E8; [|discriminate]. destruct (10 + 2 <=? lenN msg) eqn:E10; [|discriminate].
    set (nq := be_val (subN msg 4 2) 0). set (an := be_val (subN msg 6 2) 0). set (ns := be_val (subN msg 8 2) 0). set (ar := be_val (subN msg 10 2) 0).
    destruct (pass msg question_at (N.to_nat nq) 12 false) as [qs e] eqn:Eq.
    intro H; inversion H; subst l; clear H. cbn [l_qs l_rs l_nq l_an l_ns l_ar nrec].
    intros Hq Hr Hall. unfold nrec in Hr. cbn [l_an l_ns l_ar] in Hr.
    assert (B : forall p, be_val (subN msg p 2) 0 <= 65535) by (intro p; apply be_val_u16).
    split; [lia|]. split; [lia|]. split; [apply B|]. split; [apply B|]. split; [apply B|]. split; [apply B|].
    destruct e as [e1|].
    - destruct (pass_chain question_at false _ _ _ _ Eq) as [C1 _].
      destruct (pass msg record_at (N.to_nat (an + ns + ar)) e1 true) as [rs eo] eqn:Er. cbn [fst] in *.
      destruct (pass_full record_at _ _ _ _ Er ltac:(unfold lenN in Hr; lia) Hall) as [e2 ->].
      destruct (pass_chain record_at true _ _ _ _ Er) as [C2 _].
      exists e1, e2. split.
      + clear - C1. induction C1; [constructor|]. apply ch_cons; [assumption|exact I|assumption].
      + clear - C2. induction C2 as [|p it rest e Hf Hok Hc IH]; [constructor|]. apply ch_cons; [assumption|apply Hok; reflexivity|assumption].
    - (* the question pass stopped early: then there are no records, contradiction with the counts unless all are 0 *)
      cbn [fst] in *.
      assert (Hz : an + ns + ar = 0) by (unfold lenN in Hr; cbn in Hr; lia).
      (* and the questions did not all parse: fewer items than announced *)
      pose proof (pass_short question_at _ _ _ Eq) as Hs. unfold lenN in Hq. lia.
  Qed.
End L.

(* ---------------------------------------------------------------- packaged for Properties/C09.v *)
(* [parsed msg nq an ns ar qs rs e1 e2]: msg announces nq questions and an/ns/ar records; qs are
   the questions that parse back to back from offset 12 up to e1, rs the records that parse
   completely (header and RDLENGTH octets inside the message) back to back from e1 up to e2; the
   lists are complete or a prefix, and no record is parsed unless all questions were *)
Definition parsed (msg : list byte) (nq an ns ar : N) (qs rs : list aitem) (e1 e2 : N) : Prop :=
  lenN msg <= 65535 /\ 12 <= lenN msg /\
  chain msg question_at (fun _ => True) 12 qs e1 /\
  chain msg record_at (fun it => a_data_ok it = true) e1 rs e2 /\
  lenN qs <= nq /\ (lenN qs < nq -> rs = []) /\ lenN rs <= an + ns + ar /\
  nq <= 65535 /\ an <= 65535 /\ ns <= 65535 /\ ar <= 65535.

Section W.
  Variables (msg : list byte) (nq an ns ar : N) (qs rs : list aitem) (e1 e2 : N).
  Hypothesis Hp : parsed msg nq an ns ar qs rs e1 e2.

  Ltac use L := destruct Hp as (A1 & A2 & A3 & A4 & A5 & A6 & A7 & A8 & A9 & A10 & A11);
                eapply (L msg A1 A2 nq an ns ar qs rs e1 e2 A3 A4 A5 A6 A7 A8 A9 A10 A11); eassumption.

  Theorem reader_refines_any : forall ops r idx hw idx' hw',
    RState msg nq an ns ar qs rs e2 r idx hw -> allowed nq an ns ar ops idx hw = Some (idx', hw') ->
    within nq an ns ar qs rs ops idx hw ->
    exists r', RState msg nq an ns ar qs rs e2 r' idx' hw' /\ prescribed msg nq an ns ar qs rs r' ops r idx hw.
  Proof. intros. use reader_refines. Qed.

  Theorem rstate_start_any : forall h c, h_qd h = nq -> h_an h = an -> h_ns h = ns -> h_ar h = ar ->
    whole msg c -> pos c = 12 -> RState msg nq an ns ar qs rs e2 (mkReader c (tr_set tr_default h) false) 0 0.
  Proof. intros. use rstate_start. Qed.

  Theorem fail_question_any : forall r idx hw, RState msg nq an ns ar qs rs e2 r idx hw ->
    idx = lenN qs -> idx < nq -> question_at msg e2 = None ->
    exists r' e, rd_question msg false true r = (r', Err e) /\ r_done r' = true.
  Proof. intros. use fail_question. Qed.

  Theorem fail_record_any : forall r idx hw, RState msg nq an ns ar qs rs e2 r idx hw ->
    lenN qs = nq -> idx = nq + lenN rs -> lenN rs < an + ns + ar ->
    match record_at msg e2 with
    | None => exists r' e, rd_marker msg r = (r', Err e) /\ r_done r' = true
    | Some it =>
      a_data_ok it = false ->
      let mk := mkMarker e2 (a_type_off it) (a_type it) (a_class it) (a_ttl it) (a_rdlen it) (section_of (lin nq an ns ar) (idx - nq)) in
      exists r1 r2 e, rd_marker msg r = (r1, Ok (OMarker mk)) /\ rd_skip_data mk r1 = (r2, Err e) /\ r_done r2 = true
    end.
  Proof. intros. use fail_record. Qed.

  Theorem seek_skip_any : forall r hw s, RState msg nq an ns ar qs rs e2 r 0 hw -> s < 3 ->
    known (lin nq an ns ar) (mkA 0 hw false None) s = false ->
    lenN qs = nq -> sec_start (lin nq an ns ar) s <= lenN rs ->
    exists r', rd_seek msg s r = (r', Ok OUnit) /\
               RState msg nq an ns ar qs rs e2 r' (nq + sec_start (lin nq an ns ar) s) (N.max hw (nq + sec_start (lin nq an ns ar) s)).
  Proof. intros. use step_seek_skip. Qed.

  Theorem seek_refused_any : forall r idx hw s, RState msg nq an ns ar qs rs e2 r idx hw -> s < 3 ->
    known (lin nq an ns ar) (mkA idx hw false None) s = false ->
    0 < idx -> idx <= lenN qs + lenN rs -> rd_seek msg s r = (r, Err (RecordsSectionOffsetUnknown s)).
  Proof. intros. use step_seek_refused. Qed.

  Theorem question_flavours_any : forall single as_ref r idx hw it,
    RState msg nq an ns ar qs rs e2 r idx hw -> getN qs idx = Some it ->
    (single = true -> idx + 1 = nq) -> (as_ref = false -> a_fits255 it = true) ->
    exists r' o, rd_question msg single as_ref r = (r', Ok o) /\ RState msg nq an ns ar qs rs e2 r' (idx + 1) (idx + 1) /\
      if as_ref then o = OQuestionRef (r_cur r) (a_type it) (a_class it)
      else exists ls e, spec_name msg (a_start it) = SAccept ls e /\ o = OQuestion (join_labels (map snd ls)) (a_type it) (a_class it).
  Proof. intros. use step_question_any. Qed.

  Theorem owned_question_too_long_any : forall single r idx hw it,
    RState msg nq an ns ar qs rs e2 r idx hw -> getN qs idx = Some it ->
    (single = true -> idx + 1 = nq) -> a_fits255 it = false ->
    exists r' e, rd_question msg single false r = (r', Err e) /\ r_done r' = true.
  Proof. intros. use fail_question_owned. Qed.

  Theorem header_flavours_any : forall r idx hw it,
    RState msg nq an ns ar qs rs e2 r idx hw -> nq <= idx -> getN rs (idx - nq) = Some it ->
    let mk := mk_of nq an ns ar qs rs e2 idx it in
    (exists r1, rd_marker msg r = (r1, Ok (OMarker mk)) /\ RMid msg nq an ns ar qs rs e2 r1 idx hw it) /\
    (exists r1, rd_header_ref msg r = (r1, Ok (OHeaderRef (r_cur r) mk)) /\ RMid msg nq an ns ar qs rs e2 r1 idx hw it) /\
    (forall nk, a_fits255 it = true ->
       exists r1 ls e, spec_name msg (a_start it) = SAccept ls e /\
         rd_header_n msg nk r = (r1, Ok (OHeaderN (join_labels (map snd ls)) mk)) /\ RMid msg nq an ns ar qs rs e2 r1 idx hw it) /\
    (forall nk, a_fits255 it = false -> exists r1 e, rd_header_n msg nk r = (r1, Err e) /\ r_done r1 = true).
  Proof. intros. cbv zeta. use step_header. Qed.

  Theorem data_flavours_any : forall r1 idx hw it, RMid msg nq an ns ar qs rs e2 r1 idx hw it ->
    let mk := mk_of nq an ns ar qs rs e2 idx it in
    (exists r2, rd_skip_data mk r1 = (r2, Ok OUnit) /\ RState msg nq an ns ar qs rs e2 r2 (idx + 1) (N.max hw (idx + 1))) /\
    (exists r2, rd_data_bytes msg mk r1 = (r2, Ok (OBytes (a_type_off it + 10) (subN msg (a_type_off it + 10) (a_rdlen it)))) /\
                RState msg nq an ns ar qs rs e2 r2 (idx + 1) (N.max hw (idx + 1))) /\
    (a_type it = T_OPT ->
     exists r2, rd_opt mk r1 = (r2, Ok (OOpt (opt_from_msg (a_class it) (a_ttl it)))) /\
                RState msg nq an ns ar qs rs e2 r2 (idx + 1) (N.max hw (idx + 1))) /\
    (forall ty r2 x, read_rdata msg ty (a_rdlen it) <> None -> rd_data msg ty mk r1 = (r2, x) ->
       match x with
       | Ok o => (exists d, o = ORData d) /\ RState msg nq an ns ar qs rs e2 r2 (idx + 1) (N.max hw (idx + 1))
       | _ => r_done r2 = true
       end).
  Proof.
    intros. cbv zeta. destruct Hp as (A1 & A2 & A3 & A4 & A5 & A6 & A7 & A8 & A9 & A10 & A11).
    eapply (step_data msg A1 A2 nq an ns ar qs rs e2 A5 A6 A7 A8 A9 A10 A11); eassumption.
  Qed.

  Theorem counts_reader_any : forall r idx hw, RState msg nq an ns ar qs rs e2 r idx hw ->
    rd_questions_count r = Ok (ONum (nq - N.min idx nq)) /\
    rd_records_count_in 0 r = Ok (ONum (an - rd nq an ns ar idx 0)) /\
    rd_records_count_in 1 r = Ok (ONum (ns - rd nq an ns ar idx 1)) /\
    rd_records_count_in 2 r = Ok (ONum (ar - rd nq an ns ar idx 2)) /\
    rd_records_count r = Ok (ONum ((an - rd nq an ns ar idx 0) + (ns - rd nq an ns ar idx 1) + (ar - rd nq an ns ar idx 2))).
  Proof. intros. use counts_reader. Qed.

  Theorem rs_len_le_any : lenN rs <= lenN msg.
  Proof. destruct Hp as (A1 & A2 & A3 & A4 & A5 & A6 & A7 & A8 & A9 & A10 & A11). eapply (rs_len_le msg A1 A2 nq an ns ar); eassumption. Qed.
  Theorem P_0_any : P qs rs e2 0 = 12.
  Proof. use P_0. Qed.

  Theorem iter_records_any : forall h l, lenN rs = an + ns + ar ->
    h_qd h <= 65535 -> h_an h = an -> h_ns h = ns -> h_ar h = ar ->
    lenN qs = nq -> iter_items msg nq an ns ar 0 rs = Some l -> iter_records msg h e1 = Ok (l, None).
  Proof.
    intros h l H1 H2 H3 H4 H5 Hfull Hit. destruct Hp as (A1 & A2 & A3 & A4 & A5 & A6 & A7 & A8 & A9 & A10 & A11).
    assert (HP : P qs rs e2 nq = e1) by (eapply (P_nq msg A1 A2 nq an ns ar qs rs e1 e2); eassumption). rewrite <- HP.
    eapply (iter_records_spec msg A1 A2 nq an ns ar qs rs e1 e2 A4 A5 A6 A7 A8 A9 A10 A11); eassumption.
  Qed.

  Theorem seek_skip_fails_any : forall r hw s, RState msg nq an ns ar qs rs e2 r 0 hw -> s < 3 ->
    known (lin nq an ns ar) (mkA 0 hw false None) s = false ->
    (lenN qs < nq -> question_at msg e2 = None) ->
    (lenN qs = nq -> match record_at msg e2 with Some it => a_data_ok it = false | None => True end) ->
    lenN qs < nq \/ (lenN qs = nq /\ lenN rs < sec_start (lin nq an ns ar) s) ->
    exists r' e, rd_seek msg s r = (r', Err e) /\ r_done r' = true.
  Proof. intros. use step_seek_skip_fails. Qed.

  Theorem iter_records_walk_any : forall h, lenN rs = an + ns + ar ->
    h_qd h <= 65535 -> h_an h = an -> h_ns h = ns -> h_ar h = ar -> lenN qs = nq ->
    exists stop, iter_records msg h e1 = Ok (fst (iter_walk msg nq an ns ar 0 rs), stop) /\
                 (snd (iter_walk msg nq an ns ar 0 rs) = true <-> stop = None).
  Proof.
    intros h H1 H2 H3 H4 H5 Hfull. destruct Hp as (A1 & A2 & A3 & A4 & A5 & A6 & A7 & A8 & A9 & A10 & A11).
    assert (HP : P qs rs e2 nq = e1) by (eapply (P_nq msg A1 A2 nq an ns ar qs rs e1 e2); eassumption). rewrite <- HP.
    eapply (iter_records_walk msg A1 A2 nq an ns ar qs rs e1 e2 A4 A5 A6 A7 A8 A9 A10 A11); eassumption.
  Qed.
End W.

Theorem linear_parsed msg l : linear_of msg = Some l ->
  let rs := filter a_data_ok (l_rs l) in
  exists e1 e2, parsed msg (l_nq l) (l_an l) (l_ns l) (l_ar l) (l_qs l) rs e1 e2 /\
    (lenN (l_qs l) < l_nq l -> question_at msg e2 = None) /\
    (lenN (l_qs l) = l_nq l -> lenN rs < nrec l ->
     match record_at msg e2 with Some it => a_data_ok it = false | None => True end).
Proof.
  intro H. cbv zeta. destruct (linear_chains_any msg l H) as (B1 & B2 & B3 & B4 & B5 & B6 & e1 & e2 & C1 & C2 & C3 & C4 & C5 & C6).
  exists e1, e2. split; [|split; [intro Hlt; apply C4; exact Hlt|exact C6]].
  unfold parsed. unfold nrec in C5. repeat (split; [assumption|]). split; [intro Hlt; apply C4; exact Hlt|].
  repeat (split; [assumption|]). assumption.
Qed.
