(* Proofs/FieldLeaves.v — the fixed part of a record as the code reads it.  The models of
   raw_marker_impl (Reader.v: m_raw_marker) and of the iterator's read_impl (Iter.v) take TYPE,
   CLASS, TTL and RDLENGTH to be the big-endian words read from the message, unchanged.  The
   expressions the source applies to those words are re-translated on every run (GenReader.v:
   the marker_field and iter_field leaves); this theorem is the obligation that they are the identity. *)
From RsdnsModel Require Import Base GenReader.
Open Scope N_scope.
Theorem fields_are_the_words_read : forall w,
  (marker_field_type w = w /\ marker_field_class w = w /\ marker_field_ttl w = w /\ marker_field_rdlen w = w) /\
  (iter_field_type w = w /\ iter_field_class w = w /\ iter_field_ttl w = w /\ iter_field_rdlen w = w).
Proof. intro w. repeat split; reflexivity. Qed.
