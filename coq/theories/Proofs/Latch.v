(* Proofs/Latch.v — the error state of the reader is sticky: once `done`, every sequential call
   and every seek returns ReaderDone, changes nothing, and all counts read 0. *)
From Coq Require Import ZArith.
From RsdnsModel Require Import Base GenConst Cursor Names Labels Header Tracker RData Reader.
Open Scope N_scope.

Section L.
  Variable msg : list byte.

  Theorem done_sticky r : r_done r = true ->
    (forall single as_ref, rd_question msg single as_ref r = (r, Err ReaderDone)) /\
    rd_skip_questions msg r = (r, Err ReaderDone) /\
    rd_marker msg r = (r, Err ReaderDone) /\ rd_header_ref msg r = (r, Err ReaderDone) /\
    (forall nk, rd_header_n msg nk r = (r, Err ReaderDone)) /\
    (forall s, rd_seek msg s r = (r, Err ReaderDone)) /\
    rd_questions_count r = Ok (ONum 0) /\ rd_records_count r = Ok (ONum 0) /\
    (forall s, rd_records_count_in s r = Ok (ONum 0)).
  Proof.
    intro H. unfold rd_question, rd_skip_questions, rd_marker, rd_header_ref, rd_header_n, rd_seek,
      rd_questions_count, rd_records_count, rd_records_count_in. rewrite H. cbn. repeat split; reflexivity.
  Qed.

  (* a failing sequential call latches the error state *)
  Lemma latch_done {X} (p : reader * res X) : is_ok (snd p) = false -> r_done (fst (latch p)) = true.
  Proof. destruct p as [r x]. unfold latch. destruct x; cbn; intro H; try discriminate; reflexivity. Qed.

  Theorem error_latches r :
    r_done r = false ->
    (is_ok (snd (rd_marker msg r)) = false -> r_done (fst (rd_marker msg r)) = true) /\
    (is_ok (snd (rd_header_ref msg r)) = false -> r_done (fst (rd_header_ref msg r)) = true) /\
    (forall nk, is_ok (snd (rd_header_n msg nk r)) = false -> r_done (fst (rd_header_n msg nk r)) = true) /\
    (is_ok (snd (rd_skip_questions msg r)) = false -> r_done (fst (rd_skip_questions msg r)) = true).
  Proof.
    intro H. unfold rd_marker, rd_header_ref, rd_header_n, rd_skip_questions. rewrite H.
    repeat split; intros; apply latch_done; unfold latch in *;
      match goal with |- context [snd ?p] => destruct p as [r' x]; destruct x; cbn in *; try discriminate; reflexivity end.
  Qed.
End L.
