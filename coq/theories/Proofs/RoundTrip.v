(* Proofs/RoundTrip.v — text and wire forms of a name round-trip:
   decoding the uncompressed wire form of any list of valid labels (at any place in any message)
   yields their text with the root dot and resumes right behind it; hence what the encoder writes
   for a valid text name decodes — with either name type — to the canonical spelling of that text. *)
From Coq Require Import ZArith.
From RsdnsModel Require Import Base GenConst GenCursor GenLabels GenNames GenWriter GenSpec Cursor Names Labels Writer.
From RsdnsModel.Spec Require Import WireName NameText.
From RsdnsModel.Proofs Require Import CursorSafe ListN LabelsTotal LabelsSound NameText WriterSafe WriterLayout.
From Coq Require Import ZifyBool ZifyN ZifyNat.
Open Scope N_scope.

Lemma bN_Nb n : n < 256 -> bN (Nb n) = n.
Proof.
  intro H. unfold bN, Nb. rewrite N.mod_small by assumption.
  destruct (Byte.of_N n) as [b|] eqn:E; [apply Byte.to_of_N; assumption|].
  apply Byte.of_N_None_iff in E. lia.
Qed.

Definition text_of (ls : list (list byte)) : list byte := concat (map (fun l => l ++ [x2e]) ls).

Lemma lenN_wire_encode ls : lenN (wire_encode ls) = wire_len ls.
Proof.
  unfold wire_encode, wire_len. rewrite lenN_app, lenN_cons, lenN_nil.
  induction ls as [|l ls IH]; cbn [map concat fold_right]; [reflexivity|].
  unfold enc_label at 1. cbn [app]. rewrite lenN_cons, lenN_app. lia.
Qed.
Lemma lenN_text_of ls : lenN (text_of ls) + 1 = wire_len ls.
Proof.
  unfold text_of, wire_len. induction ls as [|l ls IH]; cbn [map concat fold_right]; [reflexivity|].
  rewrite !lenN_app, lenN_cons, lenN_nil. lia.
Qed.

Section RT.
  Variable msg : list byte.

  Lemma c_u8_fwd c b : cwf msg c -> pos c < lim c -> getN msg (pos c) = Some b ->
    c_u8 msg c = Ok (bN b, c_set_pos c (pos c + 1)).
  Proof.
    intros Hc Hlt Hg. pose proof (c_u8_defined msg c Hc) as D.
    destruct (c_u8 msg c) as [[v c']| | | | |] eqn:E; cbn in D; try tauto.
    - apply c_u8_ok in E. destruct E as (_ & (b' & Hb' & Hv) & Hc'). rewrite Hg in Hb'. inversion Hb'; subst. reflexivity.
    - apply c_u8_err in E. lia.
  Qed.
  Lemma c_slice_fwd c n : cwf msg c -> pos c + n <= lim c ->
    c_slice msg c n = Ok (pos c, subN msg (pos c) n, c_set_pos c (pos c + n)).
  Proof.
    intros Hc Hle. pose proof (c_slice_defined msg c n Hc) as D.
    destruct (c_slice msg c n) as [[[lo bs] c']| | | | |] eqn:E; cbn in D; try tauto.
    - apply c_slice_ok in E. destruct E as (-> & _ & _ & -> & ->). reflexivity.
    - apply c_slice_err in E. lia.
  Qed.

  Lemma append_label_fwd nk dn l : label_ok l = true -> lenN dn + lenN l + 1 <= 255 ->
    append_label_bytes nk dn l = Ok (dn ++ l ++ [dot]).
  Proof.
    intros Hl Hlen. unfold append_label_bytes. apply check_label_ok in Hl. rewrite Hl. cbn [bind].
    destruct nk.
    - unfold name_new_len_bad, name_new_len. rewrite DOMAIN_NAME_MAX_LENGTH_spec.
      destruct (255 <? lenN dn + lenN l + 1) eqn:E; [lia|reflexivity].
    - unfold inline_capacity. rewrite DOMAIN_NAME_MAX_LENGTH_spec.
      destruct (lenN dn + lenN l <=? 255) eqn:E1; [|lia]. rewrite lenN_app.
      destruct (lenN dn + lenN l + 1 <=? 255) eqn:E2; [|lia]. rewrite <- app_assoc. reflexivity.
  Qed.

  (* the walker over an uncompressed name lying at [pre] *)
  Lemma read_name_loop_plain nk post : forall ls pre dn fuel st,
    msg = pre ++ wire_encode ls ++ post ->
    pos (lc st) = lenN pre -> lenN pre + wire_len ls <= lim (lc st) -> cwf msg (lc st) -> max_pos st = 0 ->
    Forall (fun l => label_ok l = true) ls -> lenN dn + lenN (text_of ls) <= 254 ->
    (length ls < fuel)%nat ->
    read_name_loop msg nk fuel st dn = Ok (dn ++ text_of ls, lenN pre + wire_len ls).
  Proof.
    induction ls as [|l ls IH]; intros pre dn fuel st Hm Hp Hlim Hc Hmp Hok Htl Hf;
      (destruct fuel as [|f]; [cbn in Hf; lia|]); cbn [read_name_loop].
    - (* the root octet *)
      unfold label_step. cbn [wire_encode map concat app] in Hm.
      assert (Hg : getN msg (pos (lc st)) = Some x00).
      { rewrite Hp, Hm, getN_app_r by lia. rewrite N.sub_diag. reflexivity. }
      unfold wire_len in Hlim. cbn [fold_right] in Hlim.
      rewrite (c_u8_fwd _ x00 Hc ltac:(lia) Hg). cbn [bind].
      change (label_is_root (bN x00)) with true. cbn iota. rewrite Hmp. change (max_pos_unset 0) with true. cbn iota.
      cbn [bind pos c_set_pos]. unfold text_of. cbn [map concat]. rewrite app_nil_r, Hp. reflexivity.
    - pose proof (Forall_inv Hok) as Hl. pose proof (Forall_inv_tail Hok) as Hok'. cbv beta in Hl.
      assert (Hl63 : lenN l <= 63 /\ l <> []).
      { split; [|apply label_ok_nodot; assumption]. unfold label_ok in Hl. destruct l; [discriminate|].
        rewrite !Bool.andb_true_iff in Hl. lia. }
      destruct Hl63 as [Hl63 Hlne].
      assert (Hl0 : 0 < lenN l) by (destruct l; [congruence|rewrite lenN_cons; lia]).
      unfold wire_encode in Hm. cbn [map concat] in Hm. unfold enc_label at 1 in Hm.
      assert (Hm' : msg = (pre ++ [Nb (lenN l)]) ++ l ++ (wire_encode ls ++ post)).
      { rewrite Hm. unfold wire_encode. rewrite <- !app_assoc. reflexivity. }
      assert (Hwl : wire_len (l :: ls) = lenN l + 1 + wire_len ls) by reflexivity.
      unfold label_step.
      assert (Hg : getN msg (pos (lc st)) = Some (Nb (lenN l))).
      { rewrite Hp, Hm, getN_app_r by lia. rewrite N.sub_diag. reflexivity. }
      rewrite (c_u8_fwd _ _ Hc ltac:(pose proof (wire_len_fold ls); lia) Hg). cbn [bind].
      rewrite bN_Nb by lia.
      assert (Hr : label_is_root (lenN l) = false) by (unfold label_is_root; lia). rewrite Hr.
      assert (Hil : is_length (lenN l) = true).
      { rewrite <- (bN_Nb (lenN l)) by lia. rewrite is_length_spec, bN_Nb by lia. lia. }
      rewrite Hil.
      assert (Hc1 : cwf msg (c_set_pos (lc st) (pos (lc st) + 1))) by (apply cwf_set_pos; assumption).
      rewrite (c_slice_fwd _ (lenN l) Hc1) by (cbn [pos lim c_set_pos]; pose proof (wire_len_fold ls); lia).
      cbn [bind pos c_set_pos].
      assert (Hsub : subN msg (pos (lc st) + 1) (lenN l) = l).
      { rewrite Hp. replace (lenN pre + 1) with (lenN (pre ++ [Nb (lenN l)])) by (rewrite lenN_app, lenN_cons, lenN_nil; lia).
        rewrite Hm'. apply subN_mid. }
      rewrite Hsub.
      assert (Htl' : lenN (text_of (l :: ls)) = lenN l + 1 + lenN (text_of ls)).
      { unfold text_of. cbn [map concat]. rewrite !lenN_app, lenN_cons, lenN_nil. lia. }
      rewrite (append_label_fwd nk dn l Hl) by lia. cbn [bind].
      rewrite (IH (pre ++ [Nb (lenN l)] ++ l) (dn ++ l ++ [dot]) f).
      + f_equal. f_equal.
        * unfold text_of. cbn [map concat]. rewrite <- !app_assoc. reflexivity.
        * rewrite !lenN_app, lenN_cons, lenN_nil, Hwl. lia.
      + rewrite Hm'. rewrite <- !app_assoc. reflexivity.
      + cbn [lc pos c_set_pos]. rewrite Hp, !lenN_app, lenN_cons, lenN_nil. lia.
      + cbn [lc lim c_set_pos]. rewrite !lenN_app, lenN_cons, lenN_nil. lia.
      + cbn [lc]. apply cwf_set_pos. assumption.
      + cbn [max_pos]. assumption.
      + assumption.
      + rewrite !lenN_app, lenN_cons, lenN_nil. lia.
      + cbn [length] in Hf. lia.
  Qed.

  (* decoding an uncompressed name that lies anywhere in a message *)
  Theorem read_name_plain nk pre ls post c :
    msg = pre ++ wire_encode ls ++ post -> cwf msg c -> pos c = lenN pre -> lenN pre + wire_len ls <= lim c ->
    Forall (fun l => label_ok l = true) ls -> wire_len ls <= 255 ->
    read_name msg nk c = Ok (join_labels ls, c_set_pos c (lenN pre + wire_len ls)).
  Proof.
    intros Hm Hc Hp Hlim Hok Hw. unfold read_name.
    pose proof (lenN_text_of ls) as Ht.
    assert (Hfuel : (length ls < name_fuel c)%nat).
    { unfold name_fuel. pose proof (wire_len_fold ls) as Hf.
      assert (N.of_nat (length ls) <= fold_right (fun l acc => lenN l + 1 + acc) 0 ls).
      { clear. induction ls as [|l ls IH]; cbn [length fold_right]; lia. }
      lia. }
    rewrite (read_name_loop_plain nk post ls pre [] (name_fuel c) (mkL c 0 0) Hm Hp Hlim Hc eq_refl Hok ltac:(rewrite lenN_nil; lia) Hfuel).
    cbn [bind app]. unfold name_wire_too_long. rewrite DOMAIN_NAME_MAX_LENGTH_spec.
    destruct (255 <=? lenN (text_of ls)) eqn:E; [lia|].
    f_equal. f_equal. unfold join_labels, text_of. destruct ls as [|l ls']; [reflexivity|].
    cbn [map concat]. destruct (l ++ [x2e]) eqn:El; [destruct l; discriminate|]. reflexivity.
  Qed.
End RT.

(* ---------------------------------------------------------------- text -> wire -> text *)
Lemma join_dots_snoc_nil rl : rl <> [] -> join_dots (rl ++ [[]]) = text_of rl.
Proof.
  induction rl as [|p rl IH]; intro H; [congruence|]. destruct rl as [|q r].
  - unfold text_of. cbn. rewrite !app_nil_r. reflexivity.
  - change (join_dots ((p :: q :: r) ++ [[]])) with (p ++ [x2e] ++ join_dots ((q :: r) ++ [[]])).
    rewrite IH by discriminate. unfold text_of. cbn [map concat]. repeat rewrite <- app_assoc. reflexivity.
Qed.
Lemma text_of_join ps : ps <> [] -> text_of ps = join_dots ps ++ [x2e].
Proof.
  induction ps as [|p ps IH]; intro H; [congruence|]. destruct ps as [|q r].
  - unfold text_of. cbn. rewrite app_nil_r. reflexivity.
  - change (join_dots (p :: q :: r)) with (p ++ [x2e] ++ join_dots (q :: r)).
    unfold text_of in *. cbn [map concat] in *. rewrite IH by discriminate. repeat rewrite <- app_assoc. reflexivity.
Qed.

(* the labels of a text name, joined with dots, are its canonical spelling *)
Lemma join_text_labels s : s <> [] -> text_labels s <> [] -> join_labels (text_labels s) = canon_text s.
Proof.
  intros Hne Hl. pose proof (text_labels_pieces s) as Hp. cbv zeta in Hp.
  pose proof (join_split s []) as Hj. cbn [rev app] in Hj.
  pose proof (split_dots_nonempty s []) as Hps.
  destruct (exists_last Hps) as (rl & x & Hx). rewrite Hx, last_last, removelast_last in Hp. rewrite Hx in Hj.
  assert (Hjl : forall L, L <> [] -> join_labels L = text_of L) by (intros [|a L] H; [congruence|reflexivity]).
  rewrite (Hjl _ Hl), (canon_text_last s Hne).
  destruct x as [|b x].
  - rewrite Hp in *. rewrite join_dots_snoc_nil in Hj by exact Hl. rewrite <- Hj.
    unfold text_of. rewrite (concat_dot_last rl Hl). reflexivity.
  - rewrite Hp. rewrite text_of_join by (intro E; apply app_eq_nil in E; destruct E; discriminate). rewrite Hj.
    destruct (join_last (rl ++ [b :: x]) ltac:(intro E; apply app_eq_nil in E; destruct E; discriminate)) as [pre Hpre].
    rewrite last_last, Hj in Hpre.
    assert (Hnd : bN (last s x00) =? 46 = false).
    { rewrite Hpre, last_app' by discriminate.
      pose proof (pieces_no_dot s [] ltac:(constructor)) as Hd. rewrite Hx in Hd.
      apply Forall_app in Hd. destruct Hd as [_ Hd]. apply Forall_inv in Hd. rewrite Forall_forall in Hd.
      specialize (Hd (last (b :: x) x00) ltac:(apply last_In; discriminate)). lia. }
    rewrite Hnd. reflexivity.
Qed.

(* what the encoder wrote for a valid text name decodes — as Name or as InlineName — to the
   canonical spelling of that text, and decoding resumes right behind the encoded name *)
Theorem encode_then_decode w s w' n nk :
  wpos w <= wcap w -> write_name w s = Ok (w', n) ->
  let c := mkCursor (wpos w') (wpos w) None in
  read_name (wbuf w') nk c = Ok (canon_text s, c_set_pos c (wpos w')).
Proof.
  intros Hw H. cbv zeta.
  pose proof (write_name_refuses_invalid _ _ _ _ H) as [Hchk Hn].
  apply check_name_valid in Hchk.
  destruct (write_name_layout _ _ _ _ Hw H) as [Hwr Hlen].
  pose proof (written_cap _ _ _ Hwr) as Hcap. destruct Hwr as (W1 & W2 & W3).
  assert (Hne : s <> []) by (intro E; subst s; discriminate).
  (* the labels and their validity *)
  set (ls := if is_root s then [] else text_labels s).
  assert (Hq : qname_wire s = wire_encode ls).
  { unfold qname_wire, ls. destruct (is_root s); reflexivity. }
  assert (Hv : Forall (fun l => label_ok l = true) ls /\ wire_len ls <= 255 /\ join_labels ls = canon_text s).
  { unfold ls. unfold valid_text in Hchk. destruct s as [|b0 s0] eqn:Es; [congruence|]. rewrite <- Es in *.
    destruct (is_root s) eqn:Er.
    - split; [constructor|]. split; [cbn; lia|].
      rewrite Es in Er. cbn [is_root] in Er. destruct s0; [|discriminate].
      assert (b0 = x2e) by (destruct b0; try reflexivity; vm_compute in Er; discriminate). subst. reflexivity.
    - rewrite !Bool.andb_true_iff in Hchk. destruct Hchk as [[H1 H2] H3].
      split; [apply Forall_forall; rewrite forallb_forall in H2; exact H2|]. split; [lia|].
      apply join_text_labels; [assumption|]. destruct (text_labels s); [discriminate|discriminate]. }
  destruct Hv as (Hok & Hwl & Hjoin).
  rewrite Hq in *. rewrite lenN_wire_encode in *.
  set (buf := wbuf w) in *. set (p := wpos w) in *.
  assert (Hbuf : wbuf w' = firstn (N.to_nat p) buf ++ wire_encode ls ++ skipn (N.to_nat (p + lenN (wire_encode ls))) buf)
    by (rewrite W3; reflexivity).
  assert (Hpre : lenN (firstn (N.to_nat p) buf) = p) by (apply lenN_firstn; unfold wcap in *; subst buf; lia).
  rewrite <- Hjoin.
  rewrite (read_name_plain (wbuf w') nk (firstn (N.to_nat p) buf) ls _ _ Hbuf).
  - rewrite Hpre, W2. reflexivity.
  - unfold cwf. cbn. split; [|exact I]. unfold wcap in *. subst buf. lia.
  - cbn. rewrite Hpre. reflexivity.
  - cbn. rewrite Hpre, W2. lia.
  - exact Hok.
  - exact Hwl.
Qed.
