(* Proofs/RDataCompressed.v — record data whose NAMES are compressed in any legal way.
   RDataRT.v proves the round trip of all 17 types against the uncompressed RFC wire form.  Here the
   names inside the record data (NS MD MF CNAME MB MG MR PTR; MX; MINFO; SOA) may be written in any
   way that has a legal expansion (Spec/WireName.v, C03) inside the RDLENGTH window — labels in
   place, a pointer into the earlier message, or a mix: the typed decoder returns exactly the
   text of the expanded labels and the other fields, and stops at the end of the window. *)
From Coq Require Import ZArith.
From RsdnsModel Require Import Base GenConst GenCursor GenTypes GenRData GenSpec Cursor Names Labels Header Tracker RData Reader Writer.
From RsdnsModel.Spec Require Import WireName.
From RsdnsModel.Proofs Require Import CursorSafe ListN LabelsSound RoundTrip RecordRT RDataRT LabelsComplete SpecExec.
From Coq Require Import ZifyBool ZifyN ZifyNat.
Open Scope N_scope.

Section R.
  Variable msg : list byte.

  (* [m] run at offset p by a cursor whose limit is L ends at offset e with value x *)
  Definition runs {X} (L : N) (m : M X) (p e : N) (x : X) : Prop :=
    forall c, cwf msg c -> lim c = L -> pos c = p -> m c = (c_set_pos c e, Ok x).

  Lemma runs_ret {X} L (x : X) p : runs L (mret x) p p x.
  Proof. intros c _ _ Hp. unfold mret. rewrite <- Hp. destruct c; reflexivity. Qed.

  Lemma runs_bind {X Y} L (m : M X) (f : X -> M Y) p q e x y :
    runs L m p q x -> runs L (f x) q e y -> runs L (mbind m f) p e y.
  Proof.
    intros H1 H2 c Hc Hl Hp. unfold mbind. rewrite (H1 c Hc Hl Hp).
    rewrite (H2 (c_set_pos c q) (cwf_set_pos _ _ _ Hc) Hl eq_refl). reflexivity.
  Qed.

  Lemma runs_be L n v p : (0 < n)%nat -> v < 256 ^ N.of_nat n -> p + N.of_nat n <= L ->
    subN msg p (N.of_nat n) = be_bytes n v -> runs L (lift (fun c => c_be msg c (N.of_nat n))) p (p + N.of_nat n) v.
  Proof.
    intros Hn Hv Hl Hs c Hc HL Hp. unfold lift. rewrite (c_be_fwd msg c (N.of_nat n) Hc) by lia.
    rewrite Hp, Hs, be_val_be_bytes by assumption. reflexivity.
  Qed.

  (* a name standing at p inside the limit L: legal expansion of the visible bytes, valid labels,
     at most 255 octets, resuming at r *)
  Definition name_in (L p : N) (ls : list (N * list byte)) (r : N) : Prop :=
    expands (firstn (N.to_nat L) msg) None 0 p ls /\ resume_at (firstn (N.to_nat L) msg) p r /\
    Forall (fun l => label_ok (snd l) = true) ls /\ wire_len (map snd ls) <= 255.

  Lemma runs_name L p ls r : name_in L p ls r -> runs L (m_name msg) p r (join_labels (map snd ls)).
  Proof.
    intros (Hex & Hr & Hok & Hw) c Hc HL Hp. unfold m_name, lift.
    assert (Hv : vis msg c = firstn (N.to_nat L) msg) by (unfold vis; rewrite HL; reflexivity).
    destruct (read_name_complete msg Heap c ls Hc ltac:(rewrite Hv, Hp; exact Hex) Hok Hw) as (c' & E & R1 & R2 & R3).
    rewrite E. rewrite Hv, Hp in R1. pose proof (resume_at_det _ _ _ R1 _ Hr) as Hpos.
    f_equal. destruct c as [l q o], c' as [l' q' o']. cbn in *. subst. reflexivity.
  Qed.

  (* the RDLENGTH window: the body runs with the limit lowered to the end of the data *)
  Lemma runs_in_window {X} (body : M X) p rd x c :
    runs (p + rd) body p (p + rd) x -> cwf msg c -> orig c = None -> pos c = p -> p + rd <= lim c ->
    in_window rd body c = (c_set_pos c (p + rd), Ok x).
  Proof.
    intros Hb Hc Ho Hp Hl. unfold in_window. unfold mbind at 1. unfold m_window, lift_c, lift.
    rewrite (window_fwd c rd Ho) by lia. cbn [bind]. rewrite Hp.
    set (cw := mkCursor (p + rd) p (Some (lim c))).
    assert (Hcw : cwf msg cw) by (destruct Hc as [H1 H2]; unfold cwf, cw; cbn; lia).
    unfold mbind at 1. rewrite (Hb cw Hcw eq_refl eq_refl).
    unfold mbind, m_close, lift_c, lift, mret, c_close_window. cbn [orig c_set_pos cw pos lim].
    assert (G : close_window_guard (p + rd) (p + rd) = true) by (apply close_window_guard_spec; lia).
    rewrite G. cbn [bind]. f_equal. unfold c_set_pos. rewrite Ho. reflexivity.
  Qed.

  (* ---- the record-data types that carry names ---- *)
  Section AT.
    Variables (c : cursor) (p rd : N).
    Hypothesis Hc : cwf msg c.
    Hypothesis Ho : orig c = None.
    Hypothesis Hp : pos c = p.
    Hypothesis Hl : p + rd <= lim c.

    Ltac window := eexists; split; [reflexivity|]; apply (runs_in_window _ p rd _ c); try assumption.

    (* NS MD MF CNAME MB MG MR PTR: one name filling the window *)
    Theorem name_rdata_compressed ty ls : is_name_type ty = true -> name_in (p + rd) p ls (p + rd) ->
      exists m, read_rdata msg ty rd = Some m /\ m c = (c_set_pos c (p + rd), Ok (RD_Name ty (join_labels (map snd ls)))).
    Proof.
      intros Hty Hn. unfold read_rdata.
      assert (E1 : (ty =? T_A) = false) by (unfold is_name_type, T_NS, T_MD, T_MF, T_CNAME, T_MB, T_MG, T_MR, T_PTR, T_A in *; lia).
      assert (E2 : (ty =? T_AAAA) = false) by (unfold is_name_type, T_NS, T_MD, T_MF, T_CNAME, T_MB, T_MG, T_MR, T_PTR, T_AAAA in *; lia).
      rewrite E1, E2, Hty. window.
      eapply runs_bind; [apply runs_name; exact Hn|apply runs_ret].
    Qed.

    (* MX: preference, then the exchange *)
    Theorem mx_rdata_compressed pref ls : pref < 65536 -> 2 <= rd -> subN msg p 2 = be_bytes 2 pref ->
      name_in (p + rd) (p + 2) ls (p + rd) ->
      exists m, read_rdata msg T_MX rd = Some m /\ m c = (c_set_pos c (p + rd), Ok (RD_Mx pref (join_labels (map snd ls)))).
    Proof.
      intros Hpref Hrd Hs Hn. unfold read_rdata. cbn [N.eqb Pos.eqb T_MX T_A T_AAAA is_name_type T_NS T_MD T_MF T_CNAME T_MB T_MG T_MR T_PTR T_HINFO T_WKS T_MINFO orb].
      window. unfold m_u16, c_u16.
      eapply runs_bind; [apply (runs_be (p + rd) 2 pref p); [lia|cbn; lia|cbn; lia|exact Hs]|].
      eapply runs_bind; [apply runs_name; exact Hn|apply runs_ret].
    Qed.

    (* MINFO: two mailboxes *)
    Theorem minfo_rdata_compressed ls1 ls2 r1 : name_in (p + rd) p ls1 r1 -> name_in (p + rd) r1 ls2 (p + rd) ->
      exists m, read_rdata msg T_MINFO rd = Some m /\
                m c = (c_set_pos c (p + rd), Ok (RD_Minfo (join_labels (map snd ls1)) (join_labels (map snd ls2)))).
    Proof.
      intros H1 H2. unfold read_rdata. cbn [N.eqb Pos.eqb T_MINFO T_A T_AAAA is_name_type T_NS T_MD T_MF T_CNAME T_MB T_MG T_MR T_PTR T_HINFO T_WKS orb].
      window.
      eapply runs_bind; [apply runs_name; exact H1|]. eapply runs_bind; [apply runs_name; exact H2|apply runs_ret].
    Qed.

    (* SOA: two names, five 32-bit counters *)
    Theorem soa_rdata_compressed ls1 ls2 r1 r2 s rf rt ex mi :
      name_in (p + rd) p ls1 r1 -> name_in (p + rd) r1 ls2 r2 -> r2 + 20 = p + rd ->
      s < 4294967296 -> rf < 4294967296 -> rt < 4294967296 -> ex < 4294967296 -> mi < 4294967296 ->
      subN msg r2 4 = be_bytes 4 s -> subN msg (r2 + 4) 4 = be_bytes 4 rf -> subN msg (r2 + 8) 4 = be_bytes 4 rt ->
      subN msg (r2 + 12) 4 = be_bytes 4 ex -> subN msg (r2 + 16) 4 = be_bytes 4 mi ->
      exists m, read_rdata msg T_SOA rd = Some m /\
                m c = (c_set_pos c (p + rd),
                       Ok (RD_Soa (join_labels (map snd ls1)) (join_labels (map snd ls2)) s rf rt ex mi)).
    Proof.
      intros H1 H2 He B1 B2 B3 B4 B5 S1 S2 S3 S4 S5. unfold read_rdata.
      cbn [N.eqb Pos.eqb T_SOA T_A T_AAAA is_name_type T_NS T_MD T_MF T_CNAME T_MB T_MG T_MR T_PTR T_HINFO T_WKS T_MINFO T_MX T_NULL orb].
      window. unfold m_u32, c_u32.
      eapply runs_bind; [apply runs_name; exact H1|]. eapply runs_bind; [apply runs_name; exact H2|].
      eapply runs_bind; [apply (runs_be (p + rd) 4 s r2); [lia|cbn; lia|cbn; lia|exact S1]|].
      eapply runs_bind; [apply (runs_be (p + rd) 4 rf (r2 + 4)); [lia|cbn; lia|cbn; lia|exact S2]|].
      eapply runs_bind; [apply (runs_be (p + rd) 4 rt (r2 + 4 + 4)); [lia|cbn; lia|cbn; lia|replace (r2 + 4 + 4) with (r2 + 8) by lia; exact S3]|].
      eapply runs_bind; [apply (runs_be (p + rd) 4 ex (r2 + 4 + 4 + 4)); [lia|cbn; lia|cbn; lia|replace (r2 + 4 + 4 + 4) with (r2 + 12) by lia; exact S4]|].
      eapply runs_bind; [apply (runs_be (p + rd) 4 mi (r2 + 4 + 4 + 4 + 4)); [lia|cbn; lia|cbn; lia|replace (r2 + 4 + 4 + 4 + 4) with (r2 + 16) by lia; exact S5]|].
      replace (r2 + 4 + 4 + 4 + 4 + N.of_nat 4) with (p + rd) by (cbn; lia). apply runs_ret.
    Qed.
  End AT.
End R.

(* non-vacuity: a CNAME answer whose data is the label "b" followed by a pointer to the question
   name "a." decodes to "b.a." *)
Definition example_cname_msg : list byte :=
  [x12;x34;x81;x80;x00;x01;x00;x01;x00;x00;x00;x00;
   x01;x61;x00; x00;x05; x00;x01;
   xc0;x0c; x00;x05; x00;x01; x00;x00;x00;x3c; x00;x04; x01;x62;xc0;x0c].

Lemma example_cname :
  name_in example_cname_msg 35 31 [(31, [x62]); (12, [x61])] 35 /\
  exists m, read_rdata example_cname_msg T_CNAME 4 = Some m /\
            m (c_with_pos example_cname_msg 31) = (c_with_pos example_cname_msg 35, Ok (RD_Name T_CNAME [x62; x2e; x61; x2e])).
Proof.
  assert (Hn : name_in example_cname_msg 35 31 [(31, [x62]); (12, [x61])] 35).
  { assert (E : spec_name example_cname_msg 31 = SAccept [(31, [x62]); (12, [x61])] 35) by (vm_compute; reflexivity).
    apply spec_name_accept_iff in E. destruct E as [E1 E2]. split; [exact E1|]. split; [exact E2|].
    split; [repeat constructor|vm_compute; discriminate]. }
  split; [exact Hn|].
  destruct (name_rdata_compressed example_cname_msg (c_with_pos example_cname_msg 31) 31 4 (cwf_with_pos _ _) eq_refl eq_refl
              ltac:(vm_compute; discriminate) T_CNAME _ eq_refl Hn) as (m & E1 & E2).
  exists m. split; [exact E1|]. rewrite E2. reflexivity.
Qed.
