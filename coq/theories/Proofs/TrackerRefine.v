(* Proofs/TrackerRefine.v — the section tracker (lazy section offsets, per-section counters, seek)
   refines the counting machine of Spec/LinearPass.v.
   Setting: a message announcing nq questions and an/ns/ar records whose items (questions, then
   records, in wire order) start at offsets P 0, P 1, ... (P (nq+an+ns+ar) is the end of the last
   item).  Whatever the offsets are (1..65535, as in any message MessageReader::new accepts), for
   EVERY sequence of sequential reads and seeks:
   * the counters report exactly what the linear pass prescribes,
   * a record is attributed to the section the counts prescribe,
   * the offset of a section is known exactly when the documentation says so (the high-water
     mark passed its first item; empty sections take the position of the next non-empty one),
     and it is then the offset of that item,
   * a seek resets the counters to "first record of the section". *)
From Coq Require Import ZArith.
From RsdnsModel Require Import Base GenConst GenTracker Header Tracker.
From RsdnsModel.Spec Require Import WireName LinearPass.
From Coq Require Import ZifyBool ZifyN ZifyNat.
Open Scope N_scope.

Section T.
  Variables nq an ns ar : N.
  Variable P : N -> N.
  Hypothesis Hnq : nq <= 65535.
  Hypothesis Han : an <= 65535.
  Hypothesis Hns : ns <= 65535.
  Hypothesis Har : ar <= 65535.
  Hypothesis HP : forall k, 1 <= P k <= 65535.

  Definition lin : linear := mkLinear nq an ns ar [] [].

  (* the tracker represents abstract state (idx, hw) *)
  Definition rd (idx s : N) : N := N.min (idx - nq - sec_start lin s) (sec_count lin s).
  Definition off_of (hw s : N) : N :=
    if N.max 1 (nq + sec_start lin s) <=? hw then P (nq + sec_start lin s) else 0.

  Definition Inv (tr : tracker) (idx hw : N) : Prop :=
    idx <= hw /\ hw <= nq + nrec lin /\ (idx < nq -> hw = idx) /\
    qd tr = mkCounts nq (N.min idx nq) /\
    secs tr = mkTri (mkCounts an (rd idx 0)) (mkCounts ns (rd idx 1)) (mkCounts ar (rd idx 2)) /\
    offs tr = mkTri (off_of hw 0) (off_of hw 1) (off_of hw 2).

  Lemma mod_P k : P k mod 65536 = P k.
  Proof. apply N.mod_small. specialize (HP k). lia. Qed.
  Lemma P_nz k : (P k =? 0) = false.
  Proof. specialize (HP k). lia. Qed.

  Ltac fin := repeat match goal with |- context [if ?c then _ else _] => let E := fresh in destruct c eqn:E; try lia end;
              repeat match goal with
                     | |- mkCounts _ _ = mkCounts _ _ => f_equal
                     | |- mkTri _ _ _ = mkTri _ _ _ => f_equal
                     | |- P _ = P _ => f_equal
                     end; try lia; try reflexivity.
  Ltac unf := unfold Inv, rd, off_of, lin, nrec, sec_start, sec_count, section_of in *; cbn [l_nq l_an l_ns l_ar] in *.

  (* ---------------------------------------------------------------- start *)
  Lemma inv_init h : h_qd h = nq -> h_an h = an -> h_ns h = ns -> h_ar h = ar -> Inv (tr_new h) 0 0.
  Proof.
    intros E1 E2 E3 E4. unf. unfold tr_new. cbn [qd secs offs]. rewrite E1, E2, E3, E4.
    repeat split; try lia; fin.
  Qed.
  Lemma inv_init_set h : h_qd h = nq -> h_an h = an -> h_ns h = ns -> h_ar h = ar -> Inv (tr_set tr_default h) 0 0.
  Proof.
    intros E1 E2 E3 E4. unf. unfold tr_set, tr_default, set_total. cbn [qd secs offs t0 t1 t2 read]. rewrite E1, E2, E3, E4.
    repeat split; try lia; fin.
  Qed.

  (* ---------------------------------------------------------------- counters *)
  Theorem counts_spec tr idx hw : Inv tr idx hw ->
    questions_left tr = Ok (nq - N.min idx nq) /\
    records_left_in tr 0 = Ok (an - rd idx 0) /\ records_left_in tr 1 = Ok (ns - rd idx 1) /\
    records_left_in tr 2 = Ok (ar - rd idx 2) /\
    records_left tr = Ok ((an - rd idx 0) + (ns - rd idx 1) + (ar - rd idx 2)).
  Proof.
    intros (H1 & H2 & H3 & Hq & Hs & Ho). unfold questions_left, records_left_in, records_left, left, checked_sub.
    rewrite Hq, Hs. cbn [tget t0 t1 t2 total read]. unfold rd, lin, sec_start, sec_count. cbn [l_an l_ns l_ar l_nq].
    repeat match goal with |- context [?a <=? ?b] => let E := fresh in destruct (a <=? b) eqn:E; [|lia] end.
    cbn [bind]. repeat split; reflexivity.
  Qed.

  (* ---------------------------------------------------------------- a question is read *)
  Theorem question_step tr idx hw : Inv tr idx hw -> idx < nq ->
    exists tr', question_read tr (P (idx + 1)) = Ok tr' /\ Inv tr' (idx + 1) (idx + 1).
  Proof.
    intros (H1 & H2 & H3 & Hq & Hs & Ho) Hlt. specialize (H3 Hlt). subst hw.
    unfold question_read, incr_u16. rewrite Hq. cbn [read total].
    replace (N.min idx nq) with idx by lia.
    destruct (idx <? 65535) eqn:E; [|lia]. cbn [bind].
    unfold qr_last_question.
    destruct (nq =? idx + 1) eqn:El.
    - (* the last question: offsets of the first record and of the empty sections before it *)
      eexists. split; [reflexivity|].
      unfold fill_qr, qr_off_unset, qr_nonempty, pos_as_offset, set_off. cbn [offs secs qd tget tset t0 t1 t2 total].
      rewrite Ho, Hs. cbn [t0 t1 t2 total].
      unf. rewrite !mod_P.
      assert (E0 : (N.max 1 (nq + 0) <=? idx) = false) by lia.
      assert (E1 : (N.max 1 (nq + an) <=? idx) = false) by lia.
      assert (E2 : (N.max 1 (nq + (an + ns)) <=? idx) = false) by lia.
      rewrite E0, E1, E2. change (0 =? 0) with true. cbn iota.
      destruct (an =? 0) eqn:Ea; cbn [negb]; [destruct (ns =? 0) eqn:En; cbn [negb]; [destruct (ar =? 0) eqn:Er; cbn [negb]|]|];
        cbn [qd secs offs]; (repeat split; try lia); fin.
    - eexists. split; [reflexivity|]. rewrite Hs, Ho. unf. cbn [qd secs offs].
      (repeat split; try lia); fin.
  Qed.

  Lemma max1_le x y : (N.max 1 x <=? y) = (1 <=? y) && (x <=? y).
  Proof. lia. Qed.

  Ltac simp0 := repeat rewrite mod_P; repeat rewrite P_nz; change (0 =? 0) with true; cbn [andb negb].
  Ltac norm := repeat (progress (cbn [secs offs qd tget tset t0 t1 t2 total read bind]; simp0)).
  Ltac crunch := repeat (norm; match goal with |- context [if ?c then _ else _] => let E := fresh "C" in destruct c eqn:E; try lia end); norm.
  Ltac ifs := repeat match goal with |- context [if ?c then _ else _] => let E := fresh "C" in destruct c eqn:E; try lia end.
  Ltac step_tac :=
    unfold next_section, ns_try, ns_has_unread, ns_first_record, ns_back, below, ns_prev_empty, ns_pos_as_offset,
      ns_pos_as_offset_prev, set_off; cbn [secs offs qd tget tset t0 t1 t2 total read].
  Ltac read_tac :=
    unfold section_read, incr_u16, sr_last_record, fill_sr, above, sr_off_unset, sr_nonempty, sr_pos_as_offset, set_off;
    cbn [secs offs qd tget tset t0 t1 t2 total read].

  (* ---------------------------------------------------------------- a record is read *)
  (* the marker call (next_section at the record's offset) followed by the data call
     (section_read at the offset behind the record) *)
  Definition InvG := Inv.
  Lemma record_step_aux tr idx hw : Inv tr idx hw -> nq <= idx -> idx < nq + nrec lin ->
    let s := section_of lin (idx - nq) in
    exists tr1, next_section tr (P idx) = (tr1, Some s) /\
      exists tr', section_read tr1 s (P (idx + 1)) = Ok tr' /\ InvG tr' (idx + 1) (N.max hw (idx + 1)).
  Proof.
    intros (H1 & H2 & H3 & Hq & Hs & Ho) Hge Hlt. destruct tr as [q sc o]. cbn [qd secs offs] in Hq, Hs, Ho. subst q sc o.
    clear H3. cbv zeta. unf. step_tac. rewrite !max1_le.
    assert (R65 : forall x c, c <= 65535 -> x <? c = true -> x <? 65535 = true) by (intros; lia).
    destruct (1 <=? hw) eqn:Hhw; cbn [andb].
    - (* the high-water mark is past the first item: next_section learns nothing *)
      replace (N.max hw (idx + 1)) with (if hw <=? idx then idx + 1 else hw) by (destruct (hw <=? idx) eqn:E; lia).
      assert (Hh1 : forall y, 1 <= y -> (1 <=? y) = true) by (intros; lia).
      assert (K0 : (nq + 0 <=? hw) = true) by lia. rewrite K0.
      destruct (idx - nq <? an) eqn:S0; [|destruct (idx - nq <? an + ns) eqn:S1].
      + assert (R0 : N.min (idx - nq - 0) an <? an = true) by lia. rewrite R0. simp0.
        rewrite Bool.andb_false_r.
        eexists; split; [reflexivity|]. read_tac. rewrite (R65 _ an Han R0). cbn [bind].
        destruct (nq + an <=? hw) eqn:K1; destruct (nq + (an + ns) <=? hw) eqn:K2; try lia; simp0; ifs;
          (eexists; split; [reflexivity|]); unfold InvG; unf; cbn [qd secs offs]; rewrite ?max1_le; (repeat split; try lia); ifs; fin.
      + assert (R0 : N.min (idx - nq - 0) an <? an = false) by lia. rewrite R0.
        assert (R0' : N.min (idx - nq - an) ns <? ns = true) by lia. rewrite R0'.
        assert (K1 : (nq + an <=? hw) = true) by lia. rewrite K1. simp0. rewrite Bool.andb_false_r. norm.
        eexists; split; [reflexivity|]. read_tac. rewrite (R65 _ ns Hns R0'). norm.
        destruct (nq + (an + ns) <=? hw) eqn:K2; simp0; ifs;
          (eexists; split; [reflexivity|]); unfold InvG; unf; cbn [qd secs offs]; rewrite ?max1_le; (repeat split; try lia); ifs; fin.
      + assert (R0 : N.min (idx - nq - 0) an <? an = false) by lia. rewrite R0.
        assert (R0' : N.min (idx - nq - an) ns <? ns = false) by lia. rewrite R0'.
        assert (R0'' : N.min (idx - nq - (an + ns)) ar <? ar = true) by lia. rewrite R0''.
        assert (K1 : (nq + an <=? hw) = true) by lia. rewrite K1.
        assert (K2 : (nq + (an + ns) <=? hw) = true) by lia. rewrite K2. simp0. rewrite Bool.andb_false_r. norm.
        eexists; split; [reflexivity|]. read_tac. rewrite (R65 _ ar Har R0''). norm.
        ifs; (eexists; split; [reflexivity|]); unfold InvG; unf; cbn [qd secs offs]; rewrite ?max1_le; (repeat split; try lia); ifs; fin.
    - (* nothing has been read yet and there are no questions: idx = hw = nq = 0 *)
      assert (hw = 0) by lia. assert (idx = 0) by lia. assert (nq = 0) by lia. subst hw idx.
      replace (N.max 0 (0 + 1)) with 1 by lia.
      replace (0 - nq - 0) with 0 by lia. replace (0 - nq - an) with 0 by lia. replace (0 - nq - (an + ns)) with 0 by lia.
      replace (0 - nq) with 0 by lia. rewrite !N.min_0_l. simp0.
      destruct (0 <? an) eqn:A0; [|destruct (0 <? ns) eqn:A1; [|destruct (0 <? ar) eqn:A2; [|lia]]].
      all: crunch.
      all: eexists; split; [reflexivity|]; read_tac; norm.
      all: crunch.
      all: eexists; split; [reflexivity|]; unfold InvG; unf; cbn [qd secs offs]; rewrite ?max1_le; (repeat split; try lia).
      all: ifs; fin.
  Qed.

  Theorem record_step tr idx hw : Inv tr idx hw -> nq <= idx -> idx < nq + nrec lin ->
    let s := section_of lin (idx - nq) in
    exists tr1, next_section tr (P idx) = (tr1, Some s) /\
      exists tr', section_read tr1 s (P (idx + 1)) = Ok tr' /\ Inv tr' (idx + 1) (N.max hw (idx + 1)).
  Proof. exact (record_step_aux tr idx hw). Qed.

  (* ---------------------------------------------------------------- seek *)
  (* the offset of section s is known exactly when the high-water mark has passed its first
     item (for an empty section: the first item of the next non-empty section, or the end); it is
     then the offset of that item, and seek resets the counters to that item *)
  Theorem seek_step tr idx hw s : Inv tr idx hw -> s < 3 ->
    (known lin (mkA idx hw false None) s = true ->
       section_offset tr s = Some (P (nq + sec_start lin s)) /\ Inv (tr_seek tr s) (nq + sec_start lin s) hw) /\
    (known lin (mkA idx hw false None) s = false -> section_offset tr s = None).
  Proof.
    intros (H1 & H2 & H3 & Hq & Hs & Ho) Hs3. destruct tr as [q sc o]. cbn [qd secs offs] in Hq, Hs, Ho. subst q sc o.
    unfold known, section_offset, offset_known, tr_seek. cbn [a_hw l_nq qd secs offs]. unf.
    assert (Hs' : s = 0 \/ s = 1 \/ s = 2) by lia.
    destruct Hs' as [-> | [-> | ->]]; cbn [tget t0 t1 t2 total read N.ltb]; split; intro K; rewrite ?K; simp0;
      try reflexivity; (split; [reflexivity|]); cbn [qd secs offs t0 t1 t2 total read];
      change (0 <? 0) with false; change (1 <? 0) with false; change (2 <? 0) with false;
      change (0 <? 1) with true; change (1 <? 1) with false; change (2 <? 1) with false;
      change (0 <? 2) with true; change (1 <? 2) with true; change (2 <? 2) with false; cbn iota;
      (repeat split; try lia); fin.
  Qed.

  (* an empty section shares its first item with the next one: seeking to it positions at the
     first record of the next non-empty section (or at the end) *)
  Lemma empty_section_start s : s < 2 -> sec_count lin s = 0 -> sec_start lin (s + 1) = sec_start lin s.
  Proof.
    intros Hs Hc. assert (s = 0 \/ s = 1) as [-> | ->] by lia; unfold sec_start, sec_count, lin in *; cbn [l_an l_ns l_ar] in *;
      [change (0 + 1) with 1|change (1 + 1) with 2]; cbv iota; lia.
  Qed.

  (* ---------------------------------------------------------------- every reachable state *)
  Inductive top := TQuestion | TRecord | TSeek (s : N).

  (* the linear pass: which operations the documented protocol allows, and where they lead *)
  Definition astep_t (idx hw : N) (o : top) : option (N * N) :=
    match o with
    | TQuestion => if idx <? nq then Some (idx + 1, N.max hw (idx + 1)) else None
    | TRecord => if (nq <=? idx) && (idx <? nq + nrec lin) then Some (idx + 1, N.max hw (idx + 1)) else None
    | TSeek s => if (s <? 3) && known lin (mkA idx hw false None) s then Some (nq + sec_start lin s, hw) else None
    end.
  (* what the reader does with its tracker for the same operation *)
  Definition cstep_t (tr : tracker) (idx : N) (o : top) : res tracker :=
    match o with
    | TQuestion => question_read tr (P (idx + 1))
    | TRecord =>
      let (tr1, so) := next_section tr (P idx) in
      match so with Some s => section_read tr1 s (P (idx + 1)) | None => Err ReaderDone end
    | TSeek s => match section_offset tr s with Some _ => Ok (tr_seek tr s) | None => Err (RecordsSectionOffsetUnknown s) end
    end.

  Fixpoint run_t (ops : list top) (tr : tracker) (idx hw : N) : option (tracker * N * N) :=
    match ops with
    | [] => Some (tr, idx, hw)
    | o :: rest =>
      match astep_t idx hw o, cstep_t tr idx o with
      | Some (idx', hw'), Ok tr' => run_t rest tr' idx' hw'
      | _, _ => None
      end
    end.
  Fixpoint allowed (ops : list top) (idx hw : N) : option (N * N) :=
    match ops with
    | [] => Some (idx, hw)
    | o :: rest => match astep_t idx hw o with Some (i, h) => allowed rest i h | None => None end
    end.

  Theorem tracker_refines : forall ops tr idx hw idx' hw',
    Inv tr idx hw -> allowed ops idx hw = Some (idx', hw') ->
    exists tr', run_t ops tr idx hw = Some (tr', idx', hw') /\ Inv tr' idx' hw'.
  Proof.
    induction ops as [|o ops IH]; intros tr idx hw idx' hw' Hi Ha; cbn [allowed run_t] in *.
    - inversion Ha; subst. eauto.
    - destruct (astep_t idx hw o) as [[i h]|] eqn:Ea; [|discriminate].
      assert (Hstep : exists tr1, cstep_t tr idx o = Ok tr1 /\ Inv tr1 i h).
      { destruct o as [| |s]; cbn [astep_t cstep_t] in *.
        - destruct (idx <? nq) eqn:E; [|discriminate]. injection Ea as <- <-.
          destruct (question_step tr idx hw Hi ltac:(lia)) as (tr1 & H1 & H2). exists tr1. split; [assumption|].
          destruct Hi as (A & B & C & _). replace (N.max hw (idx + 1)) with (idx + 1) by lia. exact H2.
        - destruct ((nq <=? idx) && (idx <? nq + nrec lin)) eqn:E; [|discriminate]. injection Ea as <- <-.
          destruct (record_step tr idx hw Hi ltac:(lia) ltac:(lia)) as (tr1 & H1 & tr2 & H2 & H3).
          rewrite H1. exists tr2. split; assumption.
        - destruct ((s <? 3) && known lin (mkA idx hw false None) s) eqn:E; [|discriminate]. injection Ea as <- <-.
          apply Bool.andb_true_iff in E. destruct E as [E1 E2].
          destruct (seek_step tr idx hw s Hi ltac:(lia)) as [Hk _]. destruct (Hk E2) as [Ho Hi']. rewrite Ho.
          exists (tr_seek tr s). split; [reflexivity|assumption]. }
      destruct Hstep as (tr1 & Hc & Hi1). rewrite Hc. apply IH; assumption.
  Qed.
End T.
