(* Proofs/Chase.v — RecordSet::from_msg's CNAME chase over the collected answer headers:
   it terminates for every header list (loops included), what it returns is exactly the filter
   "live header whose owner equals the current name, type and class as requested" in message
   order with the minimum TTL, reached along a chain of first-matching CNAME headers each of which
   is consumed, and NoAnswer means the chain ends at a name with neither. *)
From Coq Require Import ZArith Lia.
From RsdnsModel Require Import Base GenConst GenTypes Cursor Names Labels Header Tracker RData Reader RecordSet.
From RsdnsModel.Proofs Require Import CursorSafe LabelsTotal Defined.
From Coq Require Import ZifyBool ZifyN ZifyNat.
Open Scope N_scope.

Section Chase.
  Variable msg : list byte.
  Variables (ty rclass : N) (r : reader).

  (* a live header matches (want, name): borrowed-name comparison true, type and class equal *)
  Definition is_match (want : N) (name : cursor) (h : hdr) : bool :=
    match h with
    | Some (c, mk) =>
      match nameref_eq msg c name with
      | Ok true => (m_rtype mk =? want) && (m_rclass mk =? rclass)
      | _ => false
      end
    | None => false
    end.
  Definition consume (want : N) (name : cursor) (h : hdr) : hdr := if is_match want name h then None else h.
  Definition hdr_ttl (h : hdr) : N := match h with Some (_, mk) => m_ttl mk | None => 0 end.
  Definition data_of (h : hdr) (d : rdata) : Prop :=
    match h with Some (_, mk) => rd_data_at msg ty mk r = Ok (ORData d) | None => False end.
  Definition live (hs : list hdr) : nat := length (filter (fun h => match h with Some _ => true | None => false end) hs).

  (* ------------------------------------------------------------------ extract_rrset = filter *)
  Lemma extract_rrset_spec : forall hs name ttl data done_hs hs' ttl' data',
    extract_rrset msg ty r name rclass hs ttl data done_hs = Ok (hs', ttl', data') ->
    hs' = done_hs ++ map (consume ty name) hs /\
    ttl' = fold_left N.min (map hdr_ttl (filter (is_match ty name) hs)) ttl /\
    exists ds, data' = data ++ ds /\ Forall2 data_of (filter (is_match ty name) hs) ds.
  Proof.
    induction hs as [|h hs IH]; intros name ttl data done_hs hs' ttl' data' H; cbn [extract_rrset] in H.
    - inversion H; subst. cbn. rewrite !app_nil_r. repeat split. exists []. rewrite app_nil_r. split; [reflexivity|constructor].
    - destruct h as [[c mk]|].
      + unfold consume at 1. cbn [map filter is_match].
        destruct (nameref_eq msg c name) as [b| | | | |] eqn:En; cbn [bind] in H; try discriminate.
        destruct b; cbn [andb] in H.
        * destruct ((m_rtype mk =? ty) && (m_rclass mk =? rclass)) eqn:Ec.
          -- destruct (rd_data_at msg ty mk r) as [o| | | | |] eqn:Ed; cbn [bind] in H; try discriminate.
             destruct o; try discriminate.
             apply IH in H. destruct H as [H1 [H2 [ds [H3 H4]]]].
             split; [rewrite H1, <- app_assoc; reflexivity|]. split; [cbn [map fold_left hdr_ttl]; exact H2|].
             exists (d :: ds). split; [rewrite H3, <- app_assoc; reflexivity|]. constructor; [exact Ed|exact H4].
          -- apply IH in H. destruct H as [H1 [H2 H3]].
             split; [rewrite H1, <- app_assoc; reflexivity|]. split; assumption.
        * apply IH in H. destruct H as [H1 [H2 H3]].
          split; [rewrite H1, <- app_assoc; reflexivity|]. split; assumption.
      + unfold consume at 1. cbn [map filter is_match].
        apply IH in H. destruct H as [H1 [H2 H3]].
        split; [rewrite H1, <- app_assoc; reflexivity|]. split; assumption.
  Qed.

  Lemma consume_nomatch want name hs : filter (is_match want name) hs = [] -> map (consume want name) hs = hs.
  Proof.
    induction hs as [|h hs IH]; [reflexivity|]. cbn [filter map]. unfold consume at 1.
    destruct (is_match want name h); [discriminate|]. intro H. rewrite IH by exact H. reflexivity.
  Qed.

  (* ------------------------------------------------------------------ extract_cname = first match *)
  Lemma extract_cname_some : forall hs name done_hs n hs2,
    extract_cname msg r name rclass hs done_hs = Ok (Some (n, hs2)) ->
    exists (pre : list hdr) c mk (post : list hdr), hs = pre ++ Some (c, mk) :: post /\
      Forall (fun h => is_match T_CNAME name h = false) pre /\
      is_match T_CNAME name (Some (c, mk)) = true /\
      n = c_clone_with_pos (r_cur r) (rdata_pos mk) /\ hs2 = done_hs ++ pre ++ None :: post.
  Proof.
    induction hs as [|h hs IH]; intros name done_hs n hs2 H; cbn [extract_cname] in H; [discriminate|].
    destruct h as [[c mk]|].
    - destruct (nameref_eq msg c name) as [b| | | | |] eqn:En; cbn [bind] in H; try discriminate.
      destruct (b && (m_rtype mk =? T_CNAME) && (m_rclass mk =? rclass)) eqn:Ec.
      + inversion H; subst. exists [], c, mk, hs. cbn [app]. repeat split; [constructor|].
        cbn [is_match]. rewrite En. destruct b; [|discriminate]. cbn [andb] in Ec. exact Ec.
      + apply IH in H. destruct H as [pre [c' [mk' [post [H1 [H2 [H3 [H4 H5]]]]]]]].
        exists (Some (c, mk) :: pre), c', mk', post. subst hs. repeat split; try assumption.
        * constructor; [|assumption]. cbn [is_match]. rewrite En. destruct b; [|reflexivity]. cbn [andb] in Ec. exact Ec.
        * rewrite H5, <- app_assoc. reflexivity.
    - apply IH in H. destruct H as [pre [c' [mk' [post [H1 [H2 [H3 [H4 H5]]]]]]]].
      exists (None :: pre), c', mk', post. subst hs. repeat split; try assumption.
      + constructor; [reflexivity|assumption].
      + rewrite H5, <- app_assoc. reflexivity.
  Qed.

  Lemma extract_cname_none : forall hs name done_hs,
    extract_cname msg r name rclass hs done_hs = Ok None -> Forall (fun h => is_match T_CNAME name h = false) hs.
  Proof.
    induction hs as [|h hs IH]; intros name done_hs H; cbn [extract_cname] in H; [constructor|].
    destruct h as [[c mk]|].
    - destruct (nameref_eq msg c name) as [b| | | | |] eqn:En; cbn [bind] in H; try discriminate.
      destruct (b && (m_rtype mk =? T_CNAME) && (m_rclass mk =? rclass)) eqn:Ec; [discriminate|].
      constructor; [|eapply IH; exact H]. cbn [is_match]. rewrite En. destruct b; [|reflexivity]. cbn [andb] in Ec. exact Ec.
    - constructor; [reflexivity|eapply IH; exact H].
  Qed.

  (* ------------------------------------------------------------------ the chain *)
  (* [chain n hs n' hs']: from name n with live headers hs, following at each name — which has no
     record of the requested type — the FIRST live CNAME header for it (and consuming it) leads
     to name n' with headers hs' *)
  Inductive chain : cursor -> list hdr -> cursor -> list hdr -> Prop :=
  | chain_here n hs : chain n hs n hs
  | chain_hop n (pre : list hdr) c mk (post : list hdr) n' hs' :
      filter (is_match ty n) (pre ++ Some (c, mk) :: post) = [] ->
      Forall (fun h => is_match T_CNAME n h = false) pre ->
      is_match T_CNAME n (Some (c, mk)) = true ->
      chain (c_clone_with_pos (r_cur r) (rdata_pos mk)) (pre ++ None :: post) n' hs' ->
      chain n (pre ++ Some (c, mk) :: post) n' hs'.

  Lemma live_consumed (pre : list hdr) (x : cursor * marker) (post : list hdr) : live (pre ++ Some x :: post) = S (live (pre ++ None :: post)).
  Proof. unfold live. rewrite !filter_app, !app_length. cbn [filter length]. lia. Qed.

  Theorem chase_sound : forall fuel qname hs name ttl data,
    chase msg fuel ty r qname rclass hs = Ok (name, ttl, data) ->
    exists hs', chain qname hs name hs' /\ data <> [] /\
      Forall2 data_of (filter (is_match ty name) hs') data /\
      ttl = fold_left N.min (map hdr_ttl (filter (is_match ty name) hs')) 4294967295.
  Proof.
    induction fuel as [|f IH]; intros qname hs name ttl data H; cbn [chase] in H; [discriminate|].
    destruct (extract_rrset msg ty r qname rclass hs 4294967295 [] []) as [[[hs1 t1] d1]| | | | |] eqn:Ex; cbn [bind] in H; try discriminate.
    apply extract_rrset_spec in Ex. destruct Ex as [E1 [E2 [ds [E3 E4]]]]. cbn [app] in E1, E3. subst d1.
    destruct ds as [|d ds].
    - inversion E4 as [Hf|]; subst. symmetry in Hf. rewrite consume_nomatch in H by exact Hf.
      destruct (extract_cname msg r qname rclass hs []) as [[[n hs2]|]| | | | |] eqn:Ec; cbn [bind] in H; try discriminate.
      apply extract_cname_some in Ec. destruct Ec as [pre [c [mk [post [C1 [C2 [C3 [C4 C5]]]]]]]]. cbn [app] in C5. subst.
      apply IH in H. destruct H as [hs' [K1 K2]]. exists hs'. split; [|exact K2].
      apply chain_hop. all: assumption.
    - inversion H; subst. exists hs. split; [constructor|]. split; [discriminate|]. split; first [assumption|reflexivity].
  Qed.

  (* ------------------------------------------------------------------ completeness *)
  (* every live header can be compared with the name (the chase fails with the comparison's error
     otherwise) *)
  Definition cmp_ok (name : cursor) (hs : list hdr) : Prop :=
    Forall (fun h => match h with Some (c, _) => exists b, nameref_eq msg c name = Ok b | None => True end) hs.

  Lemma extract_rrset_complete : forall hs name ttl data done_hs ds,
    cmp_ok name hs -> Forall2 data_of (filter (is_match ty name) hs) ds ->
    extract_rrset msg ty r name rclass hs ttl data done_hs =
    Ok (done_hs ++ map (consume ty name) hs, fold_left N.min (map hdr_ttl (filter (is_match ty name) hs)) ttl, data ++ ds).
  Proof.
    induction hs as [|h hs IH]; intros name ttl data done_hs ds Hc Hd; cbn [extract_rrset map filter].
    - inversion Hd; subst. cbn. rewrite !app_nil_r. reflexivity.
    - inversion Hc as [|? ? Hh Hc']; subst. destruct h as [[c mk]|].
      + destruct Hh as [b Hb]. cbn [filter] in Hd. unfold consume at 1. cbn [is_match] in *. rewrite Hb in *. cbn [bind].
        destruct b; cbn [andb].
        * destruct ((m_rtype mk =? ty) && (m_rclass mk =? rclass)) eqn:Ec.
          -- inversion Hd as [|? d ? ds' Hd1 Hd2]; subst. cbn [data_of] in Hd1. rewrite Hd1. cbn [bind].
             rewrite (IH name _ _ _ ds' Hc' Hd2). cbn [map fold_left hdr_ttl]. rewrite <- !app_assoc. reflexivity.
          -- rewrite (IH name _ _ _ ds Hc' Hd). rewrite <- !app_assoc. reflexivity.
        * rewrite (IH name _ _ _ ds Hc' Hd). rewrite <- !app_assoc. reflexivity.
      + unfold consume at 1. cbn [is_match]. rewrite (IH name _ _ _ ds Hc' Hd). rewrite <- !app_assoc. reflexivity.
  Qed.

  Lemma extract_cname_first : forall (pre : list hdr) name c mk (post done_hs : list hdr),
    cmp_ok name pre -> Forall (fun h => is_match T_CNAME name h = false) pre ->
    is_match T_CNAME name (Some (c, mk)) = true ->
    extract_cname msg r name rclass (pre ++ Some (c, mk) :: post) done_hs =
    Ok (Some (c_clone_with_pos (r_cur r) (rdata_pos mk), done_hs ++ pre ++ None :: post)).
  Proof.
    induction pre as [|h pre IH]; intros name c mk post done_hs Hc Hn Hm; cbn [app extract_cname].
    - cbn [is_match] in Hm. destruct (nameref_eq msg c name) as [[|]| | | | |]; try discriminate. cbn [bind andb]. rewrite Hm. reflexivity.
    - inversion Hc as [|? ? Hh Hc']; subst. inversion Hn as [|? ? Hh2 Hn']; subst. destruct h as [[c0 mk0]|].
      + destruct Hh as [b Hb]. cbn [is_match] in Hh2. rewrite Hb in *. cbn [bind].
        assert (Hf : b && (m_rtype mk0 =? T_CNAME) && (m_rclass mk0 =? rclass) = false) by (destruct b; [exact Hh2|reflexivity]).
        rewrite Hf. rewrite (IH name c mk post _ Hc' Hn' Hm). rewrite <- !app_assoc. reflexivity.
      + rewrite (IH name c mk post _ Hc' Hn' Hm). rewrite <- !app_assoc. reflexivity.
  Qed.

  Lemma extract_cname_nomatch : forall hs name done_hs,
    cmp_ok name hs -> Forall (fun h => is_match T_CNAME name h = false) hs ->
    extract_cname msg r name rclass hs done_hs = Ok None.
  Proof.
    induction hs as [|h hs IH]; intros name done_hs Hc Hn; cbn [extract_cname]; [reflexivity|].
    inversion Hc as [|? ? Hh Hc']; subst. inversion Hn as [|? ? Hh2 Hn']; subst. destruct h as [[c0 mk0]|].
    - destruct Hh as [b Hb]. cbn [is_match] in Hh2. rewrite Hb in *. cbn [bind].
      assert (Hf : b && (m_rtype mk0 =? T_CNAME) && (m_rclass mk0 =? rclass) = false) by (destruct b; [exact Hh2|reflexivity]).
      rewrite Hf. apply IH; assumption.
    - apply IH; assumption.
  Qed.

  (* the chain with every visited name comparable against every live header *)
  Inductive chain_ok : cursor -> list hdr -> cursor -> list hdr -> Prop :=
  | cok_here n hs : chain_ok n hs n hs
  | cok_hop n (pre : list hdr) c mk (post : list hdr) n' hs' :
      cmp_ok n (pre ++ Some (c, mk) :: post) ->
      filter (is_match ty n) (pre ++ Some (c, mk) :: post) = [] ->
      Forall (fun h => is_match T_CNAME n h = false) pre ->
      is_match T_CNAME n (Some (c, mk)) = true ->
      chain_ok (c_clone_with_pos (r_cur r) (rdata_pos mk)) (pre ++ None :: post) n' hs' ->
      chain_ok n (pre ++ Some (c, mk) :: post) n' hs'.

  Lemma cmp_ok_app_l name a b : cmp_ok name (a ++ b) -> cmp_ok name a.
  Proof. unfold cmp_ok. rewrite Forall_app. tauto. Qed.

  (* nothing qualifies at the end of the chain (no record of the type, no further CNAME; this is
     also where every CNAME loop ends, its headers being consumed one per hop) => NoAnswer *)
  Theorem chase_reports_noanswer : forall qname hs name hs',
    chain_ok qname hs name hs' -> cmp_ok name hs' ->
    filter (is_match ty name) hs' = [] -> Forall (fun h => is_match T_CNAME name h = false) hs' ->
    forall fuel, (live hs < fuel)%nat -> chase msg fuel ty r qname rclass hs = Err NoAnswer.
  Proof.
    induction 1 as [n hs|n pre c mk post n' hs' Hc Hf Hp Hm Hch IH]; intros Hc' Hf' Hn' fuel Hfuel;
      (destruct fuel as [|f]; [lia|]); cbn [chase].
    - rewrite (extract_rrset_complete hs n _ [] [] [] Hc') by (rewrite Hf'; constructor).
      cbn [bind app]. rewrite consume_nomatch by exact Hf'.
      rewrite (extract_cname_nomatch hs n [] Hc' Hn'). reflexivity.
    - rewrite (extract_rrset_complete _ n _ [] [] [] Hc) by (rewrite Hf; constructor).
      cbn [bind app]. rewrite consume_nomatch by exact Hf.
      rewrite (extract_cname_first pre n c mk post [] (cmp_ok_app_l _ _ _ Hc) Hp Hm). cbn [bind app].
      apply IH. all: try assumption. rewrite live_consumed in Hfuel. lia.
  Qed.

  (* records qualify at the end of the chain => exactly they are returned, in order, min TTL *)
  Theorem chase_returns_matches : forall qname hs name hs',
    chain_ok qname hs name hs' -> cmp_ok name hs' ->
    forall d ds, Forall2 data_of (filter (is_match ty name) hs') (d :: ds) ->
    forall fuel, (live hs < fuel)%nat ->
    chase msg fuel ty r qname rclass hs =
    Ok (name, fold_left N.min (map hdr_ttl (filter (is_match ty name) hs')) 4294967295, d :: ds).
  Proof.
    induction 1 as [n hs|n pre c mk post n' hs' Hc Hf Hp Hm Hch IH]; intros Hc' d ds Hd fuel Hfuel;
      (destruct fuel as [|f]; [lia|]); cbn [chase].
    - rewrite (extract_rrset_complete hs n _ [] [] (d :: ds) Hc' Hd). cbn [bind app]. reflexivity.
    - rewrite (extract_rrset_complete _ n _ [] [] [] Hc) by (rewrite Hf; constructor).
      cbn [bind app]. rewrite consume_nomatch by exact Hf.
      rewrite (extract_cname_first pre n c mk post [] (cmp_ok_app_l _ _ _ Hc) Hp Hm). cbn [bind app].
      apply IH. all: try assumption. rewrite live_consumed in Hfuel. lia.
  Qed.

  Lemma live_le_length hs : (live hs <= length hs)%nat.
  Proof. unfold live. induction hs as [|h hs IH]; cbn [filter length]; [lia|]. destruct h; cbn [length]; lia. Qed.

  (* ------------------------------------------------------------------ termination / totality *)
  (* For a record-data type (one of the 17) and well-formed cursors, the chase returns a value or
     an error value: with fuel above the number of live headers it never runs out of fuel — every
     hop consumes one header, so CNAME loops end — and neither the name comparisons nor the typed
     reads it performs can panic, hit a debug assertion, loop or be UB (Proofs/Defined.v). *)
  Definition hs_wf (hs : list hdr) : Prop :=
    Forall (fun h => match h with Some (c, _) => cwf msg c | None => True end) hs.
  Hypothesis Hty : forall rd, read_rdata msg ty rd <> None.
  Hypothesis Hr : cwf msg (r_cur r).

  Lemma cwf_clone' p : cwf msg (c_clone_with_pos (r_cur r) p).
  Proof. revert Hr. unfold cwf, c_clone_with_pos. intros [H1 H2]. cbn. destruct (orig (r_cur r)); split; try tauto; lia. Qed.

  Lemma rd_data_at_defined mk : exists x, rd_data_at msg ty mk r = x /\ match x with Ok (ORData _) | Err _ => True | _ => False end.
  Proof.
    unfold rd_data_at. destruct (read_rdata msg ty (m_rdlen mk)) as [m|] eqn:E; [|exfalso; eapply Hty; exact E].
    pose proof (read_rdata_defined msg ty _ m E _ (cwf_clone' (rdata_pos mk)) I) as [_ D].
    destruct (snd (m _)) as [d| | | | |]; cbn [bind]; eexists; (split; [reflexivity|]); try exact I; try tauto.
  Qed.

  Lemma extract_rrset_defined : forall hs name ttl data done_hs,
    cwf msg name -> hs_wf hs -> defined (extract_rrset msg ty r name rclass hs ttl data done_hs).
  Proof.
    induction hs as [|h hs IH]; intros name ttl data done_hs Hn Hw; cbn [extract_rrset]; [exact I|].
    inversion Hw as [|? ? Hh Hw']; subst. destruct h as [[c mk]|]; [|apply IH; assumption].
    pose proof (nameref_eq_defined msg c name Hh Hn) as D.
    destruct (nameref_eq msg c name) as [b| | | | |]; cbn [bind defined] in *; try tauto.
    destruct (b && (m_rtype mk =? ty) && (m_rclass mk =? rclass)); [|apply IH; assumption].
    destruct (rd_data_at_defined mk) as [x [Ex Dx]]. rewrite Ex.
    destruct x as [o| | | | |]; cbn [bind defined]; try tauto. destruct o; try tauto. apply IH; assumption.
  Qed.

  Lemma extract_cname_defined : forall hs name done_hs,
    cwf msg name -> hs_wf hs -> defined (extract_cname msg r name rclass hs done_hs).
  Proof.
    induction hs as [|h hs IH]; intros name done_hs Hn Hw; cbn [extract_cname]; [exact I|].
    inversion Hw as [|? ? Hh Hw']; subst. destruct h as [[c mk]|]; [|apply IH; assumption].
    pose proof (nameref_eq_defined msg c name Hh Hn) as D.
    destruct (nameref_eq msg c name) as [b| | | | |]; cbn [bind defined] in *; try tauto.
    destruct (b && (m_rtype mk =? T_CNAME) && (m_rclass mk =? rclass)); [exact I|apply IH; assumption].
  Qed.

  Lemma hs_wf_consumed (pre : list hdr) x (post : list hdr) : hs_wf (pre ++ Some x :: post) -> hs_wf (pre ++ None :: post).
  Proof.
    unfold hs_wf. rewrite !Forall_app. intros [H1 H2]. split; [assumption|]. inversion H2; subst. constructor; [exact I|assumption].
  Qed.

  Theorem chase_defined : forall fuel qname hs,
    cwf msg qname -> hs_wf hs -> (live hs < fuel)%nat -> defined (chase msg fuel ty r qname rclass hs).
  Proof.
    induction fuel as [|f IH]; intros qname hs Hq Hw Hfuel; [lia|]. cbn [chase].
    pose proof (extract_rrset_defined hs qname 4294967295 [] [] Hq Hw) as D1.
    destruct (extract_rrset msg ty r qname rclass hs 4294967295 [] []) as [[[hs1 t1] d1]| | | | |] eqn:Ex; cbn [bind defined] in *; try tauto.
    apply extract_rrset_spec in Ex. destruct Ex as [E1 [E2 [ds [E3 E4]]]]. cbn [app] in E1, E3. subst d1.
    destruct ds as [|d ds]; [|exact I].
    inversion E4 as [Hf|]; subst. symmetry in Hf. rewrite consume_nomatch by exact Hf.
    pose proof (extract_cname_defined hs qname [] Hq Hw) as D2.
    destruct (extract_cname msg r qname rclass hs []) as [[[n hs2]|]| | | | |] eqn:Ec; cbn [bind defined] in *; try tauto.
    apply extract_cname_some in Ec. destruct Ec as [pre [c [mk [post [C1 [C2 [C3 [C4 C5]]]]]]]]. cbn [app] in C5. subst.
    apply IH; [apply cwf_clone'|eapply hs_wf_consumed; exact Hw|rewrite live_consumed in Hfuel; lia].
  Qed.

End Chase.
