(* Proofs/SpecExec.v — the executable expander [spec_name] that the streams use as their oracle
   decides exactly the inductive relation [expands] / [resume_at] that the theorems are about:
   accept with labels ls and resume r  <->  expands None 0 p ls and resume_at p r;
   reject  <->  no legal expansion.  (Both live in Spec/WireName.v and mention no model code.) *)
From Coq Require Import ZArith.
From RsdnsModel Require Import Base.
From RsdnsModel.Spec Require Import WireName.
From Coq Require Import ZifyBool ZifyN ZifyNat.
Open Scope N_scope.

(* the labels of an expansion depend on the bytes and the start only, not on the pointer budget *)
Lemma expands_det' V : forall q0 h p ls, expands V q0 h p ls -> forall q0' h' ls', expands V q0' h' p ls' -> ls = ls'.
Proof.
  induction 1 as [q0 h p Hg|q0 h p b ls Hg Hb Hle Hex IH|q0 h p b1 b2 ls Hg1 H192 Hg2 tgt q Hlt Hh Hex IH];
    intros q0' h' ls' H'; inversion H' as [? ? ? Hg'|? ? ? b' ? Hg' Hb' Hle' Hex'|? ? ? b1' b2' ? Hg1' H192' Hg2' Hlt' Hh' Hex']; subst;
    try (rewrite Hg in *); try (rewrite Hg1 in *);
    repeat match goal with H : Some _ = Some _ |- _ => inversion H; subst; clear H end;
    try (change (bN x00) with 0 in *; lia); try lia; try reflexivity.
  - f_equal. eapply IH; eassumption.
  - rewrite Hg2 in *. match goal with H : Some _ = Some _ |- _ => inversion H; subst; clear H end. eapply IH; eassumption.
Qed.

Section S.
  Variable msg : list byte.

  Definition res_ok (q0 : option N) (p r : N) : Prop :=
    match q0 with Some q => r = q + 2 | None => resume_at msg p r end.

  Lemma spec_expand_sound : forall fuel p q0 hops acc ls r,
    spec_expand fuel msg p q0 hops acc = SAccept ls r ->
    exists ls', ls = rev acc ++ ls' /\ expands msg q0 hops p ls' /\ res_ok q0 p r.
  Proof.
    induction fuel as [|f IH]; intros p q0 hops acc ls r; cbn [spec_expand]; [discriminate|].
    destruct (getN msg p) as [b|] eqn:Eg; [|discriminate]. cbv zeta.
    destruct (bN b =? 0) eqn:E0.
    - intro H; inversion H; subst. exists []. rewrite app_nil_r. split; [reflexivity|].
      assert (b = x00) by (destruct b; try reflexivity; vm_compute in E0; discriminate). subst b.
      split; [constructor; assumption|]. unfold res_ok. destruct q0; [reflexivity|constructor; assumption].
    - destruct (bN b <? 64) eqn:E1.
      + destruct (p + 1 + bN b <=? lenN msg) eqn:E2; [|discriminate].
        intro H. apply IH in H. destruct H as (ls' & -> & Hex & Hr).
        exists ((p, subN msg (p + 1) (bN b)) :: ls'). split; [cbn [rev]; rewrite <- app_assoc; reflexivity|].
        split; [eapply ex_label; try eassumption; lia|].
        unfold res_ok in *. destruct q0; [assumption|]. eapply ra_label; try eassumption. lia.
      + destruct (192 <=? bN b) eqn:E3; [|discriminate].
        destruct (getN msg (p + 1)) as [b2|] eqn:Eg2; [|discriminate].
        destruct ((bN b - 192) * 256 + bN b2 <? match q0 with Some q => q | None => p end) eqn:E4; [|discriminate].
        destruct (hops <? 32) eqn:E5; [|discriminate].
        intro H. apply IH in H. destruct H as (ls' & -> & Hex & Hr).
        exists ls'. split; [reflexivity|]. split.
        * eapply ex_ptr with (b1 := b) (b2 := b2); try eassumption; lia.
        * unfold res_ok in *. destruct q0 as [q|]; [exact Hr|]. rewrite Hr. eapply ra_ptr; [eassumption|lia].
  Qed.

  Definition meas (p hops : N) : N := (32 - hops) * (lenN msg + 2) + (lenN msg + 1 - p).

  Lemma getN_lt' {A} (l : list A) i a : getN l i = Some a -> i < lenN l.
  Proof. unfold getN, lenN. intro H. assert (N.to_nat i < length l)%nat by (apply nth_error_Some; congruence). lia. Qed.

  Lemma spec_expand_complete : forall q0 hops p ls, expands msg q0 hops p ls ->
    forall fuel acc, hops <= 32 -> (N.to_nat (meas p hops) < fuel)%nat ->
    exists r, spec_expand fuel msg p q0 hops acc = SAccept (rev acc ++ ls) r /\ res_ok q0 p r.
  Proof.
    induction 1 as [q0 hops p Hg|q0 hops p b ls Hg Hb Hle Hex IH|q0 hops p b1 b2 ls Hg1 H192 Hg2 tgt q Hlt Hh Hex IH];
      intros fuel acc Hh32 Hf; (destruct fuel as [|f]; [lia|]); cbn [spec_expand].
    - rewrite Hg. cbv zeta. change (bN x00 =? 0) with true. cbn iota. eexists. rewrite app_nil_r. split; [reflexivity|].
      unfold res_ok. destruct q0; [reflexivity|constructor; assumption].
    - rewrite Hg. cbv zeta. destruct (bN b =? 0) eqn:E0; [lia|]. destruct (bN b <? 64) eqn:E1; [|lia].
      destruct (p + 1 + bN b <=? lenN msg) eqn:E2; [|lia].
      destruct (IH f ((p, subN msg (p + 1) (bN b)) :: acc) Hh32) as (r & Er & Hr).
      { unfold meas in *. pose proof (getN_lt' _ _ _ Hg). remember ((32 - hops) * (lenN msg + 2)) as K. clear HeqK. lia. }
      exists r. split; [rewrite Er; cbn [rev]; rewrite <- app_assoc; reflexivity|].
      unfold res_ok in *. destruct q0; [assumption|]. eapply ra_label; try eassumption.
    - rewrite Hg1. cbv zeta. destruct (bN b1 =? 0) eqn:E0; [lia|]. destruct (bN b1 <? 64) eqn:E1; [lia|].
      destruct (192 <=? bN b1) eqn:E3; [|lia]. rewrite Hg2. fold tgt. fold q.
      destruct (tgt <? q) eqn:E4; [|lia]. destruct (hops <? 32) eqn:E5; [|lia].
      destruct (IH f acc ltac:(lia)) as (r & Er & Hr).
      { unfold meas in *. pose proof (getN_lt' _ _ _ Hg1) as Hp.
        assert (E : (32 - hops) * (lenN msg + 2) = (32 - (hops + 1)) * (lenN msg + 2) + (lenN msg + 2)).
        { replace (32 - hops) with ((32 - (hops + 1)) + 1) by lia. rewrite N.mul_add_distr_r. lia. }
        rewrite E in Hf. remember ((32 - (hops + 1)) * (lenN msg + 2)) as K. clear HeqK E. lia. }
      exists r. split; [exact Er|]. unfold res_ok in *. destruct q0 as [q'|]; [exact Hr|]. rewrite Hr. subst q. eapply ra_ptr; eassumption.
  Qed.

  Lemma resume_at_det p r : resume_at msg p r -> forall r', resume_at msg p r' -> r = r'.
  Proof.
    induction 1 as [p Hg|p b r Hg Hb Hr IH|p b Hg Hb]; intros r' H';
      inversion H' as [? Hg'|? b' ? Hg' Hb' Hr'|? b' Hg' Hb']; subst; rewrite Hg in Hg'; inversion Hg'; subst;
      try reflexivity; try (change (bN x00) with 0 in *; lia); try lia.
    apply IH; assumption.
  Qed.

  Lemma init_fuel p : (N.to_nat (meas p 0) < N.to_nat (34 * (lenN msg + 2)))%nat.
  Proof. unfold meas. lia. Qed.

  (* the oracle accepts with (ls, r) exactly when the relation holds *)
  Theorem spec_name_accept_iff p ls r :
    spec_name msg p = SAccept ls r <-> expands msg None 0 p ls /\ resume_at msg p r.
  Proof.
    unfold spec_name. split.
    - intro H. apply spec_expand_sound in H. destruct H as (ls' & -> & Hex & Hr). cbn [rev app]. split; assumption.
    - intros [Hex Hr]. destruct (spec_expand_complete _ _ _ _ Hex _ [] ltac:(lia) (init_fuel p)) as (r' & E & Hr').
      cbn [rev app] in E. rewrite E. f_equal. unfold res_ok in Hr'. exact (resume_at_det _ _ Hr' _ Hr).
  Qed.

  (* and rejects exactly when there is no legal expansion *)
  Theorem spec_name_reject_iff p :
    (exists w, spec_name msg p = SReject w) <-> ~ exists ls, expands msg None 0 p ls.
  Proof.
    split.
    - intros [w Hw] [ls Hex]. unfold spec_name in Hw.
      destruct (spec_expand_complete _ _ _ _ Hex _ [] ltac:(lia) (init_fuel p)) as (r' & E & _). rewrite E in Hw. discriminate.
    - intro Hn. destruct (spec_name msg p) as [ls r|w] eqn:E; [|eauto].
      exfalso. apply Hn. exists ls. apply spec_name_accept_iff in E. tauto.
  Qed.
End S.
