(* Proofs/IterAgree.v — the iterator API and the cursor-style reader agree record by record.
   One step of Records::next() on a record of a known type and class returns exactly what
   record_header::<InlineName>() followed by record_data::<D>() return on a reader in the same
   state (same owner name, class, type, TTL, section, data), and both end in the same state; on a
   record it skips (unknown type or class) it moves exactly like record_marker() followed by
   skip_record_data(). *)
From Coq Require Import ZArith.
From RsdnsModel Require Import Base GenConst GenCursor GenLabels GenNames GenTypes GenReader GenSpec.
From RsdnsModel Require Import Cursor Names Labels Header Tracker RData Reader Iter.
From RsdnsModel.Proofs Require Import CursorSafe ListN LabelsTotal LabelsSound Views ReaderTotal.
From Coq Require Import ZifyBool ZifyN ZifyNat.
Open Scope N_scope.

Section A.
  Variable msg : list byte.

  (* reader and iterator in the same state *)
  Definition same_state (r : reader) (it : records_it) : Prop :=
    r_cur r = ri_cur it /\ r_tr r = ri_tr it /\ r_done r = false /\ orig (ri_cur it) = None.

  Lemma clone_is_self c p : orig c = None -> c_clone_with_pos c p = mkCursor (lim c) p None.
  Proof. intro H. unfold c_clone_with_pos. rewrite H. reflexivity. Qed.

  Lemma read_name_orig nk c t c' : read_name msg nk c = Ok (t, c') -> orig c' = orig c /\ lim c' = lim c.
  Proof.
    unfold read_name. destruct (read_name_loop _ _ _ _ _) as [[dn mp]| | | | |]; cbn; try discriminate.
    destruct (name_wire_too_long _); [discriminate|]. intro H; inversion H; subst. split; reflexivity.
  Qed.

  (* the fixed part of the record header, as the iterator reads it, is the reader's raw marker *)
  Lemma fixed_part c p s c' ty cl ttl rdlen :
    (do* ty <- lift (c_u16 msg); do* cl <- lift (c_u16 msg); do* ttl <- lift (c_u32 msg); do* rdlen <- lift (c_u16 msg);
     mret (ty, cl, ttl, rdlen)) c = (c', Ok (ty, cl, ttl, rdlen)) ->
    m_raw_marker msg p s c = (c', Ok (mkMarker p (pos c) ty cl ttl rdlen s)).
  Proof.
    unfold m_raw_marker, mbind, mret, lift.
    destruct (c_u16 msg c) as [[a d1]| | | | |]; try discriminate.
    destruct (c_u16 msg d1) as [[b d2]| | | | |]; try discriminate.
    destruct (c_u32 msg d2) as [[e d3]| | | | |]; try discriminate.
    destruct (c_u16 msg d3) as [[f d4]| | | | |]; try discriminate.
    intro H; inversion H; subst. reflexivity.
  Qed.

  Theorem iter_item_is_reader_item f r it it' x :
    same_state r it -> cwf msg (ri_cur it) ->
    records_read_impl msg (S f) it = (it', Ok (RItem x)) ->
    (* the record at the cursor is not one the iterator skips *)
    (forall c1 ty cl ttl rdlen, (do* _ <- lift_c (skip_name msg); do* ty <- lift (c_u16 msg); do* cl <- lift (c_u16 msg);
        do* ttl <- lift (c_u32 msg); do* rdlen <- lift (c_u16 msg); mret (ty, cl, ttl, rdlen)) (ri_cur it) = (c1, Ok (ty, cl, ttl, rdlen)) ->
        iter_skip_unknown (class_defined cl) (type_defined ty) = false) ->
    exists r1 mk r2,
      rd_header_n msg Inline r = (r1, Ok (OHeaderN (rr_name x) mk)) /\
      m_rtype mk = rr_type x /\ m_rclass mk = rr_class x /\ m_ttl mk = rr_ttl x /\ m_section mk = rr_section x /\
      rd_data msg (rr_type x) mk r1 = (r2, Ok (ORData (rr_data x))) /\
      r_cur r2 = ri_cur it' /\ r_tr r2 = ri_tr it'.
  Proof.
    intros (S1 & S2 & S3 & S4) Hc. destruct r as [rc rt rdn]. cbn [r_cur r_tr r_done] in S1, S2, S3. subst rc rt rdn. cbn [records_read_impl].
    destruct (next_section (ri_tr it) (pos (ri_cur it))) as [tr1 sec] eqn:En.
    destruct sec as [s|]; [|discriminate].
    unfold mbind at 1. unfold lift_c at 1, lift at 1.
    destruct (skip_name msg (ri_cur it)) as [c0| | | | |] eqn:Esk; cbn [bind]; try discriminate.
    match goal with |- context [let (c1, r) := ?m c0 in _] => destruct (m c0) as [c1 rr0] eqn:Ef end.
    destruct rr0 as [[[[ty cl] ttl] rdlen]| | | | |]; try discriminate.
    intros H Hns.
    assert (Hskip : iter_skip_unknown (class_defined cl) (type_defined ty) = false).
    { apply (Hns c1 ty cl ttl rdlen). unfold mbind at 1. unfold lift_c at 1, lift at 1. rewrite Esk. cbn [bind]. exact Ef. }
    rewrite Hskip in H.
    destruct (read_rdata msg ty rdlen) as [m|] eqn:Erd; [|discriminate].
    rewrite (clone_is_self c1 (pos (ri_cur it))) in H.
    2: { unfold skip_name in Esk. destruct (skip_name_loop _ _ _); cbn in Esk; try discriminate. destruct (_ <=? _); inversion Esk; subst.
         (* c1 comes from c0 by position changes only *)
         clear - Ef S4. unfold mbind, mret, lift in Ef.
         destruct (c_u16 msg _) as [[v1 d1]| | | | |] eqn:E1; try discriminate.
         destruct (c_u16 msg d1) as [[v2 d2]| | | | |] eqn:E2; try discriminate.
         destruct (c_u32 msg d2) as [[v3 d3]| | | | |] eqn:E3; try discriminate.
         destruct (c_u16 msg d3) as [[v4 d4]| | | | |] eqn:E4; try discriminate.
         inversion Ef; subst. apply c_be_ok in E1, E2, E3, E4.
         destruct E1 as (_ & _ & _ & ->), E2 as (_ & _ & _ & ->), E3 as (_ & _ & _ & ->), E4 as (_ & _ & _ & ->). cbn. exact S4. }
    assert (Hlim : lim c1 = lim (ri_cur it)).
    { unfold skip_name in Esk. destruct (skip_name_loop _ _ _); cbn in Esk; try discriminate. destruct (_ <=? _); inversion Esk; subst.
      clear - Ef. unfold mbind, mret, lift in Ef.
      destruct (c_u16 msg _) as [[v1 d1]| | | | |] eqn:E1; try discriminate.
      destruct (c_u16 msg d1) as [[v2 d2]| | | | |] eqn:E2; try discriminate.
      destruct (c_u32 msg d2) as [[v3 d3]| | | | |] eqn:E3; try discriminate.
      destruct (c_u16 msg d3) as [[v4 d4]| | | | |] eqn:E4; try discriminate.
      inversion Ef; subst. apply c_be_ok in E1, E2, E3, E4.
      destruct E1 as (_ & _ & _ & ->), E2 as (_ & _ & _ & ->), E3 as (_ & _ & _ & ->), E4 as (_ & _ & _ & ->). reflexivity. }
    assert (Hself : mkCursor (lim c1) (pos (ri_cur it)) None = ri_cur it).
    { rewrite Hlim. destruct (ri_cur it) as [l p o]. cbn in *. subst o. reflexivity. }
    rewrite Hself in H.
    destruct (read_name msg Inline (ri_cur it)) as [[nm cn]| | | | |] eqn:Enm; try discriminate.
    destruct (m c1) as [c2 d] eqn:Em. destruct d as [d| | | | |]; try discriminate.
    destruct (section_read tr1 s (pos c2)) as [tr2| | | | |] eqn:Esr; try discriminate.
    inversion H; subst it' x. clear H. cbn [rr_name rr_type rr_class rr_ttl rr_section rr_data ri_cur ri_tr].
    (* the reader side *)
    pose proof (read_implies_skip msg Inline _ _ _ Hc Enm) as Hsk. rewrite Esk in Hsk. inversion Hsk; subst cn. clear Hsk.
    pose proof (fixed_part c0 (pos (ri_cur it)) s c1 ty cl ttl rdlen Ef) as Hraw.
    exists (mkReader c1 tr1 false), (mkMarker (pos (ri_cur it)) (pos c0) ty cl ttl rdlen s), (mkReader c2 tr2 false).
    split.
    { unfold rd_header_n, header_n_impl, calc_section. cbn [r_cur r_tr r_done]. rewrite En.
      unfold bind2, run, latch, mbind, mret, lift. cbn [with_tr with_cur r_cur r_tr r_done fst snd]. rewrite Enm, Hraw. reflexivity. }
    repeat split; try reflexivity.
    unfold rd_data. cbn [m_rdlen m_rtype]. rewrite Erd.
    destruct (raw_marker_pos msg _ _ _ _ _ Hraw) as [Hp _]. cbn [r_cur r_done]. rewrite Hp, N.eqb_refl. cbn [negb].
    unfold after_data, run, mbind, mret. cbn [r_cur r_tr with_cur m_section]. rewrite Em. cbn [r_cur r_tr with_cur with_tr]. rewrite Esr. reflexivity.
  Qed.

  (* a record the iterator skips (unknown type or class): it moves exactly like record_marker()
     followed by skip_record_data() and goes on from the state they reach *)
  Theorem iter_skip_is_reader_skip f r it c1 ty cl ttl rdlen :
    same_state r it ->
    (do* _ <- lift_c (skip_name msg); do* ty <- lift (c_u16 msg); do* cl <- lift (c_u16 msg);
     do* ttl <- lift (c_u32 msg); do* rdlen <- lift (c_u16 msg); mret (ty, cl, ttl, rdlen)) (ri_cur it) = (c1, Ok (ty, cl, ttl, rdlen)) ->
    iter_skip_unknown (class_defined cl) (type_defined ty) = true ->
    forall s tr1 c2 tr2, next_section (ri_tr it) (pos (ri_cur it)) = (tr1, Some s) ->
    c_skip c1 rdlen = Ok c2 -> section_read tr1 s (pos c2) = Ok tr2 ->
    records_read_impl msg (S f) it = records_read_impl msg f (mkRecIt c2 tr2 (ri_err it)) /\
    exists r1 mk r2, rd_marker msg r = (r1, Ok (OMarker mk)) /\ m_rtype mk = ty /\ m_rclass mk = cl /\
      rd_skip_data mk r1 = (r2, Ok OUnit) /\ r_cur r2 = c2 /\ r_tr r2 = tr2 /\ r_done r2 = false.
  Proof.
    intros (S1 & S2 & S3 & S4). destruct r as [rc rt rdn]. cbn [r_cur r_tr r_done] in S1, S2, S3. subst rc rt rdn.
    intros Ef Hskip s tr1 c2 tr2 En Ec Es. split.
    - cbn [records_read_impl]. rewrite En, Ef, Hskip, Ec, Es. reflexivity.
    - unfold mbind at 1 in Ef. unfold lift_c at 1, lift at 1 in Ef.
      destruct (skip_name msg (ri_cur it)) as [c0| | | | |] eqn:Esk; cbn [bind] in Ef; try discriminate.
      pose proof (fixed_part c0 (pos (ri_cur it)) s c1 ty cl ttl rdlen Ef) as Hraw.
      exists (mkReader c1 tr1 false), (mkMarker (pos (ri_cur it)) (pos c0) ty cl ttl rdlen s), (mkReader c2 tr2 false).
      split.
      { unfold rd_marker, marker_impl, calc_section. cbn [r_cur r_tr r_done]. rewrite En.
        unfold bind2, run, latch, mbind, mret, lift_c, lift. cbn [with_tr with_cur r_cur r_tr r_done fst snd]. rewrite Esk. cbn [bind]. rewrite Hraw. reflexivity. }
      repeat split; try reflexivity.
      unfold rd_skip_data. destruct (raw_marker_pos msg _ _ _ _ _ Hraw) as [Hp _]. cbn [r_cur r_done]. rewrite Hp, N.eqb_refl. cbn [negb].
      unfold skip_record_data_impl, after_data, run, mbind, mret, lift_c, lift. cbn [r_cur r_tr with_cur m_section m_rdlen].
      rewrite Ec. cbn [bind r_cur r_tr with_cur with_tr]. rewrite Es. reflexivity.
  Qed.
End A.
