(* Proofs/NoUB.v — no sequence of safe public calls reaches an unsafe access whose precondition is
   false: for every family of messages and EVERY call script (conforming or not, markers and
   borrowed names exchanged between readers) no step of the model returns [UB].
   Invariant: every cursor held by a reader or a borrowed name is [cwf] for its message —
   whatever its position.  Markers are unconstrained. *)
From Coq Require Import ZArith.
From RsdnsModel Require Import Base GenConst GenCursor GenLabels GenNames GenHeader GenTypes GenTracker GenReader GenRData GenSpec.
From RsdnsModel Require Import Cursor Names Labels Header Tracker RData Reader Script.
From RsdnsModel.Proofs Require Import CursorSafe ListN LabelsTotal.
From Coq Require Import ZifyBool ZifyN ZifyNat.
Open Scope N_scope.

Definition noub {A} (r : res A) : Prop := r <> UB.

Lemma noub_bind {A B} (r : res A) (f : A -> res B) :
  noub r -> (forall a, r = Ok a -> noub (f a)) -> noub (bind r f).
Proof. unfold noub. destruct r; cbn; intros; try congruence. apply H0; reflexivity. Qed.

Section Safe.
  Variable msg : list byte.

  (* composite readers: keep the cursor well-formed, never UB *)
  Definition msafe {X} (m : M X) : Prop :=
    forall c, cwf msg c -> cwf msg (fst (m c)) /\ noub (snd (m c)).

  Lemma msafe_ret {X} (x : X) : msafe (mret x).
  Proof. intros c H; cbn; split; [assumption|discriminate]. Qed.
  Lemma msafe_fail {X} (r : res X) : noub r -> msafe (mfail r).
  Proof. intros Hr c H; cbn; split; assumption. Qed.
  Lemma msafe_bind {X Y} (m : M X) (f : X -> M Y) :
    msafe m -> (forall x, msafe (f x)) -> msafe (mbind m f).
  Proof.
    intros Hm Hf c Hc. unfold mbind. specialize (Hm c Hc). destruct (m c) as [c' r]. cbn in Hm.
    destruct Hm as [Hc' Hr]. destruct r; cbn; try (split; [assumption|discriminate]).
    - apply Hf; assumption.
    - exfalso; apply Hr; reflexivity.
  Qed.
  Lemma msafe_lift {X} (f : cursor -> res (X * cursor)) :
    (forall c, cwf msg c -> noub (f c) /\ (forall x c', f c = Ok (x, c') -> cwf msg c')) -> msafe (lift f).
  Proof.
    intros H c Hc. unfold lift. destruct (H c Hc) as [Hn Hk]. destruct (f c) as [[x c']| | | | |] eqn:E; cbn;
      try (split; [assumption|discriminate]).
    - split; [eapply Hk; reflexivity|discriminate].
    - exfalso; apply Hn; reflexivity.
  Qed.
  Lemma msafe_lift_c (f : cursor -> res cursor) :
    (forall c, cwf msg c -> noub (f c) /\ (forall c', f c = Ok c' -> cwf msg c')) -> msafe (lift_c f).
  Proof.
    intros H. unfold lift_c. apply msafe_lift. intros c Hc. destruct (H c Hc) as [Hn Hk].
    destruct (f c) eqn:E; cbn; split; try discriminate.
    - intros x c' H0; inversion H0; subst. apply Hk; reflexivity.
    - exfalso; apply Hn; reflexivity.
  Qed.

  Lemma defined_noub {A} (r : res A) : defined r -> noub r.
  Proof. destruct r; cbn; unfold noub; intros; try tauto; discriminate. Qed.

  (* primitives *)
  Lemma safe_u8 : msafe (lift (c_u8 msg)).
  Proof.
    apply msafe_lift. intros c Hc. split; [apply defined_noub, c_u8_defined; assumption|].
    intros x c' H. apply c_u8_ok in H. destruct H as (_ & _ & ->). apply cwf_set_pos; assumption.
  Qed.
  Lemma safe_be size : 0 < size -> msafe (lift (fun c => c_be msg c size)).
  Proof.
    intro Hs. apply msafe_lift. intros c Hc. split; [apply defined_noub, c_be_defined; assumption|].
    intros x c' H. apply c_be_ok in H. destruct H as (_ & _ & _ & ->). apply cwf_set_pos; assumption.
  Qed.
  Lemma safe_slice {X} (k : N -> list byte -> X) n :
    msafe (lift (fun c => let* (off, bs, c') := c_slice msg c n in Ok (k off bs, c'))).
  Proof.
    apply msafe_lift. intros c Hc. pose proof (c_slice_defined msg c n Hc) as D.
    destruct (c_slice msg c n) as [[[lo bs] c2]| | | | |] eqn:E; cbn in *; try tauto; split; try discriminate.
    intros x c' H; inversion H; subst. apply c_slice_ok in E. destruct E as (_ & _ & _ & _ & ->).
    apply cwf_set_pos; assumption.
  Qed.
  Lemma safe_skip n : msafe (lift_c (fun c => c_skip c n)).
  Proof.
    apply msafe_lift_c. intros c Hc. split; [apply defined_noub, c_skip_defined|].
    intros c' H. apply c_skip_ok in H. destruct H as (-> & _). apply cwf_set_pos; assumption.
  Qed.
  Lemma safe_window n : msafe (lift_c (fun c => c_window c n)).
  Proof.
    apply msafe_lift_c. intros c Hc. split; [apply defined_noub, (c_window_defined msg); assumption|].
    intros c' H. eapply c_window_ok in H; [|eassumption]. tauto.
  Qed.
  Lemma safe_close : msafe (lift_c c_close_window).
  Proof.
    apply msafe_lift_c. intros c Hc. split; [apply defined_noub, c_close_window_defined|].
    intros c' H. eapply c_close_window_ok in H; [|eassumption]. tauto.
  Qed.
  Lemma safe_read_name nk : msafe (lift (read_name msg nk)).
  Proof.
    apply msafe_lift. intros c Hc. split; [apply defined_noub, read_name_defined; assumption|].
    unfold read_name. intros x c'.
    destruct (read_name_loop _ _ _ _ _) as [[dn mp]| | | | |]; cbn; try discriminate.
    destruct (name_wire_too_long _); [discriminate|].
    intro H; inversion H; subst. apply cwf_set_pos; assumption.
  Qed.
  Lemma safe_skip_name : msafe (lift_c (skip_name msg)).
  Proof.
    apply msafe_lift_c. intros c Hc. split; [apply defined_noub, skip_name_defined; assumption|].
    unfold skip_name. intros c'.
    destruct (skip_name_loop _ _ _) as [mp| | | | |]; cbn; try discriminate.
    destruct (pos c <=? mp); [|discriminate]. intro H; inversion H; subst. apply cwf_set_pos; assumption.
  Qed.
  Lemma safe_be_unchecked size : 0 < size -> msafe (lift (fun c => c_be_unchecked msg c size)).
  Proof.
    intro Hs. apply msafe_lift. intros c Hc. unfold c_be_unchecked.
    destruct (ru_be_assert _ _) eqn:G; [|split; [discriminate|discriminate]].
    apply ru_be_assert_spec in G. unfold c_len in G. rewrite cursor_len_spec in G. destruct Hc as [Hl Ho].
    destruct ((pos c + size <=? lim c) && (lim c <=? lenN msg)) eqn:E; [|lia].
    split; [discriminate|]. intros x c' H; inversion H; subst. apply cwf_set_pos. split; assumption.
  Qed.

  Hint Resolve msafe_ret safe_u8 safe_skip safe_window safe_close safe_read_name safe_skip_name : msafe.

  Ltac msafe_tac :=
    repeat first
      [ apply msafe_ret
      | apply msafe_bind; [|intros ?]
      | apply safe_u8 | apply safe_skip | apply safe_window | apply safe_close
      | apply safe_read_name | apply safe_skip_name
      | apply safe_be; reflexivity
      | apply safe_be_unchecked; reflexivity
      | apply (safe_slice (fun _ bs => bs))
      | apply msafe_fail; discriminate ].

  Lemma safe_txt_loop fuel : forall rd acc, msafe (txt_loop msg fuel rd acc).
  Proof.
    induction fuel as [|f IH]; intros rd acc; cbn [txt_loop]; [apply msafe_fail; discriminate|].
    destruct (txt_more rd); [|apply msafe_ret].
    apply msafe_bind; [apply safe_u8|intros len].
    apply msafe_bind.
    - destruct (txt_chunk_nonempty len); [apply (safe_slice (fun _ bs => bs))|apply msafe_ret].
    - intros chunk. destruct (_ <=? _); [apply IH|apply msafe_fail; discriminate].
  Qed.

  Lemma safe_read_rdata ty rdlen m : read_rdata msg ty rdlen = Some m -> msafe m.
  Proof.
    unfold read_rdata.
    destruct (ty =? T_A); [intro H; inversion H; subst; clear H; unfold in_window, m_window, m_close, m_u32, c_u32; msafe_tac|].
    destruct (ty =? T_AAAA); [intro H; inversion H; subst; clear H; unfold in_window, m_window, m_close, m_u128, c_u128; msafe_tac|].
    destruct (is_name_type ty); [intro H; inversion H; subst; clear H; unfold in_window, m_window, m_close, m_name; msafe_tac|].
    destruct (ty =? T_HINFO); [intro H; inversion H; subst; clear H; unfold in_window, m_window, m_close, m_charstr, m_u8, m_slice; msafe_tac|].
    destruct (ty =? T_WKS).
    { intro H; inversion H; subst; clear H. unfold in_window, m_window, m_close, m_u32, c_u32, m_u8, m_slice.
      apply msafe_bind; [apply safe_window|intros _].
      apply msafe_bind; [|intros ?; msafe_tac].
      apply msafe_bind; [apply safe_be; reflexivity|intros a].
      apply msafe_bind; [apply safe_u8|intros p].
      destruct (wks_bitmap_len_nounderflow rdlen); msafe_tac. }
    destruct (ty =? T_MINFO); [intro H; inversion H; subst; clear H; unfold in_window, m_window, m_close, m_name; msafe_tac|].
    destruct (ty =? T_MX); [intro H; inversion H; subst; clear H; unfold in_window, m_window, m_close, m_name, m_u16, c_u16; msafe_tac|].
    destruct (ty =? T_NULL); [intro H; inversion H; subst; clear H; unfold in_window, m_window, m_close, m_slice; msafe_tac|].
    destruct (ty =? T_SOA); [intro H; inversion H; subst; clear H; unfold in_window, m_window, m_close, m_name, m_u32, c_u32; msafe_tac|].
    destruct (ty =? T_TXT); [|discriminate].
    intro H. injection H as <-. unfold m_window, m_close.
    apply msafe_bind; [apply safe_window|intros _].
    apply msafe_bind; [exact (safe_txt_loop (S (N.to_nat rdlen)) rdlen [])|intros t]. msafe_tac.
  Qed.
End Safe.

(* ------------------------------------------------------------------ reader level *)
Section ReaderSafe.
  Variable msg : list byte.

  Definition obs_wf (o : obs) : Prop :=
    match o with
    | OQuestionRef c _ _ | OHeaderRef c _ | ONameRef c => cwf msg c
    | _ => True
    end.
  Definition res_wf (r : res obs) : Prop := match r with Ok o => obs_wf o | _ => True end.

  (* a reader operation keeps the reader's cursor well-formed and never returns UB *)
  Definition rsafe {X} (p : reader * res X) : Prop := cwf msg (r_cur (fst p)) /\ noub (snd p).
  Definition rsafe_o (p : reader * res obs) : Prop := rsafe p /\ res_wf (snd p).

  (* closes [rsafe (r', const)] / [rsafe_o (r', const)] goals when the cursor of r' is the one of Hc *)
  Ltac rs Hc := first [ split; [exact Hc | discriminate]
                      | split; [split; [exact Hc | discriminate] | first [exact I | assumption]] ].

  Lemma rsafe_run {X} r (m : M X) : cwf msg (r_cur r) -> msafe msg m -> rsafe (run r m).
  Proof.
    intros Hc Hm. unfold run, rsafe. specialize (Hm _ Hc). destruct (m (r_cur r)); cbn in *. assumption.
  Qed.
  Lemma rsafe_latch {X} (p : reader * res X) : rsafe p -> rsafe (latch p).
  Proof. unfold latch, rsafe. destruct p as [r x]; destruct x; cbn; tauto. Qed.
  Lemma rsafe_bind2 {X Y} (p : reader * res X) (f : reader -> X -> reader * res Y) :
    rsafe p -> (forall r x, cwf msg (r_cur r) -> rsafe (f r x)) -> rsafe (bind2 p f).
  Proof.
    unfold bind2, rsafe. destruct p as [r x]; cbn. intros [Hc Hn] Hf.
    destruct x; cbn; try (split; [assumption|discriminate]).
    - apply Hf; assumption.
    - exfalso; apply Hn; reflexivity.
  Qed.

  Lemma noub_checked_sub a b : noub (checked_sub a b).
  Proof. unfold checked_sub. destruct (b <=? a); discriminate. Qed.
  Lemma noub_left c : noub (left c). Proof. apply noub_checked_sub. Qed.
  Lemma noub_questions_left t : noub (questions_left t). Proof. apply noub_left. Qed.
  Lemma noub_records_left_in t s : noub (records_left_in t s). Proof. apply noub_left. Qed.
  Lemma noub_records_left t : noub (records_left t).
  Proof.
    unfold records_left. repeat (apply noub_bind; [apply noub_left|intros ? _]). discriminate.
  Qed.
  Lemma noub_incr v : noub (incr_u16 v). Proof. unfold incr_u16; destruct (v <? 65535); discriminate. Qed.
  Lemma noub_section_read t s p : noub (section_read t s p).
  Proof. unfold section_read. apply noub_bind; [apply noub_incr|intros ? _]. destruct (sr_last_record _ _); discriminate. Qed.
  Lemma noub_question_read t p : noub (question_read t p).
  Proof. unfold question_read. apply noub_bind; [apply noub_incr|intros ? _]. destruct (qr_last_question _ _); discriminate. Qed.

  Lemma safe_read_header : msafe msg (read_header msg).
  Proof.
    intros c Hc. unfold read_header. destruct (header_read_guard _); [|cbn; split; [assumption|discriminate]].
    revert c Hc. change (msafe msg (do* id <- lift (fun c => c_be_unchecked msg c 2);
       do* fl <- lift (fun c => c_be_unchecked msg c 2);
       do* qd <- lift (fun c => c_be_unchecked msg c 2);
       do* an <- lift (fun c => c_be_unchecked msg c 2);
       do* ns <- lift (fun c => c_be_unchecked msg c 2);
       do* ar <- lift (fun c => c_be_unchecked msg c 2);
       mret (mkHeader id fl qd an ns ar))).
    repeat (apply msafe_bind; [apply safe_be_unchecked; reflexivity|intros ?]). apply msafe_ret.
  Qed.

  Lemma rsafe_o_latch p : rsafe_o p -> rsafe_o (latch p).
  Proof.
    unfold rsafe_o. intros [H1 H2]. split; [apply rsafe_latch; assumption|].
    unfold latch. destruct p as [r x]; destruct x; cbn in *; assumption.
  Qed.

  Lemma rsafe_header r : cwf msg (r_cur r) -> rsafe_o (rd_header msg r).
  Proof.
    intro Hc. unfold rd_header. apply rsafe_o_latch.
    pose proof (rsafe_run r (read_header msg) Hc safe_read_header) as H.
    destruct (run r (read_header msg)) as [r1 h]. destruct H as [H1 H2]. cbn in H1, H2.
    destruct h; try (rs H1). exfalso; apply H2; reflexivity.
  Qed.

  Lemma safe_m_question : msafe msg (m_question msg).
  Proof.
    unfold m_question, c_u16.
    apply msafe_bind; [apply safe_read_name|intros n].
    apply msafe_bind; [apply safe_be; reflexivity|intros qt].
    apply msafe_bind; [apply safe_be; reflexivity|intros qc]. apply msafe_ret.
  Qed.
  Lemma m_question_ref_spec c :
    cwf msg c -> cwf msg (fst (m_question_ref msg c)) /\ noub (snd (m_question_ref msg c)) /\ res_wf (snd (m_question_ref msg c)).
  Proof.
    intro Hc. unfold m_question_ref, c_u16.
    set (m := (do* _ <- lift_c (skip_name msg); do* qt <- lift (fun c0 => c_be msg c0 2);
               do* qc <- lift (fun c0 => c_be msg c0 2); mret (OQuestionRef c qt qc))).
    assert (Hm : msafe msg m).
    { subst m. apply msafe_bind; [apply safe_skip_name|intros _].
      apply msafe_bind; [apply safe_be; reflexivity|intros qt].
      apply msafe_bind; [apply safe_be; reflexivity|intros qc]. apply msafe_ret. }
    destruct (Hm c Hc) as [H1 H2]. split; [assumption|split; [assumption|]].
    subst m. unfold mbind, mret, lift_c, lift.
    destruct (skip_name msg c); cbn; try exact I.
    destruct (c_be msg a 2) as [[x c1]| | | | |]; cbn; try exact I.
    destruct (c_be msg c1 2) as [[y c2]| | | | |]; cbn; try exact I. assumption.
  Qed.

  Lemma rsafe_after_question p : rsafe_o p -> rsafe_o (after_question p).
  Proof.
    destruct p as [r o]. intros [[Hc Hn] Hw]. cbn in Hc, Hn, Hw. unfold after_question.
    destruct o as [v| | | | |]; try (rs Hc).
    - pose proof (noub_question_read (r_tr r) (pos (r_cur r))) as Hq.
      destruct (question_read (r_tr r) (pos (r_cur r))) as [t| | | | |]; try (rs Hc).
      exfalso; apply Hq; reflexivity.
    - exfalso; apply Hn; reflexivity.
  Qed.

  Lemma rsafe_question single as_ref r : cwf msg (r_cur r) -> rsafe_o (rd_question msg single as_ref r).
  Proof.
    intro Hc. unfold rd_question. destruct (r_done r); [rs Hc|].
    pose proof (noub_questions_left (r_tr r)) as Hq.
    destruct (questions_left (r_tr r)) as [lft| | | | |]; try (rs Hc).
    - match goal with |- context [if ?b then _ else _] => destruct b end; [rs Hc|].
      apply rsafe_after_question. destruct as_ref.
      + unfold run. pose proof (m_question_ref_spec (r_cur r) Hc) as (H1 & H2 & H3).
        destruct (m_question_ref msg (r_cur r)); cbn in *. split; [split|]; assumption.
      + pose proof (rsafe_run r (m_question msg) Hc safe_m_question) as H.
        split; [assumption|]. unfold run. unfold m_question, mbind, mret, lift.
        destruct (read_name msg Inline (r_cur r)) as [[x c1]| | | | |]; cbn; try exact I.
        destruct (c_u16 msg c1) as [[y c2]| | | | |]; cbn; try exact I.
        destruct (c_u16 msg c2) as [[z c3]| | | | |]; cbn; exact I.
    - exfalso; apply Hq; reflexivity.
  Qed.

  Lemma safe_m_skip_question : msafe msg (m_skip_question msg).
  Proof. unfold m_skip_question. apply msafe_bind; [apply safe_skip_name|intros _]. apply safe_skip. Qed.

  Lemma rsafe_skip_questions_loop fuel : forall r, cwf msg (r_cur r) -> rsafe (skip_questions_loop msg fuel r).
  Proof.
    induction fuel as [|f IH]; intros r Hc; cbn [skip_questions_loop]; [rs Hc|].
    pose proof (noub_questions_left (r_tr r)) as Hq.
    destruct (questions_left (r_tr r)) as [lft| | | | |]; try (rs Hc).
    - destruct (0 <? lft); [|rs Hc].
      pose proof (rsafe_run r (m_skip_question msg) Hc safe_m_skip_question) as H.
      destruct (run r (m_skip_question msg)) as [r1 x]. destruct H as [H1 H2]; cbn in H1, H2.
      destruct x; try (rs H1).
      + pose proof (noub_question_read (r_tr r1) (pos (r_cur r1))) as Hr.
        destruct (question_read (r_tr r1) (pos (r_cur r1))) as [t| | | | |]; try (rs H1).
        * apply IH. exact H1.
        * exfalso; apply Hr; reflexivity.
      + exfalso; apply H2; reflexivity.
    - exfalso; apply Hq; reflexivity.
  Qed.

  Lemma rsafe_unit_obs p : rsafe p -> rsafe_o (unit_obs p).
  Proof.
    destruct p as [r x]. intros [Hc Hn]. cbn in Hc, Hn. unfold unit_obs. cbn [fst snd].
    destruct x; cbn; try (rs Hc). exfalso; apply Hn; reflexivity.
  Qed.

  Lemma rsafe_rd_skip_questions r : cwf msg (r_cur r) -> rsafe_o (rd_skip_questions msg r).
  Proof.
    intro Hc. unfold rd_skip_questions. destruct (r_done r); [rs Hc|].
    apply rsafe_o_latch, rsafe_unit_obs, rsafe_skip_questions_loop. assumption.
  Qed.

  Lemma rsafe_calc_section r : cwf msg (r_cur r) -> rsafe (calc_section r).
  Proof.
    intro Hc. unfold calc_section. destruct (next_section _ _) as [t s]. split; [exact Hc|]. destruct s; discriminate.
  Qed.

  Lemma safe_raw_marker p s : msafe msg (m_raw_marker msg p s).
  Proof.
    intros c0 Hc0. unfold m_raw_marker, c_u16, c_u32.
    assert (H : msafe msg (do* ty <- lift (fun c => c_be msg c 2); do* cl <- lift (fun c => c_be msg c 2);
                           do* ttl <- lift (fun c => c_be msg c 4); do* rdlen <- lift (fun c => c_be msg c 2);
                           mret (mkMarker p (pos c0) ty cl ttl rdlen s))).
    { repeat (apply msafe_bind; [apply safe_be; reflexivity|intros ?]). apply msafe_ret. }
    exact (H c0 Hc0).
  Qed.

  Lemma rsafe_marker_impl r : cwf msg (r_cur r) -> rsafe (marker_impl msg r).
  Proof.
    intro Hc. unfold marker_impl. apply rsafe_bind2; [apply rsafe_calc_section; assumption|].
    intros r1 s H1. apply rsafe_run; [assumption|].
    apply msafe_bind; [apply safe_skip_name|intros _]. apply safe_raw_marker.
  Qed.

  Lemma rsafe_rd_marker r : cwf msg (r_cur r) -> rsafe_o (rd_marker msg r).
  Proof.
    intro Hc. unfold rd_marker. destruct (r_done r); [rs Hc|].
    apply rsafe_o_latch. split.
    - apply rsafe_bind2; [apply rsafe_marker_impl; assumption|]. intros r1 m H1. rs H1.
    - unfold bind2. destruct (marker_impl msg r) as [r1 x]. destruct x; cbn; exact I.
  Qed.

  Lemma rsafe_header_ref_impl r : cwf msg (r_cur r) -> rsafe_o (header_ref_impl msg r).
  Proof.
    intro Hc. unfold header_ref_impl. pose proof (rsafe_calc_section r Hc) as Hs.
    destruct (calc_section r) as [r1 s]. destruct Hs as [H1 H2]; cbn in H1, H2. unfold bind2.
    destruct s as [sec| | | | |]; try (rs H1).
    - set (m := (do* _ <- lift_c (skip_name msg); do* m <- m_raw_marker msg (pos (r_cur r)) sec; mret (OHeaderRef (r_cur r1) m))).
      assert (Hm : msafe msg m).
      { subst m. apply msafe_bind; [apply safe_skip_name|intros _]. apply msafe_bind; [apply safe_raw_marker|intros ?]. apply msafe_ret. }
      split; [apply rsafe_run; assumption|].
      unfold run. subst m. unfold mbind, mret, lift_c, lift.
      destruct (skip_name msg (r_cur r1)) as [c1| | | | |]; cbn; try exact I.
      destruct (m_raw_marker msg (pos (r_cur r)) sec c1) as [c2 x]. destruct x; cbn; try exact I. assumption.
    - exfalso; apply H2; reflexivity.
  Qed.

  Lemma rsafe_header_n_impl nk r : cwf msg (r_cur r) -> rsafe_o (header_n_impl msg nk r).
  Proof.
    intro Hc. unfold header_n_impl. split.
    - apply rsafe_bind2; [apply rsafe_calc_section; assumption|]. intros r1 s H1. apply rsafe_run; [assumption|].
      apply msafe_bind; [apply safe_read_name|intros n]. apply msafe_bind; [apply safe_raw_marker|intros ?]. apply msafe_ret.
    - unfold bind2. destruct (calc_section r) as [r1 s]. destruct s as [sec| | | | |]; cbn; try exact I.
      unfold run, mbind, mret, lift. destruct (read_name msg nk (r_cur r1)) as [[x c1]| | | | |]; cbn; try exact I.
      destruct (m_raw_marker msg (pos (r_cur r)) sec c1) as [c2 y]. destruct y; cbn; exact I.
  Qed.

  Lemma rsafe_rd_header_ref r : cwf msg (r_cur r) -> rsafe_o (rd_header_ref msg r).
  Proof.
    intro Hc. unfold rd_header_ref. destruct (r_done r); [rs Hc|].
    apply rsafe_o_latch, rsafe_header_ref_impl; assumption.
  Qed.
  Lemma rsafe_rd_header_n nk r : cwf msg (r_cur r) -> rsafe_o (rd_header_n msg nk r).
  Proof.
    intro Hc. unfold rd_header_n. destruct (r_done r); [rs Hc|].
    apply rsafe_o_latch, rsafe_header_n_impl; assumption.
  Qed.

  Lemma rsafe_after_data mk p : rsafe p -> res_wf (snd p) -> rsafe_o (after_data mk p).
  Proof.
    destruct p as [r o]. intros [Hc Hn] Hw. cbn in Hc, Hn, Hw. unfold after_data.
    destruct o as [v| | | | |]; try (rs Hc).
    - pose proof (noub_section_read (r_tr r) (m_section mk) (pos (r_cur r))) as Hq.
      destruct (section_read (r_tr r) (m_section mk) (pos (r_cur r))) as [t| | | | |]; try (rs Hc).
      exfalso; apply Hq; reflexivity.
    - exfalso; apply Hn; reflexivity.
  Qed.

  Lemma res_wf_run_nonref {X} r (m : M X) (k : X -> obs) :
    (forall x, obs_wf (k x)) -> res_wf (snd (run r (do* x <- m; mret (k x)))).
  Proof.
    intro Hk. unfold run, mbind, mret. destruct (m (r_cur r)) as [c x]. destruct x; cbn; try exact I. apply Hk.
  Qed.

  Lemma rsafe_skip_record_data_impl mk r : cwf msg (r_cur r) -> rsafe_o (skip_record_data_impl mk r).
  Proof.
    intro Hc. unfold skip_record_data_impl. apply rsafe_after_data.
    - apply rsafe_run; [assumption|]. apply msafe_bind; [apply safe_skip|intros _]. apply msafe_ret.
    - apply (res_wf_run_nonref r (lift_c (fun c => c_skip c (m_rdlen mk))) (fun _ => OUnit)). intros; exact I.
  Qed.

  Lemma rsafe_rd_skip_data mk r : cwf msg (r_cur r) -> rsafe_o (rd_skip_data mk r).
  Proof.
    intro Hc. unfold rd_skip_data. destruct (negb _); [rs Hc|].
    destruct (r_done r); [rs Hc|]. apply rsafe_skip_record_data_impl; assumption.
  Qed.

  Lemma rsafe_rd_data_bytes mk r : cwf msg (r_cur r) -> rsafe_o (rd_data_bytes msg mk r).
  Proof.
    intro Hc. unfold rd_data_bytes. destruct (negb _); [rs Hc|].
    destruct (r_done r); [rs Hc|]. apply rsafe_after_data.
    - apply rsafe_run; [assumption|]. apply (safe_slice msg (fun off bs => OBytes off bs)).
    - unfold run, lift. destruct (c_slice msg (r_cur r) (m_rdlen mk)) as [[[o b] c]| | | | |]; cbn; exact I.
  Qed.

  Lemma rsafe_rd_data ty mk r : cwf msg (r_cur r) -> rsafe_o (rd_data msg ty mk r).
  Proof.
    intro Hc. unfold rd_data. destruct (read_rdata msg ty (m_rdlen mk)) as [m|] eqn:E; [|rs Hc].
    destruct (negb _); [rs Hc|].
    destruct (r_done r); [rs Hc|]. apply rsafe_after_data.
    - apply rsafe_run; [assumption|]. apply msafe_bind; [eapply safe_read_rdata; eassumption|intros d]. apply msafe_ret.
    - apply (res_wf_run_nonref r m (fun d => ORData d)). intros; exact I.
  Qed.

  Lemma rsafe_rd_opt mk r : cwf msg (r_cur r) -> rsafe_o (rd_opt mk r).
  Proof.
    intro Hc. unfold rd_opt. destruct (r_done r); [rs Hc|].
    destruct (negb (pos _ =? _)); [rs Hc|].
    destruct (negb (m_rtype mk =? T_OPT)); [rs Hc|].
    apply rsafe_after_data.
    - apply rsafe_run; [assumption|]. apply msafe_bind; [apply safe_skip|intros _]. apply msafe_ret.
    - apply (res_wf_run_nonref r (lift_c (fun c => c_skip c (m_rdlen mk))) (fun _ => OOpt (opt_from_msg (m_rclass mk) (m_ttl mk)))). intros; exact I.
  Qed.

  Lemma cwf_clone c p : cwf msg c -> cwf msg (c_clone_with_pos c p).
  Proof. unfold cwf, c_clone_with_pos. intros [H1 H2]. cbn. destruct (orig c); split; try tauto; lia. Qed.

  Lemma noub_rd_bytes_at mk r : cwf msg (r_cur r) -> noub (rd_bytes_at msg mk r) /\ res_wf (rd_bytes_at msg mk r).
  Proof.
    intro Hc. unfold rd_bytes_at. pose proof (c_slice_defined msg _ (m_rdlen mk) (cwf_clone _ (rdata_pos mk) Hc)) as D.
    destruct (c_slice msg _ _) as [[[o b] c]| | | | |]; cbn in *; try tauto; split; try discriminate; exact I.
  Qed.
  Lemma noub_rd_data_at ty mk r : cwf msg (r_cur r) -> noub (rd_data_at msg ty mk r) /\ res_wf (rd_data_at msg ty mk r).
  Proof.
    intro Hc. unfold rd_data_at. destruct (read_rdata msg ty (m_rdlen mk)) as [m|] eqn:E; [|split; [discriminate|exact I]].
    pose proof (safe_read_rdata msg _ _ _ E _ (cwf_clone _ (rdata_pos mk) Hc)) as [_ H2].
    destruct (snd (m _)); cbn; split; try discriminate; try exact I. exfalso; apply H2; reflexivity.
  Qed.

  Lemma rsafe_skip_section_loop fuel s : forall r, cwf msg (r_cur r) -> rsafe (skip_section_loop msg fuel s r).
  Proof.
    induction fuel as [|f IH]; intros r Hc; cbn [skip_section_loop]; [rs Hc|].
    pose proof (noub_records_left_in (r_tr r) s) as Hq.
    destruct (records_left_in (r_tr r) s) as [lft| | | | |]; try (rs Hc).
    - destruct (0 <? lft); [|rs Hc].
      apply rsafe_bind2; [apply rsafe_marker_impl; assumption|]. intros r1 mk H1.
      apply rsafe_bind2; [apply rsafe_skip_record_data_impl; assumption|]. intros r2 _ H2. apply IH; assumption.
    - exfalso; apply Hq; reflexivity.
  Qed.

  Lemma rsafe_seek_impl s r : cwf msg (r_cur r) -> rsafe (seek_impl msg s r).
  Proof.
    intro Hc. unfold seek_impl. apply rsafe_bind2; [apply rsafe_skip_questions_loop; assumption|]. intros r1 _ H1.
    destruct s as [|p]; [rs H1|].
    destruct p; try (apply rsafe_bind2; [apply rsafe_skip_section_loop; assumption|]; intros r2 _ H2; apply rsafe_skip_section_loop; assumption).
    apply rsafe_skip_section_loop; assumption.
  Qed.

  Lemma rsafe_rd_seek s r : cwf msg (r_cur r) -> rsafe_o (rd_seek msg s r).
  Proof.
    intro Hc. unfold rd_seek. destruct (r_done r); [rs Hc|].
    destruct (section_offset (r_tr r) s).
    - split; [split; [cbn; apply cwf_set_pos; assumption|discriminate]|exact I].
    - destruct (seek_not_at_header_end _); [rs Hc|].
      apply rsafe_o_latch, rsafe_unit_obs, rsafe_seek_impl; assumption.
  Qed.

  Lemma noub_counts r :
    noub (rd_questions_count r) /\ noub (rd_records_count r) /\ (forall s, noub (rd_records_count_in s r)).
  Proof.
    unfold rd_questions_count, rd_records_count, rd_records_count_in.
    destruct (negb (r_done r)); repeat split; try discriminate; intros;
      (apply noub_bind; [first [apply noub_questions_left|apply noub_records_left|apply noub_records_left_in]|intros; discriminate]).
  Qed.
End ReaderSafe.

(* ------------------------------------------------------------------ borrowed names *)
Section NameRefSafe.
  Variable msg : list byte.

  Definition itinv (it : labels_it) : Prop := it_done it = true \/ linv msg (it_st it).

  Lemma labels_next_loop_safe fuel : forall st,
    linv msg st -> noub (labels_next_loop msg fuel st) /\
    (forall p b st', labels_next_loop msg fuel st = Ok (Some (p, b), st') -> linv msg st').
  Proof.
    induction fuel as [|f IH]; intros st Hi; cbn [labels_next_loop]; [split; [discriminate|discriminate]|].
    pose proof (label_step_defined msg st Hi) as D.
    destruct (label_step msg st) as [s| | | | |] eqn:Es; cbn in *; try tauto; try (split; discriminate).
    destruct s as [mp|p bytes st'|st'].
    - split; [discriminate|discriminate].
    - destruct (label_step_label _ _ _ _ _ Hi Es) as (Hi' & _).
      pose proof (check_label_defined bytes) as Dc.
      destruct (check_label_bytes bytes); cbn in *; try tauto; split; try discriminate.
      intros p0 b0 st0 H; inversion H; subst; assumption.
    - destruct (label_step_jump _ _ _ Hi Es) as (Hi' & _). apply IH; assumption.
  Qed.

  Lemma labels_next_safe it : itinv it ->
    noub (labels_next msg it) /\ (forall o it', labels_next msg it = Ok (o, it') -> itinv it').
  Proof.
    intros Hi. unfold labels_next. destruct (it_done it) eqn:Ed.
    - split; [discriminate|]. intros o it' H; inversion H; subst. left; assumption.
    - destruct Hi as [Hi|Hi]; [congruence|].
      destruct (labels_next_loop_safe (name_fuel (lc (it_st it))) (it_st it) Hi) as [Hn Hk].
      destruct (labels_next_loop msg _ _) as [[[[p b]|] st']| | | | |] eqn:E; split; try discriminate;
        try (intros o it' H; inversion H; subst; cbn).
      + right. eapply Hk. reflexivity.
      + left; reflexivity.
      + left; reflexivity.
      + exfalso; apply Hn; reflexivity.
  Qed.

  Lemma labels_all_safe fuel : forall it acc, itinv it -> noub (labels_all msg fuel it acc).
  Proof.
    induction fuel as [|f IH]; intros it acc Hi; cbn [labels_all]; [discriminate|].
    destruct (labels_next_safe it Hi) as [Hn Hk].
    destruct (labels_next msg it) as [[o it']| | | | |] eqn:E; cbn; try discriminate.
    - destruct o; try discriminate. apply IH. eapply Hk; reflexivity.
    - exfalso; apply Hn; reflexivity.
  Qed.

  Lemma itinv_new c : cwf msg c -> itinv (labels_new c).
  Proof. intro H. right. cbn. apply linv_init; assumption. Qed.

  Lemma labels_drain_safe c : cwf msg c -> noub (labels_drain msg c).
  Proof. intro H. apply labels_all_safe, itinv_new; assumption. Qed.

  Lemma nameref_eq_loop_safe fuel : forall a b, itinv a -> itinv b -> noub (nameref_eq_loop msg fuel a b).
  Proof.
    induction fuel as [|f IH]; intros a b Ha Hb; cbn [nameref_eq_loop]; [discriminate|].
    destruct (labels_next_safe a Ha) as [Hna Hka].
    destruct (labels_next msg a) as [[mo a']| | | | |] eqn:Ea; cbn; try discriminate; [|exfalso; apply Hna; reflexivity].
    destruct (labels_next_safe b Hb) as [Hnb Hkb].
    destruct (labels_next msg b) as [[oo b']| | | | |] eqn:Eb; cbn; try discriminate; [|exfalso; apply Hnb; reflexivity].
    destruct mo, oo; try discriminate.
    destruct (p =? p0); [discriminate|]. destruct (negb _); [discriminate|].
    apply IH; [eapply Hka|eapply Hkb]; reflexivity.
  Qed.

  Lemma nameref_eq_safe c1 c2 : cwf msg c1 -> cwf msg c2 -> noub (nameref_eq msg c1 c2).
  Proof. intros H1 H2. apply nameref_eq_loop_safe; apply itinv_new; assumption. Qed.
End NameRefSafe.

(* ------------------------------------------------------------------ scripts *)
Definition winv (w : world) : Prop :=
  (forall i m r, getN (w_msgs w) i = Some m -> getN (w_readers w) i = Some (Some r) -> cwf m (r_cur r)) /\
  (forall j mi c, getN (w_nrefs w) j = Some (mi, c) -> exists m, getN (w_msgs w) mi = Some m /\ cwf m c).

Lemma getN_map {A B} (f : A -> B) l i : getN (map f l) i = option_map f (getN l i).
Proof. unfold getN. revert l. induction (N.to_nat i) as [|n IH]; intros [|a l]; cbn; auto. Qed.

Lemma winv_init msgs : winv (world_init msgs).
Proof.
  split; cbn.
  - intros i m r Hm Hr. rewrite getN_map, Hm in Hr. cbn in Hr. unfold reader_new in Hr.
    destruct (msg_too_long _); [discriminate|]. inversion Hr; subst. cbn. apply cwf_new.
  - intros j mi c H. unfold getN in H. destruct (N.to_nat j); discriminate.
Qed.

Lemma nth_error_skipn' {A} (l : list A) : forall n k, nth_error (skipn n l) k = nth_error l (n + k).
Proof. induction l as [|a l IH]; intros [|n] k; cbn; auto. destruct k; reflexivity. Qed.

Lemma getN_set {A} (l : list A) i j x y :
  getN l i = Some y ->
  getN (firstn (N.to_nat i) l ++ [x] ++ skipn (S (N.to_nat i)) l) j = if j =? i then Some x else getN l j.
Proof.
  unfold getN. intro Hy.
  assert (Hlen : (N.to_nat i < length l)%nat) by (apply nth_error_Some; congruence).
  destruct (j =? i) eqn:E.
  - apply N.eqb_eq in E. subst j. rewrite nth_error_app2; rewrite firstn_length; [|lia].
    replace (N.to_nat i - Nat.min (N.to_nat i) (length l))%nat with 0%nat by lia. reflexivity.
  - apply N.eqb_neq in E. assert (N.to_nat j <> N.to_nat i) by lia.
    destruct (Nat.lt_ge_cases (N.to_nat j) (N.to_nat i)).
    + rewrite nth_error_app1 by (rewrite firstn_length; lia). apply nth_error_firstn'. assumption.
    + rewrite nth_error_app2 by (rewrite firstn_length; lia). rewrite firstn_length.
      replace (Nat.min (N.to_nat i) (length l)) with (N.to_nat i) by lia.
      destruct (N.to_nat j - N.to_nat i)%nat as [|k] eqn:Ek; [lia|]. cbn [app nth_error].
      rewrite nth_error_skipn'. f_equal. lia.
Qed.

Lemma getN_snoc {A} (l : list A) x j : getN (l ++ [x]) j = if j =? lenN l then Some x else getN l j.
Proof.
  unfold getN, lenN. destruct (j =? N.of_nat (length l)) eqn:E.
  - apply N.eqb_eq in E. subst. rewrite Nat2N.id, nth_error_app2 by lia. rewrite Nat.sub_diag. reflexivity.
  - apply N.eqb_neq in E. destruct (Nat.lt_ge_cases (N.to_nat j) (length l)).
    + apply nth_error_app1; assumption.
    + rewrite nth_error_app2 by assumption. assert (N.to_nat j <> length l) by lia.
      destruct (N.to_nat j - length l)%nat eqn:Ek; [lia|]. cbn [nth_error].
      replace (nth_error (@nil A) n) with (@None A) by (destruct n; reflexivity).
      symmetry. apply nth_error_None. lia.
Qed.

Section StepSafe.
  Lemma winv_set_reader w i m r0 r :
    winv w -> getN (w_msgs w) i = Some m -> getN (w_readers w) i = Some r0 -> cwf m (r_cur r) -> winv (set_reader w i r).
  Proof.
    intros [H1 H2] Hm Hr Hc. split.
    - intros j m' r' Hm' Hr'. unfold set_reader in Hm', Hr'. cbn [w_msgs w_readers] in Hm', Hr'.
      rewrite (getN_set _ _ _ _ _ Hr) in Hr'. destruct (j =? i) eqn:E.
      + apply N.eqb_eq in E. subst. inversion Hr'; subst. congruence.
      + eapply H1; eassumption.
    - exact H2.
  Qed.
  Lemma winv_add_marker w mk : winv w -> winv (add_marker w mk).
  Proof. intros [H1 H2]. split; cbn; assumption. Qed.
  Lemma winv_add_nref w mi m c : winv w -> getN (w_msgs w) mi = Some m -> cwf m c -> winv (add_nref w mi c).
  Proof.
    intros [H1 H2] Hm Hc. split; cbn; [assumption|].
    intros j mi' c' H. rewrite getN_snoc in H. destruct (j =? lenN (w_nrefs w)).
    - inversion H; subst. eauto.
    - eapply H2; eassumption.
  Qed.

  Lemma absorb_safe w mi m o :
    winv w -> getN (w_msgs w) mi = Some m -> noub o -> res_wf m o ->
    winv (fst (absorb w mi o)) /\ noub (snd (absorb w mi o)).
  Proof.
    intros Hw Hm Hn Hwf. unfold absorb. destruct o as [v| | | | |]; cbn [fst snd]; try (split; [assumption|discriminate]).
    - destruct v; cbn [fst snd]; cbn in Hwf; try (split; [assumption|discriminate]).
      + split; [eapply winv_add_nref; eassumption|discriminate].
      + split; [apply winv_add_marker; eapply winv_add_nref; eassumption|discriminate].
      + split; [eapply winv_add_nref; eassumption|discriminate].
    - exfalso; apply Hn; reflexivity.
  Qed.

  Lemma step_safe w ri cl : winv w -> winv (fst (step w ri cl)) /\ noub (snd (step w ri cl)).
  Proof.
    intro Hw. unfold step.
    destruct (getN (w_msgs w) ri) as [msg|] eqn:Em; [|split; [assumption|discriminate]].
    destruct (getN (w_readers w) ri) as [[r|]|] eqn:Er; try (split; [assumption|discriminate]).
    assert (Hc : cwf msg (r_cur r)) by (destruct Hw as [H1 _]; eapply H1; eassumption).
    (* a mutating call *)
    assert (Hmut : forall p : reader * res obs, rsafe_o msg p ->
              winv (fst (let (w1, o) := absorb (set_reader w ri (fst p)) ri (snd p) in (w1, o))) /\
              noub (snd (let (w1, o) := absorb (set_reader w ri (fst p)) ri (snd p) in (w1, o)))).
    { intros [r' o] [[Hc' Hn] Hwf]. cbn in Hc', Hn, Hwf. cbn [fst snd].
      pose proof (absorb_safe (set_reader w ri r') ri msg o) as H.
      destruct (absorb (set_reader w ri r') ri o) as [w1 o1]. cbn in *. apply H; try assumption.
      eapply winv_set_reader; eassumption. }
    assert (Hpure : forall o : res obs, noub o -> res_wf msg o ->
              winv (fst (absorb w ri o)) /\ noub (snd (absorb w ri o))).
    { intros o Hn Hwf. apply (absorb_safe w ri msg o); assumption. }
    assert (Hmk : forall k (f : marker -> world * res sobs),
              (forall mk, winv (fst (f mk)) /\ noub (snd (f mk))) ->
              winv (fst (match getN (w_markers w) (if k =? 99999 then lenN (w_markers w) - 1 else k) with
                         | Some mk => f mk | None => (w, Ok SNoSuch) end)) /\
              noub (snd (match getN (w_markers w) (if k =? 99999 then lenN (w_markers w) - 1 else k) with
                         | Some mk => f mk | None => (w, Ok SNoSuch) end))).
    { intros k f Hf. destruct (getN (w_markers w) _); [apply Hf|split; [assumption|discriminate]]. }
    destruct cl; cbn zeta.
    - apply Hmut, rsafe_header; assumption.
    - apply Hmut, rsafe_rd_seek; assumption.
    - apply Hpure; [apply noub_counts|]. unfold rd_questions_count. destruct (negb _); [|exact I]. destruct (questions_left _); exact I.
    - apply Hpure; [apply noub_counts|]. unfold rd_records_count. destruct (negb _); [|exact I]. destruct (records_left _); exact I.
    - apply Hpure; [apply noub_counts|]. unfold rd_records_count_in. destruct (negb _); [|exact I]. destruct (records_left_in _ _); exact I.
    - apply Hmut, rsafe_question; assumption.
    - apply Hmut, rsafe_question; assumption.
    - apply Hmut, rsafe_question; assumption.
    - apply Hmut, rsafe_question; assumption.
    - apply Hmut, rsafe_rd_skip_questions; assumption.
    - apply Hmut, rsafe_rd_marker; assumption.
    - apply Hmut, rsafe_rd_header_ref; assumption.
    - apply Hmut, rsafe_rd_header_n; assumption.
    - apply Hmk. intro mk. apply Hmut, rsafe_rd_skip_data; assumption.
    - apply Hmk. intro mk. apply Hmut, rsafe_rd_data_bytes; assumption.
    - apply Hmk. intro mk. apply Hmut, rsafe_rd_data; assumption.
    - apply Hmk. intro mk. apply Hmut, rsafe_rd_opt; assumption.
    - apply Hmk. intro mk. apply Hmut. destruct (m_rtype mk =? T_OPT); [apply rsafe_rd_opt|apply rsafe_rd_skip_data]; assumption.
    - apply Hmk. intro mk. apply Hpure; apply noub_rd_bytes_at; assumption.
    - apply Hmk. intro mk. apply Hpure; apply noub_rd_data_at; assumption.
    - apply Hmk. intro mk. apply Hpure; [discriminate|]. cbn. apply cwf_clone; assumption.
    - (* CNrefEq *)
      destruct (getN (w_nrefs w) _) as [[mi c1]|] eqn:E1; [|split; [assumption|discriminate]].
      destruct Hw as [Hw1 Hw2]. destruct (Hw2 _ _ _ E1) as (m1 & Hm1 & Hc1). rewrite Hm1.
      destruct (getN (w_nrefs w) (if j =? 99999 then _ else j)) as [[mj c2]|] eqn:E2; [|split; [split; assumption|discriminate]].
      destruct (mi =? mj) eqn:Eq; [|split; [split; assumption|discriminate]].
      apply N.eqb_eq in Eq. subst mj. destruct (Hw2 _ _ _ E2) as (m2 & Hm2 & Hc2).
      assert (m2 = m1) by congruence. subst m2.
      split; [split; assumption|]. cbn. apply noub_bind; [apply nameref_eq_safe; assumption|intros; discriminate].
    - (* CNrefName *)
      destruct (getN (w_nrefs w) _) as [[mi c1]|] eqn:E1; [|split; [assumption|discriminate]].
      destruct Hw as [Hw1 Hw2]. destruct (Hw2 _ _ _ E1) as (m1 & Hm1 & Hc1). rewrite Hm1.
      split; [split; assumption|]. cbn. apply noub_bind; [apply defined_noub, read_name_defined; assumption|].
      intros [t c'] _. discriminate.
    - (* CNrefLabels *)
      destruct (getN (w_nrefs w) _) as [[mi c1]|] eqn:E1; [|split; [assumption|discriminate]].
      destruct Hw as [Hw1 Hw2]. destruct (Hw2 _ _ _ E1) as (m1 & Hm1 & Hc1). rewrite Hm1.
      split; [split; assumption|]. cbn. apply noub_bind; [apply labels_drain_safe; assumption|].
      intros [ls e] _. discriminate.
  Qed.
End StepSafe.

Lemma run_script_from_safe cs : forall w prev, winv w -> Forall noub (run_script_from w prev cs).
Proof.
  induction cs as [|[[ri cond] cl] rest IH]; intros w prev Hw; cbn [run_script_from]; [constructor|].
  destruct (cond && negb prev).
  - constructor; [discriminate|]. apply IH; assumption.
  - pose proof (step_safe w ri cl Hw) as [H1 H2]. destruct (step w ri cl) as [w' o]. cbn in H1, H2.
    destruct (definedb o); constructor; try assumption; [apply IH; assumption|constructor].
Qed.

(* C17: whatever the messages, whatever the calls, in whatever order, with markers and borrowed
   names passed between readers: no step is UB. *)
Theorem no_ub_any_script msgs cs : Forall noub (run_script (world_init msgs) cs).
Proof. apply run_script_from_safe, winv_init. Qed.
