(* Proofs/WriterSafe.v — the name/query encoder never writes outside its buffer and refuses every
   name the text checker refuses. *)
From Coq Require Import ZArith.
From RsdnsModel Require Import Base GenConst GenNames GenHeader GenWriter GenQuery GenSpec Names Writer.
From RsdnsModel.Spec Require Import WireName NameText.
From RsdnsModel.Proofs Require Import CursorSafe ListN LabelsTotal LabelsSound NameText.
From Coq Require Import ZifyBool ZifyN ZifyNat.
Open Scope N_scope.

Definition noub {A} (r : res A) : Prop := r <> UB.

Lemma lenN_be_bytes n v : lenN (be_bytes n v) = N.of_nat n.
Proof.
  revert v; induction n as [|n IH]; intro v; [reflexivity|].
  cbn [be_bytes]. rewrite lenN_app, IH, lenN_cons, lenN_nil. lia.
Qed.

Lemma lenN_put buf p bs : p + lenN bs <= lenN buf -> lenN (put buf p bs) = lenN buf.
Proof.
  intro H. unfold put. rewrite !lenN_app. unfold lenN in *. rewrite firstn_length, skipn_length. lia.
Qed.

(* leaves *)
Lemma wcursor_len_spec cap p : wcursor_len cap p = cap - p. Proof. reflexivity. Qed.
Lemma wslice_guard_spec len size : wslice_guard len size = true <-> size <= len. Proof. unfold wslice_guard; lia. Qed.
Lemma w_be_guard_spec len size : w_be_guard len size = true <-> size <= len. Proof. unfold w_be_guard; lia. Qed.
Lemma wu_be_assert_spec len size : wu_be_assert len size = true <-> size <= len. Proof. unfold wu_be_assert; lia. Qed.
Lemma write_label_guard_spec len l : write_label_guard len l = true <-> l < len. Proof. unfold write_label_guard; lia. Qed.
Lemma whdr_guard_spec len : whdr_guard len = true <-> 12 <= len. Proof. unfold whdr_guard. rewrite HEADER_LENGTH_spec. lia. Qed.

Lemma w_raw_ok w bs w' : w_raw w bs = Ok w' ->
  wpos w + lenN bs <= wcap w /\ wpos w' = wpos w + lenN bs /\ wcap w' = wcap w.
Proof.
  unfold w_raw. destruct (wpos w + lenN bs <=? wcap w) eqn:E; [|discriminate].
  intro H; inversion H; subst. cbn. unfold wcap in *. cbn. rewrite lenN_put by lia. lia.
Qed.
Lemma w_raw_noub w bs : wpos w + lenN bs <= wcap w -> exists w', w_raw w bs = Ok w'.
Proof. intro H. unfold w_raw. destruct (wpos w + lenN bs <=? wcap w) eqn:E; [eauto|lia]. Qed.

Lemma w_u8_noub w v : noub (w_u8 w v).
Proof.
  unfold w_u8. destruct (wslice_guard _ _) eqn:G; [|discriminate].
  apply wslice_guard_spec in G. unfold w_len in G. rewrite wcursor_len_spec in G.
  destruct (w_raw_noub w [Nb v]) as [w' H]; [rewrite lenN_cons, lenN_nil; lia|]. rewrite H. discriminate.
Qed.
Lemma w_be_noub w n v : (0 < n)%nat -> noub (w_be w n v).
Proof.
  intro Hn. unfold w_be. destruct (w_be_guard _ _) eqn:G; [|discriminate].
  apply w_be_guard_spec in G. unfold w_len in G. rewrite wcursor_len_spec in G.
  destruct (w_raw_noub w (be_bytes n v)) as [w' H]; [rewrite lenN_be_bytes; lia|]. rewrite H. discriminate.
Qed.
Lemma w_be_unchecked_noub w n v : (0 < n)%nat -> noub (w_be_unchecked w n v).
Proof.
  intro Hn. unfold w_be_unchecked. destruct (wu_be_assert _ _) eqn:G; [|discriminate].
  apply wu_be_assert_spec in G. unfold w_len in G. rewrite wcursor_len_spec in G.
  destruct (w_raw_noub w (be_bytes n v)) as [w' H]; [rewrite lenN_be_bytes; lia|]. rewrite H. discriminate.
Qed.

Lemma noub_bind {A B} (r : res A) (f : A -> res B) :
  noub r -> (forall a, r = Ok a -> noub (f a)) -> noub (bind r f).
Proof. unfold noub. destruct r; cbn; intros; try congruence. apply H0; reflexivity. Qed.

Lemma write_label_noub w l : noub (write_label w l).
Proof.
  unfold write_label. apply noub_bind; [pose proof (check_label_defined l) as D; destruct (check_label_bytes l); cbn in D; try tauto; discriminate|intros _ _].
  destruct (write_label_guard _ _) eqn:G; [|discriminate].
  apply write_label_guard_spec in G. unfold w_len in G. rewrite wcursor_len_spec in G.
  destruct (w_raw_noub w [Nb (write_label_lenbyte (lenN l))]) as [w1 H1]; [rewrite lenN_cons, lenN_nil; lia|].
  rewrite H1. cbn [bind]. apply w_raw_ok in H1. rewrite lenN_cons, lenN_nil in H1.
  destruct (w_raw_noub w1 l) as [w2 H2]; [lia|]. rewrite H2. discriminate.
Qed.

(* the index loop never makes an out-of-range slice of the *name* either *)
Lemma name_loop_noub {S} (f : S -> list byte -> res S) name :
  (forall st l, noub (f st l)) ->
  forall rest j i ds st, i <= j -> j + lenN rest = lenN name -> noub (name_loop f name rest j i ds st).
Proof.
  intros Hf. induction rest as [|b rest IH]; intros j i ds st Hij Hj; cbn [name_loop]; [discriminate|].
  rewrite lenN_cons in Hj. destruct (name_is_dot (bN b)).
  - destruct ((i <=? j) && (j <=? lenN name)) eqn:E; [|lia].
    apply noub_bind; [apply Hf|intros st' _]. apply IH; lia.
  - apply IH; lia.
Qed.

Lemma name_labels_noub {S} (f : S -> list byte -> res S) name st :
  (forall st l, noub (f st l)) -> noub (name_labels f name st).
Proof.
  intro Hf. unfold name_labels. apply noub_bind; [apply name_loop_noub; [assumption|lia|lia]|].
  intros [ds st1] _. destruct ds as [d|]; [|apply Hf].
  destruct (name_tail_nonempty_nounderflow _ _) eqn:E; [|discriminate].
  rewrite name_tail_nonempty_nounderflow_spec in E.
  destruct (name_tail_nonempty _ _); [|discriminate]. destruct (d <=? lenN name) eqn:E2; [apply Hf|lia].
Qed.

Lemma write_name_noub w s : noub (write_name w s).
Proof.
  unfold write_name. destruct s as [|b s0] eqn:Es; [discriminate|]. rewrite <- Es.
  destruct (is_root_text s).
  - apply noub_bind; [apply w_u8_noub|intros; discriminate].
  - apply noub_bind; [apply name_labels_noub; apply write_label_noub|intros w1 _].
    apply noub_bind; [apply w_u8_noub|intros w2 _].
    destruct (wname_length_nounderflow _ _); [|discriminate]. destruct (wname_too_long _); discriminate.
Qed.

Lemma write_header_noub w h : noub (write_header w h).
Proof.
  unfold write_header. destruct (whdr_guard _); [|discriminate].
  repeat (apply noub_bind; [apply w_be_unchecked_noub; lia|intros ? _]). apply w_be_unchecked_noub; lia.
Qed.

Lemma write_opt_noub w v p : noub (write_opt w v p).
Proof.
  unfold write_opt. apply noub_bind; [apply w_u8_noub|intros ? _].
  repeat (apply noub_bind; [apply w_be_noub; lia|intros ? _]). apply w_be_noub; lia.
Qed.

Theorem query_write_noub buf id qname qt qc rd opt : noub (query_write buf id qname qt qc rd opt).
Proof.
  unfold query_write.
  apply noub_bind; [apply w_be_noub; lia|intros w1 _].
  apply noub_bind; [apply write_header_noub|intros w2 _].
  apply noub_bind; [apply write_name_noub|intros [w3 n] _].
  apply noub_bind; [apply w_be_noub; lia|intros w4 _].
  apply noub_bind; [apply w_be_noub; lia|intros w5 _].
  apply noub_bind; [destruct opt as [[v p]|]; [apply write_opt_noub|discriminate]|intros w6 _].
  destruct (q_len_prefix_nounderflow _); [|discriminate].
  apply noub_bind; [apply w_be_noub; lia|intros; discriminate].
Qed.

(* ---- the encoder refuses what the checker refuses ---- *)
(* success of the writing loop implies success of the checking loop: write_label checks first *)
Lemma name_loop_write_check name : forall rest j i ds w r,
  name_loop write_label name rest j i ds w = Ok r ->
  exists ds', name_loop (fun (_ : unit) l => check_label_bytes l) name rest j i ds tt = Ok (ds', tt) /\ ds' = fst r.
Proof.
  induction rest as [|b rest IH]; intros j i ds w r; cbn [name_loop].
  - intro H; inversion H; subst. eauto.
  - destruct (name_is_dot (bN b)); [|apply IH].
    destruct ((i <=? j) && (j <=? lenN name)); [|discriminate].
    unfold write_label at 1.
    destruct (check_label_ok_or_err (subN name i (j - i))) as [Hok|[e He]]; rewrite ?Hok, ?He; cbn [bind]; [|discriminate].
    destruct (write_label_guard _ _); [|discriminate].
    destruct (w_raw w _) as [w1| | | | |]; cbn [bind]; try discriminate.
    destruct (w_raw w1 _) as [w2| | | | |]; cbn [bind]; try discriminate. apply IH.
Qed.

Lemma write_label_ok w l w' : write_label w l = Ok w' ->
  check_label_bytes l = Ok tt /\ wpos w' = wpos w + 1 + lenN l /\ wcap w' = wcap w.
Proof.
  unfold write_label. destruct (check_label_ok_or_err l) as [Hok|[e He]]; rewrite ?Hok, ?He; cbn [bind]; [|discriminate].
  destruct (write_label_guard _ _); [|discriminate].
  destruct (w_raw w _) as [w1| | | | |] eqn:E1; cbn [bind]; try discriminate.
  intro E2. apply w_raw_ok in E1. apply w_raw_ok in E2. rewrite lenN_cons, lenN_nil in E1. repeat split; lia.
Qed.

(* position accounting of the writing loop: wpos - i is invariant *)
Lemma name_loop_write_pos name : forall rest j i ds w ds' w',
  name_loop write_label name rest j i ds w = Ok (ds', w') ->
  i <= j -> (ds = None \/ ds = Some i) ->
  wcap w' = wcap w /\
  (ds' = None -> ds = None /\ wpos w' = wpos w) /\
  (forall d, ds' = Some d -> i <= d /\ wpos w' + i = wpos w + d).
Proof.
  induction rest as [|b rest IH]; intros j i ds w ds' w'; cbn [name_loop].
  - intros H Hij Hds; inversion H; subst. split; [reflexivity|]. split; [auto|].
    intros d Hd. destruct Hds as [Hds|Hds]; [congruence|]. rewrite Hds in Hd. inversion Hd; subst. split; lia.
  - destruct (name_is_dot (bN b)).
    + destruct ((i <=? j) && (j <=? lenN name)) eqn:E; [|discriminate].
      destruct (write_label w (subN name i (j - i))) as [w1| | | | |] eqn:E1; cbn [bind]; try discriminate.
      intros H Hij Hds. apply write_label_ok in E1. destruct E1 as (_ & Hp1 & Hc1).
      apply IH in H; [|lia|right; reflexivity]. destruct H as (Hc & Hn & Hs).
      assert (Hlen : lenN (subN name i (j - i)) = j - i) by (apply lenN_subN; lia).
      split; [congruence|]. split.
      * intro Hd. destruct (Hn Hd) as [Hx _]. discriminate.
      * intros d Hd. destruct (Hs d Hd) as [H1 H2]. split; lia.
    + intros H Hij Hds. apply IH in H; [|lia|assumption]. exact H.
Qed.

Theorem write_name_refuses_invalid w s w' n :
  write_name w s = Ok (w', n) -> check_name_bytes s = Ok tt /\ n <= 255.
Proof.
  unfold write_name, check_name_bytes. destruct s as [|b0 s0] eqn:Es; [discriminate|]. rewrite <- Es.
  assert (Hne : s <> []) by (subst; discriminate). clear Es b0 s0.
  destruct (is_root_text s).
  { destruct (w_u8 w 0); cbn [bind]; try discriminate. intro H; inversion H; subst. split; [reflexivity|lia]. }
  unfold name_labels.
  destruct (name_loop write_label s s 0 0 None w) as [[ds w1]| | | | |] eqn:EL; cbn [bind]; try discriminate.
  destruct (name_loop_write_check s s 0 0 None w _ EL) as (ds0 & ELc & Hds0). cbn in Hds0. subst ds0. rewrite ELc. cbn [bind].
  destruct (name_loop_write_pos s s 0 0 None w ds w1 EL ltac:(lia) ltac:(left; reflexivity)) as (Hcap & Hnone & Hsome).
  rewrite (getN_last s x00 Hne), name_full_length_spec.
  destruct ds as [d|].
  - destruct (Hsome d eq_refl) as [_ Hpos]. destruct (check_loop_tail s d Hne ELc) as [Hdle Hdot].
    rewrite name_tail_nonempty_nounderflow_spec, name_tail_nonempty_spec.
    destruct (d <=? lenN s) eqn:Ed; [|lia].
    destruct (0 <? lenN s - d) eqn:Et.
    + destruct (write_label w1 (subN s d (lenN s - d))) as [w2| | | | |] eqn:E2; cbn [bind]; try discriminate.
      apply write_label_ok in E2. destruct E2 as (Hok & Hp2 & Hc2). rewrite Hok. cbn [bind].
      rewrite lenN_subN in Hp2 by lia.
      unfold w_u8. destruct (wslice_guard _ _); [|discriminate].
      destruct (w_raw w2 [Nb 0]) as [w3| | | | |] eqn:E3; cbn [bind]; try discriminate.
      apply w_raw_ok in E3. rewrite lenN_cons, lenN_nil in E3.
      destruct (wname_length_nounderflow _ _); [|discriminate].
      unfold wname_length.
      assert (Hlen : wpos w3 - wpos w = lenN s + 2) by lia. rewrite Hlen.
      destruct (wname_too_long _) eqn:Etl; [discriminate|].
      intro H; inversion H; subst.
      assert (Hnd : bN (last s x00) =? 46 = false) by (apply Bool.not_true_is_false; intro E; apply Hdot in E; lia).
      rewrite Hnd.
      assert (lenN s + 2 <= 255).
      { destruct (N.le_gt_cases (lenN s + 2) 255); [assumption|]. unfold wname_too_long in Etl. rewrite DOMAIN_NAME_MAX_LENGTH_spec in Etl. lia. }
      destruct (name_too_long (lenN s + 2)) eqn:E4; [apply name_too_long_spec in E4; lia|]. split; [reflexivity|lia].
    + cbn [bind]. unfold w_u8. destruct (wslice_guard _ _); [|discriminate].
      destruct (w_raw w1 [Nb 0]) as [w3| | | | |] eqn:E3; cbn [bind]; try discriminate.
      apply w_raw_ok in E3. rewrite lenN_cons, lenN_nil in E3.
      destruct (wname_length_nounderflow _ _); [|discriminate].
      unfold wname_length.
      assert (Hdl : d = lenN s) by lia.
      assert (Hlen : wpos w3 - wpos w = lenN s + 1) by lia. rewrite Hlen.
      destruct (wname_too_long _) eqn:Etl; [discriminate|].
      intro H; inversion H; subst.
      assert (Hd2 : bN (last s x00) =? 46 = true) by (apply Hdot; reflexivity).
      rewrite Hd2.
      assert (lenN s + 1 <= 255).
      { destruct (N.le_gt_cases (lenN s + 1) 255); [assumption|]. unfold wname_too_long in Etl. rewrite DOMAIN_NAME_MAX_LENGTH_spec in Etl. lia. }
      destruct (name_too_long (lenN s + 1)) eqn:E4; [apply name_too_long_spec in E4; lia|]. split; [reflexivity|lia].
  - destruct (Hnone eq_refl) as [_ Hp1].
    destruct (write_label w1 s) as [w2| | | | |] eqn:E2; cbn [bind]; try discriminate.
    apply write_label_ok in E2. destruct E2 as (Hok & Hp2 & Hc2). rewrite Hok. cbn [bind].
    unfold w_u8. destruct (wslice_guard _ _); [|discriminate].
    destruct (w_raw w2 [Nb 0]) as [w3| | | | |] eqn:E3; cbn [bind]; try discriminate.
    apply w_raw_ok in E3. rewrite lenN_cons, lenN_nil in E3.
    destruct (wname_length_nounderflow _ _); [|discriminate].
    unfold wname_length.
    assert (Hlen : wpos w3 - wpos w = lenN s + 2) by lia. rewrite Hlen.
    destruct (wname_too_long _) eqn:Etl; [discriminate|].
    intro H; inversion H; subst.
    (* no dot in s at all: the last byte is not a dot *)
    assert (Hnd : bN (last s x00) =? 46 = false).
    { pose proof (name_loop_split s s [] [] 0 None eq_refl eq_refl ltac:(constructor) ltac:(tauto) ltac:(discriminate)) as HL.
      change (lenN (@nil byte) + lenN (@nil byte)) with 0 in HL. rewrite ELc in HL. cbv beta iota zeta in HL.
      destruct HL as (_ & Hn0 & _). destruct Hn0 as [Hn0 _]. destruct (Hn0 eq_refl) as [_ H1].
      pose proof (join_split s []) as Hj. cbn [rev app] in Hj.
      destruct (split_dots s []) as [|p [|q r]] eqn:Eps; try discriminate. cbn in Hj. subst p.
      pose proof (pieces_no_dot s [] ltac:(constructor)) as Hp. rewrite Eps in Hp. apply Forall_inv in Hp.
      rewrite Forall_forall in Hp. specialize (Hp (last s x00) ltac:(apply last_In; assumption)). lia. }
    rewrite Hnd.
    assert (lenN s + 2 <= 255).
    { destruct (N.le_gt_cases (lenN s + 2) 255); [assumption|]. unfold wname_too_long in Etl. rewrite DOMAIN_NAME_MAX_LENGTH_spec in Etl. lia. }
    destruct (name_too_long (lenN s + 2)) eqn:E4; [apply name_too_long_spec in E4; lia|]. split; [reflexivity|lia].
Qed.

Theorem query_refuses_invalid buf id qname qt qc rd opt b n :
  query_write buf id qname qt qc rd opt = Ok (b, n) -> valid_text qname = true.
Proof.
  unfold query_write.
  destruct (w_be _ 2 0) as [w1| | | | |]; cbn [bind]; try discriminate.
  destruct (write_header w1 _) as [w2| | | | |]; cbn [bind]; try discriminate.
  destruct (write_name w2 qname) as [[w3 k]| | | | |] eqn:E; cbn [bind]; try discriminate.
  intros _. apply write_name_refuses_invalid in E. apply check_name_valid. tauto.
Qed.
