(* Proofs/Views.v — relations between the views of one message. *)
From Coq Require Import ZArith.
From RsdnsModel Require Import Base GenConst GenCursor GenLabels GenNames GenSpec Cursor Names Labels.
From RsdnsModel.Proofs Require Import CursorSafe ListN LabelsTotal LabelsSound.
From Coq Require Import ZifyBool ZifyN ZifyNat.
Open Scope N_scope.

(* the two name types append labels identically: same text, same error, same payload *)
Lemma append_label_agree t l : append_label_bytes Heap t l = append_label_bytes Inline t l.
Proof.
  unfold append_label_bytes. destruct (check_label_bytes l); cbn [bind]; try reflexivity.
  rewrite name_new_len_spec, inline_capacity_spec, inline_err_pushstr_spec, inline_err_pushdot_spec, lenN_app.
  destruct (name_new_len_bad (lenN t + lenN l + 1)) eqn:E.
  - apply name_new_len_bad_spec in E.
    destruct (lenN t + lenN l <=? 255) eqn:E1; [|reflexivity].
    destruct (lenN t + lenN l + 1 <=? 255) eqn:E2; [lia|reflexivity].
  - assert (lenN t + lenN l + 1 <= 255).
    { destruct (N.le_gt_cases (lenN t + lenN l + 1) 255); [assumption|]. apply name_new_len_bad_spec in H. congruence. }
    destruct (lenN t + lenN l <=? 255) eqn:E1; [|lia].
    destruct (lenN t + lenN l + 1 <=? 255) eqn:E2; [|lia]. rewrite <- app_assoc. reflexivity.
Qed.

Section V.
  Variable msg : list byte.

  Lemma read_loop_agree fuel : forall st dn, read_name_loop msg Heap fuel st dn = read_name_loop msg Inline fuel st dn.
  Proof.
    induction fuel as [|f IH]; intros st dn; [reflexivity|]. cbn [read_name_loop].
    destruct (label_step msg st) as [s| | | | |]; cbn [bind]; try reflexivity.
    destruct s as [mp|p b st'|st']; [reflexivity| |apply IH].
    rewrite append_label_agree. destruct (append_label_bytes Inline dn b); cbn [bind]; try reflexivity. apply IH.
  Qed.

  (* owned names of either type: identical values, identical errors, identical resume position *)
  Theorem read_name_agree c : read_name msg Heap c = read_name msg Inline c.
  Proof. unfold read_name. rewrite read_loop_agree. reflexivity. Qed.

  (* decoding more (owned name) succeeding implies decoding less (skip) succeeds, same resume *)
  Lemma read_skip_loop nk fuel : forall st dn t mp,
    read_name_loop msg nk fuel st dn = Ok (t, mp) -> skip_name_loop msg fuel st = Ok mp.
  Proof.
    induction fuel as [|f IH]; intros st dn t mp; [discriminate|]. cbn [read_name_loop skip_name_loop].
    destruct (label_step msg st) as [s| | | | |]; cbn [bind]; try discriminate.
    destruct s as [mp'|p b st'|st'].
    - intro H; inversion H; reflexivity.
    - destruct (append_label_bytes nk dn b) as [dn'| | | | |] eqn:Ea; cbn [bind]; try discriminate.
      apply append_label_ok in Ea. destruct Ea as [Hok _]. rewrite Hok. cbn [bind]. apply IH.
    - apply IH.
  Qed.

  Theorem read_implies_skip nk c t c' :
    cwf msg c -> read_name msg nk c = Ok (t, c') -> skip_name msg c = Ok c'.
  Proof.
    intros Hc. unfold read_name, skip_name.
    destruct (read_name_loop msg nk (name_fuel c) (mkL c 0 0) []) as [[dn mp]| | | | |] eqn:E; cbn [bind]; try discriminate.
    destruct (name_wire_too_long _); [discriminate|]. intro H; inversion H; subst.
    pose proof (read_skip_loop _ _ _ _ _ _ E) as Hs. rewrite Hs. cbn [bind].
    apply skip_name_loop_ge in Hs; [|apply linv_init; assumption]. cbn in Hs. destruct Hs as [Hs _].
    specialize (Hs eq_refl). destruct (pos c <=? mp) eqn:E2; [reflexivity|lia].
  Qed.

  (* ... and the label iterator then yields exactly the labels of the decoded name *)
  Lemma labels_next_loop_step fuel : forall st,
    labels_next_loop msg (S fuel) st =
    (let* s := label_step msg st in
     match s with
     | LEnd mp => Ok (None, mkL (lc st) mp (n_ptr st))
     | LLabel p bytes st' => let* _ := check_label_bytes bytes in Ok (Some (p, bytes), st')
     | LJump st' => labels_next_loop msg fuel st'
     end).
  Proof. reflexivity. Qed.
End V.
