(* Proofs/FromMsgTotal.v — RecordSet::<D>::from_msg returns a value or an error value for EVERY byte
   string and each of the 17 record-data types: its two collecting loops terminate (every
   iteration consumes at least 11 octets of the message), the reader calls it makes respect the
   documented protocol (so none panics, Proofs/ReaderTotal.v), and the chase is total
   (Proofs/Chase.v). *)
From Coq Require Import ZArith.
From RsdnsModel Require Import Base GenConst GenCursor GenLabels GenNames GenHeader GenTypes GenTracker GenReader GenRData GenSpec.
From RsdnsModel Require Import Cursor Names Labels Header Tracker RData Reader RecordSet.
From RsdnsModel.Proofs Require Import CursorSafe ListN LabelsTotal Defined ReaderTotal Chase.
From Coq Require Import ZifyBool ZifyN ZifyNat.
Open Scope N_scope.

Section F.
  Variable msg : list byte.

  Definition mu (r : reader) : N := lim (r_cur r) - pos (r_cur r).

  (* ---- shapes of successful results ---- *)
  Lemma count_in_shape s r o : rd_records_count_in s r = Ok o -> exists n, o = ONum n.
  Proof.
    unfold rd_records_count_in. destruct (negb (r_done r)); [|intro H; inversion H; eauto].
    destruct (records_left_in (r_tr r) s); cbn; intro H; inversion H; eauto.
  Qed.
  Lemma count_shape r o : rd_records_count r = Ok o -> exists n, o = ONum n.
  Proof.
    unfold rd_records_count. destruct (negb (r_done r)); [|intro H; inversion H; eauto].
    destruct (records_left (r_tr r)); cbn; intro H; inversion H; eauto.
  Qed.

  (* skipping a name moves forward *)
  Lemma skip_name_advance c c' : cwf msg c -> skip_name msg c = Ok c' -> pos c < pos c' /\ lim c' = lim c /\ orig c' = orig c.
  Proof.
    intros Hc. unfold skip_name. destruct (skip_name_loop msg (name_fuel c) (mkL c 0 0)) as [mp| | | | |] eqn:E; cbn [bind]; try discriminate.
    destruct (skip_name_loop_ge msg _ _ _ (linv_init msg c Hc) E) as [H1 _]. specialize (H1 eq_refl). cbn in H1.
    destruct (pos c <=? mp); [|discriminate]. intro H; inversion H; subst. cbn. auto.
  Qed.

  Lemma raw_marker_advance p s c c' mk : m_raw_marker msg p s c = (c', Ok mk) ->
    pos c' = pos c + 10 /\ pos c' <= lim c' /\ lim c' = lim c /\ orig c' = orig c.
  Proof.
    unfold m_raw_marker, c_u16, c_u32, mbind, mret, lift.
    destruct (c_be msg c 2) as [[ty c1]| | | | |] eqn:E1; try discriminate.
    destruct (c_be msg c1 2) as [[cl c2]| | | | |] eqn:E2; try discriminate.
    destruct (c_be msg c2 4) as [[ttl c3]| | | | |] eqn:E3; try discriminate.
    destruct (c_be msg c3 2) as [[rdl c4]| | | | |] eqn:E4; try discriminate.
    intro H; inversion H; subst. apply c_be_ok in E1, E2, E3, E4.
    destruct E1 as (A1 & _ & _ & ->), E2 as (A2 & _ & _ & ->), E3 as (A3 & _ & _ & ->), E4 as (A4 & _ & _ & ->).
    cbn in *. repeat split; lia.
  Qed.

  (* a borrowed record header: shape, advance, and the name it hands out is well-formed *)
  Lemma header_ref_facts r r' o : RInv msg r -> rd_header_ref msg r = (r', Ok o) ->
    exists c mk, o = OHeaderRef c mk /\ cwf msg c /\ pos (r_cur r) + 11 <= pos (r_cur r') /\ pos (r_cur r') <= lim (r_cur r') /\
      lim (r_cur r') = lim (r_cur r).
  Proof.
    intros Hi H. pose proof Hi as [Hc _]. unfold rd_header_ref, header_ref_impl in H. destruct (r_done r); [discriminate|].
    apply latch_ok in H.
    set (body := fun (r1 : reader) s => do* _ <- lift_c (skip_name msg); do* m <- m_raw_marker msg (pos (r_cur r)) s; mret (OHeaderRef (r_cur r1) m)) in H.
    destruct (header_call_good msg r body Hi) as [_ Hs].
    { intros r1 s. unfold tdef, body. eapply t_bind; [apply d_skip_name|intros ?]. eapply t_bind; [apply d_raw_marker|intros ?]. apply t_ret; auto. }
    destruct (Hs _ _ H) as (r1 & s & c' & Ec & Eb & ->).
    destruct (calc_section_good msg r Hi) as [_ Hcs]. destruct (Hcs _ _ Ec) as (A1 & A2 & A3 & A4 & A5).
    unfold body, mbind, mret, lift_c, lift in Eb. rewrite A1 in Eb.
    destruct (skip_name msg (r_cur r)) as [c1| | | | |] eqn:Es; cbn [bind] in Eb; try discriminate.
    destruct (m_raw_marker msg (pos (r_cur r)) s c1) as [c2 y] eqn:Em. destruct y as [m| | | | |]; inversion Eb; subst.
    cbn [r_cur with_cur].
    destruct (skip_name_advance _ _ Hc Es) as (B1 & B2 & B3). destruct (raw_marker_advance _ _ _ _ _ Em) as (C1 & C2 & C3 & C4).
    exists (r_cur r), m. split; [reflexivity|]. split; [exact Hc|]. cbn [r_cur with_cur]. lia.
  Qed.
  Lemma marker_facts r r' o : RInv msg r -> rd_marker msg r = (r', Ok o) ->
    exists mk, o = OMarker mk /\ pos (r_cur r) + 11 <= pos (r_cur r') /\ pos (r_cur r') <= lim (r_cur r') /\ lim (r_cur r') = lim (r_cur r).
  Proof.
    intros Hi H. pose proof Hi as [Hc _]. unfold rd_marker in H. destruct (r_done r); [discriminate|].
    apply latch_ok in H.
    set (body := fun (_ : reader) s => do* _ <- lift_c (skip_name msg); m_raw_marker msg (pos (r_cur r)) s).
    assert (Em : marker_impl msg r = bind2 (calc_section r) (fun r1 s => run r1 (body r1 s))) by reflexivity.
    rewrite Em in H. clear Em.
    destruct (header_call_good msg r body Hi) as [_ Hs].
    { intros r1 s. unfold tdef, body. eapply t_bind; [apply d_skip_name|intros ?]. apply d_raw_marker. }
    destruct (bind2 (calc_section r) (fun r1 s => run r1 (body r1 s))) as [r2 x] eqn:E.
    unfold bind2 in H. destruct x as [m| | | | |]; try discriminate. inversion H; subst.
    destruct (Hs _ _ eq_refl) as (r1 & s & c' & Ec & Eb & ->).
    destruct (calc_section_good msg r Hi) as [_ Hcs]. destruct (Hcs _ _ Ec) as (A1 & A2 & A3 & A4 & A5).
    unfold body, mbind, lift_c, lift in Eb. rewrite A1 in Eb.
    destruct (skip_name msg (r_cur r)) as [c1| | | | |] eqn:Es; cbn [bind] in Eb; try discriminate.
    destruct (m_raw_marker msg (pos (r_cur r)) s c1) as [c2 y] eqn:Em. destruct y as [m'| | | | |]; inversion Eb; subst.
    cbn [r_cur with_cur].
    destruct (skip_name_advance _ _ Hc Es) as (B1 & B2 & B3). destruct (raw_marker_advance _ _ _ _ _ Em) as (C1 & C2 & C3 & C4).
    exists m. split; [reflexivity|]. cbn [r_cur with_cur]. lia.
  Qed.

  (* consuming the data keeps position and limit sane *)
  Lemma after_data_cur mk p r' o : after_data mk p = (r', Ok o) -> r_cur r' = r_cur (fst p).
  Proof.
    unfold after_data. destruct p as [r1 x]. destruct x; cbn [fst]; try discriminate.
    destruct (section_read _ _ _); try discriminate. intro H; inversion H; subst. reflexivity.
  Qed.
  Lemma skip_data_facts mk r r' o : rd_skip_data mk r = (r', Ok o) ->
    pos (r_cur r) <= pos (r_cur r') /\ lim (r_cur r') = lim (r_cur r).
  Proof.
    unfold rd_skip_data. destruct (negb _); [discriminate|]. destruct (r_done r); [discriminate|].
    unfold skip_record_data_impl. intro H. pose proof (after_data_cur _ _ _ _ H) as Hcur. rewrite Hcur.
    unfold run, mbind, mret, lift_c, lift. cbn [fst].
    destruct (c_skip (r_cur r) (m_rdlen mk)) as [c1| | | | |] eqn:E; cbn [bind fst r_cur with_cur]; try (split; [lia|reflexivity]).
    apply c_skip_ok in E. destruct E as [-> _]. cbn. split; [lia|reflexivity].
  Qed.
  Lemma opt_facts mk r r' o : rd_opt mk r = (r', Ok o) ->
    (exists x, o = OOpt x) /\ pos (r_cur r) <= pos (r_cur r') /\ lim (r_cur r') = lim (r_cur r).
  Proof.
    unfold rd_opt. destruct (r_done r); [discriminate|]. destruct (negb _); [discriminate|]. destruct (negb _); [discriminate|].
    intro H. pose proof (after_data_cur _ _ _ _ H) as Hcur. rewrite Hcur.
    unfold after_data, run, mbind, mret, lift_c, lift in *. cbn [fst] in *.
    destruct (c_skip (r_cur r) (m_rdlen mk)) as [c1| | | | |] eqn:E; cbn [bind fst snd r_cur r_tr with_cur] in *; try discriminate.
    destruct (section_read _ _ _); try discriminate. inversion H; subst.
    apply c_skip_ok in E. destruct E as [-> _]. cbn. split; [eauto|]. split; [lia|reflexivity].
  Qed.

  (* ---- the loop that collects the answer headers ---- *)
  Lemma read_answer_headers_total fuel : forall r acc, RInv msg r -> hs_wf msg acc ->
    (N.to_nat (mu r) < fuel)%nat ->
    let p := read_answer_headers msg fuel r acc in
    defined (snd p) /\ (forall hs, snd p = Ok hs -> RInv msg (fst p) /\ hs_wf msg hs).
  Proof.
    induction fuel as [|f IH]; intros r acc Hi Hw Hf; [lia|]. cbv zeta. cbn [read_answer_headers].
    destruct (counts_good msg r Hi) as (_ & _ & Dc). specialize (Dc 0).
    destruct (rd_records_count_in 0 r) as [o| | | | |] eqn:Ec; cbn in Dc; try (exfalso; exact Dc); [|cbn; split; [exact I|discriminate]].
    destruct (count_in_shape _ _ _ Ec) as [n ->].
    destruct (0 <? n); [|cbn; split; [exact I|intros hs H; inversion H; subst; tauto]].
    destruct (rd_header_ref_good msg r Hi) as [[Hi1 Hd1] Hmk]. unfold bind2 at 1.
    destruct (rd_header_ref msg r) as [r1 x] eqn:Eh. cbn [fst snd] in *.
    destruct x as [o| | | | |]; cbn in Hd1; try (exfalso; exact Hd1); [|cbn; split; [exact I|discriminate]].
    destruct (header_ref_facts r r1 o Hi Eh) as (c & mk & -> & Hcw & Hadv & Hpl & Hlim).
    destruct (Hmk r1 c mk eq_refl) as [Hok Hpos].
    pose proof (rd_skip_data_good msg mk r1 Hi1 Hok Hpos) as [Hi2 Hd2]. unfold bind2.
    destruct (rd_skip_data mk r1) as [r2 y] eqn:Es. cbn [fst snd] in *.
    destruct y as [u| | | | |]; cbn in Hd2; try (exfalso; exact Hd2); [|cbn; split; [exact I|discriminate]].
    destruct (skip_data_facts _ _ _ _ Es) as [S1 S2].
    apply IH; [exact Hi2| |].
    - unfold hs_wf in *. apply Forall_app. split; [exact Hw|]. constructor; [exact Hcw|constructor].
    - unfold mu in *. lia.
  Qed.

  (* ---- the loop that looks for an OPT record ---- *)
  Lemma read_opt_total fuel : forall r, RInv msg r -> (N.to_nat (mu r) < fuel)%nat ->
    let p := read_opt msg fuel r in defined (snd p) /\ RInv msg (fst p).
  Proof.
    induction fuel as [|f IH]; intros r Hi Hf; [lia|]. cbv zeta. cbn [read_opt].
    destruct (counts_good msg r Hi) as (_ & Dc & _).
    destruct (rd_records_count r) as [o| | | | |] eqn:Ec; cbn in Dc; try (exfalso; exact Dc); [|cbn; split; [exact I|exact Hi]].
    destruct (count_shape _ _ Ec) as [n ->].
    destruct (0 <? n); [|cbn; split; [exact I|exact Hi]].
    destruct (rd_marker_good msg r Hi) as [[Hi1 Hd1] Hmk]. unfold bind2.
    destruct (rd_marker msg r) as [r1 x] eqn:Eh. cbn [fst snd] in *.
    destruct x as [o| | | | |]; cbn in Hd1; try (exfalso; exact Hd1); [|cbn; split; [exact I|exact Hi1]].
    destruct (marker_facts r r1 o Hi Eh) as (mk & -> & Hadv & Hpl & Hlim).
    destruct (Hmk r1 mk eq_refl) as [Hok Hpos].
    cbv beta iota. match goal with |- context [m_rtype mk =? ?t] => destruct (m_rtype mk =? t) eqn:Et end.
    - apply N.eqb_eq in Et. pose proof (rd_opt_good msg mk r1 Hi1 Hok Hpos Et) as [Hi2 Hd2]. unfold bind2.
      destruct (rd_opt mk r1) as [r2 y] eqn:Eo. cbn [fst snd] in *.
      destruct y as [u| | | | |]; cbn in Hd2; try (exfalso; exact Hd2); [|cbn; split; [exact I|exact Hi2]].
      destruct (opt_facts _ _ _ _ Eo) as [[x ->] _]. cbn. split; [exact I|exact Hi2].
    - pose proof (rd_skip_data_good msg mk r1 Hi1 Hok Hpos) as [Hi2 Hd2]. unfold bind2.
      destruct (rd_skip_data mk r1) as [r2 y] eqn:Es. cbn [fst snd] in *.
      destruct y as [u| | | | |]; cbn in Hd2; try (exfalso; exact Hd2); [|cbn; split; [exact I|exact Hi2]].
      destruct (skip_data_facts _ _ _ _ Es) as [S1 S2]. apply IH; [exact Hi2|]. unfold mu in *. lia.
  Qed.

  (* ---- from_msg ---- *)
  Lemma header_shape r r' o : rd_header msg r = (r', Ok o) -> exists h, o = OHeader h.
  Proof.
    unfold rd_header, latch, run. destruct (read_header msg (r_cur r)) as [c x]. destruct x; cbn; intro H; inversion H; eauto.
  Qed.
  Lemma question_ref_shape single r r' o : rd_question msg single true r = (r', Ok o) -> exists c qt qc, o = OQuestionRef c qt qc /\ c = r_cur r.
  Proof.
    unfold rd_question. destruct (r_done r); [discriminate|]. destruct (questions_left (r_tr r)); try discriminate.
    destruct (if single then _ else _); [discriminate|].
    unfold after_question, run, m_question_ref, mbind, mret, lift_c, lift.
    destruct (skip_name msg (r_cur r)) as [c1| | | | |]; cbn [bind]; try discriminate.
    destruct (c_u16 msg c1) as [[qa d1]| | | | |]; try discriminate.
    destruct (c_u16 msg d1) as [[qb d2]| | | | |]; try discriminate.
    cbn [with_cur r_tr r_cur]. destruct (question_read _ _); try discriminate. intro H; inversion H; subst. eauto.
  Qed.

  Theorem from_msg_defined ty : (forall rd, read_rdata msg ty rd <> None) -> defined (from_msg msg ty).
  Proof.
    intro Hty. unfold from_msg. unfold reader_new. destruct (msg_too_long (lenN msg)); [exact I|]. cbn [bind].
    set (r0 := mkReader (c_new msg) tr_default false).
    assert (Hi0 : RInv msg r0) by (split; [apply cwf_new|apply twf_default]).
    pose proof (rd_header_good msg r0 (cwf_new msg) eq_refl) as [Hi1 Hd1].
    destruct (rd_header msg r0) as [r1 h] eqn:Eh. cbn [fst snd] in *.
    destruct h as [o| | | | |]; cbn in Hd1; try (exfalso; exact Hd1); cbn [bind]; [|exact I].
    destruct (header_shape _ _ _ Eh) as [hd ->].
    destruct (negb (flag_qr (h_flags hd))); [exact I|]. destruct (flag_tc (h_flags hd)); [exact I|].
    pose proof (rd_question_good msg true true r1 Hi1) as [Hi2 Hd2].
    destruct (rd_question msg true true r1) as [r2 q] eqn:Eq. cbn [fst snd] in *.
    destruct q as [o| | | | |]; cbn in Hd2; try (exfalso; exact Hd2); cbn [bind]; [|exact I].
    destruct (question_ref_shape _ _ _ _ Eq) as (qname & qt & qclass & -> & Hqn).
    assert (Hmu : forall r, RInv msg r -> (N.to_nat (mu r) < rec_fuel msg)%nat).
    { intros r [[Hl _] _]. unfold mu, rec_fuel. lia. }
    destruct (read_answer_headers_total (rec_fuel msg) r2 [] Hi2 ltac:(constructor) (Hmu r2 Hi2)) as [D3 K3].
    destruct (read_answer_headers msg (rec_fuel msg) r2 []) as [r3 hs] eqn:Eh3. cbn [fst snd] in *.
    destruct hs as [hs| | | | |]; cbn in D3; try (exfalso; exact D3); cbn [bind]; [|exact I].
    destruct (K3 hs eq_refl) as [Hi3 Hw3].
    destruct (read_opt_total (rec_fuel msg) r3 Hi3 (Hmu r3 Hi3)) as [D4 Hi4].
    destruct (read_opt msg (rec_fuel msg) r3) as [r4 o] eqn:Eo. cbn [fst snd] in *.
    destruct o as [o| | | | |]; cbn in D4; try (exfalso; exact D4); cbn [bind]; [|exact I].
    match goal with |- context [negb (?rc =? 0)] => destruct (negb (rc =? 0)); [exact I|] end.
    assert (Hqc : cwf msg qname) by (subst qname; apply Hi1).
    pose proof (chase_defined msg ty qclass r4 Hty (proj1 Hi4) (S (length hs)) qname hs Hqc Hw3) as D5.
    specialize (D5 ltac:(pose proof (live_le_length hs); lia)).
    destruct (chase msg (S (length hs)) ty r4 qname qclass hs) as [[[name ttl] data]| | | | |] eqn:Ec; cbn in D5; try (exfalso; exact D5); cbn [bind]; [|exact I].
    (* the final name is a clone of the reader's cursor or the question name: well-formed *)
    assert (Hn : cwf msg name).
    { destruct (chase_sound msg ty qclass r4 _ _ _ _ _ _ Ec) as (hs' & Hch & _).
      clear - Hch Hqc Hi4. induction Hch; [assumption|]. apply IHHch. apply cwf_clone_r. apply Hi4. }
    pose proof (read_name_defined msg Heap name Hn) as D6.
    destruct (read_name msg Heap name) as [[t c']| | | | |]; cbn in D6; try (exfalso; exact D6); exact I.
  Qed.
End F.
