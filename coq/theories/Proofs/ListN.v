(* Proofs/ListN.v — facts about N-indexed list access used throughout the proofs. *)
From Coq Require Import ZArith.
From RsdnsModel Require Import Base.
From Coq Require Import ZifyBool ZifyN ZifyNat.
Open Scope N_scope.

Lemma nth_error_firstn' {A} (l : list A) : forall (n i : nat), (i < n)%nat -> nth_error (firstn n l) i = nth_error l i.
Proof.
  induction l as [|a l IH]; intros n i H.
  - rewrite firstn_nil. reflexivity.
  - destruct n; [lia|]. destruct i; cbn; [reflexivity|]. apply IH. lia.
Qed.
Lemma getN_firstn {A} (l : list A) n i : i < n -> getN (firstn (N.to_nat n) l) i = getN l i.
Proof. intro H. unfold getN. apply nth_error_firstn'. lia. Qed.
Lemma lenN_firstn {A} (l : list A) n : n <= lenN l -> lenN (firstn (N.to_nat n) l) = n.
Proof. unfold lenN. intro H. rewrite firstn_length. lia. Qed.
Lemma subN_firstn {A} (l : list A) n p k : p + k <= n -> subN (firstn (N.to_nat n) l) p k = subN l p k.
Proof.
  intro H. unfold subN. rewrite skipn_firstn_comm, firstn_firstn. f_equal. lia.
Qed.
Lemma subN_nil {A} (l : list A) p : subN l p 0 = [].
Proof. unfold subN. reflexivity. Qed.
Lemma subN_all {A} (l : list A) : subN l 0 (lenN l) = l.
Proof. unfold subN, lenN. rewrite Nat2N.id. cbn. apply firstn_all. Qed.
Lemma getN_app_l {A} (a b : list A) i : i < lenN a -> getN (a ++ b) i = getN a i.
Proof. unfold getN, lenN. intro H. apply nth_error_app1. lia. Qed.
Lemma getN_app_r {A} (a b : list A) i : lenN a <= i -> getN (a ++ b) i = getN b (i - lenN a).
Proof. unfold getN, lenN. intro H. rewrite nth_error_app2 by lia. f_equal. lia. Qed.
Lemma subN_app_l {A} (a b : list A) p k : p + k <= lenN a -> subN (a ++ b) p k = subN a p k.
Proof.
  unfold subN, lenN. intro H. rewrite skipn_app, firstn_app.
  replace (N.to_nat k - length (skipn (N.to_nat p) a))%nat with 0%nat by (rewrite skipn_length; lia).
  cbn. rewrite app_nil_r. reflexivity.
Qed.

Lemma subN_mid {A} (pre mid rest : list A) : subN (pre ++ mid ++ rest) (lenN pre) (lenN mid) = mid.
Proof.
  unfold subN, lenN. rewrite !Nat2N.id, skipn_app, skipn_all, Nat.sub_diag. cbn [app skipn].
  rewrite firstn_app, firstn_all, Nat.sub_diag. cbn [firstn]. apply app_nil_r.
Qed.
Lemma lenN_rev {A} (l : list A) : lenN (rev l) = lenN l.
Proof. unfold lenN. rewrite rev_length. reflexivity. Qed.

Lemma last_app' {A} (l1 l2 : list A) d : l2 <> [] -> last (l1 ++ l2) d = last l2 d.
Proof.
  intro H. induction l1 as [|a l1 IH]; [reflexivity|]. cbn [app].
  destruct (l1 ++ l2) eqn:E; [apply app_eq_nil in E; destruct E; congruence|]. exact IH.
Qed.

Lemma last_In {A} (l : list A) d : l <> [] -> In (last l d) l.
Proof.
  induction l as [|a l IH]; intro H; [congruence|]. destruct l as [|b l]; [left; reflexivity|].
  right. apply IH. discriminate.
Qed.
