(* Proofs/RecordRT.v — a record written in the uncompressed wire layout decodes to exactly its
   fields: owner name, TYPE, CLASS, TTL, RDLENGTH, and (for A and AAAA) the address — whatever
   precedes and follows it in the message. *)
From Coq Require Import ZArith.
From RsdnsModel Require Import Base GenConst GenCursor GenLabels GenNames GenTypes GenRData GenSpec Cursor Names Labels Header Tracker RData Reader Writer.
From RsdnsModel.Spec Require Import WireName NameText.
From RsdnsModel.Proofs Require Import CursorSafe ListN LabelsTotal LabelsSound NameText WriterSafe WriterLayout RoundTrip.
From Coq Require Import ZifyBool ZifyN ZifyNat.
Open Scope N_scope.

(* big-endian encode then decode *)
Lemma be_val_app l : forall b acc, be_val (l ++ [b]) acc = be_val l acc * 256 + bN b.
Proof. induction l as [|x l IH]; intros b acc; cbn [app be_val]; [reflexivity|]. apply IH. Qed.

Lemma be_val_be_bytes n : forall v, v < 256 ^ N.of_nat n -> be_val (be_bytes n v) 0 = v.
Proof.
  induction n as [|n IH]; intros v Hv.
  - cbn in *. lia.
  - cbn [be_bytes]. rewrite be_val_app.
    assert (Hpow : 256 ^ N.of_nat (S n) = 256 * 256 ^ N.of_nat n).
    { rewrite Nat2N.inj_succ, N.pow_succ_r by lia. reflexivity. }
    rewrite Hpow in Hv.
    rewrite IH by (apply N.div_lt_upper_bound; lia).
    unfold Nb. pose proof (N.mod_lt v 256 ltac:(lia)) as Hm.
    destruct (Byte.of_N (v mod 256)) as [b|] eqn:E.
    + unfold bN. rewrite (Byte.to_of_N _ E). pose proof (N.div_mod v 256 ltac:(lia)). lia.
    + apply Byte.of_N_None_iff in E. lia.
Qed.

Lemma set_pos_idem c a b : c_set_pos (c_set_pos c a) b = c_set_pos c b.
Proof. reflexivity. Qed.
Lemma pos_set_pos c a : pos (c_set_pos c a) = a. Proof. reflexivity. Qed.
Lemma lim_set_pos c a : lim (c_set_pos c a) = lim c. Proof. reflexivity. Qed.

Section RR.
  Variable msg : list byte.

  Lemma c_be_fwd c n : cwf msg c -> 0 < n -> pos c + n <= lim c ->
    c_be msg c n = Ok (be_val (subN msg (pos c) n) 0, c_set_pos c (pos c + n)).
  Proof.
    intros [Hl Ho] Hn Hle. unfold c_be, c_len. rewrite cursor_len_spec.
    assert (E1 : r_be_guard (lim c - pos c) n = true) by (apply r_be_guard_spec; lia). rewrite E1.
    assert (E2 : (pos c + n <=? lim c) && (lim c <=? lenN msg) = true) by lia. rewrite E2. reflexivity.
  Qed.

  (* the fixed part of a record header: TYPE CLASS TTL RDLENGTH *)
  Definition fixed_wire (ty cl ttl rdlen : N) : list byte :=
    be_bytes 2 ty ++ be_bytes 2 cl ++ be_bytes 4 ttl ++ be_bytes 2 rdlen.

  Lemma raw_marker_plain pre post c p s ty cl ttl rdlen :
    msg = pre ++ fixed_wire ty cl ttl rdlen ++ post -> cwf msg c -> pos c = lenN pre -> lenN pre + 10 <= lim c ->
    ty < 65536 -> cl < 65536 -> ttl < 4294967296 -> rdlen < 65536 ->
    m_raw_marker msg p s c = (c_set_pos c (lenN pre + 10), Ok (mkMarker p (lenN pre) ty cl ttl rdlen s)).
  Proof.
    intros Hm Hc Hp Hlim Hty Hcl Httl Hrd. unfold m_raw_marker, c_u16, c_u32, mbind, mret, lift, fixed_wire in *.
    rewrite <- !app_assoc in Hm.
    assert (S1 : subN msg (lenN pre) 2 = be_bytes 2 ty).
    { rewrite Hm. change 2 with (lenN (be_bytes 2 ty)) at 1. apply subN_mid. }
    assert (S2 : subN msg (lenN pre + 2) 2 = be_bytes 2 cl).
    { rewrite Hm. replace (lenN pre + 2) with (lenN (pre ++ be_bytes 2 ty)) by (rewrite lenN_app; reflexivity).
      rewrite app_assoc. change 2 with (lenN (be_bytes 2 cl)) at 1. apply subN_mid. }
    assert (S3 : subN msg (lenN pre + 2 + 2) 4 = be_bytes 4 ttl).
    { rewrite Hm. replace (lenN pre + 2 + 2) with (lenN ((pre ++ be_bytes 2 ty) ++ be_bytes 2 cl)) by (rewrite !lenN_app; reflexivity).
      rewrite (app_assoc pre), (app_assoc (pre ++ _)). change 4 with (lenN (be_bytes 4 ttl)) at 1. apply subN_mid. }
    assert (S4 : subN msg (lenN pre + 2 + 2 + 4) 2 = be_bytes 2 rdlen).
    { rewrite Hm. replace (lenN pre + 2 + 2 + 4) with (lenN (((pre ++ be_bytes 2 ty) ++ be_bytes 2 cl) ++ be_bytes 4 ttl)) by (rewrite !lenN_app; reflexivity).
      rewrite (app_assoc pre), (app_assoc (pre ++ _)), (app_assoc ((pre ++ _) ++ _)).
      change 2 with (lenN (be_bytes 2 rdlen)) at 1. apply subN_mid. }
    rewrite (c_be_fwd c 2 Hc) by lia. rewrite Hp, S1.
    rewrite (c_be_fwd (c_set_pos c (lenN pre + 2)) 2 (cwf_set_pos _ _ _ Hc)) by (rewrite ?pos_set_pos, ?lim_set_pos; lia).
    rewrite pos_set_pos, set_pos_idem, S2.
    rewrite (c_be_fwd (c_set_pos c (lenN pre + 2 + 2)) 4 (cwf_set_pos _ _ _ Hc)) by (rewrite ?pos_set_pos, ?lim_set_pos; lia).
    rewrite pos_set_pos, set_pos_idem, S3.
    rewrite (c_be_fwd (c_set_pos c (lenN pre + 2 + 2 + 4)) 2 (cwf_set_pos _ _ _ Hc)) by (rewrite ?pos_set_pos, ?lim_set_pos; lia).
    rewrite pos_set_pos, set_pos_idem, S4.
    rewrite !be_val_be_bytes by (cbn; lia). f_equal. unfold c_set_pos. f_equal. lia.
  Qed.

  (* an A record's data *)
  Lemma rdata_a_plain pre post c addr :
    msg = pre ++ be_bytes 4 addr ++ post -> cwf msg c -> orig c = None -> pos c = lenN pre -> lenN pre + 4 <= lim c ->
    addr < 4294967296 ->
    exists m, read_rdata msg T_A 4 = Some m /\ snd (m c) = Ok (RD_A addr) /\ pos (fst (m c)) = lenN pre + 4.
  Proof.
    intros Hm Hc Ho Hp Hlim Ha. unfold read_rdata. change (T_A =? T_A) with true. cbn iota.
    eexists. split; [reflexivity|].
    unfold in_window, m_window, m_close, m_u32, c_u32, mbind, mret, lift_c, lift.
    assert (Hw : c_window c 4 = Ok (mkCursor (pos c + 4) (pos c) (Some (lim c)))).
    { unfold c_window. rewrite Ho. unfold c_len. rewrite cursor_len_spec.
      assert (G : window_guard (pos c) (lim c) (lim c - pos c) 4 = true) by (apply window_guard_spec; lia).
      rewrite G, window_end_spec.
      destruct (pos c + 4 <=? lim c) eqn:E; [reflexivity|lia]. }
    rewrite Hw. cbn [bind].
    set (cw := mkCursor (pos c + 4) (pos c) (Some (lim c))).
    assert (Hcw : cwf msg cw) by (destruct Hc as [H1 H2]; unfold cwf, cw; cbn; lia).
    rewrite (c_be_fwd cw 4 Hcw) by (cbn; lia). cbn [pos cw].
    assert (S1 : subN msg (pos c) 4 = be_bytes 4 addr).
    { rewrite Hp, Hm. change 4 with (lenN (be_bytes 4 addr)) at 1. apply subN_mid. }
    rewrite S1, be_val_be_bytes by (cbn; lia).
    unfold c_close_window. cbn [orig c_set_pos cw pos lim].
    assert (G2 : close_window_guard (pos c + 4) (pos c + 4) = true) by (apply close_window_guard_spec; lia).
    rewrite G2. cbn [bind fst snd pos]. split; [reflexivity|lia].
  Qed.
End RR.

Lemma lenN_fixed_wire ty cl ttl rdlen : lenN (fixed_wire ty cl ttl rdlen) = 10.
Proof. unfold fixed_wire. rewrite !lenN_app, !lenN_be_bytes. reflexivity. Qed.

(* an A record in the uncompressed layout, anywhere in a message: owner name, fixed part and address
   all decode to what was encoded, and decoding ends right behind the record *)
Theorem a_record_plain msg pre ls cl ttl addr post nk c p s :
  msg = pre ++ wire_encode ls ++ fixed_wire T_A cl ttl 4 ++ be_bytes 4 addr ++ post ->
  cwf msg c -> orig c = None -> pos c = lenN pre -> lim c = lenN msg ->
  Forall (fun l => label_ok l = true) ls -> wire_len ls <= 255 ->
  cl < 65536 -> ttl < 4294967296 -> addr < 4294967296 ->
  exists c1 c2 mk m,
    read_name msg nk c = Ok (join_labels ls, c1) /\
    m_raw_marker msg p s c1 = (c2, Ok mk) /\
    m_rtype mk = T_A /\ m_rclass mk = cl /\ m_ttl mk = ttl /\ m_rdlen mk = 4 /\ m_section mk = s /\
    read_rdata msg T_A (m_rdlen mk) = Some m /\ snd (m c2) = Ok (RD_A addr) /\
    pos (fst (m c2)) = lenN pre + wire_len ls + 10 + 4.
Proof.
  intros Hm Hc Ho Hp Hlim Hok Hw Hcl Httl Ha.
  assert (Hlen : lenN msg = lenN pre + wire_len ls + 10 + 4 + lenN post).
  { rewrite Hm, !lenN_app, lenN_wire_encode, lenN_fixed_wire, lenN_be_bytes. change (N.of_nat 4) with 4. lia. }
  pose proof (read_name_plain msg nk pre ls _ c Hm Hc Hp ltac:(lia) Hok Hw) as Hn.
  set (c1 := c_set_pos c (lenN pre + wire_len ls)) in *.
  assert (Hc1 : cwf msg c1) by (apply cwf_set_pos; assumption).
  assert (Hm2 : msg = (pre ++ wire_encode ls) ++ fixed_wire T_A cl ttl 4 ++ (be_bytes 4 addr ++ post)) by (rewrite Hm, <- !app_assoc; reflexivity).
  assert (Hp1 : pos c1 = lenN (pre ++ wire_encode ls)) by (rewrite lenN_app, lenN_wire_encode; reflexivity).
  pose proof (raw_marker_plain msg _ _ c1 p s T_A cl ttl 4 Hm2 Hc1 Hp1 ltac:(rewrite lenN_app, lenN_wire_encode; cbn [lim c1 c_set_pos]; lia)
                ltac:(reflexivity) Hcl Httl ltac:(reflexivity)) as Hr.
  set (c2 := c_set_pos c1 (lenN (pre ++ wire_encode ls) + 10)) in *.
  assert (Hc2 : cwf msg c2) by (apply cwf_set_pos; assumption).
  assert (Hm3 : msg = ((pre ++ wire_encode ls) ++ fixed_wire T_A cl ttl 4) ++ be_bytes 4 addr ++ post) by (rewrite Hm, <- !app_assoc; reflexivity).
  assert (Hp2 : pos c2 = lenN ((pre ++ wire_encode ls) ++ fixed_wire T_A cl ttl 4)) by (rewrite (lenN_app (pre ++ _)), lenN_fixed_wire; reflexivity).
  destruct (rdata_a_plain msg _ _ c2 addr Hm3 Hc2 Ho Hp2
              ltac:(rewrite !lenN_app, lenN_wire_encode, lenN_fixed_wire; cbn [lim c2 c1 c_set_pos]; lia) Ha) as (m & Em & Ed & Epos).
  exists c1, c2, (mkMarker p (lenN (pre ++ wire_encode ls)) T_A cl ttl 4 s), m.
  repeat split; try assumption; try reflexivity.
  rewrite Epos, !lenN_app, lenN_wire_encode, lenN_fixed_wire. lia.
Qed.
