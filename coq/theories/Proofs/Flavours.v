(* Proofs/Flavours.v — the three flavours of the record-header call agree. *)
From Coq Require Import ZArith.
From RsdnsModel Require Import Base GenConst GenCursor GenLabels GenNames GenSpec Cursor Names Labels Header Tracker RData Reader.
From RsdnsModel.Proofs Require Import CursorSafe ListN LabelsTotal LabelsSound Views.
From Coq Require Import ZifyBool ZifyN ZifyNat.
Open Scope N_scope.

(* ---------------------------------------------------------------- the three record-header flavours *)
(* record_header::<N>() decodes the owner name, record_header_ref() and record_marker() skip it:
   whenever the owned flavour succeeds, the other two succeed on the same reader state, return the
   SAME marker (offsets, type, class, TTL, RDLENGTH, section) and leave the reader in the SAME state;
   the borrowed name they hand out starts where the owned name was decoded *)
Section Flavours.
  Variable msg : list byte.

  Theorem header_flavours_agree nk r r' n mk :
    cwf msg (r_cur r) -> rd_header_n msg nk r = (r', Ok (OHeaderN n mk)) ->
    rd_marker msg r = (r', Ok (OMarker mk)) /\
    exists nref, rd_header_ref msg r = (r', Ok (OHeaderRef nref mk)) /\ pos nref = m_off mk /\
      exists c', read_name msg nk nref = Ok (n, c').
  Proof.
    intros Hc. unfold rd_header_n, rd_marker, rd_header_ref, header_n_impl, marker_impl, header_ref_impl.
    destruct (r_done r); [discriminate|].
    unfold calc_section. destruct (next_section (r_tr r) (pos (r_cur r))) as [t so].
    destruct so as [s|]; [|cbn; discriminate].
    unfold bind2, run, latch, mbind, mret, lift_c, lift. cbn [with_tr r_cur r_tr r_done fst snd].
    destruct (read_name msg nk (r_cur r)) as [[nm c1]| | | | |] eqn:En; cbn [fst snd]; try discriminate.
    rewrite (read_implies_skip msg nk _ _ _ Hc En). cbn [bind].
    destruct (m_raw_marker msg (pos (r_cur r)) s c1) as [c2 y] eqn:Em.
    destruct y as [m| | | | |]; cbn [fst snd]; try discriminate.
    intro H; inversion H; subst. split; [reflexivity|].
    exists (r_cur r). split; [reflexivity|]. split.
    - unfold m_raw_marker, mbind, mret, lift in Em.
      destruct (c_u16 msg c1) as [[a d1]| | | | |]; try discriminate.
      destruct (c_u16 msg d1) as [[b d2]| | | | |]; try discriminate.
      destruct (c_u32 msg d2) as [[e d3]| | | | |]; try discriminate.
      destruct (c_u16 msg d3) as [[f d4]| | | | |]; try discriminate.
      inversion Em; reflexivity.
    - exists c1. exact En.
  Qed.
End Flavours.
