(* Proofs/RandAccess.v — marker-based random access is a pure function of (message, marker):
   in every reader state reachable by ANY call script, the cursor handed to the random-access
   decoders is the whole message at the marker's data position. *)
From Coq Require Import ZArith.
From RsdnsModel Require Import Base GenConst GenCursor GenLabels GenNames GenHeader GenTypes GenTracker GenReader GenRData GenSpec Cursor Names Labels Header Tracker RData Reader Script.
From RsdnsModel.Proofs Require Import CursorSafe ListN NoUB.
From Coq Require Import ZifyBool ZifyN ZifyNat.
Open Scope N_scope.

(* the length of the buffer that clone_with_pos clones *)
Definition base (c : cursor) : N := match orig c with Some L => L | None => lim c end.

Definition mbase {X} (m : M X) : Prop := forall c, base (fst (m c)) = base c.

Lemma mbase_ret {X} (x : X) : mbase (mret x). Proof. intro c; reflexivity. Qed.
Lemma mbase_fail {X} (r : res X) : mbase (mfail r). Proof. intro c; reflexivity. Qed.
Lemma mbase_bind {X Y} (m : M X) (f : X -> M Y) : mbase m -> (forall x, mbase (f x)) -> mbase (mbind m f).
Proof.
  intros Hm Hf c. unfold mbind. specialize (Hm c). destruct (m c) as [c' r]; cbn in Hm.
  destruct r; cbn; try assumption. rewrite Hf. assumption.
Qed.
Lemma mbase_lift {X} (f : cursor -> res (X * cursor)) :
  (forall c x c', f c = Ok (x, c') -> base c' = base c) -> mbase (lift f).
Proof. intros H c. unfold lift. destruct (f c) as [[x c']| | | | |] eqn:E; cbn; try reflexivity. eapply H; eassumption. Qed.
Lemma mbase_lift_c (f : cursor -> res cursor) :
  (forall c c', f c = Ok c' -> base c' = base c) -> mbase (lift_c f).
Proof.
  intros H. unfold lift_c. apply mbase_lift. intros c x c'. destruct (f c) eqn:E; cbn; try discriminate.
  intro H0; inversion H0; subst. eapply H; eassumption.
Qed.

Section Base.
  Variable msg : list byte.

  Lemma base_set_pos c p : base (c_set_pos c p) = base c. Proof. reflexivity. Qed.

  Lemma b_u8 : mbase (lift (c_u8 msg)).
  Proof. apply mbase_lift. intros c x c' H. apply c_u8_ok in H. destruct H as (_ & _ & ->). reflexivity. Qed.
  Lemma b_be size : mbase (lift (fun c => c_be msg c size)).
  Proof. apply mbase_lift. intros c x c' H. apply c_be_ok in H. destruct H as (_ & _ & _ & ->). reflexivity. Qed.
  Lemma b_be_unchecked size : mbase (lift (fun c => c_be_unchecked msg c size)).
  Proof.
    apply mbase_lift. intros c x c'. unfold c_be_unchecked. destruct (ru_be_assert _ _); [|discriminate].
    destruct (_ && _); [|discriminate]. intro H; inversion H; reflexivity.
  Qed.
  Lemma b_slice {X} (k : N -> list byte -> X) n :
    mbase (lift (fun c => let* (off, bs, c') := c_slice msg c n in Ok (k off bs, c'))).
  Proof.
    apply mbase_lift. intros c x c'. destruct (c_slice msg c n) as [[[lo bs] c2]| | | | |] eqn:E; cbn; try discriminate.
    intro H; inversion H; subst. apply c_slice_ok in E. destruct E as (_ & _ & _ & _ & ->). reflexivity.
  Qed.
  Lemma b_skip n : mbase (lift_c (fun c => c_skip c n)).
  Proof. apply mbase_lift_c. intros c c' H. apply c_skip_ok in H. destruct H as (-> & _). reflexivity. Qed.
  Lemma b_window n : mbase (lift_c (fun c => c_window c n)).
  Proof.
    apply mbase_lift_c. intros c c'. unfold c_window. destruct (orig c) eqn:Eo; [discriminate|].
    destruct (window_guard _ _ _ _); [|discriminate]. destruct (_ <=? _); [|discriminate].
    intro H; inversion H; subst. unfold base; cbn. rewrite Eo. reflexivity.
  Qed.
  Lemma b_close : mbase (lift_c c_close_window).
  Proof.
    apply mbase_lift_c. intros c c'. unfold c_close_window. destruct (orig c) eqn:Eo; [|discriminate].
    destruct (close_window_guard _ _); [|discriminate]. intro H; inversion H; subst. unfold base; cbn. rewrite Eo. reflexivity.
  Qed.
  Lemma b_read_name nk : mbase (lift (read_name msg nk)).
  Proof.
    apply mbase_lift. intros c x c'. unfold read_name.
    destruct (read_name_loop _ _ _ _ _) as [[dn mp]| | | | |]; cbn; try discriminate.
    destruct (name_wire_too_long _); [discriminate|]. intro H; inversion H; reflexivity.
  Qed.
  Lemma b_skip_name : mbase (lift_c (skip_name msg)).
  Proof.
    apply mbase_lift_c. intros c c'. unfold skip_name.
    destruct (skip_name_loop _ _ _) as [mp| | | | |]; cbn; try discriminate.
    destruct (pos c <=? mp); [|discriminate]. intro H; inversion H; reflexivity.
  Qed.

  Ltac mb :=
    repeat first
      [ apply mbase_ret | apply mbase_fail
      | apply mbase_bind; [|intros ?]
      | apply b_u8 | apply b_skip | apply b_window | apply b_close | apply b_read_name | apply b_skip_name
      | apply b_be | apply b_be_unchecked | apply (b_slice (fun _ bs => bs)) ].

  Lemma b_txt_loop fuel : forall rd acc, mbase (txt_loop msg fuel rd acc).
  Proof.
    induction fuel as [|f IH]; intros rd acc; cbn [txt_loop]; [apply mbase_fail|].
    destruct (txt_more rd); [|apply mbase_ret].
    apply mbase_bind; [apply b_u8|intros len]. apply mbase_bind.
    - destruct (txt_chunk_nonempty len); [apply (b_slice (fun _ bs => bs))|apply mbase_ret].
    - intros chunk. destruct (_ <=? _); [apply IH|apply mbase_fail].
  Qed.

  Lemma b_read_rdata ty rdlen m : read_rdata msg ty rdlen = Some m -> mbase m.
  Proof.
    unfold read_rdata.
    destruct (ty =? T_A); [intro H; inversion H; subst; clear H; unfold in_window, m_window, m_close, m_u32, c_u32; mb|].
    destruct (ty =? T_AAAA); [intro H; inversion H; subst; clear H; unfold in_window, m_window, m_close, m_u128, c_u128; mb|].
    destruct (is_name_type ty); [intro H; inversion H; subst; clear H; unfold in_window, m_window, m_close, m_name; mb|].
    destruct (ty =? T_HINFO); [intro H; inversion H; subst; clear H; unfold in_window, m_window, m_close, m_charstr, m_u8, m_slice; mb|].
    destruct (ty =? T_WKS).
    { intro H; inversion H; subst; clear H. unfold in_window, m_window, m_close, m_u32, c_u32, m_u8, m_slice.
      apply mbase_bind; [apply b_window|intros _]. apply mbase_bind; [|intros ?; mb].
      apply mbase_bind; [apply b_be|intros a]. apply mbase_bind; [apply b_u8|intros p].
      destruct (wks_bitmap_len_nounderflow rdlen); mb. }
    destruct (ty =? T_MINFO); [intro H; inversion H; subst; clear H; unfold in_window, m_window, m_close, m_name; mb|].
    destruct (ty =? T_MX); [intro H; inversion H; subst; clear H; unfold in_window, m_window, m_close, m_name, m_u16, c_u16; mb|].
    destruct (ty =? T_NULL); [intro H; inversion H; subst; clear H; unfold in_window, m_window, m_close, m_slice; mb|].
    destruct (ty =? T_SOA); [intro H; inversion H; subst; clear H; unfold in_window, m_window, m_close, m_name, m_u32, c_u32; mb|].
    destruct (ty =? T_TXT); [|discriminate].
    intro H. injection H as <-. unfold m_window, m_close.
    apply mbase_bind; [apply b_window|intros _].
    apply mbase_bind; [exact (b_txt_loop (S (N.to_nat rdlen)) rdlen [])|intros t]. mb.
  Qed.

  (* reader operations keep [base] of the reader's cursor *)
  Definition rbase {X} (r : reader) (p : reader * res X) : Prop := base (r_cur (fst p)) = base (r_cur r).

  Lemma rbase_run {X} r (m : M X) : mbase m -> rbase r (run r m).
  Proof. intro Hm. unfold run, rbase. specialize (Hm (r_cur r)). destruct (m (r_cur r)); cbn in *. assumption. Qed.
  Lemma rbase_latch {X} r (p : reader * res X) : rbase r p -> rbase r (latch p).
  Proof. unfold latch, rbase. destruct p as [r1 x]; destruct x; cbn; tauto. Qed.
  Lemma rbase_bind2 {X Y} r (p : reader * res X) (f : reader -> X -> reader * res Y) :
    rbase r p -> (forall r1 x, rbase r1 (f r1 x)) -> rbase r (bind2 p f).
  Proof.
    unfold bind2, rbase. destruct p as [r1 x]; cbn. intros Hp Hf. destruct x; cbn; try assumption.
    rewrite Hf. assumption.
  Qed.
  Lemma rbase_refl {X} r (x : res X) : rbase r (r, x). Proof. reflexivity. Qed.
  Lemma rbase_set_done {X} r (x : res X) : rbase r (set_done r, x). Proof. reflexivity. Qed.

  Lemma b_read_header : mbase (read_header msg).
  Proof.
    intro c. unfold read_header. destruct (header_read_guard _); [|reflexivity].
    revert c. change (mbase (do* id <- lift (fun c => c_be_unchecked msg c 2);
       do* fl <- lift (fun c => c_be_unchecked msg c 2);
       do* qd <- lift (fun c => c_be_unchecked msg c 2);
       do* an <- lift (fun c => c_be_unchecked msg c 2);
       do* ns <- lift (fun c => c_be_unchecked msg c 2);
       do* ar <- lift (fun c => c_be_unchecked msg c 2);
       mret (mkHeader id fl qd an ns ar))). mb.
  Qed.

  Lemma rbase_header r : rbase r (rd_header msg r).
  Proof.
    unfold rd_header. apply rbase_latch. pose proof (rbase_run r (read_header msg) b_read_header) as H.
    destruct (run r (read_header msg)) as [r1 h]. unfold rbase in *; cbn in *. destruct h; cbn; assumption.
  Qed.

  Lemma b_m_question : mbase (m_question msg). Proof. unfold m_question, c_u16. mb. Qed.
  Lemma b_m_question_ref : mbase (m_question_ref msg).
  Proof.
    intro c. unfold m_question_ref, c_u16.
    assert (H : mbase (do* _ <- lift_c (skip_name msg); do* qt <- lift (fun c0 => c_be msg c0 2);
                       do* qc <- lift (fun c0 => c_be msg c0 2); mret (OQuestionRef c qt qc))) by mb.
    apply H.
  Qed.
  Lemma rbase_after_question r p : rbase r p -> rbase r (after_question p).
  Proof.
    unfold after_question, rbase. destruct p as [r1 o]; cbn. intro H.
    destruct o; cbn; try assumption. destruct (question_read _ _); cbn; assumption.
  Qed.
  Lemma rbase_question single as_ref r : rbase r (rd_question msg single as_ref r).
  Proof.
    unfold rd_question. destruct (r_done r); [reflexivity|].
    destruct (questions_left (r_tr r)); try reflexivity.
    match goal with |- context [if ?b then _ else _] => destruct b end; [reflexivity|].
    apply rbase_after_question, rbase_run. destruct as_ref; [apply b_m_question_ref|apply b_m_question].
  Qed.

  Lemma b_m_skip_question : mbase (m_skip_question msg). Proof. unfold m_skip_question. mb. Qed.
  Lemma rbase_skip_questions_loop fuel : forall r, rbase r (skip_questions_loop msg fuel r).
  Proof.
    induction fuel as [|f IH]; intros r; cbn [skip_questions_loop]; [reflexivity|].
    destruct (questions_left (r_tr r)); try reflexivity.
    destruct (0 <? a); [|reflexivity].
    pose proof (rbase_run r (m_skip_question msg) b_m_skip_question) as H.
    destruct (run r (m_skip_question msg)) as [r1 x]. unfold rbase in *; cbn in H.
    destruct x; try assumption.
    destruct (question_read _ _); try assumption. rewrite IH. cbn. assumption.
  Qed.
  Lemma rbase_unit_obs r p : rbase r p -> rbase r (unit_obs p).
  Proof. unfold unit_obs, rbase. destruct p; cbn; tauto. Qed.
  Lemma rbase_rd_skip_questions r : rbase r (rd_skip_questions msg r).
  Proof.
    unfold rd_skip_questions. destruct (r_done r); [reflexivity|].
    apply rbase_latch, rbase_unit_obs, rbase_skip_questions_loop.
  Qed.
  Lemma rbase_calc_section r : rbase r (calc_section r).
  Proof. unfold calc_section. destruct (next_section _ _). reflexivity. Qed.
  Lemma b_raw_marker p s : mbase (m_raw_marker msg p s).
  Proof.
    intro c0. unfold m_raw_marker, c_u16, c_u32.
    assert (H : mbase (do* ty <- lift (fun c => c_be msg c 2); do* cl <- lift (fun c => c_be msg c 2);
                       do* ttl <- lift (fun c => c_be msg c 4); do* rdlen <- lift (fun c => c_be msg c 2);
                       mret (mkMarker p (pos c0) ty cl ttl rdlen s))) by mb.
    apply H.
  Qed.
  Lemma rbase_marker_impl r : rbase r (marker_impl msg r).
  Proof.
    unfold marker_impl. apply rbase_bind2; [apply rbase_calc_section|]. intros r1 s. apply rbase_run.
    apply mbase_bind; [apply b_skip_name|intros _]. apply b_raw_marker.
  Qed.
  Lemma rbase_rd_marker r : rbase r (rd_marker msg r).
  Proof.
    unfold rd_marker. destruct (r_done r); [reflexivity|]. apply rbase_latch.
    apply rbase_bind2; [apply rbase_marker_impl|]. intros; reflexivity.
  Qed.
  Lemma rbase_rd_header_ref r : rbase r (rd_header_ref msg r).
  Proof.
    unfold rd_header_ref. destruct (r_done r); [reflexivity|]. apply rbase_latch. unfold header_ref_impl.
    apply rbase_bind2; [apply rbase_calc_section|]. intros r1 s. apply rbase_run.
    apply mbase_bind; [apply b_skip_name|intros _]. apply mbase_bind; [apply b_raw_marker|intros ?]. apply mbase_ret.
  Qed.
  Lemma rbase_rd_header_n nk r : rbase r (rd_header_n msg nk r).
  Proof.
    unfold rd_header_n. destruct (r_done r); [reflexivity|]. apply rbase_latch. unfold header_n_impl.
    apply rbase_bind2; [apply rbase_calc_section|]. intros r1 s. apply rbase_run.
    apply mbase_bind; [apply b_read_name|intros ?]. apply mbase_bind; [apply b_raw_marker|intros ?]. apply mbase_ret.
  Qed.
  Lemma rbase_after_data mk r p : rbase r p -> rbase r (after_data mk p).
  Proof.
    unfold after_data, rbase. destruct p as [r1 o]; cbn. intro H.
    destruct o; cbn; try assumption. destruct (section_read _ _ _); cbn; assumption.
  Qed.
  Lemma rbase_skip_record_data_impl mk r : rbase r (skip_record_data_impl mk r).
  Proof. unfold skip_record_data_impl. apply rbase_after_data, rbase_run. mb. Qed.
  Lemma rbase_rd_skip_data mk r : rbase r (rd_skip_data mk r).
  Proof.
    unfold rd_skip_data. destruct (negb _); [reflexivity|]. destruct (r_done r); [reflexivity|]. apply rbase_skip_record_data_impl.
  Qed.
  Lemma rbase_rd_data_bytes mk r : rbase r (rd_data_bytes msg mk r).
  Proof.
    unfold rd_data_bytes. destruct (negb _); [reflexivity|]. destruct (r_done r); [reflexivity|].
    apply rbase_after_data, rbase_run. apply (b_slice (fun off bs => OBytes off bs)).
  Qed.
  Lemma rbase_rd_data ty mk r : rbase r (rd_data msg ty mk r).
  Proof.
    unfold rd_data. destruct (read_rdata msg ty (m_rdlen mk)) as [m|] eqn:E; [|reflexivity].
    destruct (negb _); [reflexivity|]. destruct (r_done r); [reflexivity|].
    apply rbase_after_data, rbase_run. apply mbase_bind; [eapply b_read_rdata; eassumption|intros d; apply mbase_ret].
  Qed.
  Lemma rbase_rd_opt mk r : rbase r (rd_opt mk r).
  Proof.
    unfold rd_opt. destruct (r_done r); [reflexivity|]. destruct (negb (pos _ =? _)); [reflexivity|].
    destruct (negb (m_rtype mk =? T_OPT)); [reflexivity|]. apply rbase_after_data, rbase_run. mb.
  Qed.
  Lemma rbase_skip_section_loop fuel s : forall r, rbase r (skip_section_loop msg fuel s r).
  Proof.
    induction fuel as [|f IH]; intros r; cbn [skip_section_loop]; [reflexivity|].
    destruct (records_left_in (r_tr r) s); try reflexivity. destruct (0 <? a); [|reflexivity].
    apply rbase_bind2; [apply rbase_marker_impl|]. intros r1 mk.
    apply rbase_bind2; [apply rbase_skip_record_data_impl|]. intros r2 _. apply IH.
  Qed.
  Lemma rbase_seek_impl s r : rbase r (seek_impl msg s r).
  Proof.
    unfold seek_impl. apply rbase_bind2; [apply rbase_skip_questions_loop|]. intros r1 _.
    destruct s as [|p]; [reflexivity|].
    destruct p; try (apply rbase_bind2; [apply rbase_skip_section_loop|]; intros r2 _; apply rbase_skip_section_loop).
    apply rbase_skip_section_loop.
  Qed.
  Lemma rbase_rd_seek s r : rbase r (rd_seek msg s r).
  Proof.
    unfold rd_seek. destruct (r_done r); [reflexivity|]. destruct (section_offset (r_tr r) s); [reflexivity|].
    destruct (seek_not_at_header_end _); [reflexivity|]. apply rbase_latch, rbase_unit_obs, rbase_seek_impl.
  Qed.
End Base.

(* reachability by arbitrary scripts *)
Inductive reachable (msgs : list (list byte)) : world -> Prop :=
| reach_init : reachable msgs (world_init msgs)
| reach_step w ri cl : reachable msgs w -> reachable msgs (fst (step w ri cl)).

Definition winv_base (w : world) : Prop :=
  forall i m r, getN (w_msgs w) i = Some m -> getN (w_readers w) i = Some (Some r) -> base (r_cur r) = lenN m.

Lemma absorb_readers w mi o : w_readers (fst (absorb w mi o)) = w_readers w /\ w_msgs (fst (absorb w mi o)) = w_msgs w.
Proof. unfold absorb. destruct o as [v| | | | |]; cbn; auto. destruct v; cbn; auto. Qed.

Lemma step_msgs w ri cl : w_msgs (fst (step w ri cl)) = w_msgs w.
Proof.
  unfold step. destruct (getN (w_msgs w) ri); [|reflexivity]. destruct (getN (w_readers w) ri) as [[r|]|]; try reflexivity.
  destruct cl; cbn zeta;
    repeat match goal with
    | |- context [let (_, _) := absorb ?a ?b ?c in _] => let H := fresh in pose proof (absorb_readers a b c) as H; destruct (absorb a b c); cbn in H |- *; destruct H as [_ H]; try exact H
    | |- context [match getN ?l ?k with _ => _ end] => destruct (getN l k) as [[? ?]|]; try reflexivity
    | |- context [match getN ?l ?k with _ => _ end] => destruct (getN l k); try reflexivity
    | |- context [if ?b then _ else _] => destruct b; try reflexivity
    | |- w_msgs (fst (absorb ?a ?b ?c)) = _ => apply absorb_readers
    end.
Qed.

Lemma step_base w ri cl : winv_base w -> winv_base (fst (step w ri cl)).
Proof.
  intro Hw. unfold step.
  destruct (getN (w_msgs w) ri) as [msg|] eqn:Em; [|assumption].
  destruct (getN (w_readers w) ri) as [[r|]|] eqn:Er; try assumption.
  assert (Hb : base (r_cur r) = lenN msg) by (eapply Hw; eassumption).
  assert (Hmut : forall p : reader * res obs, rbase r p ->
            winv_base (fst (let (w1, o) := absorb (set_reader w ri (fst p)) ri (snd p) in (w1, o)))).
  { intros [r' o] Hr. unfold rbase in Hr; cbn in Hr. cbn [fst snd].
    pose proof (absorb_readers (set_reader w ri r') ri o) as [H1 H2].
    destruct (absorb (set_reader w ri r') ri o) as [w1 o1]. cbn [fst snd] in *.
    intros j m' r'' Hm' Hr''. rewrite H2 in Hm'. rewrite H1 in Hr''. unfold set_reader in Hm', Hr''. cbn [w_msgs w_readers] in Hm', Hr''.
    rewrite (getN_set _ _ _ _ _ Er) in Hr''. destruct (j =? ri) eqn:E.
    - apply N.eqb_eq in E. subst. inversion Hr''; subst. assert (m' = msg) by congruence. subst. congruence.
    - eapply Hw; eassumption. }
  assert (Hpure : forall o : res obs, winv_base (fst (absorb w ri o))).
  { intro o. pose proof (absorb_readers w ri o) as [H1 H2]. intros j m' r'' Hm' Hr''. rewrite H2 in Hm'. rewrite H1 in Hr''. eapply Hw; eassumption. }
  assert (Hmk : forall k (f : marker -> world * res sobs), (forall mk, winv_base (fst (f mk))) ->
            winv_base (fst (match getN (w_markers w) (if k =? 99999 then lenN (w_markers w) - 1 else k) with
                            | Some mk => f mk | None => (w, Ok SNoSuch) end))).
  { intros k f Hf. destruct (getN (w_markers w) _); [apply Hf|assumption]. }
  destruct cl; cbn zeta; try (apply Hpure); try (apply Hmk; intro mk; try apply Hpure).
  - apply Hmut, rbase_header.
  - apply Hmut, rbase_rd_seek.
  - apply Hmut, rbase_question.
  - apply Hmut, rbase_question.
  - apply Hmut, rbase_question.
  - apply Hmut, rbase_question.
  - apply Hmut, rbase_rd_skip_questions.
  - apply Hmut, rbase_rd_marker.
  - apply Hmut, rbase_rd_header_ref.
  - apply Hmut, rbase_rd_header_n.
  - apply Hmut, rbase_rd_skip_data.
  - apply Hmut, rbase_rd_data_bytes.
  - apply Hmut, rbase_rd_data.
  - apply Hmut, rbase_rd_opt.
  - apply Hmut. destruct (m_rtype mk =? T_OPT); [apply rbase_rd_opt|apply rbase_rd_skip_data].
  - destruct (getN (w_nrefs w) _) as [[mi c1]|]; [|assumption]. destruct (getN (w_msgs w) mi); [|assumption].
    destruct (getN (w_nrefs w) _) as [[mj c2]|]; [|assumption]. destruct (mi =? mj); assumption.
  - destruct (getN (w_nrefs w) _) as [[mi c1]|]; [|assumption]. destruct (getN (w_msgs w) mi); assumption.
  - destruct (getN (w_nrefs w) _) as [[mi c1]|]; [|assumption]. destruct (getN (w_msgs w) mi); assumption.
Qed.

Lemma winv_base_init msgs : winv_base (world_init msgs).
Proof.
  intros i m r Hm Hr. cbn in *. rewrite getN_map, Hm in Hr. cbn in Hr. unfold reader_new in Hr.
  destruct (msg_too_long _); [discriminate|]. inversion Hr; subst. reflexivity.
Qed.

Lemma reachable_base msgs w : reachable msgs w -> winv_base w.
Proof. induction 1; [apply winv_base_init|apply step_base; assumption]. Qed.

(* the cursor random access starts from: whole message, marker's data position, no window *)
Definition at_cursor (msg : list byte) (mk : marker) : cursor := mkCursor (lenN msg) (rdata_pos mk) None.

Definition raw_pure (msg : list byte) (mk : marker) : res obs :=
  let* (off, bs, _) := c_slice msg (at_cursor msg mk) (m_rdlen mk) in Ok (OBytes off bs).
Definition rdata_pure (msg : list byte) (ty : N) (mk : marker) : res obs :=
  match read_rdata msg ty (m_rdlen mk) with
  | None => Ok OUnit
  | Some m => let* d := snd (m (at_cursor msg mk)) in Ok (ORData d)
  end.

Theorem at_pure msgs w i msg r mk :
  reachable msgs w -> getN (w_msgs w) i = Some msg -> getN (w_readers w) i = Some (Some r) ->
  rd_bytes_at msg mk r = raw_pure msg mk /\
  (forall ty, rd_data_at msg ty mk r = rdata_pure msg ty mk) /\
  rd_name_ref_at mk r = Ok (ONameRef (at_cursor msg mk)).
Proof.
  intros Hr Hm Hrd. pose proof (reachable_base _ _ Hr _ _ _ Hm Hrd) as Hb.
  assert (Hc : forall p, c_clone_with_pos (r_cur r) p = mkCursor (lenN msg) p None).
  { intro p. unfold c_clone_with_pos. f_equal. exact Hb. }
  unfold rd_bytes_at, rd_data_at, rd_name_ref_at, raw_pure, rdata_pure, at_cursor. rewrite !Hc. repeat split.
Qed.
