(* Proofs/EndToEnd.v — RecordSet::<D>::from_msg on a well-formed response, end to end, stated on the
   SEMANTIC description of the message (Proofs/MessageRT.v): one question and records standing back
   to back behind a header that announces them (owner names in any legal compression, values of any
   of the 17 types).  If answer records with the question's name (case-insensitively), the requested
   type and the question's class exist, from_msg returns exactly their values, in wire order, with
   the question's decoded name, its class and the minimum of their TTLs — records of other owners,
   types or classes and the records of the authority and additional sections do not get in.
   Composition of: MessageRT (the pass finds the standing items), ReaderRefine/FromMsgRefine (the
   reader hands exactly the answer headers to the chase), NameRefEq (NameRef::eq is equality of the
   decoded names), Chase (what the chase returns), RDataRT (the typed decode is the value). *)
From Coq Require Import ZArith.
From RsdnsModel Require Import Base GenConst GenCursor GenHeader GenTypes GenTracker GenReader GenSpec Cursor Names Labels Header Tracker RData Reader RecordSet Writer Iter.
From RsdnsModel.Spec Require Import WireName LinearPass RDataWire.
From RsdnsModel.Proofs Require Import CursorSafe ListN LabelsSound LabelsComplete SpecExec ParseSpec WriterLayout RoundTrip RecordRT RDataRT NameRefEq TrackerRefine ReaderTotal ReaderRefine Chase FromMsgRefine MessageRT.
From Coq Require Import ZifyBool ZifyN ZifyNat.
Open Scope N_scope.

(* the value of a typed record (raw records have none: they never match a typed request's decode) *)
Definition sval (d : sdata) : rdata := match d with SVal a => rdata_val a | SRaw _ => RD_Null [] end.
Definition typed (x : srecord) : Prop := match sr_data x with SVal _ => True | SRaw _ => False end.
(* the first OPT record of a list of records: its CLASS and TTL are the EDNS fields *)
Fixpoint sem_first_opt (l : list srecord) : option opt :=
  match l with
  | [] => None
  | x :: l' => if sr_type x =? T_OPT then Some (opt_from_msg (sr_class x) (sr_ttl x)) else sem_first_opt l'
  end.

Section E.
  Variable msg : list byte.
  Variables (q : squestion) (rs : list srecord) (an ns ar e1 e2 : N) (h : header) (ty : N).
  Hypothesis Hlen : lenN msg <= 65535.
  Hypothesis H12 : 12 <= lenN msg.
  Hypothesis Hq : questions_stand msg 12 [q] e1.
  Hypothesis Hr : records_stand msg e1 rs e2.
  Hypothesis Hcnt : lenN rs = an + ns + ar.
  Hypothesis Ban : an <= 65535.
  Hypothesis Bns : ns <= 65535.
  Hypothesis Bar : ar <= 65535.
  Hypothesis Hrh : read_header msg (c_new msg) = (c_set_pos (c_new msg) 12, Ok h).
  Hypothesis Hh : h_qd h = 1 /\ h_an h = an /\ h_ns h = ns /\ h_ar h = ar.
  Hypothesis Hqr : flag_qr (h_flags h) = true.
  Hypothesis Htc : flag_tc (h_flags h) = false.
  (* the records of the answer section are described by their values (authority and additional records may be
     anything: OPT, types without a decoder, raw octets) *)
  Hypothesis Htyped : Forall typed (firstn (N.to_nat an) rs).

  Definition text_of_labels (ls : list (N * list byte)) : list byte := join_labels (map snd ls).
  Definition qtext : list byte := text_of_labels (sq_labels q).
  (* the semantic test the chase applies to an answer record *)
  Definition sem_match (x : srecord) : bool :=
    name_eq (text_of_labels (sr_labels x)) qtext && ((sr_type x =? ty) && (sr_class x =? sq_class q)).

  (* ---- a name that stands decodes to its text, from a whole-message cursor ---- *)
  Lemma stands_decodes p ls r : name_stands msg p ls r ->
    exists c', read_name msg Heap (c_with_pos msg p) = Ok (text_of_labels ls, c').
  Proof.
    intros (Hex & Hres & Hok & Hw).
    assert (Hwh : whole msg (c_with_pos msg p)) by (split; reflexivity).
    pose proof (whole_vis msg _ Hwh) as Hv.
    destruct (read_name_complete msg Heap (c_with_pos msg p) ls (whole_cwf msg _ Hwh) ltac:(rewrite Hv; exact Hex) Hok Hw) as (c' & E & _).
    eauto.
  Qed.

  Lemma qname_decodes : exists c', read_name msg Heap (c_with_pos msg 12) = Ok (qtext, c').
  Proof.
    inversion Hq as [|p q0 e rest e' Hqs Hrest]; subst. destruct Hqs as (r & pre & post & Hn & _).
    exact (stands_decodes _ _ _ Hn).
  Qed.

  (* ---- the headers the chase gets, written over the semantic records ---- *)
  Definition sem_hdr (p : N) (x : srecord) (e k : N) : hdr :=
    let rdl := lenN (sdata_enc (sr_data x)) in
    Some (c_with_pos msg p, mkMarker p (e - 10 - rdl) (sr_type x) (sr_class x) (sr_ttl x) rdl (section_of (lin 1 an ns ar) k)).
  Fixpoint sem_hdrs (n : nat) (p : N) (l : list srecord) (ends : list N) (k : N) : list hdr :=
    match n, l, ends with
    | S m, x :: l', e :: ends' => sem_hdr p x e k :: sem_hdrs m e l' ends' (k + 1)
    | _, _, _ => []
    end.

  Section WithReader.
    Variable r4 : reader.
    Hypothesis Hw4 : whole msg (r_cur r4).
    Notation IM := (is_match msg (sq_class q)).

    Lemma is_match_sem p x e k want : record_stands msg p x e ->
      IM want (c_with_pos msg 12) (sem_hdr p x e k) =
      name_eq (text_of_labels (sr_labels x)) qtext && ((sr_type x =? want) && (sr_class x =? sq_class q)).
    Proof.
      intros (r & pre & post & Hn & _). unfold sem_hdr, is_match. cbn [m_rtype m_rclass].
      destruct (stands_decodes _ _ _ Hn) as [c1 E1]. destruct qname_decodes as [c2 E2].
      assert (Hw1 : whole msg (c_with_pos msg p)) by (split; reflexivity).
      assert (Hw2 : whole msg (c_with_pos msg 12)) by (split; reflexivity).
      rewrite (nameref_eq_is_decoded_eq msg Heap _ _ _ _ _ _ (whole_cwf msg _ Hw1) (whole_cwf msg _ Hw2)
                 ltac:(rewrite (whole_vis msg _ Hw1), (whole_vis msg _ Hw2); reflexivity) E1 E2).
      destruct (name_eq _ _); reflexivity.
    Qed.

    Lemma data_of_sem p x e k : record_stands msg p x e -> typed x -> sr_type x = ty ->
      data_of msg ty r4 (sem_hdr p x e k) (sval (sr_data x)).
    Proof.
      intros Hs Htp Hty. unfold sem_hdr, data_of, rd_data_at. cbn [m_rdlen].
      assert (Hwc : whole msg (c_with_pos msg (a_type_off (ritem p x e) + 10))) by (split; reflexivity).
      unfold typed in Htp. destruct (sr_data x) as [a|bs] eqn:Edat; [|contradiction]. cbn [sval].
      destruct (standing_record_decodes msg p x e _ a Hs Edat Hwc eq_refl) as (m & Em & Ed). rewrite <- Edat.
      cbn [ritem a_rdlen] in Em. rewrite <- Hty. rewrite Em.
      assert (Ecl : c_clone_with_pos (r_cur r4) (rdata_pos (mkMarker p (e - 10 - lenN (sdata_enc (sr_data x))) (sr_type x) (sr_class x) (sr_ttl x)
                       (lenN (sdata_enc (sr_data x))) (section_of (lin 1 an ns ar) k))) = c_with_pos msg (a_type_off (ritem p x e) + 10)).
      { destruct Hw4 as [Hl Ho]. unfold c_clone_with_pos, rdata_pos, c_with_pos. rewrite Ho, Hl. cbn [m_type_off ritem a_type_off].
        unfold TYPE_TO_RDATA_OFFSET. reflexivity. }
      rewrite Ecl, Ed. reflexivity.
    Qed.

    (* the chase's filter over the headers = the semantic filter over the records *)
    Lemma filter_sem : forall n p l ends k, rstands msg p l ends -> Forall typed (firstn n l) ->
      cmp_ok msg (c_with_pos msg 12) (sem_hdrs n p l ends k) /\
      Forall2 (data_of msg ty r4) (filter (IM ty (c_with_pos msg 12)) (sem_hdrs n p l ends k))
              (map (fun x => sval (sr_data x)) (filter sem_match (firstn n l))) /\
      map hdr_ttl (filter (IM ty (c_with_pos msg 12)) (sem_hdrs n p l ends k)) = map sr_ttl (filter sem_match (firstn n l)).
    Proof.
      induction n as [|n IH]; intros p l ends k Hs Htp; [cbn; split; [constructor|split; [constructor|reflexivity]]|].
      destruct l as [|x l]; destruct ends as [|e ends]; cbn [rstands] in Hs; try contradiction;
        [cbn; split; [constructor|split; [constructor|reflexivity]]|].
      destruct Hs as [Hx Hrest]. cbn [firstn] in Htp. inversion Htp as [|? ? Htx Htl]; subst. cbn [sem_hdrs firstn filter].
      destruct (IH e l ends (k + 1) Hrest Htl) as (I1 & I2 & I3).
      pose proof (is_match_sem p x e k ty Hx) as Hm. fold (sem_match x) in Hm. rewrite Hm.
      split.
      - constructor; [|exact I1]. unfold sem_hdr.
        destruct Hx as (r & pre & post & Hn & _). destruct (stands_decodes _ _ _ Hn) as [c1 E1]. destruct qname_decodes as [c2 E2].
        assert (Hw1 : whole msg (c_with_pos msg p)) by (split; reflexivity).
        assert (Hw2 : whole msg (c_with_pos msg 12)) by (split; reflexivity).
        eexists. apply (nameref_eq_is_decoded_eq msg Heap _ _ _ _ _ _ (whole_cwf msg _ Hw1) (whole_cwf msg _ Hw2)
                 ltac:(rewrite (whole_vis msg _ Hw1), (whole_vis msg _ Hw2); reflexivity) E1 E2).
      - destruct (sem_match x) eqn:Es.
        + cbn [map]. split; [constructor; [|exact I2]|cbn [hdr_ttl sem_hdr m_ttl]; f_equal; exact I3].
          apply data_of_sem; [exact Hx|exact Htx|]. unfold sem_match in Es. lia.
        + split; assumption.
    Qed.
  End WithReader.

  (* ---- alignment: the headers from_msg collects are the semantic headers of the answer section ---- *)
  Lemma hdrs_align qs' rs' : lenN qs' = 1 ->
    forall n p l ends k, (forall j, getN rs' (k + j) = getN (ritems p l ends) j) -> (n <= length l)%nat -> length ends = length l ->
    hdrs msg 1 an ns ar qs' rs' e2 n k = sem_hdrs n p l ends k.
  Proof.
    intros Hq1. induction n as [|n IH]; intros p l ends k Hal Hn Hle; [reflexivity|].
    destruct l as [|x l]; [cbn in Hn; lia|]. destruct ends as [|e ends]; [cbn in Hle; lia|].
    cbn [hdrs sem_hdrs]. pose proof (Hal 0) as H0. rewrite N.add_0_r in H0. cbn [ritems] in H0. rewrite getN_cons_0 in H0. rewrite H0.
    f_equal.
    - unfold hdr_of, sem_hdr, mk_of, PP, P, items. rewrite getN_app_r by lia. replace (1 + k - lenN qs') with k by lia. rewrite H0.
      cbn [ritem a_start a_type_off a_type a_class a_ttl a_rdlen]. replace (1 + k - 1) with k by lia. reflexivity.
    - apply (IH e l ends (k + 1)); [|cbn in Hn; lia|cbn in Hle; lia].
      intro j. cbn [ritems] in Hal. replace (k + 1 + j) with (k + (j + 1)) by lia. rewrite (Hal (j + 1)).
      unfold getN. replace (N.to_nat (j + 1)) with (S (N.to_nat j)) by lia. reflexivity.
  Qed.

  (* the OPT record from_msg consults = the first OPT among the semantic records behind the answers *)
  Lemma first_opt_align : forall l p ends k rs', rstands msg p l ends ->
    (forall j, getN rs' (k + j) = getN (ritems p l ends) j) -> first_opt rs' (length l) k = sem_first_opt l.
  Proof.
    induction l as [|x l IH]; intros p ends k rs' Hs Hal; [reflexivity|].
    destruct ends as [|e ends]; cbn [rstands] in Hs; [contradiction|]. destruct Hs as [Hx Hrest].
    cbn [length first_opt sem_first_opt]. pose proof (Hal 0) as H0. rewrite N.add_0_r in H0. cbn [ritems] in H0. rewrite H0.
    change (getN (ritem p x e :: ritems e l ends) 0) with (Some (ritem p x e)). cbn [ritem a_type a_class a_ttl].
    destruct (sr_type x =? T_OPT); [reflexivity|].
    apply (IH e ends (k + 1) rs' Hrest). intro j. cbn [ritems] in Hal. replace (k + 1 + j) with (k + (j + 1)) by lia. rewrite (Hal (j + 1)).
    unfold getN. replace (N.to_nat (j + 1)) with (S (N.to_nat j)) by lia. reflexivity.
  Qed.

  (* the 12-bit response code, on the semantic records *)
  Definition sem_rcode : N :=
    match sem_first_opt (skipn (N.to_nat an) rs) with
    | Some o => rcode_extended (flag_rcode (h_flags h)) (opt_ext o)
    | None => flag_rcode (h_flags h)
    end.

  Lemma stands_skip : forall m p l ends, rstands msg p l ends ->
    exists p', rstands msg p' (skipn m l) (skipn m ends) /\
      forall j, getN (ritems p l ends) (N.of_nat m + j) = getN (ritems p' (skipn m l) (skipn m ends)) j.
  Proof.
    induction m as [|m IH]; intros p l ends Hs; [exists p; split; [exact Hs|intro j; reflexivity]|].
    destruct l as [|x l]; destruct ends as [|e ends]; cbn [rstands] in Hs; try contradiction.
    - exists p. cbn [skipn]. split; [exact I|]. intro j. cbn [ritems]. unfold getN.
      destruct (N.to_nat (N.of_nat (S m) + j)); destruct (N.to_nat j); reflexivity.
    - destruct Hs as [_ Hrest]. destruct (IH e l ends Hrest) as (p' & S' & G'). exists p'. cbn [skipn]. split; [exact S'|].
      intro j. cbn [ritems]. rewrite <- G'. unfold getN. replace (N.to_nat (N.of_nat (S m) + j)) with (S (N.to_nat (N.of_nat m + j))) by lia. reflexivity.
  Qed.

  Lemma the_rcode_sem rends : rstands msg e1 rs rends -> the_rcode an ns ar (ritems e1 rs rends) h = sem_rcode.
  Proof.
    intro Sr. unfold the_rcode, the_opt, sem_rcode.
    destruct (stands_skip (N.to_nat an) e1 rs rends Sr) as (p' & S' & G').
    assert (Hl : length (skipn (N.to_nat an) rs) = N.to_nat (ns + ar)) by (rewrite skipn_length; unfold lenN in Hcnt; lia).
    rewrite <- Hl. rewrite (first_opt_align _ p' _ an (ritems e1 rs rends) S'); [reflexivity|].
    intro j. rewrite <- G'. f_equal. lia.
  Qed.

  (* ---- the theorem ---- *)
  Theorem from_msg_direct_answers x xs :
    filter sem_match (firstn (N.to_nat an) rs) = x :: xs -> sem_rcode = 0 ->
    from_msg msg ty =
    Ok (mkRRset qtext (sq_class q)
          (fold_left N.min (map sr_ttl (x :: xs)) 4294967295)
          (map (fun y => sval (sr_data y)) (x :: xs))).
  Proof.
    intros Hhits Hrc0.
    destruct (message_parsed msg 1 an ns ar [q] rs e1 e2 Hlen H12 Hq Hr eq_refl Hcnt ltac:(lia) Ban Bns Bar)
      as (qends & rends & Hp & L1 & L2 & Sq & Sr).
    destruct qends as [|qe qends]; [cbn in L1; discriminate|].
    destruct (from_msg_spec msg 1 an ns ar _ _ e1 e2 Hp L1 L2 h Hrh Hh ty (qitem 12 q qe) eq_refl eq_refl Hqr Htc) as (r4 & Hw4 & E).
    assert (Hrc : the_rcode an ns ar (ritems e1 rs rends) h = 0) by (rewrite (the_rcode_sem rends Sr); exact Hrc0).
    rewrite E. rewrite Hrc. cbn [N.eqb negb]. cbv zeta. cbn [a_class qitem].
    assert (Hlr : length rends = length rs).
    { clear - Sr. revert Sr. generalize e1. generalize rends. induction rs as [|y l IH]; intros ends0 p; destruct ends0 as [|e ends]; cbn [rstands]; try tauto.
      intros [_ H]. cbn. f_equal. eapply IH. exact H. }
    assert (Hal : answer_headers msg 1 an ns ar (qitems 12 [q] (qe :: qends)) (ritems e1 rs rends) e2 = sem_hdrs (N.to_nat an) e1 rs rends 0).
    { unfold answer_headers. apply hdrs_align; [exact L1|intro j; reflexivity| |exact Hlr]. unfold lenN in Hcnt. lia. }
    rewrite Hal.
    destruct (filter_sem r4 Hw4 (N.to_nat an) e1 rs rends 0 Sr Htyped) as (F1 & F2 & F3). rewrite Hhits in F2, F3.
    set (hs := sem_hdrs (N.to_nat an) e1 rs rends 0) in *.
    pose proof (live_le_length hs) as Hlive.
    rewrite (chase_returns_matches msg ty (sq_class q) r4 (c_with_pos msg 12) hs (c_with_pos msg 12) hs
               (cok_here msg ty (sq_class q) r4 _ _) F1 _ _ F2 (S (length hs)) ltac:(lia)).
    cbn [bind]. destruct qname_decodes as [c2 E2]. rewrite E2. cbn [bind]. rewrite F3. reflexivity.
  Qed.

  (* ================================================================ the CNAME chain, semantically *)
  (* a positioned record: start offset, record, end offset, index; None once consumed by the chase *)
  Definition prec : Type := (N * srecord * N * N)%type.
  Definition phdr (o : option prec) : hdr := match o with Some (p, x, e, k) => sem_hdr p x e k | None => None end.
  Definition pstands (o : option prec) : Prop := match o with Some (p, x, e, _) => record_stands msg p x e /\ typed x | None => True end.
  (* owner equals the current name t (case-insensitively), type as wanted, class of the question *)
  Definition smatch (want : N) (t : list byte) (o : option prec) : bool :=
    match o with
    | Some (_, x, _, _) => name_eq (text_of_labels (sr_labels x)) t && ((sr_type x =? want) && (sr_class x =? sq_class q))
    | None => false
    end.
  Definition pval (o : option prec) : rdata := match o with Some (_, x, _, _) => sval (sr_data x) | None => RD_A 0 end.
  Definition pttl (o : option prec) : N := match o with Some (_, x, _, _) => sr_ttl x | None => 0 end.
  Fixpoint precs (n : nat) (p : N) (l : list srecord) (ends : list N) (k : N) : list (option prec) :=
    match n, l, ends with
    | S m, x :: l', e :: ends' => Some (p, x, e, k) :: precs m e l' ends' (k + 1)
    | _, _, _ => []
    end.
  Lemma precs_hdrs : forall n p l ends k, map phdr (precs n p l ends k) = sem_hdrs n p l ends k.
  Proof. induction n as [|n IH]; intros p l ends k; [reflexivity|]. destruct l, ends; try reflexivity. cbn [precs sem_hdrs map phdr]. f_equal. apply IH. Qed.
  Lemma precs_stand : forall n p l ends k, rstands msg p l ends -> Forall typed (firstn n l) -> Forall pstands (precs n p l ends k).
  Proof.
    induction n as [|n IH]; intros p l ends k Hs Htp; [constructor|]. destruct l as [|x l]; destruct ends as [|e ends]; cbn [rstands] in Hs; try contradiction; [constructor|].
    destruct Hs as [Hx Hrest]. cbn [firstn] in Htp. inversion Htp; subst. cbn [precs]. constructor; [split; assumption|apply IH; assumption].
  Qed.

  (* the name at offset pn decodes to the text t *)
  Definition decodes (pn : N) (t : list byte) : Prop := exists c', read_name msg Heap (c_with_pos msg pn) = Ok (t, c').

  (* the chain over the semantic records: at a name with no record of the requested type follow the
     FIRST live CNAME record for it, consume it, continue at its target *)
  Inductive schain : N -> list byte -> list (option prec) -> N -> list byte -> list (option prec) -> Prop :=
  | sc_here pn t os : schain pn t os pn t os
  | sc_hop pn t (pre : list (option prec)) p x e k (post : list (option prec)) ls pn' t' os' :
      filter (smatch ty t) (pre ++ Some (p, x, e, k) :: post) = [] ->
      Forall (fun o => smatch T_CNAME t o = false) pre ->
      smatch T_CNAME t (Some (p, x, e, k)) = true ->
      sr_data x = SVal (A_Name T_CNAME ls) ->
      schain (e - lenN (sdata_enc (sr_data x))) (join_labels ls) (pre ++ None :: post) pn' t' os' ->
      schain pn t (pre ++ Some (p, x, e, k) :: post) pn' t' os'.

  Section WithReader2.
    Variable r4 : reader.
    Hypothesis Hw4 : whole msg (r_cur r4).
    Notation IM := (is_match msg (sq_class q)).

    Lemma is_match_at pn t want o : decodes pn t -> pstands o ->
      IM want (c_with_pos msg pn) (phdr o) = smatch want t o.
    Proof.
      intros [c2 E2] Hs. destruct o as [[[[p x] e] k]|]; [|reflexivity]. cbn [phdr pstands smatch] in *.
      destruct Hs as [(r & pre & post & Hn & _) _]. unfold sem_hdr, is_match. cbn [m_rtype m_rclass].
      destruct (stands_decodes _ _ _ Hn) as [c1 E1].
      assert (Hw1 : whole msg (c_with_pos msg p)) by (split; reflexivity).
      assert (Hw2 : whole msg (c_with_pos msg pn)) by (split; reflexivity).
      rewrite (nameref_eq_is_decoded_eq msg Heap _ _ _ _ _ _ (whole_cwf msg _ Hw1) (whole_cwf msg _ Hw2)
                 ltac:(rewrite (whole_vis msg _ Hw1), (whole_vis msg _ Hw2); reflexivity) E1 E2).
      destruct (name_eq _ _); reflexivity.
    Qed.

    Lemma cmp_ok_at pn t os : decodes pn t -> Forall pstands os -> cmp_ok msg (c_with_pos msg pn) (map phdr os).
    Proof.
      intros [c2 E2] Hs. induction Hs as [|o os Ho _ IH]; [constructor|]. cbn [map]. constructor; [|exact IH].
      destruct o as [[[[p x] e] k]|]; [|exact I]. cbn [phdr pstands] in *. unfold sem_hdr.
      destruct Ho as [(r & pre & post & Hn & _) _]. destruct (stands_decodes _ _ _ Hn) as [c1 E1].
      assert (Hw1 : whole msg (c_with_pos msg p)) by (split; reflexivity).
      assert (Hw2 : whole msg (c_with_pos msg pn)) by (split; reflexivity).
      eexists. apply (nameref_eq_is_decoded_eq msg Heap _ _ _ _ _ _ (whole_cwf msg _ Hw1) (whole_cwf msg _ Hw2)
                 ltac:(rewrite (whole_vis msg _ Hw1), (whole_vis msg _ Hw2); reflexivity) E1 E2).
    Qed.

    Lemma filter_at pn t want os : decodes pn t -> Forall pstands os ->
      filter (IM want (c_with_pos msg pn)) (map phdr os) = map phdr (filter (smatch want t) os).
    Proof.
      intros Hd Hs. induction Hs as [|o os Ho _ IH]; [reflexivity|]. cbn [map filter].
      rewrite (is_match_at pn t want o Hd Ho). destruct (smatch want t o); cbn [map]; rewrite IH; reflexivity.
    Qed.

    Lemma data_at t os : Forall pstands os ->
      Forall2 (data_of msg ty r4) (map phdr (filter (smatch ty t) os)) (map pval (filter (smatch ty t) os)) /\
      map hdr_ttl (map phdr (filter (smatch ty t) os)) = map pttl (filter (smatch ty t) os).
    Proof.
      intro Hs. induction Hs as [|o os Ho _ [IH1 IH2]]; [split; [constructor|reflexivity]|]. cbn [filter].
      destruct (smatch ty t o) eqn:Em; [|split; assumption]. cbn [map]. destruct o as [[[[p x] e] k]|]; [|discriminate].
      cbn [phdr pval pttl pstands smatch] in *. split; [constructor; [|exact IH1]|cbn [hdr_ttl sem_hdr m_ttl]; f_equal; exact IH2].
      destruct Ho as [Ho1 Ho2]. apply (data_of_sem r4 Hw4); [exact Ho1|exact Ho2|lia].
    Qed.

    (* the target of a standing CNAME record: the name at its data offset decodes to the text of its
       value, and that is where the chase continues *)
    Lemma cname_target p x e k : record_stands msg p x e -> typed x -> sr_type x = T_CNAME ->
      exists ls, sr_data x = SVal (A_Name T_CNAME ls) /\ decodes (e - lenN (sdata_enc (sr_data x))) (join_labels ls) /\
        forall c mk, sem_hdr p x e k = Some (c, mk) ->
          c_clone_with_pos (r_cur r4) (rdata_pos mk) = c_with_pos msg (e - lenN (sdata_enc (sr_data x))).
    Proof.
      intros (r & pre & post & Hn & Hm & Hpre & Hok & Bt & Bc & Bl & Bd & ->) Htp Ht. rewrite Ht in Hok.
      unfold typed in Htp. destruct (sr_data x) as [av|bs] eqn:Edv; [|contradiction]. cbn [sdata_ok sdata_enc] in *.
      apply Bool.andb_true_iff in Hok. destruct Hok as [Hty Ha].
      unfold rdata_type_ok in Hty. destruct av as [a|a|t ls|cpu os|a pr bm|rm em|pf ex|b|mn rn s rf rt ex mi|ss] eqn:Ed;
        unfold T_CNAME, T_A, T_AAAA, T_HINFO, T_WKS, T_MINFO, T_MX, T_NULL, T_SOA, T_TXT in Hty; try (exfalso; lia).
      assert (t = T_CNAME) by (unfold T_CNAME; lia). subst t. exists ls. split; [reflexivity|].
      cbn [rdata_enc ardata_ok] in *. rewrite name_enc_is_wire in *. destruct (name_ok_split _ Ha) as [Hok Hw].
      replace (r + 10 + lenN (wire_encode ls) - lenN (wire_encode ls)) with (r + 10) by lia.
      assert (Hm3 : msg = (pre ++ fixed_wire (sr_type x) (sr_class x) (sr_ttl x) (lenN (wire_encode ls))) ++ wire_encode ls ++ post)
        by (rewrite <- app_assoc; exact Hm).
      assert (Hlen' : lenN msg = r + 10 + lenN (wire_encode ls) + lenN post).
      { rewrite Hm3 at 1. rewrite !lenN_app, lenN_fixed_wire. lia. }
      split.
      - eexists. apply (read_name_plain msg Heap _ ls post (c_with_pos msg (r + 10)) Hm3).
        + unfold cwf, c_with_pos. cbn. split; [lia|exact I].
        + cbn [pos c_with_pos]. rewrite lenN_app, lenN_fixed_wire. lia.
        + cbn [lim c_with_pos]. rewrite lenN_app, lenN_fixed_wire, <- lenN_wire_encode. lia.
        + exact Hok.
        + exact Hw.
      - intros c mk Hsh. unfold sem_hdr in Hsh. inversion Hsh; subst. destruct Hw4 as [Hl Ho].
        unfold c_clone_with_pos, rdata_pos, c_with_pos. rewrite Ho, Hl. cbn [m_type_off]. unfold TYPE_TO_RDATA_OFFSET. f_equal.
        rewrite Edv. cbn [sdata_enc rdata_enc]. change (name_enc ls) with (wire_encode ls). lia.
    Qed.

    (* the semantic chain is the chain the chase follows *)
    Lemma schain_ok pn t os pn' t' os' : schain pn t os pn' t' os' -> decodes pn t -> Forall pstands os ->
      chain_ok msg ty (sq_class q) r4 (c_with_pos msg pn) (map phdr os) (c_with_pos msg pn') (map phdr os') /\
      decodes pn' t' /\ Forall pstands os'.
    Proof.
      induction 1 as [pn t os|pn t pre p x e k post ls pn' t' os' Hf Hpre Hm Hdat Hch IH]; intros Hd Hs.
      - split; [constructor|split; assumption].
      - assert (Hs1 : Forall pstands pre /\ pstands (Some (p, x, e, k)) /\ Forall pstands post).
        { apply Forall_app in Hs. destruct Hs as [A B]. inversion B; subst. tauto. }
        destruct Hs1 as (Sp & Sx & Spo).
        assert (Htcn : sr_type x = T_CNAME) by (cbn [smatch] in Hm; lia).
        destruct Sx as [Sx1 Sx2]. destruct (cname_target p x e k Sx1 Sx2 Htcn) as (ls' & Ed & Hdec & Hclone).
        assert (ls' = ls) by congruence. subst ls'.
        assert (Hs' : Forall pstands (pre ++ None :: post)) by (apply Forall_app; split; [exact Sp|constructor; [exact I|exact Spo]]).
        destruct (IH Hdec Hs') as (C1 & C2 & C3). split; [|split; assumption].
        rewrite map_app. cbn [map phdr].
        set (c0 := c_with_pos msg p).
        set (mk0 := mkMarker p (e - 10 - lenN (sdata_enc (sr_data x))) (sr_type x) (sr_class x) (sr_ttl x) (lenN (sdata_enc (sr_data x))) (section_of (lin 1 an ns ar) k)).
        change (sem_hdr p x e k) with (Some (c0, mk0)).
        apply cok_hop.
        + pose proof (cmp_ok_at pn t _ Hd Hs) as Hc. rewrite map_app in Hc. cbn [map phdr] in Hc. exact Hc.
        + pose proof (filter_at pn t ty _ Hd Hs) as Hfl. rewrite map_app in Hfl. cbn [map phdr] in Hfl.
          rewrite Hf in Hfl. exact Hfl.
        + apply Forall_forall. intros hh Hin. apply in_map_iff in Hin. destruct Hin as (o & <- & Hin).
          rewrite (is_match_at pn t T_CNAME o Hd); [rewrite Forall_forall in Hpre; apply Hpre; exact Hin|].
          rewrite Forall_forall in Sp. apply Sp; exact Hin.
        + pose proof (is_match_at pn t T_CNAME (Some (p, x, e, k)) Hd (conj Sx1 Sx2)) as Him. cbn [phdr] in Him.
          rewrite Hm in Him. exact Him.
        + rewrite (Hclone c0 mk0 eq_refl). rewrite map_app in C1. cbn [map phdr] in C1. exact C1.
    Qed.
  End WithReader2.

  (* the end offsets of standing records are determined by the message *)
  Lemma rstands_unique : forall l p ends ends', rstands msg p l ends -> rstands msg p l ends' -> ends = ends'.
  Proof.
    induction l as [|x l IH]; intros p ends ends' H1 H2; destruct ends as [|e ends]; destruct ends' as [|e' ends']; cbn [rstands] in *; try contradiction; [reflexivity|].
    destruct H1 as [S1 T1]. destruct H2 as [S2 T2].
    destruct S1 as (r & pre1 & post1 & Hn1 & _ & _ & _ & _ & _ & _ & _ & E1).
    destruct S2 as (r' & pre2 & post2 & Hn2 & _ & _ & _ & _ & _ & _ & _ & E2).
    destruct Hn1 as (_ & R1 & _). destruct Hn2 as (_ & R2 & _).
    pose proof (resume_at_det msg _ _ R1 _ R2) as Hrr. subst r'. subst e e'.
    f_equal. eapply IH; eassumption.
  Qed.

  (* ---- from_msg follows the semantic chain ---- *)
  Lemma from_msg_is_sem_chase rends : rstands msg e1 rs rends -> sem_rcode = 0 ->
    exists r4, whole msg (r_cur r4) /\
      from_msg msg ty =
      let os0 := precs (N.to_nat an) e1 rs rends 0 in
      let* (name, ttl, data) := chase msg (S (length (map phdr os0))) ty r4 (c_with_pos msg 12) (sq_class q) (map phdr os0) in
      let* (t, _) := read_name msg Heap name in
      Ok (mkRRset t (sq_class q) ttl data).
  Proof.
    intros Sr0 Hrc0.
    destruct (message_parsed msg 1 an ns ar [q] rs e1 e2 Hlen H12 Hq Hr eq_refl Hcnt ltac:(lia) Ban Bns Bar)
      as (qends & rends' & Hp & L1 & L2 & Sq & Sr).
    assert (rends' = rends) by (eapply rstands_unique; eassumption). subst rends'.
    destruct qends as [|qe qends]; [cbn in L1; discriminate|].
    destruct (from_msg_spec msg 1 an ns ar _ _ e1 e2 Hp L1 L2 h Hrh Hh ty (qitem 12 q qe) eq_refl eq_refl Hqr Htc) as (r4 & Hw4 & E).
    assert (Hrc : the_rcode an ns ar (ritems e1 rs rends) h = 0) by (rewrite (the_rcode_sem rends Sr); exact Hrc0).
    exists r4. split; [exact Hw4|]. rewrite E. rewrite Hrc. cbn [N.eqb negb]. cbv zeta. cbn [a_class qitem].
    assert (Hlr : length rends = length rs).
    { clear - Sr. revert Sr. generalize e1. generalize rends. induction rs as [|y l IH]; intros ends0 p; destruct ends0 as [|e ends]; cbn [rstands]; try tauto.
      intros [_ H]. cbn. f_equal. eapply IH. exact H. }
    assert (Hal : answer_headers msg 1 an ns ar (qitems 12 [q] (qe :: qends)) (ritems e1 rs rends) e2 = sem_hdrs (N.to_nat an) e1 rs rends 0).
    { unfold answer_headers. apply hdrs_align; [exact L1|intro j; reflexivity| |exact Hlr]. unfold lenN in Hcnt. lia. }
    rewrite Hal, <- precs_hdrs. reflexivity.
  Qed.

  (* the response-code gate, end to end: the 12-bit code is the header nibble extended by the first
     OPT record among the records behind the answer section (authority and additional, any position);
     a code other than NOERROR is reported as BadResponseCode with exactly that value *)
  Theorem from_msg_rcode_gate_sem : sem_rcode <> 0 -> from_msg msg ty = Err (BadResponseCode sem_rcode).
  Proof.
    intro Hne.
    destruct (message_parsed msg 1 an ns ar [q] rs e1 e2 Hlen H12 Hq Hr eq_refl Hcnt ltac:(lia) Ban Bns Bar)
      as (qends & rends & Hp & L1 & L2 & Sq & Sr).
    destruct qends as [|qe qends]; [cbn in L1; discriminate|].
    destruct (from_msg_spec msg 1 an ns ar _ _ e1 e2 Hp L1 L2 h Hrh Hh ty (qitem 12 q qe) eq_refl eq_refl Hqr Htc) as (r4 & Hw4 & E).
    rewrite E, (the_rcode_sem rends Sr). assert (En : negb (sem_rcode =? 0) = true) by lia. rewrite En. reflexivity.
  Qed.

  (* records of the requested type stand at the end of the chain: exactly they are returned, under
     the name the chain ends at *)
  Theorem from_msg_follows_chain rends pn t os' x xs :
    rstands msg e1 rs rends ->
    schain 12 qtext (precs (N.to_nat an) e1 rs rends 0) pn t os' ->
    filter (smatch ty t) os' = x :: xs -> sem_rcode = 0 ->
    from_msg msg ty = Ok (mkRRset t (sq_class q) (fold_left N.min (map pttl (x :: xs)) 4294967295) (map pval (x :: xs))).
  Proof.
    intros Sr Hch Hhits Hrc0. destruct (from_msg_is_sem_chase rends Sr Hrc0) as (r4 & Hw4 & E). rewrite E. cbv zeta.
    set (os0 := precs (N.to_nat an) e1 rs rends 0) in *.
    assert (Hs0 : Forall pstands os0) by (apply precs_stand; [exact Sr|exact Htyped]).
    destruct (schain_ok r4 Hw4 _ _ _ _ _ _ Hch qname_decodes Hs0) as (Hck & Hdec & Hs').
    pose proof (filter_at pn t ty os' Hdec Hs') as Hfl.
    destruct (data_at r4 Hw4 t os' Hs') as [Hd1 Hd2]. rewrite Hhits in Hd1, Hd2, Hfl.
    pose proof (live_le_length (map phdr os0)) as Hlive.
    rewrite (chase_returns_matches msg ty (sq_class q) r4 (c_with_pos msg 12) (map phdr os0) (c_with_pos msg pn) (map phdr os')
               Hck (cmp_ok_at pn t os' Hdec Hs') (pval x) (map pval xs) ltac:(rewrite Hfl; exact Hd1) (S (length (map phdr os0))) ltac:(lia)).
    cbn [bind]. destruct Hdec as [c2 E2]. rewrite E2. cbn [bind]. rewrite Hfl, Hd2. reflexivity.
  Qed.

  (* nothing qualifies at the end of the chain — no record of the requested type and no further CNAME
     for the name (this is also where every CNAME loop ends): NoAnswer *)
  Theorem from_msg_chain_noanswer rends pn t os' :
    rstands msg e1 rs rends ->
    schain 12 qtext (precs (N.to_nat an) e1 rs rends 0) pn t os' ->
    filter (smatch ty t) os' = [] -> Forall (fun o => smatch T_CNAME t o = false) os' -> sem_rcode = 0 ->
    from_msg msg ty = Err NoAnswer.
  Proof.
    intros Sr Hch Hnone Hnoc Hrc0. destruct (from_msg_is_sem_chase rends Sr Hrc0) as (r4 & Hw4 & E). rewrite E. cbv zeta.
    set (os0 := precs (N.to_nat an) e1 rs rends 0) in *.
    assert (Hs0 : Forall pstands os0) by (apply precs_stand; [exact Sr|exact Htyped]).
    destruct (schain_ok r4 Hw4 _ _ _ _ _ _ Hch qname_decodes Hs0) as (Hck & Hdec & Hs').
    pose proof (filter_at pn t ty os' Hdec Hs') as Hfl. rewrite Hnone in Hfl.
    pose proof (live_le_length (map phdr os0)) as Hlive.
    rewrite (chase_reports_noanswer msg ty (sq_class q) r4 (c_with_pos msg 12) (map phdr os0) (c_with_pos msg pn) (map phdr os')
               Hck (cmp_ok_at pn t os' Hdec Hs') Hfl); [reflexivity| |lia].
    apply Forall_forall. intros hh Hin. apply in_map_iff in Hin. destruct Hin as (o & <- & Hin).
    rewrite (is_match_at pn t T_CNAME o Hdec); [rewrite Forall_forall in Hnoc; apply Hnoc; exact Hin|].
    rewrite Forall_forall in Hs'. apply Hs'; exact Hin.
  Qed.
End E.

(* non-vacuity: on the 35-octet response of MessageRT.example_msg (question "a." A IN; one answer,
   owner = pointer to the question name, A 1.2.3.4, TTL 60) the theorem gives the record set *)
Lemma example_end_to_end :
  from_msg example_msg T_A = Ok (mkRRset [x61; x2e] 1 60 [RD_A 16909060]).
Proof.
  destruct example_stands as (Hq & Hr & Hl).
  pose proof (from_msg_direct_answers example_msg (mkSQ [(12, [x61])] 1 1) [mkSR [(12, [x61])] 1 1 60 (SVal (A_A 16909060))]
                1 0 0 19 35 (mkHeader 4660 33152 1 1 0 0) T_A
                ltac:(rewrite Hl; lia) ltac:(rewrite Hl; lia) Hq Hr eq_refl ltac:(lia) ltac:(lia) ltac:(lia)
                ltac:(vm_compute; reflexivity) ltac:(repeat split) ltac:(vm_compute; reflexivity) ltac:(vm_compute; reflexivity)
                ltac:(repeat constructor)
                (mkSR [(12, [x61])] 1 1 60 (SVal (A_A 16909060))) [] ltac:(vm_compute; reflexivity) ltac:(vm_compute; reflexivity)) as E.
  rewrite E. vm_compute. reflexivity.
Qed.

(* non-vacuity of the chain theorem: question "a." A IN; answers: a. CNAME b. (owner = pointer to the
   question name; target written out), then b. A 5.6.7.8 TTL 30: the set comes back under "b." *)
Definition example_chain_msg : list byte :=
  [x12;x34;x81;x80;x00;x01;x00;x02;x00;x00;x00;x00;
   x01;x61;x00; x00;x01; x00;x01;
   xc0;x0c; x00;x05; x00;x01; x00;x00;x00;x3c; x00;x03; x01;x62;x00;
   x01;x62;x00; x00;x01; x00;x01; x00;x00;x00;x1e; x00;x04; x05;x06;x07;x08].

Lemma example_chain_end_to_end :
  from_msg example_chain_msg T_A = Ok (mkRRset [x62; x2e] 1 30 [RD_A 84281096]).
Proof.
  set (q := mkSQ [(12, [x61])] 1 1).
  set (r1 := mkSR [(12, [x61])] 5 1 60 (SVal (A_Name 5 [[x62]]))).
  set (r2 := mkSR [(34, [x62])] 1 1 30 (SVal (A_A 84281096))).
  assert (Hn : forall p ls r, spec_name example_chain_msg p = SAccept ls r ->
             Forall (fun l => label_ok (snd l) = true) ls -> wire_len (map snd ls) <= 255 -> name_stands example_chain_msg p ls r).
  { intros p ls r E H1 H2. apply spec_name_accept_iff in E. destruct E as [E1 E2]. split; [exact E1|]. split; [exact E2|]. split; assumption. }
  assert (Hq : questions_stand example_chain_msg 12 [q] 19).
  { eapply qs_cons; [|constructor]. exists 15, (firstn 15 example_chain_msg), (skipn 19 example_chain_msg).
    split; [apply Hn; [vm_compute; reflexivity|repeat constructor|vm_compute; discriminate]|]. repeat (split; [reflexivity|]). reflexivity. }
  assert (S1 : record_stands example_chain_msg 19 r1 34).
  { exists 21, (firstn 21 example_chain_msg), (skipn 34 example_chain_msg).
    split; [apply Hn; [vm_compute; reflexivity|repeat constructor|vm_compute; discriminate]|]. repeat (split; [reflexivity|]). reflexivity. }
  assert (S2 : record_stands example_chain_msg 34 r2 51).
  { exists 37, (firstn 37 example_chain_msg), [].
    split; [apply Hn; [vm_compute; reflexivity|repeat constructor|vm_compute; discriminate]|]. repeat (split; [reflexivity|]). reflexivity. }
  assert (Hr : records_stand example_chain_msg 19 [r1; r2] 51).
  { eapply rs_cons; [exact S1|]. eapply rs_cons; [exact S2|constructor]. }
  pose proof (from_msg_follows_chain example_chain_msg q [r1; r2] 2 0 0 19 51 (mkHeader 4660 33152 1 2 0 0) T_A
                ltac:(vm_compute; discriminate) ltac:(vm_compute; discriminate) Hq Hr eq_refl ltac:(lia) ltac:(lia) ltac:(lia)
                ltac:(vm_compute; reflexivity) ltac:(repeat split) ltac:(vm_compute; reflexivity) ltac:(vm_compute; reflexivity)
                ltac:(repeat constructor)
                [34; 51] 31 [x62; x2e] [None; Some (34, r2, 51, 1)] (Some (34, r2, 51, 1)) []) as E.
  rewrite E; [vm_compute; reflexivity| | | |].
  - cbn [rstands]. split; [exact S1|]. split; [exact S2|exact I].
  - cbn [precs N.to_nat Pos.to_nat Pos.iter_op Nat.add].
    apply (sc_hop q T_A 12 _ [] 19 r1 34 0 [Some (34, r2, 51, 0 + 1)] [[x62]] 31 [x62; x2e] [None; Some (34, r2, 51, 1)]);
      [vm_compute; reflexivity|constructor|vm_compute; reflexivity|reflexivity|].
    cbn [app]. change (34 - lenN (sdata_enc (sr_data r1))) with 31. change (join_labels [[x62]]) with [x62; x2e]. change (0 + 1) with 1. constructor.
  - vm_compute. reflexivity.
  - vm_compute. reflexivity.
Qed.

(* non-vacuity of the response-code gate: header RCODE 0, no answers, and an OPT record in the
   additional section whose TTL carries extension octet 1: the 12-bit code is 16 (BADVERS) *)
Definition example_opt_msg : list byte :=
  [x12;x34;x81;x80;x00;x01;x00;x00;x00;x00;x00;x01;
   x01;x61;x00; x00;x01; x00;x01;
   x00; x00;x29; x10;x00; x01;x00;x00;x00; x00;x00].

Lemma example_rcode_gate : from_msg example_opt_msg T_A = Err (BadResponseCode 16).
Proof.
  set (q := mkSQ [(12, [x61])] 1 1).
  set (o := mkSR [] 41 4096 16777216 (SRaw [])).
  assert (Hn : forall p ls r, spec_name example_opt_msg p = SAccept ls r ->
             Forall (fun l => label_ok (snd l) = true) ls -> wire_len (map snd ls) <= 255 -> name_stands example_opt_msg p ls r).
  { intros p ls r E H1 H2. apply spec_name_accept_iff in E. destruct E as [E1 E2]. split; [exact E1|]. split; [exact E2|]. split; assumption. }
  assert (Hq : questions_stand example_opt_msg 12 [q] 19).
  { eapply qs_cons; [|constructor]. exists 15, (firstn 15 example_opt_msg), (skipn 19 example_opt_msg).
    split; [apply Hn; [vm_compute; reflexivity|repeat constructor|vm_compute; discriminate]|]. repeat (split; [reflexivity|]). reflexivity. }
  assert (Hr : records_stand example_opt_msg 19 [o] 30).
  { eapply rs_cons; [|constructor]. exists 20, (firstn 20 example_opt_msg), [].
    split; [apply Hn; [vm_compute; reflexivity|constructor|vm_compute; discriminate]|]. repeat (split; [reflexivity|]). reflexivity. }
  pose proof (from_msg_rcode_gate_sem example_opt_msg q [o] 0 0 1 19 30 (mkHeader 4660 33152 1 0 0 1) T_A
                ltac:(vm_compute; discriminate) ltac:(vm_compute; discriminate) Hq Hr eq_refl ltac:(lia) ltac:(lia) ltac:(lia)
                ltac:(vm_compute; reflexivity) ltac:(repeat split) ltac:(vm_compute; reflexivity) ltac:(vm_compute; reflexivity)) as E.
  rewrite E; [vm_compute; reflexivity|vm_compute; discriminate].
Qed.

(* ================================================================ the iterator API, end to end *)
(* MessageIterator::records() over a message described semantically: exactly the records of known
   type and class, in wire order, each with its section (by counting), the text of its owner labels,
   CLASS, TYPE, TTL and its value; records of unknown type or class (described by raw octets or not)
   are passed over; then the end, without an error. *)
Section I.
  Variable msg : list byte.
  Variables (qs : list squestion) (rs : list srecord) (nq an ns ar e1 e2 : N) (h : header).
  Hypothesis Hlen : lenN msg <= 65535.
  Hypothesis H12 : 12 <= lenN msg.
  Hypothesis Hq : questions_stand msg 12 qs e1.
  Hypothesis Hr : records_stand msg e1 rs e2.
  Hypothesis Hcq : lenN qs = nq.
  Hypothesis Hcnt : lenN rs = an + ns + ar.
  Hypothesis Bnq : nq <= 65535.
  Hypothesis Ban : an <= 65535.
  Hypothesis Bns : ns <= 65535.
  Hypothesis Bar : ar <= 65535.
  Hypothesis Hh : h_qd h = nq /\ h_an h = an /\ h_ns h = ns /\ h_ar h = ar.

  Definition iter_wants (x : srecord) : bool := negb (iter_skip_unknown (class_defined (sr_class x)) (type_defined (sr_type x))).
  (* records the iterator yields are described by their values *)
  Hypothesis Hval : Forall (fun x => iter_wants x = true -> typed x) rs.

  Fixpoint sem_iter (k : N) (l : list srecord) : list rr :=
    match l with
    | [] => []
    | x :: l' =>
      if iter_wants x
      then mkRR (section_of (lin nq an ns ar) k) (text_of_labels (sr_labels x)) (sr_class x) (sr_type x) (sr_ttl x) (sval (sr_data x))
           :: sem_iter (k + 1) l'
      else sem_iter (k + 1) l'
    end.

  Lemma iter_items_sem : forall l p ends k, rstands msg p l ends -> Forall (fun x => iter_wants x = true -> typed x) l ->
    iter_items msg nq an ns ar k (ritems p l ends) = Some (sem_iter k l).
  Proof.
    induction l as [|x l IH]; intros p ends k Hs Hv; destruct ends as [|e ends]; cbn [rstands] in Hs; try contradiction; [reflexivity|].
    destruct Hs as [Hx Hrest]. inversion Hv as [|? ? Hvx Hvl]; subst. cbn [ritems iter_items sem_iter].
    unfold skip_it. cbn [ritem a_class a_type a_fits255]. unfold iter_wants in *.
    destruct (iter_skip_unknown (class_defined (sr_class x)) (type_defined (sr_type x))) eqn:Esk; cbn [negb] in *; [apply IH; assumption|].
    specialize (Hvx eq_refl). unfold typed in Hvx. destruct (sr_data x) as [a|bs] eqn:Ed; [|contradiction]. cbn [sval].
    assert (Hdec : decoded msg (ritem p x e) = Some (rdata_val a)).
    { unfold decoded. assert (Hwc : whole msg (c_with_pos msg (a_type_off (ritem p x e) + 10))) by (split; reflexivity).
      destruct (standing_record_decodes msg p x e _ a Hx Ed Hwc eq_refl) as (m & Em & Edm).
      cbn [ritem a_type] in Em |- *. rewrite Em, Edm. reflexivity. }
    rewrite Hdec, (IH e ends (k + 1) Hrest Hvl). f_equal. f_equal. unfold rr_of. cbn [ritem a_start a_class a_type a_ttl]. f_equal.
    unfold name_text. destruct Hx as (r & pre & post & (Hex & Hres & _) & _).
    assert (Es : spec_name msg p = SAccept (sr_labels x) r) by (apply spec_name_accept_iff; split; assumption). rewrite Es. reflexivity.
  Qed.

  Theorem iterator_end_to_end : iter_records msg h e1 = Ok (sem_iter 0 rs, None).
  Proof.
    destruct (message_parsed msg nq an ns ar qs rs e1 e2 Hlen H12 Hq Hr Hcq Hcnt Bnq Ban Bns Bar)
      as (qends & rends & Hp & L1 & L2 & Sq & Sr).
    destruct Hh as (E1 & E2 & E3 & E4).
    apply (iter_records_any msg nq an ns ar _ _ e1 e2 Hp h (sem_iter 0 rs) L2 ltac:(lia) E2 E3 E4 L1).
    apply iter_items_sem; assumption.
  Qed.
End I.

(* non-vacuity: the two-record response of example_chain_msg through the iterator *)
Lemma example_iterator :
  iter_records example_chain_msg (mkHeader 4660 33152 1 2 0 0) 19 =
  Ok ([mkRR 0 [x61; x2e] 1 5 60 (RD_Name 5 [x62; x2e]); mkRR 0 [x62; x2e] 1 1 30 (RD_A 84281096)], None).
Proof. vm_compute. reflexivity. Qed.

(* ================================================================ the cursor-style reader, end to end *)
(* One record of a message described semantically, read with record_header::<InlineName>() followed
   by the typed record_data::<D>(): the header call returns the text of the owner's labels and a
   marker with the record's TYPE, CLASS, TTL, RDLENGTH, offsets and section; the data call returns
   exactly the record's value; and the reader stands at the next record. *)
Section R.
  Variable msg : list byte.
  Variables (qs : list squestion) (rs : list srecord) (nq an ns ar e1 e2 : N).
  Hypothesis Hlen : lenN msg <= 65535.
  Hypothesis H12 : 12 <= lenN msg.
  Hypothesis Hq : questions_stand msg 12 qs e1.
  Hypothesis Hr : records_stand msg e1 rs e2.
  Hypothesis Hcq : lenN qs = nq.
  Hypothesis Hcnt : lenN rs = an + ns + ar.
  Hypothesis Bnq : nq <= 65535.
  Hypothesis Ban : an <= 65535.
  Hypothesis Bns : ns <= 65535.
  Hypothesis Bar : ar <= 65535.

  Theorem reader_record_end_to_end :
    exists qends rends,
      parsed msg nq an ns ar (qitems 12 qs qends) (ritems e1 rs rends) e1 e2 /\ rstands msg e1 rs rends /\
      forall k p x e a r hw,
        getN (ritems e1 rs rends) k = Some (ritem p x e) -> record_stands msg p x e -> sr_data x = SVal a ->
        RState msg nq an ns ar (qitems 12 qs qends) (ritems e1 rs rends) e2 r (nq + k) hw ->
        exists r1 mk r2,
          rd_header_n msg Inline r = (r1, Ok (OHeaderN (text_of_labels (sr_labels x)) mk)) /\
          m_off mk = p /\ m_rtype mk = sr_type x /\ m_rclass mk = sr_class x /\ m_ttl mk = sr_ttl x /\
          m_rdlen mk = lenN (rdata_enc a) /\ m_section mk = section_of (lin nq an ns ar) k /\
          rd_data msg (sr_type x) mk r1 = (r2, Ok (ORData (rdata_val a))) /\
          RState msg nq an ns ar (qitems 12 qs qends) (ritems e1 rs rends) e2 r2 (nq + k + 1) (N.max hw (nq + k + 1)).
  Proof.
    destruct (message_parsed msg nq an ns ar qs rs e1 e2 Hlen H12 Hq Hr Hcq Hcnt Bnq Ban Bns Bar)
      as (qends & rends & Hp & L1 & L2 & Sq & Sr).
    exists qends, rends. split; [exact Hp|]. split; [exact Sr|].
    intros k p x e a r hw Hg Hx Hd Hs.
    destruct (header_flavours_any msg nq an ns ar _ _ e1 e2 Hp r (nq + k) hw (ritem p x e) Hs ltac:(lia)
                ltac:(replace (nq + k - nq) with k by lia; exact Hg)) as (_ & _ & Hn & _).
    destruct (Hn Inline eq_refl) as (r1 & ls & en & Es & E1 & Hmid). cbv zeta in E1.
    (* the text: the spec's labels at p are the record's labels *)
    pose proof Hx as (rr & pre & post & (Hex & Hres & _) & _).
    cbn [a_start ritem] in Es. apply spec_name_accept_iff in Es. destruct Es as [Hex' _].
    pose proof (expands_det' msg _ _ _ _ Hex _ _ _ Hex') as Hls. subst ls.
    set (mk := mk_of nq an ns ar (qitems 12 qs qends) (ritems e1 rs rends) e2 (nq + k) (ritem p x e)) in *.
    (* the typed data *)
    pose proof Hmid as (Hw1 & Hp1 & Hd1 & Hend & Hin & tr' & Esr & Hi').
    destruct (standing_record_decodes msg p x e (r_cur r1) a Hx Hd Hw1 Hp1) as (m & Em & Edm).
    assert (Hrd : m_rdlen mk = lenN (rdata_enc a)) by (unfold mk, mk_of; cbn [m_rdlen ritem a_rdlen]; rewrite Hd; reflexivity).
    assert (E2 : rd_data msg (sr_type x) mk r1 =
                 (with_tr (with_cur r1 (c_set_pos (r_cur r1) e)) tr', Ok (ORData (rdata_val a)))).
    { unfold rd_data. cbn [ritem a_rdlen] in Em. rewrite Hd in Em. cbn [sdata_enc] in Em. rewrite Hrd, Em.
      assert (Hpos : negb (pos (r_cur r1) =? rdata_pos mk) = false).
      { unfold rdata_pos, mk, mk_of. cbn [m_type_off]. unfold TYPE_TO_RDATA_OFFSET. rewrite Hp1, N.eqb_refl. reflexivity. }
      rewrite Hpos, Hd1. unfold after_data, run, mbind, mret. rewrite Edm. cbn [with_cur r_cur r_tr pos c_set_pos].
      assert (He : e = P (qitems 12 qs qends) (ritems e1 rs rends) e2 (nq + k + 1)).
      { rewrite <- Hend. destruct Hx as (r0 & _ & _ & _ & _ & _ & _ & _ & _ & _ & _ & ->). cbn [ritem a_type_off a_rdlen]. lia. }
      unfold mk, mk_of. cbn [m_section]. rewrite He, Esr. reflexivity. }
    exists r1, mk, (with_tr (with_cur r1 (c_set_pos (r_cur r1) e)) tr').
    split; [exact E1|].
    assert (HP : P (qitems 12 qs qends) (ritems e1 rs rends) e2 (nq + k) = p).
    { unfold P, items. rewrite getN_app_r by lia. replace (nq + k - lenN (qitems 12 qs qends)) with k by lia. rewrite Hg. reflexivity. }
    split; [unfold mk, mk_of; cbn [m_off]; exact HP|].
    repeat (split; [reflexivity|]). split; [exact Hrd|]. split; [unfold mk, mk_of; cbn [m_section]; f_equal; lia|].
    split; [exact E2|].
    assert (He : e = P (qitems 12 qs qends) (ritems e1 rs rends) e2 (nq + k + 1)).
    { rewrite <- Hend. destruct Hx as (r0 & _ & _ & _ & _ & _ & _ & _ & _ & _ & _ & ->). cbn [ritem a_type_off a_rdlen]. lia. }
    split; [apply whole_set_pos; exact Hw1|]. split; [cbn [r_cur with_tr with_cur pos c_set_pos]; exact He|]. split; [exact Hi'|exact Hd1].
  Qed.
End R.
