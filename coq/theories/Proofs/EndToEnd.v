(* Proofs/EndToEnd.v — RecordSet::<D>::from_msg on a well-formed response, end to end, stated on the
   SEMANTIC description of the message (Proofs/MessageRT.v): one question and records standing back
   to back behind a header that announces them (owner names in any legal compression, values of any
   of the 17 types).  If answer records with the question's name (case-insensitively), the requested
   type and the question's class exist, from_msg returns exactly their values, in wire order, with
   the question's decoded name, its class and the minimum of their TTLs — records of other owners,
   types or classes and the records of the authority and additional sections do not get in.
   Composition of: MessageRT (the pass finds the standing items), ReaderRefine/FromMsgRefine (the
   reader hands exactly the answer headers to the chase), NameRefEq (NameRef::eq is equality of the
   decoded names), Chase (what the chase returns), RDataRT (the typed decode is the value). *)
From Coq Require Import ZArith.
From RsdnsModel Require Import Base GenConst GenCursor GenHeader GenTypes GenTracker GenReader GenSpec Cursor Names Labels Header Tracker RData Reader RecordSet.
From RsdnsModel.Spec Require Import WireName LinearPass RDataWire.
From RsdnsModel.Proofs Require Import CursorSafe ListN LabelsSound LabelsComplete SpecExec ParseSpec RecordRT RDataRT NameRefEq TrackerRefine ReaderTotal ReaderRefine Chase FromMsgRefine MessageRT.
From Coq Require Import ZifyBool ZifyN ZifyNat.
Open Scope N_scope.

Section E.
  Variable msg : list byte.
  Variables (q : squestion) (rs : list srecord) (an ns ar e1 e2 : N) (h : header) (ty : N).
  Hypothesis Hlen : lenN msg <= 65535.
  Hypothesis H12 : 12 <= lenN msg.
  Hypothesis Hq : questions_stand msg 12 [q] e1.
  Hypothesis Hr : records_stand msg e1 rs e2.
  Hypothesis Hcnt : lenN rs = an + ns + ar.
  Hypothesis Ban : an <= 65535.
  Hypothesis Bns : ns <= 65535.
  Hypothesis Bar : ar <= 65535.
  Hypothesis Hrh : read_header msg (c_new msg) = (c_set_pos (c_new msg) 12, Ok h).
  Hypothesis Hh : h_qd h = 1 /\ h_an h = an /\ h_ns h = ns /\ h_ar h = ar.
  Hypothesis Hqr : flag_qr (h_flags h) = true.
  Hypothesis Htc : flag_tc (h_flags h) = false.

  Definition text_of_labels (ls : list (N * list byte)) : list byte := join_labels (map snd ls).
  Definition qtext : list byte := text_of_labels (sq_labels q).
  (* the semantic test the chase applies to an answer record *)
  Definition sem_match (x : srecord) : bool :=
    name_eq (text_of_labels (sr_labels x)) qtext && ((sr_type x =? ty) && (sr_class x =? sq_class q)).

  (* ---- a name that stands decodes to its text, from a whole-message cursor ---- *)
  Lemma stands_decodes p ls r : name_stands msg p ls r ->
    exists c', read_name msg Heap (c_with_pos msg p) = Ok (text_of_labels ls, c').
  Proof.
    intros (Hex & Hres & Hok & Hw).
    assert (Hwh : whole msg (c_with_pos msg p)) by (split; reflexivity).
    pose proof (whole_vis msg _ Hwh) as Hv.
    destruct (read_name_complete msg Heap (c_with_pos msg p) ls (whole_cwf msg _ Hwh) ltac:(rewrite Hv; exact Hex) Hok Hw) as (c' & E & _).
    eauto.
  Qed.

  Lemma qname_decodes : exists c', read_name msg Heap (c_with_pos msg 12) = Ok (qtext, c').
  Proof.
    inversion Hq as [|p q0 e rest e' Hqs Hrest]; subst. destruct Hqs as (r & pre & post & Hn & _).
    exact (stands_decodes _ _ _ Hn).
  Qed.

  (* ---- the headers the chase gets, written over the semantic records ---- *)
  Definition sem_hdr (p : N) (x : srecord) (e k : N) : hdr :=
    let rdl := lenN (rdata_enc (sr_data x)) in
    Some (c_with_pos msg p, mkMarker p (e - 10 - rdl) (sr_type x) (sr_class x) (sr_ttl x) rdl (section_of (lin 1 an ns ar) k)).
  Fixpoint sem_hdrs (n : nat) (p : N) (l : list srecord) (ends : list N) (k : N) : list hdr :=
    match n, l, ends with
    | S m, x :: l', e :: ends' => sem_hdr p x e k :: sem_hdrs m e l' ends' (k + 1)
    | _, _, _ => []
    end.

  Section WithReader.
    Variable r4 : reader.
    Hypothesis Hw4 : whole msg (r_cur r4).
    Notation IM := (is_match msg (sq_class q)).

    Lemma is_match_sem p x e k want : record_stands msg p x e ->
      IM want (c_with_pos msg 12) (sem_hdr p x e k) =
      name_eq (text_of_labels (sr_labels x)) qtext && ((sr_type x =? want) && (sr_class x =? sq_class q)).
    Proof.
      intros (r & pre & post & Hn & _). unfold sem_hdr, is_match. cbn [m_rtype m_rclass].
      destruct (stands_decodes _ _ _ Hn) as [c1 E1]. destruct qname_decodes as [c2 E2].
      assert (Hw1 : whole msg (c_with_pos msg p)) by (split; reflexivity).
      assert (Hw2 : whole msg (c_with_pos msg 12)) by (split; reflexivity).
      rewrite (nameref_eq_is_decoded_eq msg Heap _ _ _ _ _ _ (whole_cwf msg _ Hw1) (whole_cwf msg _ Hw2)
                 ltac:(rewrite (whole_vis msg _ Hw1), (whole_vis msg _ Hw2); reflexivity) E1 E2).
      destruct (name_eq _ _); reflexivity.
    Qed.

    Lemma data_of_sem p x e k : record_stands msg p x e -> sr_type x = ty ->
      data_of msg ty r4 (sem_hdr p x e k) (rdata_val (sr_data x)).
    Proof.
      intros Hs Hty. unfold sem_hdr, data_of, rd_data_at. cbn [m_rdlen].
      assert (Hwc : whole msg (c_with_pos msg (a_type_off (ritem p x e) + 10))) by (split; reflexivity).
      destruct (standing_record_decodes msg p x e _ Hs Hwc eq_refl) as (m & Em & Ed).
      cbn [ritem a_rdlen] in Em. rewrite <- Hty. rewrite Em.
      assert (Ecl : c_clone_with_pos (r_cur r4) (rdata_pos (mkMarker p (e - 10 - lenN (rdata_enc (sr_data x))) (sr_type x) (sr_class x) (sr_ttl x)
                       (lenN (rdata_enc (sr_data x))) (section_of (lin 1 an ns ar) k))) = c_with_pos msg (a_type_off (ritem p x e) + 10)).
      { destruct Hw4 as [Hl Ho]. unfold c_clone_with_pos, rdata_pos, c_with_pos. rewrite Ho, Hl. cbn [m_type_off ritem a_type_off].
        unfold TYPE_TO_RDATA_OFFSET. reflexivity. }
      rewrite Ecl, Ed. reflexivity.
    Qed.

    (* the chase's filter over the headers = the semantic filter over the records *)
    Lemma filter_sem : forall n p l ends k, rstands msg p l ends ->
      cmp_ok msg (c_with_pos msg 12) (sem_hdrs n p l ends k) /\
      Forall2 (data_of msg ty r4) (filter (IM ty (c_with_pos msg 12)) (sem_hdrs n p l ends k))
              (map (fun x => rdata_val (sr_data x)) (filter sem_match (firstn n l))) /\
      map hdr_ttl (filter (IM ty (c_with_pos msg 12)) (sem_hdrs n p l ends k)) = map sr_ttl (filter sem_match (firstn n l)).
    Proof.
      induction n as [|n IH]; intros p l ends k Hs; [cbn; split; [constructor|split; [constructor|reflexivity]]|].
      destruct l as [|x l]; destruct ends as [|e ends]; cbn [rstands] in Hs; try contradiction;
        [cbn; split; [constructor|split; [constructor|reflexivity]]|].
      destruct Hs as [Hx Hrest]. cbn [sem_hdrs firstn filter].
      destruct (IH e l ends (k + 1) Hrest) as (I1 & I2 & I3).
      pose proof (is_match_sem p x e k ty Hx) as Hm. fold (sem_match x) in Hm. rewrite Hm.
      split.
      - constructor; [|exact I1]. unfold sem_hdr.
        destruct Hx as (r & pre & post & Hn & _). destruct (stands_decodes _ _ _ Hn) as [c1 E1]. destruct qname_decodes as [c2 E2].
        assert (Hw1 : whole msg (c_with_pos msg p)) by (split; reflexivity).
        assert (Hw2 : whole msg (c_with_pos msg 12)) by (split; reflexivity).
        eexists. apply (nameref_eq_is_decoded_eq msg Heap _ _ _ _ _ _ (whole_cwf msg _ Hw1) (whole_cwf msg _ Hw2)
                 ltac:(rewrite (whole_vis msg _ Hw1), (whole_vis msg _ Hw2); reflexivity) E1 E2).
      - destruct (sem_match x) eqn:Es.
        + cbn [map]. split; [constructor; [|exact I2]|cbn [hdr_ttl sem_hdr m_ttl]; f_equal; exact I3].
          apply data_of_sem; [exact Hx|]. unfold sem_match in Es. lia.
        + split; assumption.
    Qed.
  End WithReader.

  (* ---- alignment: the headers from_msg collects are the semantic headers of the answer section ---- *)
  Lemma hdrs_align qs' rs' : lenN qs' = 1 ->
    forall n p l ends k, (forall j, getN rs' (k + j) = getN (ritems p l ends) j) -> (n <= length l)%nat -> length ends = length l ->
    hdrs msg 1 an ns ar qs' rs' e2 n k = sem_hdrs n p l ends k.
  Proof.
    intros Hq1. induction n as [|n IH]; intros p l ends k Hal Hn Hle; [reflexivity|].
    destruct l as [|x l]; [cbn in Hn; lia|]. destruct ends as [|e ends]; [cbn in Hle; lia|].
    cbn [hdrs sem_hdrs]. pose proof (Hal 0) as H0. rewrite N.add_0_r in H0. cbn [ritems] in H0. rewrite getN_cons_0 in H0. rewrite H0.
    f_equal.
    - unfold hdr_of, sem_hdr, mk_of, PP, P, items. rewrite getN_app_r by lia. replace (1 + k - lenN qs') with k by lia. rewrite H0.
      cbn [ritem a_start a_type_off a_type a_class a_ttl a_rdlen]. replace (1 + k - 1) with k by lia. reflexivity.
    - apply (IH e l ends (k + 1)); [|cbn in Hn; lia|cbn in Hle; lia].
      intro j. cbn [ritems] in Hal. replace (k + 1 + j) with (k + (j + 1)) by lia. rewrite (Hal (j + 1)).
      unfold getN. replace (N.to_nat (j + 1)) with (S (N.to_nat j)) by lia. reflexivity.
  Qed.

  (* standing records are of the 17 data types: none of them is an OPT record *)
  Lemma stands_not_opt p x e : record_stands msg p x e -> (sr_type x =? T_OPT) = false.
  Proof.
    intros (r & pre & post & _ & _ & _ & Hty & _). unfold rdata_type_ok in Hty.
    destruct (sr_data x); unfold is_name_type, T_A, T_AAAA, T_NS, T_MD, T_MF, T_CNAME, T_MB, T_MG, T_MR, T_PTR, T_HINFO, T_WKS, T_MINFO, T_MX, T_NULL, T_SOA, T_TXT, T_OPT in *; lia.
  Qed.

  Lemma no_opt_stands : forall n p l ends k, rstands msg p l ends ->
    (forall j, (j < n)%nat -> getN (ritems p l ends) (N.of_nat j) = getN (ritems p l ends) (N.of_nat j)) ->
    forall rs', (forall j, getN rs' (k + j) = getN (ritems p l ends) j) -> first_opt rs' n k = None.
  Proof.
    induction n as [|n IH]; intros p l ends k Hs _ rs' Hal; [reflexivity|]. cbn [first_opt].
    pose proof (Hal 0) as H0. rewrite N.add_0_r in H0. rewrite H0.
    destruct l as [|x l]; destruct ends as [|e ends]; cbn [rstands] in Hs; try contradiction; [reflexivity|].
    destruct Hs as [Hx Hrest]. cbn [ritems]. rewrite getN_cons_0. cbn [ritem a_type]. rewrite (stands_not_opt _ _ _ Hx).
    apply (IH e l ends (k + 1) Hrest ltac:(intros; reflexivity)).
    intro j. cbn [ritems] in Hal. replace (k + 1 + j) with (k + (j + 1)) by lia. rewrite (Hal (j + 1)).
    unfold getN. replace (N.to_nat (j + 1)) with (S (N.to_nat j)) by lia. reflexivity.
  Qed.

  Lemma stands_skip : forall m p l ends, rstands msg p l ends ->
    exists p', rstands msg p' (skipn m l) (skipn m ends) /\
      forall j, getN (ritems p l ends) (N.of_nat m + j) = getN (ritems p' (skipn m l) (skipn m ends)) j.
  Proof.
    induction m as [|m IH]; intros p l ends Hs; [exists p; split; [exact Hs|intro j; reflexivity]|].
    destruct l as [|x l]; destruct ends as [|e ends]; cbn [rstands] in Hs; try contradiction.
    - exists p. cbn [skipn]. split; [exact I|]. intro j. cbn [ritems]. unfold getN. destruct (N.to_nat _), (N.to_nat j); reflexivity.
    - destruct Hs as [_ Hrest]. destruct (IH e l ends Hrest) as (p' & S' & G'). exists p'. cbn [skipn]. split; [exact S'|].
      intro j. cbn [ritems]. rewrite <- G'. unfold getN. replace (N.to_nat (N.of_nat (S m) + j)) with (S (N.to_nat (N.of_nat m + j))) by lia. reflexivity.
  Qed.

  (* ---- the theorem ---- *)
  Theorem from_msg_direct_answers x xs :
    filter sem_match (firstn (N.to_nat an) rs) = x :: xs -> flag_rcode (h_flags h) = 0 ->
    from_msg msg ty =
    Ok (mkRRset qtext (sq_class q)
          (fold_left N.min (map sr_ttl (x :: xs)) 4294967295)
          (map (fun y => rdata_val (sr_data y)) (x :: xs))).
  Proof.
    intros Hhits Hrc0.
    destruct (message_parsed msg 1 an ns ar [q] rs e1 e2 Hlen H12 Hq Hr eq_refl Hcnt ltac:(lia) Ban Bns Bar)
      as (qends & rends & Hp & L1 & L2 & Sq & Sr).
    destruct qends as [|qe qends]; [cbn in L1; discriminate|].
    destruct (from_msg_spec msg 1 an ns ar _ _ e1 e2 Hp L1 L2 h Hrh Hh ty (qitem 12 q qe) eq_refl eq_refl Hqr Htc) as (r4 & Hw4 & E).
    assert (Hrc : the_rcode an ns ar (ritems e1 rs rends) h = 0).
    { unfold the_rcode, the_opt. destruct (stands_skip (N.to_nat an) e1 rs rends Sr) as (p' & S' & G').
      rewrite (no_opt_stands (N.to_nat (ns + ar)) p' _ _ an S' ltac:(intros; reflexivity) (ritems e1 rs rends)); [exact Hrc0|].
      intro j. rewrite <- G'. f_equal. lia. }
    rewrite E. rewrite Hrc. cbn [N.eqb negb]. cbv zeta. cbn [a_class qitem].
    assert (Hlr : length rends = length rs).
    { clear - Sr. revert Sr. generalize e1. generalize rends. induction rs as [|y l IH]; intros ends0 p; destruct ends0 as [|e ends]; cbn [rstands]; try tauto.
      intros [_ H]. cbn. f_equal. eapply IH. exact H. }
    assert (Hal : answer_headers msg 1 an ns ar (qitems 12 [q] (qe :: qends)) (ritems e1 rs rends) e2 = sem_hdrs (N.to_nat an) e1 rs rends 0).
    { unfold answer_headers. apply hdrs_align; [exact L1|intro j; reflexivity| |exact Hlr]. unfold lenN in Hcnt. lia. }
    rewrite Hal.
    destruct (filter_sem r4 Hw4 (N.to_nat an) e1 rs rends 0 Sr) as (F1 & F2 & F3). rewrite Hhits in F2, F3.
    set (hs := sem_hdrs (N.to_nat an) e1 rs rends 0) in *.
    pose proof (live_le_length hs) as Hlive.
    rewrite (chase_returns_matches msg ty (sq_class q) r4 (c_with_pos msg 12) hs (c_with_pos msg 12) hs
               (cok_here msg ty (sq_class q) r4 _ _) F1 _ _ F2 (S (length hs)) ltac:(lia)).
    cbn [bind]. destruct qname_decodes as [c2 E2]. rewrite E2. cbn [bind]. rewrite F3. reflexivity.
  Qed.
End E.

(* non-vacuity: on the 35-octet response of MessageRT.example_msg (question "a." A IN; one answer,
   owner = pointer to the question name, A 1.2.3.4, TTL 60) the theorem gives the record set *)
Lemma example_end_to_end :
  from_msg example_msg T_A = Ok (mkRRset [x61; x2e] 1 60 [RD_A 16909060]).
Proof.
  destruct example_stands as (Hq & Hr & Hl).
  pose proof (from_msg_direct_answers example_msg (mkSQ [(12, [x61])] 1 1) [mkSR [(12, [x61])] 1 1 60 (A_A 16909060)]
                1 0 0 19 35 (mkHeader 4660 33152 1 1 0 0) T_A
                ltac:(rewrite Hl; lia) ltac:(rewrite Hl; lia) Hq Hr eq_refl ltac:(lia) ltac:(lia) ltac:(lia)
                ltac:(vm_compute; reflexivity) ltac:(repeat split) ltac:(vm_compute; reflexivity) ltac:(vm_compute; reflexivity)
                (mkSR [(12, [x61])] 1 1 60 (A_A 16909060)) [] ltac:(vm_compute; reflexivity) ltac:(vm_compute; reflexivity)) as E.
  rewrite E. vm_compute. reflexivity.
Qed.
