(* Proofs/TimedCalls.v — ClientImpl::query_raw as a whole (TimedApi.v: client_call_timed), in every world:
   refusals before anything is sent, and what every transmission carries (C11). *)
From RsdnsModel Require Import Base GenConst GenTypes GenHeader GenClient Client Writer RecordSet Timed TimedApi.
From RsdnsModel.Spec Require Import NameText.
From RsdnsModel.Proofs Require Import WriterSafe WriterLayout ClientProofs TimedProofs TimedGeneral TimedSame.
From Coq Require Import ZifyBool ZifyN ZifyNat.
Open Scope N_scope.

(* C11: a caller buffer shorter than 512 octets, or a name that is not a valid text name, ends the
   call with an error before anything is sent — no datagram, no TCP connection, no time passes *)
Theorem call_refused_sends_nothing std smol q cfg jit proc buf arrs srv wire ev r t :
  client_call_timed std smol q cfg jit proc buf arrs srv = (wire, ev, r, t) ->
  buf < 512 \/ valid_text (tq_name q) = false ->
  wire = ([], None) /\ ev = [] /\ t = tq_start q /\ match r with Ok _ => False | _ => True end.
Proof.
  unfold client_call_timed. intros H Hbad.
  assert (Hs : (if std then std_query_buf_too_short buf else async_query_buf_too_short buf) = (buf <? 512)) by (destruct std; reflexivity).
  rewrite Hs in H. destruct (buf <? 512) eqn:E.
  - inversion H; subst. repeat split.
  - destruct Hbad as [Hb|Hv]; [lia|].
    destruct (prepare_message std (tq_id q) (tq_name q) (tq_type q) (tq_class q) (cc_rd cfg) (cc_edns cfg) buf) as [msg|e| | | |] eqn:Ep;
      try (inversion H; subst; repeat split; fail).
    exfalso. unfold prepare_message in Ep.
    destruct (query_write _ (tq_id q) (tq_name q) (tq_type q) (tq_class q) (cc_rd cfg) _) as [[b n]| | | | |] eqn:Eq; cbn [bind] in Ep; try discriminate.
    apply query_refuses_invalid in Eq. congruence.
Qed.

(* C11 / C13 / C15: otherwise the message is prepared once; EVERY datagram that is sent — the first
   transmission and every retransmission — is exactly the RFC 1035/6891 query message for what was
   asked (id, RD as configured, one question, OPT iff EDNS is on with min(configured payload, buffer)),
   and a TCP exchange writes that same message behind its exact 2-octet length *)
Theorem call_wire_is_the_query std smol q cfg jit proc buf arrs srv dgrams tcp ev r t :
  client_call_timed std smol q cfg jit proc buf arrs srv = ((dgrams, tcp), ev, r, t) ->
  512 <= buf -> valid_text (tq_name q) = true \/ dgrams <> [] \/ tcp <> None ->
  let opt := match cc_edns cfg with Some (ver, ups) => Some (ver, (N.min ups buf) mod 65536) | None => None end in
  let m := query_message (tq_id q) (tq_name q) (tq_type q) (tq_class q) (cc_rd cfg) opt in
  Forall (fun d => snd d = m) dgrams /\
  (forall b, tcp = Some b -> b = be_bytes 2 (lenN m mod 65536) ++ m) /\
  (tcp <> None <-> In EvTcpExchange ev).
Proof.
  unfold client_call_timed. intros H Hb _. cbv zeta.
  assert (Hs : (if std then std_query_buf_too_short buf else async_query_buf_too_short buf) = (buf <? 512)) by (destruct std; reflexivity).
  rewrite Hs in H. replace (buf <? 512) with false in H by lia.
  destruct (prepare_message std (tq_id q) (tq_name q) (tq_type q) (tq_class q) (cc_rd cfg) (cc_edns cfg) buf) as [msg|e| | | |] eqn:Ep;
    try (inversion H; subst; split; [constructor|split; [intros b Hb'; discriminate|split; [intro Hn; exfalso; apply Hn; reflexivity|intros []]]]).
  apply prepare_message_layout in Ep. cbv zeta in Ep.
  destruct (client_query_timed std smol q (cc_lifetime cfg) (cc_qt cfg) jit proc buf (cc_strategy cfg) arrs srv) as [[[sends ev'] r'] t'].
  inversion H; subst. clear H.
  assert (Hsk : forall pre m0 : list byte, length pre = 2%nat -> skipn 2 (pre ++ m0) = m0).
    { intros pre m0 Hl. destruct pre as [|a [|b [|c pre]]]; try discriminate. reflexivity. }
    repeat split.
    + apply Forall_forall. intros d Hin. apply in_map_iff in Hin. destruct Hin as (s & <- & _). cbn [snd].
      apply Hsk. clear. generalize (lenN (query_message (tq_id q) (tq_name q) (tq_type q) (tq_class q) (cc_rd cfg) match cc_edns cfg with Some (ver, ups) => Some (ver, N.min ups buf mod 65536) | None => None end) mod 65536). intro v. reflexivity.
    + intros b Hb'. destruct (existsb is_tcp_event ev); inversion Hb'; reflexivity.
    + intro Hn. destruct (existsb is_tcp_event ev) eqn:Ee; [|contradiction].
      apply existsb_exists in Ee. destruct Ee as (x & Hx & Hx'). destruct x; [discriminate|assumption].
    + intro Hin. destruct (existsb is_tcp_event ev) eqn:Ee; [discriminate|].
      exfalso. assert (existsb is_tcp_event ev = true) by (apply existsb_exists; exists EvTcpExchange; split; [assumption|reflexivity]). congruence.
Qed.

(* C11 / C15: with exact timers all four clients put the same bytes on the wire at the same instants,
   start the same exchanges and return the same result at the same instant, in every world *)
Theorem call_all_clients_same smol smol' q cfg buf arrs srv :
  qt_pos (cc_qt cfg) -> 0 < cc_lifetime cfg ->
  client_call_timed true smol q cfg zero_jit zero_jit buf arrs srv =
  client_call_timed false smol' q cfg zero_jit zero_jit buf arrs srv.
Proof.
  intros Hq Hl. unfold client_call_timed.
  change (std_query_buf_too_short buf) with (async_query_buf_too_short buf).
  change (std_query_buf_min buf) with (async_query_buf_min buf).
  destruct (async_query_buf_too_short buf); [reflexivity|].
  change (prepare_message true (tq_id q) (tq_name q) (tq_type q) (tq_class q) (cc_rd cfg) (cc_edns cfg) buf)
    with (prepare_message false (tq_id q) (tq_name q) (tq_type q) (tq_class q) (cc_rd cfg) (cc_edns cfg) buf).
  destruct (prepare_message false (tq_id q) (tq_name q) (tq_type q) (tq_class q) (cc_rd cfg) (cc_edns cfg) buf); try reflexivity.
  rewrite (all_clients_one_machine smol smol' q (cc_lifetime cfg) (cc_qt cfg) buf (cc_strategy cfg) arrs srv Hq Hl). reflexivity.
Qed.
