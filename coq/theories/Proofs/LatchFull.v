(* Proofs/LatchFull.v — the error latch at full strength, for every reader state the documented
   protocol can reach (RInv: cursor well-formed, counters read <= total <= 65535):
   EVERY sequential call that does not return Ok leaves the reader exhausted — questions (both
   flavours, single or not), skip_questions, the three record-header flavours, the four data calls
   (with the marker of the preceding header call), header() on a fresh reader, and seek (except
   that a seek refused with RecordsSectionOffsetUnknown changes nothing at all) — and an exhausted
   reader answers every one of them, data calls included, with ReaderDone and stays as it is. *)
From Coq Require Import ZArith.
From RsdnsModel Require Import Base GenConst GenReader GenTypes Cursor Names Labels Header Tracker RData Reader.
From RsdnsModel.Proofs Require Import CursorSafe Defined Latch ReaderTotal.
From Coq Require Import ZifyBool ZifyN ZifyNat.
Open Scope N_scope.

Section L.
  Variable msg : list byte.

  Definition latched {X} (p : reader * res X) : Prop := is_ok (snd p) = false -> r_done (fst p) = true.

  Lemma latched_latch {X} (p : reader * res X) : latched (latch p).
  Proof. destruct p as [r x]. unfold latched, latch. destruct x; cbn; intro H; try discriminate; reflexivity. Qed.

  Lemma latched_after_question p :
    (forall v, snd p = Ok v -> twf (r_tr (fst p)) /\ read (qd (r_tr (fst p))) < total (qd (r_tr (fst p)))) ->
    latched (after_question p).
  Proof.
    destruct p as [r o]. cbn [fst snd]. intro H. unfold latched, after_question.
    destruct o as [v| | | | |]; cbn; try reflexivity.
    destruct (H v eq_refl) as [Ht Hlt]. destruct (question_read_ok (r_tr r) (pos (r_cur r)) Ht Hlt) as (t & E & _). rewrite E.
    cbn. discriminate.
  Qed.

  Lemma latched_after_data mk p :
    (forall v, snd p = Ok v -> twf (r_tr (fst p)) /\ mk_ok (fst p) mk) -> latched (after_data mk p).
  Proof.
    destruct p as [r o]. cbn [fst snd]. intro H. unfold latched, after_data.
    destruct o as [v| | | | |]; cbn; try reflexivity.
    destruct (H v eq_refl) as [Ht Hm]. destruct (section_read_ok (r_tr r) (m_section mk) (pos (r_cur r)) Ht Hm) as (t & E & _). rewrite E.
    cbn. discriminate.
  Qed.

  Lemma run_keeps {X} r (m : M X) mk : twf (r_tr r) -> mk_ok r mk ->
    forall v, snd (run r m) = Ok v -> twf (r_tr (fst (run r m))) /\ mk_ok (fst (run r m)) mk.
  Proof. intros Ht Hm v _. unfold mk_ok in *. destruct (run_frame r m) as [F _]. rewrite F. tauto. Qed.

  Theorem error_latches_full r : RInv msg r -> r_done r = false ->
    (forall single as_ref, latched (rd_question msg single as_ref r)) /\
    latched (rd_skip_questions msg r) /\
    latched (rd_marker msg r) /\ latched (rd_header_ref msg r) /\ (forall nk, latched (rd_header_n msg nk r)) /\
    (forall mk, mk_ok r mk -> pos (r_cur r) = rdata_pos mk ->
       latched (rd_skip_data mk r) /\ latched (rd_data_bytes msg mk r) /\
       (forall ty, read_rdata msg ty (m_rdlen mk) <> None -> latched (rd_data msg ty mk r)) /\
       (m_rtype mk = T_OPT -> latched (rd_opt mk r))) /\
    latched (rd_header msg r) /\
    (forall s, rd_seek msg s r = (r, Err (RecordsSectionOffsetUnknown s)) \/ latched (rd_seek msg s r)).
  Proof.
    intros [Hc Ht] Hd.
    split.
    { intros single as_ref. unfold rd_question. rewrite Hd, (questions_left_ok _ Ht).
      match goal with |- context [if ?b then _ else _] => destruct b eqn:Eb end; [intro; reflexivity|].
      assert (Hlt : read (qd (r_tr r)) < total (qd (r_tr r))).
      { destruct single; [unfold q_not_single in Eb|unfold q_none_left in Eb]; lia. }
      apply latched_after_question. intros v _.
      match goal with |- context [run r ?m] => destruct (run_frame r m) as [F _]; rewrite F end. tauto. }
    split; [unfold rd_skip_questions; rewrite Hd; apply latched_latch|].
    split; [unfold rd_marker; rewrite Hd; apply latched_latch|].
    split; [unfold rd_header_ref; rewrite Hd; apply latched_latch|].
    split; [intro nk; unfold rd_header_n; rewrite Hd; apply latched_latch|].
    split.
    { intros mk Hm Hp. unfold rd_skip_data, rd_data_bytes, rd_data, rd_opt, skip_record_data_impl.
      rewrite Hd, Hp, N.eqb_refl. cbn [negb].
      split; [apply latched_after_data, run_keeps; assumption|].
      split; [apply latched_after_data, run_keeps; assumption|].
      split.
      - intros ty Hty. destruct (read_rdata msg ty (m_rdlen mk)); [|congruence]. apply latched_after_data, run_keeps; assumption.
      - intros ->. rewrite N.eqb_refl. cbn [negb]. apply latched_after_data, run_keeps; assumption. }
    split; [unfold rd_header; apply latched_latch|].
    intro s. unfold rd_seek. rewrite Hd. destruct (section_offset (r_tr r) s); [right; intro H; discriminate H|].
    destruct (seek_not_at_header_end _); [left; reflexivity|right; apply latched_latch].
  Qed.

  Theorem done_sticky_full r : r_done r = true ->
    (forall single as_ref, rd_question msg single as_ref r = (r, Err ReaderDone)) /\
    rd_skip_questions msg r = (r, Err ReaderDone) /\
    rd_marker msg r = (r, Err ReaderDone) /\ rd_header_ref msg r = (r, Err ReaderDone) /\
    (forall nk, rd_header_n msg nk r = (r, Err ReaderDone)) /\
    (forall mk, pos (r_cur r) = rdata_pos mk ->
       rd_skip_data mk r = (r, Err ReaderDone) /\ rd_data_bytes msg mk r = (r, Err ReaderDone) /\
       (forall ty, read_rdata msg ty (m_rdlen mk) <> None -> rd_data msg ty mk r = (r, Err ReaderDone)) /\
       rd_opt mk r = (r, Err ReaderDone)) /\
    (forall s, rd_seek msg s r = (r, Err ReaderDone)) /\
    rd_questions_count r = Ok (ONum 0) /\ rd_records_count r = Ok (ONum 0) /\
    (forall s, rd_records_count_in s r = Ok (ONum 0)).
  Proof.
    intro H. destruct (done_sticky msg r H) as (A1 & A2 & A3 & A4 & A5 & A6 & A7 & A8 & A9).
    repeat (split; [assumption|]).
    split; [|repeat (split; [assumption|]); assumption].
    intros mk Hp. unfold rd_skip_data, rd_data_bytes, rd_data, rd_opt. rewrite H, Hp, N.eqb_refl. cbn [negb].
    repeat split. intros ty Hty. destruct (read_rdata msg ty (m_rdlen mk)); [reflexivity|congruence].
  Qed.
End L.
