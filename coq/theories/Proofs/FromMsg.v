(* Proofs/FromMsg.v — RecordSet::from_msg is the CNAME chase (Proofs/Chase.v) over headers that all
   belong to the ANSWER section: records of the authority and additional sections never
   contribute. *)
From Coq Require Import ZArith.
From RsdnsModel Require Import Base GenConst GenHeader GenTypes GenTracker GenReader Cursor Names Labels Header Tracker RData Reader RecordSet.
From RsdnsModel.Proofs Require Import CursorSafe ReaderTotal Chase.
From Coq Require Import ZifyBool ZifyN ZifyNat.
Open Scope N_scope.

Section F.
  Variable msg : list byte.

  Definition in_answer (h : hdr) : Prop := match h with Some (_, mk) => m_section mk = 0 | None => True end.

  (* the section a borrowed record header is attributed to is the one next_section reports *)
  Lemma header_ref_section r r' c mk :
    rd_header_ref msg r = (r', Ok (OHeaderRef c mk)) ->
    snd (next_section (r_tr r) (pos (r_cur r))) = Some (m_section mk).
  Proof.
    unfold rd_header_ref, header_ref_impl, calc_section. destruct (r_done r); [discriminate|].
    destruct (next_section (r_tr r) (pos (r_cur r))) as [t so]. destruct so as [s|]; [|cbn; discriminate].
    unfold bind2, run, latch, mbind, mret, lift_c, lift. cbn [with_tr r_cur r_tr fst snd].
    destruct (skip_name msg (r_cur r)) as [c1| | | | |]; cbn [bind fst snd]; try discriminate.
    destruct (m_raw_marker msg (pos (r_cur r)) s c1) as [c2 y] eqn:Em. destruct y as [m| | | | |]; cbn [fst snd]; try discriminate.
    intro H; inversion H; subst. destruct (raw_marker_pos msg _ _ _ _ _ Em) as [_ ->]. reflexivity.
  Qed.

  Lemma read_answer_headers_in_answer fuel : forall r acc r' hs,
    read_answer_headers msg fuel r acc = (r', Ok hs) -> Forall in_answer acc -> Forall in_answer hs.
  Proof.
    induction fuel as [|f IH]; intros r acc r' hs; cbn [read_answer_headers]; [discriminate|].
    destruct (rd_records_count_in 0 r) as [o| | | | |] eqn:Ec; try discriminate.
    destruct o as [|n| | | | | | | | | |]; try discriminate.
    destruct (0 <? n) eqn:En; [|intros H Ha; inversion H; subst; exact Ha].
    unfold bind2 at 1. destruct (rd_header_ref msg r) as [r1 x] eqn:Eh. destruct x as [v| | | | |]; try discriminate.
    destruct v as [| | | | | |c mk| | | | |]; try discriminate.
    unfold bind2. destruct (rd_skip_data mk r1) as [r2 y]. destruct y; try discriminate.
    intros H Ha. apply (IH _ _ _ _ H). apply Forall_app. split; [exact Ha|]. constructor; [|constructor].
    cbn [in_answer].
    (* section 0 has an unread record, so next_section attributes this record to it *)
    pose proof (header_ref_section _ _ _ _ Eh) as Hs.
    unfold rd_records_count_in in Ec. destruct (negb (r_done r)); [|inversion Ec; subst; vm_compute in En; discriminate En].
    unfold records_left_in, left, checked_sub in Ec. destruct (_ <=? _) eqn:El; cbn [bind] in Ec; [|discriminate].
    inversion Ec; subst n.
    rewrite (next_section_first (r_tr r) (pos (r_cur r)) 0) in Hs; [inversion Hs; reflexivity|lia|intros s' H'; lia|cbn [tget] in *; lia].
  Qed.

  (* from_msg = gates; collect the answer headers; the chase; decode the final name *)
  Theorem from_msg_is_chase ty rs : from_msg msg ty = Ok rs ->
    exists r qname hs name c',
      Forall in_answer hs /\
      chase msg (S (length hs)) ty r qname (rs_class rs) hs = Ok (name, rs_ttl rs, rs_data rs) /\
      read_name msg Heap name = Ok (rs_name rs, c').
  Proof.
    unfold from_msg. destruct (reader_new msg) as [r0| | | | |]; cbn [bind]; try discriminate.
    destruct (rd_header msg r0) as [r1 h]. destruct h as [h| | | | |]; cbn [bind]; try discriminate.
    destruct h as [| |hd| | | | | | | | |]; try discriminate.
    destruct (negb (flag_qr (h_flags hd))); [discriminate|]. destruct (flag_tc (h_flags hd)); [discriminate|].
    destruct (rd_question msg true true r1) as [r2 q]. destruct q as [q| | | | |]; cbn [bind]; try discriminate.
    destruct q as [| | | |qname qt qclass| | | | | | |]; try discriminate.
    destruct (read_answer_headers msg (rec_fuel msg) r2 []) as [r3 hs] eqn:Eh. destruct hs as [hs| | | | |]; cbn [bind]; try discriminate.
    destruct (read_opt msg (rec_fuel msg) r3) as [r4 o]. destruct o as [o| | | | |]; cbn [bind]; try discriminate.
    match goal with |- context [negb (?rc =? 0)] => destruct (negb (rc =? 0)); [discriminate|] end.
    destruct (chase msg (S (length hs)) ty r4 qname qclass hs) as [[[name ttl] data]| | | | |] eqn:Ech; cbn [bind]; try discriminate.
    destruct (read_name msg Heap name) as [[t c']| | | | |] eqn:En; cbn [bind]; try discriminate.
    intro H; inversion H; subst. cbn [rs_class rs_ttl rs_data rs_name].
    exists r4, qname, hs, name, c'. split; [|split; assumption].
    apply (read_answer_headers_in_answer _ _ _ _ _ Eh). constructor.
  Qed.
End F.
