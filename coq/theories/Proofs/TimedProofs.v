(* Proofs/TimedProofs.v — the clients over time (Timed.v) against Spec/Retry.v. *)
From RsdnsModel Require Import Base GenConst GenHeader GenReader GenClient Cursor Names Labels Header Tracker RData Reader Client Timed.
From RsdnsModel.Spec Require Import Retry.
From RsdnsModel.Proofs Require Import CursorSafe ReaderTotal ClientProofs.
From Coq Require Import ZifyBool ZifyN ZifyNat.
Open Scope N_scope.

(* ---------------------------------------------------------------- the armed UDP timeout, by cases *)
Definition tmo (lifetime : N) (qt : option N) : N := match qt with Some t => t | None => lifetime end.

Lemma query_left_at_cases now start qs lifetime qt :
  start <= qs -> qs <= now ->
  let D := start + lifetime in let Q := qs + tmo lifetime qt in
  (D <= now /\ query_left_at now start qs lifetime qt = Err Timeout) \/
  (now < D /\ Q <= now /\ query_left_at now start qs lifetime qt = Err IO_TIMEDOUT) \/
  (now < D /\ now < Q /\ query_left_at now start qs lifetime qt = Ok (N.min Q D - now)).
Proof.
  intros H1 H2 D Q. subst D Q.
  unfold query_left_at, std_clock_lifetime, std_clock_attempt, query_left, lifetime_left,
    std_lifetime_over, std_lifetime_left_nounderflow, std_lifetime_left, std_attempt_over,
    std_query_left_nounderflow, std_query_left, tmo.
  destruct (lifetime <=? now - start) eqn:E1; cbn [bind].
  - left. split; [lia|reflexivity].
  - right. destruct (now - start <=? lifetime) eqn:E2; [|lia]. cbn [bind].
    set (T := match qt with Some t => t | None => lifetime end).
    destruct (T <=? now - qs) eqn:E3.
    + left. repeat split; try lia.
    + right. destruct (now - qs <=? T) eqn:E4; [|lia]. repeat split; try lia. f_equal. lia.
Qed.

(* ---------------------------------------------------------------- delivery order *)
Fixpoint sorted_from (lo : N) (arrs : list arrival) : Prop :=
  match arrs with [] => True | (t, _) :: r => lo <= t /\ sorted_from t r end.
Lemma sorted_from_weaken lo lo' arrs : lo' <= lo -> sorted_from lo arrs -> sorted_from lo' arrs.
Proof. destruct arrs as [|[t d] r]; cbn; [trivial|]. intros H [H1 H2]. split; [lia|assumption]. Qed.

(* ---------------------------------------------------------------- the filter is total *)
(* on every delivered byte string the filter of udp_receive_loop says accept (with the flags) or
   continue: no error, no panic, no undefined behaviour *)
Lemma rd_header_obs d r r1 v : rd_header d r = (r1, Ok v) -> exists h, v = OHeader h.
Proof.
  unfold rd_header, latch. destruct (run r (read_header d)) as [r0 h].
  destruct h as [h| | | | |]; cbn [snd fst]; intro H; inversion H; subst. eexists; reflexivity.
Qed.

Lemma m_question_obs d c c' v : m_question d c = (c', Ok v) -> exists n t k, v = OQuestion n t k.
Proof.
  unfold m_question, mbind, lift, mret.
  destruct (read_name d Inline c) as [[n c1]| | | | |]; try discriminate.
  destruct (c_u16 d c1) as [[t c2]| | | | |]; try discriminate.
  destruct (c_u16 d c2) as [[k c3]| | | | |]; try discriminate.
  intro H; inversion H; subst. eexists _, _, _; reflexivity.
Qed.

Lemma rd_question_obs d r r2 v : rd_question d true false r = (r2, Ok v) -> exists n t k, v = OQuestion n t k.
Proof.
  unfold rd_question. destruct (r_done r); [discriminate|].
  destruct (questions_left (r_tr r)) as [l| | | | |]; try discriminate.
  destruct (q_not_single l); [discriminate|].
  unfold run, after_question. destruct (m_question d (r_cur r)) as [c' x] eqn:E.
  destruct x as [v0| | | | |]; try discriminate.
  destruct (question_read _ _); try discriminate. intro H; inversion H; subst. eapply m_question_obs; eassumption.
Qed.

Theorem accept_total std id qname qtype qclass d : exists o, accept_datagram std id qname qtype qclass d = Ok o.
Proof.
  unfold accept_datagram, reader_new. destruct (msg_too_long (lenN d)); [eexists; reflexivity|].
  set (r0 := mkReader (c_new d) tr_default false).
  pose proof (rd_header_good d r0 (cwf_new d) eq_refl) as [Hi Hd].
  destruct (rd_header d r0) as [r1 h] eqn:Eh. cbn [fst snd] in *.
  destruct h as [v|e| | | |]; cbn [defined] in Hd; try contradiction; [|eexists; reflexivity].
  destruct (rd_header_obs _ _ _ _ Eh) as [hd ->].
  destruct (if std then _ else _); [eexists; reflexivity|].
  pose proof (rd_question_good d true false r1 Hi) as [_ Hq].
  destruct (rd_question d true false r1) as [r2 q] eqn:Eq. cbn [snd] in Hq.
  destruct q as [v|e| | | |]; cbn [defined] in Hq; try contradiction; [|eexists; reflexivity].
  destruct (rd_question_obs _ _ _ _ Eq) as (n & t & k & ->). eexists; reflexivity.
Qed.

Lemma last_cons_default {A} (l : list A) : forall a d d', last (a :: l) d = last (a :: l) d'.
Proof. induction l as [|b l IH]; intros a d d'; [reflexivity|]. change (last (b :: l) d = last (b :: l) d'). apply IH. Qed.

Section TP.
Variable good : list byte -> option N.
Variable acc : list byte -> res (option N).
Hypothesis acc_good : forall d, acc d = Ok (good d).
Variables (start lifetime : N) (qt : option N) (buf_len : N) (smol : bool).
Local Notation D := (start + lifetime).
Local Notation T := (tmo lifetime qt).

Lemma first_good_time lo arrs t d fl :
  sorted_from lo arrs -> first_good good arrs = Some (t, d, fl) -> lo <= t.
Proof.
  revert lo. induction arrs as [|[t1 d1] r IH]; cbn [first_good sorted_from]; intros lo Hs H; [discriminate|].
  destruct Hs as [H1 H2]. destruct (good d1) as [f|].
  - inversion H; subst. exact H1.
  - specialize (IH _ H2 H). lia.
Qed.

(* ================================================================ exact timers *)
Section Exact.
Let z : N -> N := fun _ => 0.

(* the generic receive loop under a deadline (the async one, exact timers), characterised *)
Lemma arl_nil dl now : async_recv_loop acc z dl [] now = (Err IO_TIMEDOUT, dl, []).
Proof. cbn [async_recv_loop]. unfold z. rewrite N.add_0_r. reflexivity. Qed.
Lemma arl_cons dl t d rest now : async_recv_loop acc z dl ((t, d) :: rest) now =
  if t <? dl then
    match good d with
    | Some fl => (Ok (d, fl), N.max now t, rest)
    | None => async_recv_loop acc z dl rest (N.max now t)
    end
  else (Err IO_TIMEDOUT, dl, (t, d) :: rest).
Proof. cbn [async_recv_loop]. rewrite acc_good. unfold z. rewrite N.add_0_r. destruct (good d); reflexivity. Qed.

Lemma scan_answer dl : forall arrs now lo t d fl,
  sorted_from lo arrs -> first_good good arrs = Some (t, d, fl) -> t < dl ->
  exists rest, async_recv_loop acc z dl arrs now = (Ok (d, fl), N.max now t, rest) /\ sorted_from t rest.
Proof.
  induction arrs as [|[t1 d1] r IH]; intros now lo t d fl Hs H Ht; [discriminate|].
  rewrite arl_cons. cbn [first_good sorted_from] in *.
  destruct Hs as [H1 H2]. destruct (good d1) as [f|] eqn:Eg.
  - inversion H; subst. destruct (t <? dl) eqn:E; [|lia]. exists r. split; [reflexivity|assumption].
  - pose proof (first_good_time _ _ _ _ _ H2 H) as Hle.
    destruct (t1 <? dl) eqn:E; [|lia].
    destruct (IH (N.max now t1) t1 t d fl H2 H Ht) as [rest [E1 E2]]. exists rest. split; [|assumption].
    rewrite E1. f_equal. f_equal. lia.
Qed.

Lemma scan_timeout dl : forall arrs now lo, now <= dl ->
  sorted_from lo arrs -> (forall t d fl, first_good good arrs = Some (t, d, fl) -> dl <= t) ->
  exists rest, async_recv_loop acc z dl arrs now = (Err IO_TIMEDOUT, dl, rest) /\
    first_good good rest = first_good good arrs /\ sorted_from (N.max lo dl) rest.
Proof.
  induction arrs as [|[t1 d1] r IH]; intros now lo Hn Hs H.
  - exists []. rewrite arl_nil. split; [reflexivity|split; [reflexivity|exact I]].
  - rewrite arl_cons. cbn [first_good sorted_from] in *. destruct Hs as [H1 H2]. destruct (t1 <? dl) eqn:E.
    + destruct (good d1) as [f|] eqn:Eg.
      * specialize (H _ _ _ eq_refl). lia.
      * destruct (IH (N.max now t1) t1 ltac:(lia) H2 H) as [rest [E1 [E2 E3]]]. exists rest. repeat split; try assumption.
        eapply sorted_from_weaken; [|exact E3]. lia.
    + exists ((t1, d1) :: r). split; [reflexivity|split; [reflexivity|]].
      cbn [sorted_from]. split; [lia|assumption].
Qed.

(* the blocking client's receive loop, which re-computes a relative timeout from the clock before
   every recv, is the loop under the fixed deadline min(query_start + timeout, start + lifetime) *)
Lemma std_recv_is_scan qs : forall arrs now, start <= qs -> qs <= now -> now < N.min (qs + T) D ->
  std_recv_loop acc start lifetime qt z z qs arrs now = async_recv_loop acc z (N.min (qs + T) D) arrs now.
Proof.
  induction arrs as [|[t1 d1] r IH]; intros now H1 H2 H3; [rewrite arl_nil|rewrite arl_cons]; cbn [std_recv_loop];
    destruct (query_left_at_cases now start qs lifetime qt H1 H2) as [[A _]|[[_ [A _]]|[_ [_ A]]]];
    try lia; rewrite A.
  - unfold z. f_equal. f_equal. lia.
  - replace (now + (N.min (qs + tmo lifetime qt) (start + lifetime) - now)) with (N.min (qs + T) D) by lia.
    destruct (t1 <? N.min (qs + T) D) eqn:E.
    + rewrite acc_good. replace (N.max now t1 + z (N.max now t1)) with (N.max now t1) by (unfold z; lia). destruct (good d1); [reflexivity|]. apply IH; lia.
    + unfold z. rewrite N.add_0_r. reflexivity.
Qed.

Definition res_of (r : spec_result) : res (list byte * N) :=
  match r with SAnswer d fl => Ok (d, fl) | STimeout => Err Timeout end.

(* the specification for an exchange whose current attempt starts at [now] *)
Definition spec_from (fuel : nat) (now : N) (arrs : list arrival) : list N * spec_result * N :=
  let sends bound := match qt with Some q => schedule fuel now q bound | None => [now] end in
  match first_good good arrs with
  | Some (t, d, fl) => if t <? D then (sends (N.max now t + 1), SAnswer d fl, N.max now t) else (sends D, STimeout, D)
  | None => (sends D, STimeout, D)
  end.
Lemma spec_udp_from fuel arrs : spec_udp good fuel start lifetime qt arrs = spec_from fuel start arrs.
Proof. reflexivity. Qed.

Definition qt_pos : Prop := match qt with Some q => 0 < q | None => True end.

Lemma cd_is_D : call_deadline start lifetime qt smol = D.
Proof. unfold call_deadline. destruct (async_durations_are_configured smol lifetime (qt0 qt)) as [E _]. rewrite E. reflexivity. Qed.

Theorem async_exact : forall fuel arrs now lo,
  qt_pos -> sorted_from lo arrs -> start <= now -> now < D -> (N.to_nat (D - now) < fuel)%nat ->
  exists rest, async_udp_exchange acc start lifetime qt z smol fuel arrs now =
    (fst (fst (spec_from fuel now arrs)), res_of (snd (fst (spec_from fuel now arrs))), snd (spec_from fuel now arrs), rest).
Proof.
  induction fuel as [|f IH]; intros arrs now lo Hq Hs H1 H2 Hf; [lia|].
  cbn [async_udp_exchange]. rewrite cd_is_D. unfold spec_from. assert (Hq' := Hq). unfold qt_pos in Hq'.
  destruct qt as [q|] eqn:Eqt.
  - destruct (async_durations_are_configured smol lifetime q) as [_ Ead]. rewrite Ead.
    destruct (first_good good arrs) as [[[t d] fl]|] eqn:Eg.
    + destruct (t <? N.min (now + q) D) eqn:Et.
      * (* answered in this attempt *)
        destruct (scan_answer (N.min (now + q) D) arrs now lo t d fl Hs Eg ltac:(lia)) as [rest [E1 _]].
        rewrite E1. destruct (t <? D) eqn:E2; [|lia]. cbn [fst snd res_of schedule].
        destruct (now + q <? N.max now t + 1) eqn:E3; [lia|]. exists rest. reflexivity.
      * (* not in this attempt *)
        destruct (scan_timeout (N.min (now + q) D) arrs now lo ltac:(lia) Hs) as [rest [E1 [E2 E3]]].
        { intros t' d' fl' H. rewrite Eg in H. inversion H; subst. lia. }
        rewrite E1. cbn [is_timedout IO_TIMEDOUT]. replace (2 =? 2) with true by reflexivity.
        destruct (now + q <? D) eqn:E4.
        -- replace (N.min (now + q) D) with (now + q) in * by lia. rewrite E4. cbn [andb].
           destruct (IH rest (now + q) _ Hq E3 ltac:(lia) ltac:(lia) ltac:(lia)) as [rest' E5].
           rewrite E5. unfold spec_from. rewrite E2, Eg, Eqt. exists rest'.
           destruct (t <? D) eqn:E6; cbn [fst snd schedule].
           ++ destruct (now + q <? N.max now t + 1) eqn:E7; [|lia].
              replace (N.max (now + q) t) with (N.max now t) by lia. reflexivity.
           ++ rewrite E4. reflexivity.
        -- cbn [andb]. replace (N.min (now + q) D) with D in * by lia.
           destruct (t <? D) eqn:E6; [lia|]. cbn [fst snd schedule res_of]. rewrite E4. exists rest. reflexivity.
    + destruct (scan_timeout (N.min (now + q) D) arrs now lo ltac:(lia) Hs) as [rest [E1 [E2 E3]]].
      { intros t' d' fl' H. rewrite Eg in H. discriminate. }
      rewrite E1. cbn [is_timedout IO_TIMEDOUT]. replace (2 =? 2) with true by reflexivity.
      destruct (now + q <? D) eqn:E4.
      * replace (N.min (now + q) D) with (now + q) in * by lia. rewrite E4. cbn [andb].
        destruct (IH rest (now + q) _ Hq E3 ltac:(lia) ltac:(lia) ltac:(lia)) as [rest' E5].
        rewrite E5. unfold spec_from. rewrite E2, Eg, Eqt. exists rest'. cbn [fst snd schedule]. rewrite E4. reflexivity.
      * cbn [andb]. replace (N.min (now + q) D) with D in * by lia.
        cbn [fst snd schedule res_of]. rewrite E4. exists rest. reflexivity.
  - destruct (first_good good arrs) as [[[t d] fl]|] eqn:Eg.
    + destruct (t <? D) eqn:Et.
      * destruct (scan_answer D arrs now lo t d fl Hs Eg ltac:(lia)) as [rest [E1 _]].
        rewrite E1. exists rest. reflexivity.
      * destruct (scan_timeout D arrs now lo ltac:(lia) Hs) as [rest [E1 _]].
        { intros t' d' fl' H. rewrite Eg in H. inversion H; subst. lia. }
        rewrite E1. exists rest. reflexivity.
    + destruct (scan_timeout D arrs now lo ltac:(lia) Hs) as [rest [E1 _]].
      { intros t' d' fl' H. rewrite Eg in H. discriminate. }
      rewrite E1. exists rest. reflexivity.
Qed.
Lemma scan_shape dl : forall arrs now r t rest, now <= dl ->
  async_recv_loop acc z dl arrs now = (r, t, rest) ->
  (exists d fl, r = Ok (d, fl) /\ good d = Some fl) \/ (r = Err IO_TIMEDOUT /\ t = dl).
Proof.
  induction arrs as [|[t1 d1] a IH]; intros now r t rest Hn H.
  - rewrite arl_nil in H. inversion H; subst. right. split; reflexivity.
  - rewrite arl_cons in H. destruct (t1 <? dl) eqn:E.
    + destruct (good d1) as [f|] eqn:Eg.
      * inversion H; subst. left. exists d1, f. split; [reflexivity|assumption].
      * eapply (IH (N.max now t1)); [lia|eassumption].
    + inversion H; subst. right. split; reflexivity.
Qed.

Lemma std_at_deadline f arrs now : D <= now -> start <= now ->
  std_udp_exchange acc start lifetime qt z z (S f) arrs now = ([], Err Timeout, now, arrs).
Proof.
  intros H H0. cbn [std_udp_exchange].
  destruct (query_left_at_cases now start now lifetime qt H0 (N.le_refl _)) as [[_ A]|[[A _]|[A _]]]; try lia.
  rewrite A. reflexivity.
Qed.

(* with exact timers the blocking client and the async clients make the same transmissions at the
   same instants, return the same outcome at the same instant and leave the same queue *)
Theorem std_is_async_exact : forall fuel arrs now,
  qt_pos -> start <= now -> now < D -> (N.to_nat (D - now) < fuel)%nat ->
  std_udp_exchange acc start lifetime qt z z fuel arrs now = async_udp_exchange acc start lifetime qt z smol fuel arrs now.
Proof.
  induction fuel as [|f IH]; intros arrs now Hq H1 H2 Hf; [lia|].
  assert (Hq' := Hq). unfold qt_pos in Hq'.
  assert (HT : 0 < T) by (unfold tmo; destruct qt; lia).
  cbn [std_udp_exchange async_udp_exchange]. rewrite cd_is_D.
  destruct (query_left_at_cases now start now lifetime qt H1 (N.le_refl _)) as [[A _]|[[_ [A _]]|[_ [_ A]]]]; try lia.
  rewrite A. rewrite (std_recv_is_scan now arrs now H1 (N.le_refl _)) by lia.
  destruct f as [|f']; [lia|].
  destruct qt as [q|] eqn:Eqt; unfold tmo.
  - destruct (async_durations_are_configured smol lifetime q) as [_ Ead]. rewrite Ead.
    destruct (async_recv_loop acc z (N.min (now + q) D) arrs now) as [[r t] rest] eqn:Es.
    destruct (scan_shape (N.min (now + q) D) arrs now r t rest ltac:(lia) Es) as [[d [fl [-> _]]]|[-> ->]]; [reflexivity|].
    cbn [is_timedout IO_TIMEDOUT]. replace (2 =? 2) with true by reflexivity.
    destruct (now + q <? D) eqn:E4.
    + replace (N.min (now + q) D) with (now + q) by lia. rewrite E4. cbn [andb].
      rewrite (IH rest (now + q) Hq) by lia. reflexivity.
    + cbn [andb]. replace (N.min (now + q) D) with D by lia. rewrite <- Eqt.
      rewrite std_at_deadline by lia. reflexivity.
  - replace (N.min (now + lifetime) D) with D by lia.
    destruct (async_recv_loop acc z D arrs now) as [[r t] rest] eqn:Es.
    destruct (scan_shape D arrs now r t rest ltac:(lia) Es) as [[d [fl [-> _]]]|[-> ->]]; [reflexivity|].
    cbn [is_timedout IO_TIMEDOUT]. replace (2 =? 2) with true by reflexivity.
    rewrite <- Eqt. rewrite std_at_deadline by lia. reflexivity.
Qed.

Corollary std_exact fuel arrs lo :
  qt_pos -> 0 < lifetime -> sorted_from lo arrs -> (N.to_nat lifetime < fuel)%nat ->
  exists rest, std_udp_exchange acc start lifetime qt z z fuel arrs start =
    (fst (fst (spec_udp good fuel start lifetime qt arrs)), res_of (snd (fst (spec_udp good fuel start lifetime qt arrs))),
     snd (spec_udp good fuel start lifetime qt arrs), rest).
Proof.
  intros Hq Hl Hs Hf. rewrite std_is_async_exact by (try assumption; lia). rewrite spec_udp_from.
  apply (async_exact fuel arrs start lo Hq Hs); lia.
Qed.
End Exact.
(* ================================================================ timers that fire late (by at most eps) *)
Section Slack.
Variables (jit proc : N -> N) (eps : N).
Hypothesis jit_le : forall t, jit t <= eps.
Hypothesis proc_le : forall t, proc t <= eps.

Definition exch_ok (r : res (list byte * N)) : Prop :=
  match r with Ok (d, fl) => good d = Some fl | Err e => e = Timeout | OutOfFuel => True | _ => False end.

Lemma std_recv_bound qs : forall arrs now r t rest, start <= qs -> qs <= now ->
  std_recv_loop acc start lifetime qt jit proc qs arrs now = (r, t, rest) ->
  now <= t /\
  match r with
  | Ok (d, fl) => good d = Some fl /\ t <= N.min (qs + T) D + eps
  | Err e => (e = Timeout /\ D <= t \/ e = IO_TIMEDOUT /\ N.min (qs + T) D <= t) /\
             t <= N.max now (N.min (qs + T) D + eps)
  | _ => False
  end.
Proof.
  induction arrs as [|[t1 d1] a IH]; intros now r t rest H1 H2 H; cbn [std_recv_loop] in H;
    destruct (query_left_at_cases now start qs lifetime qt H1 H2) as [[A0 A]|[[A0 [A1 A]]|[A0 [A1 A]]]];
    rewrite A in H; cbn [retype] in H.
  - inversion H; subst. split; [lia|]. split; [left; split; [reflexivity|lia]|lia].
  - inversion H; subst. split; [lia|]. split; [right; split; [reflexivity|lia]|lia].
  - inversion H; subst. pose proof (jit_le now). split; [lia|]. split; [right; split; [reflexivity|lia]|lia].
  - inversion H; subst. split; [lia|]. split; [left; split; [reflexivity|lia]|lia].
  - inversion H; subst. split; [lia|]. split; [right; split; [reflexivity|lia]|lia].
  - replace (now + (N.min (qs + T) D - now)) with (N.min (qs + T) D) in H by lia.
    pose proof (proc_le (N.max now t1)) as Hp.
    destruct (t1 <? N.min (qs + T) D) eqn:E.
    + rewrite acc_good in H. destruct (good d1) as [f|] eqn:Eg.
      * inversion H; subst. split; [lia|]. split; [assumption|lia].
      * apply IH in H; try lia. destruct H as [Ha Hb]. split; [lia|].
        destruct r as [[d fl]|e| | | |]; try assumption.
        destruct Hb as [Hb Hc]. split; [assumption|lia].
    + inversion H; subst. pose proof (jit_le now). split; [lia|]. split; [right; split; [reflexivity|lia]|lia].
Qed.

(* consecutive transmissions are a query timeout apart (plus at most the slack), all before the deadline *)
Fixpoint gaps (x : N) (s : list N) : Prop :=
  match s with [] => True | y :: s' => x + T <= y /\ y <= x + T + eps /\ y < D /\ gaps y s' end.

Theorem std_exchange_bounds : forall fuel arrs now s r t rest, qt_pos -> start <= now ->
  std_udp_exchange acc start lifetime qt jit proc fuel arrs now = (s, r, t, rest) ->
  now <= t /\ t <= N.max now (D + eps) /\ exch_ok r /\
  (s = [] \/ exists s', s = now :: s' /\ now < D /\ gaps now s') /\
  Forall (fun x => now <= x /\ x <= t) s /\
  (r = Err Timeout -> D <= last s now + T + eps).
Proof.
  induction fuel as [|f IH]; intros arrs now s r t rest Hq H1 H; cbn [std_udp_exchange] in H.
  - inversion H; subst. repeat split; try lia; try exact I. left; reflexivity. constructor. discriminate.
  - destruct (query_left_at_cases now start now lifetime qt H1 (N.le_refl _)) as [[A0 A]|[[A0 [A1 A]]|[A0 [A1 A]]]];
      rewrite A in H; cbn [retype] in H.
    + inversion H; subst. repeat split; try lia. left; reflexivity. constructor. cbn [last]. lia.
    + (* the timeout would be zero *) exfalso. unfold qt_pos in Hq. unfold tmo in A1. destruct qt; lia.
    + destruct (std_recv_loop acc start lifetime qt jit proc now arrs now) as [[r1 t1] rest1] eqn:Er.
      destruct (std_recv_bound now arrs now r1 t1 rest1 H1 (N.le_refl _) Er) as [Ha Hb].
      destruct r1 as [[d fl]|e| | | |]; try contradiction.
      * inversion H; subst. destruct Hb as [Hb Hc]. repeat split; try lia; try assumption.
        -- right. exists []. repeat split; lia.
        -- constructor; [lia|constructor].
        -- discriminate.
      * destruct Hb as [[[-> Hb]|[-> Hb]] Hc].
        -- cbn [is_timedout] in H. inversion H; subst. cbn [exch_ok last]. repeat split; try lia.
           ++ right. exists []. repeat split; lia.
           ++ constructor; [lia|constructor].
        -- cbn [is_timedout IO_TIMEDOUT] in H. replace (2 =? 2) with true in H by reflexivity.
           destruct (std_udp_exchange acc start lifetime qt jit proc f rest1 t1) as [[[s2 r2] t2] rest2] eqn:E2.
           destruct (IH rest1 t1 s2 r2 t2 rest2 Hq ltac:(lia) E2) as (B1 & B2 & B3 & B4 & B5 & B6). inversion H; subst.
           repeat split; try lia; try assumption.
           ++ right. exists s2. repeat split; try lia.
              destruct B4 as [->|[s' [-> [B4 B7]]]]; [exact I|]. cbn [gaps]. repeat split; try lia. assumption.
           ++ constructor; [lia|]. eapply Forall_impl; [|exact B5]. cbn. intros x Hx. lia.
           ++ intro Hr. specialize (B6 Hr). destruct B4 as [->|[s' [-> [B4 B7]]]].
              ** cbn [last] in *. destruct f as [|f']; cbn [std_udp_exchange] in E2; [inversion E2; subst; discriminate|].
                 destruct (query_left_at_cases t1 start t1 lifetime qt ltac:(lia) (N.le_refl _)) as [[C0 C]|[[C0 [C1 C]]|[C0 [C1 C]]]];
                   rewrite C in E2; cbn [retype] in E2.
                 --- lia.
                 --- exfalso. unfold qt_pos in Hq. unfold tmo in C1. destruct qt; lia.
                 --- destruct (std_recv_loop acc start lifetime qt jit proc t1 rest1 t1) as [[r3 t3] rest3].
                     destruct r3 as [[? ?]|e3| | | |]; try (inversion E2; fail).
                     destruct (is_timedout e3); [|inversion E2].
                     destruct (std_udp_exchange acc start lifetime qt jit proc f' rest3 t3) as [[[? ?] ?] ?]. inversion E2.
              ** change (last (now :: t1 :: s') now) with (last (t1 :: s') now).
                 rewrite (last_cons_default s' t1 now t1). assumption.
Qed.

(* what an exchange leaves in the queue is a suffix of what it found *)
Lemma std_recv_suffix qs : forall arrs now r t rest,
  std_recv_loop acc start lifetime qt jit proc qs arrs now = (r, t, rest) -> exists pre, arrs = pre ++ rest.
Proof.
  induction arrs as [|[t1 d1] a IH]; intros now r t rest H; cbn [std_recv_loop] in H.
  - destruct (query_left_at now start qs lifetime qt); inversion H; exists []; reflexivity.
  - destruct (query_left_at now start qs lifetime qt); try (inversion H; exists []; reflexivity).
    destruct (t1 <? now + a0); [|inversion H; exists []; reflexivity].
    rewrite acc_good in H. destruct (good d1).
    + inversion H; subst. exists [(t1, d1)]. reflexivity.
    + apply IH in H. destruct H as [pre ->]. exists ((t1, d1) :: pre). reflexivity.
Qed.
Lemma std_exchange_suffix : forall fuel arrs now s r t rest,
  std_udp_exchange acc start lifetime qt jit proc fuel arrs now = (s, r, t, rest) -> exists pre, arrs = pre ++ rest.
Proof.
  induction fuel as [|f IH]; intros arrs now s r t rest H; cbn [std_udp_exchange] in H; [inversion H; exists []; reflexivity|].
  destruct (query_left_at now start now lifetime qt); try (inversion H; exists []; reflexivity).
  destruct (std_recv_loop acc start lifetime qt jit proc now arrs now) as [[r1 t1] rest1] eqn:Er.
  destruct (std_recv_suffix _ _ _ _ _ _ Er) as [pre ->].
  destruct r1 as [x|e| | | |]; try (inversion H; subst; exists pre; reflexivity).
  destruct (is_timedout e); [|inversion H; subst; exists pre; reflexivity].
  destruct (std_udp_exchange acc start lifetime qt jit proc f rest1 t1) as [[[s2 r2] t2] rest2] eqn:E2.
  apply IH in E2. destruct E2 as [pre2 ->]. inversion H; subst. exists (pre ++ pre2). rewrite app_assoc. reflexivity.
Qed.
Lemma async_recv_suffix dl : forall arrs now r t rest,
  async_recv_loop acc jit dl arrs now = (r, t, rest) -> exists pre, arrs = pre ++ rest.
Proof.
  induction arrs as [|[t1 d1] a IH]; intros now r t rest H; cbn [async_recv_loop] in H.
  - inversion H; exists []; reflexivity.
  - destruct (t1 <? dl); [|inversion H; exists []; reflexivity].
    rewrite acc_good in H. destruct (good d1).
    + inversion H; subst. exists [(t1, d1)]. reflexivity.
    + apply IH in H. destruct H as [pre ->]. exists ((t1, d1) :: pre). reflexivity.
Qed.
Lemma async_exchange_suffix : forall fuel arrs now s r t rest,
  async_udp_exchange acc start lifetime qt jit smol fuel arrs now = (s, r, t, rest) -> exists pre, arrs = pre ++ rest.
Proof.
  induction fuel as [|f IH]; intros arrs now s r t rest H; cbn [async_udp_exchange] in H; [inversion H; exists []; reflexivity|].
  destruct qt as [q|].
  - destruct (async_recv_loop acc jit _ arrs now) as [[r1 t1] rest1] eqn:Er.
    destruct (async_recv_suffix _ _ _ _ _ _ Er) as [pre ->].
    destruct r1 as [x|e| | | |]; try (inversion H; subst; exists pre; reflexivity).
    destruct (is_timedout e); [|inversion H; subst; exists pre; reflexivity].
    destruct (_ && _); [|inversion H; subst; exists pre; reflexivity].
    destruct (async_udp_exchange acc start lifetime (Some q) jit smol f rest1 t1) as [[[s2 r2] t2] rest2] eqn:E2.
    apply IH in E2. destruct E2 as [pre2 ->]. inversion H; subst. exists (pre ++ pre2). rewrite app_assoc. reflexivity.
  - destruct (async_recv_loop acc jit _ arrs now) as [[r1 t1] rest1] eqn:Er.
    destruct (async_recv_suffix _ _ _ _ _ _ Er) as [pre ->].
    destruct r1 as [x|e| | | |]; inversion H; subst; exists pre; reflexivity.
Qed.

Theorem std_fuel_enough : forall fuel arrs now s r t rest, qt_pos -> start <= now ->
  (N.to_nat (D - now) < fuel)%nat ->
  std_udp_exchange acc start lifetime qt jit proc fuel arrs now = (s, r, t, rest) -> r <> OutOfFuel.
Proof.
  induction fuel as [|f IH]; intros arrs now s r t rest Hq H1 Hf H; [lia|]. cbn [std_udp_exchange] in H.
  destruct (query_left_at_cases now start now lifetime qt H1 (N.le_refl _)) as [[A0 A]|[[A0 [A1 A]]|[A0 [A1 A]]]];
    rewrite A in H; cbn [retype] in H; try (inversion H; subst; discriminate).
  destruct (std_recv_loop acc start lifetime qt jit proc now arrs now) as [[r1 t1] rest1] eqn:Er.
  destruct (std_recv_bound now arrs now r1 t1 rest1 H1 (N.le_refl _) Er) as [Ha Hb].
  destruct r1 as [[d fl]|e| | | |]; try contradiction.
  - inversion H; subst. discriminate.
  - destruct Hb as [[[-> Hb]|[-> Hb]] Hc].
    + cbn [is_timedout] in H. inversion H; subst. discriminate.
    + cbn [is_timedout IO_TIMEDOUT] in H. replace (2 =? 2) with true in H by reflexivity.
      destruct (std_udp_exchange acc start lifetime qt jit proc f rest1 t1) as [[[s2 r2] t2] rest2] eqn:E2.
      inversion H; subst. eapply (IH rest1 t1); try eassumption; lia.
Qed.

Lemma async_recv_bound dl : forall arrs now r t rest,
  async_recv_loop acc jit dl arrs now = (r, t, rest) ->
  match r with
  | Ok (d, fl) => good d = Some fl /\ now <= t /\ t <= N.max now dl
  | Err e => e = IO_TIMEDOUT /\ dl <= t /\ t <= dl + eps
  | _ => False
  end.
Proof.
  induction arrs as [|[t1 d1] a IH]; intros now r t rest H; cbn [async_recv_loop] in H.
  - inversion H; subst. pose proof (jit_le dl). repeat split; lia.
  - destruct (t1 <? dl) eqn:E.
    + rewrite acc_good in H. destruct (good d1) as [f|] eqn:Eg.
      * inversion H; subst. repeat split; try assumption; lia.
      * apply IH in H. destruct r as [[d fl]|e| | | |]; try assumption.
        destruct H as (Ha & Hb & Hc). repeat split; try assumption; lia.
    + inversion H; subst. pose proof (jit_le dl). repeat split; lia.
Qed.

Theorem async_exchange_bounds : forall fuel arrs now s r t rest, qt_pos -> start <= now -> now < D ->
  async_udp_exchange acc start lifetime qt jit smol fuel arrs now = (s, r, t, rest) ->
  now <= t /\ t <= D + eps /\ exch_ok r /\
  (s = [] /\ r = OutOfFuel \/ exists s', s = now :: s' /\ gaps now s') /\
  Forall (fun x => now <= x /\ x <= t) s /\
  (r = Err Timeout -> D <= last s now + T + eps).
Proof.
  induction fuel as [|f IH]; intros arrs now s r t rest Hq H1 H2 H; cbn [async_udp_exchange] in H.
  - inversion H; subst. repeat split; try lia; try exact I. left; split; reflexivity. constructor. discriminate.
  - rewrite cd_is_D in H. assert (Hq' := Hq). unfold qt_pos in Hq'. destruct qt as [q|] eqn:Eqt.
    + destruct (async_durations_are_configured smol lifetime q) as [_ Ead]. rewrite Ead in H.
      destruct (async_recv_loop acc jit (N.min (now + q) D) arrs now) as [[r1 t1] rest1] eqn:Er.
      pose proof (async_recv_bound _ _ _ _ _ _ Er) as Hb.
      destruct r1 as [[d fl]|e| | | |]; try contradiction.
      * inversion H; subst. destruct Hb as (Hb & Hc & Hd). repeat split; try lia; try assumption.
        -- right. exists []. split; [reflexivity|exact I].
        -- constructor; [lia|constructor].
        -- discriminate.
      * destruct Hb as (-> & Hb & Hc). cbn [is_timedout IO_TIMEDOUT] in H. replace (2 =? 2) with true in H by reflexivity.
        destruct ((now + q <? D) && (t1 <? D)) eqn:E.
        -- destruct (async_udp_exchange acc start lifetime (Some q) jit smol f rest1 t1) as [[[s2 r2] t2] rest2] eqn:E2.
           destruct (IH rest1 t1 s2 r2 t2 rest2 Hq ltac:(lia) ltac:(lia) E2) as (B1 & B2 & B3 & B4 & B5 & B6). inversion H; subst.
           repeat split; try lia; try assumption.
           ++ right. exists s2. split; [reflexivity|].
              destruct B4 as [[-> _]|[s' [-> B7]]]; [exact I|]. cbn [gaps]. unfold tmo. rewrite Eqt. repeat split; try lia. assumption.
           ++ constructor; [lia|]. eapply Forall_impl; [|exact B5]. cbn. intros x Hx. lia.
           ++ intro Hr. specialize (B6 Hr). destruct B4 as [[-> B4]|[s' [-> B7]]].
              ** rewrite Hr in B4. discriminate.
              ** change (last (now :: t1 :: s') now) with (last (t1 :: s') now).
                 rewrite (last_cons_default s' t1 now t1). assumption.
        -- inversion H; subst. cbn [exch_ok last]. unfold tmo. repeat split; try lia.
           ++ right. exists []. split; [reflexivity|exact I].
           ++ constructor; [lia|constructor].
    + destruct (async_recv_loop acc jit D arrs now) as [[r1 t1] rest1] eqn:Er.
      pose proof (async_recv_bound _ _ _ _ _ _ Er) as Hb.
      destruct r1 as [[d fl]|e| | | |]; try contradiction.
      * inversion H; subst. destruct Hb as (Hb & Hc & Hd). repeat split; try lia; try assumption.
        -- right. exists []. split; [reflexivity|exact I].
        -- constructor; [lia|constructor].
        -- discriminate.
      * destruct Hb as (-> & Hb & Hc). cbn [is_timedout IO_TIMEDOUT] in H. replace (2 =? 2) with true in H by reflexivity.
        inversion H; subst. cbn [exch_ok last]. unfold tmo. repeat split; try lia.
        -- right. exists []. split; [reflexivity|exact I].
        -- constructor; [lia|constructor].
Qed.

Theorem async_fuel_enough : forall fuel arrs now s r t rest, qt_pos -> start <= now -> now < D ->
  (N.to_nat (D - now) <= fuel)%nat ->
  async_udp_exchange acc start lifetime qt jit smol fuel arrs now = (s, r, t, rest) -> r <> OutOfFuel.
Proof.
  induction fuel as [|f IH]; intros arrs now s r t rest Hq H1 H2 Hf H; [lia|]. cbn [async_udp_exchange] in H.
  rewrite cd_is_D in H. assert (Hq' := Hq). unfold qt_pos in Hq'. destruct qt as [q|] eqn:Eqt.
  - destruct (async_durations_are_configured smol lifetime q) as [_ Ead]. rewrite Ead in H.
    destruct (async_recv_loop acc jit (N.min (now + q) D) arrs now) as [[r1 t1] rest1] eqn:Er.
    pose proof (async_recv_bound _ _ _ _ _ _ Er) as Hb.
    destruct r1 as [[d fl]|e| | | |]; try contradiction.
    + inversion H; subst. discriminate.
    + destruct Hb as (-> & Hb & Hc). cbn [is_timedout IO_TIMEDOUT] in H. replace (2 =? 2) with true in H by reflexivity.
      destruct ((now + q <? D) && (t1 <? D)) eqn:E.
      * destruct (async_udp_exchange acc start lifetime (Some q) jit smol f rest1 t1) as [[[s2 r2] t2] rest2] eqn:E2.
        inversion H; subst. eapply (IH rest1 t1); try eassumption; lia.
      * inversion H; subst. discriminate.
  - destruct (async_recv_loop acc jit D arrs now) as [[r1 t1] rest1] eqn:Er.
    pose proof (async_recv_bound _ _ _ _ _ _ Er) as Hb.
    destruct r1 as [[d fl]|e| | | |]; try contradiction.
    + inversion H; subst. discriminate.
    + destruct (is_timedout e); inversion H; subst; discriminate.
Qed.
(* ---------------------------------------------------------------- TCP under the same deadline *)
Definition tcp_ok (r : res (list byte)) : Prop := match r with Ok _ | Err _ => True | _ => False end.

Lemma tcp_ok_map_timeout r : tcp_ok r -> tcp_ok (map_timeout r).
Proof. destruct r as [x|e| | | |]; cbn; try trivial. intros _. destruct (is_timedout e); exact I. Qed.

Lemma tcp_timeout_cases n c : start <= c -> c <= n ->
  (D <= n + (c - start) /\ tcp_read_timeout (n - c) lifetime = Err Timeout) \/
  (exists tau, tcp_read_timeout (n - c) lifetime = Ok tau /\ 0 < tau /\ n + tau <= D + (c - start)).
Proof.
  intros H1 H2. unfold tcp_read_timeout, std_tcp_read_over, std_tcp_read_timeout_nounderflow, std_tcp_read_timeout.
  destruct (lifetime <=? n - c) eqn:E; [left; split; [lia|reflexivity]|].
  destruct (n - c <=? lifetime) eqn:E2; [|lia]. right. eexists. split; [reflexivity|lia].
Qed.

Lemma std_tcp_read_bound (timeout_at : N -> res N) lo :
  (forall n, lo <= n -> (timeout_at n = Err Timeout) \/ (exists tau, timeout_at n = Ok tau /\ 0 < tau /\ n + tau <= D)) ->
  forall need bs eof now got r t rest, lo <= now ->
  std_tcp_read jit proc timeout_at need bs eof now got = (r, t, rest) ->
  now <= t /\ t <= N.max now (D + eps) /\ tcp_ok r.
Proof.
  intros Hto. induction need as [|k IH]; intros bs eof now got r t rest Hlo H; cbn [std_tcp_read] in H.
  - inversion H; subst. repeat split; try lia.
  - destruct (Hto now Hlo) as [A|[tau [A [A1 A2]]]]; rewrite A in H; cbn [retype] in H.
    + inversion H; subst. repeat split; try lia.
    + pose proof (jit_le now). destruct bs as [|[t1 b] bs'].
      * destruct eof as [te|]; [destruct (te <? now + tau) eqn:E|]; inversion H; subst; repeat split; try lia.
      * destruct (t1 <? now + tau) eqn:E.
        -- pose proof (proc_le (N.max now t1)). apply IH in H; [|lia]. destruct H as (Ha & Hb & Hc). repeat split; try lia. assumption.
        -- inversion H; subst. repeat split; try lia.
Qed.

Lemma lifetime_left_at_cases n qs : start <= qs -> qs <= n ->
  (D <= n /\ lifetime_left_at n start qs lifetime = Err Timeout) \/
  (exists tau, lifetime_left_at n start qs lifetime = Ok tau /\ 0 < tau /\ n + tau <= D).
Proof.
  intros H1 H2. unfold lifetime_left_at, std_clock_lifetime, lifetime_left, std_lifetime_over, std_lifetime_left_nounderflow, std_lifetime_left.
  destruct (lifetime <=? n - start) eqn:E; [left; split; [lia|reflexivity]|].
  destruct (n - start <=? lifetime) eqn:E2; [|lia]. right. eexists. split; [reflexivity|lia].
Qed.

Theorem std_tcp_exchange_bound qs srv now r t : start <= qs -> qs <= now ->
  std_tcp_exchange start lifetime jit proc buf_len qs srv now = (r, t) ->
  now <= t /\ t <= N.max now (D + eps) /\ tcp_ok r.
Proof.
  intros H1 H2 H. unfold std_tcp_exchange in H.
  assert (Hp : forall n, qs <= n -> tcp_prefix_timeout_at n start qs lifetime = Err Timeout \/
            (exists tau, tcp_prefix_timeout_at n start qs lifetime = Ok tau /\ 0 < tau /\ n + tau <= D)).
  { intros n Hn. unfold tcp_prefix_timeout_at, std_clock_tcp_prefix.
    destruct (tcp_timeout_cases n start (N.le_refl _) ltac:(lia)) as [[_ A]|[tau [A [A1 A2]]]]; [left; assumption|right; exists tau; repeat split; try assumption; lia]. }
  assert (Hb : forall n, qs <= n -> tcp_body_timeout_at n start qs lifetime = Err Timeout \/
            (exists tau, tcp_body_timeout_at n start qs lifetime = Ok tau /\ 0 < tau /\ n + tau <= D)).
  { intros n Hn. unfold tcp_body_timeout_at, std_clock_tcp_body.
    destruct (tcp_timeout_cases n start (N.le_refl _) ltac:(lia)) as [[_ A]|[tau [A [A1 A2]]]]; [left; assumption|right; exists tau; repeat split; try assumption; lia]. }
  pose proof (jit_le now) as Hj.
  destruct (lifetime_left_at_cases now qs H1 H2) as [[A0 A]|[tau [A [A1 A2]]]]; rewrite A in H; cbn [retype] in H.
  - inversion H; subst. repeat split; lia.
  - destruct (match tp_accept srv with Some c => if c <? tau then Some (now + c) else None | None => None end) as [now1|] eqn:Ec.
    + assert (Hn1 : now <= now1 /\ now1 <= D).
      { destruct (tp_accept srv) as [c|]; [|discriminate]. destruct (c <? tau) eqn:E; [|discriminate]. inversion Ec; subst. lia. }
      destruct (lifetime_left_at_cases now1 qs H1 ltac:(lia)) as [[B0 B]|[tau1 [B [B1 B2]]]]; rewrite B in H; cbn [retype] in H.
      * inversion H; subst. repeat split; lia.
      * destruct (std_tcp_read jit proc (fun n => tcp_prefix_timeout_at n start qs lifetime) 2 (tp_bytes srv) (tp_eof srv) now1 []) as [[r2 now2] rest2] eqn:E2.
        destruct (std_tcp_read_bound _ qs Hp 2%nat (tp_bytes srv) (tp_eof srv) now1 [] r2 now2 rest2 ltac:(lia) E2) as (C1 & C2 & C3).
        destruct r2 as [prefix|e| | | |]; try contradiction.
        -- destruct (std_tcp_too_big (be_val prefix 0) buf_len).
           ++ inversion H; subst. repeat split; lia.
           ++ destruct (std_tcp_read jit proc (fun n => tcp_body_timeout_at n start qs lifetime) (N.to_nat (be_val prefix 0)) rest2 (tp_eof srv) now2 []) as [[r3 now3] rest3] eqn:E3.
              destruct (std_tcp_read_bound _ qs Hb (N.to_nat (be_val prefix 0)) rest2 (tp_eof srv) now2 [] r3 now3 rest3 ltac:(lia) E3) as (F1 & F2 & F3).
              inversion H; subst. repeat split; try lia. assumption.
        -- inversion H; subst. repeat split; lia.
    + inversion H; subst. repeat split; lia.
Qed.

Lemma async_tcp_read_bound : forall need bs eof now got r t rest, now <= D ->
  async_tcp_read start lifetime qt jit smol need bs eof now got = (r, t, rest) ->
  now <= t /\ t <= D + eps /\ tcp_ok r /\ match r with Ok _ => t <= D | _ => True end.
Proof.
  induction need as [|k IH]; intros bs eof now got r t rest H0 H; cbn [async_tcp_read] in H.
  - inversion H; subst. repeat split; lia.
  - rewrite cd_is_D in H. pose proof (jit_le D). destruct bs as [|[t1 b] bs'].
    + destruct eof as [te|]; [destruct (te <? D) eqn:E|]; inversion H; subst; repeat split; try lia.
    + destruct (t1 <? D) eqn:E.
      * apply IH in H; [|lia]. destruct H as (Ha & Hb & Hc & Hd). repeat split; try lia; assumption.
      * inversion H; subst. repeat split; lia.
Qed.

Theorem async_tcp_exchange_bound srv now r t : now <= D ->
  async_tcp_exchange start lifetime qt jit buf_len smol srv now = (r, t) ->
  now <= t /\ t <= D + eps /\ tcp_ok r.
Proof.
  intros H0 H. unfold async_tcp_exchange in H. rewrite cd_is_D in H. pose proof (jit_le D).
  destruct (match tp_accept srv with Some c => if now + c <? D then Some (now + c) else None | None => None end) as [now1|] eqn:Ec.
  - assert (Hn1 : now <= now1 /\ now1 <= D).
    { destruct (tp_accept srv) as [c|]; [|discriminate]. destruct (now + c <? D) eqn:E; [|discriminate]. inversion Ec; subst. lia. }
    destruct (async_tcp_read start lifetime qt jit smol 2 (tp_bytes srv) (tp_eof srv) now1 []) as [[r2 now2] rest2] eqn:E2.
    destruct (async_tcp_read_bound 2%nat (tp_bytes srv) (tp_eof srv) now1 [] r2 now2 rest2 ltac:(lia) E2) as (C1 & C2 & C3 & C4).
    destruct r2 as [prefix|e| | | |]; try contradiction.
    + destruct (async_tcp_too_big (be_val prefix 0) buf_len).
      * inversion H; subst. repeat split; lia.
      * destruct (async_tcp_read start lifetime qt jit smol (N.to_nat (be_val prefix 0)) rest2 (tp_eof srv) now2 []) as [[r3 now3] rest3] eqn:E3.
        destruct (async_tcp_read_bound (N.to_nat (be_val prefix 0)) rest2 (tp_eof srv) now2 [] r3 now3 rest3 C4 E3) as (F1 & F2 & F3 & _).
        inversion H; subst. repeat split; try lia. assumption.
    + inversion H; subst. repeat split; lia.
  - inversion H; subst. repeat split; lia.
Qed.

Lemma async_ok_time : forall fuel arrs now s x t rest, now < D ->
  async_udp_exchange acc start lifetime qt jit smol fuel arrs now = (s, Ok x, t, rest) -> t <= D.
Proof.
  induction fuel as [|f IH]; intros arrs now s x t rest H2 H; cbn [async_udp_exchange] in H; [inversion H|].
  rewrite cd_is_D in H. destruct qt as [q|] eqn:Eqt.
  - destruct (async_durations_are_configured smol lifetime q) as [_ Ead]. rewrite Ead in H.
    destruct (async_recv_loop acc jit (N.min (now + q) D) arrs now) as [[r1 t1] rest1] eqn:Er.
    pose proof (async_recv_bound _ _ _ _ _ _ Er) as Hb.
    destruct r1 as [[d fl]|e| | | |]; try contradiction.
    + inversion H; subst. lia.
    + destruct (is_timedout e); [|inversion H]. destruct ((now + q <? D) && (t1 <? D)) eqn:E; [|inversion H].
      destruct (async_udp_exchange acc start lifetime (Some q) jit smol f rest1 t1) as [[[s2 r2] t2] rest2] eqn:E2.
      inversion H; subst. eapply (IH rest1 t1); [|eassumption]. lia.
  - destruct (async_recv_loop acc jit D arrs now) as [[r1 t1] rest1] eqn:Er.
    pose proof (async_recv_bound _ _ _ _ _ _ Er) as Hb.
    destruct r1 as [[d fl]|e| | | |]; try contradiction.
    + inversion H; subst. lia.
    + destruct (is_timedout e); inversion H.
Qed.

(* ---------------------------------------------------------------- the whole call *)
(* whatever arrives over UDP, whatever the TCP peer does: the call returns a value or an error no
   later than start + lifetime + eps *)
Theorem std_query_deadline fuel strategy arrs srv sends ev r t :
  qt_pos -> (N.to_nat lifetime < fuel)%nat ->
  std_query acc start lifetime qt jit proc buf_len fuel strategy arrs srv = (sends, ev, r, t) ->
  start <= t /\ t <= D + eps /\ tcp_ok r.
Proof.
  intros Hq Hf H. unfold std_query in H. destruct (std_udp_first strategy).
  - destruct (std_udp_exchange acc start lifetime qt jit proc fuel arrs start) as [[[s1 r1] t1] rest1] eqn:E1.
    destruct (std_exchange_bounds _ _ _ _ _ _ _ Hq (N.le_refl _) E1) as (B1 & B2 & B3 & B4 & B5 & _).
    assert (Hf' : (N.to_nat (D - start) < fuel)%nat) by lia.
    pose proof (std_fuel_enough fuel arrs start s1 r1 t1 rest1 Hq (N.le_refl _) Hf' E1) as Hnf.
    destruct r1 as [[d fl]|e| | | |]; cbn [exch_ok] in B3; try contradiction; try (exfalso; apply Hnf; reflexivity).
    + destruct (std_tc_fallback (flag_tc fl) (std_tcp_allowed strategy)).
      * destruct (std_tcp_exchange start lifetime jit proc buf_len (last s1 start) srv t1) as [r2 t2] eqn:E2.
        assert (Hl : start <= last s1 start /\ last s1 start <= t1).
        { destruct B4 as [->|[s' [-> _]]]; [cbn [last]; lia|].
          assert (Hin : In (last (start :: s') start) (start :: s')).
          { clear. generalize start at 1 3 as a. induction s' as [|y s' IHs]; intro a; [left; reflexivity|].
            change (In (last (y :: s') start) (a :: y :: s')). right. apply IHs. }
          rewrite Forall_forall in B5. apply B5 in Hin. lia. }
        destruct (std_tcp_exchange_bound _ _ _ _ _ (proj1 Hl) (proj2 Hl) E2) as (C1 & C2 & C3).
        inversion H; subst. repeat split; try lia. apply tcp_ok_map_timeout; assumption.
      * inversion H; subst. repeat split; try lia.
    + subst e. inversion H; subst. cbn. repeat split; try lia.
  - destruct (std_tcp_exchange start lifetime jit proc buf_len start srv start) as [r2 t2] eqn:E2.
    destruct (std_tcp_exchange_bound _ _ _ _ _ (N.le_refl _) (N.le_refl _) E2) as (C1 & C2 & C3).
    inversion H; subst. repeat split; try lia. apply tcp_ok_map_timeout; assumption.
Qed.

Theorem async_query_deadline fuel strategy arrs srv sends ev r t :
  qt_pos -> 0 < lifetime -> (N.to_nat lifetime <= fuel)%nat ->
  async_query acc start lifetime qt jit buf_len smol fuel strategy arrs srv = (sends, ev, r, t) ->
  start <= t /\ t <= D + eps /\ tcp_ok r.
Proof.
  intros Hq Hl Hf H. unfold async_query in H. destruct (async_udp_first strategy).
  - destruct (async_udp_exchange acc start lifetime qt jit smol fuel arrs start) as [[[s1 r1] t1] rest1] eqn:E1.
    assert (Hs'' : start < D) by lia.
    destruct (async_exchange_bounds fuel arrs start s1 r1 t1 rest1 Hq (N.le_refl _) Hs'' E1) as (B1 & B2 & B3 & B4 & B5 & _).
    assert (Hf' : (N.to_nat (D - start) <= fuel)%nat) by lia. assert (Hs' : start < D) by lia.
    pose proof (async_fuel_enough fuel arrs start s1 r1 t1 rest1 Hq (N.le_refl _) Hs' Hf' E1) as Hnf.
    destruct r1 as [[d fl]|e| | | |]; cbn [exch_ok] in B3; try contradiction; try (exfalso; apply Hnf; reflexivity).
    + destruct (async_tc_fallback (flag_tc fl) (async_tcp_allowed strategy)).
      * destruct (async_tcp_exchange start lifetime qt jit buf_len smol srv t1) as [r2 t2] eqn:E2.
        destruct (async_tcp_exchange_bound _ _ _ _ (async_ok_time fuel arrs start s1 (d, fl) t1 rest1 Hs'' E1) E2) as (C1 & C2 & C3).
        inversion H; subst. repeat split; try lia. assumption.
      * inversion H; subst. repeat split; try lia.
    + subst e. inversion H; subst. cbn. repeat split; try lia.
  - destruct (async_tcp_exchange start lifetime qt jit buf_len smol srv start) as [r2 t2] eqn:E2.
    assert (Hs0 : start <= D) by lia.
    destruct (async_tcp_exchange_bound srv start r2 t2 Hs0 E2) as (C1 & C2 & C3).
    inversion H; subst. repeat split; try lia. assumption.
Qed.
End Slack.
End TP.

(* ================================================================ the schedule, in closed form *)
(* the k-th transmission, if it happens, is at s + k q, and every s + k q below the bound happens *)
Lemma schedule_nth q bound : forall fuel s k x,
  nth_error (schedule fuel s q bound) k = Some x -> x = s + N.of_nat k * q /\ (k = 0%nat \/ x < bound).
Proof.
  induction fuel as [|f IH]; intros s k x H; cbn [schedule] in H; [destruct k; discriminate|].
  destruct k as [|k]; cbn [nth_error] in H.
  - inversion H; subst. split; [lia|left; reflexivity].
  - destruct (s + q <? bound) eqn:E; [|destruct k; discriminate].
    destruct (IH _ _ _ H) as [-> Hb]. split; [lia|]. right. destruct Hb as [->|Hb]; lia.
Qed.
Lemma schedule_complete q bound : 0 < q -> forall fuel s k,
  (N.to_nat (bound - s) < fuel)%nat -> s + N.of_nat k * q < bound ->
  nth_error (schedule fuel s q bound) k = Some (s + N.of_nat k * q).
Proof.
  intros Hq. induction fuel as [|f IH]; intros s k Hf Hk; [lia|]. cbn [schedule].
  destruct k as [|k]; cbn [nth_error]; [f_equal; lia|].
  destruct (s + q <? bound) eqn:E; [|lia].
  rewrite IH; [f_equal; lia|lia|lia].
Qed.

(* ================================================================ only answers matter *)
Section Junk.
Variable good : list byte -> option N.
Definition answers (a : arrival) : bool := match good (snd a) with Some _ => true | None => false end.
Lemma first_good_filter arrs : first_good good (filter answers arrs) = first_good good arrs.
Proof.
  induction arrs as [|[t d] r IH]; [reflexivity|]. cbn [filter first_good]. unfold answers at 1. cbn [snd].
  destruct (good d) eqn:E; cbn [first_good]; [rewrite E; reflexivity|exact IH].
Qed.
(* the specification looks at the queue only through its first answering datagram: datagrams that
   do not answer the query can be added or removed anywhere without changing transmissions,
   result or duration *)
Theorem spec_udp_junk fuel start lifetime qt arrs arrs' :
  first_good good arrs = first_good good arrs' ->
  spec_udp good fuel start lifetime qt arrs = spec_udp good fuel start lifetime qt arrs'.
Proof. intro H. unfold spec_udp. rewrite H. reflexivity. Qed.
Corollary spec_udp_filter fuel start lifetime qt arrs :
  spec_udp good fuel start lifetime qt (filter answers arrs) = spec_udp good fuel start lifetime qt arrs.
Proof. apply spec_udp_junk, first_good_filter. Qed.
End Junk.

Lemma Forall2_impl' {A B} (P Q : A -> B -> Prop) l l' : (forall a b, P a b -> Q a b) -> Forall2 P l l' -> Forall2 Q l l'.
Proof. intros H F. induction F; constructor; auto. Qed.

Lemma sorted_suffix : forall pre rest lo, sorted_from lo (pre ++ rest) -> exists lo', sorted_from lo' rest.
Proof.
  induction pre as [|[t d] pre IH]; intros rest lo H; [exists lo; exact H|].
  cbn [app sorted_from] in H. destruct H as [_ H]. eapply IH; eassumption.
Qed.

(* ================================================================ the real filter *)
Definition good_of (std : bool) (q : tquery) (d : list byte) : option N :=
  match filter_of std q d with Ok o => o | _ => None end.
Lemma filter_good std q d : filter_of std q d = Ok (good_of std q d).
Proof. unfold good_of, filter_of. destruct (accept_total std (tq_id q) (tq_name q) (tq_type q) (tq_class q) d) as [o ->]. reflexivity. Qed.

Definition zero_jit : N -> N := fun _ => 0.
Definition exchange_of (std smol : bool) (q : tquery) (lifetime : N) (qt : option N) (jit proc : N -> N) (queue : list arrival) :=
  if std then std_udp_exchange (filter_of true q) (tq_start q) lifetime qt jit proc (exchange_fuel lifetime) queue (tq_start q)
  else async_udp_exchange (filter_of false q) (tq_start q) lifetime qt jit smol (exchange_fuel lifetime) queue (tq_start q).
Definition outcome_of (x : list N * spec_result * N) : list N * res (list byte * N) * N :=
  (fst (fst x), res_of (snd (fst x)), snd x).

(* with exact timers every client does what Spec/Retry.v says, on every queue in delivery order *)
Theorem exchange_refines_spec std smol q lifetime qt queue lo :
  qt_pos qt -> 0 < lifetime -> sorted_from lo queue ->
  exists rest, exchange_of std smol q lifetime qt zero_jit zero_jit queue =
    (outcome_of (spec_udp (good_of std q) (exchange_fuel lifetime) (tq_start q) lifetime qt queue), rest) /\
    exists pre, queue = pre ++ rest.
Proof.
  intros Hq Hl Hs. unfold exchange_of, outcome_of.
  assert (Hf : (N.to_nat lifetime < exchange_fuel lifetime)%nat) by (unfold exchange_fuel; lia).
  destruct std.
  - destruct (std_exact (good_of true q) (filter_of true q) (filter_good true q) (tq_start q) lifetime qt smol
                (exchange_fuel lifetime) queue lo Hq Hl Hs Hf) as [rest E].
    exists rest. split; [exact E|]. eapply std_exchange_suffix; [apply filter_good|exact E].
  - destruct (async_exact (good_of false q) (filter_of false q) (filter_good false q) (tq_start q) lifetime qt smol
                (exchange_fuel lifetime) queue (tq_start q) lo Hq Hs (N.le_refl _) ltac:(lia) ltac:(lia)) as [rest E].
    exists rest. split; [rewrite spec_udp_from; exact E|]. eapply async_exchange_suffix; [apply filter_good|exact E].
Qed.

(* ================================================================ histories of queries on one client *)
(* every query of the history — whatever the earlier ones left in the shared queue: late answers,
   answers to other questions, junk — does what the specification says of a client that receives
   only the datagrams answering THIS query (its id, its question) *)
Theorem history_refines_spec std smol lifetime qt : qt_pos qt -> 0 < lifetime ->
  forall qs queue lo, sorted_from lo queue ->
  Forall2 (fun q o => exists queue_k pre, queue = pre ++ queue_k /\
             o = outcome_of (spec_udp (good_of std q) (exchange_fuel lifetime) (tq_start q) lifetime qt
                               (filter (answers (good_of std q)) queue_k)))
          qs (udp_history std smol lifetime qt zero_jit zero_jit qs queue).
Proof.
  intros Hq Hl. induction qs as [|q more IH]; intros queue lo Hs; cbn [udp_history]; [constructor|].
  destruct (exchange_refines_spec std smol q lifetime qt queue lo Hq Hl Hs) as [rest [E [pre Hp]]].
  unfold exchange_of in E. rewrite E. constructor.
  - exists queue, []. split; [reflexivity|]. rewrite spec_udp_filter. reflexivity.
  - subst queue. destruct (sorted_suffix _ _ _ Hs) as [lo' Hs'].
    eapply Forall2_impl'; [|apply (IH rest lo' Hs')].
    intros q' o [qk [pre' [-> Ho]]]. exists qk, (pre ++ pre'). split; [rewrite app_assoc; reflexivity|exact Ho].
Qed.

(* ================================================================ late timers, real filter, both families *)
Lemma std_sends_nonempty good acc (Hacc : forall d, acc d = Ok (good d)) start lifetime qt jit proc f arrs now s r t rest :
  qt_pos qt -> start <= now -> now < start + lifetime ->
  std_udp_exchange acc start lifetime qt jit proc (S f) arrs now = (s, r, t, rest) -> exists s', s = now :: s'.
Proof.
  intros Hq H1 H2 H. cbn [std_udp_exchange] in H.
  destruct (query_left_at_cases now start now lifetime qt H1 (N.le_refl _)) as [[A0 A]|[[A0 [A1 A]]|[A0 [A1 A]]]]; try lia.
  - exfalso. unfold qt_pos in Hq. unfold tmo in A1. destruct qt; lia.
  - rewrite A in H. destruct (std_recv_loop acc start lifetime qt jit proc now arrs now) as [[r1 t1] rest1].
    destruct r1 as [x|e| | | |]; try (inversion H; subst; eexists; reflexivity).
    destruct (is_timedout e); [|inversion H; subst; eexists; reflexivity].
    destruct (std_udp_exchange acc start lifetime qt jit proc f rest1 t1) as [[[s2 r2] t2] rest2]. inversion H; subst. eexists; reflexivity.
Qed.

(* timers may fire up to eps late: the first transmission is at the start of the call, consecutive
   transmissions are between one query timeout and one query timeout plus eps apart and all earlier
   than start + lifetime, the exchange ends with an answering datagram or with Timeout no later than
   start + lifetime + eps, and a Timeout is reported only when the last transmission was within one
   query timeout (plus eps) of the end of the lifetime — the retries were not given up early *)
Theorem exchange_with_slack std smol q lifetime qt jit proc eps queue s r t rest :
  (forall x, jit x <= eps) -> (forall x, proc x <= eps) -> qt_pos qt -> 0 < lifetime ->
  exchange_of std smol q lifetime qt jit proc queue = (s, r, t, rest) ->
  tq_start q <= t /\ t <= tq_start q + lifetime + eps /\
  match r with Ok (d, fl) => good_of std q d = Some fl | Err e => e = Timeout | _ => False end /\
  (exists s', s = tq_start q :: s' /\ gaps (tq_start q) lifetime qt eps (tq_start q) s') /\
  Forall (fun x => tq_start q <= x /\ x <= t) s /\
  (r = Err Timeout -> tq_start q + lifetime <= last s (tq_start q) + tmo lifetime qt + eps).
Proof.
  intros Hj Hp Hq Hl H. unfold exchange_of in H. destruct std.
  - destruct (std_exchange_bounds _ _ (filter_good true q) _ _ _ _ _ _ Hj Hp _ _ _ _ _ _ _ Hq (N.le_refl _) H) as (B1 & B2 & B3 & B4 & B5 & B6).
    assert (Hf : (N.to_nat (tq_start q + lifetime - tq_start q) < exchange_fuel lifetime)%nat) by (unfold exchange_fuel; lia).
    pose proof (std_fuel_enough _ _ (filter_good true q) _ _ _ _ _ _ Hj Hp _ _ _ _ _ _ _ Hq (N.le_refl _) Hf H) as Hnf.
    assert (Hs : tq_start q < tq_start q + lifetime) by lia.
    destruct (std_sends_nonempty _ _ (filter_good true q) _ _ _ _ _ _ _ _ _ _ _ _ Hq (N.le_refl _) Hs H) as [s' ->].
    repeat split; try lia; try assumption.
    + destruct r as [[d fl]|e| | | |]; cbn [exch_ok] in B3; try contradiction; try assumption; try (apply Hnf; reflexivity).
    + destruct B4 as [B4|[s'' [B4 [_ B7]]]]; [discriminate|]. inversion B4; subst. exists s''. split; [reflexivity|assumption].
  - assert (Hs : tq_start q < tq_start q + lifetime) by lia.
    destruct (async_exchange_bounds _ _ (filter_good false q) _ _ _ _ _ _ _ Hj Hp _ _ _ _ _ _ _ Hq (N.le_refl _) Hs H) as (B1 & B2 & B3 & B4 & B5 & B6).
    assert (Hf : (N.to_nat (tq_start q + lifetime - tq_start q) <= exchange_fuel lifetime)%nat) by (unfold exchange_fuel; lia).
    pose proof (async_fuel_enough _ _ (filter_good false q) _ _ _ _ _ _ _ Hj Hp _ _ _ _ _ _ _ Hq (N.le_refl _) Hs Hf H) as Hnf.
    repeat split; try lia; try assumption.
    + destruct r as [[d fl]|e| | | |]; cbn [exch_ok] in B3; try contradiction; try assumption; try (apply Hnf; reflexivity).
    + destruct B4 as [[_ B4]|[s'' [B4 B7]]]; [contradiction|]. exists s''. split; assumption.
Qed.

(* whatever arrives over UDP and whatever the TCP peer sends or withholds, the call returns — a
   response or an error — no later than start + lifetime + eps *)
Theorem client_query_deadline std smol q lifetime qt jit proc eps buf_len strategy arrs srv sends ev r t :
  (forall x, jit x <= eps) -> (forall x, proc x <= eps) -> qt_pos qt -> 0 < lifetime ->
  client_query_timed std smol q lifetime qt jit proc buf_len strategy arrs srv = (sends, ev, r, t) ->
  tq_start q <= t /\ t <= tq_start q + lifetime + eps /\ match r with Ok _ | Err _ => True | _ => False end.
Proof.
  intros Hj Hp Hq Hl H. unfold client_query_timed in H.
  assert (Hf : (N.to_nat lifetime < exchange_fuel lifetime)%nat) by (unfold exchange_fuel; lia).
  destruct std.
  - exact (std_query_deadline _ _ (filter_good true q) _ _ _ _ _ _ _ Hj Hp _ _ _ _ _ _ _ _ Hq Hf H).
  - assert (Hf' : (N.to_nat lifetime <= exchange_fuel lifetime)%nat) by lia.
    exact (async_query_deadline _ _ (filter_good false q) _ _ _ _ _ _ _ _ Hj Hp _ _ _ _ _ _ _ _ Hq Hl Hf' H).
Qed.
