(* Proofs/RecordFull.v — a whole record, with its owner name compressed in ANY legal way:
   if the owner name at the cursor has a legal RFC expansion (Spec/WireName.v) and is followed by
   the fixed part and the uncompressed record data of any encodable value of any of the 17 types,
   then decoding owner (either name type), header and typed data yields exactly the labels, the
   four fields and the value, and stops right behind the record. *)
From Coq Require Import ZArith.
From RsdnsModel Require Import Base GenConst GenCursor GenTypes Cursor Names Labels Header Tracker RData Reader Writer.
From RsdnsModel.Spec Require Import WireName RDataWire.
From RsdnsModel.Proofs Require Import CursorSafe ListN LabelsSound WriterSafe WriterLayout RoundTrip RecordRT RDataRT LabelsComplete SpecExec ParseSpec.
From Coq Require Import ZifyBool ZifyN ZifyNat.
Open Scope N_scope.

Theorem record_roundtrip msg nk c ls r pre post ty cl ttl a p s :
  whole msg c -> expands msg None 0 (pos c) ls -> resume_at msg (pos c) r ->
  Forall (fun l => label_ok (snd l) = true) ls -> wire_len (map snd ls) <= 255 ->
  msg = pre ++ fixed_wire ty cl ttl (lenN (rdata_enc a)) ++ rdata_enc a ++ post -> lenN pre = r ->
  rdata_type_ok ty a = true -> ardata_ok a = true ->
  ty < 65536 -> cl < 65536 -> ttl < 4294967296 -> lenN (rdata_enc a) < 65536 ->
  exists c1 c2 c3 mk m,
    read_name msg nk c = Ok (join_labels (map snd ls), c1) /\
    m_raw_marker msg p s c1 = (c2, Ok mk) /\
    m_rtype mk = ty /\ m_rclass mk = cl /\ m_ttl mk = ttl /\ m_rdlen mk = lenN (rdata_enc a) /\ m_section mk = s /\
    read_rdata msg ty (m_rdlen mk) = Some m /\ m c2 = (c3, Ok (rdata_val a)) /\
    pos c3 = r + 10 + lenN (rdata_enc a).
Proof.
  intros Hw Hex Hr Hok Hwl Hm Hpre Hty Ha Bty Bcl Bttl Brd.
  pose proof (whole_cwf msg c Hw) as Hc. pose proof (whole_vis msg c Hw) as Hv.
  rewrite <- Hv in Hex.
  destruct (read_name_complete msg nk c ls Hc Hex Hok Hwl) as (c1 & E1 & R1 & L1 & O1).
  rewrite Hv in R1. assert (Hp1 : pos c1 = r) by (exact (resume_at_det msg _ _ R1 _ Hr)).
  destruct Hw as [Hl Ho].
  assert (Hc1 : cwf msg c1) by (unfold cwf; rewrite L1, O1, Hl, Ho; split; [lia|exact I]).
  assert (Hlen : lenN msg = r + 10 + lenN (rdata_enc a) + lenN post).
  { assert (E : lenN msg = lenN (pre ++ fixed_wire ty cl ttl (lenN (rdata_enc a)) ++ rdata_enc a ++ post)) by (rewrite <- Hm; reflexivity).
    rewrite !lenN_app, lenN_fixed_wire in E. lia. }
  pose proof (raw_marker_plain msg pre (rdata_enc a ++ post) c1 p s ty cl ttl (lenN (rdata_enc a)) Hm Hc1 ltac:(lia) ltac:(lia) Bty Bcl Bttl Brd) as E2.
  destruct (rdata_roundtrip msg ty a Hty Ha) as (m & Em & Hcons).
  set (c2 := c_set_pos c1 (lenN pre + 10)) in *.
  assert (Hm3 : msg = (pre ++ fixed_wire ty cl ttl (lenN (rdata_enc a))) ++ rdata_enc a ++ post) by (rewrite <- app_assoc; exact Hm).
  assert (Hc2 : cwf msg c2) by (apply cwf_set_pos; assumption).
  pose proof (Hcons _ _ c2 Hm3 Hc2 ltac:(unfold c2; cbn [orig c_set_pos]; congruence)
                ltac:(unfold c2; cbn [pos c_set_pos]; rewrite lenN_app, lenN_fixed_wire; reflexivity)
                ltac:(unfold c2; cbn [lim c_set_pos]; rewrite lenN_app, lenN_fixed_wire; lia)) as E3.
  exists c1, c2, (c_set_pos c2 (lenN (pre ++ fixed_wire ty cl ttl (lenN (rdata_enc a))) + lenN (rdata_enc a))),
         (mkMarker p (lenN pre) ty cl ttl (lenN (rdata_enc a)) s), m.
  split; [exact E1|]. split; [exact E2|]. repeat (split; [reflexivity|]). split; [exact Em|]. split; [exact E3|].
  cbn [pos c_set_pos]. rewrite lenN_app, lenN_fixed_wire. lia.
Qed.
